import PV.C09.Spec
set_option linter.unusedSimpArgs false
namespace PV.C09

theorem get_set_same (d : Disk) (p : Path) (cs : List Chunk) : (d.set p cs).get p = some cs := by
  induction d with
  | nil => simp [Disk.set, Disk.get]
  | cons e rest ih =>
    obtain ⟨q, c0⟩ := e
    simp only [Disk.set]
    split
    · simp [Disk.get]
    · rename_i hq; simp [Disk.get, hq]; exact ih

theorem get_set_ne (d : Disk) (p p' : Path) (cs : List Chunk) (h : p' ≠ p) :
    (d.set p cs).get p' = d.get p' := by
  induction d with
  | nil => simp [Disk.set, Disk.get, h.symm]
  | cons e rest ih =>
    obtain ⟨q, c0⟩ := e
    simp only [Disk.set]
    split
    · rename_i hq; subst hq; simp [Disk.get, h.symm]
    · rename_i hq
      simp only [Disk.get]
      split
      · rfl
      · exact ih

theorem get_del_same (d : Disk) (p : Path) : (d.del p).get p = none := by
  induction d with
  | nil => simp [Disk.del, Disk.get]
  | cons e rest ih =>
    obtain ⟨q, c0⟩ := e
    simp only [Disk.del, List.filter] at ih ⊢
    split
    · rename_i hq
      have : q ≠ p := by simpa [bne_iff_ne] using hq
      simp [Disk.get, this]; exact ih
    · exact ih

theorem get_del_ne (d : Disk) (p p' : Path) (h : p' ≠ p) : (d.del p).get p' = d.get p' := by
  induction d with
  | nil => simp [Disk.del, Disk.get]
  | cons e rest ih =>
    obtain ⟨q, c0⟩ := e
    simp only [Disk.del, List.filter] at ih ⊢
    split
    · simp only [Disk.get]
      split
      · rfl
      · exact ih
    · rename_i hq
      have : q = p := by simpa [bne_iff_ne] using hq
      subst this
      simp [Disk.get, h.symm]; exact ih



/-! ### appending log records -/

def fold (s : List Nat) (rs : List Rec) : List Nat := rs.foldl (fun b r => r.apply b) s

theorem replay_only_logs (rs : List Rec) : ∀ s : List Nat, replay s (rs.map Chunk.log) = some (fold s rs) := by
  induction rs with
  | nil => intro s; simp [replay, fold]
  | cons r rest ih =>
    intro s
    simp only [List.map_cons, replay, fold, List.foldl_cons]
    exact ih _

theorem replay_logs (cs : List Chunk) (rs : List Rec) : ∀ (b s0 : List Nat),
    replay b cs = some s0 → replay b (cs ++ rs.map Chunk.log) = some (fold s0 rs) := by
  induction cs with
  | nil =>
    intro b s0 h
    simp only [replay] at h
    cases h
    simpa using replay_only_logs rs b
  | cons c rest ih =>
    intro b s0 h
    cases c with
    | log r => simp only [List.cons_append, replay] at h ⊢; exact ih _ _ h
    | image _ => simp [replay] at h
    | entry _ => simp [replay] at h

def logOps (i : Nat) (rs : List Rec) : List FsOp := rs.map (fun r => FsOp.write (.data i) (.log r))

theorem applyAll_logs (i : Nat) (rs : List Rec) : ∀ (d : Disk) (cs : List Chunk), d.get (.data i) = some cs →
    (d.applyAll (logOps i rs)).get (.data i) = some (cs ++ rs.map Chunk.log) ∧
    ∀ p, p ≠ .data i → (d.applyAll (logOps i rs)).get p = d.get p := by
  induction rs with
  | nil => intro d cs h; simp [logOps, Disk.applyAll, h]
  | cons r rest ih =>
    intro d cs h
    simp only [logOps, List.map_cons, Disk.applyAll, List.foldl_cons] at ih ⊢
    have h1 : (d.apply (.write (.data i) (.log r))).get (.data i) = some (cs ++ [.log r]) := by
      simp [Disk.apply, get_set_same, h]
    obtain ⟨a1, a2⟩ := ih (d.apply (.write (.data i) (.log r))) (cs ++ [.log r]) h1
    refine ⟨by simpa using a1, ?_⟩
    intro p hp
    rw [a2 p hp]
    simp [Disk.apply, get_set_ne _ _ _ _ hp]

theorem logOps_take (i : Nat) (rs : List Rec) (j : Nat) : (logOps i rs).take j = logOps i (rs.take j) := by
  simp [logOps, List.map_take]

/-! ### what the fragment-level functions do to the bits -/

theorem incr_bits (f : Frag) (n : Nat) : (f.incr n).bits = f.bits := by
  unfold Frag.incr; split <;> rfl

theorem addBit_bits (f : Frag) (p : Nat) : (f.addBit p).1.bits = fold f.bits (f.addBit p).2 := by
  unfold Frag.addBit
  simp only [fold, List.foldl_cons, List.foldl_nil, Rec.apply]
  split <;> simp [incr_bits]

theorem removeBit_bits (f : Frag) (p : Nat) : (f.removeBit p).1.bits = fold f.bits (f.removeBit p).2 := by
  unfold Frag.removeBit
  simp only [fold, List.foldl_cons, List.foldl_nil, Rec.apply]
  split <;> simp [incr_bits]

theorem fold_append (s : List Nat) (a b : List Rec) : fold s (a ++ b) = fold (fold s a) b := by
  simp [fold, List.foldl_append]

theorem bitSeq_bits (l : List (Bool × Nat)) : ∀ f : Frag, (f.bitSeq l).1.bits = fold f.bits (f.bitSeq l).2 := by
  induction l with
  | nil => intro f; simp [Frag.bitSeq, fold]
  | cons x rest ih =>
    intro f
    obtain ⟨isSet, p⟩ := x
    simp only [Frag.bitSeq]
    rw [fold_append, ih]
    cases isSet
    · simp only [Bool.false_eq_true, if_false]; rw [removeBit_bits]
    · simp only [if_true]; rw [addBit_bits]

theorem importPositions_bits (f : Frag) (set clear : List Nat) :
    (f.importPositions set clear).1.bits = fold f.bits (f.importPositions set clear).2 := by
  unfold Frag.importPositions
  simp only
  rw [fold_append]
  by_cases h1 : set = [] <;> by_cases h2 : clear = [] <;>
    simp [h1, h2, fold, Rec.apply, incr_bits]



theorem listSet_get {α : Type} (l : List α) (i : Nat) (v : α) (j : Nat) :
    (listSet l i v)[j]? = if j = i then (l[j]?).map (fun _ => v) else l[j]? := by
  unfold listSet
  rw [List.getElem?_mapIdx]
  cases h : l[j]? with
  | none => simp
  | some x => by_cases e : j = i <;> simp [e]

theorem listSet_length {α : Type} (l : List α) (i : Nat) (v : α) : (listSet l i v).length = l.length := by
  simp [listSet]

/-- the common shape of a call that appends records to fragment i -/
structure LogStep (s s' : Sys) (i : Nat) (rs : List Rec) : Prop where
  ex : ∃ f f', s.frags[i]? = some f ∧ s'.frags = listSet s.frags i f' ∧ f'.bits = fold f.bits rs
  keys : s'.keys = s.keys
  keysOpen : s'.keysOpen = s.keysOpen

theorem logStep_mk (s : Sys) (i : Nat) (f : Frag) (r : Frag × List Rec) (hf : s.frags[i]? = some f)
    (hb : r.1.bits = fold f.bits r.2) :
    LogStep s ({ ({ s with err := false } : Sys) with frags := listSet s.frags i r.1 }) i r.2 :=
  ⟨⟨f, r.1, hf, rfl, hb⟩, rfl, rfl⟩

theorem stepE_logs (s s' : Sys) (op : AOp) (i : Nat) (rs : List Rec)
    (h : stepE s op = some (s', .logs i rs)) : LogStep s s' i rs := by
  cases op with
  | fopen kind m => simp [stepE] at h
  | set i0 r c =>
    simp only [stepE, Option.bind_eq_some_iff] at h
    obtain ⟨f, hf, h⟩ := h
    split at h
    · cases h
    · simp only [Option.some.injEq, Prod.mk.injEq, Emit.logs.injEq] at h
      obtain ⟨h1, h2, h3⟩ := h; subst h1 h2 h3
      exact logStep_mk s i0 f _ hf (addBit_bits f _)
    · split at h
      · simp only [Option.some.injEq, Prod.mk.injEq, Emit.logs.injEq] at h
        obtain ⟨h1, h2, h3⟩ := h; subst h1 h2 h3
        exact logStep_mk s i0 f _ hf (addBit_bits f _)
      · split at h
        · simp only [Option.some.injEq, Prod.mk.injEq, Emit.logs.injEq] at h
          obtain ⟨h1, h2, h3⟩ := h; subst h1 h2 h3
          exact logStep_mk s i0 f _ hf (addBit_bits f _)
        · simp only [Option.some.injEq, Prod.mk.injEq, Emit.logs.injEq] at h
          obtain ⟨h1, h2, h3⟩ := h; subst h1 h2 h3
          exact logStep_mk s i0 f _ hf (bitSeq_bits _ f)
      · simp at h
  | clear i0 r c =>
    simp only [stepE, Option.bind_eq_some_iff] at h
    obtain ⟨f, hf, h⟩ := h
    split at h
    · cases h
    · simp only [Option.some.injEq, Prod.mk.injEq, Emit.logs.injEq] at h
      obtain ⟨h1, h2, h3⟩ := h; subst h1 h2 h3
      exact logStep_mk s i0 f _ hf (removeBit_bits f _)
  | setval i0 col v =>
    simp only [stepE, Option.bind_eq_some_iff] at h
    obtain ⟨f, hf, h⟩ := h
    split at h
    · simp only [Option.some.injEq, Prod.mk.injEq, Emit.logs.injEq] at h
      obtain ⟨h1, h2, h3⟩ := h; subst h1 h2 h3
      exact logStep_mk s i0 f _ hf (bitSeq_bits _ f)
    · cases h
  | imp i0 rows cols clear =>
    simp only [stepE, Option.bind_eq_some_iff] at h
    obtain ⟨f, hf, h⟩ := h
    split at h
    · cases h
    · simp only [Option.some.injEq, Prod.mk.injEq, Emit.logs.injEq] at h
      obtain ⟨h1, h2, h3⟩ := h; subst h1 h2 h3
      refine logStep_mk s i0 f _ hf ?_
      split <;> exact importPositions_bits f _ _
    · split at h
      · simp only [Option.some.injEq, Prod.mk.injEq, Emit.logs.injEq] at h
        obtain ⟨h1, h2, h3⟩ := h; subst h1 h2 h3
        exact logStep_mk s i0 f _ hf (importPositions_bits f _ _)
      · split at h
        · simp at h
        · simp only [Option.some.injEq, Prod.mk.injEq, Emit.logs.injEq] at h
          obtain ⟨h1, h2, h3⟩ := h; subst h1 h2 h3
          exact logStep_mk s i0 f _ hf (importPositions_bits f _ _)
  | impval i0 cols vals =>
    simp only [stepE, Option.bind_eq_some_iff] at h
    obtain ⟨f, hf, h⟩ := h
    split at h
    · split at h
      · simp only [Option.some.injEq, Prod.mk.injEq, Emit.logs.injEq] at h
        obtain ⟨h1, h2, h3⟩ := h; subst h1 h2 h3
        exact logStep_mk s i0 f _ hf (importPositions_bits f _ _)
      · simp at h
    · cases h
  | roaring i0 vals clear size =>
    simp only [stepE, Option.bind_eq_some_iff] at h
    obtain ⟨f, hf, h⟩ := h
    split at h
    · cases h
    · simp only [Option.some.injEq, Prod.mk.injEq, Emit.logs.injEq] at h
      obtain ⟨h1, h2, h3⟩ := h; subst h1 h2 h3
      refine logStep_mk s i0 f (_, _) hf ?_
      cases clear
      · show (Frag.incr _ _).bits = fold f.bits [_]
        rw [incr_bits]; simp [fold, Rec.apply]
      · show (Frag.incr _ _).bits = fold f.bits [_]
        rw [incr_bits]; simp [fold, Rec.apply]
  | setrow i0 r cols =>
    simp only [stepE, Option.bind_eq_some_iff] at h
    obtain ⟨f, hf, h⟩ := h
    split at h <;> simp at h
  | clearrow i0 r =>
    simp only [stepE, Option.bind_eq_some_iff] at h
    obtain ⟨f, hf, h⟩ := h
    split at h <;> simp at h
  | snap i0 =>
    simp only [stepE, Option.map_eq_some_iff] at h
    obtain ⟨f, hf, h⟩ := h
    simp at h
  | bg i0 =>
    simp only [stepE, Option.map_eq_some_iff] at h
    obtain ⟨f, hf, h⟩ := h
    split at h <;> simp at h
  | kopen => simp only [stepE] at h; split at h <;> simp at h
  | keys ks =>
    simp only [stepE] at h
    split at h
    · simp at h
    · split at h <;> simp at h




/-- shape of a call that changes one fragment in memory (snapshot, unlogged row operation) -/
structure FragStep (s s' : Sys) (i : Nat) : Prop where
  ex : ∃ f f', s.frags[i]? = some f ∧ s'.frags = listSet s.frags i f'
  keys : s'.keys = s.keys
  keysOpen : s'.keysOpen = s.keysOpen

/-- what a call that emits `e` did to the in-memory state -/
def Shape (s s' : Sys) : Emit → Prop
  | .logs i rs => LogStep s s' i rs
  | .snapshot i bits => FragStep s s' i ∧ s'.bitsOf i = bits
  | .unlogged => ∃ i, FragStep s s' i
  | .fopen i => i = s.frags.length ∧ ∃ f0 : Frag, f0.bits = [] ∧ s'.frags = s.frags ++ [f0] ∧
      s'.keys = s.keys ∧ s'.keysOpen = s.keysOpen
  | .kcreate => s.keysOpen = false ∧ s'.keysOpen = true ∧ s'.frags = s.frags ∧ s'.keys = s.keys
  | .kentry ps => s.keysOpen = true ∧ s'.keysOpen = true ∧ s'.frags = s.frags ∧ s'.keys = ps.foldl keyAdd s.keys
  | .nothing => s'.frags = s.frags ∧ s'.keys = s.keys ∧ s'.keysOpen = s.keysOpen

theorem shape_logs (s : Sys) (i : Nat) (f : Frag) (r : Frag × List Rec) (hf : s.frags[i]? = some f)
    (hb : r.1.bits = fold f.bits r.2) :
    Shape s ({ ({ s with err := false } : Sys) with frags := listSet s.frags i r.1 }) (.logs i r.2) :=
  logStep_mk s i f r hf hb

theorem shape_frag (s : Sys) (i : Nat) (f f' : Frag) (hf : s.frags[i]? = some f) :
    FragStep s ({ ({ s with err := false } : Sys) with frags := listSet s.frags i f' }) i :=
  ⟨⟨f, f', hf, rfl⟩, rfl, rfl⟩

theorem bitsOf_listSet (s : Sys) (i : Nat) (f f' : Frag) (hf : s.frags[i]? = some f) :
    ({ ({ s with err := false } : Sys) with frags := listSet s.frags i f' }).bitsOf i = f'.bits := by
  simp [Sys.bitsOf, listSet_get, hf]

theorem stepE_shape (s s' : Sys) (op : AOp) (e : Emit) (h : stepE s op = some (s', e)) : Shape s s' e := by
  cases op with
  | fopen kind m =>
    simp only [stepE, Option.some.injEq, Prod.mk.injEq] at h
    obtain ⟨h1, h2⟩ := h; subst h1 h2
    exact ⟨rfl, ⟨_, rfl, rfl, rfl, rfl⟩⟩
  | set i0 r c =>
    simp only [stepE, Option.bind_eq_some_iff] at h
    obtain ⟨f, hf, h⟩ := h
    split at h
    · cases h
    · simp only [Option.some.injEq, Prod.mk.injEq] at h
      obtain ⟨h1, h2⟩ := h; subst h1 h2
      exact shape_logs s i0 f _ hf (addBit_bits f _)
    · split at h
      · simp only [Option.some.injEq, Prod.mk.injEq] at h
        obtain ⟨h1, h2⟩ := h; subst h1 h2
        exact shape_logs s i0 f _ hf (addBit_bits f _)
      · split at h
        · simp only [Option.some.injEq, Prod.mk.injEq] at h
          obtain ⟨h1, h2⟩ := h; subst h1 h2
          exact shape_logs s i0 f _ hf (addBit_bits f _)
        · simp only [Option.some.injEq, Prod.mk.injEq] at h
          obtain ⟨h1, h2⟩ := h; subst h1 h2
          exact shape_logs s i0 f _ hf (bitSeq_bits _ f)
      · simp only [Option.some.injEq, Prod.mk.injEq] at h
        obtain ⟨h1, h2⟩ := h; subst h1 h2
        exact ⟨rfl, rfl, rfl⟩
  | clear i0 r c =>
    simp only [stepE, Option.bind_eq_some_iff] at h
    obtain ⟨f, hf, h⟩ := h
    split at h
    · cases h
    · simp only [Option.some.injEq, Prod.mk.injEq] at h
      obtain ⟨h1, h2⟩ := h; subst h1 h2
      exact shape_logs s i0 f _ hf (removeBit_bits f _)
  | setval i0 col v =>
    simp only [stepE, Option.bind_eq_some_iff] at h
    obtain ⟨f, hf, h⟩ := h
    split at h
    · simp only [Option.some.injEq, Prod.mk.injEq] at h
      obtain ⟨h1, h2⟩ := h; subst h1 h2
      exact shape_logs s i0 f _ hf (bitSeq_bits _ f)
    · cases h
  | imp i0 rows cols clear =>
    simp only [stepE, Option.bind_eq_some_iff] at h
    obtain ⟨f, hf, h⟩ := h
    split at h
    · cases h
    · simp only [Option.some.injEq, Prod.mk.injEq] at h
      obtain ⟨h1, h2⟩ := h; subst h1 h2
      refine shape_logs s i0 f _ hf ?_
      split <;> exact importPositions_bits f _ _
    · split at h
      · simp only [Option.some.injEq, Prod.mk.injEq] at h
        obtain ⟨h1, h2⟩ := h; subst h1 h2
        exact shape_logs s i0 f _ hf (importPositions_bits f _ _)
      · split at h
        · simp only [Option.some.injEq, Prod.mk.injEq] at h
          obtain ⟨h1, h2⟩ := h; subst h1 h2
          exact ⟨rfl, rfl, rfl⟩
        · simp only [Option.some.injEq, Prod.mk.injEq] at h
          obtain ⟨h1, h2⟩ := h; subst h1 h2
          exact shape_logs s i0 f _ hf (importPositions_bits f _ _)
  | impval i0 cols vals =>
    simp only [stepE, Option.bind_eq_some_iff] at h
    obtain ⟨f, hf, h⟩ := h
    split at h
    · split at h
      · simp only [Option.some.injEq, Prod.mk.injEq] at h
        obtain ⟨h1, h2⟩ := h; subst h1 h2
        exact shape_logs s i0 f _ hf (importPositions_bits f _ _)
      · simp only [Option.some.injEq, Prod.mk.injEq] at h
        obtain ⟨h1, h2⟩ := h; subst h1 h2
        exact ⟨shape_frag s i0 f _ hf, by rw [bitsOf_listSet s i0 f _ hf]; rfl⟩
    · cases h
  | roaring i0 vals clear size =>
    simp only [stepE, Option.bind_eq_some_iff] at h
    obtain ⟨f, hf, h⟩ := h
    split at h
    · cases h
    · simp only [Option.some.injEq, Prod.mk.injEq] at h
      obtain ⟨h1, h2⟩ := h; subst h1 h2
      refine shape_logs s i0 f (_, _) hf ?_
      cases clear
      · show (Frag.incr _ _).bits = fold f.bits [_]
        rw [incr_bits]; simp [fold, Rec.apply]
      · show (Frag.incr _ _).bits = fold f.bits [_]
        rw [incr_bits]; simp [fold, Rec.apply]
  | setrow i0 r cols =>
    simp only [stepE, Option.bind_eq_some_iff] at h
    obtain ⟨f, hf, h⟩ := h
    split at h
    · cases h
    · simp only [Option.some.injEq, Prod.mk.injEq] at h
      obtain ⟨h1, h2⟩ := h; subst h1 h2
      exact ⟨i0, shape_frag s i0 f _ hf⟩
  | clearrow i0 r =>
    simp only [stepE, Option.bind_eq_some_iff] at h
    obtain ⟨f, hf, h⟩ := h
    split at h
    · cases h
    · simp only [Option.some.injEq, Prod.mk.injEq] at h
      obtain ⟨h1, h2⟩ := h; subst h1 h2
      exact ⟨i0, shape_frag s i0 f _ hf⟩
  | snap i0 =>
    simp only [stepE, Option.map_eq_some_iff] at h
    obtain ⟨f, hf, h⟩ := h
    simp only [Prod.mk.injEq] at h
    obtain ⟨h1, h2⟩ := h; subst h1 h2
    exact ⟨shape_frag s i0 f _ hf, by rw [bitsOf_listSet s i0 f _ hf]; rfl⟩
  | bg i0 =>
    simp only [stepE, Option.map_eq_some_iff] at h
    obtain ⟨f, hf, h⟩ := h
    split at h
    · simp only [Prod.mk.injEq] at h
      obtain ⟨h1, h2⟩ := h; subst h1 h2
      exact ⟨shape_frag s i0 f _ hf, by rw [bitsOf_listSet s i0 f _ hf]; rfl⟩
    · simp only [Prod.mk.injEq] at h
      obtain ⟨h1, h2⟩ := h; subst h1 h2
      exact ⟨rfl, rfl, rfl⟩
  | kopen =>
    simp only [stepE] at h
    split at h
    · cases h
    · rename_i hk
      simp only [Option.some.injEq, Prod.mk.injEq] at h
      obtain ⟨h1, h2⟩ := h; subst h1 h2
      exact ⟨by simpa using hk, rfl, rfl, rfl⟩
  | keys ks =>
    simp only [stepE] at h
    split at h
    · cases h
    · rename_i hk
      split at h
      · simp only [Option.some.injEq, Prod.mk.injEq] at h
        obtain ⟨h1, h2⟩ := h; subst h1 h2
        exact ⟨rfl, rfl, rfl⟩
      · simp only [Option.some.injEq, Prod.mk.injEq] at h
        obtain ⟨h1, h2⟩ := h; subst h1 h2
        exact ⟨by simpa using hk, by simpa using hk, rfl, rfl⟩




theorem lt_of_get {α : Type} (l : List α) (i : Nat) (x : α) (h : l[i]? = some x) : i < l.length := by
  rcases Nat.lt_or_ge i l.length with h' | h'
  · exact h'
  · rw [List.getElem?_eq_none h'] at h; cases h

theorem FragStep.length {s s' : Sys} {i : Nat} (h : FragStep s s' i) : s'.frags.length = s.frags.length := by
  obtain ⟨f, f', _, e⟩ := h.ex; rw [e, listSet_length]

theorem FragStep.lt {s s' : Sys} {i : Nat} (h : FragStep s s' i) : i < s.frags.length := by
  obtain ⟨f, f', hf, _⟩ := h.ex; exact lt_of_get _ _ _ hf

theorem FragStep.other {s s' : Sys} {i : Nat} (h : FragStep s s' i) (i' : Nat) (hne : i' ≠ i) :
    s'.bitsOf i' = s.bitsOf i' := by
  obtain ⟨f, f', _, e⟩ := h.ex
  simp [Sys.bitsOf, e, listSet_get, hne]

theorem LogStep.toFrag {s s' : Sys} {i : Nat} {rs : List Rec} (h : LogStep s s' i rs) : FragStep s s' i := by
  obtain ⟨f, f', hf, e, _⟩ := h.ex
  exact ⟨⟨f, f', hf, e⟩, h.keys, h.keysOpen⟩

theorem LogStep.bits {s s' : Sys} {i : Nat} {rs : List Rec} (h : LogStep s s' i rs) :
    s'.bitsOf i = fold (s.bitsOf i) rs := by
  obtain ⟨f, f', hf, e, hb⟩ := h.ex
  simp [Sys.bitsOf, e, listSet_get, hf, hb]

/-- Disk and memory agree (`val = true`), or at least every file is well formed (`val = false`).
Nothing is said about `.snapshotting` files: leftovers of any content may lie around. -/
structure Good (val : Bool) (s : Sys) (d : Disk) : Prop where
  frag : ∀ i, i < s.frags.length → ∃ b cs x, d.get (.data i) = some (.image b :: cs) ∧ replay b cs = some x ∧
      (val = true → x = s.bitsOf i)
  absent : ∀ i, s.frags.length ≤ i → d.get (.data i) = none
  keysOn : s.keysOpen = true → ∃ cs x, d.get .keys = some cs ∧ replayKeys cs = some x ∧ (val = true → x = s.keys)
  keysOff : s.keysOpen = false → d.get .keys = none ∧ s.keys = []

theorem good_init (val : Bool) : Good val {} [] := by
  constructor
  · intro i hi; simp at hi
  · intro i _; rfl
  · intro h; simp at h
  · intro _; exact ⟨rfl, rfl⟩

theorem bitsOf_absent (s : Sys) (i : Nat) (h : s.frags.length ≤ i) : s.bitsOf i = [] := by
  simp [Sys.bitsOf, List.getElem?_eq_none h]

/-- what `Open` finds in fragment i under `Good` -/
theorem recover_good {val : Bool} {s : Sys} {d : Disk} (g : Good val s d) (i : Nat) :
    ∃ x, recoverFrag d i = some x ∧ (val = true → x = s.bitsOf i) := by
  rcases Nat.lt_or_ge i s.frags.length with h | h
  · obtain ⟨b, cs, x, h1, h2, h3⟩ := g.frag i h
    exact ⟨x, by simp [recoverFrag, h1, h2], h3⟩
  · exact ⟨[], by simp [recoverFrag, g.absent i h], fun _ => (bitsOf_absent s i h).symm⟩

theorem recoverKeys_good {val : Bool} {s : Sys} {d : Disk} (g : Good val s d) :
    ∃ x, recoverKeys d = some x ∧ (val = true → x = s.keys) := by
  cases hk : s.keysOpen with
  | true =>
    obtain ⟨cs, x, h1, h2, h3⟩ := g.keysOn hk
    exact ⟨x, by simp [recoverKeys, h1, h2], h3⟩
  | false =>
    obtain ⟨h1, h2⟩ := g.keysOff hk
    exact ⟨[], by simp [recoverKeys, h1], fun _ => h2.symm⟩

/-- files other than fragment i's data file are not looked at when fragment i is opened -/
theorem recoverFrag_congr (d d' : Disk) (i : Nat) (h : d'.get (.data i) = d.get (.data i)) :
    recoverFrag d' i = recoverFrag d i := by
  simp [recoverFrag, h]

theorem recoverKeys_congr (d d' : Disk) (h : d'.get .keys = d.get .keys) : recoverKeys d' = recoverKeys d := by
  simp [recoverKeys, h]




/-- what fragment i recovers to after the first j operations of a call that emits e -/
def expectBits (s : Sys) (e : Emit) (j i : Nat) : List Nat :=
  match e with
  | .logs i0 rs => if i = i0 then fold (s.bitsOf i) (rs.take j) else s.bitsOf i
  | .snapshot i0 bits => if i = i0 ∧ 3 ≤ j then bits else s.bitsOf i
  | _ => s.bitsOf i

def expectKeys (s : Sys) (e : Emit) (j : Nat) : List (String × Nat) :=
  match e with
  | .kentry ps => if 1 ≤ j then ps.foldl keyAdd s.keys else s.keys
  | _ => s.keys

theorem replayKeysFrom_append (cs : List Chunk) (ps : List (String × Nat)) :
    ∀ m x, replayKeysFrom m cs = some x → replayKeysFrom m (cs ++ [.entry ps]) = some (ps.foldl keyAdd x) := by
  induction cs with
  | nil => intro m x h; simp only [replayKeysFrom] at h; cases h; simp [replayKeysFrom]
  | cons c rest ih =>
    intro m x h
    cases c with
    | entry qs => simp only [List.cons_append, replayKeysFrom] at h ⊢; exact ih _ _ h
    | image _ => simp [replayKeysFrom] at h
    | log _ => simp [replayKeysFrom] at h

theorem data_ne_snap (i i0 : Nat) : Path.data i ≠ Path.snap i0 := by intro h; cases h
theorem data_ne_keys (i : Nat) : Path.data i ≠ Path.keys := by intro h; cases h
theorem keys_ne_snap (i : Nat) : Path.keys ≠ Path.snap i := by intro h; cases h
theorem keys_ne_data (i : Nat) : Path.keys ≠ Path.data i := by intro h; cases h
theorem data_ne_data (i i0 : Nat) (h : i ≠ i0) : Path.data i ≠ Path.data i0 := by intro e; cases e; exact h rfl

/-- Crash analysis of one call: after any prefix of its file-system operations every fragment and
the translate log open, and (when disk and memory agreed before the call) hold `expectBits` /
`expectKeys`. -/
theorem prefix_recover (val : Bool) (s s' : Sys) (d : Disk) (e : Emit) (g : Good val s d) (hs : Shape s s' e)
    (j : Nat) (hj : j ≤ e.ops.length) :
    (∀ i, ∃ x, recoverFrag (d.applyAll (e.ops.take j)) i = some x ∧ (val = true → x = expectBits s e j i)) ∧
    (∃ x, recoverKeys (d.applyAll (e.ops.take j)) = some x ∧ (val = true → x = expectKeys s e j)) := by
  cases e with
  | nothing =>
    simp only [Emit.ops, List.take_nil, Disk.applyAll, List.foldl_nil]
    exact ⟨fun i => recover_good g i, recoverKeys_good g⟩
  | unlogged =>
    simp only [Emit.ops, List.take_nil, Disk.applyAll, List.foldl_nil]
    exact ⟨fun i => recover_good g i, recoverKeys_good g⟩
  | logs i0 rs =>
    have hl : LogStep s s' i0 rs := hs
    have hlt := hl.toFrag.lt
    obtain ⟨b, cs, x0, h1, h2, h3⟩ := g.frag i0 hlt
    have hops : (Emit.logs i0 rs).ops.take j = logOps i0 (rs.take j) := logOps_take i0 rs j
    rw [hops]
    obtain ⟨a1, a2⟩ := applyAll_logs i0 (rs.take j) d _ h1
    refine ⟨?_, ?_⟩
    · intro i
      by_cases e : i = i0
      · subst e
        refine ⟨fold x0 (rs.take j), ?_, ?_⟩
        · simp only [recoverFrag, a1, List.cons_append]
          exact replay_logs cs (rs.take j) b x0 h2
        · intro hv; simp [expectBits, h3 hv]
      · obtain ⟨x, r1, r2⟩ := recover_good g i
        refine ⟨x, ?_, ?_⟩
        · rw [recoverFrag_congr d _ i (a2 _ (data_ne_data i i0 e))]; exact r1
        · intro hv; simp [expectBits, e, r2 hv]
    · obtain ⟨x, r1, r2⟩ := recoverKeys_good g
      refine ⟨x, ?_, fun hv => by simp [expectKeys, r2 hv]⟩
      rw [recoverKeys_congr d _ (a2 _ (keys_ne_data i0))]; exact r1
  | snapshot i0 bits =>
    have hf : FragStep s s' i0 := hs.1
    have key : ∀ j, j ≤ 2 → ∀ p, (∀ i, p ≠ Path.snap i) →
        (d.applyAll ((Emit.snapshot i0 bits).ops.take j)).get p = d.get p := by
      intro j hj2 p hp
      match j, hj2 with
      | 0, _ => rfl
      | 1, _ => simp [Emit.ops, Disk.applyAll, Disk.apply, get_set_ne _ _ _ _ (hp i0)]
      | 2, _ => simp [Emit.ops, Disk.applyAll, Disk.apply, get_set_ne _ _ _ _ (hp i0)]
    by_cases hj3 : j ≤ 2
    · refine ⟨?_, ?_⟩
      · intro i
        obtain ⟨x, r1, r2⟩ := recover_good g i
        refine ⟨x, ?_, ?_⟩
        · rw [recoverFrag_congr d _ i (key j hj3 _ (fun i' => data_ne_snap i i'))]; exact r1
        · intro hv
          have : ¬ (i = i0 ∧ 3 ≤ j) := by omega
          simp [expectBits, this, r2 hv]
      · obtain ⟨x, r1, r2⟩ := recoverKeys_good g
        refine ⟨x, ?_, fun hv => by simp [expectKeys, r2 hv]⟩
        rw [recoverKeys_congr d _ (key j hj3 _ (fun i' => keys_ne_snap i'))]; exact r1
    · have hj' : j = 3 := by simp [Emit.ops] at hj; omega
      subst hj'
      have hfin : ∀ p, (d.applyAll ((Emit.snapshot i0 bits).ops.take 3)).get p =
          if p = .data i0 then some [.image bits] else if p = .snap i0 then none else d.get p := by
        intro p
        simp only [Emit.ops, List.take, Disk.applyAll, List.foldl_cons, List.foldl_nil, Disk.apply]
        simp only [get_set_same, Option.getD, List.nil_append]
        by_cases e1 : p = .data i0
        · subst e1; simp [get_set_same]
        · simp only [e1, if_false]
          rw [get_set_ne _ _ _ _ e1]
          by_cases e2 : p = .snap i0
          · subst e2; simp [get_del_same]
          · simp only [e2, if_false]
            rw [get_del_ne _ _ _ e2, get_set_ne _ _ _ _ e2, get_set_ne _ _ _ _ e2]
      refine ⟨?_, ?_⟩
      · intro i
        by_cases e : i = i0
        · subst e
          refine ⟨bits, ?_, fun _ => by simp [expectBits]⟩
          simp [recoverFrag, hfin, replay]
        · obtain ⟨x, r1, r2⟩ := recover_good g i
          refine ⟨x, ?_, fun hv => by simp [expectBits, e, r2 hv]⟩
          rw [recoverFrag_congr d _ i (by rw [hfin]; simp [data_ne_data i i0 e, data_ne_snap])]; exact r1
      · obtain ⟨x, r1, r2⟩ := recoverKeys_good g
        refine ⟨x, ?_, fun hv => by simp [expectKeys, r2 hv]⟩
        rw [recoverKeys_congr d _ (by rw [hfin]; simp [keys_ne_data, keys_ne_snap])]; exact r1
  | fopen i0 =>
    obtain ⟨hi0, f0, hb0, hfr, hk, hko⟩ := hs
    have habs := g.absent i0 (by omega)
    have hget : ∀ p, p ≠ Path.data i0 → (d.applyAll ((Emit.fopen i0).ops.take j)).get p = d.get p := by
      intro p hp
      match j with
      | 0 => rfl
      | 1 => simp [Emit.ops, Disk.applyAll, Disk.apply, get_set_ne _ _ _ _ hp]
      | (n + 2) => simp [Emit.ops, Disk.applyAll, Disk.apply, get_set_ne _ _ _ _ hp]
    refine ⟨?_, ?_⟩
    · intro i
      by_cases e : i = i0
      · subst e
        refine ⟨[], ?_, fun _ => by simp [expectBits, bitsOf_absent s i (by omega)]⟩
        match j with
        | 0 => simp [recoverFrag, Disk.applyAll, habs]
        | 1 => simp [Emit.ops, recoverFrag, Disk.applyAll, Disk.apply, get_set_same]
        | (n + 2) => simp [Emit.ops, recoverFrag, Disk.applyAll, Disk.apply, get_set_same, replay]
      · obtain ⟨x, r1, r2⟩ := recover_good g i
        refine ⟨x, ?_, fun hv => by simp [expectBits, r2 hv]⟩
        rw [recoverFrag_congr d _ i (hget _ (data_ne_data i i0 e))]; exact r1
    · obtain ⟨x, r1, r2⟩ := recoverKeys_good g
      refine ⟨x, ?_, fun hv => by simp [expectKeys, r2 hv]⟩
      rw [recoverKeys_congr d _ (hget _ (keys_ne_data i0))]; exact r1
  | kcreate =>
    obtain ⟨hk0, hk1, hfr, hkk⟩ := hs
    obtain ⟨hnone, hempty⟩ := g.keysOff hk0
    have hget : ∀ p, p ≠ Path.keys → (d.applyAll (Emit.kcreate.ops.take j)).get p = d.get p := by
      intro p hp
      match j with
      | 0 => rfl
      | (n + 1) => simp [Emit.ops, Disk.applyAll, Disk.apply, get_set_ne _ _ _ _ hp]
    refine ⟨?_, ?_⟩
    · intro i
      obtain ⟨x, r1, r2⟩ := recover_good g i
      refine ⟨x, ?_, fun hv => by simp [expectBits, r2 hv]⟩
      rw [recoverFrag_congr d _ i (hget _ (data_ne_keys i))]; exact r1
    · refine ⟨[], ?_, fun _ => by simp [expectKeys, hempty]⟩
      match j with
      | 0 => simp [recoverKeys, Disk.applyAll, hnone]
      | (n + 1) => simp [Emit.ops, recoverKeys, Disk.applyAll, Disk.apply, get_set_same, replayKeys, replayKeysFrom]
  | kentry ps =>
    obtain ⟨hk0, hk1, hfr, hkk⟩ := hs
    obtain ⟨cs, x0, h1, h2, h3⟩ := g.keysOn hk0
    have hget : ∀ p, p ≠ Path.keys → (d.applyAll ((Emit.kentry ps).ops.take j)).get p = d.get p := by
      intro p hp
      match j with
      | 0 => rfl
      | (n + 1) => simp [Emit.ops, Disk.applyAll, Disk.apply, get_set_ne _ _ _ _ hp]
    refine ⟨?_, ?_⟩
    · intro i
      obtain ⟨x, r1, r2⟩ := recover_good g i
      refine ⟨x, ?_, fun hv => by simp [expectBits, r2 hv]⟩
      rw [recoverFrag_congr d _ i (hget _ (data_ne_keys i))]; exact r1
    · match j with
      | 0 =>
        refine ⟨x0, ?_, fun hv => by simp [expectKeys, h3 hv]⟩
        simp [recoverKeys, Disk.applyAll, h1, h2]
      | (n + 1) =>
        refine ⟨ps.foldl keyAdd x0, ?_, fun hv => by simp [expectKeys, h3 hv]⟩
        simp only [Emit.ops, List.take, Disk.applyAll, List.foldl_cons, List.foldl_nil, Disk.apply, recoverKeys,
          get_set_same, h1, Option.getD, replayKeys, List.take_nil]
        exact replayKeysFrom_append cs ps [] x0 h2




theorem take_all {α : Type} (l : List α) : l.take l.length = l := List.take_length

/-- the invariant survives a whole call (a call that changes memory only breaks the agreement of
disk and memory, not the well-formedness of the files) -/
theorem good_next (val : Bool) (s s' : Sys) (d : Disk) (e : Emit) (g : Good val s d) (hs : Shape s s' e)
    (hu : val = true → e ≠ .unlogged) : Good val s' (d.applyAll e.ops) := by
  cases e with
  | nothing =>
    obtain ⟨h1, h2, h3⟩ := hs
    simp only [Emit.ops, Disk.applyAll, List.foldl_nil]
    refine ⟨?_, ?_, ?_, ?_⟩
    · rw [h1]; intro i hi
      obtain ⟨b, cs, x, a1, a2, a3⟩ := g.frag i hi
      exact ⟨b, cs, x, a1, a2, fun hv => by rw [a3 hv]; simp [Sys.bitsOf, h1]⟩
    · rw [h1]; exact g.absent
    · rw [h3, h2]; exact g.keysOn
    · rw [h3, h2]; exact g.keysOff
  | unlogged =>
    obtain ⟨i0, hf⟩ := hs
    have hv : val = false := by
      cases val with
      | false => rfl
      | true => exact absurd rfl (hu rfl)
    subst hv
    simp only [Emit.ops, Disk.applyAll, List.foldl_nil]
    refine ⟨?_, by rw [hf.length]; exact g.absent, ?_, ?_⟩
    · rw [hf.length]; intro i hi
      obtain ⟨b, cs, x, a1, a2, _⟩ := g.frag i hi
      exact ⟨b, cs, x, a1, a2, fun h => by cases h⟩
    · rw [hf.keysOpen]; intro hk
      obtain ⟨cs, x, a1, a2, _⟩ := g.keysOn hk
      exact ⟨cs, x, a1, a2, fun h => by cases h⟩
    · rw [hf.keysOpen, hf.keys]; exact g.keysOff
  | logs i0 rs =>
    have hl : LogStep s s' i0 rs := hs
    have hf := hl.toFrag
    obtain ⟨b, cs, x0, h1, h2, h3⟩ := g.frag i0 hf.lt
    obtain ⟨a1, a2⟩ := applyAll_logs i0 rs d _ h1
    have hops : (Emit.logs i0 rs).ops = logOps i0 rs := rfl
    rw [hops]
    refine ⟨?_, ?_, ?_, ?_⟩
    · rw [hf.length]; intro i hi
      by_cases e : i = i0
      · subst e
        refine ⟨b, cs ++ rs.map .log, fold x0 rs, by simpa using a1, replay_logs cs rs b x0 h2, ?_⟩
        intro hv; rw [hl.bits, h3 hv]
      · obtain ⟨b', cs', x', c1, c2, c3⟩ := g.frag i hi
        exact ⟨b', cs', x', by rw [a2 _ (data_ne_data i i0 e)]; exact c1, c2,
               fun hv => by rw [c3 hv, hf.other i e]⟩
    · rw [hf.length]; intro i hi
      have : i ≠ i0 := by have := hf.lt; omega
      rw [a2 _ (data_ne_data i i0 this)]; exact g.absent i hi
    · rw [hf.keysOpen, hf.keys]; intro hk
      obtain ⟨cs', x, c1, c2, c3⟩ := g.keysOn hk
      exact ⟨cs', x, by rw [a2 _ (keys_ne_data i0)]; exact c1, c2, c3⟩
    · rw [hf.keysOpen, hf.keys]; intro hk
      obtain ⟨c1, c2⟩ := g.keysOff hk
      exact ⟨by rw [a2 _ (keys_ne_data i0)]; exact c1, c2⟩
  | snapshot i0 bits =>
    obtain ⟨hf, hb⟩ := hs
    have hfin : ∀ p, (d.applyAll (Emit.snapshot i0 bits).ops).get p =
        if p = .data i0 then some [.image bits] else if p = .snap i0 then none else d.get p := by
      intro p
      simp only [Emit.ops, Disk.applyAll, List.foldl_cons, List.foldl_nil, Disk.apply]
      simp only [get_set_same, Option.getD, List.nil_append]
      by_cases e1 : p = .data i0
      · subst e1; simp [get_set_same]
      · simp only [e1, if_false]
        rw [get_set_ne _ _ _ _ e1]
        by_cases e2 : p = .snap i0
        · subst e2; simp [get_del_same]
        · simp only [e2, if_false]
          rw [get_del_ne _ _ _ e2, get_set_ne _ _ _ _ e2, get_set_ne _ _ _ _ e2]
    refine ⟨?_, ?_, ?_, ?_⟩
    · rw [hf.length]; intro i hi
      by_cases e : i = i0
      · subst e
        exact ⟨bits, [], bits, by rw [hfin]; simp, by simp [replay], fun _ => hb.symm⟩
      · obtain ⟨b', cs', x', c1, c2, c3⟩ := g.frag i hi
        exact ⟨b', cs', x', by rw [hfin]; simp [data_ne_data i i0 e, data_ne_snap]; exact c1, c2,
               fun hv => by rw [c3 hv, hf.other i e]⟩
    · rw [hf.length]; intro i hi
      have : i ≠ i0 := by have := hf.lt; omega
      rw [hfin]; simp [data_ne_data i i0 this, data_ne_snap]; exact g.absent i hi
    · rw [hf.keysOpen, hf.keys]; intro hk
      obtain ⟨cs', x, c1, c2, c3⟩ := g.keysOn hk
      exact ⟨cs', x, by rw [hfin]; simp [keys_ne_data, keys_ne_snap]; exact c1, c2, c3⟩
    · rw [hf.keysOpen, hf.keys]; intro hk
      obtain ⟨c1, c2⟩ := g.keysOff hk
      exact ⟨by rw [hfin]; simp [keys_ne_data, keys_ne_snap]; exact c1, c2⟩
  | fopen i0 =>
    obtain ⟨hi0, f0, hb0, hfr, hk, hko⟩ := hs
    have hfin : ∀ p, (d.applyAll (Emit.fopen i0).ops).get p =
        if p = .data i0 then some [.image []] else d.get p := by
      intro p
      simp only [Emit.ops, Disk.applyAll, List.foldl_cons, List.foldl_nil, Disk.apply, get_set_same, Option.getD,
        List.nil_append]
      by_cases e1 : p = .data i0
      · subst e1; simp [get_set_same]
      · simp only [e1, if_false]; rw [get_set_ne _ _ _ _ e1, get_set_ne _ _ _ _ e1]
    have hlen : s'.frags.length = s.frags.length + 1 := by rw [hfr]; simp
    refine ⟨?_, ?_, ?_, ?_⟩
    · rw [hlen]; intro i hi
      by_cases e : i = i0
      · subst e
        refine ⟨[], [], [], by rw [hfin]; simp, by simp [replay], fun _ => ?_⟩
        simp [Sys.bitsOf, hfr, hi0, hb0]
      · have hi' : i < s.frags.length := by omega
        obtain ⟨b', cs', x', c1, c2, c3⟩ := g.frag i hi'
        refine ⟨b', cs', x', by rw [hfin]; simp [data_ne_data i i0 e]; exact c1, c2, fun hv => ?_⟩
        rw [c3 hv]; simp [Sys.bitsOf, hfr, List.getElem?_append_left hi']
    · rw [hlen]; intro i hi
      have : i ≠ i0 := by omega
      rw [hfin]; simp [data_ne_data i i0 this]; exact g.absent i (by omega)
    · rw [hko, hk]; intro hk'
      obtain ⟨cs', x, c1, c2, c3⟩ := g.keysOn hk'
      exact ⟨cs', x, by rw [hfin]; simp [keys_ne_data]; exact c1, c2, c3⟩
    · rw [hko, hk]; intro hk'
      obtain ⟨c1, c2⟩ := g.keysOff hk'
      exact ⟨by rw [hfin]; simp [keys_ne_data]; exact c1, c2⟩
  | kcreate =>
    obtain ⟨hk0, hk1, hfr, hkk⟩ := hs
    obtain ⟨hnone, hempty⟩ := g.keysOff hk0
    have hfin : ∀ p, (d.applyAll Emit.kcreate.ops).get p = if p = .keys then some [] else d.get p := by
      intro p
      simp only [Emit.ops, Disk.applyAll, List.foldl_cons, List.foldl_nil, Disk.apply]
      by_cases e1 : p = .keys
      · subst e1; simp [get_set_same]
      · simp only [e1, if_false]; rw [get_set_ne _ _ _ _ e1]
    refine ⟨?_, ?_, ?_, ?_⟩
    · rw [hfr]; intro i hi
      obtain ⟨b', cs', x', c1, c2, c3⟩ := g.frag i hi
      exact ⟨b', cs', x', by rw [hfin]; simp [data_ne_keys]; exact c1, c2,
             fun hv => by rw [c3 hv]; simp [Sys.bitsOf, hfr]⟩
    · rw [hfr]; intro i hi; rw [hfin]; simp [data_ne_keys]; exact g.absent i hi
    · intro _
      exact ⟨[], [], by rw [hfin]; simp, by simp [replayKeys, replayKeysFrom], fun _ => by rw [hkk, hempty]⟩
    · intro h; rw [hk1] at h; cases h
  | kentry ps =>
    obtain ⟨hk0, hk1, hfr, hkk⟩ := hs
    obtain ⟨cs, x0, h1, h2, h3⟩ := g.keysOn hk0
    have hfin : ∀ p, (d.applyAll (Emit.kentry ps).ops).get p =
        if p = .keys then some (cs ++ [.entry ps]) else d.get p := by
      intro p
      simp only [Emit.ops, Disk.applyAll, List.foldl_cons, List.foldl_nil, Disk.apply, h1, Option.getD]
      by_cases e1 : p = .keys
      · subst e1; simp [get_set_same]
      · simp only [e1, if_false]; rw [get_set_ne _ _ _ _ e1]
    refine ⟨?_, ?_, ?_, ?_⟩
    · rw [hfr]; intro i hi
      obtain ⟨b', cs', x', c1, c2, c3⟩ := g.frag i hi
      exact ⟨b', cs', x', by rw [hfin]; simp [data_ne_keys]; exact c1, c2,
             fun hv => by rw [c3 hv]; simp [Sys.bitsOf, hfr]⟩
    · rw [hfr]; intro i hi; rw [hfin]; simp [data_ne_keys]; exact g.absent i hi
    · intro _
      have hrk : replayKeys (cs ++ [.entry ps]) = some (ps.foldl keyAdd x0) :=
        replayKeysFrom_append cs ps [] x0 h2
      exact ⟨cs ++ [.entry ps], ps.foldl keyAdd x0, by rw [hfin]; simp, hrk, fun hv => by rw [hkk, h3 hv]⟩
    · intro h; rw [hk1] at h; cases h


end PV.C09
