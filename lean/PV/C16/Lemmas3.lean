/-
C16 helper lemmas, part 3: the walk over key-ordered containers yields exactly the rows that have
a passing container, ascending; the containers of a store.  Core Lean only.
-/
import PV.C16.Lemmas2
namespace PV.C16
open List

def lastLE : Option Nat → Nat → Prop
  | none, _ => True
  | some l, x => l ≤ x

def lastLT : Option Nat → Nat → Prop
  | none, _ => True
  | some l, x => l < x

theorem walk_sound (col : Option Nat) (cs : List Cont) (last : Option Nat)
    (hs : (cs.map rowOfC).Pairwise (· ≤ ·)) (hl : ∀ kc ∈ cs, lastLE last (rowOfC kc)) :
    (walk col cs last).Pairwise (· < ·) ∧
    ∀ x ∈ walk col cs last, lastLT last x ∧ ∃ kc ∈ cs, rowOfC kc = x ∧ passC col kc = true := by
  induction cs generalizing last with
  | nil => exact ⟨List.Pairwise.nil, fun x hx => absurd hx (by simp [walk])⟩
  | cons kc rest ih =>
    have hs' : (rest.map rowOfC).Pairwise (· ≤ ·) := by
      simp only [List.map_cons] at hs; exact (List.pairwise_cons.mp hs).2
    have hhead : ∀ kc' ∈ rest, rowOfC kc ≤ rowOfC kc' := by
      intro kc' hk
      simp only [List.map_cons] at hs
      exact (List.pairwise_cons.mp hs).1 _ (List.mem_map.mpr ⟨kc', hk, rfl⟩)
    have hlrest : ∀ kc' ∈ rest, lastLE last (rowOfC kc') := fun kc' hk => hl kc' (List.mem_cons_of_mem _ hk)
    unfold walk
    by_cases hlast : last = some (rowOfC kc)
    · simp only [hlast, if_true]
      rw [← hlast]
      obtain ⟨h1, h2⟩ := ih last hs' hlrest
      refine ⟨h1, fun x hx => ?_⟩
      obtain ⟨h3, kc', hk', h4⟩ := h2 x hx
      exact ⟨h3, kc', List.mem_cons_of_mem _ hk', h4⟩
    · simp only [hlast, if_false]
      by_cases hp : passC col kc = true
      · simp only [hp, if_true]
        obtain ⟨h1, h2⟩ := ih (some (rowOfC kc)) hs' (fun kc' hk => hhead kc' hk)
        have hstrict : lastLT last (rowOfC kc) := by
          have := hl kc (by simp)
          cases last with
          | none => trivial
          | some l =>
            simp only [lastLE] at this
            simp only [lastLT]
            have : l ≠ rowOfC kc := fun e => hlast (by rw [e])
            omega
        refine ⟨List.pairwise_cons.mpr ⟨fun x hx => (h2 x hx).1, h1⟩, fun x hx => ?_⟩
        rcases List.mem_cons.mp hx with e | hx'
        · rw [e]; exact ⟨hstrict, kc, by simp, rfl, hp⟩
        · obtain ⟨h3, kc', hk', h4⟩ := h2 x hx'
          refine ⟨?_, kc', List.mem_cons_of_mem _ hk', h4⟩
          simp only [lastLT] at h3
          cases last with
          | none => trivial
          | some l =>
            simp only [lastLT] at hstrict ⊢
            omega
      · simp only [hp, if_false]
        obtain ⟨h1, h2⟩ := ih last hs' hlrest
        refine ⟨h1, fun x hx => ?_⟩
        obtain ⟨h3, kc', hk', h4⟩ := h2 x hx
        exact ⟨h3, kc', List.mem_cons_of_mem _ hk', h4⟩

theorem walk_complete (col : Option Nat) (cs : List Cont) (last : Option Nat) :
    ∀ kc ∈ cs, passC col kc = true → rowOfC kc ∈ walk col cs last ∨ last = some (rowOfC kc) := by
  induction cs generalizing last with
  | nil => intro kc hk; cases hk
  | cons kc0 rest ih =>
    intro kc hk hp
    unfold walk
    by_cases hlast : last = some (rowOfC kc0)
    · simp only [hlast, if_true]
      rw [← hlast]
      rcases List.mem_cons.mp hk with e | hk'
      · right; rw [e]; exact hlast
      · exact ih last kc hk' hp
    · simp only [hlast, if_false]
      by_cases hp0 : passC col kc0 = true
      · simp only [hp0, if_true]
        rcases List.mem_cons.mp hk with e | hk'
        · left; rw [e]; simp
        · rcases ih (some (rowOfC kc0)) kc hk' hp with h | h
          · left; exact List.mem_cons_of_mem _ h
          · left
            have : rowOfC kc0 = rowOfC kc := Option.some.inj h
            rw [this]; simp
      · simp only [hp0, if_false]
        rcases List.mem_cons.mp hk with e | hk'
        · rw [e] at hp; exact absurd hp hp0
        · exact ih last kc hk' hp

theorem mem_walk_none (col : Option Nat) (cs : List Cont) (hs : (cs.map rowOfC).Pairwise (· ≤ ·)) (x : Nat) :
    x ∈ walk col cs none ↔ ∃ kc ∈ cs, rowOfC kc = x ∧ passC col kc = true := by
  constructor
  · intro hx
    exact ((walk_sound col cs none hs (fun _ _ => trivial)).2 x hx).2
  · rintro ⟨kc, hk, rfl, hp⟩
    rcases walk_complete col cs none kc hk hp with h | h
    · exact h
    · cases h

/-! ### the containers of a store -/

theorem conts_keys (s : Store) : (conts s).map (·.1) = sortDedup (s.map keyOf) := by
  simp [conts, List.map_map, Function.comp_def]

theorem mem_conts (s : Store) (kc : Cont) :
    kc ∈ conts s ↔ (∃ p ∈ s, keyOf p = kc.1) ∧ kc.2 = s.filter (fun p => keyOf p == kc.1) := by
  simp only [conts, List.mem_map]
  constructor
  · rintro ⟨k, hk, rfl⟩
    have := (mem_sortDedup k (s.map keyOf)).mp hk
    rcases List.mem_map.mp this with ⟨p, hp, rfl⟩
    exact ⟨⟨p, hp, rfl⟩, rfl⟩
  · rintro ⟨⟨p, hp, he⟩, h2⟩
    refine ⟨kc.1, ?_, ?_⟩
    · apply (mem_sortDedup _ _).mpr
      exact List.mem_map.mpr ⟨p, hp, he⟩
    · rw [← h2]

theorem conts_rows_sorted (s : Store) (start : Nat) :
    ((((conts s).filter (fun kc => kc.1 ≥ start * contsPerRow))).map rowOfC).Pairwise (· ≤ ·) := by
  have hk : ((conts s).map (·.1)).Pairwise (· < ·) := by rw [conts_keys]; exact sorted_sortDedup _
  have h1 : (conts s).Pairwise (fun a b => a.1 < b.1) := List.pairwise_map.mp hk
  have h2 : ((conts s).filter (fun kc => decide (kc.1 ≥ start * contsPerRow))).Pairwise (fun a b => a.1 < b.1) := h1.filter _
  apply List.pairwise_map.mpr
  apply h2.imp
  intro a b hab
  simp only [rowOfC]
  exact Nat.div_le_div_right (Nat.le_of_lt hab)

/-- the row of a bit's container is the bit's row (columns stay inside the shard) -/
theorem keyOf_div (p : Nat × Nat) (h : p.2 < shardWidth) : keyOf p / contsPerRow = p.1 := by
  simp only [keyOf, contsPerRow, contWidth, shardWidth] at *
  omega

end PV.C16
