/-
C16 helper: executeRowsShard / executeRows as folds of RowIDs.merge.  Core Lean only.
-/
import PV.C16.Merge
import PV.C16.Lemmas3
namespace PV.C16
open List
open PV.C17 (rowIDsMerge)

/-- Columns of a fragment are columns inside the shard. -/
def Store.WF (s : Store) : Prop := ∀ p ∈ s, p.2 < shardWidth

theorem sortDedup_idem_append (X R : List Nat) : sortDedup (sortDedup X ++ R) = sortDedup (X ++ R) := by
  apply sorted_ext _ _ (sorted_sortDedup _) (sorted_sortDedup _)
  intro x
  simp only [mem_sortDedup, List.mem_append]

theorem sortDedup_idem_append_right (X R : List Nat) : sortDedup (X ++ sortDedup R) = sortDedup (X ++ R) := by
  apply sorted_ext _ _ (sorted_sortDedup _) (sorted_sortDedup _)
  intro x
  simp only [mem_sortDedup, List.mem_append]

/-- One merge step: the accumulator is the first `lim` of a sorted union, the new list `C` is a
prefix (at least `lim` long, or everything) of an ascending duplicate-free list `R`. -/
theorem merge_step (X R : List Nat) (hR : R.Pairwise (· < ·)) (lim n : Nat) (hn : n ≥ lim) :
    rowIDsMerge ((sortDedup X).take lim) (R.take n) lim = (sortDedup (X ++ R)).take lim := by
  rw [merge_eq, mergeLim_take lim lim n (sortDedup X) R (Nat.le_refl _) hn,
    mergeLim_eq_take_all, mergeAll_eq _ _ (sorted_sortDedup X) hR, sortDedup_idem_append]

/-- The same when the whole list is contributed. -/
theorem merge_step_all (X R : List Nat) (hR : R.Pairwise (· < ·)) (lim : Nat) :
    rowIDsMerge ((sortDedup X).take lim) R lim = (sortDedup (X ++ R)).take lim := by
  have := merge_step X R hR lim (max lim R.length) (Nat.le_max_left _ _)
  rw [List.take_of_length_le (Nat.le_max_right _ _)] at this
  exact this

theorem spec_fragRows_sorted (s : Store) (start : Nat) (col : Option Nat) :
    (Spec.fragRows s start col none).Pairwise (· < ·) := by
  simp only [Spec.fragRows]
  exact (sorted_sortDedup _).filter _

/-! ### the fragments of a DB -/

def DB.WF (db : DB) : Prop := (db.frags.map (·.1)).Nodup ∧ ∀ p ∈ db.frags, Store.WF p.2

theorem find_iff_mem (l : List (FragId × Store)) (hnd : (l.map (·.1)).Nodup) (id : FragId) (s : Store) :
    (l.find? (fun p => p.1 == id)).map (·.2) = some s ↔ (id, s) ∈ l := by
  induction l with
  | nil => simp
  | cons p rest ih =>
    simp only [List.map_cons, List.nodup_cons] at hnd
    simp only [List.find?_cons]
    by_cases hp : p.1 = id
    · simp only [hp, beq_self_eq_true, Option.map_some, Option.some.injEq, List.mem_cons]
      constructor
      · intro h; left; rw [← h, ← hp]
      · rintro (h | h)
        · rw [← h]
        · exfalso
          apply hnd.1
          rw [hp]
          exact List.mem_map.mpr ⟨(id, s), h, rfl⟩
    · have : (p.1 == id) = false := by simpa using hp
      simp only [this, List.mem_cons]
      rw [ih hnd.2]
      constructor
      · intro h; right; exact h
      · rintro (h | h)
        · exfalso; apply hp; rw [← h]
        · exact h

theorem DB.frag_iff (db : DB) (hwf : db.WF) (id : FragId) (s : Store) :
    db.frag id = some s ↔ (id, s) ∈ db.frags :=
  find_iff_mem db.frags hwf.1 id s

theorem listMin?_le : ∀ (l : List Nat) (m : Nat), listMin? l = some m → ∀ x ∈ l, m ≤ x
  | [], _, h, _, _ => by simp [listMin?] at h
  | y :: ys, m, h, x, hx => by
    simp only [listMin?] at h
    cases hr : listMin? ys with
    | none =>
      rw [hr] at h
      have : ys = [] := by
        cases ys with
        | nil => rfl
        | cons z zs =>
          simp only [listMin?] at hr
          cases h2 : listMin? zs <;> rw [h2] at hr <;> simp at hr
      subst this
      simp only [Option.some.injEq] at h
      simp only [List.mem_cons, List.not_mem_nil, or_false] at hx
      omega
    | some m' =>
      rw [hr] at h
      simp only [Option.some.injEq] at h
      rcases List.mem_cons.mp hx with e | hx'
      · subst e; split at h <;> omega
      · have := listMin?_le ys m' hr x hx'
        split at h <;> omega

theorem listMax?_ge : ∀ (l : List Nat) (m : Nat), listMax? l = some m → ∀ x ∈ l, x ≤ m
  | [], _, h, _, _ => by simp [listMax?] at h
  | y :: ys, m, h, x, hx => by
    simp only [listMax?] at h
    cases hr : listMax? ys with
    | none =>
      rw [hr] at h
      have : ys = [] := by
        cases ys with
        | nil => rfl
        | cons z zs =>
          simp only [listMax?] at hr
          cases h2 : listMax? zs <;> rw [h2] at hr <;> simp at hr
      subst this
      simp only [Option.some.injEq] at h
      simp only [List.mem_cons, List.not_mem_nil, or_false] at hx
      omega
    | some m' =>
      rw [hr] at h
      simp only [Option.some.injEq] at h
      rcases List.mem_cons.mp hx with e | hx'
      · subst e; split at h <;> omega
      · have := listMax?_ge ys m' hr x hx'
        split at h <;> omega

theorem listMin?_none (l : List Nat) (h : listMin? l = none) : l = [] := by
  cases l with
  | nil => rfl
  | cons y ys =>
    simp only [listMin?] at h
    cases h2 : listMin? ys <;> rw [h2] at h <;> simp at h

theorem listMax?_none (l : List Nat) (h : listMax? l = none) : l = [] := by
  cases l with
  | nil => rfl
  | cons y ys =>
    simp only [listMax?] at h
    cases h2 : listMax? ys <;> rw [h2] at h <;> simp at h

/-- A day view that exists lies between the smallest and the largest existing day. -/
theorem mem_days (db : DB) (field d sh : Nat) (s : Store) (h : (⟨field, some d, sh⟩, s) ∈ db.frags) :
    d ∈ db.days field := by
  simp only [DB.days, mem_sortDedup, List.mem_filterMap]
  exact ⟨(⟨field, some d, sh⟩, s), h, by simp⟩

end PV.C16
