/-
C16 helper: the group iterator for TWO fields — advancing the first field (skipping rows without
a bit in the filter) under the second field's iterator.  Core Lean only.
-/
import PV.C16.Iter1
namespace PV.C16
open List

/-- two-field iterator state: field 0 on index i of A; field 1 given by its iterator and cached row -/
def s2 (sa sb : Store) (f : Option (List Nat)) (A : List Nat) (i : Nat) (it1 : RowIter) (r1 : List Nat × Nat) : GBI :=
  { stores := [sa, sb], iters := [{ ids := A, cur := i + 1, wrap := false }, it1],
    rows := [(colsIn sa f (A.getD i 0), A.getD i 0), r1], filter := f, done := false }

/-- result of advancing field 0 from index i: exhausted (every later row of A has no bit in the
filter), or standing on the first later row that has one -/
def Adv0 (sa sb : Store) (f : Option (List Nat)) (A : List Nat) (i : Nat) (it1 : RowIter) (r1 : List Nat × Nat)
    (g' : GBI) : Prop :=
  (g'.done = true ∧ ∀ k, i < k → k < A.length → colsIn sa f (A.getD k 0) = []) ∨
  (∃ i', i < i' ∧ i' < A.length ∧ colsIn sa f (A.getD i' 0) ≠ [] ∧
    (∀ k, i < k → k < i' → colsIn sa f (A.getD k 0) = []) ∧ g' = s2 sa sb f A i' it1 r1)

theorem setAt_pair0 {α : Type} (x y z : α) : setAt [x, y] 0 z = [z, y] := rfl
theorem setAt_pair1 {α : Type} (x y z : α) : setAt [x, y] 1 z = [x, z] := rfl

theorem nextAtIdx_two_level0 (sa sb : Store) (f : Option (List Nat)) (A : List Nat) (it1 : RowIter)
    (r1 : List Nat × Nat) :
    ∀ (fuel i : Nat), i < A.length → fuel ≥ A.length - i →
      Adv0 sa sb f A i it1 r1 (nextAtIdx fuel (s2 sa sb f A i it1 r1) 0) := by
  intro fuel
  induction fuel with
  | zero => intro i hi hf; omega
  | succ fuel ih =>
    intro i hi hf
    unfold nextAtIdx
    simp only [s2, List.getElem?_cons_zero, RowIter.next]
    by_cases hend : i + 1 ≥ A.length
    · simp only [hend, if_true, Bool.not_false]
      left
      exact ⟨rfl, fun k h1 h2 => by omega⟩
    · have hlt : i + 1 < A.length := by omega
      have ihn := ih (i + 1) hlt (by omega)
      simp only [hend, if_false, Bool.false_eq_true, false_and, setAt_pair0, if_true]
      cases f with
      | none =>
        simp only [s2, colsIn] at ihn ⊢
        by_cases he : (sa.row (A.getD (i + 1) 0)).isEmpty = true
        · simp only [he, Bool.not_true, Bool.false_eq_true, if_false]
          have hnil : sa.row (A.getD (i + 1) 0) = [] := List.isEmpty_iff.mp he
          rcases ihn with ⟨hd, hall⟩ | ⟨i', h1, h2, h3, h4, h5⟩
          · left
            refine ⟨hd, fun k hk1 hk2 => ?_⟩
            by_cases e : k = i + 1
            · rw [e]; simpa [colsIn] using hnil
            · exact hall k (by omega) hk2
          · right
            refine ⟨i', by omega, h2, h3, fun k hk1 hk2 => ?_, h5⟩
            by_cases e : k = i + 1
            · rw [e]; simpa [colsIn] using hnil
            · exact h4 k (by omega) hk2
        · simp only [he, Bool.not_false, if_true]
          right
          refine ⟨i + 1, by omega, hlt, ?_, fun k hk1 hk2 => by omega, rfl⟩
          intro hnil; apply he; simp only [colsIn] at hnil; rw [hnil]; rfl
      | some fl =>
        simp only [s2, colsIn] at ihn ⊢
        by_cases he : (inter (sa.row (A.getD (i + 1) 0)) fl).isEmpty = true
        · simp only [he, Bool.not_true, Bool.false_eq_true, if_false]
          have hnil : inter (sa.row (A.getD (i + 1) 0)) fl = [] := List.isEmpty_iff.mp he
          rcases ihn with ⟨hd, hall⟩ | ⟨i', h1, h2, h3, h4, h5⟩
          · left
            refine ⟨hd, fun k hk1 hk2 => ?_⟩
            by_cases e : k = i + 1
            · rw [e]; simpa [colsIn] using hnil
            · exact hall k (by omega) hk2
          · right
            refine ⟨i', by omega, h2, h3, fun k hk1 hk2 => ?_, h5⟩
            by_cases e : k = i + 1
            · rw [e]; simpa [colsIn] using hnil
            · exact h4 k (by omega) hk2
        · simp only [he, Bool.not_false, if_true]
          right
          refine ⟨i + 1, by omega, hlt, ?_, fun k hk1 hk2 => by omega, rfl⟩
          intro hnil; apply he; simp only [colsIn] at hnil; rw [hnil]; rfl


/-- two-field iterator standing on (A[i], B[j]) -/
def st2 (sa sb : Store) (f : Option (List Nat)) (A B : List Nat) (i j : Nat) : GBI :=
  s2 sa sb f A i { ids := B, cur := j + 1, wrap := true } (sb.row (B.getD j 0), B.getD j 0)

end PV.C16
