/-
C16 specification, stated on the stored bits only: no containers, no filters with state, no
iterators, no high-water marks.
-/
import PV.C16.Model
namespace PV.C16.Spec
open PV.C16
open PV.C17 (GroupCount Pair)

/-- Rows of a fragment that have at least one bit, ascending. -/
def storeRows (s : Store) : List Nat := sortDedup (s.map (·.1))

/-- `fragment.rows(start, [column], [limit])`: rows ≥ start having a bit (at the column, if given),
ascending, the first `limit`. -/
def fragRows (s : Store) (start : Nat) (col : Option Nat) (limit : Option Nat) : List Nat :=
  let rs := (storeRows s).filter (fun r => r ≥ start && (match col with
    | none => true
    | some c => s.has r c))
  match limit with
  | none => rs
  | some l => rs.take l

/-- Days a Rows call on a time field ranges over: from ≤ d < to. -/
def inRange (fromDay toDay : Option Nat) (d : Nat) : Bool :=
  (match fromDay with | none => true | some f => f ≤ d) && (match toDay with | none => true | some t => d < t)

/-- Every row with at least one bit in the column / time range over the given shards, ascending,
duplicate-free. -/
def allRows (db : DB) (field : Nat) (column fromDay toDay : Option Nat) (shards : List Nat) : List Nat :=
  let timeRange := db.timeFields.contains field && (fromDay.isSome || toDay.isSome)
  let frs := db.frags.filter (fun p =>
    p.1.field == field &&
    (match column with
      | none => shards.contains p.1.shard
      | some c => p.1.shard == c / shardWidth) &&       -- a column belongs to exactly one shard
    (if timeRange then (match p.1.view with | some d => inRange fromDay toDay d | none => false) else p.1.view.isNone))
  sortDedup (frs.flatMap (fun p => (p.2.filter (fun b =>
    match column with
    | none => true
    | some c => b.2 == c % shardWidth)).map (·.1)))

/-- What `previous` and `limit` select from an ascending list. -/
def page (all : List Nat) (previous limit : Option Nat) : List Nat :=
  let after := all.filter (fun r => match previous with | none => true | some p => r > p)
  match limit with
  | none => after
  | some l => after.take l

/-- Rows(): distinct rows with at least one bit in the column / time range over the given shards,
after `previous`, ascending, the first `limit`. -/
def rows (db : DB) (a : RowsArgs) (shards : List Nat) : List Nat :=
  page (allRows db a.field a.column a.fromDay a.toDay shards) a.previous a.limit

/-- Total number of columns of `row` (within the filter) over the shards. -/
def totalCount (db : DB) (field row : Nat) (filter : Option (Nat → List Nat)) (shards : List Nat) : Nat :=
  (shards.map (fun sh => match db.frag ⟨field, none, sh⟩ with
    | none => 0
    | some s => rowCount s row (filter.map (· sh)))).foldl (· + ·) 0

def fieldRows (db : DB) (field : Nat) (shards : List Nat) : List Nat :=
  sortDedup ((db.frags.filter (fun p => p.1.field == field && p.1.view.isNone && shards.contains p.1.shard)).flatMap
    (fun p => p.2.map (·.1)))

/-- MinRow / MaxRow: the smallest / largest row with at least one bit (in the filter) and its count. -/
def minRow (db : DB) (field : Nat) (filter : Option (Nat → List Nat)) (shards : List Nat) : Pair :=
  match (fieldRows db field shards).find? (fun r => totalCount db field r filter shards > 0) with
  | none => Pair.zero
  | some r => ⟨r, totalCount db field r filter shards⟩

def maxRow (db : DB) (field : Nat) (filter : Option (Nat → List Nat)) (shards : List Nat) : Pair :=
  match (fieldRows db field shards).reverse.find? (fun r => totalCount db field r filter shards > 0) with
  | none => Pair.zero
  | some r => ⟨r, totalCount db field r filter shards⟩

/-- All tuples over the domains, lexicographically ascending (domains ascending). -/
def tuples : List (List Nat) → List (List Nat)
  | [] => [[]]
  | d :: ds => d.flatMap (fun r => (tuples ds).map (fun t => r :: t))

def lexGE : List Nat → List Nat → Bool
  | [], _ => true
  | _, [] => true
  | a :: as, b :: bs => if a > b then true else if a < b then false else lexGE as bs

/-- Number of columns of shard `sh` (within the filter) that have every row of the tuple. -/
def shardGroupCount (db : DB) (fields : List Nat) (t : List Nat) (filter : Option (Nat → List Nat)) (sh : Nat) : Nat :=
  let rowsCols := (fields.zip t).map (fun (f, r) => match db.frag ⟨f, none, sh⟩ with
    | none => []
    | some s => s.row r)
  match rowsCols with
  | [] => 0
  | first :: rest =>
    let base := match filter with
      | none => first
      | some flt => inter first (flt sh)
    (rest.foldl inter base).length

/-- Number of columns (within the filter) that have every row of the tuple, over the shards. -/
def groupCount (db : DB) (fields : List Nat) (t : List Nat) (filter : Option (Nat → List Nat)) (shards : List Nat) : Nat :=
  (shards.map (shardGroupCount db fields t filter)).foldl (· + ·) 0

/-- The row domain of every child: the rows its own Rows call returns when it has a limit or a
column, all rows of the field otherwise. -/
def groupDoms (db : DB) (a : GroupByArgs) (shards : List Nat) : List (List Nat) :=
  a.children.map (fun ch =>
    if ch.limit.isSome || ch.column.isSome then
      rows db { field := ch.field, previous := ch.previous, limit := ch.limit, column := ch.column } shards
    else fieldRows db ch.field shards)

/-- The combination right after `p` when the last component is the fastest: last component + 1. -/
def bumpLast : List Nat → List Nat
  | [] => []
  | [x] => [x + 1]
  | x :: y :: rest => x :: bumpLast (y :: rest)

/-- Where a GroupBy whose children all carry `previous` starts: the combination right after the
previous one (last component + 1). -/
def startTuple (a : GroupByArgs) : Option (List Nat) :=
  if a.children.all (fun ch => ch.previous.isSome) && a.children.length > 0 then
    some (bumpLast (a.children.map (fun ch => ch.previous.getD 0)))
  else none

def startOK (a : GroupByArgs) (t : List Nat) : Bool :=
  match startTuple a with
  | none => true
  | some s => lexGE t s

/-- A group with its count, if the count is non-zero and the group is not before the start. -/
def groupOf (a : GroupByArgs) (t : List Nat) (c : Nat) : Option GroupCount :=
  if c > 0 && startOK a t then some ⟨t, c⟩ else none

/-- What one shard contributes: every combination (after the start) with a non-zero count on
that shard, ascending, with that count. -/
def shardGroups (db : DB) (a : GroupByArgs) (shards : List Nat) (sh : Nat) : List GroupCount :=
  (tuples (groupDoms db a shards)).filterMap (fun t =>
    groupOf a t (shardGroupCount db (a.children.map (·.field)) t a.filter sh))

/-- Every combination (after the start) with a non-zero total count, ascending, exact counts. -/
def allGroups (db : DB) (a : GroupByArgs) (shards : List Nat) : List GroupCount :=
  (tuples (groupDoms db a shards)).filterMap (fun t =>
    groupOf a t (groupCount db (a.children.map (·.field)) t a.filter shards))

/-- GroupBy: every combination with a non-zero count, ascending, exact counts; starting after the
`previous` combination when every child carries one; then offset, then limit. Children with a
limit or column range over the rows their own Rows call returns. -/
def groupBy (db : DB) (a : GroupByArgs) (shards : List Nat) : List GroupCount :=
  let res := (allGroups db a shards).drop (a.offset.getD 0)
  match a.limit with
  | none => res
  | some l => res.take l

end PV.C16.Spec
