/-
C16 helper: paging over a strictly ascending list.  Core Lean only.

`pageAfter lt L prev l` is what one request returns: the first `l` elements of `L` that come after
`prev`.  `pagePrev` repeats the request with `previous` = last element of the page before, until a
page is empty, and concatenates.  `pageOffset` does the same with offset = k*l.
-/
namespace PV.C16.Paging
open List

variable {α : Type}

def pageAfter (lt : α → α → Bool) (L : List α) (prev : Option α) (l : Nat) : List α :=
  (L.filter (fun x => match prev with
    | none => true
    | some p => lt p x)).take l

def pagePrev (lt : α → α → Bool) (L : List α) (l : Nat) : Nat → Option α → List α → List α
  | 0, _, acc => acc
  | fuel + 1, prev, acc =>
    match (pageAfter lt L prev l).getLast? with
    | none => acc
    | some last => pagePrev lt L l fuel (some last) (acc ++ pageAfter lt L prev l)

def pageOffset (L : List α) (l : Nat) : Nat → Nat → List α → List α
  | 0, _, acc => acc
  | fuel + 1, off, acc =>
    let page := (L.drop off).take l
    if page.isEmpty then acc else pageOffset L l fuel (off + l) (acc ++ page)

/-- After `done`, with `prev` its last element, a request returns the first `l` of `todo`. -/
theorem pageAfter_split (lt : α → α → Bool)
    (htrans : ∀ a b c, lt a b = true → lt b c = true → lt a c = true)
    (hirr : ∀ a, lt a a = false)
    (done todo : List α) (hs : (done ++ todo).Pairwise (fun a b => lt a b = true)) (l : Nat) :
    pageAfter lt (done ++ todo) done.getLast? l = todo.take l := by
  unfold pageAfter
  congr 1
  cases hd : done.getLast? with
  | none =>
    have : done = [] := List.getLast?_eq_none_iff.mp hd
    subst this
    simp
  | some p =>
    have hpmem : p ∈ done := List.mem_of_getLast? hd
    rw [List.filter_append]
    have hsd := (List.pairwise_append.mp hs)
    have h1 : done.filter (fun x => lt p x) = [] := by
      apply List.filter_eq_nil_iff.mpr
      intro x hx hlt
      -- x ∈ done and p is the last of done: x = p or x before p
      obtain ⟨pre, hpre⟩ : ∃ pre, done = pre ++ [p] := by
        have := List.getLast?_eq_some_iff.mp hd
        obtain ⟨ys, hys⟩ := this
        exact ⟨ys, hys⟩
      rw [hpre] at hx
      rcases List.mem_append.mp hx with hx' | hx'
      · have hpw := hsd.1
        rw [hpre] at hpw
        have := (List.pairwise_append.mp hpw).2.2 x hx' p (by simp)
        have := htrans x p x this hlt
        rw [hirr x] at this; cases this
      · have : x = p := by simpa using hx'
        rw [this, hirr p] at hlt; cases hlt
    have h2 : todo.filter (fun x => lt p x) = todo := by
      apply List.filter_eq_self.mpr
      intro x hx
      exact hsd.2.2 p hpmem x hx
    rw [h1, h2]; rfl

theorem pagePrev_inv (lt : α → α → Bool)
    (htrans : ∀ a b c, lt a b = true → lt b c = true → lt a c = true)
    (hirr : ∀ a, lt a a = false) (l : Nat) (hl : l > 0) :
    ∀ (fuel : Nat) (done todo : List α), (done ++ todo).Pairwise (fun a b => lt a b = true) →
      fuel > todo.length →
      pagePrev lt (done ++ todo) l fuel done.getLast? done = done ++ todo := by
  intro fuel
  induction fuel with
  | zero => intro done todo _ hf; exact absurd hf (Nat.not_lt_zero _)
  | succ fuel ih =>
    intro done todo hs hf
    unfold pagePrev
    rw [pageAfter_split lt htrans hirr done todo hs l]
    cases hlast : (todo.take l).getLast? with
    | none =>
      have : todo.take l = [] := List.getLast?_eq_none_iff.mp hlast
      have htodo : todo = [] := by
        cases todo with
        | nil => rfl
        | cons a as =>
          cases l with
          | zero => exact absurd hl (Nat.lt_irrefl 0)
          | succ l' => simp at this
      simp [htodo]
    | some last =>
      simp only
      have hne : todo.take l ≠ [] := by
        intro h; rw [h] at hlast; simp at hlast
      have hsplit : todo = todo.take l ++ todo.drop l := (List.take_append_drop l todo).symm
      have hdone' : (done ++ todo.take l).getLast? = some last := by
        rw [List.getLast?_append, hlast]; rfl
      have hL : done ++ todo = (done ++ todo.take l) ++ todo.drop l := by
        rw [List.append_assoc, ← hsplit]
      have hlen : fuel > (todo.drop l).length := by
        have h1 : (todo.take l).length > 0 := List.length_pos_iff.mpr hne
        have h2 : todo.length = (todo.take l).length + (todo.drop l).length := by
          conv => lhs; rw [hsplit]
          exact List.length_append
        omega
      have := ih (done ++ todo.take l) (todo.drop l) (by rw [← hL]; exact hs) hlen
      rw [hdone', ← hL] at this
      exact this

/-- Paging with `previous` and `limit` to exhaustion reproduces the list. -/
theorem pagePrev_all (lt : α → α → Bool)
    (htrans : ∀ a b c, lt a b = true → lt b c = true → lt a c = true)
    (hirr : ∀ a, lt a a = false) (L : List α) (hs : L.Pairwise (fun a b => lt a b = true))
    (l : Nat) (hl : l > 0) :
    pagePrev lt L l (L.length + 1) none [] = L := by
  have := pagePrev_inv lt htrans hirr l hl (L.length + 1) [] L (by simpa using hs) (Nat.lt_succ_self _)
  simpa using this

theorem pageOffset_inv (L : List α) (l : Nat) (hl : l > 0) :
    ∀ (fuel off : Nat), fuel > L.length - off →
      pageOffset L l fuel off (L.take off) = L := by
  intro fuel
  induction fuel with
  | zero => intro off hf; exact absurd hf (Nat.not_lt_zero _)
  | succ fuel ih =>
    intro off hf
    unfold pageOffset
    simp only
    by_cases he : ((L.drop off).take l).isEmpty = true
    · simp only [he, if_true]
      have h1 : (L.drop off).take l = [] := List.isEmpty_iff.mp he
      have h2 : L.drop off = [] := by
        cases hd : L.drop off with
        | nil => rfl
        | cons a as =>
          rw [hd] at h1
          cases l with
          | zero => exact absurd hl (Nat.lt_irrefl 0)
          | succ l' => simp at h1
      have : L.length ≤ off := List.drop_eq_nil_iff.mp h2
      exact List.take_of_length_le this
    · simp only [he, if_false]
      have hne : (L.drop off).take l ≠ [] := fun h => he (List.isEmpty_iff.mpr h)
      have hoff : off < L.length := by
        apply Nat.lt_of_not_le
        intro hle
        apply hne
        rw [List.drop_eq_nil_iff.mpr hle]; simp
      have hacc : L.take off ++ (L.drop off).take l = L.take (off + l) := by
        rw [List.take_add]
      rw [hacc]
      apply ih (off + l)
      omega

/-- Paging with `offset` = 0, l, 2l, … and `limit` = l to exhaustion reproduces the list. -/
theorem pageOffset_all (L : List α) (l : Nat) (hl : l > 0) :
    pageOffset L l (L.length + 1) 0 [] = L := by
  have := pageOffset_inv L l hl (L.length + 1) 0 (by omega)
  simpa using this

end PV.C16.Paging
