/-
C16 model: Rows, GroupBy, MinRow, MaxRow as coded.  Core Lean only.

  fragment.rows / unprotectedRows, rowFilter chain                 fragment.go
      filterColumn, filterWithLimit (stateful), filterWithRows (stateful)
  rowIterator (Seek, Next, wrap)                                   fragment.go
  fragment.minRow / maxRow / rowCount                              fragment.go
  executeRowsShard (views of a time range, a fresh limit filter per view), executeRows,
  RowIDs.merge (PV.C17.rowIDsMerge)                                executor.go
  newGroupByIterator, nextAtIdx, Next, executeGroupByShard,
  executeGroupBy (fetch limit = limit+offset, offset, limit),
  mergeGroupCounts (PV.C17.mergeGroupCounts)                       executor.go
  executeMinRow/MaxRow(+Shard) with the pair reducers of C17        executor.go

The model follows the code AFTER the repairs made for this property (each has a witness of the
old behaviour in Props.lean / corpus/C16):
  * minRow/maxRow walk the rows present in storage (was: the maxRowID high-water mark),
  * executeRowsShard builds the limit filter per view (was: one shared, stateful filter),
  * GroupBy fetches limit+offset groups and an offset past the end yields nothing,
  * nextAtIdx returns when the fields to its left are exhausted (was: endless loop),
and after a04's repair of unprotectedRows (containers without bits are skipped), so a fragment is
just its set of bits here.

A fragment's bits are (row, column-in-shard) pairs; a container is the set of bits sharing
`key = row*16 + col/65536` (ShardWidth = 2^20).
-/
import PV.C17.Model
namespace PV.C16
open PV.C17 (rowIDsMerge mergeGroupCounts GroupCount Pair minRowReduce maxRowReduce)

abbrev Store := List (Nat × Nat)

def contWidth : Nat := 65536
def contsPerRow : Nat := 16

def Store.has (s : Store) (r c : Nat) : Bool := s.contains (r, c)
def Store.set (s : Store) (r c : Nat) : Store := if s.contains (r, c) then s else (r, c) :: s
def Store.clear (s : Store) (r c : Nat) : Store := s.filter (fun p => p != (r, c))
def Store.clearRow (s : Store) (r : Nat) : Store := s.filter (fun p => p.1 != r)
/-- `f.row(r)`: the columns of row r. -/
def Store.row (s : Store) (r : Nat) : List Nat := (s.filter (fun p => p.1 == r)).map (·.2)

def insertAsc (x : Nat) : List Nat → List Nat
  | [] => [x]
  | y :: ys => if x < y then x :: y :: ys else if x = y then y :: ys else y :: insertAsc x ys

/-- ascending, duplicate-free -/
def sortDedup (l : List Nat) : List Nat := l.foldr insertAsc []

def keyOf (p : Nat × Nat) : Nat := p.1 * contsPerRow + p.2 / contWidth

/-- The non-empty containers of a fragment in key order: (key, bits of that container). -/
def conts (s : Store) : List (Nat × List (Nat × Nat)) :=
  (sortDedup (s.map keyOf)).map (fun k => (k, s.filter (fun p => keyOf p == k)))

/-! ### row filters (closures with state become data) -/

inductive Filter
  | column (col : Nat)                       -- filterColumn(col): col is the column within the shard
  | limit (left : Nat)                       -- filterWithLimit: rows still allowed
  | rows (ids : List Nat) (loc : Nat)        -- filterWithRows: sorted ids, search position
deriving Repr, DecidableEq

/-- One filter call: (include, done, filter afterwards). -/
def Filter.call (f : Filter) (row key : Nat) (c : List (Nat × Nat)) : Bool × Bool × Filter :=
  match f with
  | .column col => (decide (row * contsPerRow + col / contWidth = key) && c.contains (row, col), false, f)
  | .limit left => if left > 0 then (true, false, .limit (left - 1)) else (false, true, f)
  | .rows ids loc =>
    if loc ≥ ids.length then (false, true, f)
    else
      let i := ((ids.drop loc).findIdx (fun x => x ≥ row))
      let loc := loc + i
      if loc ≥ ids.length then (false, true, .rows ids loc)
      else if ids.getD loc 0 = row then (true, decide (loc = ids.length - 1), .rows ids loc)
      else (false, false, .rows ids loc)

/-- The filter loop of unprotectedRows for one container: stop calling at the first `false`. -/
def callAll : List Filter → Nat → Nat → List (Nat × Nat) → Bool × Bool × List Filter
  | [], _, _, _ => (true, false, [])
  | f :: fs, row, key, c =>
    let (inc, d, f') := f.call row key c
    if !inc then (false, d, f' :: fs)
    else
      let (inc2, d2, fs') := callAll fs row key c
      (inc2, d || d2, f' :: fs')

/-- The container loop of unprotectedRows. -/
def rowsLoop : List (Nat × List (Nat × Nat)) → List Filter → Option Nat → List Nat
  | [], _, _ => []
  | (key, c) :: rest, fs, last =>
    let vRow := key / contsPerRow
    if last = some vRow then rowsLoop rest fs last
    else
      let (add, done, fs') := callAll fs vRow key c
      if add then
        if done then [vRow] else vRow :: rowsLoop rest fs' (some vRow)
      else
        if done then [] else rowsLoop rest fs' last

/-- `fragment.rows(start, filters...)`. -/
def fragRows (s : Store) (start : Nat) (fs : List Filter) : List Nat :=
  rowsLoop ((conts s).filter (fun kc => kc.1 ≥ start * contsPerRow)) fs none

/-! ### minRow / maxRow -/

def interCount (a b : List Nat) : Nat := (a.filter b.contains).length

def rowCount (s : Store) (r : Nat) (filter : Option (List Nat)) : Nat :=
  match filter with
  | none => (s.row r).length
  | some f => interCount (s.row r) f

def firstWith (s : Store) (filter : Option (List Nat)) : List Nat → Nat × Nat
  | [] => (0, 0)
  | r :: rest => if rowCount s r filter > 0 then (r, rowCount s r filter) else firstWith s filter rest

def minRow (s : Store) (filter : Option (List Nat)) : Nat × Nat := firstWith s filter (fragRows s 0 [])
def maxRow (s : Store) (filter : Option (List Nat)) : Nat × Nat := firstWith s filter (fragRows s 0 []).reverse

/-! ### a field's fragments -/

/-- view: none = standard, some d = the day view of day d (quantum "D"). -/
structure FragId where
  field : Nat
  view : Option Nat
  shard : Nat
deriving DecidableEq, Repr

structure DB where
  frags : List (FragId × Store) := []
  timeFields : List Nat := []     -- fields of type time (quantum D, standard view kept)
deriving Repr

def DB.frag (db : DB) (id : FragId) : Option Store :=
  (db.frags.find? (fun p => p.1 == id)).map (·.2)

def DB.update (db : DB) (id : FragId) (f : Store → Store) : DB :=
  if db.frags.any (fun p => p.1 == id) then
    { db with frags := db.frags.map (fun p => if p.1 == id then (p.1, f p.2) else p) }
  else { db with frags := db.frags ++ [(id, f [])] }

/-- Days for which the field has a view (on any shard). -/
def DB.days (db : DB) (field : Nat) : List Nat :=
  sortDedup (db.frags.filterMap (fun p => if p.1.field == field then p.1.view else none))

/-! ### Rows -/

structure RowsArgs where
  field : Nat
  previous : Option Nat := none
  limit : Option Nat := none
  column : Option Nat := none       -- absolute column id
  fromDay : Option Nat := none
  toDay : Option Nat := none
deriving Repr

def shardWidth : Nat := 1048576
def noLimit : Nat := 9223372036854775807

def listMin? : List Nat → Option Nat
  | [] => none
  | x :: xs => match listMin? xs with
    | none => some x
    | some m => some (if x < m then x else m)

def listMax? : List Nat → Option Nat
  | [] => none
  | x :: xs => match listMax? xs with
    | none => some x
    | some m => some (if x > m then x else m)

/-- The views executeRowsShard looks at. -/
def rowsViews (db : DB) (a : RowsArgs) : List (Option Nat) :=
  if db.timeFields.contains a.field ∧ (a.fromDay.isSome ∨ a.toDay.isSome) then
    match listMin? (db.days a.field), listMax? (db.days a.field) with
    | some mn, some mx =>
      let fr := match a.fromDay with
        | none => mn
        | some f => if f < mn then mn else f
      let to := match a.toDay with
        | none => mx + 1
        | some t => if t > mx + 1 then mx + 1 else t
      ((List.range to).filter (fun d => d ≥ fr)).map some
    | _, _ => []
  else [none]

def rowsShardLoop (db : DB) (a : RowsArgs) (shard start : Nat) (base : List Filter) (limit : Nat) :
    List (Option Nat) → List Nat → List Nat
  | [], acc => acc
  | v :: vs, acc =>
    match db.frag ⟨a.field, v, shard⟩ with
    | none => rowsShardLoop db a shard start base limit vs acc
    | some s =>
      let fs := match a.limit with
        | some l => base ++ [Filter.limit l]
        | none => base
      rowsShardLoop db a shard start base limit vs (rowIDsMerge acc (fragRows s start fs) limit)

/-- `executeRowsShard`. -/
def rowsShard (db : DB) (a : RowsArgs) (shard : Nat) : List Nat :=
  let start := match a.previous with
    | some p => p + 1
    | none => 0
  match a.column with
  | some col =>
    if col / shardWidth ≠ shard then []
    else rowsShardLoop db a shard start [Filter.column (col % shardWidth)] (a.limit.getD noLimit) (rowsViews db a) []
  | none => rowsShardLoop db a shard start [] (a.limit.getD noLimit) (rowsViews db a) []

/-- `executeRows`: map-reduce over the shards in arrival order. -/
def rows (db : DB) (a : RowsArgs) (shards : List Nat) : List Nat :=
  let shards := match a.column with
    | some col => [col / shardWidth]
    | none => shards
  shards.foldl (fun acc sh => rowIDsMerge acc (rowsShard db a sh) (a.limit.getD noLimit)) []

/-! ### MinRow / MaxRow through the executor -/

def pairOf (p : Nat × Nat) : Pair := ⟨p.1, p.2⟩

def minRowQ (db : DB) (field : Nat) (filter : Option (Nat → List Nat)) (shards : List Nat) : Pair :=
  shards.foldl (fun acc sh =>
    match db.frag ⟨field, none, sh⟩ with
    | none => minRowReduce acc Pair.zero
    | some s => minRowReduce acc (pairOf (minRow s (filter.map (· sh))))) Pair.zero

def maxRowQ (db : DB) (field : Nat) (filter : Option (Nat → List Nat)) (shards : List Nat) : Pair :=
  shards.foldl (fun acc sh =>
    match db.frag ⟨field, none, sh⟩ with
    | none => maxRowReduce acc Pair.zero
    | some s => maxRowReduce acc (pairOf (maxRow s (filter.map (· sh))))) Pair.zero

/-! ### GroupBy -/

/-- rowIterator -/
structure RowIter where
  ids : List Nat
  cur : Nat := 0
  wrap : Bool
deriving Repr

def RowIter.seek (ri : RowIter) (row : Nat) : RowIter :=
  { ri with cur := ri.ids.findIdx (fun x => x ≥ row) }

/-- `Next`: (some rowID | none, wrapped, iterator). -/
def RowIter.next (ri : RowIter) : Option Nat × Bool × RowIter :=
  if ri.cur ≥ ri.ids.length then
    if !ri.wrap ∨ ri.ids.isEmpty then (none, true, ri)
    else (some (ri.ids.getD 0 0), true, { ri with cur := 1 })
  else (some (ri.ids.getD ri.cur 0), false, { ri with cur := ri.cur + 1 })

structure GBI where
  stores : List Store                 -- the standard fragment of every field, this shard
  iters : List RowIter
  rows : List (List Nat × Nat)        -- (row columns, row id) per field
  filter : Option (List Nat)
  done : Bool := false
deriving Repr

def setAt {α : Type} (l : List α) (i : Nat) (x : α) : List α :=
  (l.zipIdx).map (fun (y, j) => if j = i then x else y)

def inter (a b : List Nat) : List Nat := a.filter b.contains

/-- The `for j := i-1; j >= 0; j--` loop of newGroupByIterator after a wrap at field i. -/
def advanceLeft (g : GBI) : Nat → GBI
  | 0 => g
  | j + 1 =>
    match g.iters[j]? , g.stores[j]? with
    | some it, some st =>
      match it.next with
      | (none, _, _) => { g with done := true }
      | (some rid, wrapped, it') =>
        let g := { g with iters := setAt g.iters j it', rows := setAt g.rows j (st.row rid, rid) }
        if !wrapped then g else advanceLeft g j
    | _, _ => { g with done := true }

structure ChildArgs where
  field : Nat
  previous : Option Nat := none
  limit : Option Nat := none
  column : Option Nat := none
deriving Repr

/-- The per-field loop of newGroupByIterator. `i` counts fields done so far. -/
def gbiInit (g : GBI) (n : Nat) : List (ChildArgs × List Nat × Store) → Nat → Bool → GBI
  | [], _, _ => g
  | (ch, childRows, st) :: rest, i, ignorePrev =>
    let fs := if childRows.isEmpty then [] else [Filter.rows childRows 0]
    let it : RowIter := { ids := fragRows st 0 fs, wrap := i != 0 }
    let (it, prev) := match ch.previous with
      | some p =>
        if !ignorePrev then
          let p := if i = n - 1 then p + 1 else p
          (it.seek p, some p)
        else (it, some p)
      | none => (it, none)
    match it.next with
    | (none, _, _) => { g with stores := g.stores ++ [st], iters := g.iters ++ [it], rows := g.rows ++ [([], 0)], done := true }
    | (some rid, wrapped, it') =>
      let g := { g with stores := g.stores ++ [st], iters := g.iters ++ [it'], rows := g.rows ++ [(st.row rid, rid)] }
      let ignorePrev := ignorePrev || (match prev with
        | some p => rid != p
        | none => false)
      let g := if wrapped then advanceLeft g i else g
      if g.done then g else gbiInit g n rest (i + 1) ignorePrev

/-- Intersections applied at the end of newGroupByIterator. -/
def gbiFinish (g : GBI) : GBI :=
  if g.done then g else
  let rows := match g.filter, g.rows with
    | some f, (r, id) :: rest => (inter r f, id) :: rest
    | _, rows => rows
  -- for i := 1; i < len-1: rows[i] = rows[i] ∩ rows[i-1]
  let n := rows.length
  let rows := (List.range n).foldl (fun (rows : List (List Nat × Nat)) i =>
    if 1 ≤ i ∧ i + 1 < n then
      match rows[i]?, rows[i - 1]? with
      | some (r, id), some (rp, _) => setAt rows i (inter r rp, id)
      | _, _ => rows
    else rows) rows
  { g with rows := rows }

/-- `nextAtIdx(i)`; fuel bounds the total number of iterator steps. -/
def nextAtIdx : Nat → GBI → Nat → GBI
  | 0, g, _ => { g with done := true }
  | fuel + 1, g, i =>
    match g.iters[i]?, g.stores[i]? with
    | some it, some st =>
      match it.next with
      | (none, _, _) => { g with done := true }
      | (some rid, wrapped, it') =>
        let g := { g with iters := setAt g.iters i it' }
        let g := if wrapped ∧ i ≠ 0 then nextAtIdx fuel g (i - 1) else g
        if wrapped ∧ i ≠ 0 ∧ g.done then g
        else
          let nr := st.row rid
          let n := g.rows.length
          let row :=
            if i = 0 then (match g.filter with
              | some f => inter nr f
              | none => nr)
            else if i = n - 1 then nr
            else inter nr ((g.rows.getD (i - 1) ([], 0)).1)
          let g := { g with rows := setAt g.rows i (row, rid) }
          if !row.isEmpty then g else nextAtIdx fuel g i
    | _, _ => { g with done := true }

/-- `Next`: (group ids, count) or none when done. -/
def gbiNext : Nat → GBI → Option (List Nat × Nat) × GBI
  | 0, g => (none, { g with done := true })
  | fuel + 1, g =>
    if g.done then (none, g)
    else
      let n := g.rows.length
      let last := (g.rows.getD (n - 1) ([], 0)).1
      let count := if n = 1 then last.length else interCount last ((g.rows.getD (n - 2) ([], 0)).1)
      if count = 0 then gbiNext fuel (nextAtIdx fuel g (n - 1))
      else (some (g.rows.map (·.2), count), nextAtIdx fuel g (n - 1))

/-- The result loop of executeGroupByShard. -/
def gbiCollect : Nat → Nat → GBI → Nat → List GroupCount
  | 0, _, _, _ => []
  | _, _, _, 0 => []
  | fuel + 1, stepFuel, g, limit + 1 =>
    match gbiNext stepFuel g with
    | (none, _) => []
    | (some (grp, cnt), g') => ⟨grp, cnt⟩ :: gbiCollect fuel stepFuel g' limit

structure GroupByArgs where
  children : List ChildArgs
  limit : Option Nat := none
  offset : Option Nat := none
  filter : Option (Nat → List Nat) := none   -- shard ↦ columns of the filter row in that shard

def fetchLimit (a : GroupByArgs) : Nat :=
  match a.limit with
  | none => noLimit
  | some l => let s := l + a.offset.getD 0; if s < noLimit then s else noLimit

/-- `executeGroupByShard`. -/
def groupByShard (db : DB) (a : GroupByArgs) (childRows : List (List Nat)) (shard : Nat) : List GroupCount :=
  let stores := a.children.map (fun ch => db.frag ⟨ch.field, none, shard⟩)
  if stores.any Option.isNone then []     -- a field without a fragment here: nothing for this shard
  else
    let trip := (a.children.zip childRows).zip (stores.map (·.getD []))
    let g0 : GBI := { stores := [], iters := [], rows := [], filter := a.filter.map (· shard) }
    let g := gbiFinish (gbiInit g0 a.children.length (trip.map (fun x => (x.1.1, x.1.2, x.2))) 0 false)
    let sizes := trip.map (fun x => (fragRows x.2 0 []).length + 1)
    let stepFuel := (sizes.foldl (· * ·) 1) * (sizes.length + 1) + 8
    gbiCollect (fetchLimit a + 1 |>.min (stepFuel + 1)) stepFuel g (fetchLimit a)

/-- `executeGroupBy`. -/
def groupBy (db : DB) (a : GroupByArgs) (shards : List Nat) : List GroupCount :=
  -- children with limit or column are evaluated cluster-wide first
  let childRows := a.children.map (fun ch =>
    if ch.limit.isSome ∨ ch.column.isSome then
      some (rows db { field := ch.field, previous := ch.previous, limit := ch.limit, column := ch.column } shards)
    else none)
  if childRows.any (fun r => r == some []) then []
  else
    let cr := childRows.map (·.getD [])
    let merged := shards.foldl (fun acc sh => mergeGroupCounts acc (groupByShard db a cr sh) (fetchLimit a)) []
    let res := match a.offset with
      | some o => if o < merged.length then merged.drop o else []
      | none => merged
    match a.limit with
    | some l => if l < res.length then res.take l else res
    | none => res

end PV.C16
