/-
C16 helper lemmas, part 2: the container loop of fragment.rows with the filter chain
[filterColumn]? ++ [filterWithLimit]? is a plain walk cut at the limit.  Core Lean only.
-/
import PV.C16.Lemmas
namespace PV.C16
open List

abbrev Cont := Nat × List (Nat × Nat)

def rowOfC (kc : Cont) : Nat := kc.1 / contsPerRow

def colFilter : Option Nat → List Filter
  | none => []
  | some c => [Filter.column c]

def limFilter : Option Nat → List Filter
  | none => []
  | some l => [Filter.limit l]

/-- Does the container let its row through filterColumn? -/
def passC (col : Option Nat) (kc : Cont) : Bool :=
  match col with
  | none => true
  | some c => decide (rowOfC kc * contsPerRow + c / contWidth = kc.1) && kc.2.contains (rowOfC kc, c)

/-- The loop without a limit: a row is emitted at its first container that passes. -/
def walk (col : Option Nat) : List Cont → Option Nat → List Nat
  | [], _ => []
  | kc :: rest, last =>
    if last = some (rowOfC kc) then walk col rest last
    else if passC col kc then rowOfC kc :: walk col rest (some (rowOfC kc))
    else walk col rest last

theorem callAll_col (col : Option Nat) (kc : Cont) :
    callAll (colFilter col) (rowOfC kc) kc.1 kc.2 = (passC col kc, false, colFilter col) := by
  cases col with
  | none => rfl
  | some c =>
    simp only [colFilter, callAll, Filter.call, passC]
    by_cases hb : (decide (rowOfC kc * contsPerRow + c / contWidth = kc.1) && kc.2.contains (rowOfC kc, c)) = true
    · simp only [hb, Bool.not_true, Bool.false_eq_true, if_false, Bool.or_false]
    · have hb' : (decide (rowOfC kc * contsPerRow + c / contWidth = kc.1) && kc.2.contains (rowOfC kc, c)) = false :=
        Bool.eq_false_iff.mpr hb
      simp only [hb', Bool.not_false, if_true]

theorem callAll_col_lim (col : Option Nat) (l : Nat) (kc : Cont) :
    callAll (colFilter col ++ [Filter.limit l]) (rowOfC kc) kc.1 kc.2 =
      if passC col kc then
        (if l > 0 then (true, false, colFilter col ++ [Filter.limit (l - 1)])
         else (false, true, colFilter col ++ [Filter.limit l]))
      else (false, false, colFilter col ++ [Filter.limit l]) := by
  cases col with
  | none =>
    simp only [colFilter, List.nil_append, callAll, Filter.call, passC, if_true]
    by_cases hl : l > 0
    · simp only [hl, if_true]; rfl
    · simp only [hl, if_false]; rfl
  | some c =>
    simp only [colFilter, List.cons_append, List.nil_append, callAll, Filter.call, passC]
    by_cases hb : (decide (rowOfC kc * contsPerRow + c / contWidth = kc.1) && kc.2.contains (rowOfC kc, c)) = true
    · simp only [hb, Bool.not_true, Bool.false_eq_true, if_false, if_true]
      by_cases hl : l > 0
      · simp only [hl, if_true, Bool.not_true, Bool.false_eq_true, if_false, Bool.or_false]
      · simp only [hl, if_false, Bool.not_false, if_true, Bool.or_true]
    · have hb' : (decide (rowOfC kc * contsPerRow + c / contWidth = kc.1) && kc.2.contains (rowOfC kc, c)) = false :=
        Bool.eq_false_iff.mpr hb
      simp only [hb', Bool.not_false, if_true, Bool.false_eq_true, if_false]

theorem rowsLoop_col (col : Option Nat) (cs : List Cont) (last : Option Nat) :
    rowsLoop cs (colFilter col) last = walk col cs last := by
  induction cs generalizing last with
  | nil => rfl
  | cons kc rest ih =>
    obtain ⟨k, c⟩ := kc
    have hcall := callAll_col col (k, c)
    simp only [rowOfC] at hcall
    unfold rowsLoop walk
    simp only [rowOfC]
    by_cases hlast : last = some (k / contsPerRow)
    · simp only [hlast, if_true]; rw [← hlast]; exact ih last
    · simp only [hlast, if_false]
      rw [hcall]
      cases hp : passC col (k, c) with
      | true => simp only [if_true, Bool.false_eq_true, if_false]; rw [ih]
      | false => simp only [Bool.false_eq_true, if_false]; exact ih last

theorem rowsLoop_col_lim (col : Option Nat) (cs : List Cont) (l : Nat) (last : Option Nat) :
    rowsLoop cs (colFilter col ++ [Filter.limit l]) last = (walk col cs last).take l := by
  induction cs generalizing last l with
  | nil => simp [rowsLoop, walk]
  | cons kc rest ih =>
    obtain ⟨k, c⟩ := kc
    have hcall := callAll_col_lim col l (k, c)
    simp only [rowOfC] at hcall
    unfold rowsLoop walk
    simp only [rowOfC]
    by_cases hlast : last = some (k / contsPerRow)
    · simp only [hlast, if_true]; rw [← hlast]; exact ih l last
    · simp only [hlast, if_false]
      rw [hcall]
      cases hp : passC col (k, c) with
      | false => simp only [Bool.false_eq_true, if_false]; exact ih l last
      | true =>
        simp only [if_true]
        cases l with
        | zero => simp
        | succ l' =>
          have : l' + 1 > 0 := Nat.succ_pos l'
          simp only [this, if_true, Bool.false_eq_true, if_false, Nat.add_sub_cancel, List.take_succ_cons]
          rw [ih]

end PV.C16
