/-
C16 helper: the group iterator for ONE field — nextAtIdx / Next / the result loop (with their
fuel) and newGroupByIterator with `previous`.  Core Lean only.
-/
import PV.C16.Model
namespace PV.C16
open List
open PV.C17 (GroupCount)

/-- columns of row r inside the filter -/
def colsIn (st : Store) (f : Option (List Nat)) (r : Nat) : List Nat :=
  match f with
  | some fl => inter (st.row r) fl
  | none => st.row r

/-- the single-field iterator standing on index j of its row list -/
def st1 (st : Store) (f : Option (List Nat)) (R : List Nat) (j : Nat) : GBI :=
  { stores := [st], iters := [{ ids := R, cur := j + 1, wrap := false }],
    rows := [(colsIn st f (R.getD j 0), R.getD j 0)], filter := f, done := false }

def emit1 (st : Store) (f : Option (List Nat)) (r : Nat) : Option (List Nat × Nat) :=
  if (colsIn st f r).length = 0 then none else some ([r], (colsIn st f r).length)

def stream1 (st : Store) (f : Option (List Nat)) (R : List Nat) (j : Nat) : List (List Nat × Nat) :=
  (R.drop j).filterMap (emit1 st f)

def Good (st : Store) (f : Option (List Nat)) (R : List Nat) (lo : Nat) (s : GBI) (σ : List (List Nat × Nat)) : Prop :=
  (s.done = true ∧ σ = []) ∨ (∃ j, lo ≤ j ∧ j < R.length ∧ s = st1 st f R j ∧ σ = stream1 st f R j)

theorem Good.mono {st : Store} {f : Option (List Nat)} {R : List Nat} {lo lo' : Nat} {s : GBI}
    {σ : List (List Nat × Nat)} (h : Good st f R lo s σ) (hl : lo' ≤ lo) : Good st f R lo' s σ := by
  rcases h with h | ⟨j, h1, h2⟩
  · exact Or.inl h
  · exact Or.inr ⟨j, Nat.le_trans hl h1, h2⟩

theorem stream1_step (st : Store) (f : Option (List Nat)) (R : List Nat) (j : Nat) (hj : j < R.length) :
    stream1 st f R j = (emit1 st f (R.getD j 0)).toList ++ stream1 st f R (j + 1) := by
  unfold stream1
  rw [List.drop_eq_getElem_cons hj, List.filterMap_cons]
  have : R.getD j 0 = R[j] := by simp [List.getD_eq_getElem?_getD, List.getElem?_eq_getElem hj]
  rw [this]
  cases emit1 st f R[j] <;> simp

theorem setAt_single {α : Type} (x y : α) : setAt [x] 0 y = [y] := rfl

theorem isEmpty_iff_length {α : Type} (l : List α) : l.isEmpty = true ↔ l.length = 0 := by
  cases l <;> simp

theorem nextAtIdx_single (st : Store) (f : Option (List Nat)) (R : List Nat) :
    ∀ (fuel j : Nat), j < R.length → fuel ≥ R.length - j →
      Good st f R (j + 1) (nextAtIdx fuel (st1 st f R j) 0) (stream1 st f R (j + 1)) := by
  intro fuel
  induction fuel with
  | zero => intro j hj hf; omega
  | succ fuel ih =>
    intro j hj hf
    unfold nextAtIdx
    simp only [st1, List.getElem?_cons_zero, RowIter.next]
    by_cases hend : j + 1 ≥ R.length
    · -- exhausted
      simp only [hend, if_true, Bool.not_false]
      left
      refine ⟨rfl, ?_⟩
      unfold stream1
      rw [List.drop_eq_nil_iff.mpr hend]; rfl
    · have hlt : j + 1 < R.length := by omega
      have hstep := stream1_step st f R (j + 1) hlt
      have ihn := ih (j + 1) hlt (by omega)
      simp only [hend, if_false, Bool.false_eq_true, false_and, setAt_single, List.length_cons, List.length_nil,
        Nat.zero_add, if_true, Nat.sub_self]
      cases f with
      | none =>
        simp only [st1, colsIn] at ihn hstep ⊢
        by_cases he : (st.row (R.getD (j + 1) 0)).isEmpty = true
        · simp only [he, Bool.not_true, Bool.false_eq_true, if_false]
          have hl := (isEmpty_iff_length _).mp he
          have : emit1 st none (R.getD (j + 1) 0) = none := by
            unfold emit1; simp only [colsIn, hl, if_true]
          rw [hstep, this]
          exact ihn.mono (by omega)
        · simp only [he, Bool.not_false, if_true]
          right
          exact ⟨j + 1, Nat.le_refl _, hlt, rfl, rfl⟩
      | some fl =>
        simp only [st1, colsIn] at ihn hstep ⊢
        by_cases he : (inter (st.row (R.getD (j + 1) 0)) fl).isEmpty = true
        · simp only [he, Bool.not_true, Bool.false_eq_true, if_false]
          have hl := (isEmpty_iff_length _).mp he
          have : emit1 st (some fl) (R.getD (j + 1) 0) = none := by
            unfold emit1; simp only [colsIn, hl, if_true]
          rw [hstep, this]
          exact ihn.mono (by omega)
        · simp only [he, Bool.not_false, if_true]
          right
          exact ⟨j + 1, Nat.le_refl _, hlt, rfl, rfl⟩


theorem gbiNext_single (st : Store) (f : Option (List Nat)) (R : List Nat) :
    ∀ (fuel lo : Nat) (s : GBI) (σ : List (List Nat × Nat)), Good st f R lo s σ →
      fuel ≥ R.length - lo + 2 →
      (gbiNext fuel s).1 = σ.head? ∧ ∃ lo', Good st f R lo' (gbiNext fuel s).2 σ.tail := by
  intro fuel
  induction fuel with
  | zero => intro lo s σ _ hf; omega
  | succ fuel ih =>
    intro lo s σ hg hf
    rcases hg with ⟨hd, hσ⟩ | ⟨j, hlo, hj, hs, hσ⟩
    · unfold gbiNext
      simp only [hd, if_true]
      subst hσ
      exact ⟨rfl, 0, Or.inl ⟨hd, rfl⟩⟩
    · subst hs
      have hnext := nextAtIdx_single st f R fuel j hj (by omega)
      have hstep := stream1_step st f R j hj
      unfold gbiNext
      simp only [st1, Bool.false_eq_true, if_false, List.length_cons, List.length_nil, Nat.zero_add, Nat.sub_self,
        List.getD_cons_zero, if_true, List.map_cons, List.map_nil]
      by_cases hc : (colsIn st f (R.getD j 0)).length = 0
      · simp only [hc, if_true]
        have he : emit1 st f (R.getD j 0) = none := by unfold emit1; simp only [hc, if_true]
        rw [he] at hstep
        simp only [Option.toList_none, List.nil_append] at hstep
        rw [hσ, hstep]
        exact ih (j + 1) _ _ hnext (by omega)
      · simp only [hc, if_false]
        have he : emit1 st f (R.getD j 0) = some ([R.getD j 0], (colsIn st f (R.getD j 0)).length) := by
          unfold emit1; simp only [hc, if_false]
        rw [he] at hstep
        simp only [Option.toList_some, List.singleton_append] at hstep
        rw [hσ, hstep]
        exact ⟨rfl, j + 1, hnext⟩

theorem gbiCollect_single (st : Store) (f : Option (List Nat)) (R : List Nat) (sf : Nat) (hsf : sf ≥ R.length + 2) :
    ∀ (L fuelC lo : Nat) (s : GBI) (σ : List (List Nat × Nat)), Good st f R lo s σ →
      fuelC ≥ Nat.min L σ.length + 1 →
      gbiCollect fuelC sf s L = (σ.take L).map (fun p => (⟨p.1, p.2⟩ : GroupCount)) := by
  intro L
  induction L with
  | zero => intro fuelC lo s σ _ _; cases fuelC <;> simp [gbiCollect]
  | succ L ih =>
    intro fuelC lo s σ hg hf
    cases fuelC with
    | zero => omega
    | succ fuelC =>
      obtain ⟨h1, lo', h2⟩ := gbiNext_single st f R sf lo s σ hg (by omega)
      unfold gbiCollect
      cases σ with
      | nil =>
        simp only [List.head?_nil] at h1
        rw [show gbiNext sf s = ((gbiNext sf s).1, (gbiNext sf s).2) from rfl, h1]
        simp
      | cons p rest =>
        simp only [List.head?_cons, List.tail_cons] at h1 h2
        rw [show gbiNext sf s = ((gbiNext sf s).1, (gbiNext sf s).2) from rfl, h1]
        obtain ⟨grp, cnt⟩ := p
        simp only [List.take_succ_cons, List.map_cons]
        congr 1
        apply ih fuelC lo' _ rest h2
        simp only [List.length_cons] at hf
        have : Nat.min (L + 1) (rest.length + 1) = Nat.min L rest.length + 1 := by
          simp only [Nat.min_def]; split <;> split <;> omega
        omega


/-- where the single-field iterator starts: the first row after `previous` -/
def start1 (R : List Nat) (prev : Option Nat) : Nat :=
  match prev with
  | none => 0
  | some p => R.findIdx (fun x => decide (x ≥ p + 1))

theorem gbiInit_single (st : Store) (f : Option (List Nat)) (ch : ChildArgs) :
    let R := fragRows st 0 []
    Good st f R 0
      (gbiFinish (gbiInit { stores := [], iters := [], rows := [], filter := f } 1 [(ch, [], st)] 0 false))
      (stream1 st f R (start1 R ch.previous)) := by
  intro R
  unfold gbiInit
  simp only [List.isEmpty_nil, if_true, bne_self_eq_false]
  cases hp : ch.previous with
  | none =>
    simp only [start1, RowIter.next, Bool.not_false, Bool.true_or]
    by_cases h0 : 0 ≥ R.length
    · have hR : R = [] := List.eq_nil_of_length_eq_zero (by omega)
      simp only [show (0 : Nat) ≥ (fragRows st 0 []).length from h0, if_true]
      left
      refine ⟨by simp [gbiFinish], ?_⟩
      simp [stream1, hR]
    · simp only [show ¬ (0 : Nat) ≥ (fragRows st 0 []).length from h0, if_false, Bool.false_eq_true, gbiInit]
      right
      refine ⟨0, Nat.le_refl _, by omega, ?_, rfl⟩
      cases f <;> simp [gbiFinish, st1, colsIn, setAt, List.range, List.range.loop, R]
  | some p =>
    simp only [start1, Bool.not_false, if_true, Nat.sub_self, RowIter.seek, RowIter.next, Bool.true_or]
    by_cases h0 : R.findIdx (fun x => decide (x ≥ p + 1)) ≥ R.length
    · simp only [show (fragRows st 0 []).findIdx (fun x => decide (x ≥ p + 1)) ≥ (fragRows st 0 []).length from h0, if_true]
      left
      refine ⟨by simp [gbiFinish], ?_⟩
      unfold stream1
      rw [List.drop_eq_nil_iff.mpr h0]; rfl
    · simp only [show ¬ (fragRows st 0 []).findIdx (fun x => decide (x ≥ p + 1)) ≥ (fragRows st 0 []).length from h0,
        if_false, Bool.false_eq_true, gbiInit]
      right
      refine ⟨_, Nat.zero_le _, by omega, ?_, rfl⟩
      cases f <;> simp [gbiFinish, st1, colsIn, setAt, List.range, List.range.loop, R]


theorem stream1_length_le (st : Store) (f : Option (List Nat)) (R : List Nat) (j : Nat) :
    (stream1 st f R j).length ≤ R.length := by
  unfold stream1
  exact Nat.le_trans (List.length_filterMap_le _ _) (by simp)

end PV.C16
