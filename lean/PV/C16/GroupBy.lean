/-
C16 helper: GroupBy above the per-shard iterator — the combinations in lexicographic order, the
merge of the shard results (PV.C17.K.kmerge theory), slicing.  Core Lean only.
-/
import PV.C16.RowsExec
import PV.C17.LemmasM
namespace PV.C16
open List
open PV.C17 (GroupCount mergeGroupCounts)
open PV.C17.K

/-! ### the combinations, in lexicographic order -/

theorem tuples_length (doms : List (List Nat)) : ∀ t ∈ Spec.tuples doms, t.length = doms.length := by
  induction doms with
  | nil => intro t ht; simp [Spec.tuples] at ht; simp [ht]
  | cons d ds ih =>
    intro t ht
    simp only [Spec.tuples, List.mem_flatMap, List.mem_map] at ht
    obtain ⟨r, _, t', ht', rfl⟩ := ht
    simp [ih t' ht']

theorem pairwise_flatMap_of {α β : Type} (R : β → β → Prop) (f : α → List β) (l : List α)
    (S : α → α → Prop) (hl : l.Pairwise S) (hin : ∀ a ∈ l, (f a).Pairwise R)
    (hx : ∀ a b, S a b → ∀ x ∈ f a, ∀ y ∈ f b, R x y) : (l.flatMap f).Pairwise R := by
  induction l with
  | nil => simp
  | cons a rest ih =>
    simp only [List.flatMap_cons]
    have hl' := List.pairwise_cons.mp hl
    apply List.pairwise_append.mpr
    refine ⟨hin a (by simp), ih hl'.2 (fun b hb => hin b (List.mem_cons_of_mem _ hb)), ?_⟩
    intro x hx' y hy
    rcases List.mem_flatMap.mp hy with ⟨b, hb, hyb⟩
    exact hx a b (hl'.1 b hb) x hx' y hyb

theorem tuples_sorted (doms : List (List Nat)) (h : ∀ d ∈ doms, d.Pairwise (· < ·)) :
    (Spec.tuples doms).Pairwise (· < ·) := by
  induction doms with
  | nil => simp [Spec.tuples]
  | cons d ds ih =>
    have ihs := ih (fun d' hd => h d' (List.mem_cons_of_mem _ hd))
    simp only [Spec.tuples]
    apply pairwise_flatMap_of (· < ·) _ d (· < ·) (h d (by simp))
    · intro r _
      apply List.pairwise_map.mpr
      apply ihs.imp
      intro x y hxy
      exact List.cons_lt_cons_iff.mpr (Or.inr ⟨rfl, hxy⟩)
    · intro r1 r2 hr x hx y hy
      rcases List.mem_map.mp hx with ⟨x', _, rfl⟩
      rcases List.mem_map.mp hy with ⟨y', _, rfl⟩
      exact List.cons_lt_cons_iff.mpr (Or.inl hr)

/-! ### lists of groups produced from the combinations -/

/-- `look` in a list obtained by `filterMap` from strictly ascending keys. -/
theorem look_filterMap (T : List (List Nat)) (hT : T.Pairwise (· < ·)) (g : List Nat → Option GroupCount)
    (hg : ∀ t y, g t = some y → y.group = t) (k : List Nat) :
    look GroupCount.group k (T.filterMap g) = if k ∈ T then g k else none := by
  induction T with
  | nil => simp [look]
  | cons t rest ih =>
    have hT' := List.pairwise_cons.mp hT
    have ih' := ih hT'.2
    simp only [List.filterMap_cons, List.mem_cons]
    by_cases hk : k = t
    · subst hk
      simp only [true_or, if_true]
      cases hgt : g k with
      | none =>
        simp only
        rw [ih']
        have : k ∉ rest := fun hm => absurd (hT'.1 k hm) (List.lt_irrefl k)
        simp [this]
      | some y =>
        simp only [look, hg k y hgt, if_true]
    · cases hgt : g t with
      | none =>
        simp only [hk, false_or]
        exact ih'
      | some y =>
        have hy : y.group ≠ k := by rw [hg t y hgt]; exact fun e => hk e.symm
        simp only [look, hy, if_false, hk, false_or]
        exact ih'

theorem sortedK_filterMap (T : List (List Nat)) (hT : T.Pairwise (· < ·)) (g : List Nat → Option GroupCount)
    (hg : ∀ t y, g t = some y → y.group = t) : SortedK GroupCount.group (T.filterMap g) := by
  induction T with
  | nil => simp [SortedK]
  | cons t rest ih =>
    have hT' := List.pairwise_cons.mp hT
    simp only [List.filterMap_cons]
    cases hgt : g t with
    | none => exact ih hT'.2
    | some y =>
      simp only [SortedK, List.map_cons]
      apply List.pairwise_cons.mpr
      refine ⟨?_, ih hT'.2⟩
      intro k hk
      rcases List.mem_map.mp hk with ⟨z, hz, rfl⟩
      rcases List.mem_filterMap.mp hz with ⟨t', ht', hgz⟩
      rw [hg t y hgt, hg t' z hgz]
      exact hT'.1 t' ht'

/-! ### merging the shard results -/

open PV.C17 (addGC gmerge addGC_laws listNatStrictTotal GLen GAsc mergeGroupCounts_eq GLen_kmergeLim)

theorem sorted_foldl_gmerge (ls : List (List GroupCount)) (acc : List GroupCount)
    (hacc : SortedK GroupCount.group acc) (h : ∀ l ∈ ls, SortedK GroupCount.group l) :
    SortedK GroupCount.group (ls.foldl gmerge acc) := by
  induction ls generalizing acc with
  | nil => exact hacc
  | cons l rest ih =>
    simp only [List.foldl_cons]
    apply ih
    · exact kmerge_sorted listNatStrictTotal addGC_laws.key_comb acc l hacc (h l (by simp))
    · exact fun l' hl' => h l' (List.mem_cons_of_mem _ hl')

theorem look_foldl_gmerge (k : List Nat) (ls : List (List GroupCount)) (acc : List GroupCount)
    (hacc : SortedK GroupCount.group acc) (h : ∀ l ∈ ls, SortedK GroupCount.group l) :
    look GroupCount.group k (ls.foldl gmerge acc) =
      (ls.map (look GroupCount.group k)).foldl (oc addGC) (look GroupCount.group k acc) := by
  induction ls generalizing acc with
  | nil => rfl
  | cons l rest ih =>
    simp only [List.foldl_cons, List.map_cons]
    rw [ih _ (kmerge_sorted listNatStrictTotal addGC_laws.key_comb acc l hacc (h l (by simp)))
      (fun l' hl' => h l' (List.mem_cons_of_mem _ hl'))]
    rw [look_kmerge listNatStrictTotal addGC_laws.key_comb k acc l hacc (h l (by simp))]

theorem groupOf_group (a : GroupByArgs) (t : List Nat) (c : Nat) (y : GroupCount)
    (h : Spec.groupOf a t c = some y) : y.group = t := by
  unfold Spec.groupOf at h
  split at h
  · cases h; rfl
  · cases h

theorem oc_groupOf (a : GroupByArgs) (t : List Nat) (m n : Nat) :
    oc addGC (Spec.groupOf a t m) (Spec.groupOf a t n) = Spec.groupOf a t (m + n) := by
  unfold Spec.groupOf
  cases hs : Spec.startOK a t with
  | false => simp [oc]
  | true =>
    by_cases hm : m > 0
    · by_cases hn : n > 0
      · have : m + n > 0 := by omega
        simp [hm, hn, this, oc, addGC]
      · have hn0 : n = 0 := by omega
        subst hn0
        simp [hm, oc]
    · have hm0 : m = 0 := by omega
      subst hm0
      by_cases hn : n > 0
      · simp [hn, oc]
      · have hn0 : n = 0 := by omega
        subst hn0
        simp [oc]

theorem foldl_oc_groupOf (a : GroupByArgs) (t : List Nat) (cs : List Nat) (s0 : Nat) :
    (cs.map (Spec.groupOf a t)).foldl (oc addGC) (Spec.groupOf a t s0) =
      Spec.groupOf a t (cs.foldl (· + ·) s0) := by
  induction cs generalizing s0 with
  | nil => rfl
  | cons c rest ih =>
    simp only [List.map_cons, List.foldl_cons]
    rw [oc_groupOf, ih]

theorem foldl_oc_none {ι : Type} (l : List ι) :
    (l.map (fun _ => (none : Option GroupCount))).foldl (oc addGC) none = none := by
  induction l with
  | nil => rfl
  | cons x rest ih => simp only [List.map_cons, List.foldl_cons, oc]; exact ih

/-- The totals over all shards are the merge of the shard lists. -/
theorem allGroups_eq_merge (db : DB) (a : GroupByArgs) (shards : List Nat)
    (hd : ∀ d ∈ Spec.groupDoms db a shards, d.Pairwise (· < ·)) :
    (shards.map (Spec.shardGroups db a shards)).foldl gmerge [] = Spec.allGroups db a shards := by
  have hT := tuples_sorted _ hd
  have hsh : ∀ l ∈ shards.map (Spec.shardGroups db a shards), SortedK GroupCount.group l := by
    intro l hl
    rcases List.mem_map.mp hl with ⟨sh, _, rfl⟩
    exact sortedK_filterMap _ hT _ (fun t y h => groupOf_group a t _ y h)
  apply ext listNatStrictTotal
  · exact sorted_foldl_gmerge _ [] (by simp [SortedK]) hsh
  · exact sortedK_filterMap _ hT _ (fun t y h => groupOf_group a t _ y h)
  intro k
  rw [look_foldl_gmerge k _ [] (by simp [SortedK]) hsh]
  unfold Spec.allGroups
  rw [look_filterMap _ hT _ (fun t y h => groupOf_group a t _ y h)]
  simp only [List.map_map, look]
  have hfun : (look GroupCount.group k ∘ Spec.shardGroups db a shards) =
      fun sh => if k ∈ Spec.tuples (Spec.groupDoms db a shards) then
        Spec.groupOf a k (Spec.shardGroupCount db (a.children.map (·.field)) k a.filter sh) else none := by
    funext sh
    simp only [Function.comp, Spec.shardGroups]
    rw [look_filterMap _ hT _ (fun t y h => groupOf_group a t _ y h)]
  rw [hfun]
  by_cases hk : k ∈ Spec.tuples (Spec.groupDoms db a shards)
  · simp only [hk, if_true]
    have h0 : (none : Option GroupCount) = Spec.groupOf a k 0 := by simp [Spec.groupOf]
    rw [h0]
    have := foldl_oc_groupOf a k (shards.map (Spec.shardGroupCount db (a.children.map (·.field)) k a.filter)) 0
    simp only [List.map_map] at this
    rw [← Spec.groupCount] at this
    exact this
  · simp only [hk, if_false]
    exact foldl_oc_none shards

/-- Folding `mergeGroupCounts` with limit `L` over shard lists cut at `L` gives the first `L` groups of
the merge of the full lists. -/
theorem foldl_mergeGroupCounts (n L : Nat) (ls : List (List GroupCount)) (hlen : ∀ l ∈ ls, GLen n l) :
    (ls.map (·.take L)).foldl (fun acc l => mergeGroupCounts acc l L) [] = (ls.foldl gmerge []).take L := by
  -- mergeGroupCounts is the limited keyed merge on lists of groups of equal length
  have hcongr : ∀ (xs : List (List GroupCount)) (acc : List GroupCount), GLen n acc → (∀ l ∈ xs, GLen n l) →
      xs.foldl (fun acc l => mergeGroupCounts acc l L) acc =
        xs.foldl (kmergeLim GroupCount.group addGC L) acc := by
    intro xs
    induction xs with
    | nil => intro acc _ _; rfl
    | cons x rest ih =>
      intro acc hacc hx
      simp only [List.foldl_cons]
      rw [mergeGroupCounts_eq n L acc x hacc (hx x (by simp))]
      exact ih _ (GLen_kmergeLim n L acc x hacc (hx x (by simp))) (fun l hl => hx l (List.mem_cons_of_mem _ hl))
  have hl2 : ∀ l ∈ ls.map (·.take L), GLen n l := by
    intro l hl
    rcases List.mem_map.mp hl with ⟨l', hl', rfl⟩
    exact fun z hz => hlen l' hl' z (List.mem_of_mem_take hz)
  rw [hcongr _ [] (fun z hz => by cases hz) hl2]
  have h1 := foldl_kmergeLim (key := GroupCount.group) (comb := addGC) L ls (fun l => l.take L) id
    (fun i _ => by simp [List.take_take]) [] [] rfl
  have h2 := length_foldl_kmergeLim (key := GroupCount.group) (comb := addGC) L (ls.map (·.take L)) [] (by simp)
  rw [List.take_of_length_le h2] at h1
  rw [h1]
  simp

end PV.C16
