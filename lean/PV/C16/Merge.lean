/-
C16 helper: RowIDs.merge (PV.C17.rowIDsMerge) on ascending duplicate-free lists is the first
`limit` elements of the sorted union, and it only looks at the first `limit` elements of its
arguments.  Core Lean only.
-/
import PV.C16.Lemmas
namespace PV.C16
open List
open PV.C17 (rowIDsMerge rowIDsMergeAux)

/-- `RowIDs.merge` by recursion on the limit (every step emits one element). -/
def mergeLim : Nat → List Nat → List Nat → List Nat
  | 0, _, _ => []
  | l + 1, a :: as, b :: bs =>
      if a < b then a :: mergeLim l as (b :: bs)
      else if a > b then b :: mergeLim l (a :: as) bs
      else b :: mergeLim l as bs
  | l + 1, a :: as, [] => (a :: as).take (l + 1)
  | l + 1, [], bs => bs.take (l + 1)

theorem mergeAux_eq (fuel : Nat) (a b : List Nat) (lim : Nat) (h : fuel ≥ a.length + b.length + 1) :
    rowIDsMergeAux fuel a b lim = mergeLim lim a b := by
  induction fuel generalizing a b lim with
  | zero => omega
  | succ fuel ih =>
    cases lim with
    | zero => cases a <;> cases b <;> simp [rowIDsMergeAux, mergeLim]
    | succ l =>
      cases a with
      | nil => cases b <;> simp [rowIDsMergeAux, mergeLim]
      | cons x xs =>
        cases b with
        | nil => simp [rowIDsMergeAux, mergeLim]
        | cons y ys =>
          simp only [rowIDsMergeAux, mergeLim]
          simp only [List.length_cons] at h
          split
          · rw [ih]; simp only [List.length_cons]; omega
          · split
            · rw [ih]; simp only [List.length_cons]; omega
            · rw [ih]; omega

theorem merge_eq (a b : List Nat) (lim : Nat) : rowIDsMerge a b lim = mergeLim lim a b :=
  mergeAux_eq _ a b lim (Nat.le_refl _)

/-- The merge never looks beyond the first `limit` elements of either argument. -/
theorem mergeLim_take (l : Nat) : ∀ (m n : Nat) (a b : List Nat), m ≥ l → n ≥ l →
    mergeLim l (a.take m) (b.take n) = mergeLim l a b := by
  induction l with
  | zero => intro m n a b _ _; cases a <;> cases b <;> simp [mergeLim]
  | succ l ih =>
    intro m n a b hm hn
    cases m with
    | zero => omega
    | succ m =>
      cases n with
      | zero => omega
      | succ n =>
        cases a with
        | nil =>
          cases b with
          | nil => simp [mergeLim]
          | cons y ys =>
            simp only [List.take_nil, List.take_succ_cons, mergeLim]
            have : ((y :: ys).take (n + 1)).take (l + 1) = (y :: ys).take (l + 1) := by
              rw [List.take_take]; congr 1; omega
            simpa using this
        | cons x xs =>
          cases b with
          | nil =>
            simp only [List.take_nil, List.take_succ_cons, mergeLim]
            have : ((x :: xs).take (m + 1)).take (l + 1) = (x :: xs).take (l + 1) := by
              rw [List.take_take]; congr 1; omega
            simpa using this
          | cons y ys =>
            simp only [List.take_succ_cons, mergeLim]
            split
            · have := ih m (n + 1) xs (y :: ys) (by omega) (by omega)
              simp only [List.take_succ_cons] at this
              rw [this]
            · split
              · have := ih (m + 1) n (x :: xs) ys (by omega) (by omega)
                simp only [List.take_succ_cons] at this
                rw [this]
              · rw [ih m n xs ys (by omega) (by omega)]

/-- Unlimited merge, as the limit of mergeLim. -/
def mergeAll (a b : List Nat) : List Nat := mergeLim (a.length + b.length) a b

theorem mergeLim_length_le (l : Nat) : ∀ (a b : List Nat), (mergeLim l a b).length ≤ a.length + b.length := by
  induction l with
  | zero => intro a b; cases a <;> cases b <;> simp [mergeLim]
  | succ l ih =>
    intro a b
    cases a with
    | nil => cases b <;> simp [mergeLim, List.length_take]; omega
    | cons x xs =>
      cases b with
      | nil => simp [mergeLim, List.length_take]; omega
      | cons y ys =>
        simp only [mergeLim]
        split
        · have := ih xs (y :: ys); simp only [List.length_cons] at *; omega
        · split
          · have := ih (x :: xs) ys; simp only [List.length_cons] at *; omega
          · have := ih xs ys; simp only [List.length_cons] at *; omega

/-- A larger limit only appends. -/
theorem mergeLim_take_of_le (l : Nat) : ∀ (k : Nat) (a b : List Nat), l ≤ k →
    mergeLim l a b = (mergeLim k a b).take l := by
  induction l with
  | zero => intro k a b _; cases a <;> cases b <;> simp [mergeLim]
  | succ l ih =>
    intro k a b hk
    cases k with
    | zero => omega
    | succ k =>
      cases a with
      | nil =>
        cases b with
        | nil => simp [mergeLim]
        | cons y ys =>
          simp only [mergeLim]
          rw [List.take_take]; congr 1; omega
      | cons x xs =>
        cases b with
        | nil =>
          simp only [mergeLim]
          rw [List.take_take]; congr 1; omega
        | cons y ys =>
          simp only [mergeLim]
          split
          · simp only [List.take_succ_cons]; rw [ih k xs (y :: ys) (by omega)]
          · split
            · simp only [List.take_succ_cons]; rw [ih k (x :: xs) ys (by omega)]
            · simp only [List.take_succ_cons]; rw [ih k xs ys (by omega)]

theorem mergeLim_eq_take_all (l : Nat) (a b : List Nat) : mergeLim l a b = (mergeAll a b).take l := by
  unfold mergeAll
  by_cases h : l ≤ a.length + b.length
  · exact mergeLim_take_of_le l _ a b h
  · have h' : a.length + b.length ≤ l := by omega
    rw [mergeLim_take_of_le (a.length + b.length) l a b h']
    have hl := mergeLim_length_le l a b
    rw [List.take_take]
    have : min l (a.length + b.length) = a.length + b.length := by omega
    rw [this]
    rw [List.take_of_length_le hl]

theorem mergeLim_mem (l : Nat) : ∀ (a b : List Nat) (x : Nat), x ∈ mergeLim l a b → x ∈ a ∨ x ∈ b := by
  induction l with
  | zero => intro a b x hx; cases a <;> cases b <;> simp [mergeLim] at hx
  | succ l ih =>
    intro a b x hx
    cases a with
    | nil =>
      cases b with
      | nil => simp [mergeLim] at hx
      | cons y ys =>
        right
        simp only [mergeLim] at hx
        exact List.mem_of_mem_take hx
    | cons a0 as =>
      cases b with
      | nil =>
        left
        simp only [mergeLim] at hx
        exact List.mem_of_mem_take hx
      | cons b0 bs =>
        simp only [mergeLim] at hx
        split at hx
        · rcases List.mem_cons.mp hx with e | h
          · left; rw [e]; simp
          · rcases ih as (b0 :: bs) x h with h' | h'
            · left; exact List.mem_cons_of_mem _ h'
            · right; exact h'
        · split at hx
          · rcases List.mem_cons.mp hx with e | h
            · right; rw [e]; simp
            · rcases ih (a0 :: as) bs x h with h' | h'
              · left; exact h'
              · right; exact List.mem_cons_of_mem _ h'
          · rcases List.mem_cons.mp hx with e | h
            · right; rw [e]; simp
            · rcases ih as bs x h with h' | h'
              · left; exact List.mem_cons_of_mem _ h'
              · right; exact List.mem_cons_of_mem _ h'

theorem mergeLim_sorted (l : Nat) : ∀ (a b : List Nat), a.Pairwise (· < ·) → b.Pairwise (· < ·) →
    (mergeLim l a b).Pairwise (· < ·) := by
  induction l with
  | zero => intro a b _ _; cases a <;> cases b <;> simp [mergeLim]
  | succ l ih =>
    intro a b ha hb
    cases a with
    | nil =>
      cases b with
      | nil => simp [mergeLim]
      | cons y ys => simp only [mergeLim]; exact hb.sublist (List.take_sublist _ _)
    | cons a0 as =>
      cases b with
      | nil => simp only [mergeLim]; exact ha.sublist (List.take_sublist _ _)
      | cons b0 bs =>
        have ha' := List.pairwise_cons.mp ha
        have hb' := List.pairwise_cons.mp hb
        simp only [mergeLim]
        split
        · rename_i hlt
          apply List.pairwise_cons.mpr
          refine ⟨?_, ih as (b0 :: bs) ha'.2 hb⟩
          intro x hx
          rcases mergeLim_mem l as (b0 :: bs) x hx with h | h
          · exact ha'.1 x h
          · rcases List.mem_cons.mp h with e | h'
            · rw [e]; exact hlt
            · exact Nat.lt_trans hlt (hb'.1 x h')
        · split
          · rename_i _ hgt
            apply List.pairwise_cons.mpr
            refine ⟨?_, ih (a0 :: as) bs ha hb'.2⟩
            intro x hx
            rcases mergeLim_mem l (a0 :: as) bs x hx with h | h
            · rcases List.mem_cons.mp h with e | h'
              · rw [e]; exact hgt
              · exact Nat.lt_trans hgt (ha'.1 x h')
            · exact hb'.1 x h
          · rename_i h1 h2
            have heq : a0 = b0 := by omega
            apply List.pairwise_cons.mpr
            refine ⟨?_, ih as bs ha'.2 hb'.2⟩
            intro x hx
            rcases mergeLim_mem l as bs x hx with h | h
            · rw [← heq]; exact ha'.1 x h
            · exact hb'.1 x h

theorem mergeLim_complete (l : Nat) : ∀ (a b : List Nat), l ≥ a.length + b.length →
    ∀ x, x ∈ a ∨ x ∈ b → x ∈ mergeLim l a b := by
  induction l with
  | zero =>
    intro a b hl x hx
    have ha : a = [] := List.eq_nil_of_length_eq_zero (by omega)
    have hb : b = [] := List.eq_nil_of_length_eq_zero (by omega)
    subst ha; subst hb
    rcases hx with h | h <;> cases h
  | succ l ih =>
    intro a b hl x hx
    cases a with
    | nil =>
      cases b with
      | nil => rcases hx with h | h <;> cases h
      | cons y ys =>
        simp only [mergeLim]
        rw [List.take_of_length_le (by simp only [List.length_cons, List.length_nil] at hl ⊢; omega)]
        rcases hx with h | h
        · cases h
        · exact h
    | cons a0 as =>
      cases b with
      | nil =>
        simp only [mergeLim]
        rw [List.take_of_length_le (by simp only [List.length_cons, List.length_nil] at hl ⊢; omega)]
        rcases hx with h | h
        · exact h
        · cases h
      | cons b0 bs =>
        simp only [List.length_cons] at hl
        simp only [mergeLim]
        split
        · rcases hx with h | h
          · rcases List.mem_cons.mp h with e | h'
            · rw [e]; simp
            · exact List.mem_cons_of_mem _ (ih as (b0 :: bs) (by simp only [List.length_cons]; omega) x (Or.inl h'))
          · exact List.mem_cons_of_mem _ (ih as (b0 :: bs) (by simp only [List.length_cons]; omega) x (Or.inr h))
        · split
          · rcases hx with h | h
            · exact List.mem_cons_of_mem _ (ih (a0 :: as) bs (by simp only [List.length_cons]; omega) x (Or.inl h))
            · rcases List.mem_cons.mp h with e | h'
              · rw [e]; simp
              · exact List.mem_cons_of_mem _ (ih (a0 :: as) bs (by simp only [List.length_cons]; omega) x (Or.inr h'))
          · rename_i h1 h2
            have heq : a0 = b0 := by omega
            rcases hx with h | h
            · rcases List.mem_cons.mp h with e | h'
              · rw [e, heq]; simp
              · exact List.mem_cons_of_mem _ (ih as bs (by omega) x (Or.inl h'))
            · rcases List.mem_cons.mp h with e | h'
              · rw [e]; simp
              · exact List.mem_cons_of_mem _ (ih as bs (by omega) x (Or.inr h'))

/-- On ascending duplicate-free lists the merge is the sorted union. -/
theorem mergeAll_eq (a b : List Nat) (ha : a.Pairwise (· < ·)) (hb : b.Pairwise (· < ·)) :
    mergeAll a b = sortDedup (a ++ b) := by
  apply sorted_ext
  · exact mergeLim_sorted _ a b ha hb
  · exact sorted_sortDedup _
  · intro x
    rw [mem_sortDedup, List.mem_append]
    constructor
    · exact mergeLim_mem _ a b x
    · exact mergeLim_complete _ a b (Nat.le_refl _) x

/-- `RowIDs.merge` of ascending duplicate-free lists: the first `limit` of the sorted union. -/
theorem rowIDsMerge_spec (a b : List Nat) (lim : Nat) (ha : a.Pairwise (· < ·)) (hb : b.Pairwise (· < ·)) :
    rowIDsMerge a b lim = (sortDedup (a ++ b)).take lim := by
  rw [merge_eq, mergeLim_eq_take_all, mergeAll_eq a b ha hb]

end PV.C16
