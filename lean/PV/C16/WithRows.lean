/-
C16 helper: fragment.rows with filterWithRows (stateful search position, early `done`) is a walk
that lets exactly the listed rows through.  Core Lean only.
-/
import PV.C16.RowsExec
namespace PV.C16
open List

/-- generic walk with an arbitrary container predicate -/
def walkP (pass : Cont → Bool) : List Cont → Option Nat → List Nat
  | [], _ => []
  | kc :: rest, last =>
    if last = some (rowOfC kc) then walkP pass rest last
    else if pass kc then rowOfC kc :: walkP pass rest (some (rowOfC kc))
    else walkP pass rest last

theorem walkP_eq_walk (col : Option Nat) (cs : List Cont) (last : Option Nat) :
    walkP (passC col) cs last = walk col cs last := by
  induction cs generalizing last with
  | nil => rfl
  | cons kc rest ih =>
    unfold walkP walk
    split
    · exact ih last
    · split
      · rw [ih]
      · exact ih last

theorem walkP_nil (pass : Cont → Bool) (cs : List Cont) (last : Option Nat)
    (h : ∀ kc ∈ cs, pass kc = false ∨ last = some (rowOfC kc)) : walkP pass cs last = [] := by
  induction cs with
  | nil => rfl
  | cons kc rest ih =>
    unfold walkP
    have hr := ih (fun kc' hk => h kc' (List.mem_cons_of_mem _ hk))
    rcases h kc (by simp) with hp | hl
    · by_cases hl : last = some (rowOfC kc)
      · simp only [hl, if_true]; rw [← hl]; exact hr
      · simp only [hl, if_false, hp, Bool.false_eq_true]; exact hr
    · simp only [hl, if_true]; rw [← hl]; exact hr

/-- where filterWithRows' search position ends up when it is asked about row `r` -/
def advance (ids : List Nat) (loc r : Nat) : Nat := loc + (ids.drop loc).findIdx (fun x => decide (x ≥ r))

theorem call_rows (ids : List Nat) (loc row key : Nat) (c : List (Nat × Nat)) :
    (Filter.rows ids loc).call row key c =
      if loc ≥ ids.length then (false, true, Filter.rows ids loc)
      else if advance ids loc row ≥ ids.length then (false, true, Filter.rows ids (advance ids loc row))
      else if ids.getD (advance ids loc row) 0 = row then
        (true, decide (advance ids loc row = ids.length - 1), Filter.rows ids (advance ids loc row))
      else (false, false, Filter.rows ids (advance ids loc row)) := by
  rfl

theorem take_advance (ids : List Nat) (loc r : Nat) :
    ∀ x ∈ ids.take (advance ids loc r), x ∈ ids.take loc ∨ x < r := by
  intro x hx
  unfold advance at hx
  rw [List.take_add] at hx
  rcases List.mem_append.mp hx with h | h
  · left; exact h
  · right
    -- x is before the first element ≥ r of ids.drop loc
    obtain ⟨i, hi, rfl⟩ := List.getElem_of_mem h
    have hi' : i < (ids.drop loc).findIdx (fun x => decide (x ≥ r)) := by
      simp only [List.length_take] at hi; omega
    have := List.not_of_lt_findIdx hi'
    simp only [List.getElem_take] 
    simpa using this

theorem getD_advance (ids : List Nat) (loc r : Nat) (h : advance ids loc r < ids.length) :
    ids.getD (advance ids loc r) 0 ≥ r := by
  unfold advance at h ⊢
  have hlt : (ids.drop loc).findIdx (fun x => decide (x ≥ r)) < (ids.drop loc).length := by
    simp only [List.length_drop]; omega
  have := @List.findIdx_getElem _ (fun x => decide (x ≥ r)) (ids.drop loc) hlt
  simp only [List.getElem_drop, decide_eq_true_eq] at this
  have e : ids.getD (loc + (ids.drop loc).findIdx (fun x => decide (x ≥ r))) 0 =
      ids[loc + (ids.drop loc).findIdx (fun x => decide (x ≥ r))] := by
    simp [List.getD_eq_getElem?_getD, List.getElem?_eq_getElem h]
  rw [e]; exact this

theorem all_lt_of_advance_ge (ids : List Nat) (loc r : Nat) (hinv : ∀ x ∈ ids.take loc, x < r)
    (h : advance ids loc r ≥ ids.length) : ∀ x ∈ ids, x < r := by
  intro x hx
  have : x ∈ ids.take (advance ids loc r) := by rw [List.take_of_length_le h]; exact hx
  rcases take_advance ids loc r x this with h1 | h1
  · exact hinv x h1
  · exact h1


theorem getD_eq_getElem' (ids : List Nat) (i : Nat) (h : i < ids.length) : ids.getD i 0 = ids[i] := by
  simp [List.getD_eq_getElem?_getD, List.getElem?_eq_getElem h]

theorem mem_take_of_lt (ids : List Nat) (i j : Nat) (hj : j < ids.length) (hij : j < i) : ids[j] ∈ ids.take i := by
  apply List.mem_iff_getElem.mpr
  refine ⟨j, by simp only [List.length_take]; omega, ?_⟩
  simp

theorem not_contains_of_advance (ids : List Nat) (hs : ids.Pairwise (· < ·)) (loc r : Nat)
    (hinv : ∀ x ∈ ids.take loc, x < r) (hlt : advance ids loc r < ids.length)
    (hne : ids.getD (advance ids loc r) 0 ≠ r) : ids.contains r = false := by
  have hge := getD_advance ids loc r hlt
  rw [getD_eq_getElem' ids _ hlt] at hge hne
  apply Bool.eq_false_iff.mpr
  intro hc
  have hmem : r ∈ ids := by simpa using hc
  obtain ⟨j, hj, hjr⟩ := List.getElem_of_mem hmem
  have hpw := List.pairwise_iff_getElem.mp hs
  rcases Nat.lt_trichotomy j (advance ids loc r) with h | h | h
  · have := take_advance ids loc r ids[j] (mem_take_of_lt ids _ j hj h)
    rcases this with h1 | h1
    · have := hinv _ h1; omega
    · omega
  · subst h; exact hne hjr
  · have := hpw _ _ hlt hj h
    omega

theorem all_le_of_last (ids : List Nat) (hs : ids.Pairwise (· < ·)) (a r : Nat) (hlt : a < ids.length)
    (hlast : a = ids.length - 1) (hr : ids.getD a 0 = r) : ∀ x ∈ ids, x ≤ r := by
  rw [getD_eq_getElem' ids _ hlt] at hr
  intro x hx
  obtain ⟨j, hj, rfl⟩ := List.getElem_of_mem hx
  have hpw := List.pairwise_iff_getElem.mp hs
  rcases Nat.lt_or_ge j a with h | h
  · have := hpw _ _ hj hlt h; omega
  · have : j = a := by omega
    subst this; omega

theorem callAll_single (f : Filter) (row key : Nat) (c : List (Nat × Nat)) :
    callAll [f] row key c = ((f.call row key c).1, (f.call row key c).2.1, [(f.call row key c).2.2]) := by
  simp only [callAll]
  cases h : (f.call row key c).1 <;> simp [h]

/-- fragment.rows with filterWithRows(ids): the walk that lets exactly the rows in `ids` through. -/
theorem rowsLoop_rows (ids : List Nat) (hs : ids.Pairwise (· < ·)) (cs : List Cont)
    (hcs : (cs.map rowOfC).Pairwise (· ≤ ·)) (loc : Nat) (last : Option Nat)
    (hinv : ∀ kc ∈ cs, ∀ x ∈ ids.take loc, x < rowOfC kc) :
    rowsLoop cs [Filter.rows ids loc] last = walkP (fun kc => ids.contains (rowOfC kc)) cs last := by
  induction cs generalizing loc last with
  | nil => rfl
  | cons kc rest ih =>
    obtain ⟨k, c⟩ := kc
    have hcs' : (rest.map rowOfC).Pairwise (· ≤ ·) := by
      simp only [List.map_cons] at hcs; exact (List.pairwise_cons.mp hcs).2
    have hhead : ∀ kc' ∈ rest, rowOfC (k, c) ≤ rowOfC kc' := by
      intro kc' hk
      simp only [List.map_cons] at hcs
      exact (List.pairwise_cons.mp hcs).1 _ (List.mem_map.mpr ⟨kc', hk, rfl⟩)
    have hinvh : ∀ x ∈ ids.take loc, x < rowOfC (k, c) := hinv (k, c) (by simp)
    have hinvr : ∀ kc' ∈ rest, ∀ x ∈ ids.take loc, x < rowOfC kc' :=
      fun kc' hk => hinv kc' (List.mem_cons_of_mem _ hk)
    -- after the call the search position has moved on; the invariant still holds for the rest
    have hinv' : ∀ kc' ∈ rest, ∀ x ∈ ids.take (advance ids loc (rowOfC (k, c))), x < rowOfC kc' := by
      intro kc' hk x hx
      rcases take_advance ids loc _ x hx with h | h
      · exact hinvr kc' hk x h
      · exact Nat.lt_of_lt_of_le h (hhead kc' hk)
    unfold rowsLoop walkP
    simp only [rowOfC] at *
    by_cases hlast : last = some (k / contsPerRow)
    · simp only [hlast, if_true]
      rw [← hlast]
      exact ih hcs' loc last hinvr
    · simp only [hlast, if_false]
      rw [callAll_single, call_rows]
      by_cases h1 : loc ≥ ids.length
      · -- every id is below every remaining row
        simp only [h1, if_true, Bool.false_eq_true, if_false]
        have hall : ∀ x ∈ ids, x < k / contsPerRow := by
          intro x hx; apply hinvh; rw [List.take_of_length_le h1]; exact hx
        have hc0 : ids.contains (k / contsPerRow) = false := by
          apply Bool.eq_false_iff.mpr; intro hc
          have := hall _ (by simpa using hc); omega
        simp only [hc0, Bool.false_eq_true, if_false]
        symm
        apply walkP_nil
        intro kc' hk
        left
        apply Bool.eq_false_iff.mpr; intro hc
        have h2 := hall _ (by simpa using hc)
        have h3 := hhead kc' hk
        omega
      · simp only [h1, if_false]
        by_cases h2 : advance ids loc (k / contsPerRow) ≥ ids.length
        · simp only [h2, if_true, Bool.false_eq_true, if_false]
          have hall := all_lt_of_advance_ge ids loc _ hinvh h2
          have hc0 : ids.contains (k / contsPerRow) = false := by
            apply Bool.eq_false_iff.mpr; intro hc
            have := hall _ (by simpa using hc); omega
          simp only [hc0, Bool.false_eq_true, if_false]
          symm
          apply walkP_nil
          intro kc' hk
          left
          apply Bool.eq_false_iff.mpr; intro hc
          have h3 := hall _ (by simpa using hc)
          have h4 := hhead kc' hk
          omega
        · simp only [h2, if_false]
          have hlt : advance ids loc (k / contsPerRow) < ids.length := Nat.lt_of_not_ge h2
          by_cases h3 : ids.getD (advance ids loc (k / contsPerRow)) 0 = k / contsPerRow
          · simp only [h3, if_true]
            have hc1 : ids.contains (k / contsPerRow) = true := by
              have : ids[advance ids loc (k / contsPerRow)] = k / contsPerRow := by
                rw [← getD_eq_getElem' ids _ hlt]; exact h3
              have hm : k / contsPerRow ∈ ids := by rw [← this]; exact List.getElem_mem _
              simpa using hm
            simp only [hc1, if_true]
            by_cases h4 : advance ids loc (k / contsPerRow) = ids.length - 1
            · simp only [h4, decide_true, if_true]
              have hle := all_le_of_last ids hs _ _ hlt h4 h3
              congr 1
              symm
              apply walkP_nil
              intro kc' hk
              by_cases he : rowOfC kc' = k / contsPerRow
              · right; rw [he]
              · left
                apply Bool.eq_false_iff.mpr; intro hc
                have h5 := hle _ (by simpa using hc)
                have h6 := hhead kc' hk
                simp only [rowOfC] at he; omega
            · simp only [h4, decide_false, Bool.false_eq_true, if_false]
              congr 1
              exact ih hcs' _ _ hinv'
          · simp only [h3, if_false, Bool.false_eq_true]
            have hc0 := not_contains_of_advance ids hs loc _ hinvh hlt h3
            simp only [hc0, Bool.false_eq_true, if_false]
            exact ih hcs' _ _ hinv'

theorem walkP_sound (pass : Cont → Bool) (cs : List Cont) (last : Option Nat)
    (hs : (cs.map rowOfC).Pairwise (· ≤ ·)) (hl : ∀ kc ∈ cs, lastLE last (rowOfC kc)) :
    (walkP pass cs last).Pairwise (· < ·) ∧
    ∀ x ∈ walkP pass cs last, lastLT last x ∧ ∃ kc ∈ cs, rowOfC kc = x ∧ pass kc = true := by
  induction cs generalizing last with
  | nil => exact ⟨List.Pairwise.nil, fun x hx => absurd hx (by simp [walkP])⟩
  | cons kc rest ih =>
    have hs' : (rest.map rowOfC).Pairwise (· ≤ ·) := by
      simp only [List.map_cons] at hs; exact (List.pairwise_cons.mp hs).2
    have hhead : ∀ kc' ∈ rest, rowOfC kc ≤ rowOfC kc' := by
      intro kc' hk
      simp only [List.map_cons] at hs
      exact (List.pairwise_cons.mp hs).1 _ (List.mem_map.mpr ⟨kc', hk, rfl⟩)
    have hlrest : ∀ kc' ∈ rest, lastLE last (rowOfC kc') := fun kc' hk => hl kc' (List.mem_cons_of_mem _ hk)
    unfold walkP
    by_cases hlast : last = some (rowOfC kc)
    · simp only [hlast, if_true]
      rw [← hlast]
      obtain ⟨h1, h2⟩ := ih last hs' hlrest
      refine ⟨h1, fun x hx => ?_⟩
      obtain ⟨h3, kc', hk', h4⟩ := h2 x hx
      exact ⟨h3, kc', List.mem_cons_of_mem _ hk', h4⟩
    · simp only [hlast, if_false]
      by_cases hp : pass kc = true
      · simp only [hp, if_true]
        obtain ⟨h1, h2⟩ := ih (some (rowOfC kc)) hs' (fun kc' hk => hhead kc' hk)
        have hstrict : lastLT last (rowOfC kc) := by
          have := hl kc (by simp)
          cases last with
          | none => trivial
          | some l =>
            simp only [lastLE] at this
            simp only [lastLT]
            have : l ≠ rowOfC kc := fun e => hlast (by rw [e])
            omega
        refine ⟨List.pairwise_cons.mpr ⟨fun x hx => (h2 x hx).1, h1⟩, fun x hx => ?_⟩
        rcases List.mem_cons.mp hx with e | hx'
        · rw [e]; exact ⟨hstrict, kc, by simp, rfl, hp⟩
        · obtain ⟨h3, kc', hk', h4⟩ := h2 x hx'
          refine ⟨?_, kc', List.mem_cons_of_mem _ hk', h4⟩
          simp only [lastLT] at h3
          cases last with
          | none => trivial
          | some l =>
            simp only [lastLT] at hstrict ⊢
            omega
      · simp only [hp, if_false]
        obtain ⟨h1, h2⟩ := ih last hs' hlrest
        refine ⟨h1, fun x hx => ?_⟩
        obtain ⟨h3, kc', hk', h4⟩ := h2 x hx
        exact ⟨h3, kc', List.mem_cons_of_mem _ hk', h4⟩

theorem walkP_complete (pass : Cont → Bool) (cs : List Cont) (last : Option Nat) :
    ∀ kc ∈ cs, pass kc = true → rowOfC kc ∈ walkP pass cs last ∨ last = some (rowOfC kc) := by
  induction cs generalizing last with
  | nil => intro kc hk; cases hk
  | cons kc0 rest ih =>
    intro kc hk hp
    unfold walkP
    by_cases hlast : last = some (rowOfC kc0)
    · simp only [hlast, if_true]
      rw [← hlast]
      rcases List.mem_cons.mp hk with e | hk'
      · right; rw [e]; exact hlast
      · exact ih last kc hk' hp
    · simp only [hlast, if_false]
      by_cases hp0 : pass kc0 = true
      · simp only [hp0, if_true]
        rcases List.mem_cons.mp hk with e | hk'
        · left; rw [e]; simp
        · rcases ih (some (rowOfC kc0)) kc hk' hp with h | h
          · left; exact List.mem_cons_of_mem _ h
          · left
            have : rowOfC kc0 = rowOfC kc := Option.some.inj h
            rw [this]; simp
      · simp only [hp0, if_false]
        rcases List.mem_cons.mp hk with e | hk'
        · rw [e] at hp; exact absurd hp hp0
        · exact ih last kc hk' hp

theorem mem_walkP_none (pass : Cont → Bool) (cs : List Cont) (hs : (cs.map rowOfC).Pairwise (· ≤ ·)) (x : Nat) :
    x ∈ walkP pass cs none ↔ ∃ kc ∈ cs, rowOfC kc = x ∧ pass kc = true := by
  constructor
  · intro hx
    exact ((walkP_sound pass cs none hs (fun _ _ => trivial)).2 x hx).2
  · rintro ⟨kc, hk, rfl, hp⟩
    rcases walkP_complete pass cs none kc hk hp with h | h
    · exact h
    · cases h

end PV.C16
