/-
C16 helper lemmas: sorted duplicate-free lists, the container walk of fragment.rows.
Core Lean only.
-/
import PV.C16.Model
import PV.C16.Spec
namespace PV.C16
open List

/-! ### sortDedup -/

theorem mem_insertAsc (x y : Nat) (l : List Nat) : y ∈ insertAsc x l ↔ y = x ∨ y ∈ l := by
  induction l with
  | nil => simp [insertAsc]
  | cons z zs ih =>
    unfold insertAsc
    split
    · simp
    · split
      · rename_i _ h; subst h; simp
      · simp only [List.mem_cons, ih]
        constructor
        · rintro (h | h | h)
          · right; left; exact h
          · left; exact h
          · right; right; exact h
        · rintro (h | h | h)
          · right; left; exact h
          · left; exact h
          · right; right; exact h

theorem mem_sortDedup (y : Nat) (l : List Nat) : y ∈ sortDedup l ↔ y ∈ l := by
  induction l with
  | nil => simp [sortDedup]
  | cons z zs ih =>
    have : sortDedup (z :: zs) = insertAsc z (sortDedup zs) := rfl
    rw [this, mem_insertAsc, ih]; simp

theorem sorted_insertAsc (x : Nat) (l : List Nat) (h : l.Pairwise (· < ·)) :
    (insertAsc x l).Pairwise (· < ·) := by
  induction l with
  | nil => simp [insertAsc]
  | cons z zs ih =>
    have hz : ∀ b ∈ zs, z < b := (List.pairwise_cons.mp h).1
    have hzs := (List.pairwise_cons.mp h).2
    unfold insertAsc
    split
    · rename_i hlt
      apply List.pairwise_cons.mpr
      refine ⟨?_, h⟩
      intro b hb
      rcases List.mem_cons.mp hb with e | hb'
      · rw [e]; exact hlt
      · exact Nat.lt_trans hlt (hz b hb')
    · split
      · exact h
      · rename_i h1 h2
        apply List.pairwise_cons.mpr
        refine ⟨?_, ih hzs⟩
        intro b hb
        rcases (mem_insertAsc x b zs).mp hb with e | hb'
        · rw [e]; omega
        · exact hz b hb'

theorem sorted_sortDedup (l : List Nat) : (sortDedup l).Pairwise (· < ·) := by
  induction l with
  | nil => simp [sortDedup]
  | cons z zs ih => exact sorted_insertAsc z _ ih

/-- Two strictly ascending lists with the same members are equal. -/
theorem sorted_ext : ∀ (l₁ l₂ : List Nat), l₁.Pairwise (· < ·) → l₂.Pairwise (· < ·) →
    (∀ x, x ∈ l₁ ↔ x ∈ l₂) → l₁ = l₂
  | [], [], _, _, _ => rfl
  | [], b :: _, _, _, h => absurd ((h b).mpr (by simp)) (by simp)
  | a :: _, [], _, _, h => absurd ((h a).mp (by simp)) (by simp)
  | a :: as, b :: bs, h1, h2, h => by
    have ha := List.pairwise_cons.mp h1
    have hb := List.pairwise_cons.mp h2
    have hab : a = b := by
      have h3 : a ∈ b :: bs := (h a).mp (by simp)
      have h4 : b ∈ a :: as := (h b).mpr (by simp)
      rcases List.mem_cons.mp h3 with e | h3'
      · exact e
      · rcases List.mem_cons.mp h4 with e | h4'
        · exact e.symm
        · have := hb.1 a h3'
          have := ha.1 b h4'
          omega
    subst hab
    congr 1
    apply sorted_ext as bs ha.2 hb.2
    intro x
    constructor
    · intro hx
      have : x ∈ a :: bs := (h x).mp (List.mem_cons_of_mem _ hx)
      rcases List.mem_cons.mp this with e | h'
      · have := ha.1 x hx; omega
      · exact h'
    · intro hx
      have : x ∈ a :: as := (h x).mpr (List.mem_cons_of_mem _ hx)
      rcases List.mem_cons.mp this with e | h'
      · have := hb.1 x hx; omega
      · exact h'

end PV.C16
