/-
C16 property theorems.  Core Lean only.

Property (properties.jsonl C16): Rows returns the distinct row ids, ascending, that have at least
one bit (in the given column and time range), honouring previous and limit; GroupBy returns every
row combination with a non-zero count, ascending, exact counts, and pages via limit, offset or
previous concatenate to the unpaged result; MinRow and MaxRow return the smallest and largest row
that has at least one bit (within the filter).
-/
import PV.C16.Lemmas3
import PV.C16.Paging
import PV.C16.RowsExec
import PV.C16.WithRows
import PV.C16.GroupBy
import PV.C16.Iter1
import PV.C16.Iter2
namespace PV.C16
open List

/-! ### Rows on one fragment: the filter chain walk -/

theorem mem_spec_fragRows (s : Store) (start : Nat) (col : Option Nat) (x : Nat) :
    x ∈ Spec.fragRows s start col none ↔
      (∃ p ∈ s, p.1 = x) ∧ x ≥ start ∧ (∀ c, col = some c → (x, c) ∈ s) := by
  simp only [Spec.fragRows, List.mem_filter, Spec.storeRows, mem_sortDedup, List.mem_map,
    Bool.and_eq_true, decide_eq_true_eq]
  constructor
  · rintro ⟨hp, hst, hc⟩
    refine ⟨hp, hst, ?_⟩
    intro c hcol
    subst hcol
    simpa [Store.has] using hc
  · rintro ⟨hp, hst, hc⟩
    refine ⟨hp, hst, ?_⟩
    cases col with
    | none => rfl
    | some c => simpa [Store.has] using hc c rfl

/-- `fragment.rows(start, [filterColumn(col)], [filterWithLimit(limit)])` — the chain built by
executeRowsShard — returns exactly the rows ≥ start that have a bit (at the column, if given),
ascending and duplicate-free, cut after `limit` rows.  Full strength: any store, any start, any
column, any limit; the stateful limit filter and the container-wise evaluation included. -/
theorem C16_rows (s : Store) (hwf : s.WF) (start : Nat) (col limit : Option Nat)
    (hcol : ∀ c, col = some c → c < shardWidth) :
    fragRows s start (colFilter col ++ limFilter limit) = Spec.fragRows s start col limit := by
  let cs := (conts s).filter (fun kc => kc.1 ≥ start * contsPerRow)
  have hsorted := conts_rows_sorted s start
  -- the walk without the limit is the specification without the limit
  have hwalk : walk col cs none = Spec.fragRows s start col none := by
    apply sorted_ext
    · exact (walk_sound col cs none hsorted (fun _ _ => trivial)).1
    · simp only [Spec.fragRows]
      exact (sorted_sortDedup _).filter _
    · intro x
      rw [mem_walk_none col cs hsorted x, mem_spec_fragRows]
      constructor
      · rintro ⟨kc, hkc, hrow, hpass⟩
        have hmem := List.mem_filter.mp hkc
        obtain ⟨⟨p, hp, hkey⟩, hbits⟩ := (mem_conts s kc).mp hmem.1
        have hge : kc.1 ≥ start * contsPerRow := by simpa using hmem.2
        have hpx : p.1 = x := by
          rw [← hrow, rowOfC, ← hkey]; exact (keyOf_div p (hwf p hp)).symm
        refine ⟨⟨p, hp, hpx⟩, ?_, ?_⟩
        · rw [← hrow, rowOfC]
          exact (Nat.le_div_iff_mul_le (by decide)).mpr hge
        · intro c hc
          subst hc
          simp only [passC, Bool.and_eq_true, decide_eq_true_eq] at hpass
          have h1 : (rowOfC kc, c) ∈ kc.2 := by simpa using hpass.2
          rw [hbits] at h1
          have h2 := (List.mem_filter.mp h1).1
          rw [hrow] at h2
          exact h2
      · rintro ⟨⟨p, hp, hpx⟩, hstart, hc⟩
        cases col with
        | none =>
          refine ⟨(keyOf p, s.filter (fun q => keyOf q == keyOf p)), ?_, ?_, rfl⟩
          · apply List.mem_filter.mpr
            refine ⟨(mem_conts s _).mpr ⟨⟨p, hp, rfl⟩, rfl⟩, ?_⟩
            have h1 : keyOf p / contsPerRow = p.1 := keyOf_div p (hwf p hp)
            have h2 : start * contsPerRow ≤ keyOf p := by
              apply (Nat.le_div_iff_mul_le (by decide)).mp
              rw [h1, hpx]; exact hstart
            simpa using h2
          · simp only [rowOfC]; rw [keyOf_div p (hwf p hp)]; exact hpx
        | some c =>
          have hcb : c < shardWidth := hcol c rfl
          have hxc : (x, c) ∈ s := hc c rfl
          have hdiv : keyOf (x, c) / contsPerRow = x := keyOf_div (x, c) hcb
          refine ⟨(keyOf (x, c), s.filter (fun q => keyOf q == keyOf (x, c))), ?_, ?_, ?_⟩
          · apply List.mem_filter.mpr
            refine ⟨(mem_conts s _).mpr ⟨⟨(x, c), hxc, rfl⟩, rfl⟩, ?_⟩
            have h2 : start * contsPerRow ≤ keyOf (x, c) := by
              apply (Nat.le_div_iff_mul_le (by decide)).mp
              rw [hdiv]; exact hstart
            simpa using h2
          · simp only [rowOfC]; exact hdiv
          · simp only [passC, rowOfC, hdiv, Bool.and_eq_true, decide_eq_true_eq]
            refine ⟨rfl, ?_⟩
            have h3 : (x, c) ∈ s.filter (fun q => keyOf q == keyOf (x, c)) :=
              List.mem_filter.mpr ⟨hxc, by simp⟩
            simpa using h3
  cases limit with
  | none =>
    simp only [limFilter, List.append_nil]
    show rowsLoop cs (colFilter col) none = _
    rw [rowsLoop_col, hwalk]
  | some l =>
    simp only [limFilter]
    show rowsLoop cs (colFilter col ++ [Filter.limit l]) none = _
    rw [rowsLoop_col_lim, hwalk]
    rfl

/-- `fragment.rows(0, filterWithRows(ids))` (the chain GroupBy builds for a child with limit or
column): exactly the rows of the fragment that are in `ids`, ascending — the stateful search
position and the early `done` included. -/
theorem C16_rows_withRows (s : Store) (hwf : s.WF) (ids : List Nat) (hs : ids.Pairwise (· < ·)) :
    fragRows s 0 [Filter.rows ids 0] = (Spec.storeRows s).filter ids.contains := by
  have hsorted := conts_rows_sorted s 0
  have hrl := rowsLoop_rows ids hs ((conts s).filter (fun kc => kc.1 ≥ 0 * contsPerRow)) hsorted 0 none
    (fun kc _ x hx => by simp at hx)
  unfold fragRows
  rw [hrl]
  apply sorted_ext
  · exact (walkP_sound _ _ none hsorted (fun _ _ => trivial)).1
  · exact (sorted_sortDedup _).filter _
  · intro x
    rw [mem_walkP_none _ _ hsorted x]
    simp only [List.mem_filter, Spec.storeRows, mem_sortDedup, List.mem_map]
    constructor
    · rintro ⟨kc, hkc, hrow, hpass⟩
      have hmem := hkc.1
      obtain ⟨⟨p, hp, hkey⟩, _⟩ := (mem_conts s kc).mp hmem
      have hpx : p.1 = x := by
        rw [← hrow, rowOfC, ← hkey]; exact (keyOf_div p (hwf p hp)).symm
      refine ⟨⟨p, hp, hpx⟩, ?_⟩
      rw [← hrow]; exact hpass
    · rintro ⟨⟨p, hp, hpx⟩, hc⟩
      refine ⟨(keyOf p, s.filter (fun q => keyOf q == keyOf p)), ?_, ?_, ?_⟩
      · exact ⟨(mem_conts s _).mpr ⟨⟨p, hp, rfl⟩, rfl⟩, by simp⟩
      · simp only [rowOfC]; rw [keyOf_div p (hwf p hp)]; exact hpx
      · simp only [rowOfC]; rw [keyOf_div p (hwf p hp), hpx]; exact hc

/-! ### Rows through the executor: views of a time range, shards, previous, limit -/

/-- The stores executeRowsShard visits for one shard. -/
def viewStores (db : DB) (field sh : Nat) (views : List (Option Nat)) : List Store :=
  views.filterMap (fun v => db.frag ⟨field, v, sh⟩)

theorem rowsShardLoop_spec (db : DB) (a : RowsArgs) (sh start : Nat) (c : Option Nat)
    (hc : ∀ x, c = some x → x < shardWidth)
    (hwf : ∀ v s, db.frag ⟨a.field, v, sh⟩ = some s → s.WF) (views : List (Option Nat)) (X : List Nat) :
    rowsShardLoop db a sh start (colFilter c) (a.limit.getD noLimit) views ((sortDedup X).take (a.limit.getD noLimit)) =
      (sortDedup (X ++ (viewStores db a.field sh views).flatMap (fun s => Spec.fragRows s start c none))).take
        (a.limit.getD noLimit) := by
  induction views generalizing X with
  | nil => simp [rowsShardLoop, viewStores]
  | cons v vs ih =>
    unfold rowsShardLoop
    cases hf : db.frag ⟨a.field, v, sh⟩ with
    | none =>
      simp only
      have : viewStores db a.field sh (v :: vs) = viewStores db a.field sh vs := by
        simp [viewStores, hf]
      rw [this]; exact ih X
    | some s =>
      simp only
      have hvs : viewStores db a.field sh (v :: vs) = s :: viewStores db a.field sh vs := by
        simp [viewStores, hf]
      rw [hvs, List.flatMap_cons, ← List.append_assoc]
      have hs := hwf v s hf
      have hsorted := spec_fragRows_sorted s start c
      cases hl : a.limit with
      | none =>
        simp only [hl, Option.getD_none] at ih ⊢
        have hfr : fragRows s start (colFilter c) = Spec.fragRows s start c none := by
          have := C16_rows s hs start c none hc
          simpa [limFilter] using this
        rw [hfr, merge_step_all X _ hsorted]
        exact ih _
      | some l =>
        simp only [hl, Option.getD_some] at ih ⊢
        have hfr : fragRows s start (colFilter c ++ [Filter.limit l]) = (Spec.fragRows s start c none).take l := by
          have := C16_rows s hs start c (some l) hc
          simpa [limFilter, Spec.fragRows] using this
        rw [hfr, merge_step X _ hsorted l l (Nat.le_refl _)]
        exact ih _

/-- What one shard contributes to Rows (before `limit`). -/
def shardRows (db : DB) (a : RowsArgs) (sh : Nat) : List Nat :=
  let start := match a.previous with
    | some p => p + 1
    | none => 0
  match a.column with
  | some col =>
    if col / shardWidth ≠ sh then []
    else (viewStores db a.field sh (rowsViews db a)).flatMap (fun s => Spec.fragRows s start (some (col % shardWidth)) none)
  | none => (viewStores db a.field sh (rowsViews db a)).flatMap (fun s => Spec.fragRows s start none none)

theorem rowsShard_spec (db : DB) (hwf : db.WF) (a : RowsArgs) (sh : Nat) :
    rowsShard db a sh = (sortDedup (shardRows db a sh)).take (a.limit.getD noLimit) := by
  have hw : ∀ v s, db.frag ⟨a.field, v, sh⟩ = some s → s.WF := by
    intro v s h
    exact hwf.2 _ ((db.frag_iff hwf _ s).mp h)
  unfold rowsShard shardRows
  simp only
  cases hcol : a.column with
  | none =>
    simp only
    cases hprev : a.previous with
    | none =>
      simp only
      have := rowsShardLoop_spec db a sh 0 none (fun x h => by cases h) hw (rowsViews db a) []
      simpa [colFilter, sortDedup] using this
    | some p =>
      simp only
      have := rowsShardLoop_spec db a sh (p + 1) none (fun x h => by cases h) hw (rowsViews db a) []
      simpa [colFilter, sortDedup] using this
  | some col =>
    simp only
    have hlt : col % shardWidth < shardWidth := Nat.mod_lt _ (by decide)
    split
    · simp [sortDedup]
    · cases hprev : a.previous with
      | none =>
        simp only
        have := rowsShardLoop_spec db a sh 0 (some (col % shardWidth)) (fun x h => by cases h; exact hlt) hw (rowsViews db a) []
        simpa [colFilter, sortDedup] using this
      | some p =>
        simp only
        have := rowsShardLoop_spec db a sh (p + 1) (some (col % shardWidth)) (fun x h => by cases h; exact hlt) hw (rowsViews db a) []
        simpa [colFilter, sortDedup] using this

theorem rows_fold_spec (db : DB) (hwf : db.WF) (a : RowsArgs) (shs : List Nat) (X : List Nat) :
    shs.foldl (fun acc sh => PV.C17.rowIDsMerge acc (rowsShard db a sh) (a.limit.getD noLimit))
        ((sortDedup X).take (a.limit.getD noLimit)) =
      (sortDedup (X ++ shs.flatMap (shardRows db a))).take (a.limit.getD noLimit) := by
  induction shs generalizing X with
  | nil => simp
  | cons sh rest ih =>
    simp only [List.foldl_cons, List.flatMap_cons]
    rw [rowsShard_spec db hwf a sh, merge_step X _ (sorted_sortDedup _) _ _ (Nat.le_refl _), sortDedup_idem_append_right]
    rw [← List.append_assoc]
    exact ih _

/-- Is a view one that Rows() ranges over? (standard view without a time range, the day views of the
range otherwise) -/
def viewOK (db : DB) (field : Nat) (fromDay toDay : Option Nat) (v : Option Nat) : Bool :=
  if (db.timeFields.contains field && (fromDay.isSome || toDay.isSome)) = true then
    (match v with | some d => Spec.inRange fromDay toDay d | none => false)
  else v.isNone

theorem view_equiv (db : DB) (a : RowsArgs) (v : Option Nat) (sh : Nat) (s : Store)
    (hmem : (⟨a.field, v, sh⟩, s) ∈ db.frags) :
    v ∈ rowsViews db a ↔ viewOK db a.field a.fromDay a.toDay v = true := by
  unfold rowsViews viewOK
  by_cases ht : (db.timeFields.contains a.field && (a.fromDay.isSome || a.toDay.isSome)) = true
  · have ht' : db.timeFields.contains a.field = true ∧ (a.fromDay.isSome = true ∨ a.toDay.isSome = true) := by
      simpa using ht
    rw [if_pos ht, if_pos ht']
    cases v with
    | none =>
      simp only [Bool.false_eq_true, iff_false]
      intro h
      split at h
      · simp at h
      · simp at h
    | some d =>
      have hd := mem_days db a.field d sh s hmem
      cases hmn : listMin? (db.days a.field) with
      | none => rw [listMin?_none _ hmn] at hd; cases hd
      | some mn =>
        cases hmx : listMax? (db.days a.field) with
        | none => rw [listMax?_none _ hmx] at hd; cases hd
        | some mx =>
          have h1 := listMin?_le _ mn hmn d hd
          have h2 := listMax?_ge _ mx hmx d hd
          simp only [List.mem_map, List.mem_filter, List.mem_range, decide_eq_true_eq, Option.some.injEq,
            exists_eq_right, Spec.inRange, Bool.and_eq_true]
          constructor
          · rintro ⟨hlt, hge⟩
            constructor
            · cases hf : a.fromDay with
              | none => rfl
              | some f => simp only [hf] at hge; simp only [decide_eq_true_eq]; split at hge <;> omega
            · cases htd : a.toDay with
              | none => rfl
              | some t => simp only [htd] at hlt; simp only [decide_eq_true_eq]; split at hlt <;> omega
          · rintro ⟨hf, htd⟩
            constructor
            · cases htd' : a.toDay with
              | none => simp only; omega
              | some t => simp only [htd', decide_eq_true_eq] at htd ⊢; split <;> omega
            · cases hf' : a.fromDay with
              | none => simp only; omega
              | some f => simp only [hf', decide_eq_true_eq] at hf ⊢; split <;> omega
  · have ht2 : ¬ (db.timeFields.contains a.field = true ∧ (a.fromDay.isSome = true ∨ a.toDay.isSome = true)) := by
      simpa using ht
    rw [if_neg ht, if_neg ht2]
    cases v <;> simp

theorem mem_viewStores (db : DB) (hwf : db.WF) (field sh : Nat) (views : List (Option Nat)) (s : Store) :
    s ∈ viewStores db field sh views ↔ ∃ v ∈ views, (⟨field, v, sh⟩, s) ∈ db.frags := by
  simp only [viewStores, List.mem_filterMap]
  constructor
  · rintro ⟨v, hv, hf⟩; exact ⟨v, hv, (db.frag_iff hwf _ s).mp hf⟩
  · rintro ⟨v, hv, hf⟩; exact ⟨v, hv, (db.frag_iff hwf _ s).mpr hf⟩

theorem mem_allRows (db : DB) (field : Nat) (column fromDay toDay : Option Nat) (shards : List Nat) (x : Nat) :
    x ∈ Spec.allRows db field column fromDay toDay shards ↔
      ∃ p ∈ db.frags, p.1.field = field ∧
        (match column with | none => p.1.shard ∈ shards | some c => p.1.shard = c / shardWidth) ∧
        viewOK db field fromDay toDay p.1.view = true ∧
        ∃ b ∈ p.2, (match column with | none => True | some c => b.2 = c % shardWidth) ∧ b.1 = x := by
  have hview : ∀ v : Option Nat,
      (if (db.timeFields.contains field && (fromDay.isSome || toDay.isSome)) = true then
        (match v with | some d => Spec.inRange fromDay toDay d | none => false) else v.isNone) =
      viewOK db field fromDay toDay v := by
    intro v; cases v <;> rfl
  simp only [Spec.allRows, mem_sortDedup, List.mem_flatMap, List.mem_filter, List.mem_map, Bool.and_eq_true,
    beq_iff_eq]
  constructor
  · rintro ⟨p, ⟨hp, ⟨hf, hsh⟩, hv⟩, b, ⟨hb, hc⟩, hx⟩
    refine ⟨p, hp, hf, ?_, ?_, b, hb, ?_, hx⟩
    · cases column with
      | none => simpa using hsh
      | some c => simpa using hsh
    · rw [← hview]; cases hpv : p.1.view <;> simp only [hpv] at hv ⊢ <;> simpa using hv
    · cases column with
      | none => trivial
      | some c => simpa using hc
  · rintro ⟨p, hp, hf, hsh, hv, b, hb, hc, hx⟩
    refine ⟨p, ⟨hp, ⟨hf, ?_⟩, ?_⟩, b, ⟨hb, ?_⟩, hx⟩
    · cases column with
      | none => simpa using hsh
      | some c => simpa using hsh
    · rw [← hview] at hv; cases hpv : p.1.view <;> simp only [hpv] at hv ⊢ <;> simpa using hv
    · cases column with
      | none => rfl
      | some c => simpa using hc

/-- Rows() through the executor — every view of the time range, every shard, `previous`, `column`,
`limit`, the per-view limit filters and all the `RowIDs.merge` calls — returns the first
`limit` (the Go code uses MaxInt when no limit is given) of the rows after `previous` that have a
bit in the column / time range, ascending and duplicate-free. -/
theorem C16_rows_exec (db : DB) (hwf : db.WF) (a : RowsArgs) (shards : List Nat) :
    rows db a shards =
      (Spec.rows db { a with limit := none } shards).take (a.limit.getD noLimit) := by
  have hfold : ∀ shs : List Nat,
      shs.foldl (fun acc sh => PV.C17.rowIDsMerge acc (rowsShard db a sh) (a.limit.getD noLimit)) [] =
        (sortDedup (shs.flatMap (shardRows db a))).take (a.limit.getD noLimit) := by
    intro shs
    have := rows_fold_spec db hwf a shs []
    simpa [sortDedup] using this
  unfold rows
  simp only
  rw [hfold]
  congr 1
  -- both sides are ascending and duplicate-free: compare members
  apply sorted_ext _ _ (sorted_sortDedup _)
  · simp only [Spec.rows, Spec.page, Spec.allRows]
    exact (sorted_sortDedup _).filter _
  intro x
  simp only [Spec.rows, Spec.page, mem_sortDedup, List.mem_filter, mem_allRows, List.mem_flatMap]
  cases hcol : a.column with
  | none =>
    simp only [shardRows, hcol, List.mem_flatMap, mem_viewStores db hwf, mem_spec_fragRows]
    constructor
    · rintro ⟨sh, hsh, s, ⟨v, hv, hmem⟩, ⟨b, hb, hbx⟩, hstart, _⟩
      refine ⟨⟨(⟨a.field, v, sh⟩, s), hmem, rfl, hsh, (view_equiv db a v sh s hmem).mp hv, b, hb, trivial, hbx⟩, ?_⟩
      cases hp : a.previous with
      | none => rfl
      | some p => simp only [hp] at hstart; simp only [decide_eq_true_eq]; omega
    · rintro ⟨⟨p, hp, hf, hsh, hv, b, hb, _, hbx⟩, hprev⟩
      obtain ⟨⟨f, v, sh⟩, s⟩ := p
      simp only at hf hsh hv hb
      subst hf
      refine ⟨sh, hsh, s, ⟨v, (view_equiv db a v sh s hp).mpr hv, hp⟩, ⟨b, hb, hbx⟩, ?_, fun c h => by cases h⟩
      cases hp' : a.previous with
      | none => exact Nat.zero_le _
      | some q => simp only [hp', decide_eq_true_eq] at hprev; simp only; omega
  | some col =>
    simp only [shardRows, hcol, List.mem_cons, List.not_mem_nil, or_false, exists_eq_left, ne_eq, not_true_eq_false,
      if_false, List.mem_flatMap, mem_viewStores db hwf, mem_spec_fragRows]
    constructor
    · rintro ⟨s, ⟨v, hv, hmem⟩, ⟨b, hb, hbx⟩, hstart, hc⟩
      have hxc := hc (col % shardWidth) rfl
      refine ⟨⟨(⟨a.field, v, col / shardWidth⟩, s), hmem, rfl, rfl, (view_equiv db a v _ s hmem).mp hv,
        (x, col % shardWidth), hxc, rfl, rfl⟩, ?_⟩
      cases hp : a.previous with
      | none => rfl
      | some p => simp only [hp] at hstart; simp only [decide_eq_true_eq]; omega
    · rintro ⟨⟨p, hp, hf, hsh, hv, b, hb, hbc, hbx⟩, hprev⟩
      obtain ⟨⟨f, v, sh⟩, s⟩ := p
      simp only at hf hsh hv hb
      subst hf; subst hsh
      have hbeq : b = (x, col % shardWidth) := by
        cases b; simp only at hbc hbx; rw [hbc, hbx]
      refine ⟨s, ⟨v, (view_equiv db a v _ s hp).mpr hv, hp⟩, ⟨b, hb, hbx⟩, ?_, ?_⟩
      · cases hp' : a.previous with
        | none => exact Nat.zero_le _
        | some q => simp only [hp', decide_eq_true_eq] at hprev; simp only; omega
      · intro c hc
        cases hc
        rw [← hbeq]; exact hb

/-- With an explicit limit the executor's Rows is exactly the specification. -/
theorem C16_rows_exec_limit (db : DB) (hwf : db.WF) (a : RowsArgs) (shards : List Nat) (l : Nat)
    (hl : a.limit = some l) : rows db a shards = Spec.rows db a shards := by
  rw [C16_rows_exec db hwf a shards, hl]
  simp only [Option.getD_some, Spec.rows, Spec.page, hl]

/-! ### MinRow / MaxRow on one fragment -/

theorem firstWith_spec (s : Store) (f : Option (List Nat)) (l : List Nat) :
    ((firstWith s f l) = (0, 0) ∧ ∀ r ∈ l, rowCount s r f = 0) ∨
    ∃ pre r post, l = pre ++ r :: post ∧ (∀ x ∈ pre, rowCount s x f = 0) ∧ rowCount s r f > 0 ∧
      firstWith s f l = (r, rowCount s r f) := by
  induction l with
  | nil => left; exact ⟨rfl, fun r hr => absurd hr (by simp)⟩
  | cons a rest ih =>
    unfold firstWith
    by_cases ha : rowCount s a f > 0
    · right
      refine ⟨[], a, rest, rfl, fun x hx => absurd hx (by simp), ha, ?_⟩
      simp only [ha, if_true]
    · simp only [ha, if_false]
      have ha0 : rowCount s a f = 0 := by omega
      rcases ih with ⟨h1, h2⟩ | ⟨pre, r, post, h1, h2, h3, h4⟩
      · left
        refine ⟨h1, fun r hr => ?_⟩
        rcases List.mem_cons.mp hr with e | hr'
        · rw [e]; exact ha0
        · exact h2 r hr'
      · right
        refine ⟨a :: pre, r, post, by rw [h1]; rfl, ?_, h3, h4⟩
        intro x hx
        rcases List.mem_cons.mp hx with e | hx'
        · rw [e]; exact ha0
        · exact h2 x hx'

theorem rowCount_of_no_bits (s : Store) (r : Nat) (f : Option (List Nat)) (h : ∀ p ∈ s, p.1 ≠ r) :
    rowCount s r f = 0 := by
  have : s.row r = [] := by
    simp only [Store.row, List.map_eq_nil_iff, List.filter_eq_nil_iff]
    intro p hp
    simpa using h p hp
  cases f with
  | none => simp [rowCount, this]
  | some flt => simp [rowCount, interCount, this]

theorem fragRows_all (s : Store) (hwf : s.WF) : fragRows s 0 [] = Spec.storeRows s := by
  have := C16_rows s hwf 0 none none (fun c h => by cases h)
  simp only [colFilter, limFilter, List.append_nil] at this
  rw [this]
  simp [Spec.fragRows]

/-- MinRow / MaxRow on a fragment (`fragment.minRow` / `maxRow`, any filter row or none): if some
row has a bit inside the filter, the result is the smallest / largest such row together with its
number of bits inside the filter; otherwise (0, 0).  Full strength: no high-water mark. -/
theorem C16_minmax (s : Store) (hwf : s.WF) (filter : Option (List Nat)) :
    (((minRow s filter) = (0, 0) ∧ ∀ r, rowCount s r filter = 0) ∨
      (∃ m, minRow s filter = (m, rowCount s m filter) ∧ rowCount s m filter > 0 ∧
        ∀ r, rowCount s r filter > 0 → m ≤ r)) ∧
    (((maxRow s filter) = (0, 0) ∧ ∀ r, rowCount s r filter = 0) ∨
      (∃ m, maxRow s filter = (m, rowCount s m filter) ∧ rowCount s m filter > 0 ∧
        ∀ r, rowCount s r filter > 0 → r ≤ m)) := by
  have hrows := fragRows_all s hwf
  have hsorted : (Spec.storeRows s).Pairwise (· < ·) := sorted_sortDedup _
  have hmem : ∀ r, r ∉ Spec.storeRows s → rowCount s r filter = 0 := by
    intro r hr
    apply rowCount_of_no_bits
    intro p hp e
    apply hr
    simp only [Spec.storeRows, mem_sortDedup, List.mem_map]
    exact ⟨p, hp, e⟩
  have hzero : ∀ l : List Nat, (∀ r, r ∈ l ↔ r ∈ Spec.storeRows s) → (∀ r ∈ l, rowCount s r filter = 0) →
      ∀ r, rowCount s r filter = 0 := by
    intro l hl h0 r
    by_cases hr : r ∈ Spec.storeRows s
    · exact h0 r ((hl r).mpr hr)
    · exact hmem r hr
  constructor
  · unfold minRow
    rw [hrows]
    rcases firstWith_spec s filter (Spec.storeRows s) with ⟨h1, h2⟩ | ⟨pre, m, post, h1, h2, h3, h4⟩
    · left; exact ⟨h1, hzero _ (fun _ => Iff.rfl) h2⟩
    · right
      refine ⟨m, h4, h3, ?_⟩
      intro r hr
      by_cases hrm : r ∈ Spec.storeRows s
      · rw [h1] at hrm hsorted
        rcases List.mem_append.mp hrm with hp | hp
        · have := h2 r hp; omega
        · rcases List.mem_cons.mp hp with e | hp'
          · omega
          · have := (List.pairwise_cons.mp (List.pairwise_append.mp hsorted).2.1).1 r hp'
            omega
      · have := hmem r hrm; omega
  · unfold maxRow
    rw [hrows]
    have hsr : (Spec.storeRows s).reverse.Pairwise (· > ·) := List.pairwise_reverse.mpr hsorted
    rcases firstWith_spec s filter (Spec.storeRows s).reverse with ⟨h1, h2⟩ | ⟨pre, m, post, h1, h2, h3, h4⟩
    · left; exact ⟨h1, hzero _ (fun r => List.mem_reverse) h2⟩
    · right
      refine ⟨m, h4, h3, ?_⟩
      intro r hr
      by_cases hrm : r ∈ Spec.storeRows s
      · have hrm' : r ∈ (Spec.storeRows s).reverse := List.mem_reverse.mpr hrm
        rw [h1] at hrm' hsr
        rcases List.mem_append.mp hrm' with hp | hp
        · have := h2 r hp; omega
        · rcases List.mem_cons.mp hp with e | hp'
          · omega
          · have := (List.pairwise_cons.mp (List.pairwise_append.mp hsr).2.1).1 r hp'
            omega
      · have := hmem r hrm; omega

/-! ### paging -/

def natLt (a b : Nat) : Bool := decide (a < b)

/-- One Rows request with `previous` and `limit` is a page of the unpaged answer. -/
theorem rows_is_page (db : DB) (a : RowsArgs) (shards : List Nat) (prev : Option Nat) (l : Nat) :
    Spec.rows db { a with previous := prev, limit := some l } shards =
      Paging.pageAfter natLt (Spec.rows db { a with previous := none, limit := none } shards) prev l := by
  simp only [Spec.rows, Spec.page, Paging.pageAfter]
  congr 1
  rw [List.filter_filter]
  apply List.filter_congr
  intro r _
  cases prev <;> simp [natLt]

theorem spec_rows_sorted (db : DB) (a : RowsArgs) (shards : List Nat) :
    (Spec.rows db { a with previous := none, limit := none } shards).Pairwise (fun x y => natLt x y = true) := by
  simp only [Spec.rows, Spec.page, Spec.allRows]
  apply List.Pairwise.filter
  apply (sorted_sortDedup _).imp
  intro x y h
  simp [natLt, h]

/-- C16 paging for Rows: requesting pages with `limit = l` and `previous` = last row of the page
before (each such request is `rows_is_page`), until a page comes back empty, and concatenating
them gives exactly the unpaged Rows answer (any field, column, time range, shards). -/
theorem C16_paging (db : DB) (a : RowsArgs) (shards : List Nat) (l : Nat) (hl : l > 0) :
    let full := Spec.rows db { a with previous := none, limit := none } shards
    Paging.pagePrev natLt full l (full.length + 1) none [] = full := by
  intro full
  apply Paging.pagePrev_all natLt _ _ full (spec_rows_sorted db a shards) l hl
  · intro x y z h1 h2
    simp only [natLt, decide_eq_true_eq] at *
    omega
  · intro x; simp [natLt]

/-- The same for the model of the code: every page request the executor answers is the corresponding
page of the unpaged specification, so the loop of `C16_paging` run against the code yields the
unpaged answer. -/
theorem C16_paging_exec (db : DB) (hwf : db.WF) (a : RowsArgs) (shards : List Nat) (prev : Option Nat) (l : Nat) :
    rows db { a with previous := prev, limit := some l } shards =
      Paging.pageAfter natLt (Spec.rows db { a with previous := none, limit := none } shards) prev l := by
  rw [C16_rows_exec_limit db hwf { a with previous := prev, limit := some l } shards l rfl]
  exact rows_is_page db a shards prev l

/-- The slicing at the end of executeGroupBy: with the offset/limit repair, offset `o` and limit `l`
select `(merged.drop o).take l`. -/
theorem groupBy_slice (merged : List PV.C17.GroupCount) (o l : Nat) :
    (let res := if o < merged.length then merged.drop o else []
     if l < res.length then res.take l else res) = (merged.drop o).take l := by
  simp only
  by_cases ho : o < merged.length
  · simp only [ho, if_true]
    by_cases hl : l < (merged.drop o).length
    · simp only [hl, if_true]
    · simp only [hl, if_false]
      exact (List.take_of_length_le (Nat.le_of_not_lt hl)).symm
  · simp only [ho, if_false]
    have : merged.drop o = [] := List.drop_eq_nil_iff.mpr (Nat.le_of_not_lt ho)
    simp [this]

/-- GroupBy, what is proved and what is not.

Full-strength statement:

    theorem C16_groupby (db : DB) (hwf : db.WF) (a : GroupByArgs) (shards : List Nat)
        (hprev : every child carries `previous` or none does) :
        groupBy db a shards = Spec.groupBy db a shards

PROVED (named theorems below in this file):
  * `C16_groupby_of_shards` — everything above the per-shard iterator, for children without limit /
    column: `mergeGroupCounts` over the shards with the fetch limit (via PV.C17.K: the merge is the
    first `limit` of the key-wise sum, `allGroups_eq_merge`, `foldl_mergeGroupCounts`), offset and
    limit slicing; reduces `C16_groupby` to ONE hypothesis `hshard`: each shard's iterator returns the
    first limit+offset of `Spec.shardGroups` (its combinations at or after the start with a non-zero
    count on that shard, ascending, exact counts).
  * `C16_paging_groupby` — on the specification: a request whose children carry group `g` as
    `previous` is the page after `g` (`lexGE_bumpLast`), and pages requested until exhaustion
    concatenate to the whole answer (lexicographic instance of `Paging.pagePrev_all`).
  * `C16_groupby_one_field` — the FULL theorem for GroupBy over one field (children without limit /
    column): `groupBy db a shards = Spec.groupBy db a shards`, through the real iterator model incl.
    its fuel (`C16_groupby_shard_single`, `groupByShard_single_spec`: what a shard returns is
    `(Spec.shardGroups …).take (limit+offset)`), the merge and the slicing.
  * `nextAtIdx_succ_two` — for TWO fields, `nextAtIdx` at the last field is the odometer successor
    with pruning, with the model's fuel: next row of the second field if any; otherwise the second
    field wraps to its first row and the first field moves to its next row with a bit inside the
    filter (rows without one are skipped), `done` when there is none.
  * `C16_groupby_partial` (this theorem) — the limit+offset fetch and slicing.
NOT PROVED (checked on every run by correspondence + the `#spec` oracle, generator `genGroupCase`):
  * `hshard` of `C16_groupby_of_shards` for TWO OR MORE fields. For two fields the successor step is
    proved; missing: `gbiInit` leaves the iterators on the least combination ≥ start (seek of both
    fields, ignorePrev after an overshoot or a wrap, `advanceLeft`), `gbiNext`/`gbiCollect` over the
    two-field stream (as `gbiNext_single`/`gbiCollect_single` do for one field), and the rewriting as
    `(Spec.shardGroups …).take`. For three or more fields also the successor step with middle fields
    (`inter nr rows[i-1]`, nested carries) and the fuel bound.
  * children with limit / column (`filterWithRows` domains: `C16_rows_withRows`, `C16_rows_exec` give
    the domains, the glue is missing). -/
theorem C16_groupby_partial (all : List PV.C17.GroupCount) (o l : Nat) :
    (let merged := all.take (l + o)      -- what the shards and the merge keep: fetchLimit = l + o
     let res := if o < merged.length then merged.drop o else []
     if l < res.length then res.take l else res) = (all.drop o).take l := by
  have := groupBy_slice (all.take (l + o)) o l
  simp only at this ⊢
  rw [this, List.drop_take]
  simp [List.take_take]

theorem C16_groupby_partial_aux (all : List PV.C17.GroupCount) (o l : Nat) :
    (if l < (if o < (all.take (l + o)).length then (all.take (l + o)).drop o else []).length then
      (if o < (all.take (l + o)).length then (all.take (l + o)).drop o else []).take l
     else (if o < (all.take (l + o)).length then (all.take (l + o)).drop o else [])) = (all.drop o).take l := by
  have := groupBy_slice (all.take (l + o)) o l
  simp only at this
  rw [this, List.drop_take]
  simp [List.take_take]

/-! ### GroupBy above the per-shard iterator -/

section GroupByExec
open PV.C17 (GroupCount mergeGroupCounts GLen gmerge)

theorem foldl_congr_mem {α β : Type} (f g : β → α → β) (l : List α) (b : β)
    (h : ∀ acc x, x ∈ l → f acc x = g acc x) : l.foldl f b = l.foldl g b := by
  induction l generalizing b with
  | nil => rfl
  | cons x rest ih =>
    simp only [List.foldl_cons]
    rw [h b x (by simp)]
    exact ih _ (fun acc y hy => h acc y (List.mem_cons_of_mem _ hy))

theorem filterMap_congr_mem {α β : Type} (f g : α → Option β) (l : List α)
    (h : ∀ x ∈ l, f x = g x) : l.filterMap f = l.filterMap g := by
  induction l with
  | nil => rfl
  | cons x rest ih =>
    simp only [List.filterMap_cons]
    rw [h x (by simp), ih (fun y hy => h y (List.mem_cons_of_mem _ hy))]

theorem groupDoms_plain (db : DB) (a : GroupByArgs) (shards : List Nat)
    (hplain : ∀ ch ∈ a.children, ch.limit = none ∧ ch.column = none) :
    Spec.groupDoms db a shards = a.children.map (fun ch => Spec.fieldRows db ch.field shards) := by
  unfold Spec.groupDoms
  apply List.map_congr_left
  intro ch hch
  have := hplain ch hch
  simp [this.1, this.2]

theorem shardGroups_GLen (db : DB) (a : GroupByArgs) (shards : List Nat) (sh : Nat) :
    GLen a.children.length (Spec.shardGroups db a shards sh) := by
  intro z hz
  rcases List.mem_filterMap.mp hz with ⟨t, ht, hg⟩
  rw [groupOf_group a t _ z hg, tuples_length _ t ht]
  simp [Spec.groupDoms]

/-- GroupBy, everything above the per-shard iterator (children without `limit` / `column`, i.e.
the paging use: `previous`, `limit`, `offset`, `filter`). IF every shard's iterator returns the
first `limit+offset` of that shard's combinations with a non-zero count (hypothesis `hshard` —
this is the statement about `newGroupByIterator` / `nextAtIdx` / `Next` that is not proved yet),
THEN `executeGroupBy` — `mergeGroupCounts` over the shards in arrival order with the fetch limit,
then offset and limit — returns exactly the specification: every combination with a non-zero total
count at or after the start, ascending, exact totals, sliced by offset and limit. -/
theorem C16_groupby_of_shards (db : DB) (a : GroupByArgs) (shards : List Nat)
    (hplain : ∀ ch ∈ a.children, ch.limit = none ∧ ch.column = none)
    (hsmall : (Spec.allGroups db a shards).length ≤ noLimit)
    (hlim : ∀ l, a.limit = some l → l + a.offset.getD 0 < noLimit)
    (hshard : ∀ sh ∈ shards, groupByShard db a (a.children.map (fun _ => [])) sh =
      (Spec.shardGroups db a shards sh).take (fetchLimit a)) :
    groupBy db a shards = Spec.groupBy db a shards := by
  have hdoms : ∀ d ∈ Spec.groupDoms db a shards, d.Pairwise (· < ·) := by
    rw [groupDoms_plain db a shards hplain]
    intro d hd
    rcases List.mem_map.mp hd with ⟨ch, _, rfl⟩
    exact sorted_sortDedup _
  -- the merged list is the first fetchLimit groups of the totals
  have hmerged : shards.foldl (fun acc sh => mergeGroupCounts acc
      (groupByShard db a (a.children.map (fun _ => [])) sh) (fetchLimit a)) [] =
      (Spec.allGroups db a shards).take (fetchLimit a) := by
    have e1 : shards.foldl (fun acc sh => mergeGroupCounts acc
        (groupByShard db a (a.children.map (fun _ => [])) sh) (fetchLimit a)) [] =
        (shards.map (fun sh => (Spec.shardGroups db a shards sh).take (fetchLimit a))).foldl
          (fun acc l => mergeGroupCounts acc l (fetchLimit a)) [] := by
      rw [List.foldl_map]
      exact foldl_congr_mem _ _ shards [] (fun acc sh hsh => by rw [hshard sh hsh])
    rw [e1]
    have := foldl_mergeGroupCounts a.children.length (fetchLimit a) (shards.map (Spec.shardGroups db a shards))
      (by
        intro l hl
        rcases List.mem_map.mp hl with ⟨sh, _, rfl⟩
        exact shardGroups_GLen db a shards sh)
    simp only [List.map_map] at this
    rw [show (shards.map ((fun x => x.take (fetchLimit a)) ∘ Spec.shardGroups db a shards)) =
      shards.map (fun sh => (Spec.shardGroups db a shards sh).take (fetchLimit a)) from rfl] at this
    rw [this, allGroups_eq_merge db a shards hdoms]
  unfold groupBy
  simp only
  -- children without limit / column need no Rows call ahead of the shards
  have hcr : a.children.map (fun ch =>
      if ch.limit.isSome ∨ ch.column.isSome then
        some (rows db { field := ch.field, previous := ch.previous, limit := ch.limit, column := ch.column } shards)
      else none) = a.children.map (fun _ => (none : Option (List Nat))) := by
    apply List.map_congr_left
    intro ch hch
    have := hplain ch hch
    simp [this.1, this.2]
  rw [hcr]
  have hany : ((a.children.map (fun _ => (none : Option (List Nat)))).any (fun r => r == some [])) = false := by
    simp
  simp only [hany, Bool.false_eq_true, if_false, List.map_map]
  rw [show (a.children.map ((fun x => x.getD []) ∘ fun _ => (none : Option (List Nat)))) =
    a.children.map (fun _ => ([] : List Nat)) from rfl]
  rw [hmerged]
  unfold Spec.groupBy
  simp only
  cases hl : a.limit with
  | none =>
    have hL : fetchLimit a = noLimit := by simp [fetchLimit, hl]
    rw [hL, List.take_of_length_le hsmall]
    cases ho : a.offset with
    | none => simp
    | some o =>
      simp only [Option.getD_some]
      split
      · rfl
      · rename_i h; exact (List.drop_eq_nil_iff.mpr (Nat.le_of_not_lt h)).symm
  | some l =>
    have hlt := hlim l hl
    have hL : fetchLimit a = l + a.offset.getD 0 := by
      simp only [fetchLimit, hl]
      simp [hlt]
    rw [hL]
    cases ho : a.offset with
    | none =>
      simp only [Option.getD_none, Nat.add_zero, List.drop_zero]
      split
      · simp [List.take_take]
      · rfl
    | some o =>
      simp only [Option.getD_some]
      have := C16_groupby_partial_aux (Spec.allGroups db a shards) o l
      exact this

/-! #### the per-shard iterator, one field -/

/-- `executeGroupByShard` for a GroupBy with ONE child (no child limit / column), through the real
iterator model (`newGroupByIterator` with `previous`, `nextAtIdx`, `Next`, the result loop and its
fuel): the rows of the shard's fragment after `previous`, ascending, that have a bit inside the
filter, each with its number of bits inside the filter, the first `limit+offset` of them. -/
theorem C16_groupby_shard_single (db : DB) (a : GroupByArgs) (ch : ChildArgs) (hch : a.children = [ch])
    (sh : Nat) (st : Store) (hf : db.frag ⟨ch.field, none, sh⟩ = some st) :
    groupByShard db a [[]] sh =
      ((stream1 st (a.filter.map (· sh)) (fragRows st 0 []) (start1 (fragRows st 0 []) ch.previous)).take
        (fetchLimit a)).map (fun p => (⟨p.1, p.2⟩ : GroupCount)) := by
  unfold groupByShard
  simp only [hch, List.map_cons, List.map_nil, hf, List.any_cons, Option.isNone_some, List.any_nil,
    Bool.or_self, Bool.false_eq_true, if_false, List.zip_cons_cons, List.zip_nil_right, Option.getD_some,
    List.length_cons, List.length_nil, List.foldl_cons, List.foldl_nil]
  have hgood := gbiInit_single st (a.filter.map (· sh)) ch
  simp only at hgood
  apply gbiCollect_single st (a.filter.map (· sh)) (fragRows st 0 []) _ (by omega) (fetchLimit a) _ 0 _ _ hgood
  have := stream1_length_le st (a.filter.map (· sh)) (fragRows st 0 []) (start1 (fragRows st 0 []) ch.previous)
  simp only [Nat.min_def]
  split <;> split <;> omega

theorem tuples_single (D : List Nat) : Spec.tuples [D] = D.map (fun r => [r]) := by
  simp only [Spec.tuples, List.map_cons, List.map_nil]
  induction D with
  | nil => rfl
  | cons d ds ih => simp only [List.flatMap_cons, List.map_cons]; rw [ih]; rfl

/-- on an ascending list, dropping up to the first element ≥ b keeps exactly the elements ≥ b -/
theorem drop_findIdx_sorted (R : List Nat) (hs : R.Pairwise (· < ·)) (b : Nat) :
    R.drop (R.findIdx (fun x => decide (x ≥ b))) = R.filter (fun x => decide (x ≥ b)) := by
  induction R with
  | nil => rfl
  | cons x xs ih =>
    have hp := List.pairwise_cons.mp hs
    by_cases hx : x ≥ b
    · have : (x :: xs).findIdx (fun x => decide (x ≥ b)) = 0 := by simp [List.findIdx_cons, hx]
      rw [this, List.drop_zero]
      symm
      apply List.filter_eq_self.mpr
      intro y hy
      rcases List.mem_cons.mp hy with e | hy'
      · rw [e]; simpa using hx
      · have := hp.1 y hy'; simp; omega
    · have hd : decide (x ≥ b) = false := by simpa using hx
      simp only [List.findIdx_cons, hd, cond_false, List.drop_succ_cons, List.filter_cons, Bool.false_eq_true, if_false]
      exact ih hp.2

theorem colsIn_nil_of_no_bits (st : Store) (f : Option (List Nat)) (r : Nat) (h : ∀ p ∈ st, p.1 ≠ r) :
    colsIn st f r = [] := by
  have : st.row r = [] := by
    simp only [Store.row, List.map_eq_nil_iff, List.filter_eq_nil_iff]
    intro p hp; simpa using h p hp
  cases f <;> simp [colsIn, this, inter]


theorem shardGroupCount_single (db : DB) (fld r sh : Nat) (filter : Option (Nat → List Nat)) (st : Store)
    (hf : db.frag ⟨fld, none, sh⟩ = some st) :
    Spec.shardGroupCount db [fld] [r] filter sh = (colsIn st (filter.map (· sh)) r).length := by
  unfold Spec.shardGroupCount
  simp only [List.zip_cons_cons, List.zip_nil_right, List.map_cons, List.map_nil, hf, List.foldl_nil]
  cases filter <;> rfl

theorem shardGroupCount_single_none (db : DB) (fld r sh : Nat) (filter : Option (Nat → List Nat))
    (hf : db.frag ⟨fld, none, sh⟩ = none) : Spec.shardGroupCount db [fld] [r] filter sh = 0 := by
  unfold Spec.shardGroupCount
  simp only [List.zip_cons_cons, List.zip_nil_right, List.map_cons, List.map_nil, hf, List.foldl_nil]
  cases filter <;> simp [inter]

theorem startOK_single (a : GroupByArgs) (ch : ChildArgs) (hch : a.children = [ch]) (r : Nat) :
    Spec.startOK a [r] = (match ch.previous with
      | none => true
      | some p => decide (r ≥ p + 1)) := by
  unfold Spec.startOK Spec.startTuple
  rw [hch]
  cases hp : ch.previous with
  | none => simp [hp]
  | some p =>
    simp only [List.all_cons, hp, Option.isSome_some, List.all_nil, Bool.and_self, List.length_cons, List.length_nil,
      Nat.zero_add, Nat.lt_add_one, decide_true, if_true, List.map_cons, List.map_nil, Option.getD_some,
      Spec.bumpLast, Spec.lexGE]
    by_cases h1 : r > p + 1
    · simp [h1] <;> omega
    · by_cases h2 : r < p + 1
      · simp [h1, h2] <;> omega
      · have : r = p + 1 := by omega
        subst this; simp

def okAfter (prev : Option Nat) (r : Nat) : Bool :=
  match prev with
  | none => true
  | some p => decide (r ≥ p + 1)

/-- the stream of the one-field iterator over the fragment's rows `R`, as a filterMap over any
ascending superset `D` of `R` -/
theorem single_glue (st : Store) (f : Option (List Nat)) (R D : List Nat)
    (hRs : R.Pairwise (· < ·)) (hDs : D.Pairwise (· < ·)) (hsub : ∀ r ∈ R, r ∈ D)
    (hoff : ∀ r, r ∉ R → colsIn st f r = []) (prev : Option Nat) :
    (stream1 st f R (start1 R prev)).map (fun p => (⟨p.1, p.2⟩ : GroupCount)) =
      D.filterMap (fun r => if (colsIn st f r).length > 0 ∧ okAfter prev r = true then
        some (⟨[r], (colsIn st f r).length⟩ : GroupCount) else none) := by
  have hDR : D.filter (fun r => decide (r ∈ R)) = R := by
    apply sorted_ext _ _ (hDs.filter _) hRs
    intro x
    simp only [List.mem_filter, decide_eq_true_eq]
    exact ⟨fun h => h.2, fun h => ⟨hsub x h, h⟩⟩
  have hDg : ∀ g : Nat → Option GroupCount, (∀ r, r ∉ R → g r = none) → D.filterMap g = R.filterMap g := by
    intro g hg
    conv => rhs; rw [← hDR]
    rw [List.filterMap_filter]
    apply filterMap_congr_mem
    intro r _
    by_cases hr : r ∈ R
    · simp [hr]
    · simp [hr, hg r hr]
  rw [hDg _ (fun r hr => by rw [hoff r hr]; simp)]
  unfold stream1
  rw [List.map_filterMap]
  cases prev with
  | none =>
    simp only [start1, List.drop_zero]
    apply filterMap_congr_mem
    intro r _
    unfold emit1
    by_cases hz : (colsIn st f r).length = 0
    · simp [hz, okAfter]
    · have : (colsIn st f r).length > 0 := Nat.pos_of_ne_zero hz
      simp [hz, this, okAfter]
  | some p =>
    simp only [start1]
    rw [drop_findIdx_sorted R hRs (p + 1), List.filterMap_filter]
    apply filterMap_congr_mem
    intro r _
    unfold emit1
    by_cases hz : (colsIn st f r).length = 0
    · by_cases hge : r ≥ p + 1 <;> simp [hz, hge, okAfter]
    · have : (colsIn st f r).length > 0 := Nat.pos_of_ne_zero hz
      by_cases hge : r ≥ p + 1 <;> simp [hz, this, hge, okAfter]

/-- One field: what the shard's iterator returns (`C16_groupby_shard_single`) is the first
limit+offset of the shard's groups of the specification. -/
theorem groupByShard_single_spec (db : DB) (hwf : db.WF) (a : GroupByArgs) (ch : ChildArgs)
    (hch : a.children = [ch]) (hplain : ch.limit = none ∧ ch.column = none)
    (shards : List Nat) (sh : Nat) (hsh : sh ∈ shards) :
    groupByShard db a (a.children.map (fun _ => [])) sh =
      (Spec.shardGroups db a shards sh).take (fetchLimit a) := by
  have hpl : ∀ c ∈ a.children, c.limit = none ∧ c.column = none := by
    intro c hc; rw [hch] at hc; simp at hc; rw [hc]; exact hplain
  have hdoms : Spec.groupDoms db a shards = [Spec.fieldRows db ch.field shards] := by
    rw [groupDoms_plain db a shards hpl, hch]; rfl
  have hfields : a.children.map (·.field) = [ch.field] := by rw [hch]; rfl
  have hcr : a.children.map (fun _ => ([] : List Nat)) = [[]] := by rw [hch]; rfl
  rw [hcr]
  unfold Spec.shardGroups
  rw [hdoms, hfields, tuples_single, List.filterMap_map]
  cases hf : db.frag ⟨ch.field, none, sh⟩ with
  | none =>
    have hl : groupByShard db a [[]] sh = [] := by
      unfold groupByShard; simp [hch, hf]
    rw [hl]
    have : (Spec.fieldRows db ch.field shards).filterMap
        ((fun t => Spec.groupOf a t (Spec.shardGroupCount db [ch.field] t a.filter sh)) ∘ fun r => [r]) = [] := by
      apply List.filterMap_eq_nil_iff.mpr
      intro r _
      simp only [Function.comp, shardGroupCount_single_none db ch.field r sh a.filter hf, Spec.groupOf]
      simp
    rw [this]; simp
  | some st =>
    have hst : st.WF := hwf.2 _ ((db.frag_iff hwf _ st).mp hf)
    rw [C16_groupby_shard_single db a ch hch sh st hf, fragRows_all st hst, List.map_take]
    congr 1
    have hsub : ∀ r ∈ Spec.storeRows st, r ∈ Spec.fieldRows db ch.field shards := by
      intro r hr
      simp only [Spec.storeRows, mem_sortDedup, List.mem_map] at hr
      obtain ⟨p, hp, hpr⟩ := hr
      simp only [Spec.fieldRows, mem_sortDedup, List.mem_flatMap, List.mem_filter, List.mem_map]
      refine ⟨(⟨ch.field, none, sh⟩, st), ⟨(db.frag_iff hwf _ st).mp hf, ?_⟩, p, hp, hpr⟩
      simp [hsh]
    have hoff : ∀ r, r ∉ Spec.storeRows st → colsIn st (a.filter.map (· sh)) r = [] := by
      intro r hr
      apply colsIn_nil_of_no_bits
      intro p hp e
      apply hr
      simp only [Spec.storeRows, mem_sortDedup, List.mem_map]
      exact ⟨p, hp, e⟩
    rw [single_glue st (a.filter.map (· sh)) (Spec.storeRows st) (Spec.fieldRows db ch.field shards)
      (sorted_sortDedup _) (sorted_sortDedup _) hsub hoff ch.previous]
    apply filterMap_congr_mem
    intro r _
    simp only [Function.comp, Spec.groupOf, shardGroupCount_single db ch.field r sh a.filter st hf,
      startOK_single a ch hch r, Bool.and_eq_true, decide_eq_true_eq]
    cases ch.previous <;> rfl

/-- **GroupBy over one field, end to end** (children without limit / column; `previous`, `limit`,
`offset`, `filter` arbitrary): the model of the code — `newGroupByIterator`, `nextAtIdx`, `Next` and
the result loop with their fuel on every shard, `mergeGroupCounts` over the shards with the fetch
limit, offset and limit slicing — returns exactly the specification: every row with a non-zero
total count (inside the filter) after `previous`, ascending, exact totals, sliced. -/
theorem C16_groupby_one_field (db : DB) (hwf : db.WF) (a : GroupByArgs) (ch : ChildArgs)
    (hch : a.children = [ch]) (hplain : ch.limit = none ∧ ch.column = none) (shards : List Nat)
    (hsmall : (Spec.allGroups db a shards).length ≤ noLimit)
    (hlim : ∀ l, a.limit = some l → l + a.offset.getD 0 < noLimit) :
    groupBy db a shards = Spec.groupBy db a shards := by
  apply C16_groupby_of_shards db a shards _ hsmall hlim
  · intro sh hsh
    exact groupByShard_single_spec db hwf a ch hch hplain shards sh hsh
  · intro c hc; rw [hch] at hc; simp at hc; rw [hc]; exact hplain

/-! #### the per-shard iterator, two fields: the successor step -/

/-- `nextAtIdx` at the last of two fields is the odometer successor with pruning: the next row of
the second field if there is one; otherwise the second field wraps to its first row and the first
field moves to its next row that has a bit inside the filter (rows without one are pruned: every
combination with them has count 0); `done` when the first field has no such row left. The fuel of
the model (anything ≥ |A| - i + 1) suffices. -/
theorem nextAtIdx_succ_two (sa sb : Store) (f : Option (List Nat)) (A B : List Nat)
    (hB : ∀ b ∈ B, sb.row b ≠ []) (fuel i j : Nat) (hi : i < A.length) (hj : j < B.length)
    (hf : fuel ≥ A.length - i + 1) (g' : GBI) (hg : g' = nextAtIdx fuel (st2 sa sb f A B i j) 1) :
    (j + 1 < B.length → g' = st2 sa sb f A B i (j + 1)) ∧
    (j + 1 ≥ B.length →
      (g'.done = true ∧ ∀ k, i < k → k < A.length → colsIn sa f (A.getD k 0) = []) ∨
      (∃ i', i < i' ∧ i' < A.length ∧ colsIn sa f (A.getD i' 0) ≠ [] ∧
        (∀ k, i < k → k < i' → colsIn sa f (A.getD k 0) = []) ∧ g' = st2 sa sb f A B i' 0)) := by
  subst hg
  cases fuel with
  | zero => omega
  | succ fuel =>
    have hBne : B ≠ [] := by intro e; rw [e] at hj; simp at hj
    have hrow : ∀ k, k < B.length → (sb.row (B.getD k 0)).isEmpty = false := by
      intro k hk
      have hm : B.getD k 0 ∈ B := by
        rw [List.getD_eq_getElem?_getD, List.getElem?_eq_getElem hk]; exact List.getElem_mem _
      cases h : (sb.row (B.getD k 0)).isEmpty with
      | false => rfl
      | true => exact absurd (List.isEmpty_iff.mp h) (hB _ hm)
    constructor
    · intro hlt
      unfold nextAtIdx
      have hnot : ¬ (j + 1 ≥ B.length) := by omega
      have hr := hrow (j + 1) hlt
      simp only [st2, s2, List.getElem?_cons_succ, List.getElem?_cons_zero, RowIter.next, hnot, if_false,
        Bool.false_eq_true, false_and, setAt_pair1, List.length_cons, List.length_nil, Nat.zero_add,
        Nat.reduceAdd, Nat.add_one_sub_one, if_true, Nat.succ_ne_zero, hr, Bool.not_false]
    · intro hge
      have h0 := nextAtIdx_two_level0 sa sb f A { ids := B, cur := 1, wrap := true }
        (sb.row (B.getD j 0), B.getD j 0) fuel i hi (by omega)
      unfold nextAtIdx
      have hemp : B.isEmpty = false := by cases B <;> simp at hBne ⊢
      have hr := hrow 0 (by omega)
      simp only [st2, s2, List.getElem?_cons_succ, List.getElem?_cons_zero, RowIter.next, hge, if_true,
        Bool.not_true, hemp, Bool.or_false, Bool.false_eq_true, if_false, setAt_pair1, true_and,
        Nat.succ_ne_zero, ne_eq, not_false_eq_true, Nat.add_one_sub_one, or_self, and_true]
      rcases h0 with ⟨hd, hall⟩ | ⟨i', h1, h2, h3, h4, h5⟩
      · left
        simp only [s2] at hd
        simp only [hd, if_true]
        exact ⟨trivial, hall⟩
      · right
        refine ⟨i', h1, h2, h3, h4, ?_⟩
        simp only [s2] at h5
        rw [h5]
        simp only [Bool.false_eq_true, if_false, List.length_cons, List.length_nil, Nat.zero_add, Nat.reduceAdd,
          Nat.add_one_sub_one, if_true, Nat.succ_ne_zero, setAt_pair1, hr, Bool.not_false]

/-! #### paging GroupBy by `previous` -/

theorem lexGE_bumpLast : ∀ (p t : List Nat), t.length = p.length → p ≠ [] →
    Spec.lexGE t (Spec.bumpLast p) = decide (p < t)
  | [], _, _, hp => absurd rfl hp
  | [x], t, hlen, _ => by
    match t, hlen with
    | [a], _ =>
      simp only [Spec.bumpLast, Spec.lexGE, List.cons_lt_cons_iff, List.lt_irrefl, and_false, or_false]
      by_cases h1 : a > x + 1
      · simp [h1] <;> omega
      · by_cases h2 : a < x + 1
        · simp [h1, h2] <;> omega
        · have : a = x + 1 := by omega
          subst this; simp
  | x :: y :: rest, t, hlen, _ => by
    match t, hlen with
    | a :: as, hlen =>
      have hlen' : as.length = (y :: rest).length := by simpa using hlen
      have ih := lexGE_bumpLast (y :: rest) as hlen' (by simp)
      simp only [Spec.bumpLast, Spec.lexGE, List.cons_lt_cons_iff]
      by_cases h1 : a > x
      · simp [h1]
      · by_cases h2 : a < x
        · have h3 : ¬ x < a := by omega
          have h4 : ¬ x = a := by omega
          simp [h1, h2, h3, h4]
        · have e : a = x := by omega
          subst e
          simp only [Nat.lt_irrefl, if_false, ih, false_or, true_and]

/-- Set `previous` of every child to the components of a group. -/
def withPrevious (chs : List ChildArgs) (t : List Nat) : List ChildArgs :=
  (chs.zip t).map (fun (ch, p) => { ch with previous := some p })

def gLt (x y : GroupCount) : Bool := decide (x.group < y.group)

theorem withPrevious_facts : ∀ (chs : List ChildArgs) (t : List Nat), t.length = chs.length →
    (withPrevious chs t).map (·.field) = chs.map (·.field) ∧
    (withPrevious chs t).map (fun ch => ch.previous.getD 0) = t ∧
    (withPrevious chs t).all (fun ch => ch.previous.isSome) = true ∧
    (withPrevious chs t).length = chs.length ∧
    (∀ ch ∈ withPrevious chs t, ∃ ch0 ∈ chs, ch.field = ch0.field ∧ ch.limit = ch0.limit ∧ ch.column = ch0.column)
  | [], [], _ => by simp [withPrevious]
  | [], _ :: _, h => by simp at h
  | _ :: _, [], h => by simp at h
  | ch :: chs, p :: ps, h => by
    have ih := withPrevious_facts chs ps (by simpa using h)
    simp only [withPrevious, List.zip_cons_cons, List.map_cons, List.all_cons, List.length_cons] at ih ⊢
    refine ⟨by rw [ih.1], by simp [ih.2.1], by simp [ih.2.2.1], by rw [ih.2.2.2.1], ?_⟩
    intro c hc
    rcases List.mem_cons.mp hc with e | hc'
    · exact ⟨ch, by simp, by rw [e], by rw [e], by rw [e]⟩
    · obtain ⟨c0, hc0, h1⟩ := ih.2.2.2.2 c hc'
      exact ⟨c0, List.mem_cons_of_mem _ hc0, h1⟩

/-- C16 paging for GroupBy by `previous` (on the specification; `C16_groupby_of_shards` carries it to
the code once the per-shard iterator statement is available). Children without limit / column, no
`previous`, no offset. The first page is the first `l` groups; the request whose children carry
the components of group `g` as `previous` returns the first `l` groups after `g`; and requesting
pages with `previous` = last group of the page before until a page comes back empty, then
concatenating, gives the whole GroupBy answer. -/
theorem C16_paging_groupby (db : DB) (a : GroupByArgs) (shards : List Nat)
    (hplain : ∀ ch ∈ a.children, ch.limit = none ∧ ch.column = none)
    (hprev : ∀ ch ∈ a.children, ch.previous = none) (hk : a.children ≠ []) (hoff : a.offset = none)
    (l : Nat) (hl : l > 0) :
    let full := Spec.allGroups db a shards
    Spec.groupBy db { a with limit := some l } shards = Paging.pageAfter gLt full none l ∧
    (∀ g : GroupCount, g.group.length = a.children.length →
      Spec.groupBy db { a with children := withPrevious a.children g.group, limit := some l } shards =
        Paging.pageAfter gLt full (some g) l) ∧
    Paging.pagePrev gLt full l (full.length + 1) none [] = full := by
  intro full
  have hdoms : ∀ d ∈ Spec.groupDoms db a shards, d.Pairwise (· < ·) := by
    rw [groupDoms_plain db a shards hplain]
    intro d hd
    rcases List.mem_map.mp hd with ⟨ch, _, rfl⟩
    exact sorted_sortDedup _
  have hT := tuples_sorted _ hdoms
  have hstart0 : Spec.startTuple a = none := by
    unfold Spec.startTuple
    cases hc : a.children with
    | nil => exact absurd hc hk
    | cons c rest =>
      have := hprev c (by rw [hc]; simp)
      simp [this]
  refine ⟨?_, ?_, ?_⟩
  · simp only [Spec.groupBy, hoff, Option.getD_none, List.drop_zero, Paging.pageAfter]
    rw [List.filter_eq_self.mpr (fun _ _ => rfl)]
    rfl
  · intro g hg
    obtain ⟨hf, hp, hall, hlen, hmem⟩ := withPrevious_facts a.children g.group hg
    let a' : GroupByArgs := { a with children := withPrevious a.children g.group, limit := some l }
    have hplain' : ∀ ch ∈ a'.children, ch.limit = none ∧ ch.column = none := by
      intro ch hch
      obtain ⟨c0, hc0, _, h2, h3⟩ := hmem ch hch
      have := hplain c0 hc0
      exact ⟨by rw [h2]; exact this.1, by rw [h3]; exact this.2⟩
    have hd' : Spec.groupDoms db a' shards = Spec.groupDoms db a shards := by
      rw [groupDoms_plain db a' shards hplain', groupDoms_plain db a shards hplain]
      have : a'.children.map (fun ch => Spec.fieldRows db ch.field shards) =
          (a'.children.map (·.field)).map (fun f => Spec.fieldRows db f shards) := by simp
      rw [this]
      have : a.children.map (fun ch => Spec.fieldRows db ch.field shards) =
          (a.children.map (·.field)).map (fun f => Spec.fieldRows db f shards) := by simp
      rw [this, hf]
    have hstart' : Spec.startTuple a' = some (Spec.bumpLast g.group) := by
      unfold Spec.startTuple
      have hpos : (withPrevious a.children g.group).length > 0 := by
        rw [hlen]; exact List.length_pos_iff.mpr hk
      simp only [a', hall, hp, Bool.true_and, decide_eq_true_eq, hpos, if_true]
    have hgne : g.group ≠ [] := by
      intro e; rw [e] at hg
      exact hk (List.eq_nil_of_length_eq_zero hg.symm)
    show Spec.groupBy db a' shards = _
    simp only [Spec.groupBy, a', hoff, Option.getD_none, List.drop_zero, Paging.pageAfter]
    congr 1
    -- the groups from the start on are the groups after g
    unfold Spec.allGroups
    show (Spec.tuples (Spec.groupDoms db a' shards)).filterMap _ = _
    rw [hd']
    show _ = List.filter (fun x => gLt g x) ((Spec.tuples (Spec.groupDoms db a shards)).filterMap (fun t =>
      Spec.groupOf a t (Spec.groupCount db (a.children.map (·.field)) t a.filter shards)))
    rw [List.filter_filterMap]
    apply filterMap_congr_mem
    intro t ht
    have htl : t.length = g.group.length := by
      rw [tuples_length _ t ht, hg]; simp [Spec.groupDoms]
    have hge := lexGE_bumpLast g.group t htl hgne
    show Spec.groupOf a' t (Spec.groupCount db (a'.children.map (·.field)) t a'.filter shards) = _
    have hfields : a'.children.map (·.field) = a.children.map (·.field) := hf
    rw [hfields]
    show Spec.groupOf a' t (Spec.groupCount db (a.children.map (·.field)) t a.filter shards) = _
    generalize Spec.groupCount db (a.children.map (·.field)) t a.filter shards = c
    simp only [Spec.groupOf, Spec.startOK, hstart', hstart0, hge, gLt]
    by_cases hc : c > 0
    · by_cases hlt : g.group < t
      · simp [hc, hlt, Option.filter]
      · simp [hc, hlt, Option.filter]
    · simp [hc, Option.filter]
  · apply Paging.pagePrev_all gLt _ _ full _ l hl
    · intro x y z h1 h2
      simp only [gLt, decide_eq_true_eq] at *
      exact List.lt_trans h1 h2
    · intro x; simp [gLt, List.lt_irrefl]
    · have := sortedK_filterMap _ hT (fun t => Spec.groupOf a t
        (Spec.groupCount db (a.children.map (·.field)) t a.filter shards)) (fun t y h => groupOf_group a t _ y h)
      have h2 : full.Pairwise (fun x y => x.group < y.group) := List.pairwise_map.mp this
      apply h2.imp
      intro x y h
      simp [gLt, h]

end GroupByExec

/-- C16 paging for GroupBy by offset: the pages `offset = 0, l, 2l, …` with `limit = l`, requested
until a page comes back empty, concatenate to the whole ordered list of groups. -/
theorem C16_paging_offset (groups : List PV.C17.GroupCount) (l : Nat) (hl : l > 0) :
    Paging.pageOffset groups l (groups.length + 1) 0 [] = groups :=
  Paging.pageOffset_all groups l hl

/-! ### MinRow / MaxRow through the executor -/

section MinMaxExec
open PV.C17 (Pair minRowReduce maxRowReduce)

/-- bits of `row` (inside the filter) in the standard fragment of `field` on shard `sh` -/
def shardCount (db : DB) (field : Nat) (filter : Option (Nat → List Nat)) (sh r : Nat) : Nat :=
  match db.frag ⟨field, none, sh⟩ with
  | none => 0
  | some s => rowCount s r (filter.map (· sh))

/-- what one shard hands to the MinRow reduce -/
def shardMin (db : DB) (field : Nat) (filter : Option (Nat → List Nat)) (sh : Nat) : Pair :=
  match db.frag ⟨field, none, sh⟩ with
  | none => Pair.zero
  | some s => pairOf (minRow s (filter.map (· sh)))

def shardMax (db : DB) (field : Nat) (filter : Option (Nat → List Nat)) (sh : Nat) : Pair :=
  match db.frag ⟨field, none, sh⟩ with
  | none => Pair.zero
  | some s => pairOf (maxRow s (filter.map (· sh)))

theorem shardMin_spec (db : DB) (hwf : db.WF) (field : Nat) (filter : Option (Nat → List Nat)) (sh : Nat) :
    (shardMin db field filter sh = Pair.zero ∧ ∀ r, shardCount db field filter sh r = 0) ∨
    ((shardMin db field filter sh).count > 0 ∧
      (shardMin db field filter sh).count = shardCount db field filter sh (shardMin db field filter sh).id ∧
      ∀ r, shardCount db field filter sh r > 0 → (shardMin db field filter sh).id ≤ r) := by
  unfold shardMin shardCount
  cases hf : db.frag ⟨field, none, sh⟩ with
  | none => left; exact ⟨rfl, fun _ => rfl⟩
  | some s =>
    have hs : s.WF := hwf.2 _ ((db.frag_iff hwf _ s).mp hf)
    rcases (C16_minmax s hs (filter.map (· sh))).1 with ⟨h1, h2⟩ | ⟨m, h1, h2, h3⟩
    · left; simp only; rw [h1]; exact ⟨rfl, h2⟩
    · right; simp only; rw [h1]; exact ⟨h2, rfl, h3⟩

theorem shardMax_spec (db : DB) (hwf : db.WF) (field : Nat) (filter : Option (Nat → List Nat)) (sh : Nat) :
    (shardMax db field filter sh = Pair.zero ∧ ∀ r, shardCount db field filter sh r = 0) ∨
    ((shardMax db field filter sh).count > 0 ∧
      (shardMax db field filter sh).count = shardCount db field filter sh (shardMax db field filter sh).id ∧
      ∀ r, shardCount db field filter sh r > 0 → r ≤ (shardMax db field filter sh).id) := by
  unfold shardMax shardCount
  cases hf : db.frag ⟨field, none, sh⟩ with
  | none => left; exact ⟨rfl, fun _ => rfl⟩
  | some s =>
    have hs : s.WF := hwf.2 _ ((db.frag_iff hwf _ s).mp hf)
    rcases (C16_minmax s hs (filter.map (· sh))).2 with ⟨h1, h2⟩ | ⟨m, h1, h2, h3⟩
    · left; simp only; rw [h1]; exact ⟨rfl, h2⟩
    · right; simp only; rw [h1]; exact ⟨h2, rfl, h3⟩

theorem sum_zero_of_all_zero (l : List Nat) (h : ∀ x ∈ l, x = 0) : l.sum = 0 := by
  induction l with
  | nil => rfl
  | cons a rest ih =>
    simp only [List.sum_cons]
    rw [h a (by simp), ih (fun x hx => h x (List.mem_cons_of_mem _ hx))]

/-- The fold of the MinRow reducer over shards, for any per-shard count function. -/
theorem minFold (cnt : Nat → Nat → Nat) (q : Nat → Pair)
    (hq : ∀ sh, (q sh = Pair.zero ∧ ∀ r, cnt sh r = 0) ∨
      ((q sh).count > 0 ∧ (q sh).count = cnt sh (q sh).id ∧ ∀ r, cnt sh r > 0 → (q sh).id ≤ r))
    (shards : List Nat) :
    ∀ (done : List Nat) (acc : Pair),
      ((acc = Pair.zero ∧ ∀ sh ∈ done, ∀ r, cnt sh r = 0) ∨
        (acc.count > 0 ∧ acc.count = (done.map (fun sh => cnt sh acc.id)).sum ∧
          ∀ sh ∈ done, ∀ r, cnt sh r > 0 → acc.id ≤ r)) →
      let res := shards.foldl (fun acc sh => minRowReduce acc (q sh)) acc
      ((res = Pair.zero ∧ ∀ sh ∈ done ++ shards, ∀ r, cnt sh r = 0) ∨
        (res.count > 0 ∧ res.count = ((done ++ shards).map (fun sh => cnt sh res.id)).sum ∧
          ∀ sh ∈ done ++ shards, ∀ r, cnt sh r > 0 → res.id ≤ r)) := by
  induction shards with
  | nil => intro done acc h; simpa using h
  | cons sh rest ih =>
    intro done acc h
    simp only [List.foldl_cons]
    have hstep : ((minRowReduce acc (q sh) = Pair.zero ∧ ∀ s ∈ done ++ [sh], ∀ r, cnt s r = 0) ∨
        ((minRowReduce acc (q sh)).count > 0 ∧
          (minRowReduce acc (q sh)).count = ((done ++ [sh]).map (fun s => cnt s (minRowReduce acc (q sh)).id)).sum ∧
          ∀ s ∈ done ++ [sh], ∀ r, cnt s r > 0 → (minRowReduce acc (q sh)).id ≤ r)) := by
      simp only [List.map_append, List.sum_append, List.map_cons, List.map_nil, List.sum_cons, List.sum_nil,
        Nat.add_zero, List.mem_append, List.mem_cons, List.not_mem_nil, or_false]
      rcases h with ⟨ha, hz⟩ | ⟨hc, hs, hm⟩
      · -- nothing so far
        subst ha
        rcases hq sh with ⟨hq0, hqz⟩ | ⟨hqc, hqs, hqm⟩
        · left
          refine ⟨by rw [hq0]; rfl, ?_⟩
          rintro s (hs | hs) r
          · exact hz s hs r
          · rw [hs]; exact hqz r
        · right
          have hred : minRowReduce Pair.zero (q sh) = q sh := by simp [minRowReduce, Pair.zero]
          rw [hred]
          refine ⟨hqc, ?_, ?_⟩
          · have : (done.map (fun s => cnt s (q sh).id)).sum = 0 :=
              sum_zero_of_all_zero _ (by
                intro x hx
                rcases List.mem_map.mp hx with ⟨s, hs, rfl⟩
                exact hz s hs _)
            rw [this, hqs]; simp
          · rintro s (hs | hs) r hr
            · have := hz s hs r; omega
            · rw [hs] at hr; exact hqm r hr
      · rcases hq sh with ⟨hq0, hqz⟩ | ⟨hqc, hqs, hqm⟩
        · right
          have hred : minRowReduce acc (q sh) = acc := by
            rw [hq0]; simp only [minRowReduce, Pair.zero]
            have : ¬ (acc.count > 0 ∧ (0 : Nat) > 0) := fun h => absurd h.2 (Nat.lt_irrefl 0)
            simp [hc]
          rw [hred]
          refine ⟨hc, ?_, ?_⟩
          · rw [hqz acc.id]; simpa using hs
          · rintro s (hs' | hs') r hr
            · exact hm s hs' r hr
            · rw [hs'] at hr; have := hqz r; omega
        · right
          by_cases heq : acc.id = (q sh).id
          · have hred : minRowReduce acc (q sh) = ⟨(q sh).id, (q sh).count + acc.count⟩ := by
              simp [minRowReduce, hc, hqc, heq]
            rw [hred]
            refine ⟨by simp only; omega, ?_, ?_⟩
            · simp only; rw [← heq, ← hs, hqs, heq]; omega
            · simp only
              rintro s (hs' | hs') r hr
              · rw [← heq]; exact hm s hs' r hr
              · rw [hs'] at hr; exact hqm r hr
          · by_cases hlt : acc.id < (q sh).id
            · have hred : minRowReduce acc (q sh) = acc := by
                simp [minRowReduce, hc, hqc, heq, hlt]
              rw [hred]
              have hz0 : cnt sh acc.id = 0 := by
                apply Nat.eq_zero_of_not_pos
                intro hp
                have := hqm acc.id hp
                omega
              refine ⟨hc, by rw [hz0]; simpa using hs, ?_⟩
              rintro s (hs' | hs') r hr
              · exact hm s hs' r hr
              · rw [hs'] at hr; have := hqm r hr; omega
            · have hgt : (q sh).id < acc.id := by omega
              have hred : minRowReduce acc (q sh) = q sh := by
                simp [minRowReduce, hc, hqc, heq, hlt]
              rw [hred]
              have hz0 : (done.map (fun s => cnt s (q sh).id)).sum = 0 :=
                sum_zero_of_all_zero _ (by
                  intro x hx
                  rcases List.mem_map.mp hx with ⟨s, hs', rfl⟩
                  apply Nat.eq_zero_of_not_pos
                  intro hp
                  have := hm s hs' _ hp
                  omega)
              refine ⟨hqc, by rw [hz0, hqs]; simp, ?_⟩
              rintro s (hs' | hs') r hr
              · have := hm s hs' r hr; omega
              · rw [hs'] at hr; exact hqm r hr
    have := ih (done ++ [sh]) (minRowReduce acc (q sh)) hstep
    simpa [List.append_assoc] using this

/-- The fold of the MaxRow reducer over shards. -/
theorem maxFold (cnt : Nat → Nat → Nat) (q : Nat → Pair)
    (hq : ∀ sh, (q sh = Pair.zero ∧ ∀ r, cnt sh r = 0) ∨
      ((q sh).count > 0 ∧ (q sh).count = cnt sh (q sh).id ∧ ∀ r, cnt sh r > 0 → r ≤ (q sh).id))
    (shards : List Nat) :
    ∀ (done : List Nat) (acc : Pair),
      ((acc = Pair.zero ∧ ∀ sh ∈ done, ∀ r, cnt sh r = 0) ∨
        (acc.count > 0 ∧ acc.count = (done.map (fun sh => cnt sh acc.id)).sum ∧
          ∀ sh ∈ done, ∀ r, cnt sh r > 0 → r ≤ acc.id)) →
      let res := shards.foldl (fun acc sh => maxRowReduce acc (q sh)) acc
      ((res = Pair.zero ∧ ∀ sh ∈ done ++ shards, ∀ r, cnt sh r = 0) ∨
        (res.count > 0 ∧ res.count = ((done ++ shards).map (fun sh => cnt sh res.id)).sum ∧
          ∀ sh ∈ done ++ shards, ∀ r, cnt sh r > 0 → r ≤ res.id)) := by
  induction shards with
  | nil => intro done acc h; simpa using h
  | cons sh rest ih =>
    intro done acc h
    simp only [List.foldl_cons]
    have hstep : ((maxRowReduce acc (q sh) = Pair.zero ∧ ∀ s ∈ done ++ [sh], ∀ r, cnt s r = 0) ∨
        ((maxRowReduce acc (q sh)).count > 0 ∧
          (maxRowReduce acc (q sh)).count = ((done ++ [sh]).map (fun s => cnt s (maxRowReduce acc (q sh)).id)).sum ∧
          ∀ s ∈ done ++ [sh], ∀ r, cnt s r > 0 → r ≤ (maxRowReduce acc (q sh)).id)) := by
      simp only [List.map_append, List.sum_append, List.map_cons, List.map_nil, List.sum_cons, List.sum_nil,
        Nat.add_zero, List.mem_append, List.mem_cons, List.not_mem_nil, or_false]
      rcases h with ⟨ha, hz⟩ | ⟨hc, hs, hm⟩
      · -- nothing so far
        subst ha
        rcases hq sh with ⟨hq0, hqz⟩ | ⟨hqc, hqs, hqm⟩
        · left
          refine ⟨by rw [hq0]; rfl, ?_⟩
          rintro s (hs | hs) r
          · exact hz s hs r
          · rw [hs]; exact hqz r
        · right
          have hred : maxRowReduce Pair.zero (q sh) = q sh := by simp [maxRowReduce, Pair.zero]
          rw [hred]
          refine ⟨hqc, ?_, ?_⟩
          · have : (done.map (fun s => cnt s (q sh).id)).sum = 0 :=
              sum_zero_of_all_zero _ (by
                intro x hx
                rcases List.mem_map.mp hx with ⟨s, hs, rfl⟩
                exact hz s hs _)
            rw [this, hqs]; simp
          · rintro s (hs | hs) r hr
            · have := hz s hs r; omega
            · rw [hs] at hr; exact hqm r hr
      · rcases hq sh with ⟨hq0, hqz⟩ | ⟨hqc, hqs, hqm⟩
        · right
          have hred : maxRowReduce acc (q sh) = acc := by
            rw [hq0]; simp only [maxRowReduce, Pair.zero]
            have : ¬ (acc.count > 0 ∧ (0 : Nat) > 0) := fun h => absurd h.2 (Nat.lt_irrefl 0)
            simp [hc]
          rw [hred]
          refine ⟨hc, ?_, ?_⟩
          · rw [hqz acc.id]; simpa using hs
          · rintro s (hs' | hs') r hr
            · exact hm s hs' r hr
            · rw [hs'] at hr; have := hqz r; omega
        · right
          by_cases heq : acc.id = (q sh).id
          · have hred : maxRowReduce acc (q sh) = ⟨(q sh).id, (q sh).count + acc.count⟩ := by
              simp [maxRowReduce, hc, hqc, heq]
            rw [hred]
            refine ⟨by simp only; omega, ?_, ?_⟩
            · simp only; rw [← heq, ← hs, hqs, heq]; omega
            · simp only
              rintro s (hs' | hs') r hr
              · rw [← heq]; exact hm s hs' r hr
              · rw [hs'] at hr; exact hqm r hr
          · by_cases hlt : acc.id > (q sh).id
            · have hred : maxRowReduce acc (q sh) = acc := by
                simp [maxRowReduce, hc, hqc, heq, hlt]
              rw [hred]
              have hz0 : cnt sh acc.id = 0 := by
                apply Nat.eq_zero_of_not_pos
                intro hp
                have := hqm acc.id hp
                omega
              refine ⟨hc, by rw [hz0]; simpa using hs, ?_⟩
              rintro s (hs' | hs') r hr
              · exact hm s hs' r hr
              · rw [hs'] at hr; have := hqm r hr; omega
            · have hgt : (q sh).id > acc.id := by omega
              have hred : maxRowReduce acc (q sh) = q sh := by
                simp [maxRowReduce, hc, hqc, heq, hlt]
              rw [hred]
              have hz0 : (done.map (fun s => cnt s (q sh).id)).sum = 0 :=
                sum_zero_of_all_zero _ (by
                  intro x hx
                  rcases List.mem_map.mp hx with ⟨s, hs', rfl⟩
                  apply Nat.eq_zero_of_not_pos
                  intro hp
                  have := hm s hs' _ hp
                  omega)
              refine ⟨hqc, by rw [hz0, hqs]; simp, ?_⟩
              rintro s (hs' | hs') r hr
              · have := hm s hs' r hr; omega
              · rw [hs'] at hr; exact hqm r hr
    have := ih (done ++ [sh]) (maxRowReduce acc (q sh)) hstep
    simpa [List.append_assoc] using this


theorem minRowQ_eq (db : DB) (field : Nat) (filter : Option (Nat → List Nat)) (shards : List Nat) :
    minRowQ db field filter shards =
      shards.foldl (fun acc sh => minRowReduce acc (shardMin db field filter sh)) Pair.zero := by
  unfold minRowQ
  congr 1
  funext acc sh
  unfold shardMin
  cases db.frag ⟨field, none, sh⟩ <;> rfl

theorem maxRowQ_eq (db : DB) (field : Nat) (filter : Option (Nat → List Nat)) (shards : List Nat) :
    maxRowQ db field filter shards =
      shards.foldl (fun acc sh => maxRowReduce acc (shardMax db field filter sh)) Pair.zero := by
  unfold maxRowQ
  congr 1
  funext acc sh
  unfold shardMax
  cases db.frag ⟨field, none, sh⟩ <;> rfl

/-- MinRow / MaxRow through the executor (per-shard `fragment.minRow/maxRow` on the shard's part of
the filter row, reduced over the shards in arrival order): nothing if no shard has a bit inside the
filter; otherwise the smallest / largest row that has one on some shard, with the total number of
its bits inside the filter over all shards. -/
theorem C16_minmax_exec (db : DB) (hwf : db.WF) (field : Nat) (filter : Option (Nat → List Nat))
    (shards : List Nat) :
    let cnt := shardCount db field filter
    let mn := minRowQ db field filter shards
    let mx := maxRowQ db field filter shards
    ((mn = Pair.zero ∧ ∀ sh ∈ shards, ∀ r, cnt sh r = 0) ∨
      (mn.count > 0 ∧ mn.count = (shards.map (fun sh => cnt sh mn.id)).sum ∧
        ∀ sh ∈ shards, ∀ r, cnt sh r > 0 → mn.id ≤ r)) ∧
    ((mx = Pair.zero ∧ ∀ sh ∈ shards, ∀ r, cnt sh r = 0) ∨
      (mx.count > 0 ∧ mx.count = (shards.map (fun sh => cnt sh mx.id)).sum ∧
        ∀ sh ∈ shards, ∀ r, cnt sh r > 0 → r ≤ mx.id)) := by
  intro cnt mn mx
  have hmn : mn = shards.foldl (fun acc sh => minRowReduce acc (shardMin db field filter sh)) Pair.zero :=
    minRowQ_eq db field filter shards
  have hmx : mx = shards.foldl (fun acc sh => maxRowReduce acc (shardMax db field filter sh)) Pair.zero :=
    maxRowQ_eq db field filter shards
  constructor
  · have := minFold cnt (shardMin db field filter) (shardMin_spec db hwf field filter) shards [] Pair.zero
      (Or.inl ⟨rfl, fun sh hsh => absurd hsh (by simp)⟩)
    simp only [List.nil_append] at this
    rw [hmn]
    exact this
  · have := maxFold cnt (shardMax db field filter) (shardMax_spec db hwf field filter) shards [] Pair.zero
      (Or.inl ⟨rfl, fun sh hsh => absurd hsh (by simp)⟩)
    simp only [List.nil_append] at this
    rw [hmx]
    exact this

end MinMaxExec

/-! ### non-vacuity and the repaired behaviours -/

/-- A store with rows in several containers satisfies the hypotheses of C16_rows / C16_minmax. -/
example :
    let s : Store := [(1, 0), (1, 65536), (3, 70000), (9, 5), (3, 2)]
    s.WF ∧ fragRows s 1 (colFilter (some 70000) ++ limFilter (some 2)) = [3] ∧
    fragRows s 0 (colFilter none ++ limFilter (some 2)) = [1, 3] ∧
    minRow s (some [5, 70000]) = (3, 1) ∧ maxRow s none = (9, 1) := by
  refine ⟨?_, by decide, by decide, by decide, by decide⟩
  intro p hp
  simp only [List.mem_cons, List.not_mem_nil, or_false] at hp
  rcases hp with h | h | h | h | h <;> (rw [h]; decide)

/-- A database with a time field over two days and two shards satisfies `DB.WF`; Rows with a limit
takes the smallest rows although they live in the later view. -/
example :
    let db : DB := { timeFields := [3], frags :=
      [(⟨3, none, 0⟩, [(5, 1), (6, 1), (1, 1), (2, 1)]), (⟨3, some 0, 0⟩, [(5, 1), (6, 1)]),
       (⟨3, some 1, 0⟩, [(1, 1), (2, 1)]), (⟨3, some 1, 1⟩, [(4, 0)])] }
    rows db { field := 3, limit := some 2, fromDay := some 0, toDay := some 3 } [0, 1] = [1, 2] ∧
    rows db { field := 3, previous := some 2, fromDay := some 0 } [0, 1] = [4, 5, 6] := by decide

namespace Legacy

/-- `fragment.maxRow` before the repair: without a filter it answered (maxRowID, 1), with a filter it
walked down from maxRowID; maxRowID is a high-water mark raised only by setBit. -/
def maxRow (s : Store) (maxRowID : Nat) (filter : Option (List Nat)) : Nat × Nat :=
  if s.isEmpty then (0, 0)
  else match filter with
    | none => (maxRowID, 1)
    | some _ => firstWith s filter ((List.range (maxRowID + 1)).reverse)

/-- executeGroupBy before the repair: the merge kept `limit` groups, then the offset was applied. -/
def groupBySlice (all : List PV.C17.GroupCount) (o l : Nat) : List PV.C17.GroupCount :=
  let merged := all.take l
  let res := if o < merged.length then merged.drop o else merged
  if l < res.length then res.take l else res

end Legacy

/-- Old behaviour (DESIGN section 8 #11): set then clear a bit in row 9 (maxRowID stays 9):
maxRow(nil) answered (9, 1) while the only row with a bit is 1; and after an import (maxRowID
still 0) MaxRow with a filter found nothing. The repaired function answers (1, 1) and (7, 1). -/
theorem C16_maxRow_highwater_witness :
    Legacy.maxRow [(1, 0)] 9 none = (9, 1) ∧ PV.C16.maxRow [(1, 0)] none = (1, 1) ∧
    Legacy.maxRow [(3, 1), (7, 1)] 0 (some [1]) = (0, 0) ∧ PV.C16.maxRow [(3, 1), (7, 1)] (some [1]) = (7, 1) := by
  decide

/-- Old behaviour: GroupBy(limit=2, offset=1) over six groups returned one group, offset=2 returned
the first page again; the repaired slicing returns groups 1-2 and 2-3. -/
theorem C16_groupBy_offset_witness :
    let g (i : Nat) : PV.C17.GroupCount := ⟨[i], 1⟩
    let all := [g 0, g 1, g 2, g 3, g 4, g 5]
    Legacy.groupBySlice all 1 2 = [g 1] ∧ Legacy.groupBySlice all 2 2 = [g 0, g 1] ∧
    (all.drop 1).take 2 = [g 1, g 2] ∧ (all.drop 2).take 2 = [g 2, g 3] := by
  decide

end PV.C16
