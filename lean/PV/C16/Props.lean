/-
C16 property theorems.  Core Lean only.

Property (properties.jsonl C16): Rows returns the distinct row ids, ascending, that have at least
one bit (in the given column and time range), honouring previous and limit; GroupBy returns every
row combination with a non-zero count, ascending, exact counts, and pages via limit, offset or
previous concatenate to the unpaged result; MinRow and MaxRow return the smallest and largest row
that has at least one bit (within the filter).
-/
import PV.C16.Lemmas3
namespace PV.C16
open List

/-- Columns of a fragment are columns inside the shard. -/
def Store.WF (s : Store) : Prop := ∀ p ∈ s, p.2 < shardWidth

/-! ### Rows on one fragment: the filter chain walk -/

theorem mem_spec_fragRows (s : Store) (start : Nat) (col : Option Nat) (x : Nat) :
    x ∈ Spec.fragRows s start col none ↔
      (∃ p ∈ s, p.1 = x) ∧ x ≥ start ∧ (∀ c, col = some c → (x, c) ∈ s) := by
  simp only [Spec.fragRows, List.mem_filter, Spec.storeRows, mem_sortDedup, List.mem_map,
    Bool.and_eq_true, decide_eq_true_eq]
  constructor
  · rintro ⟨hp, hst, hc⟩
    refine ⟨hp, hst, ?_⟩
    intro c hcol
    subst hcol
    simpa [Store.has] using hc
  · rintro ⟨hp, hst, hc⟩
    refine ⟨hp, hst, ?_⟩
    cases col with
    | none => rfl
    | some c => simpa [Store.has] using hc c rfl

/-- `fragment.rows(start, [filterColumn(col)], [filterWithLimit(limit)])` — the chain built by
executeRowsShard — returns exactly the rows ≥ start that have a bit (at the column, if given),
ascending and duplicate-free, cut after `limit` rows.  Full strength: any store, any start, any
column, any limit; the stateful limit filter and the container-wise evaluation included. -/
theorem C16_rows (s : Store) (hwf : s.WF) (start : Nat) (col limit : Option Nat)
    (hcol : ∀ c, col = some c → c < shardWidth) :
    fragRows s start (colFilter col ++ limFilter limit) = Spec.fragRows s start col limit := by
  let cs := (conts s).filter (fun kc => kc.1 ≥ start * contsPerRow)
  have hsorted := conts_rows_sorted s start
  -- the walk without the limit is the specification without the limit
  have hwalk : walk col cs none = Spec.fragRows s start col none := by
    apply sorted_ext
    · exact (walk_sound col cs none hsorted (fun _ _ => trivial)).1
    · simp only [Spec.fragRows]
      exact (sorted_sortDedup _).filter _
    · intro x
      rw [mem_walk_none col cs hsorted x, mem_spec_fragRows]
      constructor
      · rintro ⟨kc, hkc, hrow, hpass⟩
        have hmem := List.mem_filter.mp hkc
        obtain ⟨⟨p, hp, hkey⟩, hbits⟩ := (mem_conts s kc).mp hmem.1
        have hge : kc.1 ≥ start * contsPerRow := by simpa using hmem.2
        have hpx : p.1 = x := by
          rw [← hrow, rowOfC, ← hkey]; exact (keyOf_div p (hwf p hp)).symm
        refine ⟨⟨p, hp, hpx⟩, ?_, ?_⟩
        · rw [← hrow, rowOfC]
          exact (Nat.le_div_iff_mul_le (by decide)).mpr hge
        · intro c hc
          subst hc
          simp only [passC, Bool.and_eq_true, decide_eq_true_eq] at hpass
          have h1 : (rowOfC kc, c) ∈ kc.2 := by simpa using hpass.2
          rw [hbits] at h1
          have h2 := (List.mem_filter.mp h1).1
          rw [hrow] at h2
          exact h2
      · rintro ⟨⟨p, hp, hpx⟩, hstart, hc⟩
        cases col with
        | none =>
          refine ⟨(keyOf p, s.filter (fun q => keyOf q == keyOf p)), ?_, ?_, rfl⟩
          · apply List.mem_filter.mpr
            refine ⟨(mem_conts s _).mpr ⟨⟨p, hp, rfl⟩, rfl⟩, ?_⟩
            have h1 : keyOf p / contsPerRow = p.1 := keyOf_div p (hwf p hp)
            have h2 : start * contsPerRow ≤ keyOf p := by
              apply (Nat.le_div_iff_mul_le (by decide)).mp
              rw [h1, hpx]; exact hstart
            simpa using h2
          · simp only [rowOfC]; rw [keyOf_div p (hwf p hp)]; exact hpx
        | some c =>
          have hcb : c < shardWidth := hcol c rfl
          have hxc : (x, c) ∈ s := hc c rfl
          have hdiv : keyOf (x, c) / contsPerRow = x := keyOf_div (x, c) hcb
          refine ⟨(keyOf (x, c), s.filter (fun q => keyOf q == keyOf (x, c))), ?_, ?_, ?_⟩
          · apply List.mem_filter.mpr
            refine ⟨(mem_conts s _).mpr ⟨⟨(x, c), hxc, rfl⟩, rfl⟩, ?_⟩
            have h2 : start * contsPerRow ≤ keyOf (x, c) := by
              apply (Nat.le_div_iff_mul_le (by decide)).mp
              rw [hdiv]; exact hstart
            simpa using h2
          · simp only [rowOfC]; exact hdiv
          · simp only [passC, rowOfC, hdiv, Bool.and_eq_true, decide_eq_true_eq]
            refine ⟨rfl, ?_⟩
            have h3 : (x, c) ∈ s.filter (fun q => keyOf q == keyOf (x, c)) :=
              List.mem_filter.mpr ⟨hxc, by simp⟩
            simpa using h3
  cases limit with
  | none =>
    simp only [limFilter, List.append_nil]
    show rowsLoop cs (colFilter col) none = _
    rw [rowsLoop_col, hwalk]
  | some l =>
    simp only [limFilter]
    show rowsLoop cs (colFilter col ++ [Filter.limit l]) none = _
    rw [rowsLoop_col_lim, hwalk]
    rfl

/-! ### MinRow / MaxRow on one fragment -/

theorem firstWith_spec (s : Store) (f : Option (List Nat)) (l : List Nat) :
    ((firstWith s f l) = (0, 0) ∧ ∀ r ∈ l, rowCount s r f = 0) ∨
    ∃ pre r post, l = pre ++ r :: post ∧ (∀ x ∈ pre, rowCount s x f = 0) ∧ rowCount s r f > 0 ∧
      firstWith s f l = (r, rowCount s r f) := by
  induction l with
  | nil => left; exact ⟨rfl, fun r hr => absurd hr (by simp)⟩
  | cons a rest ih =>
    unfold firstWith
    by_cases ha : rowCount s a f > 0
    · right
      refine ⟨[], a, rest, rfl, fun x hx => absurd hx (by simp), ha, ?_⟩
      simp only [ha, if_true]
    · simp only [ha, if_false]
      have ha0 : rowCount s a f = 0 := by omega
      rcases ih with ⟨h1, h2⟩ | ⟨pre, r, post, h1, h2, h3, h4⟩
      · left
        refine ⟨h1, fun r hr => ?_⟩
        rcases List.mem_cons.mp hr with e | hr'
        · rw [e]; exact ha0
        · exact h2 r hr'
      · right
        refine ⟨a :: pre, r, post, by rw [h1]; rfl, ?_, h3, h4⟩
        intro x hx
        rcases List.mem_cons.mp hx with e | hx'
        · rw [e]; exact ha0
        · exact h2 x hx'

theorem rowCount_of_no_bits (s : Store) (r : Nat) (f : Option (List Nat)) (h : ∀ p ∈ s, p.1 ≠ r) :
    rowCount s r f = 0 := by
  have : s.row r = [] := by
    simp only [Store.row, List.map_eq_nil_iff, List.filter_eq_nil_iff]
    intro p hp
    simpa using h p hp
  cases f with
  | none => simp [rowCount, this]
  | some flt => simp [rowCount, interCount, this]

theorem fragRows_all (s : Store) (hwf : s.WF) : fragRows s 0 [] = Spec.storeRows s := by
  have := C16_rows s hwf 0 none none (fun c h => by cases h)
  simp only [colFilter, limFilter, List.append_nil] at this
  rw [this]
  simp [Spec.fragRows]

/-- MinRow / MaxRow on a fragment (`fragment.minRow` / `maxRow`, any filter row or none): if some
row has a bit inside the filter, the result is the smallest / largest such row together with its
number of bits inside the filter; otherwise (0, 0).  Full strength: no high-water mark. -/
theorem C16_minmax (s : Store) (hwf : s.WF) (filter : Option (List Nat)) :
    (((minRow s filter) = (0, 0) ∧ ∀ r, rowCount s r filter = 0) ∨
      (∃ m, minRow s filter = (m, rowCount s m filter) ∧ rowCount s m filter > 0 ∧
        ∀ r, rowCount s r filter > 0 → m ≤ r)) ∧
    (((maxRow s filter) = (0, 0) ∧ ∀ r, rowCount s r filter = 0) ∨
      (∃ m, maxRow s filter = (m, rowCount s m filter) ∧ rowCount s m filter > 0 ∧
        ∀ r, rowCount s r filter > 0 → r ≤ m)) := by
  have hrows := fragRows_all s hwf
  have hsorted : (Spec.storeRows s).Pairwise (· < ·) := sorted_sortDedup _
  have hmem : ∀ r, r ∉ Spec.storeRows s → rowCount s r filter = 0 := by
    intro r hr
    apply rowCount_of_no_bits
    intro p hp e
    apply hr
    simp only [Spec.storeRows, mem_sortDedup, List.mem_map]
    exact ⟨p, hp, e⟩
  have hzero : ∀ l : List Nat, (∀ r, r ∈ l ↔ r ∈ Spec.storeRows s) → (∀ r ∈ l, rowCount s r filter = 0) →
      ∀ r, rowCount s r filter = 0 := by
    intro l hl h0 r
    by_cases hr : r ∈ Spec.storeRows s
    · exact h0 r ((hl r).mpr hr)
    · exact hmem r hr
  constructor
  · unfold minRow
    rw [hrows]
    rcases firstWith_spec s filter (Spec.storeRows s) with ⟨h1, h2⟩ | ⟨pre, m, post, h1, h2, h3, h4⟩
    · left; exact ⟨h1, hzero _ (fun _ => Iff.rfl) h2⟩
    · right
      refine ⟨m, h4, h3, ?_⟩
      intro r hr
      by_cases hrm : r ∈ Spec.storeRows s
      · rw [h1] at hrm hsorted
        rcases List.mem_append.mp hrm with hp | hp
        · have := h2 r hp; omega
        · rcases List.mem_cons.mp hp with e | hp'
          · omega
          · have := (List.pairwise_cons.mp (List.pairwise_append.mp hsorted).2.1).1 r hp'
            omega
      · have := hmem r hrm; omega
  · unfold maxRow
    rw [hrows]
    have hsr : (Spec.storeRows s).reverse.Pairwise (· > ·) := List.pairwise_reverse.mpr hsorted
    rcases firstWith_spec s filter (Spec.storeRows s).reverse with ⟨h1, h2⟩ | ⟨pre, m, post, h1, h2, h3, h4⟩
    · left; exact ⟨h1, hzero _ (fun r => List.mem_reverse) h2⟩
    · right
      refine ⟨m, h4, h3, ?_⟩
      intro r hr
      by_cases hrm : r ∈ Spec.storeRows s
      · have hrm' : r ∈ (Spec.storeRows s).reverse := List.mem_reverse.mpr hrm
        rw [h1] at hrm' hsr
        rcases List.mem_append.mp hrm' with hp | hp
        · have := h2 r hp; omega
        · rcases List.mem_cons.mp hp with e | hp'
          · omega
          · have := (List.pairwise_cons.mp (List.pairwise_append.mp hsr).2.1).1 r hp'
            omega
      · have := hmem r hrm; omega

end PV.C16
