/-
pm_c16: model driver for C16.  A case starts with `fopen` (one stand-alone fragment) or `srv`
(an index with set fields a b c d, a time field t (quantum D), a filter field g; shards 0 1 2).

fragment lines
  fset|fclear <row> <col>                         -> true|false
  fimport|fimportclear|froaring|froaringclear <row:col,...> | fclearrow <row>   -> ok
  frows start=<n> col=<c|-> limit=<l|-> ids=<csv|->   -> [rows]      (fragment.rows with the filter chain)
  fminrow|fmaxrow filter=<cols|none>              -> id:count
server lines (fields a b c t; cols are columns inside the shard; day d = 2001-01-(d+1))
  set|clear <f> <shard> <row> <col>               -> true|false
  tset <shard> <row> <col> <day>                  -> true|false
  imp|impclear|roar|roarclear <f> <shard> <row:col,...>   -> ok
  gset <shard> <col>                              -> ok
  rows <f> prev=<p|-> limit=<l|-> col=<shard:c|-> from=<d|-> to=<d|->   -> [rows]
  pagerows <f> limit=<l> col=.. from=.. to=..     -> [rows] pages=<k>   (previous/limit loop to exhaustion)
  groupby <f,f,..> prev=<a.b|-> limit=<l|-> offset=<o|-> filter=<g|-> climit=<i:l|-> ccol=<i:shard:c|->
  pagegroup <f,..> limit=<l> filter=<g|->         -> groups pages=<k>   (previous loop)
  pageoffset <f,..> limit=<l> filter=<g|->        -> groups pages=<k>   (offset loop)
  minrow|maxrow <f> filter=<g|->                  -> id:count
groups are printed `r.r:count` separated by blanks, `-` when empty.
-/
import PV.Common.Proto
import PV.C16.Model
import PV.C16.Spec
open PV.Proto PV.C16
open PV.C17 (GroupCount Pair)

structure St where
  mode : Nat := 0            -- 0 none, 1 fragment, 2 server
  frag : Store := []
  db : DB := {}
  filt : List (Nat × Nat) := []   -- (shard, col) of g=0

def shards : List Nat := [0, 1, 2]

def fieldNo : String → Option Nat
  | "a" => some 0 | "b" => some 1 | "c" => some 2 | "t" => some 3 | "d" => some 4 | _ => none

def parseBits (s : String) : Option (List (Nat × Nat)) :=
  if s = "-" || s = "" then some [] else
  (s.splitOn ",").mapM (fun x => match x.splitOn ":" with
    | [r, c] => do pure (← r.toNat?, ← c.toNat?)
    | _ => none)

def kv (w key : String) : Option String :=
  if w.startsWith (key ++ "=") then some (w.drop (key.length + 1)).toString else none

def optNat (s : String) : Option (Option Nat) :=
  if s = "-" then some none else s.toNat?.map some

def showGCs (gs : List GroupCount) : String :=
  if gs.isEmpty then "-" else
  " ".intercalate (gs.map (fun g => ".".intercalate (g.group.map toString) ++ ":" ++ toString g.count))

def showPair (p : Pair) : String := s!"{p.id}:{p.count}"

def filterFn (st : St) : Nat → List Nat := fun sh => (st.filt.filter (·.1 = sh)).map (·.2)

def setMany (s : Store) (bits : List (Nat × Nat)) : Store := bits.foldl (fun s p => s.set p.1 p.2) s
def clearMany (s : Store) (bits : List (Nat × Nat)) : Store := bits.foldl (fun s p => s.clear p.1 p.2) s

def parseCol (s : String) : Option (Option Nat) :=
  if s = "-" then some none else
  match s.splitOn ":" with
  | [sh, c] => do pure (some ((← sh.toNat?) * shardWidth + (← c.toNat?)))
  | _ => none

def parseRowsArgs (f : Nat) (ws : List String) (withPrev : Bool) : Option RowsArgs :=
  match withPrev, ws with
  | true, [p, l, c, fr, to] => do
    pure { field := f, previous := ← optNat (← kv p "prev"), limit := ← optNat (← kv l "limit"),
           column := ← parseCol (← kv c "col"), fromDay := ← optNat (← kv fr "from"), toDay := ← optNat (← kv to "to") }
  | false, [l, c, fr, to] => do
    pure { field := f, limit := ← optNat (← kv l "limit"),
           column := ← parseCol (← kv c "col"), fromDay := ← optNat (← kv fr "from"), toDay := ← optNat (← kv to "to") }
  | _, _ => none

/-- previous/limit paging loop of Rows. -/
def pageRows (db : DB) (a : RowsArgs) : Nat → Option Nat → List Nat → Nat → Option (List Nat × Nat)
  | 0, _, _, _ => none
  | fuel + 1, prev, acc, pages =>
    let page := rows db { a with previous := prev } shards
    match page.getLast? with
    | none => some (acc, pages)
    | some last => pageRows db a fuel (some last) (acc ++ page) (pages + 1)

def withPrev (chs : List ChildArgs) (t : Option (List Nat)) : List ChildArgs :=
  match t with
  | none => chs
  | some t => (chs.zip t).map (fun (ch, p) => { ch with previous := some p })

def pageGroup (db : DB) (a : GroupByArgs) : Nat → Option (List Nat) → List GroupCount → Nat → Option (List GroupCount × Nat)
  | 0, _, _, _ => none
  | fuel + 1, prev, acc, pages =>
    let page := groupBy db { a with children := withPrev a.children prev } shards
    match page.getLast? with
    | none => some (acc, pages)
    | some last => pageGroup db a fuel (some last.group) (acc ++ page) (pages + 1)

def pageOffset (db : DB) (a : GroupByArgs) (l : Nat) : Nat → Nat → List GroupCount → Nat → Option (List GroupCount × Nat)
  | 0, _, _, _ => none
  | fuel + 1, off, acc, pages =>
    let page := groupBy db { a with offset := some off } shards
    if page.isEmpty then some (acc, pages) else pageOffset db a l fuel (off + l) (acc ++ page) (pages + 1)

def parseFields (s : String) : Option (List Nat) := (s.splitOn ",").mapM fieldNo

def parsePrevTuple (s : String) : Option (Option (List Nat)) :=
  if s = "-" then some none else ((s.splitOn ".").mapM String.toNat?).map some

def parseChildOpt (s : String) : Option (Option (Nat × Nat)) :=
  if s = "-" then some none else
  match s.splitOn ":" with
  | [i, l] => do pure (some (← i.toNat?, ← l.toNat?))
  | _ => none

def parseChildCol (s : String) : Option (Option (Nat × Nat)) :=
  if s = "-" then some none else
  match s.splitOn ":" with
  | [i, sh, c] => do pure (some (← i.toNat?, (← sh.toNat?) * shardWidth + (← c.toNat?)))
  | _ => none

def pagesOf (len l : Nat) : Nat := if l = 0 then 0 else (len + l - 1) / l

def step (st : St) (ws : List String) : St × Ans :=
  let bad := (st, ans "bad-op")
  match ws with
  | ["fopen"] => ({ mode := 1 }, ans "ok")
  | ["srv"] => ({ mode := 2, db := { timeFields := [3] } }, ans "ok")
  | _ =>
  if st.mode = 1 then
    match ws with
    | ["fset", r, c] =>
      match r.toNat?, c.toNat? with
      | some r, some c => ({ st with frag := st.frag.set r c }, ans (showBool (!st.frag.has r c)))
      | _, _ => bad
    | ["fclear", r, c] =>
      match r.toNat?, c.toNat? with
      | some r, some c => ({ st with frag := st.frag.clear r c }, ans (showBool (st.frag.has r c)))
      | _, _ => bad
    | ["fclearrow", r] =>
      match r.toNat? with
      | some r => ({ st with frag := st.frag.clearRow r }, ans "ok")
      | none => bad
    | [op, arg] =>
      if op = "fminrow" ∨ op = "fmaxrow" then
        match kv arg "filter" with
        | some f =>
          match (if f = "none" then some none else (csvNats? f).map some) with
          | some flt =>
            let spec (rs : List Nat) : String :=
              match rs.find? (fun r => rowCount st.frag r flt > 0) with
              | none => "0:0"
              | some r => s!"{r}:{rowCount st.frag r flt}"
            if op = "fminrow" then
              let m := minRow st.frag flt
              (st, ans2 s!"{m.1}:{m.2}" (spec (Spec.storeRows st.frag)) "fminrow")
            else
              let m := maxRow st.frag flt
              (st, ans2 s!"{m.1}:{m.2}" (spec (Spec.storeRows st.frag).reverse) "fmaxrow")
          | none => bad
        | none => bad
      else
        match parseBits arg with
        | some bits =>
          if op = "fimport" ∨ op = "froaring" then ({ st with frag := setMany st.frag bits }, ans "ok")
          else if op = "fimportclear" ∨ op = "froaringclear" then ({ st with frag := clearMany st.frag bits }, ans "ok")
          else bad
        | none => bad
    | ["frows", s, c, l, ids] =>
      match (kv s "start").bind String.toNat?, (kv c "col").bind optNat, (kv l "limit").bind optNat, (kv ids "ids").bind csvNats? with
      | some start, some col, some lim, some ids =>
        let fs := (match col with | some c => [Filter.column c] | none => []) ++
                  (if ids.isEmpty then [] else [Filter.rows ids 0]) ++
                  (match lim with | some l => [Filter.limit l] | none => [])
        let m := fragRows st.frag start fs
        let base := Spec.fragRows st.frag start col none
        let base := if ids.isEmpty then base else base.filter ids.contains
        let spec := match lim with | some l => base.take l | none => base
        (st, ans2 (showNats m) (showNats spec) "frows")
      | _, _, _, _ => bad
    | _ => bad
  else if st.mode = 2 then
    match ws with
    | [op, f, sh, r, c] =>
      match fieldNo f, sh.toNat?, r.toNat?, c.toNat? with
      | some f, some sh, some r, some c =>
        let id : FragId := ⟨f, none, sh⟩
        let cur := (st.db.frag id).getD []
        if op = "set" then ({ st with db := st.db.update id (·.set r c) }, ans (showBool (!cur.has r c)))
        else if op = "clear" then
          -- Clear never creates a fragment
          if (st.db.frag id).isNone then (st, ans "false")
          else ({ st with db := st.db.update id (·.clear r c) }, ans (showBool (cur.has r c)))
        else if op = "tset" then bad
        else bad
      | none, _, _, _ =>
        -- tset <shard> <row> <col> <day>
        if op = "tset" then
          match f.toNat?, sh.toNat?, r.toNat?, c.toNat? with
          | some sh, some r, some c, some d =>
            let idS : FragId := ⟨3, none, sh⟩
            let idD : FragId := ⟨3, some d, sh⟩
            let changed := !((st.db.frag idS).getD []).has r c || !((st.db.frag idD).getD []).has r c
            ({ st with db := (st.db.update idS (·.set r c)).update idD (·.set r c) }, ans (showBool changed))
          | _, _, _, _ => bad
        else bad
      | _, _, _, _ => bad
    | [op, f, sh, bits] =>
      match fieldNo f, sh.toNat?, parseBits bits with
      | some f, some sh, some bits =>
        let id : FragId := ⟨f, none, sh⟩
        if op = "imp" ∨ op = "roar" then ({ st with db := st.db.update id (setMany · bits) }, ans "ok")
        else if op = "impclear" ∨ op = "roarclear" then ({ st with db := st.db.update id (clearMany · bits) }, ans "ok")
        else bad
      | _, _, _ =>
        if op = "pageoffset" ∨ op = "pagegroup" then
          match parseFields f, (kv sh "limit").bind String.toNat?, kv bits "filter" with
          | some fields, some l, some flt =>
            let a : GroupByArgs := { children := fields.map (fun f => { field := f }), limit := some l,
                                     filter := if flt = "g" then some (filterFn st) else none }
            let res := if op = "pageoffset" then pageOffset st.db a l 300 0 [] 0 else pageGroup st.db a 300 none [] 0
            let full := Spec.groupBy st.db { a with limit := none } shards
            match res with
            | some (gs, pages) =>
              (st, ans2 (showGCs gs ++ s!" pages={pages}") (showGCs full ++ s!" pages={pagesOf full.length l}") op)
            | none => (st, ans2 "err:fuel" (showGCs full ++ s!" pages={pagesOf full.length l}") op)
          | _, _, _ => bad
        else bad
    | ["gset", sh, c] =>
      match sh.toNat?, c.toNat? with
      | some sh, some c => ({ st with filt := if st.filt.contains (sh, c) then st.filt else (sh, c) :: st.filt }, ans "ok")
      | _, _ => bad
    | "rows" :: f :: rest =>
      match fieldNo f with
      | some f =>
        match parseRowsArgs f rest true with
        | some a => (st, ans2 (showNats (rows st.db a shards)) (showNats (Spec.rows st.db a shards)) "rows")
        | none => bad
      | none => bad
    | "pagerows" :: f :: rest =>
      match fieldNo f with
      | some f =>
        match parseRowsArgs f rest false with
        | some a =>
          let full := Spec.rows st.db { a with limit := none } shards
          let l := a.limit.getD 0
          let spec := showNats full ++ s!" pages={pagesOf full.length l}"
          match pageRows st.db a 80 none [] 0 with
          | some (rs, pages) => (st, ans2 (showNats rs ++ s!" pages={pages}") spec "pagerows")
          | none => (st, ans2 "err:fuel" spec "pagerows")
        | none => bad
      | none => bad
    | ["groupby", fs, p, l, o, flt, cl, cc] =>
      match parseFields fs, (kv p "prev").bind parsePrevTuple, (kv l "limit").bind optNat, (kv o "offset").bind optNat,
            kv flt "filter", (kv cl "climit").bind parseChildOpt, (kv cc "ccol").bind parseChildCol with
      | some fields, some prev, some lim, some off, some flt, some cl, some cc =>
        let chs : List ChildArgs := (fields.zipIdx).map (fun (f, i) =>
          { field := f,
            limit := (match cl with | some (j, l) => if j = i then some l else none | none => none),
            column := (match cc with | some (j, c) => if j = i then some c else none | none => none) })
        let chs := withPrev chs prev
        let a : GroupByArgs := { children := chs, limit := lim, offset := off,
                                 filter := if flt = "g" then some (filterFn st) else none }
        (st, ans2 (showGCs (groupBy st.db a shards)) (showGCs (Spec.groupBy st.db a shards)) "groupby")
      | _, _, _, _, _, _, _ => bad
    | [op, f, flt] =>
      match fieldNo f, kv flt "filter" with
      | some f, some flt =>
        let filter := if flt = "g" then some (filterFn st) else none
        if op = "minrow" then
          (st, ans2 (showPair (minRowQ st.db f filter shards)) (showPair (Spec.minRow st.db f filter shards)) "minrow")
        else if op = "maxrow" then
          (st, ans2 (showPair (maxRowQ st.db f filter shards)) (showPair (Spec.maxRow st.db f filter shards)) "maxrow")
        else bad
      | _, _ => bad
    | _ => bad
  else bad

def main : IO Unit := run ({} : St) step
