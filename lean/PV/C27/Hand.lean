/-
C27 — the part of the codec the translator does not translate (maps, sort, type switches on
attribute values, methods of Row), modelled by hand on the generated structures,
with their round-trip and no-panic lemmas, and the canonical-form hooks.

The translator checks the fingerprint lines below against the current Go source of each function:
after an edit of one of them it fails until the model here has been re-inspected and the line updated.

-- fingerprint decodeAttr 65e52e4a625bcdcff404917ba29ebf66803abe88
-- fingerprint decodeAttrs 0df2d14d7329ae6002b6ce25de6580d118f318d1
-- fingerprint decodeImportRoaringRequest 75af5fd9a5bbe58bd7265861050324a90b5185c0
-- fingerprint decodeRow 4e59a7948692805ae4a7b38a5321005d2f098116
-- fingerprint encodeAttr 6fef8d1a2e75fb972458e1da6c94e66f71ce5f8f
-- fingerprint encodeAttrs ac914f397f823e04b41c0a59d56aacd4322e8b62
-- fingerprint encodeImportRoaringRequest db40137ef51a5deb097dc8ce6f9c91299f9c60e7
-- fingerprint encodeRow 393980bab04146c4acbd7df46fa711085c0afa52
-/
import PV.C27.GenTypes
namespace PV.C27

/-! ## Attributes -/

/-- `encodeAttr`: the type switch on the dynamic value. `uint64` is stored as an int. -/
def encodeAttr (key : String) (value : AttrVal) : I.Attr :=
  match value with
  | .str s => { Key := key, Type_ := 1, StringValue := s }
  | .float f => { Key := key, Type_ := 4, FloatValue := f }
  | .uint u => { Key := key, Type_ := 2, IntValue := u.toInt64 }
  | .int i => { Key := key, Type_ := 2, IntValue := i }
  | .bool b => { Key := key, Type_ := 3, BoolValue := b }
  | .null => { Key := key }

/-- `encodeAttrs`: one Attr per key, keys in sorted order (the association list is kept sorted). -/
def encodeAttrs (m : Attrs) : List I.Attr := m.map (fun kv => encodeAttr kv.1 kv.2)

def decodeAttr (attr : I.Attr) : String × AttrVal :=
  if attr.Type_ = 1 then (attr.Key, .str attr.StringValue)
  else if attr.Type_ = 2 then (attr.Key, .int attr.IntValue)
  else if attr.Type_ = 3 then (attr.Key, .bool attr.BoolValue)
  else if attr.Type_ = 4 then (attr.Key, .float attr.FloatValue)
  else (attr.Key, .null)

/-- `decodeAttrs`: `m[key] = value` for every Attr in order. -/
def decodeAttrs (pb : List I.Attr) : Outcome Attrs :=
  pure (pb.foldl (fun m a => insertKey (decodeAttr a).1 (decodeAttr a).2 m) [])

/-- The dynamic value that comes back: `uint64` arrives as `int64`. -/
def canonAttrVal : AttrVal → AttrVal
  | .uint u => .int u.toInt64
  | v => v

def canonAttrs (m : Attrs) : Attrs :=
  m.foldl (fun acc kv => insertKey kv.1 (canonAttrVal kv.2) acc) []

theorem decodeAttr_encodeAttr (k : String) (v : AttrVal) :
    decodeAttr (encodeAttr k v) = (k, canonAttrVal v) := by
  cases v <;> simp [encodeAttr, decodeAttr, canonAttrVal]

theorem foldl_map_attrs (m : Attrs) (acc : Attrs) :
    (m.map (fun kv => encodeAttr kv.1 kv.2)).foldl
        (fun m a => insertKey (decodeAttr a).1 (decodeAttr a).2 m) acc =
      m.foldl (fun acc kv => insertKey kv.1 (canonAttrVal kv.2) acc) acc := by
  induction m generalizing acc with
  | nil => rfl
  | cons kv rest ih =>
    simp only [List.map_cons, List.foldl_cons, decodeAttr_encodeAttr]
    exact ih _

@[simp] theorem rt_decodeAttrs (m : Attrs) : decodeAttrs (encodeAttrs m) = .ok (canonAttrs m) := by
  simp only [decodeAttrs, encodeAttrs, canonAttrs, foldl_map_attrs]
  rfl

theorem total_decodeAttrs (pb : List I.Attr) : NoPanic (decodeAttrs pb) := rfl

/-! ## Row -/

def encodeRow (r : Option P.Row) : Option I.Row :=
  r.map (fun r => { Columns := r.Columns, Keys := r.Keys, Attrs := encodeAttrs r.Attrs })

/-- `decodeRow`: `NewRow()`, attrs, keys, then `SetBit` for every column. -/
def decodeRow (pr : Option I.Row) : Outcome (Option P.Row) :=
  match pr with
  | none => pure none
  | some pr => do
    let attrs ← decodeAttrs pr.Attrs
    pure (some { Attrs := attrs, Keys := pr.Keys, Columns := setOfList pr.Columns })

def canonRow (r : P.Row) : P.Row :=
  { r with Columns := setOfList r.Columns, Attrs := canonAttrs r.Attrs }

@[simp] theorem rt_decodeRow (r : Option P.Row) : decodeRow (encodeRow r) = .ok (r.map canonRow) := by
  cases r with
  | none => rfl
  | some r =>
    simp only [encodeRow, Option.map_some, decodeRow, rt_decodeAttrs, canonRow]
    rfl

theorem total_decodeRow (pr : Option I.Row) : NoPanic (decodeRow pr) := by
  cases pr with
  | none => rfl
  | some pr => exact noPanic_bind (total_decodeAttrs _) (fun _ => noPanic_pure _)

/-! ## ImportRoaringRequest (map of views) -/

/-- `encodeImportRoaringRequest`: one view message per map entry (Go iterates the map in an
arbitrary order; the decoder rebuilds a map, so the order is not observable). -/
def encodeImportRoaringRequest (m : P.ImportRoaringRequest) : I.ImportRoaringRequest :=
  { Clear := m.Clear, Views := m.Views.map (fun kv => { Name := kv.1, Data := kv.2 }) }

def decodeImportRoaringRequest (pb : Option I.ImportRoaringRequest) (m : P.ImportRoaringRequest) :
    Outcome P.ImportRoaringRequest :=
  match pb with
  | none => throw (.panic "decodeImportRoaringRequest: nil pointer dereference of pb")
  | some pb =>
    pure { m with Clear := pb.Clear,
                  Views := pb.Views.foldl (fun acc v => insertKey v.Name v.Data acc) [] }

def canonViews (m : ViewsMap) : ViewsMap := m.foldl (fun acc kv => insertKey kv.1 kv.2 acc) []

theorem foldl_map_views (m : ViewsMap) (acc : ViewsMap) :
    (m.map (fun kv => ({ Name := kv.1, Data := kv.2 } : I.ImportRoaringRequestView))).foldl
        (fun acc v => insertKey v.Name v.Data acc) acc =
      m.foldl (fun acc kv => insertKey kv.1 kv.2 acc) acc := by
  induction m generalizing acc with
  | nil => rfl
  | cons kv rest ih => simp only [List.map_cons, List.foldl_cons]; exact ih _

/-! ## Canonical-form hooks

`code = true`: what the codec does (the theorems are stated with it);
`code = false`: what the property allows (the specification side of the driver).
They differ exactly at the recorded findings. -/

/-- FINDING `schema-index-options-dropped`: internal.Index has no field for the index options
(keys, trackExistence) nor the shard width: a schema sent in NodeStatus / ResizeInstruction
loses them. -/
def hook_IndexInfo (code : Bool) (v : P.IndexInfo) : P.IndexInfo :=
  if code then { v with Options := {}, ShardWidth := 0 } else v

/-- Not part of the message: the index travels in the URL path. -/
def hook_QueryRequest (_code : Bool) (v : P.QueryRequest) : P.QueryRequest := { v with Index := "" }

/-- A nil `Meta` and all-default options are the same message. -/
def hook_CreateFieldMessage (_code : Bool) (v : P.CreateFieldMessage) : P.CreateFieldMessage :=
  { v with Meta := some (v.Meta.getD {}) }

/-- A FieldRow identifies its row by key or by id, not both. -/
def hook_FieldRow (_code : Bool) (v : P.FieldRow) : P.FieldRow :=
  if v.RowKey = "" then v else { v with RowID := 0 }

/-- An error travels as its text; the empty text is "no error". -/
def hook_QueryResponse (_code : Bool) (v : P.QueryResponse) : P.QueryResponse :=
  { v with Err := if v.Err = some "" then none else v.Err }

def hook_ColumnAttrSet (_code : Bool) (v : P.ColumnAttrSet) : P.ColumnAttrSet :=
  { v with Attrs := canonAttrs v.Attrs }

def hook_FieldStatus (_code : Bool) (v : P.FieldStatus) : P.FieldStatus :=
  { v with AvailableShards := setOfList v.AvailableShards }

def hook_ImportRoaringRequest (_code : Bool) (v : P.ImportRoaringRequest) : P.ImportRoaringRequest :=
  { v with Views := canonViews v.Views }

/-- FINDING `rowidentifiers-pointer`: the executor returns `pilosa.RowIdentifiers` (a value) and the
decoder yields `*pilosa.RowIdentifiers`; encodeQueryResponse does not accept the pointer. -/
def hook_Result (code : Bool) : P.Result → P.Result
  | .rowIdentifiers v => if code then .rowIdentifiersPtr v else .rowIdentifiers v
  | .row r => .row (r.map canonRow)
  | r => r

@[simp] theorem rt_decodeImportRoaringRequest (v m : P.ImportRoaringRequest) :
    decodeImportRoaringRequest (some (encodeImportRoaringRequest v)) m =
      .ok (hook_ImportRoaringRequest true v) := by
  simp only [decodeImportRoaringRequest, encodeImportRoaringRequest, foldl_map_views,
    hook_ImportRoaringRequest, canonViews]
  rfl

theorem total_decodeImportRoaringRequest (pb : I.ImportRoaringRequest) (m : P.ImportRoaringRequest) :
    NoPanic (decodeImportRoaringRequest (some pb) m) := rfl

/-! ## Trees of the hand types -/

def attrValTree : AttrVal → Tree
  | .str s => .node [.atom "str", strAtom s]
  | .int i => .node [.atom "int", .atom (toString i.toInt)]
  | .uint u => .node [.atom "uint", .atom (toString u.toNat)]
  | .bool b => .node [.atom "bool", boolAtom b]
  | .float f => .node [.atom "float", floatAtom f]
  | .null => .node [.atom "null"]

def attrValOfTree : Tree → Option AttrVal
  | .node [.atom "str", t] => (strOfAtom t).map .str
  | .node [.atom "int", t] => (intOfAtom t).map (fun i => .int i.toInt64)
  | .node [.atom "uint", t] => (natOfAtom t).map (fun n => .uint n.toUInt64)
  | .node [.atom "bool", t] => (boolOfAtom t).map .bool
  | .node [.atom "float", t] => (floatOfAtom t).map .float
  | .node [.atom "null"] => some .null
  | _ => none

def attrsTree (m : Attrs) : Tree := listTree (fun kv => .node [strAtom kv.1, attrValTree kv.2]) m

def attrsOfTree : Tree → Option Attrs :=
  listOfTree (fun t => match t with
    | .node [k, v] => do pure ((← strOfAtom k), (← attrValOfTree v))
    | _ => none)

def viewsTree (m : ViewsMap) : Tree := listTree (fun kv => .node [strAtom kv.1, bytesAtom kv.2]) m

def viewsOfTree : Tree → Option ViewsMap :=
  listOfTree (fun t => match t with
    | .node [k, v] => do pure ((← strOfAtom k), (← bytesOfAtom v))
    | _ => none)

def rowTree (r : P.Row) : Tree :=
  .node [listTree (fun v => .atom (toString v.toNat)) r.Columns, listTree strAtom r.Keys, attrsTree r.Attrs]

def rowOfTree : Tree → Option P.Row
  | .node [c, k, a] => do
    let c ← listOfTree (fun t => (natOfAtom t).map Nat.toUInt64) c
    let k ← listOfTree strOfAtom k
    let a ← attrsOfTree a
    pure { Columns := c, Keys := k, Attrs := a }
  | _ => none

end PV.C27
