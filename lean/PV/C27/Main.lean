/-
pm_c27: model driver for C27.  One op per line:

  rt  <Type> <tree tokens>    Serializer.Marshal of the pilosa value described by the tree, then
                              Serializer.Unmarshal into a fresh value; output = tree of the result
                              (or panic:<site> / err:decode).  spec = tree of the value itself
                              (canonical form with the allowed identifications).
  bc  <Type> <tree tokens>    the same value through the broadcast framing: Server.SendSync prepends the type
                              byte of getMessageType, the receiver builds the message with getMessage;
                              output as for rt, `panic:decode` when a table has no entry, `type-confusion:A->B`
                              when the tables disagree.  spec = rt spec for every type receiveMessage handles.
  dec <Type> <tree tokens>    the tree describes a value of the protobuf-side message type of <Type>
                              (any Type numbers, empty lists, missing sub-messages); output = tree of
                              Serializer.Unmarshal of its wire form, or err:decode.  Model only.

Trees: `( ... )` nodes and atoms, space separated (see PV/C27/Base.lean).
-/
import PV.Common.Proto
import PV.C27.Gen
open PV.Proto PV.C27

/-- The deviation tag: a recorded finding only when the model output is exactly what the theorems
(`canon true`) say the codec returns; anything else is unexplained. -/
def tagOf (name m known : String) : String :=
  if m = known then
    (if name = "QueryResponse" then "rowidentifiers-pointer" else "schema-index-options-dropped")
  else "unexplained"

def step (_u : Unit) (ws : List String) : Unit × Ans :=
  let bad := ((), ans "bad-op")
  match ws with
  | "rt" :: name :: toks =>
    match Tree.parse toks with
    | some t =>
      match roundTrip name t with
      | some (m, s, k) => ((), ans2 m s (tagOf name m k))
      | none => bad
    | none => bad
  | "bc" :: name :: toks =>
    -- broadcast framing: type byte from getMessageType, message from getMessage on the receiving side
    match Tree.parse toks with
    | some t =>
      match roundTrip name t with
      | some (m, s, k) =>
        let arrives : Option String := do
          let c ← (getMessageTypePairs.find? (fun p => p.2 = name)).map (·.1)
          (getMessagePairs.find? (fun p => p.1 = c)).map (·.2)
        let model := match arrives with
          | none => "panic:decode"
          | some n2 => if n2 = name then m else "type-confusion:" ++ name ++ "->" ++ n2
        let spec := if receiveMessageTypes.contains name then s else model
        ((), ans2 model spec (if model = m then tagOf name m k else "broadcast-type-table"))
      | none => bad
    | none => bad
  | "dec" :: name :: toks =>
    match Tree.parse toks with
    | some t =>
      match decodeOnly name t with
      | some m => ((), ans m)
      | none => bad
    | none => bad
  | _ => bad

def main : IO Unit := run () step
