/-
pm_c27: model driver for C27.  One op per line:

  rt  <Type> <tree tokens>    Serializer.Marshal of the pilosa value described by the tree, then
                              Serializer.Unmarshal into a fresh value; output = tree of the result
                              (or panic:<site> / err:decode).  spec = tree of the value itself
                              (canonical form with the allowed identifications).
  dec <Type> <tree tokens>    the tree describes a value of the protobuf-side message type of <Type>
                              (any Type numbers, empty lists, missing sub-messages); output = tree of
                              Serializer.Unmarshal of its wire form, or err:decode.  Model only.

Trees: `( ... )` nodes and atoms, space separated (see PV/C27/Base.lean).
-/
import PV.Common.Proto
import PV.C27.Gen
open PV.Proto PV.C27

def step (_u : Unit) (ws : List String) : Unit × Ans :=
  let bad := ((), ans "bad-op")
  match ws with
  | "rt" :: name :: toks =>
    match Tree.parse toks with
    | some t =>
      match roundTrip name t with
      | some (m, s) =>
        let tag := if name = "QueryResponse" then "rowidentifiers-pointer" else "schema-index-options-dropped"
        ((), ans2 m s tag)
      | none => bad
    | none => bad
  | "dec" :: name :: toks =>
    match Tree.parse toks with
    | some t =>
      match decodeOnly name t with
      | some m => ((), ans m)
      | none => bad
    | none => bad
  | _ => bad

def main : IO Unit := run () step
