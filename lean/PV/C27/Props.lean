/-
C27 property theorems that are not generated (the generated ones, one round-trip theorem
`C27_<Type>` and one no-panic theorem `C27_total_<Type>` per message type, and the lemmas of every
codec pair, are in Gen.lean, regenerated from encoding/proto/proto.go on every check).

Full-strength statement of the property: for every message type `T` of Serializer.Marshal and every
value `v : T`, `Unmarshal(Marshal(v))` into a fresh value is `v` (up to `canon_T false`: nil and
empty collections, a field row identified by key or id, the error text, the request's index that
travels in the URL), and Unmarshal of arbitrary bytes never panics.
The codec meets it except at the two recorded findings, where `canon_T true ≠ canon_T false`:
`schema-index-options-dropped` (IndexInfo.Options, IndexInfo.ShardWidth) and
`rowidentifiers-pointer` (a RowIdentifiers result comes back as a pointer).
-/
import PV.C27.Gen
set_option linter.unusedSimpArgs false
namespace PV.C27

/-! ## Coverage: the same message types everywhere -/

/-- The two lists hold the same names. -/
def sameNames (xs ys : List String) : Bool :=
  xs.all (fun x => ys.contains x) && ys.all (fun y => xs.contains y)

/-- Marshal and Unmarshal dispatch on the same set of types, each to the codec pair of that type;
getMessage and getMessageType are inverse tables; every message the server handles
(receiveMessage) has a broadcast type number and is (un)marshalable. -/
def coversOk : Bool :=
  sameNames marshalTypes unmarshalTypes &&
  marshalTypes.eraseDups.length == marshalTypes.length &&
  getMessagePairs == getMessageTypePairs &&
  (getMessagePairs.map (·.1)).eraseDups.length == getMessagePairs.length &&
  (getMessagePairs.map (·.2)).eraseDups.length == getMessagePairs.length &&
  sameNames receiveMessageTypes (getMessagePairs.map (·.2)) &&
  receiveMessageTypes.all (fun t => marshalTypes.contains t) &&
  (marshalDispatch.map (·.1)) == marshalTypes && (unmarshalDispatch.map (·.1)) == unmarshalTypes

theorem C27_covers : coversOk = true := by decide

example : marshalTypes.length = 28 ∧ getMessagePairs.length = 17 := by decide

/-! ## QueryResponse (the encoder can panic on an unknown result type, so it lives in `Outcome`) -/

/-- A result the executor can produce: every kind of the type switch of encodeQueryResponse. -/
def encodableResult : P.Result → Bool
  | .rowIdentifiersPtr _ => false
  | _ => true

theorem mapM_ok_mapM {α β γ : Type} (f : α → Outcome β) (g : β → Outcome γ) (c : α → γ) (xs : List α)
    (h : ∀ x ∈ xs, ∃ y, f x = .ok y ∧ g y = .ok (c x)) :
    ∃ ys, xs.mapM f = .ok ys ∧ ys.mapM g = .ok (xs.map c) := by
  induction xs with
  | nil => exact ⟨[], rfl, rfl⟩
  | cons x xs ih =>
    obtain ⟨y, hy, hg⟩ := h x (by simp)
    obtain ⟨ys, hys, hgs⟩ := ih (fun z hz => h z (by simp [hz]))
    refine ⟨y :: ys, ?_, ?_⟩
    · simp only [List.mapM_cons, hy, hys]; rfl
    · simp only [List.mapM_cons, hg, hgs, List.map_cons]; rfl

/-- Round trip of one query result through the element code of encodeQueryResponse and
decodeQueryResult. -/
theorem result_roundtrip (r : P.Result) (h : encodableResult r = true) :
    ∃ e, encodeQueryResult r = .ok e ∧
      decodeQueryResult (some e) = .ok (canon_Result true r) := by
  cases r <;> simp [encodableResult] at h <;>
    refine ⟨_, rfl, ?_⟩ <;>
    simp [decodeQueryResult, canon_Result, hook_Result, C.queryResultTypeRow, C.queryResultTypePairs,
      C.queryResultTypeValCount, C.queryResultTypeUint64, C.queryResultTypeBool, C.queryResultTypeNil,
      C.queryResultTypeRowIDs, C.queryResultTypeRowIdentifiers, C.queryResultTypeGroupCounts,
      C.queryResultTypePair, rt_decodePairs, rt_decodeValCount, rt_decodeRowIdentifiers,
      rt_decodeGroupCounts, rt_decodePair, canon_RowIdentifiers, canon_ValCount, canon_Pair]

/-- `Unmarshal(Marshal(v))` for a QueryResponse whose results are of the kinds the executor produces. -/
theorem C27_QueryResponse (v : P.QueryResponse) (h : ∀ r ∈ v.Results, encodableResult r = true) :
    ∃ pb, encodeQueryResponse v = .ok pb ∧
      decodeQueryResponse (some pb) ({} : P.QueryResponse) = .ok (canon_QueryResponse true v) := by
  obtain ⟨rs, hrs, hdec⟩ := mapM_ok_mapM encodeQueryResult (fun e => decodeQueryResult (some e)) (canon_Result true)
    v.Results (fun r hr => result_roundtrip r (h r hr))
  cases v with
  | mk results cas err =>
    simp only at hrs hdec
    refine ⟨?pb, ?h1, ?h2⟩
    case h1 =>
      simp only [encodeQueryResponse, hrs]
      rfl
    case h2 =>
      cases err with
        | none =>
          simp [decodeQueryResponse, decodeQueryResults, hdec, rt_decodeColumnAttrSets, canon_QueryResponse,
            hook_QueryResponse, canon_ColumnAttrSet]
        | some msg =>
          by_cases hm : msg = ""
          · subst hm
            simp [decodeQueryResponse, decodeQueryResults, hdec, rt_decodeColumnAttrSets, canon_QueryResponse,
              hook_QueryResponse, canon_ColumnAttrSet]
          · simp [decodeQueryResponse, decodeQueryResults, hdec, rt_decodeColumnAttrSets, canon_QueryResponse,
              hook_QueryResponse, canon_ColumnAttrSet, hm]

example : ∀ r ∈ ({ Results := [.uint64 5, .row none, .nil] } : P.QueryResponse).Results,
    encodableResult r = true := by simp [encodableResult]

/-- Unmarshal of any QueryResponse bytes returns a value or an error, never panics. -/
theorem C27_total_QueryResponse (pb : I.QueryResponse) (m : P.QueryResponse) :
    NoPanic (decodeQueryResponse (some pb) m) := total_decodeQueryResponse pb m

/-- Every decoder is panic-free on every protobuf-side value: the summary over all message types of
Unmarshal (`C27_total_<Type>` in Gen.lean are the individual statements). -/
theorem C27_total_result (pb : I.QueryResult) : NoPanic (decodeQueryResult (some pb)) :=
  total_decodeQueryResult pb

/-! ## Witnesses of the recorded findings -/

/-- Finding `schema-index-options-dropped`: an index with keys sent inside a Schema arrives
without keys (and without its shard width). -/
theorem C27_schema_index_options_dropped_witness :
    let w : P.IndexInfo := { Name := "i", Options := { Keys := true }, ShardWidth := 1048576 }
    (∃ r, decodeIndex (some (encodeIndexInfo w)) ({} : P.IndexInfo) = .ok r ∧ r.Options.Keys = false ∧
      r.ShardWidth = 0) ∧
    (canon_IndexInfo false w).Options.Keys = true := by
  refine ⟨⟨_, rt_decodeIndex _, ?_, ?_⟩, ?_⟩ <;> simp [canon_IndexInfo, hook_IndexInfo, canon_IndexOptions]

/-- Finding `rowidentifiers-pointer`: a `RowIdentifiers` result is decoded as a pointer, which
encodeQueryResponse does not accept (re-encoding the decoded response panics). -/
theorem C27_rowidentifiers_pointer_witness :
    let w : P.RowIdentifiers := { Rows := [1, 2] }
    canon_Result true (.rowIdentifiers w) = .rowIdentifiersPtr w ∧
    canon_Result false (.rowIdentifiers w) = .rowIdentifiers w ∧
    (encodeQueryResponse { Results := [.rowIdentifiersPtr w] }).isPanic = true := by
  refine ⟨?_, ?_, ?_⟩ <;> simp [canon_Result, hook_Result, canon_RowIdentifiers, encodeQueryResponse,
    encodeQueryResult, Outcome.isPanic]

end PV.C27
