/-
C27 — hand-written base of the codec model (core Lean only).

* `Outcome`: result of a decoder: a value, a returned Go `error`, or a panic (explicit outcome).
* `Tree`: the universal value syntax of the protocol lines (driver and harness print/parse it).
* The types the translator does not derive from struct definitions: attribute maps
  (`map[string]interface{}`), `*pilosa.Row` (unexported segments; observed through `Columns()`),
  `*roaring.Bitmap` (observed through `Slice()`), `map[string][]byte`.
-/
namespace PV.C27

inductive Fail where
  | panic (site : String)
  | error (msg : String)
  deriving Repr

abbrev Outcome := Except Fail

def Outcome.isPanic {α : Type} : Outcome α → Bool
  | .error (.panic _) => true
  | _ => false

@[simp] theorem Outcome.pure_eq {α : Type} (a : α) : (pure a : Outcome α) = .ok a := rfl
@[simp] theorem Outcome.map_ok {α β : Type} (f : α → β) (a : α) :
    f <$> (Except.ok a : Outcome α) = .ok (f a) := rfl
@[simp] theorem Outcome.bind_ok {α β : Type} (a : α) (f : α → Outcome β) :
    (Except.ok a : Outcome α) >>= f = f a := rfl
@[simp] theorem Outcome.bind_error {α β : Type} (e : Fail) (f : α → Outcome β) :
    (Except.error e : Outcome α) >>= f = .error e := rfl
@[simp] theorem Outcome.bind_ok_right {α : Type} (a : Outcome α) :
    (a >>= fun r => (Except.ok r : Outcome α)) = a := by
  cases a <;> rfl
@[simp] theorem Outcome.throw_eq {α : Type} (e : Fail) : (throw e : Outcome α) = .error e := rfl

/-- `xs[0]` in Go: panics on an empty slice. -/
def headOrPanic {α : Type} (site : String) : List α → Outcome α
  | [] => throw (.panic site)
  | x :: _ => pure x

/-- `NoPanic o`: the Go function returned (a value or an `error`). -/
def NoPanic {α : Type} (o : Outcome α) : Prop := o.isPanic = false

theorem noPanic_ok {α : Type} (a : α) : NoPanic (Except.ok a : Outcome α) := rfl
theorem noPanic_pure {α : Type} (a : α) : NoPanic (pure a : Outcome α) := rfl
theorem noPanic_err {α : Type} (m : String) : NoPanic (Except.error (.error m) : Outcome α) := rfl
theorem noPanic_throw_err {α : Type} (m : String) : NoPanic (throw (Fail.error m) : Outcome α) := rfl

theorem noPanic_bind {α β : Type} {a : Outcome α} {f : α → Outcome β}
    (ha : NoPanic a) (hf : ∀ r, NoPanic (f r)) : NoPanic (a >>= f) := by
  cases a with
  | ok r => exact hf r
  | error e =>
    cases e with
    | panic s => exact absurd ha (by simp [NoPanic, Outcome.isPanic])
    | error m => rfl

theorem noPanic_mapM {α β : Type} {f : α → Outcome β} (hf : ∀ x, NoPanic (f x)) (xs : List α) :
    NoPanic (xs.mapM f) := by
  induction xs with
  | nil => exact noPanic_pure _
  | cons x xs ih =>
    rw [List.mapM_cons]
    exact noPanic_bind (hf x) (fun r => noPanic_bind ih (fun rs => noPanic_pure _))

/-- Round trip through a list: decoding the encodings gives the (canonical) values back. -/
theorem mapM_map_ok {α β γ : Type} (enc : α → β) (dec : β → Outcome γ) (canon : α → γ)
    (h : ∀ x, dec (enc x) = .ok (canon x)) (xs : List α) :
    (xs.map enc).mapM dec = .ok (xs.map canon) := by
  induction xs with
  | nil => rfl
  | cons x xs ih =>
    simp only [List.map_cons, List.mapM_cons, h, ih]
    rfl

/-! ## Protocol trees -/

inductive Tree where
  | atom (s : String)
  | node (kids : List Tree)
  deriving Repr, Inhabited

mutual
def Tree.show : Tree → String
  | .atom s => s
  | .node kids => "(" ++ Tree.showList kids ++ ")"
def Tree.showList : List Tree → String
  | [] => ""
  | [t] => t.show
  | t :: ts => t.show ++ " " ++ Tree.showList ts
end

/-- Parse space-separated tokens `(`, `)`, atoms. Fuel = number of tokens. -/
def Tree.parseToks : Nat → List String → List (List Tree) → Option Tree
  | 0, _, _ => none
  | _ + 1, [], _ => none
  | f + 1, t :: ts, stack =>
    if t = "(" then Tree.parseToks f ts ([] :: stack)
    else if t = ")" then
      match stack with
      | top :: parent :: rest => Tree.parseToks f ts ((parent ++ [.node top]) :: rest)
      | [top] => if ts = [] then some (.node top) else none
      | [] => none
    else
      match stack with
      | top :: rest => Tree.parseToks f ts ((top ++ [.atom t]) :: rest)
      | [] => if ts = [] then some (.atom t) else none

def Tree.parse (ts : List String) : Option Tree := Tree.parseToks (ts.length + 1) ts []

/-! ## Atoms -/

def hexDigitC (d : Nat) : Char :=
  if d < 10 then Char.ofNat (48 + d) else Char.ofNat (87 + d)

def hexOfBytes (bs : List UInt8) : String :=
  String.ofList (bs.flatMap (fun b => [hexDigitC (b.toNat / 16), hexDigitC (b.toNat % 16)]))

def unhexC (c : Char) : Option Nat :=
  if '0' ≤ c ∧ c ≤ '9' then some (c.toNat - 48)
  else if 'a' ≤ c ∧ c ≤ 'f' then some (c.toNat - 87)
  else none

def bytesOfHexAux : List Char → Option (List UInt8)
  | [] => some []
  | a :: b :: r => do
    let x ← unhexC a
    let y ← unhexC b
    let rest ← bytesOfHexAux r
    pure ((x * 16 + y).toUInt8 :: rest)
  | _ => none

/-- Strings travel as `s<hex of the UTF-8 bytes>` so that every atom is one token. -/
def strAtom (s : String) : Tree := .atom ("s" ++ hexOfBytes s.toUTF8.toList)

def strOfAtom : Tree → Option String
  | .atom a =>
    match a.toList with
    | 's' :: r => do
      let bs ← bytesOfHexAux r
      String.fromUTF8? (ByteArray.mk bs.toArray)
    | _ => none
  | _ => none

def natOfAtom : Tree → Option Nat
  | .atom a => a.toNat?
  | _ => none

def intOfAtom : Tree → Option Int
  | .atom a => a.toInt?
  | _ => none

def boolAtom (b : Bool) : Tree := .atom (if b then "T" else "F")

def boolOfAtom : Tree → Option Bool
  | .atom "T" => some true
  | .atom "F" => some false
  | _ => none

/-- float64 travels as its IEEE bits. -/
def floatAtom (f : Float) : Tree := .atom ("f" ++ toString f.toBits.toNat)

def floatOfAtom : Tree → Option Float
  | .atom a =>
    match a.toList with
    | 'f' :: r => (String.ofList r).toNat?.map (fun n => Float.ofBits n.toUInt64)
    | _ => none
  | _ => none

def bytesAtom (bs : List UInt8) : Tree := .atom ("x" ++ hexOfBytes bs)

def bytesOfAtom : Tree → Option (List UInt8)
  | .atom a =>
    match a.toList with
    | 'x' :: r => bytesOfHexAux r
    | _ => none
  | _ => none

def listTree {α : Type} (f : α → Tree) (xs : List α) : Tree := .node (xs.map f)

def listOfTree {α : Type} (f : Tree → Option α) : Tree → Option (List α)
  | .node kids => kids.mapM f
  | _ => none

def optTree {α : Type} (f : α → Tree) : Option α → Tree
  | none => .node []
  | some a => .node [f a]

def optOfTree {α : Type} (f : Tree → Option α) : Tree → Option (Option α)
  | .node [] => some none
  | .node [t] => (f t).map some
  | _ => none

/-! ## Attribute maps -/

/-- The dynamic value of an attribute (`interface{}` in `map[string]interface{}`). -/
inductive AttrVal where
  | str (s : String)
  | int (i : Int64)
  | uint (u : UInt64)
  | bool (b : Bool)
  | float (f : Float)
  | null                    -- nil or any other dynamic type: encodeAttr leaves Type = 0
  deriving Inhabited

/-- `map[string]interface{}` as an association list sorted by key, keys distinct. -/
abbrev Attrs := List (String × AttrVal)

/-- `map[string][]byte` of ImportRoaringRequest.Views, sorted by key. -/
abbrev ViewsMap := List (String × List UInt8)

/-- `*roaring.Bitmap`, observed through `Slice()` (ascending, distinct); `roaring.NewBitmap(xs...)`
builds the set of `xs`.  The roaring layer itself is C01/C04's subject. -/
abbrev Bitmap := List UInt64

def insertSorted (x : UInt64) : List UInt64 → List UInt64
  | [] => [x]
  | y :: ys => if x < y then x :: y :: ys else if x = y then y :: ys else y :: insertSorted x ys

/-- `roaring.NewBitmap(xs...)` / a Row built with `SetBit` for every element. -/
def setOfList (xs : List UInt64) : List UInt64 := xs.foldl (fun acc x => insertSorted x acc) []

def sortedStrict : List UInt64 → Bool
  | [] => true
  | [_] => true
  | x :: y :: r => x < y && sortedStrict (y :: r)

def keysSortedStrict {α : Type} : List (String × α) → Bool
  | [] => true
  | [_] => true
  | (k1, _) :: (k2, v) :: r => k1 < k2 && keysSortedStrict ((k2, v) :: r)

def insertKey {α : Type} (k : String) (v : α) : List (String × α) → List (String × α)
  | [] => [(k, v)]
  | (k', v') :: r =>
    if k = k' then (k, v) :: r
    else if k < k' then (k, v) :: (k', v') :: r
    else (k', v') :: insertKey k v r

end PV.C27
