/-
C11 helper lemmas, part 3 (core Lean only): mergeBlock / syncBlock in terms of membership, and the
walk of syncFragment.
-/
import PV.C11.LemmasMerge
namespace PV.C11
open List

def Cols (l : List P) : Prop := ∀ p ∈ l, p.col < ShardWidth

theorem apply_spec (itrs : List (List P)) (hs : ∀ l ∈ itrs, Sorted l) (hne : itrs ≠ []) (B : P → Bool)
    (hB : ∀ l ∈ itrs, ∀ p ∈ l, B p = true) (i : Nat) (L : List P)
    (hL : ∀ p, p ∈ itrs.getD i [] ↔ p ∈ L ∧ B p = true) (p : P) :
    p ∈ applyDiff L (setsOf i (mergeEvents itrs)) (clearsOf i (mergeEvents itrs)) ↔
      (if B p = true then Spec.majority itrs p = true else p ∈ L) := by
  rw [mem_applyDiff, mem_setsOf itrs hs hne, mem_clearsOf itrs hs]
  have hLp := hL p
  by_cases hb : B p = true
  · simp only [hb, and_true] at hLp
    simp only [hb, if_true, hLp]
    cases Spec.majority itrs p <;> by_cases hp : p ∈ L <;> simp [hp]
  · have hni : p ∉ itrs.getD i [] := fun h => hb (hLp.mp h).2
    have hm : Spec.majority itrs p = false := by
      cases hm : Spec.majority itrs p with
      | false => rfl
      | true =>
        obtain ⟨l, hl, hp⟩ := majority_exists itrs p hne hm
        exact absurd (hB l hl p hp) hb
    have hni' : p ∉ itrs[i]?.getD [] := by simpa using hni
    simp [hb, hni', hm]

theorem getD_map_blockItr (id : Nat) (reps : List (List P)) (i : Nat) :
    (reps.map (blockItr id)).getD i [] = blockItr id (reps.getD i []) := by
  induction reps generalizing i with
  | nil => simp [blockItr, seek, limit]
  | cons a t ih =>
    cases i with
    | zero => simp
    | succ i => simpa using ih i

theorem majority_blockItr (id : Nat) (reps : List (List P)) (hs : ∀ l ∈ reps, Sorted l) (p : P)
    (hp : inBlock id p = true) :
    Spec.majority (reps.map (blockItr id)) p = Spec.majority reps p := by
  simp only [Spec.majority, Spec.votes, length_map, countP_map]
  have : countP ((fun l => decide (p ∈ l)) ∘ blockItr id) reps = countP (fun l => decide (p ∈ l)) reps := by
    apply countP_congr
    intro l hl
    simp only [Function.comp, decide_eq_true_eq]
    rw [mem_blockItr id l (hs l hl)]
    simp [hp]
  rw [this]
  exact decide_eq_decide.mpr Iff.rfl

/-- mergeBlock's diffs applied to any target lists that agree with the voted data inside the block. -/
theorem merge_general (id : Nat) (reps : List (List P)) (hs : ∀ l ∈ reps, Sorted l) (hne : reps ≠ [])
    (i : Nat) (T : List P) (hT : ∀ p, inBlock id p = true → (p ∈ reps.getD i [] ↔ p ∈ T))
    (hsi : Sorted (reps.getD i [])) (p : P) :
    let es := mergeEvents (reps.map (blockItr id))
    p ∈ applyDiff T (setsOf i es) (clearsOf i es) ↔
      (if inBlock id p = true then Spec.majority reps p = true else p ∈ T) := by
  intro es
  have hs' : ∀ l ∈ reps.map (blockItr id), Sorted l := by
    intro l hl; obtain ⟨l0, hl0, rfl⟩ := mem_map.mp hl; exact sorted_blockItr id l0 (hs l0 hl0)
  have hne' : reps.map (blockItr id) ≠ [] := by simpa using hne
  have hB : ∀ l ∈ reps.map (blockItr id), ∀ p ∈ l, inBlock id p = true := by
    intro l hl p hp; obtain ⟨l0, hl0, rfl⟩ := mem_map.mp hl
    exact ((mem_blockItr id l0 (hs l0 hl0) p).mp hp).2
  have hL : ∀ p, p ∈ (reps.map (blockItr id)).getD i [] ↔ p ∈ T ∧ inBlock id p = true := by
    intro p
    rw [getD_map_blockItr, mem_blockItr id _ hsi]
    constructor
    · rintro ⟨h1, h2⟩; exact ⟨(hT p h2).mp h1, h2⟩
    · rintro ⟨h1, h2⟩; exact ⟨(hT p h2).mpr h1, h2⟩
  have := apply_spec _ hs' hne' (inBlock id) hB i T hL p
  rw [this]
  by_cases hb : inBlock id p = true
  · simp [hb, majority_blockItr id reps hs p hb]
  · simp [hb]

theorem getD_range_map {β : Type} (n : Nat) (f : Nat → β) (d : β) (i : Nat) (h : i < n) :
    ((List.range n).map f).getD i d = f i := by
  simp [List.getD_eq_getElem?_getD, h]

theorem sorted_getD (reps : List (List P)) (hs : ∀ l ∈ reps, Sorted l) (i : Nat) : Sorted (reps.getD i []) := by
  rw [getD_eq_getElem?_getD]
  cases h : reps[i]? with
  | none => simp [Sorted]
  | some l => exact hs l (mem_of_getElem? h)

/-! ### blockData vs inBlock -/

theorem inBlock_iff (id : Nat) (p : P) (hc : p.col < ShardWidth) :
    inBlock id p = true ↔ (id * HashBlockSize * ShardWidth ≤ pos p ∧ pos p < (id + 1) * HashBlockSize * ShardWidth) := by
  cases p with
  | mk r c =>
  simp [inBlock, seekOK, within, pos]
  simp only [HashBlockSize, ShardWidth] at *
  omega

theorem mem_blockData (id : Nat) (l : List P) (hc : Cols l) (p : P) :
    p ∈ blockData id l ↔ p ∈ l ∧ inBlock id p = true := by
  simp only [blockData, mem_filter, decide_eq_true_eq]
  constructor
  · rintro ⟨h1, h2⟩; exact ⟨h1, (inBlock_iff id p (hc p h1)).mpr h2⟩
  · rintro ⟨h1, h2⟩; exact ⟨h1, (inBlock_iff id p (hc p h1)).mp h2⟩

theorem inBlock_unique (id id' : Nat) (p : P) (hc : p.col < ShardWidth)
    (h : inBlock id p = true) (h' : inBlock id' p = true) : id = id' := by
  have a := (inBlock_iff id p hc).mp h
  have b := (inBlock_iff id' p hc).mp h'
  simp only [HashBlockSize, ShardWidth] at a b
  omega

theorem inBlock_blockOf (p : P) (hc : p.col < ShardWidth) : inBlock (blockOf p) p = true := by
  rw [inBlock_iff _ p hc]
  simp only [blockOf, HashBlockSize, ShardWidth]
  have := Nat.div_add_mod (pos p) (100 * 1048576)
  have := Nat.mod_lt (pos p) (show 100 * 1048576 > 0 by omega)
  omega

end PV.C11

namespace PV.C11
open List

/-! ### syncBlock on one fragment per replica -/

def AllSorted (st : List (List P)) : Prop := ∀ l ∈ st, Sorted l
def AllCols (st : List (List P)) : Prop := ∀ l ∈ st, Cols l

theorem cols_getD (st : List (List P)) (hc : AllCols st) (i : Nat) : Cols (st.getD i []) := by
  rw [getD_eq_getElem?_getD]
  cases h : st[i]? with
  | none => intro p hp; simp at hp
  | some l => exact hc l (mem_of_getElem? h)

theorem getD_mem (st : List (List P)) (i : Nat) (hi : i < st.length) : st.getD i [] ∈ st := by
  rw [getD_eq_getElem?_getD, getElem?_eq_getElem hi]; simp

theorem sorted_blockData (id : Nat) (l : List P) (h : Sorted l) : Sorted (blockData id l) :=
  Pairwise.filter _ h

theorem majority_blockData (id : Nat) (loc : List P) (rem : List (List P)) (hc : AllCols rem) (p : P)
    (hp : inBlock id p = true) :
    Spec.majority (loc :: rem.map (blockData id)) p = Spec.majority (loc :: rem) p := by
  simp only [Spec.majority, Spec.votes, length_cons, length_map, countP_cons, countP_map]
  have : countP ((fun l => decide (p ∈ l)) ∘ blockData id) rem = countP (fun l => decide (p ∈ l)) rem := by
    apply countP_congr
    intro l hl
    simp only [Function.comp, decide_eq_true_eq]
    rw [mem_blockData id l (hc l hl)]
    simp [hp]
  rw [this]

theorem syncBlock_length (id : Nat) (st : List (List P)) : (syncBlock id st).length = st.length := by
  cases st with
  | nil => rfl
  | cons loc rem => simp [syncBlock]

theorem getD_map_blockData (id : Nat) (rem : List (List P)) (i : Nat) :
    (rem.map (blockData id)).getD i [] = blockData id (rem.getD i []) := by
  induction rem generalizing i with
  | nil => simp [blockData]
  | cons a t ih =>
    cases i with
    | zero => simp
    | succ i => simpa using ih i

/-- after syncBlock every replica holds the majority inside the block and is unchanged outside -/
theorem syncBlock_spec (id : Nat) (st : List (List P)) (hs : AllSorted st) (hc : AllCols st)
    (i : Nat) (hi : i < st.length) (p : P) :
    p ∈ (syncBlock id st).getD i [] ↔
      (if inBlock id p = true then Spec.majority st p = true else p ∈ st.getD i []) := by
  cases st with
  | nil => simp at hi
  | cons loc rem =>
    have hcr : AllCols rem := fun l hl => hc l (mem_cons_of_mem _ hl)
    have hs' : ∀ l ∈ loc :: rem.map (blockData id), Sorted l := by
      intro l hl
      simp only [mem_cons, mem_map] at hl
      rcases hl with rfl | ⟨l0, hl0, rfl⟩
      · exact hs _ (by simp)
      · exact sorted_blockData id l0 (hs l0 (mem_cons_of_mem _ hl0))
    have hmaj : ∀ p, inBlock id p = true →
        Spec.majority (loc :: rem.map (blockData id)) p = Spec.majority (loc :: rem) p :=
      fun p hp => majority_blockData id loc rem hcr p hp
    cases i with
    | zero =>
      simp only [syncBlock, mergeBlock, getD_cons_zero]
      have := merge_general id (loc :: rem.map (blockData id)) hs' (by simp) 0 loc (by simp)
        (by simpa using hs' loc (by simp)) p
      simp only at this
      rw [this]
      by_cases hb : inBlock id p = true
      · simp [hb, hmaj p hb]
      · simp [hb]
    | succ i =>
      have hi' : i < rem.length := by simpa using hi
      simp only [syncBlock, getD_cons_succ]
      rw [getD_range_map rem.length _ [] i hi']
      simp only [mergeBlock, length_map]
      rw [getD_range_map rem.length _ [] i hi', getD_range_map rem.length _ [] i hi']
      have hT : ∀ p, inBlock id p = true →
          (p ∈ (loc :: rem.map (blockData id)).getD (i + 1) [] ↔ p ∈ rem.getD i []) := by
        intro p hp
        rw [getD_cons_succ, getD_map_blockData, mem_blockData id _ (cols_getD rem hcr i)]
        simp [hp]
      have := merge_general id (loc :: rem.map (blockData id)) hs' (by simp) (i + 1) (rem.getD i []) hT
        (sorted_getD _ hs' (i + 1)) p
      simp only at this
      rw [this]
      by_cases hb : inBlock id p = true
      · simp [hb, hmaj p hb]
      · simp [hb]

theorem syncBlock_sorted (id : Nat) (st : List (List P)) (hs : AllSorted st) : AllSorted (syncBlock id st) := by
  cases st with
  | nil => intro l hl; simp [syncBlock] at hl
  | cons loc rem =>
    intro l hl
    simp only [syncBlock, mem_cons, mem_map, mem_range] at hl
    rcases hl with rfl | ⟨i, hi, rfl⟩
    · exact sorted_applyDiff _ _ _ (hs loc (by simp))
    · exact sorted_applyDiff _ _ _ (sorted_getD rem (fun l hl => hs l (mem_cons_of_mem _ hl)) i)

theorem mem_of_mem_getD (st : List (List P)) (i : Nat) (p : P) (h : p ∈ st.getD i []) : ∃ l ∈ st, p ∈ l := by
  rw [getD_eq_getElem?_getD] at h
  cases hh : st[i]? with
  | none => rw [hh] at h; simp at h
  | some l => rw [hh] at h; exact ⟨l, mem_of_getElem? hh, by simpa using h⟩

theorem syncBlock_cols (id : Nat) (st : List (List P)) (hs : AllSorted st) (hc : AllCols st) :
    AllCols (syncBlock id st) := by
  intro l hl p hp
  obtain ⟨i, hi, rfl⟩ := mem_iff_getElem.mp hl
  have hi' : i < st.length := by rwa [syncBlock_length] at hi
  have hp' : p ∈ (syncBlock id st).getD i [] := by
    rw [getD_eq_getElem?_getD, getElem?_eq_getElem hi]; simpa using hp
  rw [syncBlock_spec id st hs hc i hi' p] at hp'
  have hne : st ≠ [] := by intro h; rw [h] at hi'; simp at hi'
  split at hp'
  · obtain ⟨l, hl, hpl⟩ := majority_exists st p hne hp'
    exact hc l hl p hpl
  · obtain ⟨l, hl, hpl⟩ := mem_of_mem_getD st i p hp'
    exact hc l hl p hpl

/-- all replicas agree on block `id` -/
def Agree (id : Nat) (st : List (List P)) : Prop :=
  ∀ i j, i < st.length → j < st.length → ∀ p, inBlock id p = true → (p ∈ st.getD i [] ↔ p ∈ st.getD j [])

theorem syncBlock_agree (id : Nat) (st : List (List P)) (hs : AllSorted st) (hc : AllCols st) :
    Agree id (syncBlock id st) := by
  intro i j hi hj p hp
  rw [syncBlock_length] at hi hj
  rw [syncBlock_spec id st hs hc i hi p, syncBlock_spec id st hs hc j hj p]
  simp [hp]

theorem syncBlock_preserve (id id' : Nat) (st : List (List P)) (hs : AllSorted st) (hc : AllCols st)
    (h : Agree id st) : Agree id (syncBlock id' st) := by
  by_cases he : id' = id
  · subst he; exact syncBlock_agree id' st hs hc
  · intro i j hi hj p hp
    have hcn := syncBlock_cols id' st hs hc
    rw [syncBlock_length] at hi hj
    by_cases hcol : p.col < ShardWidth
    · have hnb : ¬ inBlock id' p = true := fun h' => he (inBlock_unique id' id p hcol h' hp)
      rw [syncBlock_spec id' st hs hc i hi p, syncBlock_spec id' st hs hc j hj p]
      simp only [hnb, if_false]
      exact h i j hi hj p hp
    · have hi2 : i < (syncBlock id' st).length := by rwa [syncBlock_length]
      have hj2 : j < (syncBlock id' st).length := by rwa [syncBlock_length]
      have a : p ∉ (syncBlock id' st).getD i [] := fun hm => hcol (cols_getD _ hcn i p hm)
      have b : p ∉ (syncBlock id' st).getD j [] := fun hm => hcol (cols_getD _ hcn j p hm)
      exact ⟨fun h => absurd h a, fun h => absurd h b⟩

end PV.C11
