/-
C11 helper lemmas, part 5 (core Lean only): a block that differed ends the pass holding the
per-bit majority of the replicas' ORIGINAL contents.
-/
import PV.C11.LemmasWalk
namespace PV.C11
open List

theorem countP_congr_index (p : P) (a b : List (List P)) (hlen : a.length = b.length)
    (h : ∀ i, i < a.length → (p ∈ a.getD i [] ↔ p ∈ b.getD i [])) :
    a.countP (fun l => decide (p ∈ l)) = b.countP (fun l => decide (p ∈ l)) := by
  induction a generalizing b with
  | nil => cases b with
    | nil => rfl
    | cons _ _ => simp at hlen
  | cons x xs ih =>
    cases b with
    | nil => simp at hlen
    | cons y ys =>
      have h0 := h 0 (by simp)
      simp only [getD_cons_zero] at h0
      have ih' := ih ys (by simpa using hlen) (fun i hi => by simpa using h (i + 1) (by simpa using hi))
      simp only [countP_cons, ih', decide_eq_true_eq]
      by_cases hx : p ∈ x
      · simp [hx, h0.mp hx]
      · have : p ∉ y := fun hy => hx (h0.mpr hy)
        simp [hx, this]

theorem majority_congr_index (p : P) (a b : List (List P)) (hlen : a.length = b.length)
    (h : ∀ i, i < a.length → (p ∈ a.getD i [] ↔ p ∈ b.getD i [])) :
    Spec.majority a p = Spec.majority b p := by
  unfold Spec.majority Spec.votes
  apply decide_eq_decide.mpr
  rw [countP_congr_index p a b hlen h, hlen]

theorem majority_of_all (p : P) (a : List (List P)) (hne : a ≠ []) (m : Bool)
    (h : ∀ l ∈ a, (p ∈ l ↔ m = true)) : Spec.majority a p = m := by
  unfold Spec.majority Spec.votes
  have hpos : 0 < a.length := length_pos_iff.mpr hne
  cases m with
  | true =>
    have : a.countP (fun l => decide (p ∈ l)) = a.length := by
      apply countP_eq_length.mpr
      intro l hl; simpa using (h l hl).mpr rfl
    apply decide_eq_true
    omega
  | false =>
    have : a.countP (fun l => decide (p ∈ l)) = 0 := by
      apply countP_eq_zero.mpr
      intro l hl
      have := (h l hl)
      simp only [Bool.false_eq_true, iff_false] at this
      simpa using this
    apply decide_eq_false
    omega

section
variable {κ : Type} [DecidableEq κ] (H : List P → κ)

/-- block `id` of every replica still holds its original contents -/
def Init (id : Nat) (reps st : List (List P)) : Prop :=
  ∀ i, i < reps.length → ∀ p, inBlock id p = true → (p ∈ st.getD i [] ↔ p ∈ reps.getD i [])

/-- block `id` of every replica holds the majority of the original contents -/
def Maj (id : Nat) (reps st : List (List P)) : Prop :=
  ∀ i, i < reps.length → ∀ p, inBlock id p = true → (p ∈ st.getD i [] ↔ Spec.majority reps p = true)

theorem other_block_untouched (id id' : Nat) (hne : id' ≠ id) (n : Nat) (st : List (List P)) (h : Inv n st)
    (i : Nat) (hi : i < n) (p : P) (hp : inBlock id p = true) :
    p ∈ (syncBlock id' st).getD i [] ↔ p ∈ st.getD i [] := by
  have hi' : i < st.length := by rw [h.len]; exact hi
  by_cases hcol : p.col < ShardWidth
  · have hnb : ¬ inBlock id' p = true := fun h' => hne (inBlock_unique id' id p hcol h' hp)
    rw [syncBlock_spec id' st h.sorted h.cols i hi' p]
    simp [hnb]
  · have a : p ∉ (syncBlock id' st).getD i [] :=
      fun hm => hcol (cols_getD _ (syncBlock_cols id' st h.sorted h.cols) i p hm)
    have b : p ∉ st.getD i [] := fun hm => hcol (cols_getD _ h.cols i p hm)
    exact ⟨fun h => absurd h a, fun h => absurd h b⟩

theorem step_init_to_maj (id : Nat) (reps st : List (List P)) (h : Inv reps.length st)
    (hi : Init id reps st) : Maj id reps (syncBlock id st) := by
  intro i hlt p hp
  have hi' : i < st.length := by rw [h.len]; exact hlt
  rw [syncBlock_spec id st h.sorted h.cols i hi' p]
  simp only [hp, if_true]
  rw [majority_congr_index p st reps h.len (fun j hj => hi j (by rw [← h.len]; exact hj) p hp)]

theorem step_maj_same (id : Nat) (reps st : List (List P)) (h : Inv reps.length st) (hne : reps ≠ [])
    (hm : Maj id reps st) : Maj id reps (syncBlock id st) := by
  intro i hlt p hp
  have hi' : i < st.length := by rw [h.len]; exact hlt
  rw [syncBlock_spec id st h.sorted h.cols i hi' p]
  simp only [hp, if_true]
  have hst : st ≠ [] := by
    intro e; have := h.len; rw [e] at this; simp at this; exact hne (length_eq_zero_iff.mp this.symm)
  have : Spec.majority st p = Spec.majority reps p := by
    apply majority_of_all p st hst
    intro l hl
    obtain ⟨j, hj, rfl⟩ := mem_iff_getElem.mp hl
    have := hm j (by rw [← h.len]; exact hj) p hp
    rw [getD_eq_getElem?_getD, getElem?_eq_getElem hj] at this
    simpa using this
  rw [this]

theorem stepF_maj (id : Nat) (reps st : List (List P)) (e : Nat × List (Option (Nat × κ)))
    (h : Inv reps.length st) (hne : reps ≠ []) (hm : Maj id reps st) : Maj id reps (stepF st e) := by
  unfold stepF
  split
  · exact hm
  · by_cases he : e.1 = id
    · rw [he]; exact step_maj_same id reps st h hne hm
    · intro i hlt p hp
      rw [other_block_untouched id e.1 he reps.length st h i hlt p hp]
      exact hm i hlt p hp

theorem fold_maj (id : Nat) (reps : List (List P)) (hne : reps ≠ [])
    (evs : List (Nat × List (Option (Nat × κ)))) (st : List (List P)) (h : Inv reps.length st)
    (hor : Maj id reps st ∨ (Init id reps st ∧ ∃ e ∈ evs, e.1 = id ∧ allEqual (e.2.map (Option.map (·.2))) = false)) :
    Maj id reps (evs.foldl stepF st) := by
  induction evs generalizing st with
  | nil =>
    rcases hor with h1 | ⟨_, e, he, _⟩
    · exact h1
    · cases he
  | cons e evs ih =>
    simp only [foldl_cons]
    apply ih _ (stepF_inv reps.length st e h)
    rcases hor with h1 | ⟨hinit, e', he', hid, hq⟩
    · exact Or.inl (stepF_maj id reps st e h hne h1)
    · by_cases hstep : allEqual (e.2.map (Option.map (·.2))) = true
      · -- no-op step
        have : stepF st e = st := by unfold stepF; simp [hstep]
        rw [this]
        simp only [mem_cons] at he'
        rcases he' with rfl | he'
        · rw [hq] at hstep; cases hstep
        · exact Or.inr ⟨hinit, e', he', hid, hq⟩
      · have : stepF st e = syncBlock e.1 st := by unfold stepF; simp [hstep]
        rw [this]
        by_cases he : e.1 = id
        · left; rw [he]; exact step_init_to_maj id reps st h hinit
        · right
          refine ⟨?_, ?_⟩
          · intro i hlt p hp
            rw [other_block_untouched id e.1 he reps.length st h i hlt p hp]
            exact hinit i hlt p hp
          · simp only [mem_cons] at he'
            rcases he' with rfl | he'
            · exact absurd hid he
            · exact ⟨e', he', hid, hq⟩

/-- a block on which the replicas differed ends the pass holding the majority of the ORIGINAL contents -/
theorem syncFragment_majority (hH : Function.Injective H) (reps : List (List P)) (hs : AllSorted reps)
    (hc : AllCols reps) (id : Nat) (hd : ¬ Agree id reps) :
    Maj id reps (syncFragment H reps) := by
  have hlen : ¬ reps.length ≤ 1 := by
    intro hle
    apply hd
    intro i j hi hj p _
    have : i = j := by omega
    rw [this]
  have hne : reps ≠ [] := by intro e; rw [e] at hlen; simp at hlen
  rw [syncFragment_eq H reps hlen]
  have hinv : Inv reps.length reps := ⟨rfl, hs, hc⟩
  apply fold_maj id reps hne _ reps hinv
  right
  refine ⟨fun i _ p _ => Iff.rfl, ?_⟩
  apply Classical.byContradiction
  intro hno
  apply hd
  apply agree_initial H hH reps.length reps hinv id
  intro e he hid
  cases hq : allEqual (e.2.map (Option.map (·.2))) with
  | true => rfl
  | false => exact absurd ⟨e, he, hid, hq⟩ hno

end
end PV.C11
