/-
C11 helper lemmas, part 4 (core Lean only): Blocks() lists are strictly ascending, and the walk of
syncFragment leaves all replicas agreeing on every block.
-/
import PV.C11.LemmasPass
namespace PV.C11
open List

/-! ### blockIds / blocksOf -/

theorem mem_blockIds (l : List P) (b : Nat) : b ∈ blockIds l ↔ ∃ p ∈ l, blockOf p = b := by
  induction l with
  | nil => simp [blockIds]
  | cons p ps ih =>
    have key : b ∈ blockIds (p :: ps) ↔ b = blockOf p ∨ b ∈ blockIds ps := by
      simp only [blockIds]
      cases hb : blockIds ps with
      | nil => simp
      | cons c cs =>
        simp only
        split
        · next h =>
          constructor
          · intro hh; exact Or.inr hh
          · rintro (hh | hh)
            · rw [hh, h]; simp
            · exact hh
        · simp [mem_cons]
    rw [key, ih]
    constructor
    · rintro (h | ⟨q, hq, e⟩)
      · exact ⟨p, by simp, h.symm⟩
      · exact ⟨q, by simp [hq], e⟩
    · rintro ⟨q, hq, e⟩
      rcases mem_cons.mp hq with rfl | hq
      · exact Or.inl e.symm
      · exact Or.inr ⟨q, hq, e⟩

theorem pos_lt_of_lt (a b : P) (hb : b.col < ShardWidth) (ha : a.col < ShardWidth) (h : P.lt a b) : pos a < pos b := by
  cases a with
  | mk r1 c1 =>
  cases b with
  | mk r2 c2 =>
  simp only [P.lt, pos, ShardWidth] at *
  rcases h with h | ⟨h1, h2⟩
  · have : (r1 + 1) * 1048576 ≤ r2 * 1048576 := Nat.mul_le_mul_right _ h
    omega
  · subst h1; omega

theorem blockOf_mono (a b : P) (h : pos a ≤ pos b) : blockOf a ≤ blockOf b :=
  Nat.div_le_div_right h

theorem blockIds_sorted (l : List P) (hs : Sorted l) (hc : Cols l) : (blockIds l).Pairwise (· < ·) := by
  induction l with
  | nil => simp [blockIds]
  | cons p ps ih =>
    unfold Sorted at hs
    have ⟨h1, h2⟩ := pairwise_cons.mp hs
    have hcp : Cols ps := fun q hq => hc q (mem_cons_of_mem _ hq)
    have ih := ih h2 hcp
    have hle : ∀ b ∈ blockIds ps, blockOf p ≤ b := by
      intro b hb
      obtain ⟨q, hq, rfl⟩ := (mem_blockIds ps b).mp hb
      exact blockOf_mono p q (Nat.le_of_lt (pos_lt_of_lt p q (hcp q hq) (hc p (by simp)) (h1 q hq)))
    simp only [blockIds]
    cases hb : blockIds ps with
    | nil => simp
    | cons c cs =>
      rw [hb] at ih hle
      simp only
      split
      · exact ih
      · next hne =>
        refine pairwise_cons.mpr ⟨?_, ih⟩
        intro b hbm
        have hc1 := hle c (by simp)
        have hpc : blockOf p < c := by omega
        simp only [mem_cons] at hbm
        rcases hbm with rfl | hbm
        · exact hpc
        · have := (pairwise_cons.mp ih).1 b hbm
          omega

theorem natLt_order : StrictOrder natLt where
  irrefl := by intro a; simp [natLt]
  trans := by intro a b c; simp only [natLt, decide_eq_true_eq]; omega
  total := by intro a b; simp only [natLt, decide_eq_true_eq]; omega

section
variable {κ : Type} [DecidableEq κ] (H : List P → κ)

theorem blocksOf_sorted (l : List P) (hs : Sorted l) (hc : Cols l) :
    SortedBy (fun b : Nat × κ => b.1) natLt (blocksOf H l) := by
  unfold SortedBy blocksOf
  rw [pairwise_map]
  have := blockIds_sorted l hs hc
  exact this.imp (by intro a b h; simpa [natLt] using h)

theorem lookup_blocksOf (l : List P) (id : Nat) :
    lookup (fun b : Nat × κ => b.1) id (blocksOf H l) =
      if id ∈ blockIds l then some (id, H (blockData id l)) else none := by
  unfold lookup blocksOf
  generalize blockIds l = ids
  induction ids with
  | nil => simp
  | cons a t ih =>
    simp only [map_cons, find?_cons]
    by_cases h : a = id
    · subst h; simp
    · simp only [h, decide_false, mem_cons]
      rw [ih]
      have : ¬ id = a := fun e => h e.symm
      simp [this]

/-- one step of the walk -/
def stepF (st : List (List P)) (e : Nat × List (Option (Nat × κ))) : List (List P) :=
  if allEqual (e.2.map (Option.map (·.2))) then st else syncBlock e.1 st

structure Inv (n : Nat) (st : List (List P)) : Prop where
  len : st.length = n
  sorted : AllSorted st
  cols : AllCols st

theorem stepF_inv (n : Nat) (st : List (List P)) (e : Nat × List (Option (Nat × κ))) (h : Inv n st) :
    Inv n (stepF st e) := by
  unfold stepF
  split
  · exact h
  · exact ⟨by rw [syncBlock_length, h.len], syncBlock_sorted _ _ h.sorted, syncBlock_cols _ _ h.sorted h.cols⟩

theorem stepF_preserve (n id : Nat) (st : List (List P)) (e : Nat × List (Option (Nat × κ))) (h : Inv n st)
    (ha : Agree id st) : Agree id (stepF st e) := by
  unfold stepF
  split
  · exact ha
  · exact syncBlock_preserve id _ st h.sorted h.cols ha

theorem fold_agree (n id : Nat) (evs : List (Nat × List (Option (Nat × κ)))) (st : List (List P)) (h : Inv n st)
    (hor : Agree id st ∨ ∃ e ∈ evs, e.1 = id ∧ allEqual (e.2.map (Option.map (·.2))) = false) :
    Agree id (evs.foldl stepF st) := by
  induction evs generalizing st with
  | nil =>
    rcases hor with h1 | ⟨e, he, _⟩
    · exact h1
    · cases he
  | cons e evs ih =>
    simp only [foldl_cons]
    apply ih _ (stepF_inv n st e h)
    rcases hor with h1 | ⟨e', he', hid, hne⟩
    · exact Or.inl (stepF_preserve n id st e h h1)
    · simp only [mem_cons] at he'
      rcases he' with rfl | he'
      · left
        unfold stepF
        rw [hne, hid]
        simp only [Bool.false_eq_true, if_false]
        exact syncBlock_agree id st h.sorted h.cols
      · exact Or.inr ⟨e', he', hid, hne⟩

theorem fold_inv (n : Nat) (evs : List (Nat × List (Option (Nat × κ)))) (st : List (List P)) (h : Inv n st) :
    Inv n (evs.foldl stepF st) := by
  induction evs generalizing st with
  | nil => exact h
  | cons e evs ih => exact ih _ (stepF_inv n st e h)

theorem allEqual_spec {β : Type} [DecidableEq β] (l : List (Option β)) (h : allEqual l = true) :
    ∀ x ∈ l, ∀ y ∈ l, x = y := by
  cases l with
  | nil => intro x hx; cases hx
  | cons c cs =>
    simp only [allEqual, all_eq_true, decide_eq_true_eq] at h
    intro x hx y hy
    have hx' : x = c := by
      simp only [mem_cons] at hx; rcases hx with rfl | hx
      · rfl
      · exact h x hx
    have hy' : y = c := by
      simp only [mem_cons] at hy; rcases hy with rfl | hy
      · rfl
      · exact h y hy
    rw [hx', hy']

/-- no replica has a bit in a block whose id it does not list -/
theorem not_mem_of_not_blockId (l : List P) (hc : Cols l) (id : Nat) (h : id ∉ blockIds l) (p : P)
    (hp : inBlock id p = true) : p ∉ l := by
  intro hm
  apply h
  rw [mem_blockIds]
  exact ⟨p, hm, inBlock_unique _ _ p (hc p hm) (inBlock_blockOf p (hc p hm)) hp⟩

theorem agree_initial (hH : Function.Injective H) (n : Nat) (st : List (List P)) (h : Inv n st) (id : Nat)
    (hall : ∀ e ∈ kway (fun b : Nat × κ => b.1) natLt (totalLen (st.map (blocksOf H))) (st.map (blocksOf H)),
      e.1 = id → allEqual (e.2.map (Option.map (·.2))) = true) :
    Agree id st := by
  have hsb : ∀ l ∈ st.map (blocksOf H), SortedBy (fun b : Nat × κ => b.1) natLt l := by
    intro l hl; obtain ⟨l0, hl0, rfl⟩ := mem_map.mp hl
    exact blocksOf_sorted H l0 (h.sorted l0 hl0) (h.cols l0 hl0)
  obtain ⟨k1, k2⟩ := kway_spec natLt_order _ _ hsb (Nat.le_refl _)
  -- the checksum replica `l` reports for block id
  let cs : List P → Option κ := fun l => if id ∈ blockIds l then some (H (blockData id l)) else none
  -- all replicas report the same
  have hsame : ∀ l₁ ∈ st, ∀ l₂ ∈ st, cs l₁ = cs l₂ := by
    by_cases hex : ∃ e ∈ kway (fun b : Nat × κ => b.1) natLt (totalLen (st.map (blocksOf H))) (st.map (blocksOf H)), e.1 = id
    · obtain ⟨e, he, hid⟩ := hex
      have heq := allEqual_spec _ (hall e he hid)
      obtain ⟨h2, _⟩ := k1 e he
      intro l₁ h₁ l₂ h₂
      have m : ∀ l ∈ st, cs l ∈ e.2.map (Option.map (·.2)) := by
        intro l hl
        rw [h2, map_map, map_map]
        refine mem_map.mpr ⟨l, hl, ?_⟩
        simp only [Function.comp, hid, lookup_blocksOf, cs]
        split <;> simp
      exact heq _ (m l₁ h₁) _ (m l₂ h₂)
    · have : ∀ l ∈ st, id ∉ blockIds l := by
        intro l hl hmem
        apply hex
        have : (id, H (blockData id l)) ∈ blocksOf H l := by
          unfold blocksOf; exact mem_map.mpr ⟨id, hmem, rfl⟩
        obtain ⟨e, he, hek⟩ := k2 _ (mem_map.mpr ⟨l, hl, rfl⟩) _ this
        exact ⟨e, he, hek⟩
      intro l₁ h₁ l₂ h₂
      simp [cs, this l₁ h₁, this l₂ h₂]
  intro i j hi hj p hp
  have key : ∀ li ∈ st, ∀ lj ∈ st, (p ∈ li ↔ p ∈ lj) := by
    intro li hli lj hlj
    have := hsame li hli lj hlj
    simp only [cs] at this
    by_cases hbi : id ∈ blockIds li
    · by_cases hbj : id ∈ blockIds lj
      · simp only [hbi, hbj, if_true, Option.some.injEq] at this
        have := hH this
        have e1 := mem_blockData id _ (h.cols _ hli) p
        have e2 := mem_blockData id _ (h.cols _ hlj) p
        rw [this] at e1
        simp only [hp, and_true] at e1 e2
        rw [← e1, e2]
      · simp [hbi, hbj] at this
    · by_cases hbj : id ∈ blockIds lj
      · simp [hbi, hbj] at this
      · have a := not_mem_of_not_blockId _ (h.cols _ hli) id hbi p hp
        have b := not_mem_of_not_blockId _ (h.cols _ hlj) id hbj p hp
        exact ⟨fun h => absurd h a, fun h => absurd h b⟩
  exact key _ (getD_mem st i hi) _ (getD_mem st j hj)

theorem syncFragment_eq (st : List (List P)) (h : ¬ st.length ≤ 1) :
    syncFragment H st =
      (kway (fun b : Nat × κ => b.1) natLt (totalLen (st.map (blocksOf H))) (st.map (blocksOf H))).foldl stepF st := by
  unfold syncFragment
  simp only [h, if_false]
  rfl

/-- after syncFragment all replicas hold the same fragment -/
theorem syncFragment_equal (hH : Function.Injective H) (st : List (List P)) (hs : AllSorted st) (hc : AllCols st)
    (i j : Nat) (hi : i < st.length) (hj : j < st.length) :
    (syncFragment H st).getD i [] = (syncFragment H st).getD j [] := by
  by_cases hlen : st.length ≤ 1
  · have : i = j := by omega
    rw [this]
  · rw [syncFragment_eq H st hlen]
    have hinv : Inv st.length st := ⟨rfl, hs, hc⟩
    generalize hev : kway (fun b : Nat × κ => b.1) natLt (totalLen (st.map (blocksOf H))) (st.map (blocksOf H)) = evs
    have hfin := fold_inv st.length evs st hinv
    have hagree : ∀ id, Agree id (evs.foldl stepF st) := by
      intro id
      apply fold_agree st.length id evs st hinv
      by_cases hex : ∃ e ∈ evs, e.1 = id ∧ allEqual (e.2.map (Option.map (·.2))) = false
      · exact Or.inr hex
      · left
        apply agree_initial H hH st.length st hinv id
        rw [hev]
        intro e he hid
        cases hq : allEqual (e.2.map (Option.map (·.2))) with
        | true => rfl
        | false => exact absurd ⟨e, he, hid, hq⟩ hex
    have hi' : i < (evs.foldl stepF st).length := by rw [hfin.len]; exact hi
    have hj' : j < (evs.foldl stepF st).length := by rw [hfin.len]; exact hj
    apply sorted_ext _ _ (sorted_getD _ hfin.sorted i) (sorted_getD _ hfin.sorted j)
    intro p
    by_cases hcol : p.col < ShardWidth
    · exact hagree (blockOf p) i j hi' hj' p (inBlock_blockOf p hcol)
    · have a : p ∉ (evs.foldl stepF st).getD i [] := fun hm => hcol (cols_getD _ hfin.cols i p hm)
      have b : p ∉ (evs.foldl stepF st).getD j [] := fun hm => hcol (cols_getD _ hfin.cols j p hm)
      exact ⟨fun h => absurd h a, fun h => absurd h b⟩

end
end PV.C11
