/-
C11 spec: what anti-entropy must achieve, with no reference to iterators, diffs or requests.

A bit is in the repaired block iff it is set on at least half of the replicas (tie => set).
After a pass every replica holds, in every view, exactly the per-bit majority.
-/
import PV.C11.Model
namespace PV.C11.Spec
open PV.C11

/-- number of replicas holding `p`. -/
def votes (reps : List (List P)) (p : P) : Nat := reps.countP (fun l => decide (p ∈ l))

/-- per-bit majority, ties resolved as set. -/
def majority (reps : List (List P)) (p : P) : Bool := decide (2 * votes reps p ≥ reps.length)

/-- sorted duplicate-free union of all replicas (candidates for the majority). -/
def allBits (reps : List (List P)) : List P :=
  reps.foldl (fun acc l => l.foldl (fun a p => insertP p a) acc) []

/-- the majority as a sorted list. -/
def majorityList (reps : List (List P)) : List P := (allBits reps).filter (majority reps)

/-- what replica `l` must hold after block `id` was repaired: untouched outside the block, the
majority inside it. -/
def repaired (id : Nat) (reps : List (List P)) (l : List P) : List P :=
  ((allBits (l :: reps)).filter (fun p => if inBlock id p then majority reps p else decide (p ∈ l)))

/-- minimal diffs: what has to be set / cleared on replica `l` for block `id`. -/
def needSets (id : Nat) (reps : List (List P)) (l : List P) : List P :=
  (allBits reps).filter (fun p => inBlock id p && majority reps p && !decide (p ∈ l))

def needClears (id : Nat) (reps : List (List P)) (l : List P) : List P :=
  (allBits reps).filter (fun p => inBlock id p && !majority reps p && decide (p ∈ l))

/-- view names occurring on any replica, in first-occurrence order. -/
def viewNames (st : List Views) : List (List Char) :=
  st.foldl (fun acc vs => vs.foldl (fun a e => if a.contains e.1 then a else a ++ [e.1]) acc) []

/-- after a complete pass: every replica holds the majority of every view (a replica without the
view votes with the empty set). -/
def passed (st : List Views) (v : List Char) : List P :=
  majorityList (st.map (fun vs => (getView vs v).getD []))

end PV.C11.Spec
