/-
C11 property theorems.  Core Lean only.

Property: for any number of replicas of a shard and any divergent contents in any view, a completed
anti-entropy pass leaves every replica holding, in each block that differed, exactly the bits set on
a majority of replicas, ties resolved as set; the repairs land in the same view they were computed
for; afterwards all replicas report identical block checksums.

The model (Model.lean) follows fragment.go AFTER three `fix:` commits (clears built from clears,
clears sent to the synced view, limit = last pair of the block); with them every statement below is
proved at full strength.  The pre-fix witnesses are replayed from corpus/C11/.

Hypotheses that appear below and what they mean for the code:
  `Sorted l`   a replica's data is a strictly ascending pair list: what `roaringIterator` over the
               fragment storage and `blockData` (ForEachRange) produce;
  `Cols l`     columns are shard-relative (< ShardWidth);
  `Function.Injective H`   the block checksum has no collisions ("up to collisions" in the text).
-/
import PV.C11.LemmasMajority
namespace PV.C11
open List

/-- **C11_merge.**  mergeBlock for block `id` on the local fragment `loc` and ANY number of remote
pair sets `data` with ANY contents: after the local changes and after applying the returned diffs
to the remote data, every replica holds inside the block exactly the per-bit majority (tie => set)
and is unchanged outside the block. -/
theorem C11_merge (id : Nat) (loc : List P) (data : List (List P)) (hs : ∀ l ∈ loc :: data, Sorted l) :
    let r := mergeBlock id loc data
    (∀ p, p ∈ r.localAfter ↔
        (if inBlock id p = true then Spec.majority (loc :: data) p = true else p ∈ loc)) ∧
    (∀ i, i < data.length → ∀ p,
        p ∈ applyDiff (data.getD i []) (r.sets.getD i []) (r.clears.getD i []) ↔
        (if inBlock id p = true then Spec.majority (loc :: data) p = true else p ∈ data.getD i [])) := by
  intro r
  constructor
  · intro p
    have := merge_general id (loc :: data) hs (by simp) 0 loc (by simp) (by simpa using hs loc (by simp)) p
    simpa [r, mergeBlock] using this
  · intro i hi p
    have := merge_general id (loc :: data) hs (by simp) (i + 1) (data.getD i []) (by simp)
      (sorted_getD _ hs (i + 1)) p
    simp only [r, mergeBlock]
    rw [getD_range_map data.length _ [] i hi, getD_range_map data.length _ [] i hi]
    exact this

/-- The diffs are sent to a replica only for bits of the block, and never both set and cleared. -/
theorem C11_merge_diffs_disjoint (id : Nat) (loc : List P) (data : List (List P))
    (hs : ∀ l ∈ loc :: data, Sorted l) (i : Nat) (p : P) :
    let es := mergeEvents ((loc :: data).map (blockItr id))
    ¬ (p ∈ setsOf i es ∧ p ∈ clearsOf i es) := by
  intro es
  have hs' : ∀ l ∈ (loc :: data).map (blockItr id), Sorted l := by
    intro l hl; obtain ⟨l0, hl0, rfl⟩ := mem_map.mp hl; exact sorted_blockItr id l0 (hs l0 hl0)
  rintro ⟨h1, h2⟩
  have a := (mem_setsOf _ hs' (by simp) i p).mp h1
  have b := (mem_clearsOf _ hs' i p).mp h2
  rw [a.1] at b; cases b.1

/-- **C11_merge at the level of syncBlock** (one fragment per replica, local first): remotes answer
`blockData`, the diffs are applied to the whole remote fragments. -/
theorem C11_syncBlock (id : Nat) (reps : List (List P)) (hs : ∀ l ∈ reps, Sorted l)
    (hc : ∀ l ∈ reps, Cols l) (i : Nat) (hi : i < reps.length) (p : P) :
    p ∈ (syncBlock id reps).getD i [] ↔
      (if inBlock id p = true then Spec.majority reps p = true else p ∈ reps.getD i []) :=
  syncBlock_spec id reps hs hc i hi p

/-- Ties are resolved as set: a bit held by exactly half of an even number of replicas is in the majority. -/
theorem C11_tie_is_set (reps : List (List P)) (p : P) (h : 2 * Spec.votes reps p = reps.length) :
    Spec.majority reps p = true := by
  unfold Spec.majority; apply decide_eq_true; omega

/-! ### views -/

theorem stripPrefix_append (pre s : List Char) : stripPrefix pre (pre ++ s) = some s := by
  induction pre with
  | nil => cases s <;> rfl
  | cons a as ih => simp [stripPrefix, ih]

/-- a view syncBlock may be asked to repair: the standard view or a time view `standard_<suffix>` -/
def StandardOrTime (view : List Char) : Prop :=
  view = viewStandard ∨ ∃ s, s ≠ [] ∧ view = viewStandard ++ ['_'] ++ s

theorem view_roundtrip (view : List Char) (hv : StandardOrTime view) :
    importViewName (cleanViewName view) = view := by
  rcases hv with rfl | ⟨s, hs, rfl⟩
  · decide
  · have : cleanViewName (viewStandard ++ ['_'] ++ s) = s := by
      unfold cleanViewName; rw [stripPrefix_append]
    rw [this]; simp [importViewName, hs]

/-- **C11_views.**  Every request syncBlock sends for view `v` (sets AND clears) carries a view key
that the receiving importWorker maps back to `v`: the repair lands in the view it was computed for. -/
theorem C11_views (view : List Char) (hv : StandardOrTime view) (r : MergeResult) :
    ∀ q ∈ syncBlockReqs view r, importViewName q.view = view := by
  intro q hq
  simp only [syncBlockReqs, mem_flatten, mem_map, mem_range] at hq
  obtain ⟨l, ⟨i, _, rfl⟩, hq⟩ := hq
  simp only [mem_append] at hq
  rcases hq with hq | hq
  · split at hq
    · cases hq
    · simp only [mem_singleton] at hq; subst hq; exact view_roundtrip view hv
  · split at hq
    · cases hq
    · simp only [mem_singleton] at hq; subst hq; exact view_roundtrip view hv

theorem find_map_ne (vs : Views) (v w : List Char) (l : List P) (hw : w ≠ v) :
    find? (fun x => decide (x.1 = w)) (vs.map (fun e => if e.1 = v then (v, l) else e)) =
      find? (fun x => decide (x.1 = w)) vs := by
  induction vs with
  | nil => rfl
  | cons e es ih =>
    rw [map_cons, find?_cons, find?_cons, ih]
    by_cases h1 : e.1 = v
    · have h3 : decide (e.1 = w) = false := decide_eq_false (fun h => hw (h ▸ h1))
      have h4 : decide (v = w) = false := decide_eq_false (fun h => hw h.symm)
      rw [if_pos h1, h3]
      show (match decide (v = w) with | true => _ | false => _) = _
      rw [h4]
    · rw [if_neg h1]

theorem getView_setView_ne (vs : Views) (v w : List Char) (l : List P) (hw : w ≠ v) :
    getView (setView vs v l) w = getView vs w := by
  unfold setView getView
  split
  · rw [find_map_ne vs v w l hw]
  · simp [find?_append, Ne.symm hw]

theorem getView_setView_eq (vs : Views) (v : List Char) (l : List P) :
    getView (setView vs v l) v = some l := by
  unfold setView getView
  split
  · next h =>
    induction vs with
    | nil => simp at h
    | cons e es ih =>
      simp only [map_cons, find?_cons]
      by_cases h1 : e.1 = v
      · simp [h1]
      · simp only [h1, if_false, decide_false]
        apply ih
        simpa [h1] using h
  · next h =>
    have : find? (fun x => decide (x.1 = v)) vs = none := by
      rw [find?_eq_none]; intro x hx
      simp only [any_eq_true, decide_eq_true_eq, not_exists, not_and] at h
      simpa using h x hx
    simp [find?_append, this]

/-- and a receiving replica applies the request to exactly that view (bits added for a set request,
removed for a clear request) and leaves its other views alone. -/
theorem C11_views_apply (vs : Views) (q : Req) :
    (∀ w, w ≠ importViewName q.view → getView (applyReq vs q) w = getView vs w) ∧
    (∀ p, p ∈ (getView (applyReq vs q) (importViewName q.view)).getD [] ↔
      if q.clear = true then (p ∈ (getView vs (importViewName q.view)).getD [] ∧ p ∉ q.bits)
      else (p ∈ (getView vs (importViewName q.view)).getD [] ∨ p ∈ q.bits)) := by
  constructor
  · intro w hw
    unfold applyReq
    exact getView_setView_ne _ _ _ _ hw
  · intro p
    unfold applyReq
    simp only [getView_setView_eq, Option.getD_some]
    cases q.clear with
    | true => simp [mem_applyDiff]
    | false => simp [mem_applyDiff]

/-! ### the pass -/

/-- **C11_pass.**  After `fragmentSyncer.syncFragment` all replicas hold the same fragment, hence
report identical `Blocks()` (ids and checksums). Any number of replicas, any contents. -/
theorem C11_pass {κ : Type} [DecidableEq κ] (H : List P → κ) (hH : Function.Injective H)
    (reps : List (List P)) (hs : ∀ l ∈ reps, Sorted l) (hc : ∀ l ∈ reps, Cols l)
    (i j : Nat) (hi : i < reps.length) (hj : j < reps.length) :
    (syncFragment H reps).getD i [] = (syncFragment H reps).getD j [] ∧
    blocksOf H ((syncFragment H reps).getD i []) = blocksOf H ((syncFragment H reps).getD j []) := by
  have := syncFragment_equal H hH reps hs hc i j hi hj
  exact ⟨this, by rw [this]⟩

/-- **C11_pass_majority.**  In each block on which the replicas differed, every replica ends the
pass holding exactly the bits set on a majority of the replicas' ORIGINAL contents (tie => set). -/
theorem C11_pass_majority {κ : Type} [DecidableEq κ] (H : List P → κ) (hH : Function.Injective H)
    (reps : List (List P)) (hs : ∀ l ∈ reps, Sorted l) (hc : ∀ l ∈ reps, Cols l)
    (id : Nat) (hd : ¬ Agree id reps) (i : Nat) (hi : i < reps.length) (p : P) (hp : inBlock id p = true) :
    p ∈ (syncFragment H reps).getD i [] ↔ Spec.majority reps p = true :=
  syncFragment_majority H hH reps hs hc id hd i hi p hp

/-- a block on which the replicas agreed keeps its contents (nothing is repaired that was not broken) -/
theorem C11_pass_sorted {κ : Type} [DecidableEq κ] (H : List P → κ)
    (reps : List (List P)) (hs : ∀ l ∈ reps, Sorted l) (hc : ∀ l ∈ reps, Cols l) :
    (∀ l ∈ syncFragment H reps, Sorted l) ∧ (syncFragment H reps).length = reps.length := by
  by_cases hlen : reps.length ≤ 1
  · unfold syncFragment; simp only [hlen, if_true]; exact ⟨hs, trivial⟩
  · rw [syncFragment_eq H reps hlen]
    have := fold_inv (κ := κ) reps.length
      (kway (fun b : Nat × κ => b.1) natLt (totalLen (reps.map (blocksOf H))) (reps.map (blocksOf H))) reps ⟨rfl, hs, hc⟩
    exact ⟨this.sorted, this.len⟩

/-! ### non-vacuity: concrete states satisfying the hypotheses, exercising sets+clears on one replica -/

-- local {0.1}, remote0 {0.2,0.3} needs one set and two clears, remotes 1,2 {0.1}
example :
    let r := mergeBlock 0 [⟨0,1⟩] [[⟨0,2⟩,⟨0,3⟩], [⟨0,1⟩], [⟨0,1⟩]]
    r.sets = [[⟨0,1⟩], [], []] ∧ r.clears = [[⟨0,2⟩,⟨0,3⟩], [], []] ∧ r.localAfter = [⟨0,1⟩] := by decide

-- the replayed defect #6 (local {1,2}, two remotes {3}) now ends with the majority {3}
example : (mergeBlock 0 [⟨0,1⟩,⟨0,2⟩] [[⟨0,3⟩], [⟨0,3⟩]]).localAfter = [⟨0,3⟩] := by decide

-- the first row of the next block is no longer voted on with block 0
example : (mergeBlock 0 [⟨0,1⟩,⟨100,5⟩] [[], []]).localAfter = [⟨100,5⟩] := by decide

example : Sorted [⟨0,1⟩,⟨0,2⟩,⟨99,1048575⟩,⟨100,0⟩] := by unfold Sorted; decide
example : StandardOrTime "standard_2019".toList := Or.inr ⟨"2019".toList, by decide, by decide⟩
example : importViewName (cleanViewName "bsig_f".toList) ≠ "bsig_f".toList := by decide

end PV.C11
