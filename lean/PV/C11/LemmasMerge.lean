/-
C11 helper lemmas, part 2 (core Lean only): mergeEvents / setsOf / clearsOf / applyDiff in terms of
membership and majority; seek/limit as filters on sorted lists; insertP/eraseP keep lists sorted;
sorted lists with the same members are equal.
-/
import PV.C11.Lemmas
namespace PV.C11
open List

/-- a fragment / pair set as the iterators see it: strictly ascending -/
def Sorted (l : List P) : Prop := l.Pairwise P.lt

theorem ltb_order : StrictOrder P.ltb where
  irrefl := by intro a; cases a; simp [P.ltb, P.lt]
  trans := by
    intro a b c h1 h2
    have h1 := of_decide_eq_true h1
    have h2 := of_decide_eq_true h2
    apply decide_eq_true
    cases a; cases b; cases c
    simp only [P.lt] at *; omega
  total := by
    intro a b
    have : P.lt a b ∨ a = b ∨ P.lt b a := by
      cases a; cases b; simp only [P.lt, P.mk.injEq]; omega
    rcases this with h | h | h
    · exact Or.inl (decide_eq_true h)
    · exact Or.inr (Or.inl h)
    · exact Or.inr (Or.inr (decide_eq_true h))

theorem sortedBy_iff (l : List P) : SortedBy (fun p : P => p) P.ltb l ↔ Sorted l := by
  unfold SortedBy Sorted
  simp [P.ltb]

theorem lookup_isSome (p : P) (l : List P) :
    (lookup (fun p : P => p) p l).isSome = decide (p ∈ l) := by
  unfold lookup
  induction l with
  | nil => simp
  | cons a t ih =>
    simp only [find?_cons]
    by_cases h : a = p
    · simp [h]
    · simp only [h, decide_false, mem_cons]
      rw [ih]
      have : ¬ p = a := fun e => h e.symm
      simp [this]

theorem count_true_map (f : List P → Bool) (ls : List (List P)) :
    (ls.map f).count true = ls.countP f := by
  induction ls with
  | nil => rfl
  | cons a t ih =>
    simp only [map_cons, count_cons, countP_cons, ih]
    cases f a <;> simp

theorem getD_map_decide (p : P) (ls : List (List P)) (i : Nat) :
    (ls.map (fun l => decide (p ∈ l))).getD i false = decide (p ∈ ls.getD i []) := by
  induction ls generalizing i with
  | nil => simp
  | cons a t ih =>
    cases i with
    | zero => simp
    | succ i => simpa using ih i

/-- What the voting loop computes, event by event. -/
theorem mergeEvents_spec (itrs : List (List P)) (hs : ∀ l ∈ itrs, Sorted l) :
    (∀ e ∈ mergeEvents itrs,
        e.values = itrs.map (fun l => decide (e.p ∈ l)) ∧
        e.newValue = Spec.majority itrs e.p ∧ ∃ l ∈ itrs, e.p ∈ l) ∧
    (∀ l ∈ itrs, ∀ p ∈ l, ∃ e ∈ mergeEvents itrs, e.p = p) := by
  have hs' : ∀ l ∈ itrs, SortedBy (fun p : P => p) P.ltb l := fun l hl => (sortedBy_iff l).mpr (hs l hl)
  obtain ⟨k1, k2⟩ := kway_spec ltb_order (totalLen itrs) itrs hs' (Nat.le_refl _)
  constructor
  · intro e he
    simp only [mergeEvents, mem_map] at he
    obtain ⟨⟨k, heads⟩, hk, rfl⟩ := he
    obtain ⟨h1, l, hl, a, ha, hak⟩ := k1 _ hk
    simp only at h1 hak
    subst hak
    have hv : map Option.isSome heads = itrs.map (fun l => decide (a ∈ l)) := by
      rw [h1, map_map]
      apply map_congr_left
      intro l _
      exact lookup_isSome a l
    refine ⟨hv, ?_, l, hl, ha⟩
    simp only [hv, count_true_map, Spec.majority, Spec.votes]
    apply decide_eq_decide.mpr
    omega
  · intro l hl p hp
    obtain ⟨e, he, hek⟩ := k2 l hl p hp
    refine ⟨_, mem_map.mpr ⟨e, he, rfl⟩, ?_⟩
    simpa using hek

theorem majority_exists (itrs : List (List P)) (p : P) (hne : itrs ≠ [])
    (h : Spec.majority itrs p = true) : ∃ l ∈ itrs, p ∈ l := by
  have h := of_decide_eq_true h
  simp only [Spec.votes] at h
  have : 0 < itrs.countP (fun l => decide (p ∈ l)) := by
    have : 0 < itrs.length := length_pos_iff.mpr hne
    omega
  obtain ⟨l, hl, hp⟩ := countP_pos_iff.mp this
  exact ⟨l, hl, by simpa using hp⟩

theorem mem_setsOf (itrs : List (List P)) (hs : ∀ l ∈ itrs, Sorted l) (hne : itrs ≠ []) (i : Nat) (p : P) :
    p ∈ setsOf i (mergeEvents itrs) ↔ Spec.majority itrs p = true ∧ p ∉ itrs.getD i [] := by
  obtain ⟨m1, m2⟩ := mergeEvents_spec itrs hs
  simp only [setsOf, mem_filterMap]
  constructor
  · rintro ⟨e, he, h⟩
    obtain ⟨hv, hn, _⟩ := m1 e he
    split at h
    · next hc =>
      cases h
      rw [hv, getD_map_decide, hn] at hc
      cases hm : Spec.majority itrs e.p <;> simp_all
    · cases h
  · rintro ⟨hm, hni⟩
    obtain ⟨l, hl, hp⟩ := majority_exists itrs p hne hm
    obtain ⟨e, he, rfl⟩ := m2 l hl p hp
    obtain ⟨hv, hn, _⟩ := m1 e he
    refine ⟨e, he, ?_⟩
    rw [hv, getD_map_decide, hn, hm]
    have : decide (e.p ∈ itrs.getD i []) = false := by simpa using hni
    rw [this]; rfl

theorem mem_clearsOf (itrs : List (List P)) (hs : ∀ l ∈ itrs, Sorted l) (i : Nat) (p : P) :
    p ∈ clearsOf i (mergeEvents itrs) ↔ Spec.majority itrs p = false ∧ p ∈ itrs.getD i [] := by
  obtain ⟨m1, m2⟩ := mergeEvents_spec itrs hs
  simp only [clearsOf, mem_filterMap]
  constructor
  · rintro ⟨e, he, h⟩
    obtain ⟨hv, hn, _⟩ := m1 e he
    split at h
    · next hc =>
      cases h
      rw [hv, getD_map_decide, hn] at hc
      cases hm : Spec.majority itrs e.p <;> simp_all
    · cases h
  · rintro ⟨hm, hi⟩
    have hl : itrs.getD i [] ∈ itrs := by
      rw [getD_eq_getElem?_getD]
      cases h : itrs[i]? with
      | none => rw [getD_eq_getElem?_getD, h] at hi; simp at hi
      | some l => simp only [Option.getD_some]; exact mem_of_getElem? h
    obtain ⟨e, he, rfl⟩ := m2 _ hl p hi
    obtain ⟨hv, hn, _⟩ := m1 e he
    refine ⟨e, he, ?_⟩
    rw [hv, getD_map_decide, hn, hm]
    have : decide (e.p ∈ itrs.getD i []) = true := by simpa using hi
    rw [this]; rfl

/-! ### insertP / eraseP / applyDiff -/

theorem mem_insertP (p q : P) (l : List P) : q ∈ insertP p l ↔ q = p ∨ q ∈ l := by
  induction l with
  | nil => simp [insertP]
  | cons a t ih =>
    simp only [insertP]
    split
    · simp
    · split
      · next h => subst h; simp
      · simp only [mem_cons, ih]
        constructor
        · rintro (h | h | h) <;> simp [h]
        · rintro (h | h | h) <;> simp [h]

theorem mem_eraseP (p q : P) (l : List P) : q ∈ eraseP p l ↔ q ≠ p ∧ q ∈ l := by
  simp [eraseP, and_comm]

theorem mem_foldl_insertP (s l : List P) (q : P) :
    q ∈ s.foldl (fun acc p => insertP p acc) l ↔ q ∈ s ∨ q ∈ l := by
  induction s generalizing l with
  | nil => simp
  | cons a t ih =>
    simp only [foldl_cons, ih, mem_insertP, mem_cons]
    constructor
    · rintro (h | h | h) <;> simp [h]
    · rintro ((h | h) | h) <;> simp [h]

theorem mem_foldl_eraseP (c l : List P) (q : P) :
    q ∈ c.foldl (fun acc p => eraseP p acc) l ↔ q ∉ c ∧ q ∈ l := by
  induction c generalizing l with
  | nil => simp
  | cons a t ih =>
    simp only [foldl_cons, ih, mem_eraseP, mem_cons, not_or]
    constructor
    · rintro ⟨h1, h2, h3⟩; exact ⟨⟨h2, h1⟩, h3⟩
    · rintro ⟨⟨h2, h1⟩, h3⟩; exact ⟨h1, h2, h3⟩

theorem mem_applyDiff (l s c : List P) (q : P) :
    q ∈ applyDiff l s c ↔ (q ∈ l ∨ q ∈ s) ∧ q ∉ c := by
  simp only [applyDiff, mem_foldl_eraseP, mem_foldl_insertP]
  constructor
  · rintro ⟨h1, h2 | h2⟩ <;> simp [h1, h2]
  · rintro ⟨h1 | h1, h2⟩ <;> simp [h1, h2]

theorem lt_irrefl (a : P) : ¬ P.lt a a := by cases a; simp [P.lt]
theorem lt_trans {a b c : P} : P.lt a b → P.lt b c → P.lt a c := by
  cases a; cases b; cases c; simp only [P.lt]; omega
theorem lt_total (a b : P) : P.lt a b ∨ a = b ∨ P.lt b a := by
  cases a; cases b; simp only [P.lt, P.mk.injEq]; omega

theorem sorted_insertP (p : P) (l : List P) (h : Sorted l) : Sorted (insertP p l) := by
  induction l with
  | nil => simp [insertP, Sorted]
  | cons a t ih =>
    unfold Sorted at *
    simp only [insertP]
    have ⟨h1, h2⟩ := pairwise_cons.mp h
    split
    · next hlt =>
      refine pairwise_cons.mpr ⟨?_, h⟩
      intro b hb
      simp only [mem_cons] at hb
      rcases hb with rfl | hb
      · exact hlt
      · exact lt_trans hlt (h1 b hb)
    · next hnlt =>
      split
      · exact h
      · next hne =>
        refine pairwise_cons.mpr ⟨?_, ih h2⟩
        intro b hb
        rcases (mem_insertP p b t).mp hb with rfl | hb
        · rcases lt_total b a with h | h | h
          · exact absurd h hnlt
          · exact absurd h hne
          · exact h
        · exact h1 b hb

theorem sorted_eraseP (p : P) (l : List P) (h : Sorted l) : Sorted (eraseP p l) :=
  Pairwise.filter _ h

theorem sorted_applyDiff (l s c : List P) (h : Sorted l) : Sorted (applyDiff l s c) := by
  unfold applyDiff
  have h1 : Sorted (s.foldl (fun acc p => insertP p acc) l) := by
    induction s generalizing l with
    | nil => exact h
    | cons a t ih => exact ih _ (sorted_insertP a l h)
  generalize (s.foldl (fun acc p => insertP p acc) l) = m at h1
  induction c generalizing m with
  | nil => exact h1
  | cons a t ih => exact ih _ (sorted_eraseP a m h1)

/-- strictly sorted lists are determined by their members -/
theorem sorted_ext (l₁ l₂ : List P) (h₁ : Sorted l₁) (h₂ : Sorted l₂)
    (h : ∀ p, p ∈ l₁ ↔ p ∈ l₂) : l₁ = l₂ := by
  induction l₁ generalizing l₂ with
  | nil =>
    cases l₂ with
    | nil => rfl
    | cons b t => have := (h b).mpr (by simp); cases this
  | cons a t ih =>
    cases l₂ with
    | nil => have := (h a).mp (by simp); cases this
    | cons b u =>
      unfold Sorted at *
      have ⟨ha, hta⟩ := pairwise_cons.mp h₁
      have ⟨hb, hub⟩ := pairwise_cons.mp h₂
      have hab : a = b := by
        have h1 := (h a).mp (by simp)
        have h2 := (h b).mpr (by simp)
        simp only [mem_cons] at h1 h2
        rcases h1 with h1 | h1
        · exact h1
        · rcases h2 with h2 | h2
          · exact h2.symm
          · exact absurd (lt_trans (hb a h1) (ha b h2)) (lt_irrefl b)
      subst hab
      congr 1
      apply ih u hta hub
      intro p
      constructor
      · intro hp
        have := (h p).mp (mem_cons_of_mem _ hp)
        simp only [mem_cons] at this
        rcases this with rfl | this
        · exact absurd (ha p hp) (lt_irrefl p)
        · exact this
      · intro hp
        have := (h p).mpr (mem_cons_of_mem _ hp)
        simp only [mem_cons] at this
        rcases this with rfl | this
        · exact absurd (hb p hp) (lt_irrefl p)
        · exact this

/-! ### seek / limit on sorted lists -/

theorem dropWhile_eq_filter (q : P → Bool) (l : List P) (h : Sorted l)
    (up : ∀ a b, P.lt a b → q a = true → q b = true) :
    l.dropWhile (fun p => !q p) = l.filter q := by
  induction l with
  | nil => rfl
  | cons a t ih =>
    unfold Sorted at *
    have ⟨h1, h2⟩ := pairwise_cons.mp h
    simp only [dropWhile_cons, filter_cons]
    cases hq : q a with
    | false => simpa using ih h2
    | true =>
      simp only [Bool.not_true, Bool.false_eq_true, if_false, if_true]
      congr 1
      symm
      apply filter_eq_self.mpr
      intro b hb
      exact up a b (h1 b hb) hq

theorem takeWhile_eq_filter (q : P → Bool) (l : List P) (h : Sorted l)
    (down : ∀ a b, P.lt a b → q b = true → q a = true) :
    l.takeWhile q = l.filter q := by
  induction l with
  | nil => rfl
  | cons a t ih =>
    unfold Sorted at *
    have ⟨h1, h2⟩ := pairwise_cons.mp h
    simp only [takeWhile_cons, filter_cons]
    cases hq : q a with
    | true => simp [ih h2]
    | false =>
      simp only [Bool.false_eq_true, if_false]
      symm
      apply filter_eq_nil_iff.mpr
      intro b hb hqb
      have := down a b (h1 b hb) hqb
      rw [hq] at this; cases this

theorem blockItr_eq_filter (id : Nat) (l : List P) (h : Sorted l) :
    blockItr id l = l.filter (inBlock id) := by
  unfold blockItr seek limit
  rw [dropWhile_eq_filter _ l h, takeWhile_eq_filter _ _ (Pairwise.filter _ h), filter_filter]
  · apply filter_congr
    intro p _
    simp [inBlock, Bool.and_comm]
  · intro a b hab hq
    cases a; cases b
    simp only [within, P.lt, Bool.not_eq_true', Bool.or_eq_false_iff, decide_eq_false_iff_not,
      Bool.and_eq_false_imp, beq_iff_eq, Bool.not_eq_eq_eq_not, Bool.not_true] at *
    omega
  · intro a b hab hq
    cases a; cases b
    simp only [seekOK, P.lt, Bool.or_eq_true, Bool.and_eq_true, beq_iff_eq, decide_eq_true_eq] at *
    omega

theorem mem_blockItr (id : Nat) (l : List P) (h : Sorted l) (p : P) :
    p ∈ blockItr id l ↔ p ∈ l ∧ inBlock id p = true := by
  rw [blockItr_eq_filter id l h]; simp

theorem sorted_blockItr (id : Nat) (l : List P) (h : Sorted l) : Sorted (blockItr id l) := by
  rw [blockItr_eq_filter id l h]; exact Pairwise.filter _ h

end PV.C11
