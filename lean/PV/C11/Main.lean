/-
pm_c11: model driver for C11.  Ops (one per line; a replica is `row.col,row.col,...` ascending or `-`):

  merge <shard> <id> <local> <remote1> ... <remoten>      (the model does not depend on the shard)
        syncBlock at fragment level: remotes answer blockData(id), local mergeBlock, diffs applied
        to the remotes (bitsToRoaringData + importRoaring).
        out:  sets=<s1>/../<sn> clears=<c1>/../<cn> after=<local>/<r1>/../<rn>
  mergeraw <shard> <id> <local> <data1> ... <datan>
        mergeBlock on arbitrary ascending pair sets (pairs outside the block must be ignored).
        out:  sets=.. clears=.. local=<local after>
  clean <view>                      out: cleanViewName(view)   (`-` for the empty string)
  e2e <shard> <order> <rep0> ... <repn>     rep = `view=pairs;view=pairs` or `-`; order = i,j,.. : the nodes
        that run SyncHolder, in that order.  out: n0{view=pairs;..} n1{..} .. blocks=eq|ne
        (only non-empty views are printed, sorted by name)

`#spec` carries Spec.* evaluated on the same input (per-bit majority, minimal diffs).
-/
import PV.Common.Proto
import PV.C11.Model
import PV.C11.Spec
open PV.Proto PV.C11

def parsePair (s : String) : Option P :=
  match s.splitOn "." with
  | [r, c] => do pure ⟨← r.toNat?, ← c.toNat?⟩
  | _ => none

def parsePairs (s : String) : Option (List P) :=
  if s = "-" || s = "" then some [] else (s.splitOn ",").mapM parsePair

def showPairs (l : List P) : String :=
  if l.isEmpty then "-" else ",".intercalate (l.map (fun p => s!"{p.row}.{p.col}"))

def slash (ls : List (List P)) : String := "/".intercalate (ls.map showPairs)

def parseRep (s : String) : Option Views :=
  if s = "-" then some [] else
  (s.splitOn ";").mapM (fun e =>
    match e.splitOn "=" with
    | [v, ps] => do pure (v.toList, ← parsePairs ps)
    | _ => none)

/-- insertion sort of view entries by name (String order), dropping empty views. -/
def insertView (e : String × List P) : List (String × List P) → List (String × List P)
  | [] => [e]
  | x :: xs => if e.1 < x.1 then e :: x :: xs else x :: insertView e xs

def showRep (i : Nat) (vs : List (String × List P)) : String :=
  let live := (vs.filter (fun e => !e.2.isEmpty)).foldl (fun acc e => insertView e acc) []
  s!"n{i}" ++ "{" ++ ";".intercalate (live.map (fun e => e.1 ++ "=" ++ showPairs e.2)) ++ "}"

def canonRep (vs : List (String × List P)) : List (String × List P) :=
  (vs.filter (fun e => !e.2.isEmpty)).foldl (fun acc e => insertView e acc) []

def showState (st : List (List (String × List P))) : String :=
  let reps := (List.range st.length).map (fun i => showRep i (st.getD i []))
  let canon := st.map canonRep
  let eq : Bool := match canon with
    | [] => true
    | c :: cs => cs.all (fun d => (d.map (fun e => (e.1, e.2.map (fun p => (p.row, p.col))))) ==
                                  (c.map (fun e => (e.1, e.2.map (fun p => (p.row, p.col))))))
  " ".intercalate reps ++ (if eq then " blocks=eq" else " blocks=ne")

def viewsToStr (vs : Views) : List (String × List P) := vs.map (fun e => (String.ofList e.1, e.2))

/-- spec of one node's SyncHolder: every view that node has becomes the majority everywhere. -/
def specSyncHolder (k : Nat) (st : List Views) : List Views :=
  ((st.getD k []).map (·.1)).foldl (fun s v =>
    let m := Spec.passed s v
    s.map (fun vs => setView vs v m)) st

def step (_u : Unit) (ws : List String) : Unit × Ans :=
  let bad := ((), ans "bad-op")
  match ws with
  | "merge" :: _shard :: ids :: loc :: rems =>
    match ids.toNat?, parsePairs loc, rems.mapM parsePairs with
    | some id, some loc, some rems =>
      let r := mergeBlock id loc (rems.map (blockData id))
      let after := syncBlock id (loc :: rems)
      let m := s!"sets={slash r.sets} clears={slash r.clears} after={slash after}"
      let reps := loc :: rems
      let s := s!"sets={slash (rems.map (Spec.needSets id reps))} clears={slash (rems.map (Spec.needClears id reps))} after={slash (reps.map (Spec.repaired id reps))}"
      ((), ans2 m s "merge")
    | _, _, _ => bad
  | "mergeraw" :: _shard :: ids :: loc :: rems =>
    match ids.toNat?, parsePairs loc, rems.mapM parsePairs with
    | some id, some loc, some rems =>
      let r := mergeBlock id loc rems
      let m := s!"sets={slash r.sets} clears={slash r.clears} local={showPairs r.localAfter}"
      let reps := loc :: rems
      let s := s!"sets={slash (rems.map (Spec.needSets id reps))} clears={slash (rems.map (Spec.needClears id reps))} local={showPairs (Spec.repaired id reps loc)}"
      ((), ans2 m s "mergeraw")
    | _, _, _ => bad
  | ["clean", v] =>
    let c := cleanViewName v.toList
    ((), ans (if c.isEmpty then "-" else String.ofList c))
  | "e2e" :: _shard :: order :: reps =>
    match csvNats? order, reps.mapM parseRep with
    | some order, some st =>
      if order.any (· ≥ st.length) then bad else
      let H : List P → List (Nat × Nat) := fun l => l.map (fun p => (p.row, p.col))
      let fin := order.foldl (fun s k => syncHolder H k s) st
      let sfin := order.foldl (fun s k => specSyncHolder k s) st
      ((), ans2 (showState (fin.map viewsToStr)) (showState (sfin.map viewsToStr)) "e2e")
    | _, _ => bad
  | _ => bad

def main : IO Unit := run () step
