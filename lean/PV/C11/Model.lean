/-
C11 model: anti-entropy block repair, following the Go code statement by statement (fragment.go
after the three `fix:` commits of branch verif/a12, iterator.go, api.go importWorker). Core Lean only.

  iterator.go   sliceIterator.Seek / roaringIterator.Seek   -> `seek`   (dropWhile)
                limitIterator.Next (INCLUSIVE limit pair)   -> `limit`  (takeWhile)
                bufIterator Peek / Next / Unread            -> head / tail of a list
  fragment.go   mergeBlock   -> `mergeBlock`  (k-way walk `kway`, majorityN, per-replica sets/clears,
                                               local sets then local clears)
                blockData    -> `blockData`   (ForEachRange over positions row*ShardWidth+col)
                Blocks       -> `blocksOf`    (non-empty blocks ascending, checksum = H(block))
                fragmentSyncer.syncBlock     -> `syncBlockReqs` / `syncBlock`
                fragmentSyncer.syncFragment  -> `syncFragment` (walk over the block lists = `kway` again)
                cleanViewName                -> `cleanViewName`
  api.go        importWorker view mapping    -> `importViewName`
  holder.go     holderSyncer.SyncHolder      -> `syncHolder` (every local view, this node as local)

uint64 are Nat (no wrap-around: rows*ShardWidth stays far below 2^64 in any fragment).
-/
namespace PV.C11

def HashBlockSize : Nat := 100
def ShardWidth : Nat := 1048576

/-- A (row, column) pair; column is relative to the shard. -/
structure P where
  row : Nat
  col : Nat
deriving DecidableEq, Repr, Inhabited

/-- Lexicographic order used by every comparison in mergeBlock / the iterators. -/
def P.lt (a b : P) : Prop := a.row < b.row ∨ (a.row = b.row ∧ a.col < b.col)
instance (a b : P) : Decidable (P.lt a b) := by unfold P.lt; exact inferInstance

/-! ### iterators -/

/-- `sliceIterator.Seek(bseek, pseek)` match condition (roaringIterator.Seek agrees for col < ShardWidth). -/
def seekOK (bseek pseek : Nat) (p : P) : Bool :=
  (bseek == p.row && pseek ≤ p.col) || bseek < p.row

def seek (bseek pseek : Nat) (l : List P) : List P := l.dropWhile (fun p => !seekOK bseek pseek p)

/-- `limitIterator.Next`: EOF (for ever) at the first pair beyond (maxRow, maxCol); the limit pair
itself is still returned. -/
def within (maxRow maxCol : Nat) (p : P) : Bool :=
  !(p.row > maxRow || (p.row == maxRow && p.col > maxCol))

def limit (maxRow maxCol : Nat) (l : List P) : List P := l.takeWhile (within maxRow maxCol)

/-- What one buffered iterator of mergeBlock yields for block `id` (after the fix: the limit pair is
the last pair of the block). -/
def blockItr (id : Nat) (l : List P) : List P :=
  limit ((id + 1) * HashBlockSize - 1) (ShardWidth - 1) (seek (id * HashBlockSize) 0 l)

/-- The region `blockItr` lets through. -/
def inBlock (id : Nat) (p : P) : Bool :=
  seekOK (id * HashBlockSize) 0 p && within ((id + 1) * HashBlockSize - 1) (ShardWidth - 1) p

/-! ### the k-way walk shared by mergeBlock (over pairs) and syncFragment (over block ids) -/

section kway
variable {α κ : Type} (key : α → κ) (lt : κ → κ → Bool)

/-- "Find the lowest pair" / "Find min block id": the first non-empty list gives the first
candidate, a strictly lower head replaces it. -/
def minKeyAux : Option κ → List (List α) → Option κ
  | acc, [] => acc
  | acc, [] :: ls => minKeyAux acc ls
  | none, (a :: _) :: ls => minKeyAux (some (key a)) ls
  | some m, (a :: _) :: ls => minKeyAux (some (if lt (key a) m then key a else m)) ls

def minKey (ls : List (List α)) : Option κ := minKeyAux key lt none ls

variable [DecidableEq κ]

/-- heads equal to the minimum (`values[i]` / `checksums[i]`). -/
def headsAt (k : κ) (ls : List (List α)) : List (Option α) :=
  ls.map (fun l => match l with
    | a :: _ => if key a = k then some a else none
    | [] => none)

/-- consume the matching heads (`Next` without `Unread`, `blockSets[i] = blockSets[i][1:]`). -/
def advance (k : κ) (ls : List (List α)) : List (List α) :=
  ls.map (fun l => match l with
    | a :: t => if key a = k then t else a :: t
    | [] => [])

/-- One event per loop iteration: the minimum key and which lists had it at their head. -/
def kway : Nat → List (List α) → List (κ × List (Option α))
  | 0, _ => []
  | fuel + 1, ls =>
    match minKey key lt ls with
    | none => []
    | some k => (k, headsAt key k ls) :: kway fuel (advance key k ls)

def totalLen (ls : List (List α)) : Nat := (ls.map List.length).sum

end kway

def P.ltb (a b : P) : Bool := decide (P.lt a b)

/-- `<` on block ids -/
def natLt : Nat → Nat → Bool := fun a b => decide (a < b)

/-! ### mergeBlock -/

structure Event where
  p : P
  values : List Bool
  newValue : Bool
deriving Repr

/-- The voting loop of mergeBlock over the already positioned iterators. -/
def mergeEvents (itrs : List (List P)) : List Event :=
  let majorityN := (itrs.length + 1) / 2
  (kway (fun p : P => p) P.ltb (totalLen itrs) itrs).map (fun (k, heads) =>
    let values := heads.map Option.isSome
    let setN := values.count true
    { p := k, values := values, newValue := decide (setN ≥ majorityN) })

/-- `sets[i]` : pairs appended when `newValue` and replica `i` differs. -/
def setsOf (i : Nat) (es : List Event) : List P :=
  es.filterMap (fun e => if e.values.getD i false != e.newValue && e.newValue then some e.p else none)

/-- `clears[i]` (after the fix: appended to clears[i] itself). -/
def clearsOf (i : Nat) (es : List Event) : List P :=
  es.filterMap (fun e => if e.values.getD i false != e.newValue && !e.newValue then some e.p else none)

/-- sorted insertion / removal: `unprotectedSetBit`, `unprotectedClearBit`, and on a remote
`importRoaring(clear=false/true)` restricted to what C11 observes (the set of bits). -/
def insertP (p : P) : List P → List P
  | [] => [p]
  | q :: qs => if P.lt p q then p :: q :: qs else if p = q then q :: qs else q :: insertP p qs

def eraseP (p : P) (l : List P) : List P := l.filter (· ≠ p)

/-- apply all sets, then all clears (the order of mergeBlock locally and of syncBlock remotely). -/
def applyDiff (l sets clears : List P) : List P :=
  clears.foldl (fun acc p => eraseP p acc) (sets.foldl (fun acc p => insertP p acc) l)

structure MergeResult where
  localAfter : List P
  sets : List (List P)      -- one per remote (sets[1:])
  clears : List (List P)
deriving Repr

def mergeBlock (id : Nat) (loc : List P) (data : List (List P)) : MergeResult :=
  let itrs := (loc :: data).map (blockItr id)
  let es := mergeEvents itrs
  { localAfter := applyDiff loc (setsOf 0 es) (clearsOf 0 es)
    sets := (List.range data.length).map (fun i => setsOf (i + 1) es)
    clears := (List.range data.length).map (fun i => clearsOf (i + 1) es) }

/-! ### blockData, Blocks -/

def pos (p : P) : Nat := p.row * ShardWidth + p.col

/-- `fragment.blockData`: `ForEachRange(id*100*SW, (id+1)*100*SW)`. -/
def blockData (id : Nat) (l : List P) : List P :=
  l.filter (fun p => id * HashBlockSize * ShardWidth ≤ pos p ∧ pos p < (id + 1) * HashBlockSize * ShardWidth)

def blockOf (p : P) : Nat := pos p / (HashBlockSize * ShardWidth)

/-- ascending duplicate-free block ids of a sorted fragment. -/
def blockIds : List P → List Nat
  | [] => []
  | p :: ps =>
    match blockIds ps with
    | [] => [blockOf p]
    | b :: bs => if blockOf p = b then b :: bs else blockOf p :: b :: bs

/-- `fragment.Blocks()` with fresh checksums: (id, H(block contents)) for every non-empty block. -/
def blocksOf {κ : Type} (H : List P → κ) (l : List P) : List (Nat × κ) :=
  (blockIds l).map (fun id => (id, H (blockData id l)))

/-! ### view names -/

def viewStandard : List Char := "standard".toList

def stripPrefix : List Char → List Char → Option (List Char)
  | [], v => some v
  | _ :: _, [] => none
  | a :: as, b :: bs => if a = b then stripPrefix as bs else none

/-- `cleanViewName`. -/
def cleanViewName (v : List Char) : List Char :=
  match stripPrefix (viewStandard ++ ['_']) v with
  | some rest => rest
  | none => if v = viewStandard then [] else v

/-- `importWorker`: "" -> standard, x -> standard_x. -/
def importViewName (n : List Char) : List Char :=
  if n = [] then viewStandard else viewStandard ++ ['_'] ++ n

/-! ### syncBlock -/

/-- One `ImportRoaring` request of syncBlock. -/
structure Req where
  replica : Nat            -- index into the remote list
  clear : Bool
  view : List Char         -- key of `Views` in the request
  bits : List P
deriving Repr

/-- The requests syncBlock sends after mergeBlock (sets first, then clears, per remote; none for
an empty diff). After the fix both use `cleanViewName(f.view)`. -/
def syncBlockReqs (view : List Char) (r : MergeResult) : List Req :=
  ((List.range r.sets.length).map (fun i =>
    let s := r.sets.getD i []
    let c := r.clears.getD i []
    (if s.isEmpty then [] else [{ replica := i, clear := false, view := cleanViewName view, bits := s : Req }]) ++
    (if c.isEmpty then [] else [{ replica := i, clear := true, view := cleanViewName view, bits := c : Req }]))).flatten

/-- Single-fragment view of syncBlock: replicas = local :: remotes, all for the synced view. -/
def syncBlock (id : Nat) : List (List P) → List (List P)
  | [] => []
  | loc :: remotes =>
    let r := mergeBlock id loc (remotes.map (blockData id))
    r.localAfter :: (List.range remotes.length).map (fun i =>
      applyDiff (remotes.getD i []) (r.sets.getD i []) (r.clears.getD i []))

/-! ### syncFragment -/

/-- `byteSlicesEqual(checksums)` with nil for a replica that does not list the block. -/
def allEqual {κ : Type} [DecidableEq κ] : List (Option κ) → Bool
  | [] => true
  | c :: cs => cs.all (· = c)

/-- `fragmentSyncer.syncFragment` on one fragment per replica: block lists are read once at the
start, then walked in ascending id order; a block whose checksums are not all equal is synced. -/
def syncFragment {κ : Type} [DecidableEq κ] (H : List P → κ) (reps : List (List P)) : List (List P) :=
  if reps.length ≤ 1 then reps else
  let blockSets := reps.map (blocksOf H)
  let events := kway (fun b : Nat × κ => b.1) natLt (totalLen blockSets) blockSets
  events.foldl (fun st e =>
    if allEqual (e.2.map (Option.map (·.2))) then st else syncBlock e.1 st) reps

/-! ### several views per replica (what the end-to-end lines observe) -/

abbrev Views := List (List Char × List P)

def getView (vs : Views) (v : List Char) : Option (List P) := (vs.find? (·.1 = v)).map (·.2)

def setView (vs : Views) (v : List Char) (l : List P) : Views :=
  if vs.any (·.1 = v) then vs.map (fun e => if e.1 = v then (v, l) else e) else vs ++ [(v, l)]

/-- A remote replica receiving one request: importWorker maps the view name, Field.importRoaring
creates view and fragment if missing, importRoaring adds or removes the bits. -/
def applyReq (vs : Views) (r : Req) : Views :=
  let v := importViewName r.view
  let cur := (getView vs v).getD []
  setView vs v (if r.clear then applyDiff cur [] r.bits else applyDiff cur r.bits [])

/-- syncBlock with views: `k` is the local replica, the others are remotes in list order. -/
def syncBlockV (view : List Char) (id : Nat) (k : Nat) (st : List Views) : List Views :=
  let frag := fun (i : Nat) => (getView (st.getD i []) view).getD []
  let remoteIdx := (List.range st.length).filter (· ≠ k)
  let r := mergeBlock id (frag k) (remoteIdx.map (fun i => blockData id (frag i)))
  let st1 := st.mapIdx (fun i vs => if i = k then setView vs view r.localAfter else vs)
  (syncBlockReqs view r).foldl (fun s q =>
    let target := remoteIdx.getD q.replica 0
    s.mapIdx (fun i vs => if i = target then applyReq vs q else vs)) st1

/-- syncFragment with views (holderSyncer.syncFragment creates the local view/fragment first). -/
def syncFragmentV {κ : Type} [DecidableEq κ] (H : List P → κ) (view : List Char) (k : Nat)
    (st : List Views) : List Views :=
  let st0 := st.mapIdx (fun i vs => if i = k ∧ (getView vs view).isNone then setView vs view [] else vs)
  if st0.length ≤ 1 then st0 else
  let frag := fun (i : Nat) => (getView (st0.getD i []) view).getD []
  -- nodes in shardNodes order; block lists only matter as a multiset of lists for the walk
  let blockSets := (List.range st0.length).map (fun i => blocksOf H (frag i))
  let events := kway (fun b : Nat × κ => b.1) natLt (totalLen blockSets) blockSets
  events.foldl (fun s e =>
    if allEqual (e.2.map (Option.map (·.2))) then s else syncBlockV view e.1 k s) st0

/-- `holderSyncer.SyncHolder` of node `k` for one field and shard: every view the node has. -/
def syncHolder {κ : Type} [DecidableEq κ] (H : List P → κ) (k : Nat) (st : List Views) : List Views :=
  ((st.getD k []).map (·.1)).foldl (fun s v => syncFragmentV H v k s) st

end PV.C11
