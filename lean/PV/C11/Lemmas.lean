/-
C11 helper lemmas, part 1 (core Lean only): the k-way walk `kway` shared by mergeBlock and
syncFragment enumerates the union of strictly sorted lists and reports, for every key, exactly the
lists holding it (`kway_spec`).
-/
import PV.C11.Model
import PV.C11.Spec
namespace PV.C11
open List
section kway
variable {α κ : Type} (key : α → κ) (lt : κ → κ → Bool)

structure StrictOrder : Prop where
  irrefl : ∀ a, lt a a = false
  trans : ∀ a b c, lt a b = true → lt b c = true → lt a c = true
  total : ∀ a b, lt a b = true ∨ a = b ∨ lt b a = true

variable {key lt}

def headKey (l : List α) : Option κ := l.head?.map key

theorem minKeyAux_none (ls : List (List α)) (acc : Option κ) :
    minKeyAux key lt acc ls = none ↔ acc = none ∧ ∀ l ∈ ls, l = [] := by
  induction ls generalizing acc with
  | nil => simp [minKeyAux]
  | cons l ls ih =>
    cases l with
    | nil => simp [minKeyAux, ih]
    | cons a t => cases acc <;> simp [minKeyAux, ih]

theorem minKeyAux_mem (ls : List (List α)) (acc : Option κ) (m : κ)
    (h : minKeyAux key lt acc ls = some m) :
    acc = some m ∨ ∃ l ∈ ls, ∃ a t, l = a :: t ∧ key a = m := by
  induction ls generalizing acc with
  | nil => simp [minKeyAux] at h; exact Or.inl h
  | cons l ls ih =>
    cases l with
    | nil =>
      simp only [minKeyAux] at h
      rcases ih acc h with h1 | ⟨l, hl, a, t, e, k⟩
      · exact Or.inl h1
      · exact Or.inr ⟨l, by simp [hl], a, t, e, k⟩
    | cons a t =>
      cases acc with
      | none =>
        simp only [minKeyAux] at h
        rcases ih _ h with h1 | ⟨l, hl, b, u, e, k⟩
        · exact Or.inr ⟨a :: t, by simp, a, t, rfl, by simpa using h1⟩
        · exact Or.inr ⟨l, by simp [hl], b, u, e, k⟩
      | some c =>
        simp only [minKeyAux] at h
        rcases ih _ h with h1 | ⟨l, hl, b, u, e, k⟩
        · by_cases hc : lt (key a) c = true
          · simp only [hc, if_true, Option.some.injEq] at h1
            exact Or.inr ⟨a :: t, by simp, a, t, rfl, h1⟩
          · simp only [hc, Option.some.injEq] at h1
            exact Or.inl (by simpa using h1)
        · exact Or.inr ⟨l, by simp [hl], b, u, e, k⟩

theorem minKeyAux_le (ho : StrictOrder lt) (ls : List (List α)) (acc : Option κ) (m : κ)
    (h : minKeyAux key lt acc ls = some m) :
    (∀ c, acc = some c → lt c m = false) ∧ (∀ l ∈ ls, ∀ a t, l = a :: t → lt (key a) m = false) := by
  have hi := ho.irrefl; have ht := ho.trans; have hto := ho.total
  induction ls generalizing acc with
  | nil =>
    simp [minKeyAux] at h
    subst h; simp [hi]
  | cons l ls ih =>
    cases l with
    | nil =>
      simp only [minKeyAux] at h
      obtain ⟨h2, h3⟩ := ih acc h
      refine ⟨h2, ?_⟩
      intro l hl a t e
      simp only [mem_cons] at hl
      rcases hl with rfl | hl
      · cases e
      · exact h3 l hl a t e
    | cons a t =>
      cases acc with
      | none =>
        simp only [minKeyAux] at h
        obtain ⟨h2, h3⟩ := ih _ h
        refine ⟨by simp, ?_⟩
        intro l hl b u e
        simp only [mem_cons] at hl
        rcases hl with rfl | hl
        · cases e; exact h2 _ rfl
        · exact h3 l hl b u e
      | some c =>
        simp only [minKeyAux] at h
        obtain ⟨h2, h3⟩ := ih _ h
        have hm := h2 _ rfl
        constructor
        · intro c' hc'
          simp only [Option.some.injEq] at hc'
          subst hc'
          grind
        · intro l hl b u e
          simp only [mem_cons] at hl
          rcases hl with rfl | hl
          · cases e
            grind
          · exact h3 l hl b u e

variable [DecidableEq κ]
variable (key lt)
/-- strictly ascending by key -/
def SortedBy (l : List α) : Prop := l.Pairwise (fun a b => lt (key a) (key b) = true)

def lookup (k : κ) (l : List α) : Option α := l.find? (fun a => decide (key a = k))

/-- what `advance` does to one list -/
def adv (k : κ) (l : List α) : List α :=
  match l with
  | a :: t => if key a = k then t else a :: t
  | [] => []

/-- the head of `l` (if any) is not below `k` -/
def HeadGE (k : κ) (l : List α) : Prop := ∀ a t, l = a :: t → lt (key a) k = false
variable {key lt}

theorem advance_eq (k : κ) (ls : List (List α)) : advance key k ls = ls.map (adv key k) := by
  unfold advance adv; rfl

theorem headsAt_eq (_ho : StrictOrder lt) (k : κ) (ls : List (List α))
    (hs : ∀ l ∈ ls, SortedBy key lt l) (hg : ∀ l ∈ ls, HeadGE key lt k l) :
    headsAt key k ls = ls.map (lookup key k) := by
  unfold headsAt
  apply map_congr_left
  intro l hl
  cases l with
  | nil => simp [lookup]
  | cons a t =>
    simp only [lookup, find?_cons]
    by_cases hk : key a = k
    · simp [hk]
    · simp only [hk, decide_false, ite_false]
      symm
      rw [find?_eq_none]
      intro b hb
      simp only [decide_eq_true_eq]
      intro hbk
      have h1 := (pairwise_cons.mp (hs _ hl)).1 b hb
      have h2 := hg _ hl a t rfl
      rw [hbk] at h1; rw [h1] at h2; cases h2

theorem sorted_adv (k : κ) (l : List α) (hs : SortedBy key lt l) : SortedBy key lt (adv key k l) := by
  cases l with
  | nil => exact hs
  | cons a t =>
    simp only [adv]
    split
    · exact (pairwise_cons.mp hs).2
    · exact hs

theorem mem_adv (k : κ) (l : List α) (b : α) : b ∈ adv key k l → b ∈ l := by
  cases l with
  | nil => simp [adv]
  | cons a t =>
    simp only [adv]
    split
    · intro h; exact mem_cons_of_mem _ h
    · exact id

theorem mem_adv_of_ne (k : κ) (l : List α) (b : α) (hb : b ∈ l) (hk : key b ≠ k) : b ∈ adv key k l := by
  cases l with
  | nil => cases hb
  | cons a t =>
    simp only [adv]
    split
    · next h =>
      simp only [mem_cons] at hb
      rcases hb with rfl | hb
      · exact absurd h hk
      · exact hb
    · exact hb

theorem key_adv_ne (ho : StrictOrder lt) (k : κ) (l : List α) (hs : SortedBy key lt l)
    (hg : HeadGE key lt k l) (b : α) (hb : b ∈ adv key k l) : key b ≠ k := by
  cases l with
  | nil => simp [adv] at hb
  | cons a t =>
    have h2 := hg a t rfl
    have hp := (pairwise_cons.mp hs).1
    simp only [adv] at hb
    split at hb
    · next h =>
      intro hbk
      have := hp b hb
      rw [h, hbk, ho.irrefl] at this; cases this
    · next h =>
      simp only [mem_cons] at hb
      rcases hb with rfl | hb
      · exact h
      · intro hbk
        have := hp b hb
        rw [hbk, h2] at this; cases this

theorem lookup_adv (k k' : κ) (hne : k' ≠ k) (l : List α) :
    lookup key k' (adv key k l) = lookup key k' l := by
  cases l with
  | nil => rfl
  | cons a t =>
    simp only [adv]
    split
    · next h =>
      simp only [lookup, find?_cons]
      have : decide (key a = k') = false := by simp [h, Ne.symm hne]
      simp [this]
    · rfl

theorem length_adv_le (k : κ) (l : List α) : (adv key k l).length ≤ l.length := by
  cases l with
  | nil => simp [adv]
  | cons a t => simp only [adv]; split <;> simp

theorem totalLen_advance_lt (k : κ) (ls : List (List α))
    (h : ∃ l ∈ ls, ∃ a t, l = a :: t ∧ key a = k) :
    totalLen (advance key k ls) < totalLen ls := by
  rw [advance_eq]
  induction ls with
  | nil => obtain ⟨l, hl, _⟩ := h; cases hl
  | cons l ls ih =>
    simp only [totalLen, map_cons, sum_cons] at *
    obtain ⟨l', hl', a, t, e, hk⟩ := h
    simp only [mem_cons] at hl'
    rcases hl' with rfl | hl'
    · subst e
      have : (adv key k (a :: t)).length < (a :: t).length := by simp [adv, hk]
      have h2 : (map List.length (map (adv key k) ls)).sum ≤ (map List.length ls).sum := by
        clear ih
        induction ls with
        | nil => simp
        | cons x xs ih2 =>
          simp only [map_cons, sum_cons]
          have := length_adv_le (key := key) k x
          omega
      omega
    · have := ih ⟨l', hl', a, t, e, hk⟩
      have := length_adv_le (key := key) k l
      omega

/-- The walk reports every key of the union once per iteration, with exactly the lists holding it. -/
theorem kway_spec (ho : StrictOrder lt) (fuel : Nat) (ls : List (List α))
    (hs : ∀ l ∈ ls, SortedBy key lt l) (hf : totalLen ls ≤ fuel) :
    (∀ e ∈ kway key lt fuel ls, e.2 = ls.map (lookup key e.1) ∧ ∃ l ∈ ls, ∃ a ∈ l, key a = e.1) ∧
    (∀ l ∈ ls, ∀ a ∈ l, ∃ e ∈ kway key lt fuel ls, e.1 = key a) := by
  induction fuel generalizing ls with
  | zero =>
    have : ∀ l ∈ ls, l = [] := by
      intro l hl
      have : l.length ≤ totalLen ls := by
        unfold totalLen
        clear hs hf
        induction ls with
        | nil => cases hl
        | cons x xs ih =>
          simp only [map_cons, sum_cons]
          simp only [mem_cons] at hl
          rcases hl with rfl | hl
          · omega
          · have := ih hl; omega
      have : l.length = 0 := by omega
      exact length_eq_zero_iff.mp this
    constructor
    · simp [kway]
    · intro l hl a ha; rw [this l hl] at ha; cases ha
  | succ fuel ih =>
    simp only [kway]
    cases hmk : minKey key lt ls with
    | none =>
      have := (minKeyAux_none (key := key) (lt := lt) ls none).mp hmk
      constructor
      · simp
      · intro l hl a ha; rw [this.2 l hl] at ha; cases ha
    | some k =>
      have hmem := minKeyAux_mem (key := key) (lt := lt) ls none k hmk
      have hle := (minKeyAux_le ho ls none k hmk).2
      simp only [reduceCtorEq, false_or] at hmem
      have hg : ∀ l ∈ ls, HeadGE key lt k l := fun l hl a t e => hle l hl a t e
      have hs' : ∀ l ∈ advance key k ls, SortedBy key lt l := by
        rw [advance_eq]; intro l hl
        obtain ⟨l0, hl0, rfl⟩ := mem_map.mp hl
        exact sorted_adv k l0 (hs l0 hl0)
      have hlt := totalLen_advance_lt k ls hmem
      obtain ⟨ih1, ih2⟩ := ih (advance key k ls) hs' (by omega)
      constructor
      · intro e he
        simp only [mem_cons] at he
        rcases he with rfl | he
        · refine ⟨headsAt_eq ho k ls hs hg, ?_⟩
          obtain ⟨l, hl, a, t, e, hk⟩ := hmem
          exact ⟨l, hl, a, by simp [e], hk⟩
        · obtain ⟨h1, l', hl', a, ha, hk⟩ := ih1 e he
          rw [advance_eq] at hl'
          obtain ⟨l0, hl0, rfl⟩ := mem_map.mp hl'
          have hne : e.1 ≠ k := by
            rw [← hk]; exact key_adv_ne ho k l0 (hs l0 hl0) (hg l0 hl0) a ha
          refine ⟨?_, l0, hl0, a, mem_adv k l0 a ha, hk⟩
          rw [h1, advance_eq, map_map]
          apply map_congr_left
          intro l _
          exact lookup_adv k e.1 hne l
      · intro l hl a ha
        by_cases hk : key a = k
        · exact ⟨(k, headsAt key k ls), by simp, hk.symm⟩
        · have : a ∈ adv key k l := mem_adv_of_ne k l a ha hk
          obtain ⟨e, he, hek⟩ := ih2 (adv key k l) (by rw [advance_eq]; exact mem_map.mpr ⟨l, hl, rfl⟩) a this
          exact ⟨e, by simp [he], hek⟩
end kway
end PV.C11
