/-
C01 helper lemmas, part 6: Bitmap reads (Contains, Count, CountRange, Max) against the denoted set.
Core Lean only.
-/
import PV.C01.LemmasL2
namespace PV.C01
open Spec

/-! ### container level -/

theorem Container.countRange_spec {c : Container} (h : c.WF) (s e : Nat) (hse : s ≤ e) :
    c.countRange s e = cnt (fun v => decide (v ∈ c.values)) s e := by
  cases c with
  | array xs =>
    show arrayCountRange xs s e = _
    rw [arrayCountRange_eq xs h.1, cntList_eq_cnt h.1]; rfl
  | bitmap n bits =>
    show cntList bits s e = _
    rw [cntList_eq_cnt h.1]; rfl
  | run n ivs =>
    show runCountRange ivs 0 s e = _
    rw [runCountRange_spec ivs 0 s e h.1 hse (Or.inl rfl), Nat.zero_add]
    apply cnt_congr
    intro v _ _
    show inRuns ivs v = decide (v ∈ runValues ivs)
    cases hx : inRuns ivs v
    · have : ¬ v ∈ runValues ivs := by rw [mem_runValues, hx]; simp
      simp [this]
    · have : v ∈ runValues ivs := by rw [mem_runValues, hx]
      simp [this]

/-- the greatest value of a non-empty container. -/
theorem Container.max_spec {c : Container} (h : c.WF) (hn : c.n > 0) :
    c.max ∈ c.values ∧ ∀ v ∈ c.values, v ≤ c.max := by
  have hne : c.values ≠ [] := by
    intro he
    have := Container.values_length h
    rw [he] at this; simp at this; omega
  cases c with
  | array xs => exact sorted_getLast_max xs h.1 hne
  | bitmap n bits => exact sorted_getLast_max bits h.1 hne
  | run n ivs =>
    have hne' : ivs ≠ [] := by
      intro he; subst he; exact hne rfl
    rcases runs_getLast_max ivs h.1 hne' with ⟨l, hl1, hl2, hl3⟩
    show (match ivs.getLast? with | some iv => iv.last | none => 0) ∈ runValues ivs ∧
      ∀ v ∈ runValues ivs, v ≤ (match ivs.getLast? with | some iv => iv.last | none => 0)
    rw [hl1]
    refine ⟨(mem_runValues ivs l.last).mpr hl2, ?_⟩
    intro v hv
    exact hl3 v ((mem_runValues ivs v).mp hv)

/-! ### Contains -/

theorem Bitmap.contains_spec {b : Bitmap} (h : b.WF) (v : Nat) : b.contains v = decide (v ∈ b.values) := by
  unfold Bitmap.contains
  cases hg : b.get (highbits v) with
  | none =>
    have : v ∉ b.values := by
      rw [Bitmap.mem_values h]
      rintro ⟨⟨k, c⟩, he, h1, _⟩
      simp only at h1
      subst h1
      have := (Bitmap.get_eq h _ c).mpr he
      rw [hg] at this; cases this
    simp [this]
  | some c =>
    have hc := (Bitmap.get_eq h _ c).mp hg
    have hw := Bitmap.live_wf h _ hc
    show mem c (lowbits v) = _
    rw [mem_eq hw, decide_eq_decide, Bitmap.mem_values h]
    constructor
    · intro hm; exact ⟨_, hc, rfl, hm⟩
    · rintro ⟨⟨k, d⟩, he, h1, h2⟩
      simp only at h1 h2
      subst h1
      have := keysSorted_unique (Bitmap.live_keysSorted h) hc he
      subst this; exact h2

/-! ### Count -/

theorem foldl_add (l : List Nat) (a : Nat) : l.foldl (· + ·) a = a + l.foldl (· + ·) 0 := by
  induction l generalizing a with
  | nil => simp
  | cons x t ih => rw [List.foldl_cons, List.foldl_cons, ih (a + x), ih (0 + x)]; omega

theorem count_eq (cs : List Entry) (hw : ∀ e ∈ cs, WFO e.2) :
    (cs.map (fun e => N e.2)).foldl (· + ·) 0 = (valuesL (liveL cs)).length := by
  induction cs with
  | nil => rfl
  | cons e t ih =>
    rcases e with ⟨k, oc⟩
    have iht := ih (fun x hx => hw x (by simp [hx]))
    rw [List.map_cons, List.foldl_cons, foldl_add, iht]
    cases oc with
    | none => simp [N, liveL]
    | some c =>
      have hc : c.WF := hw (k, some c) (by simp)
      simp only [N, liveL, valuesL_cons, List.length_append, valuesOf, List.length_map,
        Container.values_length hc]
      omega

theorem Bitmap.count_spec {b : Bitmap} (h : b.WF) : b.count = b.values.length :=
  count_eq b.cs h.2.1

/-! ### counting over a container placed at key `k` -/

theorem cnt_translate (p : Nat → Bool) (B a b : Nat) :
    cnt p (B + a) (B + b) = cnt (fun w => p (B + w)) a b := by
  unfold cnt
  have h1 : B + b - (B + a) = b - a := by omega
  rw [h1, ← List.map_add_range', List.countP_map]
  rfl

theorem valuesOf_mem_shift {k : Nat} {c : Container} (h : c.WF) (w : Nat) :
    decide (k * 65536 + w ∈ valuesOf k c) = decide (w ∈ c.values) := by
  rw [decide_eq_decide, mem_valuesOf h]
  unfold highbits lowbits
  constructor
  · rintro ⟨h1, h2⟩
    have : w < 65536 := by
      by_cases hw : w < 65536
      · exact hw
      · exfalso
        have : (k * 65536 + w) / 65536 = k + w / 65536 := by omega
        have : w / 65536 ≥ 1 := by omega
        omega
    have : (k * 65536 + w) % 65536 = w := by omega
    rw [this] at h2; exact h2
  · intro hw
    have := Container.values_lt h w hw
    have h1 : (k * 65536 + w) / 65536 = k := by omega
    have h2 : (k * 65536 + w) % 65536 = w := by omega
    rw [h1, h2]; exact ⟨rfl, hw⟩

/-- counting members of the container at key `k` over `[s, e)` is counting the container's own
values over the translated interval. -/
theorem cnt_valuesOf {k : Nat} {c : Container} (h : c.WF) (s e : Nat) :
    cnt (fun v => decide (v ∈ valuesOf k c)) s e
      = cnt (fun w => decide (w ∈ c.values)) (s - k * 65536) (e - k * 65536) := by
  have hlow : ∀ v, v < k * 65536 → decide (v ∈ valuesOf k c) = false := by
    intro v hv
    have : v ∉ valuesOf k c := by
      rw [mem_valuesOf h]; unfold highbits; rintro ⟨h1, _⟩; omega
    simp [this]
  by_cases he : e ≤ k * 65536
  · rw [cnt_false (fun v _ hv => hlow v (by omega))]
    rw [cnt_eq_zero_of_le (by omega)]
  · by_cases hs : s ≤ k * 65536
    · by_cases hse : s ≤ e
      · rw [cnt_split _ hs (by omega), cnt_false (fun v _ hv => hlow v hv), Nat.zero_add]
        have h1 : e = k * 65536 + (e - k * 65536) := by omega
        have h2 : s - k * 65536 = 0 := by omega
        rw [h2]
        conv => lhs; rw [h1]
        have := cnt_translate (fun v => decide (v ∈ valuesOf k c)) (k * 65536) 0 (e - k * 65536)
        rw [Nat.add_zero] at this
        rw [this]
        exact cnt_congr (fun w _ _ => valuesOf_mem_shift h w)
      · omega
    · have h1 : e = k * 65536 + (e - k * 65536) := by omega
      have h2 : s = k * 65536 + (s - k * 65536) := by omega
      conv => lhs; rw [h1, h2]
      rw [cnt_translate]
      exact cnt_congr (fun w _ _ => valuesOf_mem_shift h w)

theorem cnt_valuesL_cons {e : Nat × Container} {l : List (Nat × Container)}
    (hk : KeysSorted (e :: l)) (hw : ∀ x ∈ e :: l, x.2.WF) (s t : Nat) :
    cnt (fun v => decide (v ∈ valuesL (e :: l))) s t
      = cnt (fun v => decide (v ∈ valuesOf e.1 e.2)) s t + cnt (fun v => decide (v ∈ valuesL l)) s t := by
  rw [← cnt_or_disjoint]
  · apply cnt_congr
    intro v _ _
    rw [valuesL_cons]
    simp only [List.mem_append, Bool.decide_or]
  · intro v _ _ ⟨h1, h2⟩
    simp only [decide_eq_true_eq] at h1 h2
    rw [mem_valuesOf (hw e (by simp))] at h1
    rw [mem_valuesL (fun x hx => hw x (by simp [hx]))] at h2
    rcases h2 with ⟨f, hf, h3, _⟩
    have := KeysSorted.lt hk f hf
    omega

/-- no value of a key-sorted list whose keys are all `> k` lies below `(k+1)*65536`. -/
theorem cnt_valuesL_zero {l : List (Nat × Container)} (hw : ∀ x ∈ l, x.2.WF) (k s t : Nat)
    (hkeys : ∀ x ∈ l, k < x.1) (ht : t ≤ (k + 1) * 65536) :
    cnt (fun v => decide (v ∈ valuesL l)) s t = 0 := by
  apply cnt_false
  intro v _ hv
  have : v ∉ valuesL l := by
    rw [mem_valuesL hw]
    rintro ⟨f, hf, h1, _⟩
    have := hkeys f hf
    unfold highbits at h1
    omega
  simp [this]

/-! ### CountRange -/

theorem liveL_filter (cs : List Entry) (k : Nat) :
    liveL (cs.filter (fun e => e.1 ≥ k)) = (liveL cs).filter (fun e => e.1 ≥ k) := by
  induction cs with
  | nil => rfl
  | cons e t ih =>
    rcases e with ⟨k', oc⟩
    rw [List.filter_cons]
    by_cases hk : k' ≥ k
    · have : decide ((k', oc).1 ≥ k) = true := by simp [hk]
      rw [if_pos this]
      cases oc with
      | none => simp only [liveL]; exact ih
      | some c =>
        simp only [liveL, List.filter_cons]
        have : decide ((k', c).1 ≥ k) = true := by simp [hk]
        rw [if_pos this, ih]
    · have : ¬ (decide ((k', oc).1 ≥ k) = true) := by simp; omega
      rw [if_neg this]
      cases oc with
      | none => simp only [liveL]; exact ih
      | some c =>
        simp only [liveL, List.filter_cons]
        have : ¬ (decide ((k', c).1 ≥ k) = true) := by simp; omega
        rw [if_neg this, ih]

theorem keysSorted_filter {l : List (Nat × Container)} (p : Nat × Container → Bool) (h : KeysSorted l) :
    KeysSorted (l.filter p) := by
  induction l with
  | nil => trivial
  | cons e t ih =>
    rw [List.filter_cons]
    split
    · unfold KeysSorted
      rw [List.map_cons]
      apply sorted_cons (ih (KeysSorted.tail h))
      intro x hx
      rcases List.mem_map.mp hx with ⟨y, hy, rfl⟩
      exact KeysSorted.lt h y (List.mem_filter.mp hy).1
    · exact ih (KeysSorted.tail h)

/-- values of the containers with key `≥ k` are the values `≥ k * 65536`. -/
theorem cnt_drop_low {l : List (Nat × Container)} (hk : KeysSorted l) (hw : ∀ x ∈ l, x.2.WF)
    (k s t : Nat) (hs : k * 65536 ≤ s) :
    cnt (fun v => decide (v ∈ valuesL l)) s t
      = cnt (fun v => decide (v ∈ valuesL (l.filter (fun e => e.1 ≥ k)))) s t := by
  apply cnt_congr
  intro v hv _
  rw [decide_eq_decide, mem_valuesL hw, mem_valuesL (fun x hx => hw x (List.mem_filter.mp hx).1)]
  constructor
  · rintro ⟨f, hf, h1, h2⟩
    refine ⟨f, List.mem_filter.mpr ⟨hf, ?_⟩, h1, h2⟩
    unfold highbits at h1
    simp; omega
  · rintro ⟨f, hf, h1, h2⟩
    exact ⟨f, (List.mem_filter.mp hf).1, h1, h2⟩

/-- the general loop of `CountRange` for a range spanning more than one key. -/
theorem countRangeLoop_spec (skey ekey ls le : Nat) (hkk : skey < ekey) (hls : ls < 65536) (hle : le < 65536) :
    ∀ (l : List (Nat × Container)), KeysSorted l → (∀ x ∈ l, x.2.WF) → (∀ x ∈ l, skey ≤ x.1) →
      countRangeLoop skey ekey ls le l
        = cnt (fun v => decide (v ∈ valuesL l)) (skey * 65536 + ls) (ekey * 65536 + le) := by
  intro l
  induction l with
  | nil =>
    intro _ _ _
    simp only [countRangeLoop]
    rw [cnt_false]; intro v _ _; simp
  | cons x t ih =>
    intro hk hw hlo
    rcases x with ⟨k, c⟩
    have hc : c.WF := hw (k, c) (by simp)
    have hwt : ∀ y ∈ t, y.2.WF := fun y hy => hw y (by simp [hy])
    have hgt := KeysSorted.lt hk
    rw [cnt_valuesL_cons hk hw, cnt_valuesOf hc]
    simp only [countRangeLoop]
    by_cases h1 : k > ekey
    · rw [if_pos h1]
      rw [cnt_eq_zero_of_le (by omega)]
      rw [cnt_valuesL_zero hwt k _ _ (fun y hy => hgt y hy) (by
        have : (ekey + 1) * 65536 ≤ (k + 1) * 65536 := Nat.mul_le_mul_right _ (by omega)
        omega)]
    · rw [if_neg h1]
      have iht := ih (KeysSorted.tail hk) hwt (fun y hy => by have := hgt y hy; have := hlo (k, c) (by simp); omega)
      by_cases h2 : k = skey
      · rw [if_pos h2, iht, Container.countRange_spec hc ls 65536 (by omega)]
        subst h2
        congr 1
        have e1 : k * 65536 + ls - k * 65536 = ls := by omega
        rw [e1]
        -- beyond 65536 there are no members
        have hbig : ekey * 65536 + le - k * 65536 ≥ 65536 := by
          have : (k + 1) * 65536 ≤ ekey * 65536 := Nat.mul_le_mul_right _ (by omega)
          omega
        rw [cnt_split (fun w => decide (w ∈ c.values)) (s := ls) (m := 65536) (e := ekey * 65536 + le - k * 65536)
          (by omega) hbig]
        have : cnt (fun w => decide (w ∈ c.values)) 65536 (ekey * 65536 + le - k * 65536) = 0 := by
          apply cnt_false
          intro v hv _
          have : v ∉ c.values := fun hm => by have := Container.values_lt hc v hm; omega
          simp [this]
        rw [this]; rfl
      · rw [if_neg h2]
        have hks : skey < k := by have := hlo (k, c) (by simp); omega
        by_cases h3 : k < ekey
        · rw [if_pos h3, iht]
          congr 1
          -- the whole container lies inside the range
          have e1 : skey * 65536 + ls - k * 65536 = 0 := by
            have : (skey + 1) * 65536 ≤ k * 65536 := Nat.mul_le_mul_right _ (by omega)
            omega
          have hbig : ekey * 65536 + le - k * 65536 ≥ 65536 := by
            have : (k + 1) * 65536 ≤ ekey * 65536 := Nat.mul_le_mul_right _ (by omega)
            omega
          rw [e1, cnt_split (fun w => decide (w ∈ c.values)) (s := 0) (m := 65536) (Nat.zero_le _) hbig]
          have : cnt (fun w => decide (w ∈ c.values)) 65536 (ekey * 65536 + le - k * 65536) = 0 := by
            apply cnt_false
            intro v hv _
            have : v ∉ c.values := fun hm => by have := Container.values_lt hc v hm; omega
            simp [this]
          rw [this, Nat.add_zero, ← cntList_eq_cnt (Container.values_sorted hc)]
          unfold cntList
          have hfil : List.filter (fun v => decide (0 ≤ v) && decide (v < 65536)) c.values
              = c.values := by
            rw [List.filter_eq_self]
            intro v hv
            have := Container.values_lt hc v hv
            simp only [Nat.zero_le, decide_true, Bool.true_and, decide_eq_true_eq]
            omega
          rw [hfil, Container.values_length hc]
        · rw [if_neg h3]
          have hke : k = ekey := by omega
          subst hke
          rw [Container.countRange_spec hc 0 le (Nat.zero_le _)]
          have e1 : skey * 65536 + ls - k * 65536 = 0 := by
            have : (skey + 1) * 65536 ≤ k * 65536 := Nat.mul_le_mul_right _ (by omega)
            omega
          have e2 : k * 65536 + le - k * 65536 = le := Nat.add_sub_cancel_left _ _
          rw [e1, e2]
          have hz := cnt_valuesL_zero hwt k (skey * 65536 + ls) (k * 65536 + le) (fun y hy => hgt y hy)
            (by rw [Nat.add_mul]; omega)
          rw [hz, Nat.add_zero]

theorem Bitmap.countRange_spec {b : Bitmap} (h : b.WF) (s e : Nat) (hse : s ≤ e) :
    b.countRange s e = cnt (fun v => decide (v ∈ b.values)) s e := by
  have hk := Bitmap.live_keysSorted h
  have hw := Bitmap.live_wf h
  have hs : s = highbits s * 65536 + lowbits s := by unfold highbits lowbits; omega
  have he : e = highbits e * 65536 + lowbits e := by unfold highbits lowbits; omega
  have hls : lowbits s < 65536 := by unfold lowbits; omega
  have hle : lowbits e < 65536 := by unfold lowbits; omega
  have hkeys : highbits s ≤ highbits e := by unfold highbits; omega
  -- restrict to the containers the iterator visits
  have hL : (b.iterFrom (highbits s)).1 = b.live.filter (fun x => x.1 ≥ highbits s) := liveL_filter b.cs _
  have hkL := keysSorted_filter (fun x => decide (x.1 ≥ highbits s)) hk
  have hwL : ∀ x ∈ b.live.filter (fun x => x.1 ≥ highbits s), x.2.WF :=
    fun x hx => hw x (List.mem_filter.mp hx).1
  have hloL : ∀ x ∈ b.live.filter (fun x => x.1 ≥ highbits s), highbits s ≤ x.1 := by
    intro x hx; simpa using (List.mem_filter.mp hx).2
  rw [Bitmap.values_eq, cnt_drop_low hk hw (highbits s) s e (by omega)]
  unfold Bitmap.countRange
  by_cases h0 : b.cs.length = 0
  · rw [if_pos h0]
    have : b.cs = [] := List.length_eq_zero_iff.mp h0
    have : b.live = [] := by unfold Bitmap.live; rw [this]; rfl
    rw [this]
    rw [cnt_false]; intro v _ _; simp
  · rw [if_neg h0]
    simp only []
    rw [hL]
    generalize hLdef : b.live.filter (fun x => x.1 ≥ highbits s) = L at hkL hwL hloL
    by_cases hsc : (b.iterFrom (highbits s)).2 = true ∧ highbits s = highbits e
    · rw [if_pos hsc]
      have hkeq := hsc.2
      cases L with
      | nil => simp only []; rw [cnt_false]; intro v _ _; simp
      | cons x t =>
        rcases x with ⟨k, c⟩
        have hc : c.WF := hwL (k, c) (by simp)
        have hwt : ∀ y ∈ t, y.2.WF := fun y hy => hwL y (by simp [hy])
        have hgt := KeysSorted.lt hkL
        simp only []
        rw [cnt_valuesL_cons hkL hwL, cnt_valuesOf hc]
        by_cases hkk : k ≠ highbits s
        · rw [if_pos hkk]
          have hklo := hloL (k, c) (by simp)
          simp only at hklo
          have hgtk : highbits e < k := by omega
          rw [cnt_eq_zero_of_le (by
            have : (highbits e + 1) * 65536 ≤ k * 65536 := Nat.mul_le_mul_right _ (by omega)
            omega)]
          rw [cnt_valuesL_zero hwt k _ _ (fun y hy => hgt y hy) (by
            have : (highbits e + 1) * 65536 ≤ (k + 1) * 65536 := Nat.mul_le_mul_right _ (by omega)
            omega)]
        · rw [if_neg hkk]
          have hkk' : k = highbits s := by omega
          subst hkk'
          have hlse : lowbits s ≤ lowbits e := by omega
          rw [Container.countRange_spec hc _ _ hlse]
          have e1 : s - highbits s * 65536 = lowbits s := by omega
          have e2 : e - highbits s * 65536 = lowbits e := by omega
          rw [e1, e2]
          have hz := cnt_valuesL_zero hwt (highbits s) s e (fun y hy => hgt y hy)
            (by rw [Nat.add_mul]; omega)
          rw [hz, Nat.add_zero]
    · rw [if_neg hsc]
      by_cases hkeq : highbits s = highbits e
      · -- same key, but no entry stored under it: every visited key is larger
        have hnf : (b.iterFrom (highbits s)).2 = false := by
          cases hx : (b.iterFrom (highbits s)).2
          · rfl
          · exact absurd ⟨hx, hkeq⟩ hsc
        have hnokey : ∀ x ∈ L, highbits s < x.1 := by
          intro x hx
          have h1 := hloL x hx
          rcases Nat.lt_or_ge (highbits s) x.1 with h2 | h2
          · exact h2
          · exfalso
            have hxk : x.1 = highbits s := by omega
            rw [← hLdef] at hx
            have hxl := (List.mem_filter.mp hx).1
            rcases x with ⟨k, c⟩
            simp only at hxk
            subst hxk
            have := mem_liveL.mp hxl
            unfold Bitmap.iterFrom at hnf
            simp only [List.any_eq_false] at hnf
            have := hnf _ this
            simp at this
        rw [cnt_valuesL_zero hwL (highbits s) _ _ hnokey (by omega)]
        cases L with
        | nil => simp [countRangeLoop]
        | cons x t =>
          rcases x with ⟨k, c⟩
          simp only [countRangeLoop]
          have := hnokey (k, c) (by simp)
          simp only at this
          rw [if_pos (by omega)]
      · have hlt : highbits s < highbits e := by omega
        rw [countRangeLoop_spec (highbits s) (highbits e) (lowbits s) (lowbits e) hlt hls hle L hkL hwL hloL]
        rw [← hs, ← he]

/-! ### Max -/

theorem maxFold_spec (l : List (Nat × Container)) :
    ∀ (acc : Nat), KeysSorted l → (∀ x ∈ l, x.2.WF) →
      let m := l.foldl (fun m e => if e.2.n > 0 then e.1 * 65536 + e.2.max else m) acc
      (m = acc ∧ valuesL l = []) ∨ (m ∈ valuesL l ∧ ∀ v ∈ valuesL l, v ≤ m) := by
  induction l with
  | nil => intro acc _ _; exact Or.inl ⟨rfl, rfl⟩
  | cons x t ih =>
    intro acc hk hw
    rcases x with ⟨k, c⟩
    have hc : c.WF := hw (k, c) (by simp)
    have hwt : ∀ y ∈ t, y.2.WF := fun y hy => hw y (by simp [hy])
    have hgt := KeysSorted.lt hk
    simp only [List.foldl_cons]
    by_cases hn : c.n > 0
    · rw [if_pos hn]
      have hm := Container.max_spec hc hn
      have hin : k * 65536 + c.max ∈ valuesOf k c := List.mem_map.mpr ⟨c.max, hm.1, rfl⟩
      have hall : ∀ v ∈ valuesOf k c, v ≤ k * 65536 + c.max := by
        intro v hv
        rcases List.mem_map.mp hv with ⟨w, hw', rfl⟩
        have := hm.2 w hw'; omega
      rcases ih (k * 65536 + c.max) (KeysSorted.tail hk) hwt with ⟨h1, h2⟩ | ⟨h1, h2⟩
      · right
        rw [h1, valuesL_cons, h2, List.append_nil]
        exact ⟨hin, hall⟩
      · right
        rw [valuesL_cons]
        refine ⟨List.mem_append.mpr (Or.inr h1), ?_⟩
        intro v hv
        rcases List.mem_append.mp hv with hv | hv
        · -- values of this container are below every value of the tail
          have hv' := (mem_valuesOf hc v).mp hv
          have h1' := (mem_valuesL hwt _).mp h1
          rcases h1' with ⟨f, hf, h3, _⟩
          have := hgt f hf
          unfold highbits at hv' h3
          omega
        · exact h2 v hv
    · rw [if_neg hn]
      have hem : c.values = [] := empty_values hc (by omega)
      have hv0 : valuesOf k c = [] := by unfold valuesOf; rw [hem]; rfl
      rw [valuesL_cons, hv0, List.nil_append]
      exact ih acc (KeysSorted.tail hk) hwt

theorem getLast_live {cs : List Entry} (hk : KeysAsc cs) {hb : Nat} {c : Container}
    (hl : cs.getLast? = some (hb, some c)) : (hb, c) ∈ liveL cs ∧ ∀ e ∈ liveL cs, e.1 ≤ hb := by
  induction cs with
  | nil => simp at hl
  | cons x t ih =>
    cases t with
    | nil =>
      simp at hl; subst hl
      simp [liveL]
    | cons y u =>
      rw [List.getLast?_cons_cons] at hl
      have iht := ih (KeysAsc.tail hk) hl
      rcases x with ⟨k, oc⟩
      have hklt : k < hb := by
        have := KeysAsc.lt hk (hb, some c) (mem_liveL.mp iht.1)
        exact this
      cases oc with
      | none => simp only [liveL]; exact iht
      | some d =>
        simp only [liveL, List.mem_cons]
        refine ⟨Or.inr iht.1, ?_⟩
        rintro e (rfl | he)
        · simp only; omega
        · exact iht.2 e he

theorem Bitmap.max_spec {b : Bitmap} (h : b.WF) :
    (b.values = [] → b.max = 0) ∧ (b.values ≠ [] → b.max ∈ b.values ∧ ∀ v ∈ b.values, v ≤ b.max) := by
  have hk := Bitmap.live_keysSorted h
  have hw := Bitmap.live_wf h
  unfold Bitmap.max
  cases hl : b.cs.getLast? with
  | none =>
    have : b.cs = [] := List.getLast?_eq_none_iff.mp hl
    have hv : b.values = [] := by unfold Bitmap.values Bitmap.live; rw [this]; rfl
    exact ⟨fun _ => rfl, fun hne => absurd hv hne⟩
  | some x =>
    rcases x with ⟨hb, oc⟩
    simp only []
    by_cases hn : N oc > 0
    · rw [if_pos hn]
      cases oc with
      | none => simp [N] at hn
      | some c =>
        have hn' : c.n > 0 := hn
        have hgl := getLast_live h.1 hl
        have hc : c.WF := hw _ hgl.1
        have hm := Container.max_spec hc hn'
        have hmem : hb * 65536 + c.max ∈ b.values := by
          rw [Bitmap.mem_values h]
          have hlt := Container.values_lt hc _ hm.1
          refine ⟨(hb, c), hgl.1, ?_, ?_⟩
          · unfold highbits; simp only; omega
          · unfold lowbits; simp only
            have : (hb * 65536 + c.max) % 65536 = c.max := by omega
            rw [this]; exact hm.1
        have hmax : maxO (some c) = c.max := by
          unfold maxO; simp only []
          rw [if_neg (by omega)]
        rw [hmax]
        refine ⟨fun he => (by rw [he] at hmem; cases hmem), fun _ => ⟨hmem, ?_⟩⟩
        intro v hv
        rcases (Bitmap.mem_values h v).mp hv with ⟨⟨k, d⟩, he, h1, h2⟩
        simp only at h1 h2
        have hkle := hgl.2 _ he
        simp only at hkle
        rcases Nat.lt_or_ge k hb with hlt | hge
        · unfold highbits at h1; omega
        · have hkeq : k = hb := by omega
          subst hkeq
          have := keysSorted_unique hk he hgl.1
          subst this
          have := hm.2 _ h2
          unfold highbits lowbits at *
          omega
    · rw [if_neg hn]
      have := maxFold_spec b.live 0 hk hw
      simp only [] at this
      rw [Bitmap.values_eq]
      rcases this with ⟨h1, h2⟩ | ⟨h1, h2⟩
      · exact ⟨fun _ => h1, fun hne => absurd h2 hne⟩
      · refine ⟨fun he => ?_, fun _ => ⟨h1, h2⟩⟩
        rw [he] at h1; cases h1

end PV.C01
