/-
C01 helper lemmas, part 3: the array x run kernels of Model.lean (`intersectArrayRun`,
`intersectionCountArrayRun`, `differenceArrayRun`, `unionArrayRunEmit`, `xorArrayRunEmit`,
`differenceRunArrayLoop` with `draSkip` / `draInner`).  Core Lean only.
-/
import PV.C01.LemmasRun
namespace PV.C01
open Spec

/-! ### intersect / intersectionCount / difference: the kernel is a filter of the array -/

theorem inRuns_cons_of_gt {vb : Iv} {rb : List Iv} {v : Nat} (h : vb.last < v) :
    inRuns (vb :: rb) v = inRuns rb v := by
  rw [inRuns_cons]
  have : inIv vb v = false := by simp [inIv]; omega
  rw [this]; rfl

theorem inRuns_cons_false_of_lt {vb : Iv} {rb : List Iv} {v : Nat} (hw : RunsWF (vb :: rb))
    (h : v < vb.start) : inRuns (vb :: rb) v = false := by
  apply inRuns_false_of_lt
  intro iv hiv
  rcases List.mem_cons.mp hiv with e | hiv
  · subst e; exact h
  · have := RunsWF.gt hw iv hiv
    have := (RunsWF.head hw).1
    omega

theorem intersectArrayRun_eq_filter : ∀ (fuel : Nat) (a : List Nat) (rb : List Iv), Sorted a → RunsWF rb →
    a.length + rb.length ≤ fuel → intersectArrayRun fuel a rb = a.filter (fun v => inRuns rb v) := by
  intro fuel
  induction fuel with
  | zero =>
    intro a rb _ _ hf
    have ha : a = [] := List.length_eq_zero_iff.mp (by omega)
    subst ha
    simp [intersectArrayRun]
  | succ f ih =>
    intro a rb ha hb hf
    match a, rb with
    | [], _ => simp [intersectArrayRun]
    | va :: as, [] => simp [intersectArrayRun]
    | va :: as, vb :: rb =>
      simp only [intersectArrayRun]
      simp only [List.length_cons] at hf
      by_cases h1 : va < vb.start
      · rw [if_pos h1, ih as (vb :: rb) (sorted_tail ha) hb (by simp only [List.length_cons]; omega)]
        rw [List.filter_cons, if_neg (by rw [inRuns_cons_false_of_lt hb h1]; simp)]
      · rw [if_neg h1]
        by_cases h2 : va > vb.last
        · rw [if_pos h2, ih (va :: as) rb ha (RunsWF.tail hb) (by simp only [List.length_cons]; omega)]
          apply List.filter_congr
          intro x hx
          have : vb.last < x := by
            rcases List.mem_cons.mp hx with e | hx
            · omega
            · have := sorted_lt ha x hx; omega
          rw [inRuns_cons_of_gt this]
        · rw [if_neg h2, ih as (vb :: rb) (sorted_tail ha) hb (by simp only [List.length_cons]; omega)]
          have : inRuns (vb :: rb) va = true := by
            rw [inRuns_cons]
            have : inIv vb va = true := by rw [inIv_iff]; omega
            rw [this]; rfl
          rw [List.filter_cons, if_pos this]

theorem intersectArrayRun_spec (fuel : Nat) (a : List Nat) (rb : List Iv) (ha : Sorted a) (hb : RunsWF rb)
    (hf : a.length + rb.length ≤ fuel) :
    Sorted (intersectArrayRun fuel a rb) ∧ ∀ v, v ∈ intersectArrayRun fuel a rb ↔ (v ∈ a ∧ inRuns rb v = true) := by
  rw [intersectArrayRun_eq_filter fuel a rb ha hb hf]
  exact ⟨sorted_filter _ ha, fun v => List.mem_filter⟩

theorem intersectionCountArrayRun_eq : ∀ (fuel : Nat) (a : List Nat) (rb : List Iv), Sorted a → RunsWF rb →
    a.length + rb.length ≤ fuel →
    intersectionCountArrayRun fuel a rb = (a.filter (fun v => inRuns rb v)).length := by
  intro fuel
  induction fuel with
  | zero =>
    intro a rb _ _ hf
    have ha : a = [] := List.length_eq_zero_iff.mp (by omega)
    subst ha
    simp [intersectionCountArrayRun]
  | succ f ih =>
    intro a rb ha hb hf
    match a, rb with
    | [], _ => simp [intersectionCountArrayRun]
    | va :: as, [] =>
      have : (va :: as).filter (fun v => inRuns [] v) = [] := by
        rw [List.filter_eq_nil_iff]; intro x _; simp
      rw [this]; simp [intersectionCountArrayRun]
    | va :: as, vb :: rb =>
      simp only [intersectionCountArrayRun]
      simp only [List.length_cons] at hf
      by_cases h1 : va < vb.start
      · rw [if_pos h1, ih as (vb :: rb) (sorted_tail ha) hb (by simp only [List.length_cons]; omega)]
        rw [List.filter_cons, if_neg (by rw [inRuns_cons_false_of_lt hb h1]; simp)]
      · rw [if_neg h1]
        by_cases h2 : va ≥ vb.start ∧ va ≤ vb.last
        · rw [if_pos h2, ih as (vb :: rb) (sorted_tail ha) hb (by simp only [List.length_cons]; omega)]
          have : inRuns (vb :: rb) va = true := by
            rw [inRuns_cons]
            have : inIv vb va = true := by rw [inIv_iff]; omega
            rw [this]; rfl
          rw [List.filter_cons, if_pos this, List.length_cons]
          omega
        · rw [if_neg h2, ih (va :: as) rb ha (RunsWF.tail hb) (by simp only [List.length_cons]; omega)]
          congr 1
          apply List.filter_congr
          intro x hx
          have : vb.last < x := by
            rcases List.mem_cons.mp hx with e | hx
            · omega
            · have := sorted_lt ha x hx; omega
          rw [inRuns_cons_of_gt this]

theorem intersectionCountArrayRun_spec (fuel : Nat) (a : List Nat) (rb : List Iv) (ha : Sorted a) (hb : RunsWF rb)
    (hf : a.length + rb.length ≤ fuel) :
    intersectionCountArrayRun fuel a rb = (a.filter (fun v => inRuns rb v)).length :=
  intersectionCountArrayRun_eq fuel a rb ha hb hf

theorem differenceArrayRun_eq_filter : ∀ (fuel : Nat) (a : List Nat) (rb : List Iv), Sorted a → RunsWF rb →
    a.length + rb.length ≤ fuel → differenceArrayRun fuel a rb = a.filter (fun v => !inRuns rb v) := by
  intro fuel
  induction fuel with
  | zero =>
    intro a rb _ _ hf
    have ha : a = [] := List.length_eq_zero_iff.mp (by omega)
    subst ha
    simp [differenceArrayRun]
  | succ f ih =>
    intro a rb ha hb hf
    match a, rb with
    | [], _ => simp [differenceArrayRun]
    | va :: as, [] =>
      have : (va :: as).filter (fun v => !inRuns [] v) = va :: as := by
        rw [List.filter_eq_self]; intro x _; simp
      rw [this]; simp [differenceArrayRun]
    | va :: as, vb :: rb =>
      simp only [differenceArrayRun]
      simp only [List.length_cons] at hf
      by_cases h1 : va < vb.start
      · rw [if_pos h1, ih as (vb :: rb) (sorted_tail ha) hb (by simp only [List.length_cons]; omega)]
        rw [List.filter_cons, if_pos (by rw [inRuns_cons_false_of_lt hb h1]; rfl)]
      · rw [if_neg h1]
        by_cases h2 : va ≥ vb.start ∧ va ≤ vb.last
        · rw [if_pos h2, ih as (vb :: rb) (sorted_tail ha) hb (by simp only [List.length_cons]; omega)]
          have : inRuns (vb :: rb) va = true := by
            rw [inRuns_cons]
            have : inIv vb va = true := by rw [inIv_iff]; omega
            rw [this]; rfl
          rw [List.filter_cons, if_neg (by rw [this]; simp)]
        · rw [if_neg h2, ih (va :: as) rb ha (RunsWF.tail hb) (by simp only [List.length_cons]; omega)]
          apply List.filter_congr
          intro x hx
          have : vb.last < x := by
            rcases List.mem_cons.mp hx with e | hx
            · omega
            · have := sorted_lt ha x hx; omega
          rw [inRuns_cons_of_gt this]

theorem differenceArrayRun_spec (fuel : Nat) (a : List Nat) (rb : List Iv) (ha : Sorted a) (hb : RunsWF rb)
    (hf : a.length + rb.length ≤ fuel) :
    Sorted (differenceArrayRun fuel a rb) ∧ ∀ v, v ∈ differenceArrayRun fuel a rb ↔ (v ∈ a ∧ inRuns rb v = false) := by
  rw [differenceArrayRun_eq_filter fuel a rb ha hb hf]
  refine ⟨sorted_filter _ ha, fun v => ?_⟩
  rw [List.mem_filter]
  simp

/-! ### unionArrayRunEmit -/

theorem inIv_false_iff (iv : Iv) (v : Nat) : inIv iv v = false ↔ ¬ (iv.start ≤ v ∧ v ≤ iv.last) := by
  simp [inIv]

theorem decide_mem_cons_eq (v va : Nat) (as : List Nat) :
    decide (v ∈ va :: as) = (inIv ⟨va, va⟩ v || decide (v ∈ as)) := by
  rw [Bool.eq_iff_iff]
  simp only [Bool.or_eq_true, decide_eq_true_eq, List.mem_cons, inIv_iff]
  constructor
  · rintro (h | h)
    · left; omega
    · right; exact h
  · rintro (h | h)
    · left; omega
    · right; exact h

/-- every interval of the list starts at or after `m`. -/
def HeadGe (m : Nat) (l : List Iv) : Prop := ∀ b ∈ l.head?, m ≤ b.start

theorem headGe_cons {m : Nat} {a : Iv} {l : List Iv} (h : m ≤ a.start) : HeadGe m (a :: l) := by
  intro b hb; simp at hb; subst hb; exact h

theorem headGe_nil (m : Nat) : HeadGe m [] := by
  intro b hb; simp at hb

theorem runs_ge_of_wf {m : Nat} {vb : Iv} {rb : List Iv} (hw : RunsWF (vb :: rb)) (h : m ≤ vb.start) :
    ∀ iv ∈ vb :: rb, m ≤ iv.start := by
  intro iv hiv
  rcases List.mem_cons.mp hiv with e | hiv
  · subst e; exact h
  · have := RunsWF.gt hw iv hiv
    have := (RunsWF.head hw).1
    omega

theorem unionArrayRunEmit_aux : ∀ (fuel : Nat) (a : List Nat) (rb : List Iv) (m : Nat), Sorted a →
    (∀ v ∈ a, v < 65536) → RunsWF rb → a.length + rb.length ≤ fuel →
    (∀ v ∈ a, m ≤ v) → (∀ iv ∈ rb, m ≤ iv.start) →
    EmitOK (unionArrayRunEmit fuel a rb) ∧ HeadGe m (unionArrayRunEmit fuel a rb) ∧
    ∀ v, inRuns (unionArrayRunEmit fuel a rb) v = (decide (v ∈ a) || inRuns rb v) := by
  intro fuel
  induction fuel with
  | zero =>
    intro a rb m _ _ _ hf _ _
    have ha : a = [] := List.length_eq_zero_iff.mp (by omega)
    have hb : rb = [] := List.length_eq_zero_iff.mp (by omega)
    subst ha hb
    simp only [unionArrayRunEmit]
    exact ⟨trivial, headGe_nil m, fun v => by simp⟩
  | succ f ih =>
    intro a rb m ha hlt hb hf hma hmb
    match a, rb with
    | [], [] =>
      simp only [unionArrayRunEmit]
      exact ⟨trivial, headGe_nil m, fun v => by simp⟩
    | va :: as, [] =>
      simp only [unionArrayRunEmit]
      simp only [List.length_cons] at hf
      have hgt := sorted_lt ha
      have hva := hlt va (by simp)
      have ih' := ih as [] va (sorted_tail ha) (fun v hv => hlt v (by simp [hv])) trivial
        (by simp only [List.length_nil] at *; omega) (fun v hv => Nat.le_of_lt (hgt v hv)) (fun _ h => by cases h)
      refine ⟨EmitOK.cons (by simp; omega) ih'.1 ih'.2.1, headGe_cons (hma va (by simp)), ?_⟩
      intro v
      rw [inRuns_cons, ih'.2.2 v, decide_mem_cons_eq, Bool.or_assoc]
    | [], vb :: rb =>
      simp only [unionArrayRunEmit]
      simp only [List.length_cons] at hf
      have hvb := RunsWF.head hb
      have ih' := ih [] rb vb.start trivial (fun _ h => by cases h) (RunsWF.tail hb)
        (by simp only [List.length_nil] at *; omega) (fun _ h => by cases h)
        (fun iv hiv => by have := RunsWF.gt hb iv hiv; omega)
      refine ⟨EmitOK.cons hvb ih'.1 ih'.2.1, headGe_cons (hmb vb (by simp)), ?_⟩
      intro v
      rw [inRuns_cons, ih'.2.2 v, inRuns_cons]
      simp
    | va :: as, vb :: rb =>
      simp only [unionArrayRunEmit]
      simp only [List.length_cons] at hf
      have hgt := sorted_lt ha
      have hva := hlt va (by simp)
      have hvb := RunsWF.head hb
      by_cases h1 : va < vb.start
      · rw [if_pos h1]
        have ih' := ih as (vb :: rb) va (sorted_tail ha) (fun v hv => hlt v (by simp [hv])) hb
          (by simp only [List.length_cons]; omega) (fun v hv => Nat.le_of_lt (hgt v hv))
          (runs_ge_of_wf hb (Nat.le_of_lt h1))
        refine ⟨EmitOK.cons (by simp; omega) ih'.1 ih'.2.1, headGe_cons (hma va (by simp)), ?_⟩
        intro v
        rw [inRuns_cons, ih'.2.2 v, decide_mem_cons_eq, Bool.or_assoc]
      · rw [if_neg h1]
        have ih' := ih (va :: as) rb vb.start ha hlt (RunsWF.tail hb)
          (by simp only [List.length_cons]; omega)
          (by
            intro v hv
            rcases List.mem_cons.mp hv with e | hv
            · omega
            · have := hgt v hv; omega)
          (fun iv hiv => by have := RunsWF.gt hb iv hiv; omega)
        refine ⟨EmitOK.cons hvb ih'.1 ih'.2.1, headGe_cons (hmb vb (by simp)), ?_⟩
        intro v
        rw [inRuns_cons, ih'.2.2 v, inRuns_cons]
        cases inIv vb v <;> cases decide (v ∈ va :: as) <;> cases inRuns rb v <;> rfl

theorem unionArrayRunEmit_spec (fuel : Nat) (a : List Nat) (rb : List Iv) (ha : Sorted a)
    (hlt : ∀ v ∈ a, v < 65536) (hb : RunsWF rb) (hf : a.length + rb.length ≤ fuel) :
    EmitOK (unionArrayRunEmit fuel a rb) ∧
    ∀ v, inRuns (unionArrayRunEmit fuel a rb) v = (decide (v ∈ a) || inRuns rb v) := by
  have := unionArrayRunEmit_aux fuel a rb 0 ha hlt hb hf (fun _ _ => Nat.zero_le _) (fun _ _ => Nat.zero_le _)
  exact ⟨this.1, this.2.2⟩

/-! ### xorArrayRunEmit -/

theorem bne_eq_true_iff' (a b : Bool) : (a != b) = true ↔ ¬ (a = true ↔ b = true) := by
  cases a <;> cases b <;> simp

theorem inRuns_true_gt {vb : Iv} {rb : List Iv} {v : Nat} (hw : RunsWF (vb :: rb))
    (h : inRuns rb v = true) : vb.last < v := by
  simp only [inRuns, List.any_eq_true] at h
  rcases h with ⟨iv, hiv, h⟩
  rw [inIv_iff] at h
  have := RunsWF.gt hw iv hiv
  omega

theorem bnot_eq_true_iff' (b : Bool) : (!b) = true ↔ ¬ (b = true) := by
  cases b <;> simp

/-- turn a Boolean equation over `inIv` atoms, `decide` of linear arithmetic and constants into
linear arithmetic. -/
macro "iv_omega" : tactic => `(tactic|
  (rw [Bool.eq_iff_iff]
   simp only [Bool.or_eq_true, Bool.and_eq_true, bne_eq_true_iff', bnot_eq_true_iff', inIv_iff, inIv_false_iff,
     decide_eq_true_eq, decide_eq_false_iff_not,
     Bool.false_eq_true, Bool.true_eq_false, eq_self,
     true_or, or_true, false_or, or_false, true_and, and_true, false_and, and_false,
     true_iff, iff_true, false_iff, iff_false, not_true_eq_false, not_false_eq_true] <;> omega))

/-- close a semantic goal whose only non-arithmetic atoms are `decide (v ∈ as)` (all of `as` above `va`)
and `inRuns rb v` (all of `rb` after `vb`). -/
macro "xor_sem " hgt:term:max hw:term:max v:term:max as:term:max rb:term:max : tactic => `(tactic|
  (by_cases hm : $v ∈ $as
   · have hm1 := $hgt $v hm
     rw [decide_eq_true hm]
     cases eQ : inRuns $rb $v
     · iv_omega
     · have hq := inRuns_true_gt $hw eQ
       iv_omega
   · rw [decide_eq_false hm]
     cases eQ : inRuns $rb $v
     · iv_omega
     · have hq := inRuns_true_gt $hw eQ
       iv_omega))

/-- the runs still to be read: the (possibly trimmed) current run, then the rest. -/
def xcur : Option Iv → List Iv → List Iv
  | none, rb => rb
  | some vb, rb => vb :: rb

def xmeas : Option Iv → Nat
  | none => 0
  | some _ => 1

theorem runsWF_trim {vb : Iv} {rb : List Iv} {s : Nat} (hw : RunsWF (vb :: rb)) (h2 : s ≤ vb.last) :
    RunsWF (⟨s, vb.last⟩ :: rb) :=
  RunsWF.cons ⟨h2, (RunsWF.head hw).2⟩ (RunsWF.tail hw) (fun iv hiv => RunsWF.gt hw iv hiv)

theorem xorArrayRunEmit_aux : ∀ (fuel : Nat) (a : List Nat) (cur : Option Iv) (rb : List Iv) (m : Nat),
    Sorted a → (∀ v ∈ a, v < 65536) → RunsWF (xcur cur rb) →
    2 * a.length + 2 * rb.length + xmeas cur ≤ fuel →
    (∀ v ∈ a, m ≤ v) → (∀ iv ∈ xcur cur rb, m ≤ iv.start) →
    EmitOK (xorArrayRunEmit fuel a cur rb) ∧ HeadGe m (xorArrayRunEmit fuel a cur rb) ∧
    ∀ v, inRuns (xorArrayRunEmit fuel a cur rb) v = (decide (v ∈ a) != inRuns (xcur cur rb) v) := by
  intro fuel
  induction fuel with
  | zero =>
    intro a cur rb m _ _ _ hf _ _
    have ha : a = [] := List.length_eq_zero_iff.mp (by omega)
    have hb : rb = [] := List.length_eq_zero_iff.mp (by omega)
    subst ha hb
    cases cur with
    | some vb => simp only [xmeas] at hf; omega
    | none =>
      simp only [xorArrayRunEmit]
      exact ⟨trivial, headGe_nil m, fun v => by simp [xcur]⟩
  | succ f ih =>
    intro a cur rb m ha hlt hw hf hma hmb
    match a, cur, rb with
    | aa, none, vb :: rb =>
      simp only [xorArrayRunEmit]
      exact ih aa (some vb) rb m ha hlt hw (by simp only [xmeas, List.length_cons] at *; omega) hma hmb
    | [], none, [] =>
      simp only [xorArrayRunEmit]
      exact ⟨trivial, headGe_nil m, fun v => by simp [xcur]⟩
    | va :: as, none, [] =>
      simp only [xorArrayRunEmit]
      have hgt := sorted_lt ha
      have hva := hlt va (by simp)
      have ih' := ih as none [] va (sorted_tail ha) (fun v hv => hlt v (by simp [hv])) trivial
        (by simp only [xmeas, List.length_cons, List.length_nil] at *; omega)
        (fun v hv => Nat.le_of_lt (hgt v hv)) (fun _ h => by cases h)
      refine ⟨EmitOK.cons (by simp; omega) ih'.1 ih'.2.1, headGe_cons (hma va (by simp)), ?_⟩
      intro v
      rw [inRuns_cons, ih'.2.2 v, decide_mem_cons_eq]
      simp only [xcur, inRuns_nil]
      cases inIv ⟨va, va⟩ v <;> cases decide (v ∈ as) <;> rfl
    | [], some vb, rb =>
      simp only [xorArrayRunEmit]
      simp only [xcur] at hw hmb
      have hvb := RunsWF.head hw
      have ih' := ih [] none rb vb.start trivial (fun _ h => by cases h) (RunsWF.tail hw)
        (by simp only [xmeas, List.length_nil] at *; omega) (fun _ h => by cases h)
        (fun iv hiv => by have := RunsWF.gt hw iv hiv; omega)
      refine ⟨EmitOK.cons hvb ih'.1 ih'.2.1, headGe_cons (hmb vb (by simp)), ?_⟩
      intro v
      rw [inRuns_cons, ih'.2.2 v]
      simp only [xcur, inRuns_cons]
      have : decide (v ∈ ([] : List Nat)) = false := by simp
      rw [this]
      cases inIv vb v <;> cases inRuns rb v <;> rfl
    | va :: as, some vb, rb =>
      simp only [xorArrayRunEmit]
      simp only [xcur] at hw hmb
      have hgt := sorted_lt ha
      have hva := hlt va (by simp)
      have hvb := RunsWF.head hw
      have hvbm := hmb vb (by simp)
      have hvam := hma va (by simp)
      have hlt' : ∀ v ∈ as, v < 65536 := fun v hv => hlt v (by simp [hv])
      have hrb : ∀ iv ∈ rb, vb.last < iv.start := RunsWF.gt hw
      simp only [xmeas, List.length_cons] at hf
      by_cases h1 : va < vb.start
      · rw [if_pos h1]
        have ih' := ih as (some vb) rb va (sorted_tail ha) hlt' hw
          (by simp only [xmeas]; omega) (fun v hv => Nat.le_of_lt (hgt v hv))
          (runs_ge_of_wf hw (Nat.le_of_lt h1))
        refine ⟨EmitOK.cons (by simp; omega) ih'.1 ih'.2.1, headGe_cons hvam, ?_⟩
        intro v
        rw [inRuns_cons, ih'.2.2 v, decide_mem_cons_eq]
        simp only [xcur, inRuns_cons]
        xor_sem hgt hw v as rb
      · rw [if_neg h1]
        by_cases h2 : va > vb.last
        · rw [if_pos h2]
          have ih' := ih (va :: as) none rb vb.start ha hlt (RunsWF.tail hw)
            (by simp only [xmeas, List.length_cons]; omega)
            (by
              intro v hv
              rcases List.mem_cons.mp hv with e | hv
              · omega
              · have := hgt v hv; omega)
            (fun iv hiv => by have := hrb iv hiv; omega)
          refine ⟨EmitOK.cons hvb ih'.1 ih'.2.1, headGe_cons hvbm, ?_⟩
          intro v
          rw [inRuns_cons, ih'.2.2 v, decide_mem_cons_eq]
          simp only [xcur, inRuns_cons]
          xor_sem hgt hw v as rb
        · rw [if_neg h2]
          by_cases h3 : va > vb.start
          · rw [if_pos h3]
            by_cases h4 : va < vb.last
            · rw [if_pos h4]
              have hw' : RunsWF (⟨va + 1, vb.last⟩ :: rb) := runsWF_trim hw (by omega)
              have ih' := ih as (some ⟨va + 1, vb.last⟩) rb vb.start (sorted_tail ha) hlt' hw'
                (by simp only [xmeas]; omega)
                (fun v hv => by have := hgt v hv; omega)
                (by
                  intro iv hiv
                  rcases List.mem_cons.mp hiv with e | hiv
                  · subst e; simp; omega
                  · have := hrb iv hiv; omega)
              refine ⟨EmitOK.cons (by simp; omega) ih'.1 ih'.2.1, headGe_cons hvbm, ?_⟩
              intro v
              rw [inRuns_cons, ih'.2.2 v, decide_mem_cons_eq]
              simp only [xcur, inRuns_cons]
              xor_sem hgt hw v as rb
            · rw [if_neg h4]
              have ih' := ih as none rb vb.start (sorted_tail ha) hlt' (RunsWF.tail hw)
                (by simp only [xmeas]; omega)
                (fun v hv => by have := hgt v hv; omega)
                (fun iv hiv => by have := hrb iv hiv; omega)
              refine ⟨EmitOK.cons (by simp; omega) ih'.1 ih'.2.1, headGe_cons hvbm, ?_⟩
              intro v
              rw [inRuns_cons, ih'.2.2 v, decide_mem_cons_eq]
              simp only [xcur, inRuns_cons]
              xor_sem hgt hw v as rb
          · rw [if_neg h3]
            have hnone : EmitOK (xorArrayRunEmit f as none rb) ∧ HeadGe m (xorArrayRunEmit f as none rb) ∧
                ∀ v, inRuns (xorArrayRunEmit f as none rb) v = (decide (v ∈ as) != inRuns rb v) :=
              ih as none rb m (sorted_tail ha) hlt' (RunsWF.tail hw)
                (by simp only [xmeas]; omega)
                (fun v hv => by have := hgt v hv; omega)
                (fun iv hiv => by have := hrb iv hiv; omega)
            by_cases h5 : vb.start = 65535
            · rw [if_pos h5]
              refine ⟨hnone.1, hnone.2.1, ?_⟩
              intro v
              rw [hnone.2.2 v, decide_mem_cons_eq]
              simp only [xcur, inRuns_cons]
              xor_sem hgt hw v as rb
            · rw [if_neg h5]
              by_cases h6 : vb.start + 1 > vb.last
              · rw [if_pos h6]
                refine ⟨hnone.1, hnone.2.1, ?_⟩
                intro v
                rw [hnone.2.2 v, decide_mem_cons_eq]
                simp only [xcur, inRuns_cons]
                xor_sem hgt hw v as rb
              · rw [if_neg h6]
                have hw' : RunsWF (⟨vb.start + 1, vb.last⟩ :: rb) := runsWF_trim hw (by omega)
                have ih' := ih as (some ⟨vb.start + 1, vb.last⟩) rb m (sorted_tail ha) hlt' hw'
                  (by simp only [xmeas]; omega)
                  (fun v hv => by have := hgt v hv; omega)
                  (by
                    intro iv hiv
                    rcases List.mem_cons.mp hiv with e | hiv
                    · subst e; simp; omega
                    · have := hrb iv hiv; omega)
                refine ⟨ih'.1, ih'.2.1, ?_⟩
                intro v
                rw [ih'.2.2 v, decide_mem_cons_eq]
                simp only [xcur, inRuns_cons]
                xor_sem hgt hw v as rb

theorem xorArrayRunEmit_spec (a : List Nat) (rb : List Iv) (ha : Sorted a)
    (hlt : ∀ v ∈ a, v < 65536) (hb : RunsWF rb) (fuel : Nat) (hf : 2 * (a.length + rb.length) + 2 ≤ fuel) :
    EmitOK (xorArrayRunEmit fuel a none rb) ∧
    ∀ v, inRuns (xorArrayRunEmit fuel a none rb) v = (decide (v ∈ a) != inRuns rb v) := by
  have := xorArrayRunEmit_aux fuel a none rb 0 ha hlt hb (by simp only [xmeas]; omega)
    (fun _ _ => Nat.zero_le _) (fun _ _ => Nat.zero_le _)
  exact ⟨this.1, this.2.2⟩

/-! ### differenceRunArrayLoop: draSkip, draInner, the run loop -/

/-- the unread part of the array. -/
abbrev stL : Option (Nat × List Nat) → List Nat
  | none => []
  | some (vb, ab) => vb :: ab

theorem dropWhile_lt_spec {l : List Nat} (s : Nat) (h : Sorted l) :
    Sorted (l.dropWhile (· < s)) ∧ ∀ v, v ∈ l.dropWhile (· < s) ↔ (v ∈ l ∧ s ≤ v) := by
  induction l with
  | nil => exact ⟨trivial, fun v => by simp⟩
  | cons a t ih =>
    have iht := ih (sorted_tail h)
    have hgt := sorted_lt h
    rw [List.dropWhile_cons]
    by_cases ha : a < s
    · rw [if_pos (by simp [ha])]
      refine ⟨iht.1, fun v => ?_⟩
      rw [iht.2 v, List.mem_cons]
      constructor
      · rintro ⟨h1, h2⟩; exact ⟨Or.inr h1, h2⟩
      · rintro ⟨h1 | h1, h2⟩
        · omega
        · exact ⟨h1, h2⟩
    · rw [if_neg (by simp [ha])]
      refine ⟨h, fun v => ?_⟩
      constructor
      · intro hv
        refine ⟨hv, ?_⟩
        rcases List.mem_cons.mp hv with e | hv
        · omega
        · have := hgt v hv; omega
      · rintro ⟨h1, _⟩; exact h1

theorem stL_draSkip (s : Nat) (st : Option (Nat × List Nat)) :
    stL (draSkip s st) = (stL st).dropWhile (· < s) := by
  match st with
  | none => rfl
  | some (vb, ab) =>
    simp only [draSkip, stL]
    rw [List.dropWhile_cons]
    by_cases h : vb < s
    · rw [if_pos h, if_pos (by simp [h])]
      cases hd : List.dropWhile (fun x => decide (x < s)) ab with
      | nil => rfl
      | cons x t => rfl
    · rw [if_neg h, if_neg (by simp [h])]

def DraPost (start last : Nat) (st : Option (Nat × List Nat))
    (r : List Iv × Option (Nat × List Nat) × Bool) : Prop :=
  RunsWF r.1 ∧ (∀ iv ∈ r.1, start ≤ iv.start ∧ iv.last ≤ last) ∧
  (∀ v, inRuns r.1 v = (inIv ⟨start, last⟩ v && !decide (v ∈ stL st))) ∧
  (r.2.2 = true → last = 65535) ∧
  (r.2.2 = false → Sorted (stL r.2.1) ∧ ∀ v, v ∈ stL r.2.1 ↔ (v ∈ stL st ∧ last < v))

/-- semantic goals of `draInner`: the only non-arithmetic atom is `decide (v ∈ ab)`. -/
macro "dra_sem " hgt:term:max hlt:term:max v:term:max ab:term:max : tactic => `(tactic|
  (by_cases hm : $v ∈ $ab
   · have hm1 := $hgt $v hm
     have hm2 := $hlt $v hm
     rw [decide_eq_true hm]
     iv_omega
   · rw [decide_eq_false hm]
     iv_omega))

theorem mem_cons_gt_iff {vb last v : Nat} {l : List Nat} (h : vb ≤ last) :
    (v ∈ vb :: l ∧ last < v) ↔ (v ∈ l ∧ last < v) := by
  rw [List.mem_cons]
  constructor
  · rintro ⟨h1 | h1, h2⟩
    · omega
    · exact ⟨h1, h2⟩
  · rintro ⟨h1, h2⟩; exact ⟨Or.inr h1, h2⟩

theorem draPost_whole {start last : Nat} {st : Option (Nat × List Nat)} (hs : Sorted (stL st))
    (hl : last ≤ 65535) (hgt : ∀ x ∈ stL st, last < x) :
    DraPost start last st (if start ≤ last then [⟨start, last⟩] else [], st, false) := by
  unfold DraPost
  dsimp only
  refine ⟨?_, ?_, ?_, ?_, ?_⟩
  · by_cases h : start ≤ last
    · rw [if_pos h]; exact ⟨h, hl⟩
    · rw [if_neg h]; trivial
  · intro iv hiv
    by_cases h : start ≤ last
    · rw [if_pos h] at hiv; simp at hiv; subst hiv; simp
    · rw [if_neg h] at hiv; cases hiv
  · intro v
    have hm : decide (v ∈ stL st) = true → last < v := by
      intro h; exact hgt v (by simpa using h)
    by_cases h : start ≤ last
    · simp only [if_pos h, inRuns_cons, inRuns_nil]
      cases hd : decide (v ∈ stL st)
      · simp
      · have := hm hd
        iv_omega
    · simp only [if_neg h, inRuns_nil]
      cases hd : decide (v ∈ stL st)
      · iv_omega
      · simp
  · intro h; cases h
  · intro _
    refine ⟨hs, fun v => ?_⟩
    constructor
    · intro hv; exact ⟨hv, hgt v hv⟩
    · intro hv; exact hv.1

theorem draInner_spec : ∀ (fuel start last : Nat) (st : Option (Nat × List Nat)),
    Sorted (stL st) → (∀ x ∈ stL st, start ≤ x ∧ x < 65536) → last ≤ 65535 →
    (stL st).length + 1 ≤ fuel → DraPost start last st (draInner fuel start last st) := by
  intro fuel
  induction fuel with
  | zero => intro _ _ _ _ _ _ hf; omega
  | succ f ih =>
    intro start last st hs hL hl hf
    match st with
    | none =>
      simp only [draInner]
      exact draPost_whole hs hl (fun _ h => by cases h)
    | some (vb, ab) =>
      dsimp only [stL] at hs hL hf
      have hgt := sorted_lt hs
      have hvb := hL vb (by simp)
      have hlt : ∀ x ∈ ab, x < 65536 := fun x hx => (hL x (by simp [hx])).2
      simp only [draInner]
      by_cases hr : vb ≥ start ∧ vb ≤ last
      · rw [if_pos hr]
        by_cases h1 : vb = start
        · rw [if_pos h1]
          by_cases h2 : vb = 65535
          · rw [if_pos h2]
            unfold DraPost
            dsimp only
            refine ⟨trivial, fun _ h => (by cases h), ?_, fun _ => (by omega), fun h => (by cases h)⟩
            intro v
            dsimp only [stL]; simp only [inRuns_nil]
            rw [decide_mem_cons_eq]
            dra_sem hgt hlt v ab
          · rw [if_neg h2]
            match ab with
            | [] =>
              unfold DraPost
              dsimp only
              refine ⟨?_, ?_, ?_, fun h => (by cases h), fun _ => ⟨trivial, fun v => ?_⟩⟩
              · by_cases h : start + 1 ≤ last
                · rw [if_pos h]; exact ⟨h, hl⟩
                · rw [if_neg h]; trivial
              · intro iv hiv
                by_cases h : start + 1 ≤ last
                · rw [if_pos h] at hiv; simp at hiv; subst hiv; simp
                · rw [if_neg h] at hiv; cases hiv
              · intro v
                dsimp only [stL]
                rw [decide_mem_cons_eq]
                by_cases h : start + 1 ≤ last
                · simp only [if_pos h, inRuns_cons, inRuns_nil]
                  rw [show decide (v ∈ ([] : List Nat)) = false from by simp]; iv_omega
                · simp only [if_neg h, inRuns_nil]
                  rw [show decide (v ∈ ([] : List Nat)) = false from by simp]; iv_omega
              · dsimp only [stL]
                constructor
                · intro h; cases h
                · rintro ⟨h, h'⟩; simp at h; omega
            | vb' :: ab' =>
              have ih' := ih (start + 1) last (some (vb', ab')) (sorted_tail hs)
                (fun x hx => ⟨by have := hgt x hx; omega, hlt x hx⟩) hl
                (by simp only [stL, List.length_cons] at *; omega)
              unfold DraPost at ih' ⊢
              dsimp only at ih' ⊢
              refine ⟨ih'.1, fun iv hiv => ?_, fun v => ?_, ih'.2.2.2.1, fun hb => ?_⟩
              · have := ih'.2.1 iv hiv; omega
              · rw [ih'.2.2.1 v]
                dsimp only [stL]
                rw [decide_mem_cons_eq v vb]
                dra_sem hgt hlt v (vb' :: ab')
              · have := ih'.2.2.2.2 hb
                refine ⟨this.1, fun v => ?_⟩
                rw [this.2 v]
                dsimp only [stL]
                exact (mem_cons_gt_iff hr.2).symm
        · rw [if_neg h1]
          by_cases h2 : vb = 65535
          · rw [if_pos h2]
            unfold DraPost
            dsimp only
            refine ⟨⟨(by simp; omega), (by simp; omega)⟩, ?_, ?_, fun _ => (by omega), fun h => (by cases h)⟩
            · intro iv hiv; simp at hiv; subst hiv; simp; omega
            · intro v
              dsimp only [stL]; simp only [inRuns_cons, inRuns_nil]
              rw [decide_mem_cons_eq]
              dra_sem hgt hlt v ab
          · rw [if_neg h2]
            match ab with
            | [] =>
              unfold DraPost
              dsimp only
              refine ⟨?_, ?_, ?_, fun h => (by cases h), fun _ => ⟨trivial, fun v => ?_⟩⟩
              · by_cases h : vb + 1 ≤ last
                · rw [if_pos h]; exact ⟨by simp; omega, by simp; omega, h, hl⟩
                · rw [if_neg h]; exact ⟨by simp; omega, by simp; omega⟩
              · intro iv hiv
                by_cases h : vb + 1 ≤ last
                · rw [if_pos h] at hiv; simp at hiv
                  rcases hiv with e | e <;> subst e <;> simp <;> omega
                · rw [if_neg h] at hiv; simp at hiv; subst hiv; simp; omega
              · intro v
                dsimp only [stL]
                rw [decide_mem_cons_eq]
                by_cases h : vb + 1 ≤ last
                · simp only [if_pos h, inRuns_cons, inRuns_nil]
                  rw [show decide (v ∈ ([] : List Nat)) = false from by simp]; iv_omega
                · simp only [if_neg h, inRuns_cons, inRuns_nil]
                  rw [show decide (v ∈ ([] : List Nat)) = false from by simp]; iv_omega
              · dsimp only [stL]
                constructor
                · intro h; cases h
                · rintro ⟨h, h'⟩; simp at h; omega
            | vb' :: ab' =>
              have ih' := ih (vb + 1) last (some (vb', ab')) (sorted_tail hs)
                (fun x hx => ⟨by have := hgt x hx; omega, hlt x hx⟩) hl
                (by simp only [stL, List.length_cons] at *; omega)
              unfold DraPost at ih' ⊢
              dsimp only at ih' ⊢
              refine ⟨?_, fun iv hiv => ?_, fun v => ?_, ih'.2.2.2.1, fun hb => ?_⟩
              · apply RunsWF.cons ⟨by simp; omega, by simp; omega⟩ ih'.1
                intro iv hiv
                have := ih'.2.1 iv hiv
                simp; omega
              · rcases List.mem_cons.mp hiv with e | hiv
                · subst e; simp; omega
                · have := ih'.2.1 iv hiv; omega
              · rw [inRuns_cons, ih'.2.2.1 v]
                dsimp only [stL]
                rw [decide_mem_cons_eq v vb]
                dra_sem hgt hlt v (vb' :: ab')
              · have := ih'.2.2.2.2 hb
                refine ⟨this.1, fun v => ?_⟩
                rw [this.2 v]
                dsimp only [stL]
                exact (mem_cons_gt_iff hr.2).symm
      · rw [if_neg hr]
        apply draPost_whole (st := some (vb, ab)) hs hl
        intro x hx
        dsimp only [stL] at hx
        rcases List.mem_cons.mp hx with e | hx
        · omega
        · have := hgt x hx; omega

theorem runsWF_append {l1 l2 : List Iv} (h1 : RunsWF l1) (h2 : RunsWF l2)
    (h : ∀ x ∈ l1, ∀ y ∈ l2, x.last < y.start) : RunsWF (l1 ++ l2) := by
  induction l1 with
  | nil => simpa using h2
  | cons a t ih =>
    rw [List.cons_append]
    apply RunsWF.cons (RunsWF.head h1) (ih (RunsWF.tail h1) (fun x hx y hy => h x (by simp [hx]) y hy))
    intro iv hiv
    rcases List.mem_append.mp hiv with hiv | hiv
    · exact RunsWF.gt h1 iv hiv
    · exact h a (by simp) iv hiv

/-- the fuel `differenceRunArrayLoop` hands to `draInner`. -/
def draFuel (run : Iv) (st1 : Option (Nat × List Nat)) : Nat :=
  run.last - run.start + 2 + (match st1 with | some (_, ab) => ab.length | none => 0)

theorem draFuel_ge (run : Iv) (st1 : Option (Nat × List Nat)) : (stL st1).length + 1 ≤ draFuel run st1 := by
  match st1 with
  | none => simp only [draFuel, stL, List.length_nil]; omega
  | some (vb, ab) => simp only [draFuel, stL, List.length_cons]; omega

theorem draLoop_cons (run : Iv) (ra : List Iv) (st : Option (Nat × List Nat)) :
    differenceRunArrayLoop (run :: ra) st =
      if (draInner (draFuel run (draSkip run.start st)) run.start run.last (draSkip run.start st)).2.2 = true
      then (draInner (draFuel run (draSkip run.start st)) run.start run.last (draSkip run.start st)).1
      else (draInner (draFuel run (draSkip run.start st)) run.start run.last (draSkip run.start st)).1 ++
        differenceRunArrayLoop ra
          (draInner (draFuel run (draSkip run.start st)) run.start run.last (draSkip run.start st)).2.1 := rfl

theorem differenceRunArrayLoop_aux : ∀ (ra : List Iv) (st : Option (Nat × List Nat)), RunsWF ra →
    Sorted (stL st) → (∀ x ∈ stL st, x < 65536) →
    RunsWF (differenceRunArrayLoop ra st) ∧
    (∀ m, (∀ r ∈ ra, m ≤ r.start) → ∀ iv ∈ differenceRunArrayLoop ra st, m ≤ iv.start) ∧
    ∀ v, inRuns (differenceRunArrayLoop ra st) v = (inRuns ra v && !decide (v ∈ stL st)) := by
  intro ra
  induction ra with
  | nil =>
    intro st _ _ _
    simp only [differenceRunArrayLoop]
    exact ⟨trivial, fun _ _ _ h => (by cases h), fun v => by simp⟩
  | cons run ra ih =>
    intro st hw hs hlt
    have hrun := RunsWF.head hw
    have hgt := RunsWF.gt hw
    have hskip := dropWhile_lt_spec run.start hs
    rw [← stL_draSkip] at hskip
    have hlt1 : ∀ x ∈ stL (draSkip run.start st), run.start ≤ x ∧ x < 65536 := by
      intro x hx
      have := (hskip.2 x).mp hx
      exact ⟨this.2, hlt x this.1⟩
    have hpost := draInner_spec (draFuel run (draSkip run.start st)) run.start run.last
      (draSkip run.start st) hskip.1 hlt1 hrun.2 (draFuel_ge _ _)
    rw [draLoop_cons]
    generalize draInner (draFuel run (draSkip run.start st)) run.start run.last (draSkip run.start st) = r
      at hpost ⊢
    generalize draSkip run.start st = st1 at hskip hlt1 hpost
    obtain ⟨p1, p2, p3, p4, p5⟩ := hpost
    have hL1 : ∀ v, decide (v ∈ stL st1) = (decide (v ∈ stL st) && decide (run.start ≤ v)) := by
      intro v
      rw [← Bool.decide_and]
      exact decide_eq_decide.mpr (hskip.2 v)
    have hsem1 : ∀ v, inRuns r.1 v = (inIv run v && !(decide (v ∈ stL st) && decide (run.start ≤ v))) := by
      intro v
      rw [p3 v, hL1 v]
    cases hbrk : r.2.2 with
    | true =>
      rw [if_pos rfl]
      have hlast := p4 hbrk
      refine ⟨p1, ?_, ?_⟩
      · intro m hm iv hiv
        have := (p2 iv hiv).1
        have := hm run (by simp)
        omega
      · intro v
        have hra : inRuns ra v = false := by
          cases hq : inRuns ra v with
          | false => rfl
          | true =>
            exfalso
            simp only [inRuns, List.any_eq_true] at hq
            rcases hq with ⟨iv, hiv, _⟩
            have := hgt iv hiv
            have := RunsWF.valid (RunsWF.tail hw) iv hiv
            omega
        rw [hsem1 v, inRuns_cons, hra]
        cases decide (v ∈ stL st)
        · iv_omega
        · iv_omega
    | false =>
      rw [if_neg (by simp)]
      have hst' := p5 hbrk
      have hlt' : ∀ x ∈ stL r.2.1, x < 65536 := by
        intro x hx
        exact (hlt1 x ((hst'.2 x).mp hx).1).2
      have ih' := ih r.2.1 (RunsWF.tail hw) hst'.1 hlt'
      have hL2 : ∀ v, decide (v ∈ stL r.2.1) =
          ((decide (v ∈ stL st) && decide (run.start ≤ v)) && decide (run.last < v)) := by
        intro v
        rw [← hL1 v, ← Bool.decide_and]
        exact decide_eq_decide.mpr (hst'.2 v)
      refine ⟨?_, ?_, ?_⟩
      · apply runsWF_append p1 ih'.1
        intro x hx y hy
        have := (p2 x hx).2
        have := ih'.2.1 (run.last + 1) (fun r' hr' => by have := hgt r' hr'; omega) y hy
        omega
      · intro m hm iv hiv
        rcases List.mem_append.mp hiv with hiv | hiv
        · have := (p2 iv hiv).1
          have := hm run (by simp)
          omega
        · exact ih'.2.1 m (fun r' hr' => hm r' (by simp [hr'])) iv hiv
      · intro v
        rw [inRuns_append, hsem1 v, ih'.2.2 v, hL2 v, inRuns_cons]
        cases hq : inRuns ra v with
        | false =>
          cases decide (v ∈ stL st)
          · iv_omega
          · iv_omega
        | true =>
          have := inRuns_true_gt hw hq
          cases decide (v ∈ stL st)
          · iv_omega
          · iv_omega

theorem differenceRunArrayLoop_spec (ra : List Iv) (vb : Nat) (ab : List Nat) (ha : RunsWF ra)
    (hb : Sorted (vb :: ab)) (hlt : ∀ v ∈ vb :: ab, v < 65536) :
    RunsWF (differenceRunArrayLoop ra (some (vb, ab))) ∧
    ∀ v, inRuns (differenceRunArrayLoop ra (some (vb, ab))) v = (inRuns ra v && !decide (v ∈ vb :: ab)) := by
  have := differenceRunArrayLoop_aux ra (some (vb, ab)) ha hb hlt
  exact ⟨this.1, this.2.2⟩

end PV.C01
