/-
C01 helper lemmas, part 9: container-level shift / add(0) / optimize, Bitmap.Shift, Bitmap.Optimize,
the bitmap-level intersection count.  Core Lean only.
-/
import PV.C01.LemmasL2Ops
import PV.C01.LemmasL2Reads
namespace PV.C01
open Spec

/-! ### container-level shift -/

theorem sorted_map_succ {l : List Nat} (h : Sorted l) : Sorted (l.map (· + 1)) := by
  have := sorted_map_add 1 h
  have e : l.map (· + 1) = l.map (1 + ·) := by
    apply List.map_congr_left; intro a _; omega
  rw [e]; exact this

theorem shiftBits_length (bits : List Nat) (h : Sorted bits) (hlt : ∀ v ∈ bits, v < 65536) :
    (Spec.shift 65536 bits).length = bits.length - (if bits.contains 65535 then 1 else 0) := by
  unfold Spec.shift
  induction bits with
  | nil => rfl
  | cons a t ih =>
    have hgt := sorted_lt h
    have ha := hlt a (by simp)
    rw [List.map_cons, List.filter_cons]
    by_cases h1 : a = 65535
    · have ht : t = [] := by
        cases t with
        | nil => rfl
        | cons b u => have := hgt b (by simp); have := hlt b (by simp); omega
      subst ht; subst h1
      simp
    · have : decide (a + 1 < 65536) = true := by simp; omega
      rw [if_pos this, List.length_cons, ih (sorted_tail h) (fun v hv => hlt v (by simp [hv]))]
      have hc : (a :: t).contains 65535 = t.contains 65535 := by
        simp only [List.contains_cons]
        have : (65535 == a) = false := by simp; omega
        rw [this]; rfl
      rw [hc, List.length_cons]
      split
      · rename_i hc'
        have : t ≠ [] := by intro he; subst he; simp at hc'
        have : t.length > 0 := List.length_pos_iff.mpr this
        omega
      · omega

theorem shift_spec {c : Container} (h : c.WF) :
    WFO (PV.C01.shift c).1 ∧
    (∀ w, w ∈ valuesO (PV.C01.shift c).1 ↔ (1 ≤ w ∧ w < 65536 ∧ w - 1 ∈ c.values)) ∧
    ((PV.C01.shift c).2 = true ↔ 65535 ∈ c.values) := by
  unfold PV.C01.shift
  by_cases h0 : c.n = 0
  · rw [if_pos h0]
    have hv := empty_values h h0
    simp [WFO, valuesO, hv]
  · rw [if_neg h0]
    cases c with
    | array xs =>
      have S := shiftArray_spec xs h.1 h.2
      simp only []
      refine ⟨⟨S.1, ?_⟩, ?_, S.2.2⟩
      · intro v hv; exact ((S.2.1 v).mp hv).2.1
      · intro w; exact S.2.1 w
    | run n ivs =>
      have S := shiftRunLoop_spec ivs h.1 false
      simp only []
      refine ⟨⟨S.1, rfl⟩, ?_, ?_⟩
      · intro w
        show w ∈ runValues (shiftRunLoop ivs false).1 ↔ _
        rw [mem_runValues, S.2.2.1 w]
        show _ ↔ (1 ≤ w ∧ w < 65536 ∧ w - 1 ∈ runValues ivs)
        rw [mem_runValues]
        simp only [Bool.and_eq_true, decide_eq_true_eq]
        constructor
        · rintro ⟨⟨h1, h2⟩, h3⟩; exact ⟨h1, by omega, h3⟩
        · rintro ⟨h1, h2, h3⟩; exact ⟨⟨h1, by omega⟩, h3⟩
      · rw [S.2.2.2]
        show _ ↔ 65535 ∈ runValues ivs
        rw [mem_runValues]
        cases ivs with
        | nil => simp
        | cons a t => simp
    | bitmap n bits =>
      simp only [shiftBitmap]
      have hs : Sorted (Spec.shift 65536 bits) := sorted_filter _ (sorted_map_succ h.1)
      have hm : ∀ w, w ∈ Spec.shift 65536 bits ↔ (1 ≤ w ∧ w < 65536 ∧ w - 1 ∈ bits) := by
        intro w
        unfold Spec.shift
        rw [List.mem_filter, List.mem_map]
        constructor
        · rintro ⟨⟨x, hx, rfl⟩, h2⟩
          have : x + 1 < 65536 := by simpa using h2
          exact ⟨by omega, this, by simpa using hx⟩
        · rintro ⟨h1, h2, h3⟩
          exact ⟨⟨w - 1, h3, by omega⟩, by simpa using h2⟩
      refine ⟨⟨hs, fun v hv => ((hm v).mp hv).2.1, ?_⟩, hm, ?_⟩
      · rw [shiftBits_length bits h.1 h.2.1, h.2.2]
      · simp [Container.values]

/-! ### add 0 -/

theorem insertSorted_zero (xs : List Nat) (h0 : 0 ∉ xs) : insertSorted 0 xs = 0 :: xs := by
  cases xs with
  | nil => rfl
  | cons a t =>
    have : a ≠ 0 := fun e => h0 (by simp [e])
    simp only [insertSorted]
    rw [if_pos (by omega)]

theorem sorted_zero_cons {xs : List Nat} (h : Sorted xs) (h0 : 0 ∉ xs) : Sorted (0 :: xs) := by
  apply sorted_cons h
  intro x hx
  have : x ≠ 0 := fun e => h0 (e ▸ hx)
  omega

theorem runAddLoop_zero (a : Iv) (t : List Iv) (hs : a.start ≠ 0) :
    runAddLoop 0 none (a :: t) =
      if 1 = a.start then (⟨a.start - 1, a.last⟩ :: t, true) else (⟨0, 0⟩ :: a :: t, true) := by
  simp only [runAddLoop]
  rw [if_pos (Nat.zero_le _)]
  have : ¬ (0 ≥ a.start) := by omega
  rw [if_neg this]

theorem add_zero_spec {o : Option Container} (h : WFO o) (h0 : 0 ∉ valuesO o) :
    (add o 0).WF ∧ ∀ w, w ∈ (add o 0).values ↔ (w = 0 ∨ w ∈ valuesO o) := by
  cases o with
  | none => simp [add, Container.WF, Sorted, Container.values, valuesO]
  | some c =>
    cases c with
    | array xs =>
      have h0' : 0 ∉ xs := h0
      have hc : xs.contains 0 = false := by simpa using h0'
      simp only [add, arrayAdd, hc]
      simp only [Bool.false_eq_true, if_false, insertSorted_zero xs h0']
      split
      · refine ⟨⟨sorted_zero_cons h.1 h0', ?_, by simp⟩, by intro w; simp [Container.values, valuesO]⟩
        intro v hv
        rcases List.mem_cons.mp hv with rfl | hv
        · omega
        · exact h.2 v hv
      · refine ⟨⟨sorted_zero_cons h.1 h0', ?_⟩, by intro w; simp [Container.values, valuesO]⟩
        intro v hv
        rcases List.mem_cons.mp hv with rfl | hv
        · omega
        · exact h.2 v hv
    | bitmap n bits =>
      have h0' : 0 ∉ bits := h0
      have hc : bits.contains 0 = false := by simpa using h0'
      simp only [add, bitmapAdd, hc]
      simp only [Bool.false_eq_true, if_false, insertSorted_zero bits h0']
      refine ⟨⟨sorted_zero_cons h.1 h0', ?_, by simp [h.2.2]⟩, by intro w; simp [Container.values, valuesO]⟩
      intro v hv
      rcases List.mem_cons.mp hv with rfl | hv
      · omega
      · exact h.2.1 v hv
    | run n ivs =>
      have h0' : 0 ∉ runValues ivs := h0
      simp only [add, runAdd]
      cases ivs with
      | nil =>
        simp only [runAddLoop]
        refine ⟨⟨⟨Nat.le_refl _, by simp⟩, ?_⟩, ?_⟩
        · have := h.2; simp [runsCard] at this ⊢; omega
        · intro w
          show w ∈ runValues [⟨0, 0⟩] ↔ _
          rw [mem_runValues]; simp [inIv, valuesO, Container.values, runValues]
      | cons a t =>
        have ha := RunsWF.head h.1
        have hgt := RunsWF.gt h.1
        have hstart : a.start ≠ 0 := by
          intro e
          apply h0'
          rw [mem_runValues, inRuns_cons]
          have : inIv a 0 = true := by rw [inIv_iff]; omega
          rw [this]; rfl
        rw [runAddLoop_zero a t hstart]
        by_cases h1 : 1 = a.start
        · rw [if_pos h1]
          simp only [if_true]
          refine ⟨⟨?_, ?_⟩, ?_⟩
          · apply RunsWF.cons (by simp; omega) (RunsWF.tail h.1)
            intro iv hiv; exact hgt iv hiv
          · have := h.2; simp only [runsCard] at this ⊢; omega
          · intro w
            show w ∈ runValues (⟨a.start - 1, a.last⟩ :: t) ↔ (w = 0 ∨ w ∈ runValues (a :: t))
            rw [mem_runValues, mem_runValues, inRuns_cons, inRuns_cons]
            simp only [Bool.or_eq_true, inIv_iff]
            constructor
            · rintro (⟨h2, h3⟩ | h2)
              · by_cases hw : w = 0
                · exact Or.inl hw
                · exact Or.inr (Or.inl ⟨by omega, h3⟩)
              · exact Or.inr (Or.inr h2)
            · rintro (rfl | ⟨h2, h3⟩ | h2)
              · exact Or.inl ⟨by show a.start - 1 ≤ 0; omega, by show 0 ≤ a.last; omega⟩
              · exact Or.inl ⟨by show a.start - 1 ≤ w; omega, h3⟩
              · exact Or.inr h2
        · rw [if_neg h1]
          simp only [if_true]
          refine ⟨⟨?_, ?_⟩, ?_⟩
          · apply RunsWF.cons (by simp) h.1
            intro iv hiv
            rcases List.mem_cons.mp hiv with rfl | hiv
            · show 0 < iv.start; omega
            · have := hgt iv hiv; show 0 < iv.start; omega
          · have := h.2; simp only [runsCard] at this ⊢; omega
          · intro w
            show w ∈ runValues (⟨0, 0⟩ :: a :: t) ↔ (w = 0 ∨ w ∈ runValues (a :: t))
            rw [mem_runValues, mem_runValues, inRuns_cons]
            simp only [Bool.or_eq_true, inIv_iff]
            constructor
            · rintro (⟨_, h3⟩ | h2)
              · left; exact Nat.le_zero.mp h3
              · exact Or.inr h2
            · rintro (rfl | h2)
              · exact Or.inl ⟨Nat.le_refl _, Nat.le_refl _⟩
              · exact Or.inr h2

end PV.C01
