/-
C01 helper lemmas, part 15: single-bit reads and updates of the word-level bitmap refine the set level.
Core Lean only.
-/
import PV.C01.Words2
import PV.C01.LemmasWordsZip
namespace PV.C01
open Spec

/-! ### one bit -/

theorem bitMask_eq (v : Nat) : bitMask v = 2 ^ (v % 64) := Nat.one_shiftLeft _

theorem testBit_bitMask (v b : Nat) : (bitMask v).testBit b = decide (v % 64 = b) := by
  rw [bitMask_eq]; exact Nat.testBit_two_pow

theorem bitMask_lt (v : Nat) : bitMask v < 2 ^ 64 := by
  rw [bitMask_eq]; exact Nat.pow_lt_pow_right (by omega) (by omega)

theorem bitMask_ne_zero (v : Nat) : bitMask v ≠ 0 := by
  rw [bitMask_eq]; exact Nat.ne_of_gt (Nat.two_pow_pos _)

theorem and_bitMask (w v : Nat) : w &&& bitMask v = if w.testBit (v % 64) then bitMask v else 0 := by
  apply Nat.eq_of_testBit_eq
  intro i
  rw [Nat.testBit_and, testBit_bitMask]
  by_cases hi : v % 64 = i
  · subst hi
    cases hw : w.testBit (v % 64) <;> simp [testBit_bitMask]
  · cases hw : w.testBit (v % 64) <;> simp [hi, testBit_bitMask]

theorem wContains_eq (ws : List Nat) (v : Nat) : wContains ws v = bitp ws v := by
  unfold wContains bitp
  rw [and_bitMask]
  cases h : (ws.getD (v / 64) 0).testBit (v % 64)
  · simp
  · simp [bitMask_ne_zero]

theorem cnt_point (v s e : Nat) (hs : s ≤ v) (he : v < e) : cnt (fun p => decide (p = v)) s e = 1 := by
  have h := cnt_interval v v s e (Nat.le_refl _)
  have e1 : cnt (fun p => decide (p = v)) s e = cnt (fun p => decide (v ≤ p ∧ p ≤ v)) s e := by
    apply cnt_congr; intro p _ _; rw [decide_eq_decide]; omega
  rw [e1, h]; omega

theorem card_eq_cnt {ws : List Nat} (h : WordsWF ws) : (absW ws).length = cnt (bitp ws) 0 65536 := by
  rw [length_eq_cnt (sorted_absW ws) (absW_lt h), cnt_absW ws 0 65536 (by rw [h.1]; omega)]

theorem bitp_setBit (ws : List Nat) (v p : Nat) (hp : p < 64 * ws.length) :
    bitp (wSetBit ws v) p = (bitp ws p || decide (p = v)) := by
  unfold bitp wSetBit
  rw [getD_mapIdx (fun k w => if k = v / 64 then w ||| bitMask v else w) ws (p / 64) (by omega)]
  by_cases hk : p / 64 = v / 64
  · rw [if_pos hk, Nat.testBit_or, testBit_bitMask]
    congr 1
    rw [decide_eq_decide]; omega
  · rw [if_neg hk]
    have : decide (p = v) = false := by simp; intro h; exact hk (by rw [h])
    rw [this]; simp

theorem bitp_clearBit (ws : List Nat) (v p : Nat) (hp : p < 64 * ws.length) :
    bitp (wClearBit ws v) p = (bitp ws p && !decide (p = v)) := by
  unfold bitp wClearBit
  rw [getD_mapIdx (fun k w => if k = v / 64 then andNot w (bitMask v) else w) ws (p / 64) (by omega)]
  by_cases hk : p / 64 = v / 64
  · rw [if_pos hk]
    unfold andNot
    rw [Nat.testBit_and, testBit_wnot (bitMask_lt v), testBit_bitMask]
    have h1 : decide (p % 64 < 64) = true := by simp; omega
    have h2 : decide (v % 64 = p % 64) = decide (p = v) := by rw [decide_eq_decide]; omega
    rw [h1, h2]; rfl
  · rw [if_neg hk]
    have : decide (p = v) = false := by simp; intro h; exact hk (by rw [h])
    rw [this]; simp

theorem wSetBit_wf {ws : List Nat} (h : WordsWF ws) (v : Nat) : WordsWF (wSetBit ws v) :=
  mapIdx_wf h _ (fun k w hw => by
    split
    · exact Nat.or_lt_two_pow hw (bitMask_lt v)
    · exact hw)

theorem wClearBit_wf {ws : List Nat} (h : WordsWF ws) (v : Nat) : WordsWF (wClearBit ws v) :=
  mapIdx_wf h _ (fun k w hw => by
    split
    · exact Nat.and_lt_two_pow w (wnot_lt _)
    · exact hw)

/-- setting a bit that is not set adds one element. -/
theorem card_setBit {ws : List Nat} (h : WordsWF ws) (v : Nat) (hv : v < 65536) (hb : bitp ws v = false) :
    (absW (wSetBit ws v)).length = (absW ws).length + 1 := by
  have h' := wSetBit_wf h v
  rw [card_eq_cnt h', card_eq_cnt h]
  have e : cnt (bitp (wSetBit ws v)) 0 65536 = cnt (fun p => bitp ws p || decide (p = v)) 0 65536 := by
    apply cnt_congr; intro p _ hp; exact bitp_setBit ws v p (by rw [h.1]; omega)
  rw [e, cnt_or_disjoint, cnt_point v 0 65536 (Nat.zero_le _) hv]
  intro p _ _ ⟨h1, h2⟩
  have : p = v := by simpa using h2
  subst this; rw [hb] at h1; cases h1

/-- clearing a bit that is set removes one element. -/
theorem card_clearBit {ws : List Nat} (h : WordsWF ws) (v : Nat) (hv : v < 65536) (hb : bitp ws v = true) :
    (absW (wClearBit ws v)).length + 1 = (absW ws).length := by
  have h' := wClearBit_wf h v
  rw [card_eq_cnt h', card_eq_cnt h]
  have e : cnt (bitp (wClearBit ws v)) 0 65536 = cnt (fun p => bitp ws p && !decide (p = v)) 0 65536 := by
    apply cnt_congr; intro p _ hp; exact bitp_clearBit ws v p (by rw [h.1]; omega)
  have e2 : cnt (fun p => bitp ws p && decide (p = v)) 0 65536 = 1 := by
    rw [← cnt_point v 0 65536 (Nat.zero_le _) hv]
    apply cnt_congr
    intro p _ _
    by_cases hpv : p = v
    · subst hpv; simp [hb]
    · simp [hpv]
  have := cnt_and_not (bitp ws) (fun p => decide (p = v)) 0 65536
  rw [e]; omega

/-! ### bitmapAdd / bitmapRemove -/

/-- `bitmapAdd`: the value is added to the set, `n` stays the cardinality, `added` tells whether
it was new. -/
theorem wBitmapAdd_refines {ws : List Nat} {n : Nat} (h : WordsWF ws) (hn : n = (absW ws).length) (v : Nat)
    (hv : v < 65536) :
    WordsWF (wBitmapAdd n ws v).2.1 ∧
    (∀ p, p < 65536 → (bitp (wBitmapAdd n ws v).2.1 p = (bitp ws p || decide (p = v)))) ∧
    (wBitmapAdd n ws v).1 = (absW (wBitmapAdd n ws v).2.1).length ∧
    (wBitmapAdd n ws v).2.2 = !decide (v ∈ absW ws) := by
  unfold wBitmapAdd
  rw [wContains_eq]
  cases hb : bitp ws v
  · simp only [Bool.false_eq_true, if_false]
    refine ⟨wSetBit_wf h v, fun p hp => bitp_setBit ws v p (by rw [h.1]; omega), ?_, ?_⟩
    · rw [card_setBit h v hv hb, hn]
    · have : v ∉ absW ws := fun hm => by rw [(bitp_iff_absW h v hv).mpr hm] at hb; cases hb
      simp [this]
  · simp only [if_true]
    refine ⟨h, fun p hp => ?_, hn, ?_⟩
    · by_cases hpv : p = v
      · subst hpv; simp [hb]
      · simp [hpv]
    · have : v ∈ absW ws := (bitp_iff_absW h v hv).mp hb
      simp [this]

/-- `bitmapRemove` (before its nil / bitmapToArray decisions). -/
theorem wBitmapRemove_refines {ws : List Nat} {n : Nat} (h : WordsWF ws) (hn : n = (absW ws).length) (v : Nat)
    (hv : v < 65536) :
    WordsWF (wBitmapRemove n ws v).2.1 ∧
    (∀ p, p < 65536 → (bitp (wBitmapRemove n ws v).2.1 p = (bitp ws p && !decide (p = v)))) ∧
    (wBitmapRemove n ws v).1 = (absW (wBitmapRemove n ws v).2.1).length ∧
    (wBitmapRemove n ws v).2.2 = decide (v ∈ absW ws) := by
  unfold wBitmapRemove
  rw [wContains_eq]
  cases hb : bitp ws v
  · simp only [Bool.not_false, if_true]
    refine ⟨h, fun p hp => ?_, hn, ?_⟩
    · by_cases hpv : p = v
      · subst hpv; simp [hb]
      · simp [hpv]
    · have : v ∉ absW ws := fun hm => by rw [(bitp_iff_absW h v hv).mpr hm] at hb; cases hb
      simp [this]
  · simp only [Bool.not_true, Bool.false_eq_true, if_false]
    refine ⟨wClearBit_wf h v, fun p hp => bitp_clearBit ws v p (by rw [h.1]; omega), ?_, ?_⟩
    · have := card_clearBit h v hv hb; omega
    · have : v ∈ absW ws := (bitp_iff_absW h v hv).mp hb
      simp [this]

/-! ### array × bitmap kernels -/

theorem wUnionArray_spec (xs : List Nat) : ∀ (n : Nat) (ws : List Nat), WordsWF ws → n = (absW ws).length →
    (∀ v ∈ xs, v < 65536) →
    WordsWF (wUnionArray n ws xs).2 ∧
    (∀ p, p < 65536 → bitp (wUnionArray n ws xs).2 p = (bitp ws p || decide (p ∈ xs))) ∧
    (wUnionArray n ws xs).1 = (absW (wUnionArray n ws xs).2).length := by
  induction xs with
  | nil => intro n ws h hn _; exact ⟨h, fun p _ => by simp [wUnionArray], hn⟩
  | cons v rest ih =>
    intro n ws h hn hlt
    have hv := hlt v (by simp)
    have A := wBitmapAdd_refines h hn v hv
    have hstep : wUnionArray n ws (v :: rest) = wUnionArray (wBitmapAdd n ws v).1 (wBitmapAdd n ws v).2.1 rest := by
      unfold wUnionArray wBitmapAdd
      rw [List.foldl_cons]
      cases wContains ws v <;> rfl
    rw [hstep]
    have IH := ih _ _ A.1 A.2.2.1 (fun w hw => hlt w (by simp [hw]))
    refine ⟨IH.1, fun p hp => ?_, IH.2.2⟩
    rw [IH.2.1 p hp, A.2.1 p hp]
    simp only [List.mem_cons, Bool.decide_or, Bool.or_assoc]

theorem wDiffArray_spec (xs : List Nat) : ∀ (n : Nat) (ws : List Nat), WordsWF ws → n = (absW ws).length →
    (∀ v ∈ xs, v < 65536) →
    WordsWF (wDiffArray n ws xs).2 ∧
    (∀ p, p < 65536 → bitp (wDiffArray n ws xs).2 p = (bitp ws p && !decide (p ∈ xs))) ∧
    (wDiffArray n ws xs).1 = (absW (wDiffArray n ws xs).2).length := by
  induction xs with
  | nil => intro n ws h hn _; exact ⟨h, fun p _ => by simp [wDiffArray], hn⟩
  | cons v rest ih =>
    intro n ws h hn hlt
    have hv := hlt v (by simp)
    have A := wBitmapRemove_refines h hn v hv
    have hstep : wDiffArray n ws (v :: rest) = wDiffArray (wBitmapRemove n ws v).1 (wBitmapRemove n ws v).2.1 rest := by
      unfold wDiffArray wBitmapRemove
      rw [List.foldl_cons]
      cases wContains ws v <;> rfl
    rw [hstep]
    have IH := ih _ _ A.1 A.2.2.1 (fun w hw => hlt w (by simp [hw]))
    refine ⟨IH.1, fun p hp => ?_, IH.2.2⟩
    rw [IH.2.1 p hp, A.2.1 p hp]
    simp only [List.mem_cons, Bool.decide_or, Bool.not_or, Bool.and_assoc]

/-- `unionArrayBitmap`. -/
theorem wUnionArray_refines {ws xs : List Nat} {n : Nat} (h : WordsWF ws) (hn : n = (absW ws).length)
    (hxs : Sorted xs) (hlt : ∀ v ∈ xs, v < 65536) :
    WordsWF (wUnionArray n ws xs).2 ∧ absW (wUnionArray n ws xs).2 = Spec.union xs (absW ws) ∧
    (wUnionArray n ws xs).1 = (absW (wUnionArray n ws xs).2).length := by
  have S := wUnionArray_spec xs n ws h hn hlt
  refine ⟨S.1, absW_ext S.1 (sorted_union hxs (sorted_absW ws)) (union_lt hlt (absW_lt h)) ?_, S.2.2⟩
  intro p hp
  rw [S.2.1 p hp, mem_union hxs (sorted_absW ws), Bool.or_eq_true, bitp_iff_absW h p hp, decide_eq_true_eq]
  exact Or.comm

/-- `differenceBitmapArray`. -/
theorem wDiffArray_refines {ws xs : List Nat} {n : Nat} (h : WordsWF ws) (hn : n = (absW ws).length)
    (hxs : Sorted xs) (hlt : ∀ v ∈ xs, v < 65536) :
    WordsWF (wDiffArray n ws xs).2 ∧ absW (wDiffArray n ws xs).2 = Spec.diff (absW ws) xs ∧
    (wDiffArray n ws xs).1 = (absW (wDiffArray n ws xs).2).length := by
  have S := wDiffArray_spec xs n ws h hn hlt
  refine ⟨S.1, absW_ext S.1 (sorted_diff (sorted_absW ws) hxs) (diff_lt (absW_lt h) hlt) ?_, S.2.2⟩
  intro p hp
  rw [S.2.1 p hp, mem_diff (sorted_absW ws) hxs, Bool.and_eq_true, bitp_iff_absW h p hp]
  simp

/-- `intersectArrayBitmap`. -/
theorem wIntersectArray_refines {ws xs : List Nat} (h : WordsWF ws) (hxs : Sorted xs) (hlt : ∀ v ∈ xs, v < 65536) :
    wIntersectArray ws xs = Spec.inter xs (absW ws) := by
  apply sorted_ext (sorted_filter _ hxs) (sorted_inter hxs (sorted_absW ws))
  intro p
  rw [List.mem_filter, mem_inter hxs (sorted_absW ws), wContains_eq]
  constructor
  · rintro ⟨h1, h2⟩; exact ⟨h1, (bitp_iff_absW h p (hlt p h1)).mp h2⟩
  · rintro ⟨h1, h2⟩; exact ⟨h1, (bitp_iff_absW h p (hlt p h1)).mpr h2⟩

/-- `differenceArrayBitmap`. -/
theorem wDifferenceArray_refines {ws xs : List Nat} (h : WordsWF ws) (hxs : Sorted xs) (hlt : ∀ v ∈ xs, v < 65536) :
    wDifferenceArray ws xs = Spec.diff xs (absW ws) := by
  apply sorted_ext (sorted_filter _ hxs) (sorted_diff hxs (sorted_absW ws))
  intro p
  rw [List.mem_filter, mem_diff hxs (sorted_absW ws)]
  have key : (andNot (bitMask p) (ws.getD (p / 64) 0) != 0) = !bitp ws p := by
    unfold andNot bitp
    have hw := getD_lt h.2 (p / 64)
    have e : bitMask p &&& wnot (ws.getD (p / 64) 0)
        = if (ws.getD (p / 64) 0).testBit (p % 64) then 0 else bitMask p := by
      apply Nat.eq_of_testBit_eq
      intro i
      rw [Nat.testBit_and, testBit_bitMask, testBit_wnot hw]
      by_cases hi : p % 64 = i
      · subst hi
        have : decide (p % 64 < 64) = true := by simp; omega
        cases hb : (ws.getD (p / 64) 0).testBit (p % 64) <;> simp [testBit_bitMask, this]
      · cases hb : (ws.getD (p / 64) 0).testBit (p % 64) <;> simp [hi, testBit_bitMask]
    rw [e]
    cases hb : (ws.getD (p / 64) 0).testBit (p % 64)
    · simp [bitMask_ne_zero]
    · simp
  rw [key]
  constructor
  · rintro ⟨h1, h2⟩
    refine ⟨h1, fun hm => ?_⟩
    rw [(bitp_iff_absW h p (hlt p h1)).mpr hm] at h2; cases h2
  · rintro ⟨h1, h2⟩
    refine ⟨h1, ?_⟩
    cases hb : bitp ws p
    · rfl
    · exact absurd ((bitp_iff_absW h p (hlt p h1)).mp hb) h2

/-- `intersectionCountArrayBitmap`. -/
theorem wIntersectionCountArray_refines {ws : List Nat} (h : WordsWF ws) :
    ∀ (xs : List Nat), (∀ v ∈ xs, v < 65536) →
      wIntersectionCountArray ws xs = (xs.filter (fun v => decide (v ∈ absW ws))).length := by
  intro xs
  induction xs with
  | nil => intro _; rfl
  | cons v rest ih =>
    intro hlt
    have hv := hlt v (by simp)
    simp only [wIntersectionCountArray, List.filter_cons]
    rw [ih (fun w hw => hlt w (by simp [hw]))]
    have hbit : ((ws.getD (v / 64) 0 >>> (v % 64)) &&& 1) = if bitp ws v then 1 else 0 := by
      unfold bitp
      rw [Nat.testBit, Nat.and_comm]
      have : 1 &&& (ws.getD (v / 64) 0 >>> (v % 64)) = (ws.getD (v / 64) 0 >>> (v % 64)) % 2 := Nat.one_and_eq_mod_two _
      rw [this]
      rcases Nat.mod_two_eq_zero_or_one (ws.getD (v / 64) 0 >>> (v % 64)) with h0 | h1
      · rw [h0]; simp
      · rw [h1]; simp
    rw [hbit]
    cases hb : bitp ws v
    · have : v ∉ absW ws := fun hm => by rw [(bitp_iff_absW h v hv).mpr hm] at hb; cases hb
      simp [this]
    · have : v ∈ absW ws := (bitp_iff_absW h v hv).mp hb
      simp [this]; omega

end PV.C01
