/-
C01 spec: the mathematical set.  A set of naturals is a strictly ascending, duplicate-free
`List Nat`; the meaning of every read and of every set operation is given by membership
(`v ∈ xs`) and by counting over an interval.  Everything here is executable (the model driver
evaluates it on the same inputs as the model of the code) and core Lean only.
-/
namespace PV.C01.Spec

/-- Strictly ascending (hence duplicate free). -/
def Sorted : List Nat → Prop
  | [] => True
  | [_] => True
  | a :: b :: rest => a < b ∧ Sorted (b :: rest)

instance decSorted : (xs : List Nat) → Decidable (Sorted xs)
  | [] => isTrue trivial
  | [_] => isTrue trivial
  | a :: b :: rest =>
    match Nat.decLt a b, decSorted (b :: rest) with
    | isTrue h1, isTrue h2 => isTrue ⟨h1, h2⟩
    | isFalse h1, _ => isFalse (fun h => h1 h.1)
    | _, isFalse h2 => isFalse (fun h => h2 h.2)

/-- Number of naturals `v` with `s ≤ v < e` satisfying `p`: `|{v | s ≤ v < e ∧ p v}|`. -/
def cnt (p : Nat → Bool) (s e : Nat) : Nat := (List.range' s (e - s)).countP p

/-- `cnt` for the membership predicate of a list, computed in one pass (driver use). -/
def cntList (xs : List Nat) (s e : Nat) : Nat := (xs.filter (fun v => s ≤ v && v < e)).length

/-- Generic set operation on two ascending lists: `v` is kept iff `f (v ∈ a) (v ∈ b)`.
Linear merge; `fuel ≥ a.length + b.length`. -/
def merge2 (f : Bool → Bool → Bool) : Nat → List Nat → List Nat → List Nat
  | 0, _, _ => []
  | _+1, [], [] => []
  | fuel+1, a :: as, [] => if f true false then a :: merge2 f fuel as [] else merge2 f fuel as []
  | fuel+1, [], b :: bs => if f false true then b :: merge2 f fuel [] bs else merge2 f fuel [] bs
  | fuel+1, a :: as, b :: bs =>
    if a < b then (if f true false then a :: merge2 f fuel as (b :: bs) else merge2 f fuel as (b :: bs))
    else if b < a then (if f false true then b :: merge2 f fuel (a :: as) bs else merge2 f fuel (a :: as) bs)
    else (if f true true then a :: merge2 f fuel as bs else merge2 f fuel as bs)

def op (f : Bool → Bool → Bool) (a b : List Nat) : List Nat := merge2 f (a.length + b.length) a b

def inter (a b : List Nat) : List Nat := op (fun x y => x && y) a b
def union (a b : List Nat) : List Nat := op (fun x y => x || y) a b
def diff (a b : List Nat) : List Nat := op (fun x y => x && !y) a b
def xor (a b : List Nat) : List Nat := op (fun x y => x != y) a b

/-- n-ary union. -/
def unionAll (ls : List (List Nat)) : List Nat := ls.foldl union []

/-- `[s, s+1, …, l]`. -/
def rangeIncl (s l : Nat) : List Nat := List.range' s (l + 1 - s)

/-- Complement inside a container: `{v < 65536 | v ∉ xs}`. -/
def compl16 (xs : List Nat) : List Nat := diff (List.range' 0 65536) xs

/-- Shift by one inside `[0, bound)`: every value moves up by one, a value reaching `bound`
is dropped (`bound = 65536` for a container, `2^64` for a bitmap). -/
def shift (bound : Nat) (xs : List Nat) : List Nat := (xs.map (· + 1)).filter (· < bound)

/-- Flip of the closed interval `[s, e]`. -/
def flip (xs : List Nat) (s e : Nat) : List Nat := xor xs (rangeIncl s e)

/-- Values of `xs` in `[s, e)`. -/
def sliceRange (xs : List Nat) (s e : Nat) : List Nat := xs.filter (fun v => s ≤ v && v < e)

/-- Values of `xs` that are `≥ k`. -/
def seek (xs : List Nat) (k : Nat) : List Nat := xs.filter (fun v => k ≤ v)

/-- OffsetRange: values of `[s, e)` moved to start at `off`. -/
def offsetRange (xs : List Nat) (off s e : Nat) : List Nat :=
  (sliceRange xs s e).map (fun v => v - s + off)

def max (xs : List Nat) : Nat := xs.foldl (fun m v => if v > m then v else m) 0

def min? (xs : List Nat) : Option Nat := xs.head?

end PV.C01.Spec
