/-
C01 helper lemmas, part 12: the word level of the bitmap encoding refines the set level.
Core Lean only.
-/
import PV.C01.Words
import PV.C01.LemmasL2Reads
import PV.C01.LemmasDispatch
namespace PV.C01
open Spec

/-! ### bits of a word -/

theorem testBit_high {w p : Nat} (hw : w < 2 ^ 64) (hp : 64 ≤ p) : w.testBit p = false := by
  apply Nat.testBit_lt_two_pow
  exact Nat.lt_of_lt_of_le hw (Nat.pow_le_pow_right (by omega) hp)

theorem testBit_shl (x k b : Nat) : (shl x k).testBit b = (decide (b < 64) && decide (k ≤ b) && x.testBit (b - k)) := by
  unfold shl
  rw [Nat.testBit_mod_two_pow, Nat.testBit_shiftLeft, Bool.and_assoc]

theorem testBit_maxBitmap (b : Nat) : maxBitmap.testBit b = decide (b < 64) := Nat.testBit_two_pow_sub_one 64 b

theorem testBit_wnot {w : Nat} (hw : w < 2 ^ 64) (b : Nat) : (wnot w).testBit b = (decide (b < 64) && !w.testBit b) :=
  Nat.testBit_two_pow_sub_succ hw b

theorem wnot_lt (w : Nat) : wnot w < 2 ^ 64 := by
  unfold wnot
  have : 0 < 2 ^ 64 := Nat.two_pow_pos 64
  omega

theorem shl_lt (x k : Nat) : shl x k < 2 ^ 64 := Nat.mod_lt _ (Nat.two_pow_pos 64)

theorem maxBitmap_lt : maxBitmap < 2 ^ 64 := by
  unfold maxBitmap
  have : 0 < 2 ^ 64 := Nat.two_pow_pos 64
  omega

theorem shr_lt {x : Nat} (hx : x < 2 ^ 64) (k : Nat) : x >>> k < 2 ^ 64 := by
  rw [Nat.shiftRight_eq_div_pow]
  exact Nat.lt_of_le_of_lt (Nat.div_le_self _ _) hx

/-! ### popcount -/

theorem cnt_shr (x a lo hi : Nat) :
    cnt (fun b => (x >>> a).testBit b) lo hi = cnt (fun b => x.testBit b) (a + lo) (a + hi) := by
  rw [cnt_translate]
  apply cnt_congr
  intro v _ _
  exact Nat.testBit_shiftRight x

theorem cnt_bits_high {w : Nat} (hw : w < 2 ^ 64) (lo hi : Nat) (hlo : 64 ≤ lo) :
    cnt (fun b => w.testBit b) lo hi = 0 := by
  apply cnt_false
  intro v hv _
  exact testBit_high hw (by omega)

/-- `popcount(w >> a)` counts the bits at positions `≥ a`. -/
theorem popcount_shr {w : Nat} (hw : w < 2 ^ 64) (a : Nat) :
    popcount (w >>> a) = cnt (fun b => w.testBit b) a 64 := by
  unfold popcount
  rw [cnt_shr]
  by_cases ha : a ≤ 64
  · rw [cnt_split _ (s := a + 0) (m := 64) (e := a + 64) (by omega) (by omega),
      cnt_bits_high hw 64 (a + 64) (Nat.le_refl _)]
    simp
  · rw [cnt_bits_high hw _ _ (by omega), cnt_eq_zero_of_le (by omega)]

/-- `popcount(x << k)` (truncated to 64 bits) counts the bits at positions `< 64 - k`. -/
theorem popcount_shl (x k : Nat) : popcount (shl x k) = cnt (fun b => x.testBit b) 0 (64 - k) := by
  unfold popcount
  by_cases hk : k ≤ 64
  · rw [cnt_split _ (s := 0) (m := k) (e := 64) (Nat.zero_le _) hk]
    have h0 : cnt (fun i => (shl x k).testBit i) 0 k = 0 := by
      apply cnt_false
      intro v _ hv
      rw [testBit_shl]
      have : decide (k ≤ v) = false := by simp; omega
      rw [this]; simp
    rw [h0, Nat.zero_add]
    have e1 : (64 : Nat) = k + (64 - k) := by omega
    have e2 : k = k + 0 := by omega
    conv => lhs; rw [e1]; arg 2; rw [e2]
    rw [cnt_translate]
    apply cnt_congr
    intro v _ hv
    rw [testBit_shl]
    have h1 : decide (k + v < 64) = true := by simp; omega
    have h2 : decide (k ≤ k + v) = true := by simp
    rw [h1, h2, Nat.add_sub_cancel_left]; rfl
  · have : 64 - k = 0 := by omega
    rw [this, cnt_eq_zero_of_le (Nat.le_refl _)]
    apply cnt_false
    intro v _ hv
    rw [testBit_shl]
    have : decide (k ≤ v) = false := by simp; omega
    rw [this]; simp

/-! ### abstraction -/

/-- bit `p` of the container. -/
def bitp (ws : List Nat) (p : Nat) : Bool := (ws.getD (p / 64) 0).testBit (p % 64)

theorem mem_wordBits (k w p : Nat) : p ∈ wordBits k w ↔ (64 * k ≤ p ∧ p < 64 * k + 64 ∧ w.testBit (p - 64 * k) = true) := by
  unfold wordBits
  rw [List.mem_map]
  constructor
  · rintro ⟨b, hb, rfl⟩
    rw [List.mem_filter, List.mem_range'] at hb
    rcases hb with ⟨⟨i, hi, rfl⟩, h2⟩
    refine ⟨by omega, by omega, ?_⟩
    rw [Nat.add_sub_cancel_left]; exact h2
  · rintro ⟨h1, h2, h3⟩
    refine ⟨p - 64 * k, ?_, by omega⟩
    rw [List.mem_filter, List.mem_range']
    exact ⟨⟨p - 64 * k, by omega, by omega⟩, h3⟩

theorem sorted_wordBits (k w : Nat) : Sorted (wordBits k w) := by
  unfold wordBits
  exact sorted_map_add (64 * k) (sorted_filter _ (sorted_range' 0 64))

theorem mem_absFrom (ws : List Nat) : ∀ (k p : Nat),
    p ∈ absFrom k ws ↔ (64 * k ≤ p ∧ p < 64 * (k + ws.length) ∧ (ws.getD (p / 64 - k) 0).testBit (p % 64) = true) := by
  induction ws with
  | nil => intro k p; simp [absFrom]
  | cons w rest ih =>
    intro k p
    simp only [absFrom, List.mem_append, mem_wordBits, ih (k + 1), List.length_cons]
    constructor
    · rintro (⟨h1, h2, h3⟩ | ⟨h1, h2, h3⟩)
      · refine ⟨h1, by omega, ?_⟩
        have e1 : p / 64 - k = 0 := by omega
        have e2 : p % 64 = p - 64 * k := by omega
        rw [e1, e2]; exact h3
      · refine ⟨by omega, by omega, ?_⟩
        have e1 : p / 64 - k = (p / 64 - (k + 1)) + 1 := by omega
        rw [e1]; exact h3
    · rintro ⟨h1, h2, h3⟩
      by_cases hp : p < 64 * k + 64
      · left
        refine ⟨h1, hp, ?_⟩
        have e1 : p / 64 - k = 0 := by omega
        have e2 : p % 64 = p - 64 * k := by omega
        rw [e1, e2] at h3; exact h3
      · right
        refine ⟨by omega, by omega, ?_⟩
        have e1 : p / 64 - k = (p / 64 - (k + 1)) + 1 := by omega
        rw [e1] at h3; exact h3

theorem sorted_absFrom (ws : List Nat) : ∀ k, Sorted (absFrom k ws) := by
  induction ws with
  | nil => intro k; trivial
  | cons w rest ih =>
    intro k
    simp only [absFrom]
    apply sorted_append (sorted_wordBits k w) (ih (k + 1))
    intro x hx y hy
    rw [mem_wordBits] at hx
    rw [mem_absFrom] at hy
    omega

theorem mem_absW (ws : List Nat) (p : Nat) : p ∈ absW ws ↔ (p < 64 * ws.length ∧ bitp ws p = true) := by
  unfold absW bitp
  rw [mem_absFrom]
  simp

theorem sorted_absW (ws : List Nat) : Sorted (absW ws) := sorted_absFrom ws 0

theorem absW_lt {ws : List Nat} (h : WordsWF ws) : ∀ p ∈ absW ws, p < 65536 := by
  intro p hp
  have := ((mem_absW ws p).mp hp).1
  rw [h.1] at this; omega

/-- counting set positions: the abstract set and the words agree. -/
theorem cnt_absW (ws : List Nat) (s e : Nat) (he : e ≤ 64 * ws.length) :
    cnt (fun v => decide (v ∈ absW ws)) s e = cnt (bitp ws) s e := by
  apply cnt_congr
  intro v _ hv
  rw [Bool.eq_iff_iff, decide_eq_true_eq, mem_absW]
  constructor
  · intro h; exact h.2
  · intro h; exact ⟨by omega, h⟩

/-- inside word `i` the container bits are the word's bits. -/
theorem cnt_bitp_word (ws : List Nat) (i a b : Nat) (hb : b ≤ 64) :
    cnt (bitp ws) (64 * i + a) (64 * i + b) = cnt (fun t => (ws.getD i 0).testBit t) a b := by
  rw [cnt_translate]
  apply cnt_congr
  intro v _ hv
  unfold bitp
  have e1 : (64 * i + v) / 64 = i := by omega
  have e2 : (64 * i + v) % 64 = v := by omega
  rw [e1, e2]

theorem sumPop_spec (ws : List Nat) : ∀ (c i : Nat),
    sumPop ws i c = cnt (bitp ws) (64 * i) (64 * (i + c)) := by
  intro c
  induction c with
  | zero => intro i; simp only [sumPop, Nat.add_zero]; rw [cnt_eq_zero_of_le (Nat.le_refl _)]
  | succ c ih =>
    intro i
    simp only [sumPop]
    rw [ih (i + 1), cnt_split (bitp ws) (s := 64 * i) (m := 64 * (i + 1)) (e := 64 * (i + (c + 1))) (by omega) (by omega)]
    have : 64 * (i + 1 + c) = 64 * (i + (c + 1)) := by omega
    rw [this]
    congr 1
    have h := cnt_bitp_word ws i 0 64 (Nat.le_refl _)
    rw [Nat.add_zero] at h
    have e : 64 * i + 64 = 64 * (i + 1) := by omega
    rw [e] at h
    rw [h]; rfl

/-! ### bitmapCountRange -/

theorem wCountRange_spec (ws : List Nat) (hw : ∀ w ∈ ws, w < 2 ^ 64) (s e : Nat) (hse : s ≤ e)
    (he : e ≤ 64 * ws.length) : wCountRange ws s e = cnt (bitp ws) s e := by
  have hget : ∀ k, ws.getD k 0 < 2 ^ 64 := by
    intro k
    rw [List.getD_eq_getElem?_getD]
    cases hk : ws[k]? with
    | none => simp
    | some w => simp; exact hw w (List.mem_of_getElem? hk)
  have hs : s = 64 * (s / 64) + s % 64 := by omega
  have hee : e = 64 * (e / 64) + e % 64 := by omega
  unfold wCountRange
  simp only []
  by_cases hij : s / 64 = e / 64
  · rw [if_pos hij, popcount_shl, cnt_shr]
    have h := cnt_bitp_word ws (s / 64) (s % 64) (e % 64) (by omega)
    have e1 : 64 * (s / 64) + e % 64 = e := by omega
    rw [← hs, e1] at h
    rw [h]
    have e2 : s % 64 + (64 - (64 - e % 64 + s % 64)) = e % 64 := by omega
    rw [Nat.add_zero, e2]
  · rw [if_neg hij]
    have hlt : s / 64 < e / 64 := by omega
    by_cases hoff : s % 64 ≠ 0
    · rw [if_pos hoff, if_pos hoff]
      -- [s, e) = [s, 64(i+1)) ++ [64(i+1), 64 j) ++ [64 j, e)
      rw [cnt_split (bitp ws) (s := s) (m := 64 * (s / 64 + 1)) (e := e) (by omega) (by omega),
        cnt_split (bitp ws) (s := 64 * (s / 64 + 1)) (m := 64 * (e / 64)) (e := e) (by omega) (by omega)]
      have p1 : popcount (ws.getD (s / 64) 0 >>> (s % 64)) = cnt (bitp ws) s (64 * (s / 64 + 1)) := by
        rw [popcount_shr (hget _)]
        have h := cnt_bitp_word ws (s / 64) (s % 64) 64 (Nat.le_refl _)
        have e1 : 64 * (s / 64) + 64 = 64 * (s / 64 + 1) := by omega
        rw [← hs, e1] at h
        exact h.symm
      have p2 : sumPop ws (s / 64 + 1) (e / 64 - (s / 64 + 1)) = cnt (bitp ws) (64 * (s / 64 + 1)) (64 * (e / 64)) := by
        rw [sumPop_spec]
        have : s / 64 + 1 + (e / 64 - (s / 64 + 1)) = e / 64 := by omega
        rw [this]
      have p3 : (if e / 64 < ws.length then popcount (shl (ws.getD (e / 64) 0) (64 - e % 64)) else 0)
          = cnt (bitp ws) (64 * (e / 64)) e := by
        by_cases hj : e / 64 < ws.length
        · rw [if_pos hj, popcount_shl]
          have h := cnt_bitp_word ws (e / 64) 0 (e % 64) (by omega)
          rw [Nat.add_zero, ← hee] at h
          rw [h]
          have : 64 - (64 - e % 64) = e % 64 := by omega
          rw [this]
        · rw [if_neg hj, cnt_eq_zero_of_le (by omega)]
      rw [p1, p2, p3, Nat.add_assoc]
    · have hoff0 : s % 64 = 0 := by omega
      have hn : ¬ (s % 64 ≠ 0) := by omega
      rw [if_neg hn, if_neg hn]
      rw [cnt_split (bitp ws) (s := s) (m := 64 * (e / 64)) (e := e) (by omega) (by omega)]
      have p2 : sumPop ws (s / 64) (e / 64 - s / 64) = cnt (bitp ws) s (64 * (e / 64)) := by
        rw [sumPop_spec]
        have : s / 64 + (e / 64 - s / 64) = e / 64 := by omega
        rw [this]
        have : 64 * (s / 64) = s := by omega
        rw [this]
      have p3 : (if e / 64 < ws.length then popcount (shl (ws.getD (e / 64) 0) (64 - e % 64)) else 0)
          = cnt (bitp ws) (64 * (e / 64)) e := by
        by_cases hj : e / 64 < ws.length
        · rw [if_pos hj, popcount_shl]
          have h := cnt_bitp_word ws (e / 64) 0 (e % 64) (by omega)
          rw [Nat.add_zero, ← hee] at h
          rw [h]
          have : 64 - (64 - e % 64) = e % 64 := by omega
          rw [this]
        · rw [if_neg hj, cnt_eq_zero_of_le (by omega)]
      rw [p2, p3, Nat.zero_add]

/-- `bitmapCountRange` on the words is the set-level `bitmapCountRange` on the abstraction. -/
theorem wCountRange_refines {ws : List Nat} (h : WordsWF ws) (s e : Nat) (hse : s ≤ e) (he : e ≤ 65536) :
    wCountRange ws s e = bitmapCountRange (absW ws) s e := by
  have he' : e ≤ 64 * ws.length := by rw [h.1]; omega
  rw [wCountRange_spec ws h.2 s e hse he']
  unfold bitmapCountRange
  rw [cntList_eq_cnt (sorted_absW ws), cnt_absW ws s e he']

/-! ### flipBitmap -/

theorem getD_lt {ws : List Nat} (hw : ∀ w ∈ ws, w < 2 ^ 64) (k : Nat) : ws.getD k 0 < 2 ^ 64 := by
  rw [List.getD_eq_getElem?_getD]
  cases hk : ws[k]? with
  | none => simp
  | some w => simp; exact hw w (List.mem_of_getElem? hk)

theorem getD_map_lt (f : Nat → Nat) (ws : List Nat) (k : Nat) (hk : k < ws.length) :
    (ws.map f).getD k 0 = f (ws.getD k 0) := by
  rw [List.getD_eq_getElem?_getD, List.getD_eq_getElem?_getD, List.getElem?_map]
  rw [List.getElem?_eq_getElem hk]; rfl

theorem wFlip_wf {ws : List Nat} (h : WordsWF ws) : WordsWF (wFlip ws) := by
  refine ⟨by unfold wFlip; rw [List.length_map]; exact h.1, ?_⟩
  intro w hw
  unfold wFlip at hw
  rcases List.mem_map.mp hw with ⟨x, _, rfl⟩
  exact wnot_lt x

attribute [local irreducible] Spec.compl16 in
/-- `flipBitmap` on the words is the complement of the abstraction. -/
theorem wFlip_refines {ws : List Nat} (h : WordsWF ws) : absW (wFlip ws) = Spec.compl16 (absW ws) := by
  have C := compl16_spec (sorted_absW ws)
  refine sorted_ext (l₁ := absW (wFlip ws)) (l₂ := Spec.compl16 (absW ws)) (sorted_absW _) C.1 ?_
  intro p
  rw [C.2.2 p, mem_absW, mem_absW]
  have hl : (wFlip ws).length = 1024 := (wFlip_wf h).1
  rw [hl, h.1]
  by_cases hp : p < 65536
  · have hk : p / 64 < ws.length := by rw [h.1]; omega
    have e : bitp (wFlip ws) p = !bitp ws p := by
      unfold bitp wFlip
      rw [getD_map_lt wnot ws _ hk, testBit_wnot (getD_lt h.2 _)]
      have : decide (p % 64 < 64) = true := by simp; omega
      rw [this]; rfl
    rw [e]
    constructor
    · rintro ⟨_, h2⟩
      refine ⟨hp, fun hm => ?_⟩
      rw [hm.2] at h2; cases h2
    · rintro ⟨_, h2⟩
      refine ⟨by omega, ?_⟩
      cases hb : bitp ws p
      · rfl
      · exact absurd ⟨by omega, hb⟩ h2
  · constructor
    · rintro ⟨h1, _⟩; omega
    · rintro ⟨h1, _⟩; omega

/-! ### range masks -/

theorem testBit_maskX (i b : Nat) : (maskX i).testBit b = (decide (b < 64) && decide (i % 64 ≤ b)) := by
  unfold maskX
  rw [testBit_shl, testBit_maxBitmap]
  by_cases h1 : b < 64 <;> by_cases h2 : i % 64 ≤ b <;> simp [h1, h2]
  omega

theorem testBit_maskY (j b : Nat) : (maskY j).testBit b = decide (b ≤ (j - 1) % 64) := by
  unfold maskY
  rw [Nat.testBit_shiftRight, testBit_maxBitmap, decide_eq_decide]
  omega

theorem maskX_lt (i : Nat) : maskX i < 2 ^ 64 := shl_lt _ _
theorem maskY_lt (j : Nat) : maskY j < 2 ^ 64 := shr_lt maxBitmap_lt _

theorem rangeMask_lt (i j k : Nat) : rangeMask i j k < 2 ^ 64 := by
  unfold rangeMask
  simp only []
  split
  · split
    · exact Nat.and_lt_two_pow _ (maskY_lt j)
    · exact Nat.two_pow_pos 64
  · split
    · exact maskX_lt i
    · split
      · exact maxBitmap_lt
      · split
        · exact maskY_lt j
        · exact Nat.two_pow_pos 64

/-- bit `b` of the mask applied to word `k` is set iff position `64 k + b` lies in `[i, j)`. -/
theorem testBit_rangeMask (i j k b : Nat) (hij : i < j) (hb : b < 64) :
    (rangeMask i j k).testBit b = decide (i ≤ 64 * k + b ∧ 64 * k + b < j) := by
  unfold rangeMask
  simp only []
  by_cases hxy : i / 64 = (j - 1) / 64
  · rw [if_pos hxy]
    by_cases hk : k = i / 64
    · rw [if_pos hk, Nat.testBit_and, testBit_maskX, testBit_maskY, Bool.eq_iff_iff]
      simp only [Bool.and_eq_true, decide_eq_true_eq]
      omega
    · rw [if_neg hk, Nat.zero_testBit, Bool.eq_iff_iff]
      simp only [decide_eq_true_eq]
      constructor
      · intro h; cases h
      · intro h; exfalso; omega
  · rw [if_neg hxy]
    by_cases hk : k = i / 64
    · rw [if_pos hk, testBit_maskX, Bool.eq_iff_iff]
      simp only [Bool.and_eq_true, decide_eq_true_eq]
      omega
    · rw [if_neg hk]
      by_cases hm : i / 64 < k ∧ k < (j - 1) / 64
      · rw [if_pos hm, testBit_maxBitmap, Bool.eq_iff_iff]
        simp only [decide_eq_true_eq]
        omega
      · rw [if_neg hm]
        by_cases hy : k = (j - 1) / 64
        · rw [if_pos hy, testBit_maskY, Bool.eq_iff_iff]
          simp only [decide_eq_true_eq]
          omega
        · rw [if_neg hy, Nat.zero_testBit, Bool.eq_iff_iff]
          simp only [decide_eq_true_eq]
          constructor
          · intro h; cases h
          · intro h; exfalso; omega

theorem getD_mapIdx (f : Nat → Nat → Nat) (ws : List Nat) (k : Nat) (hk : k < ws.length) :
    (ws.mapIdx f).getD k 0 = f k (ws.getD k 0) := by
  rw [List.getD_eq_getElem?_getD, List.getD_eq_getElem?_getD, List.getElem?_mapIdx]
  rw [List.getElem?_eq_getElem hk]; rfl

theorem mapIdx_wf {ws : List Nat} (h : WordsWF ws) (f : Nat → Nat → Nat)
    (hf : ∀ k w, w < 2 ^ 64 → f k w < 2 ^ 64) : WordsWF (ws.mapIdx f) := by
  refine ⟨by rw [List.length_mapIdx]; exact h.1, ?_⟩
  intro w hw
  rcases List.mem_iff_getElem?.mp hw with ⟨k, hk⟩
  rw [List.getElem?_mapIdx] at hk
  cases hx : ws[k]? with
  | none => rw [hx] at hk; cases hk
  | some x =>
    rw [hx] at hk
    simp at hk
    rw [← hk]
    exact hf k x (h.2 x (List.mem_of_getElem? hx))

/-- the bit at position `p` after a word-wise operation `op word mask`. -/
theorem bitp_mapIdx (ws : List Nat) (op : Nat → Nat → Nat) (i j p : Nat) (hp : p < 64 * ws.length) :
    bitp (ws.mapIdx (fun k w => op w (rangeMask i j k))) p
      = (op (ws.getD (p / 64) 0) (rangeMask i j (p / 64))).testBit (p % 64) := by
  unfold bitp
  rw [getD_mapIdx (fun k w => op w (rangeMask i j k)) ws (p / 64) (by omega)]

theorem inRange_eq (i j p : Nat) : decide (i ≤ 64 * (p / 64) + p % 64 ∧ 64 * (p / 64) + p % 64 < j) = decide (i ≤ p ∧ p < j) := by
  have : 64 * (p / 64) + p % 64 = p := by omega
  rw [this]

theorem bitp_setRange (ws : List Nat) (i j p : Nat) (hij : i < j) (hp : p < 64 * ws.length) :
    bitp (wSetRange ws i j) p = (bitp ws p || decide (i ≤ p ∧ p < j)) := by
  unfold wSetRange
  rw [bitp_mapIdx ws (fun w m => w ||| m) i j p hp, Nat.testBit_or,
    testBit_rangeMask i j _ _ hij (by omega), inRange_eq]
  rfl

theorem bitp_zeroRange (ws : List Nat) (i j p : Nat) (hij : i < j) (hp : p < 64 * ws.length) :
    bitp (wZeroRange ws i j) p = (bitp ws p && !decide (i ≤ p ∧ p < j)) := by
  unfold wZeroRange
  rw [bitp_mapIdx ws andNot i j p hp]
  unfold andNot
  rw [Nat.testBit_and, testBit_wnot (rangeMask_lt _ _ _), testBit_rangeMask i j _ _ hij (by omega), inRange_eq]
  have : decide (p % 64 < 64) = true := by simp; omega
  rw [this]; rfl

theorem bitp_xorRange (ws : List Nat) (i j p : Nat) (hij : i < j) (hp : p < 64 * ws.length) :
    bitp (wXorRange ws i j) p = (bitp ws p != decide (i ≤ p ∧ p < j)) := by
  unfold wXorRange
  rw [bitp_mapIdx ws (fun w m => w ^^^ m) i j p hp, Nat.testBit_xor,
    testBit_rangeMask i j _ _ hij (by omega), inRange_eq]
  rfl

theorem wSetRange_wf {ws : List Nat} (h : WordsWF ws) (i j : Nat) : WordsWF (wSetRange ws i j) :=
  mapIdx_wf h _ (fun k _ hw => Nat.or_lt_two_pow hw (rangeMask_lt i j k))
theorem wZeroRange_wf {ws : List Nat} (h : WordsWF ws) (i j : Nat) : WordsWF (wZeroRange ws i j) :=
  mapIdx_wf h _ (fun _ w _ => Nat.and_lt_two_pow w (wnot_lt _))
theorem wXorRange_wf {ws : List Nat} (h : WordsWF ws) (i j : Nat) : WordsWF (wXorRange ws i j) :=
  mapIdx_wf h _ (fun k _ hw => Nat.xor_lt_two_pow hw (rangeMask_lt i j k))

/-! ### unionBitmapRun / differenceBitmapRun / xorBitmapRun on words -/

theorem inIv_range (r : Iv) (p : Nat) : decide (r.start ≤ p ∧ p < r.last + 1) = inIv r p := by
  unfold inIv
  rw [decide_eq_decide]; omega

theorem wUnionRuns_spec (rb : List Iv) : ∀ (ws : List Nat), WordsWF ws → RunsWF rb →
    WordsWF (wUnionRuns ws rb) ∧ ∀ p, p < 65536 → bitp (wUnionRuns ws rb) p = (bitp ws p || inRuns rb p) := by
  induction rb with
  | nil => intro ws h _; exact ⟨h, fun p _ => by simp [wUnionRuns]⟩
  | cons r rest ih =>
    intro ws h hr
    have hv := RunsWF.head hr
    have h1 := wSetRange_wf h r.start (r.last + 1)
    have IH := ih (wSetRange ws r.start (r.last + 1)) h1 (RunsWF.tail hr)
    refine ⟨IH.1, fun p hp => ?_⟩
    show bitp (wUnionRuns (wSetRange ws r.start (r.last + 1)) rest) p = _
    rw [IH.2 p hp, bitp_setRange ws _ _ p (by omega) (by rw [h.1]; omega), inIv_range, inRuns_cons, Bool.or_assoc]

theorem wDiffRuns_spec (rb : List Iv) : ∀ (ws : List Nat), WordsWF ws → RunsWF rb →
    WordsWF (wDiffRuns ws rb) ∧ ∀ p, p < 65536 → bitp (wDiffRuns ws rb) p = (bitp ws p && !inRuns rb p) := by
  induction rb with
  | nil => intro ws h _; exact ⟨h, fun p _ => by simp [wDiffRuns]⟩
  | cons r rest ih =>
    intro ws h hr
    have hv := RunsWF.head hr
    have h1 := wZeroRange_wf h r.start (r.last + 1)
    have IH := ih (wZeroRange ws r.start (r.last + 1)) h1 (RunsWF.tail hr)
    refine ⟨IH.1, fun p hp => ?_⟩
    show bitp (wDiffRuns (wZeroRange ws r.start (r.last + 1)) rest) p = _
    rw [IH.2 p hp, bitp_zeroRange ws _ _ p (by omega) (by rw [h.1]; omega), inIv_range, inRuns_cons]
    cases bitp ws p <;> cases inIv r p <;> cases inRuns rest p <;> rfl

theorem wXorRuns_spec (rb : List Iv) : ∀ (ws : List Nat), WordsWF ws → RunsWF rb →
    WordsWF (wXorRuns ws rb) ∧ ∀ p, p < 65536 → bitp (wXorRuns ws rb) p = (bitp ws p != inRuns rb p) := by
  induction rb with
  | nil => intro ws h _; exact ⟨h, fun p _ => by simp [wXorRuns]⟩
  | cons r rest ih =>
    intro ws h hr
    have hv := RunsWF.head hr
    have hgt := RunsWF.gt hr
    have h1 := wXorRange_wf h r.start (r.last + 1)
    have IH := ih (wXorRange ws r.start (r.last + 1)) h1 (RunsWF.tail hr)
    refine ⟨IH.1, fun p hp => ?_⟩
    show bitp (wXorRuns (wXorRange ws r.start (r.last + 1)) rest) p = _
    rw [IH.2 p hp, bitp_xorRange ws _ _ p (by omega) (by rw [h.1]; omega), inIv_range, inRuns_cons]
    -- the runs are disjoint: a position lies in at most one of them
    have hdis : inIv r p = true → inRuns rest p = false := by
      intro hi
      rw [inIv_iff] at hi
      apply inRuns_false_of_lt
      intro iv hiv; have := hgt iv hiv; omega
    cases hb : bitp ws p <;> cases hi : inIv r p <;> cases hr' : inRuns rest p <;> simp_all

/-- from bits to the abstract set. -/
theorem absW_ext {ws : List Nat} (h : WordsWF ws) {target : List Nat} (hs : Sorted target)
    (hlt : ∀ v ∈ target, v < 65536) (hb : ∀ p, p < 65536 → (bitp ws p = true ↔ p ∈ target)) : absW ws = target := by
  apply sorted_ext (sorted_absW ws) hs
  intro p
  rw [mem_absW, h.1]
  constructor
  · rintro ⟨h1, h2⟩; exact (hb p (by omega)).mp h2
  · intro hp; have := hlt p hp; exact ⟨by omega, (hb p this).mpr hp⟩

theorem bitp_iff_absW {ws : List Nat} (h : WordsWF ws) (p : Nat) (hp : p < 65536) : bitp ws p = true ↔ p ∈ absW ws := by
  rw [mem_absW, h.1]
  constructor
  · intro hb; exact ⟨by omega, hb⟩
  · intro hb; exact hb.2

/-- `unionBitmapRun` (one `bitmapSetRange` per run) refines the set-level union. -/
theorem wUnionRuns_refines {ws : List Nat} {rb : List Iv} (h : WordsWF ws) (hr : RunsWF rb) :
    WordsWF (wUnionRuns ws rb) ∧ absW (wUnionRuns ws rb) = Spec.union (absW ws) (runValues rb) := by
  have S := wUnionRuns_spec rb ws h hr
  have hrs := runValues_sorted hr
  refine ⟨S.1, absW_ext S.1 (sorted_union (sorted_absW ws) hrs) (union_lt (absW_lt h) (runValues_lt hr)) ?_⟩
  intro p hp
  rw [S.2 p hp, mem_union (sorted_absW ws) hrs, Bool.or_eq_true, bitp_iff_absW h p hp, mem_runValues]

/-- `differenceBitmapRun` (one `bitmapZeroRange` per run). -/
theorem wDiffRuns_refines {ws : List Nat} {rb : List Iv} (h : WordsWF ws) (hr : RunsWF rb) :
    WordsWF (wDiffRuns ws rb) ∧ absW (wDiffRuns ws rb) = Spec.diff (absW ws) (runValues rb) := by
  have S := wDiffRuns_spec rb ws h hr
  have hrs := runValues_sorted hr
  refine ⟨S.1, absW_ext S.1 (sorted_diff (sorted_absW ws) hrs) (diff_lt (absW_lt h) (runValues_lt hr)) ?_⟩
  intro p hp
  rw [S.2 p hp, mem_diff (sorted_absW ws) hrs, Bool.and_eq_true, bitp_iff_absW h p hp, mem_runValues]
  simp

/-- `xorBitmapRun` (one `bitmapXorRange` per run). -/
theorem wXorRuns_refines {ws : List Nat} {rb : List Iv} (h : WordsWF ws) (hr : RunsWF rb) :
    WordsWF (wXorRuns ws rb) ∧ absW (wXorRuns ws rb) = Spec.xor (absW ws) (runValues rb) := by
  have S := wXorRuns_spec rb ws h hr
  have hrs := runValues_sorted hr
  refine ⟨S.1, absW_ext S.1 (sorted_xor (sorted_absW ws) hrs) (xor_lt (absW_lt h) (runValues_lt hr)) ?_⟩
  intro p hp
  rw [S.2 p hp, mem_xor (sorted_absW ws) hrs, ← bitp_iff_absW h p hp, mem_runValues]
  cases bitp ws p <;> cases inRuns rb p <;> simp

/-- `intersectionCountBitmapRun` on the words. -/
theorem wIntersectionCountRuns_refines {ws : List Nat} (h : WordsWF ws) :
    ∀ (rb : List Iv), RunsWF rb → wIntersectionCountRuns ws rb = intersectionCountBitmapRun (absW ws) rb := by
  intro rb
  induction rb with
  | nil => intro _; rfl
  | cons r rest ih =>
    intro hr
    have hv := RunsWF.head hr
    simp only [wIntersectionCountRuns, intersectionCountBitmapRun]
    rw [ih (RunsWF.tail hr), wCountRange_refines h _ _ (by omega) (by omega)]

end PV.C01
