/-
C01 helper lemmas, part 12: the n-ary in-place union (`Bitmap.unionInPlace`, `Bitmap.Union`).
During the tick loop the stored `n` of a bitmap container in the target is stale, so the
intermediate target is described by `Container.WF'` (`n` never exceeds the true cardinality);
`Container.repair` restores `WF`.  Core Lean only.
-/
import PV.C01.LemmasL2More
import PV.C01.LemmasDispatch
namespace PV.C01
open Spec

/-! ### containers with a stale `n` -/

/-- well-formedness up to a stale (too small) `n` of a bitmap container. -/
def Container.WF' : Container → Prop
  | .array xs => Sorted xs ∧ ∀ v ∈ xs, v < 65536
  | .bitmap n bits => Sorted bits ∧ (∀ v ∈ bits, v < 65536) ∧ n ≤ bits.length
  | .run n ivs => RunsWF ivs ∧ n = runsCard ivs

def WFO' : Option Container → Prop
  | none => True
  | some c => c.WF'

theorem Container.WF.toWF' {c : Container} (h : c.WF) : c.WF' := by
  cases c with
  | array xs => exact h
  | bitmap n bits => exact ⟨h.1, h.2.1, Nat.le_of_eq h.2.2⟩
  | run n ivs => exact h

theorem WFO.toWFO' {c : Option Container} (h : WFO c) : WFO' c := by
  cases c with
  | none => trivial
  | some c => exact Container.WF.toWF' h

theorem Container.repair_spec {c : Container} (h : c.WF') : c.repair.WF ∧ c.repair.values = c.values := by
  cases c with
  | array xs => exact ⟨h, rfl⟩
  | bitmap n bits => exact ⟨⟨h.1, h.2.1, rfl⟩, rfl⟩
  | run n ivs => exact ⟨h, rfl⟩

theorem Container.WF'.values_sorted {c : Container} (h : c.WF') : Sorted c.values := by
  rw [← (Container.repair_spec h).2]; exact Container.values_sorted (Container.repair_spec h).1

theorem Container.WF'.values_lt {c : Container} (h : c.WF') : ∀ v ∈ c.values, v < 65536 := by
  rw [← (Container.repair_spec h).2]; exact Container.values_lt (Container.repair_spec h).1

theorem Container.WF'.n_le {c : Container} (h : c.WF') : c.n ≤ c.values.length := by
  cases c with
  | array xs => exact Nat.le_refl _
  | bitmap n bits => exact h.2.2
  | run n ivs => exact Nat.le_of_eq (Container.values_length (c := .run n ivs) h).symm

/-- the shortcut test `N() == 65536` only fires on a container that really is full. -/
theorem Container.WF'.full_mem {c : Container} (h : c.WF') (hn : c.n = 65536) :
    ∀ v, v < 65536 → v ∈ c.values := by
  have hs := h.values_sorted
  have hl := h.values_lt
  have h1 := h.n_le
  have h2 := sorted_length_le hs 65536 hl
  intro v hv
  exact sorted_length_full c.values 0 65536 hs (fun w hw => ⟨Nat.zero_le _, hl w hw⟩) (by omega) v (Nat.zero_le _) hv

theorem toBitmap_spec {c : Container} (h : c.WF') : (toBitmap c).WF' ∧ (toBitmap c).values = c.values := by
  cases c with
  | array xs => exact ⟨⟨h.1, h.2, Nat.le_refl _⟩, rfl⟩
  | bitmap n bits => exact ⟨h, rfl⟩
  | run n ivs =>
    have S := runToBitmap_spec h.1 h.2
    exact ⟨Container.WF.toWF' S.1, S.2⟩

theorem length_le_union {a b : List Nat} (ha : Sorted a) (hb : Sorted b)
    (hla : ∀ v ∈ a, v < 65536) (hlb : ∀ v ∈ b, v < 65536) : a.length ≤ (Spec.union a b).length :=
  sorted_subset_length_le ha (sorted_union ha hb) (union_lt hla hlb)
    (fun v hv => (mem_union ha hb v).mpr (Or.inl hv))

/-- `tContainer.unionInPlace(other)`: the target keeps `WF'` and gains the values of `other`.
`other.n ≠ 65536` is what `summaryStats.hasMaxRange = false` guarantees at the call site. -/
theorem unionInPlaceEffect_spec {c o : Container} (hc : c.WF') (ho : o.WF) (hn : o.n ≠ 65536) :
    (unionInPlaceEffect c o).WF' ∧
    ∀ v, v ∈ (unionInPlaceEffect c o).values ↔ (v ∈ c.values ∨ v ∈ o.values) := by
  have hos := Container.values_sorted ho
  have hol := Container.values_lt ho
  unfold unionInPlaceEffect
  by_cases h1 : c.n = 65536 ∨ o.n = 65536
  · rw [if_pos h1]
    have hcn : c.n = 65536 := by
      rcases h1 with h | h
      · exact h
      · exact absurd h hn
    refine ⟨hc, fun v => ⟨Or.inl, ?_⟩⟩
    rintro (h | h)
    · exact h
    · exact hc.full_mem hcn v (hol v h)
  · rw [if_neg h1]
    cases c with
    | bitmap n bits =>
      refine ⟨⟨sorted_union hc.1 hos, union_lt hc.2.1 hol, ?_⟩, fun v => mem_union hc.1 hos v⟩
      exact Nat.le_trans hc.2.2 (length_le_union hc.1 hos hc.2.1 hol)
    | run n ivs =>
      have hs := hc.values_sorted
      have hl := hc.values_lt
      have hlen := hc.n_le
      refine ⟨⟨sorted_union hs hos, union_lt hl hol, ?_⟩, fun v => mem_union hs hos v⟩
      exact Nat.le_trans hlen (length_le_union hs hos hl hol)
    | array xs =>
      cases o with
      | array ys =>
        show Container.WF' (if ys.length ≠ 0 then _ else _) ∧ _
        by_cases hy : ys.length ≠ 0
        · simp only [if_pos hy]
          have S := unionArrayArray_spec (xs.length + ys.length + 1) xs ys hc.1 ho.1 (by omega)
          have hw : (Container.array (unionArrayArray (xs.length + ys.length + 1) xs ys)).WF := by
            refine ⟨S.1, fun v hv => ?_⟩
            rcases (S.2 v).mp hv with h | h
            · exact hc.2 v h
            · exact ho.2 v h
          have O := Container.optimize_spec hw
          cases hopt : (Container.array (unionArrayArray (xs.length + ys.length + 1) xs ys)).optimize with
          | none =>
            rw [hopt] at O
            refine ⟨⟨trivial, by simp⟩, fun v => ?_⟩
            have := O.2 v
            simp only [valuesO, Container.values] at this
            show v ∈ ([] : List Nat) ↔ v ∈ xs ∨ v ∈ ys
            rw [this]; exact S.2 v
          | some r =>
            rw [hopt] at O
            refine ⟨Container.WF.toWF' O.1, fun v => ?_⟩
            have := O.2 v
            simp only [valuesO] at this
            show v ∈ r.values ↔ v ∈ xs ∨ v ∈ ys
            rw [this]; exact S.2 v
        · simp only [if_neg hy]
          have : ys = [] := List.length_eq_zero_iff.mp (by omega)
          subst this
          exact ⟨hc, fun v => by simp [Container.values]⟩
      | bitmap m bs =>
        refine ⟨⟨sorted_union hc.1 hos, union_lt hc.2 hol, ?_⟩, fun v => mem_union hc.1 hos v⟩
        exact length_le_union hc.1 hos hc.2 hol
      | run m ivs =>
        refine ⟨⟨sorted_union hc.1 hos, union_lt hc.2 hol, ?_⟩, fun v => mem_union hc.1 hos v⟩
        exact length_le_union hc.1 hos hc.2 hol

theorem summaryStats_false {key : Nat} : ∀ (l : List HIter), (summaryStats key l).2.2 = false →
    ∀ it ∈ l, it.cur.1 = key → it.cur.2.n ≠ 65536 := by
  intro l
  induction l with
  | nil => intro _ it hit; cases hit
  | cons x rest ih =>
    intro h it hit hk
    unfold summaryStats at h
    by_cases hx : x.cur.1 = key
    · rw [if_pos hx] at h
      by_cases hf : x.cur.2.n = 65536
      · rw [if_pos hf] at h; cases h
      · rw [if_neg hf] at h
        simp only [] at h
        by_cases hr : (summaryStats key rest).2.2 = true
        · rw [if_pos hr] at h; cases h
        · rcases List.mem_cons.mp hit with rfl | hm
          · exact hf
          · exact ih (by simpa using hr) it hm hk
    · rw [if_neg hx] at h
      rcases List.mem_cons.mp hit with rfl | hm
      · exact absurd hk hx
      · exact ih h it hm hk

theorem summaryStats_true {key : Nat} : ∀ (l : List HIter), (summaryStats key l).2.2 = true →
    ∃ it ∈ l, it.cur.1 = key ∧ it.cur.2.n = 65536 := by
  intro l
  induction l with
  | nil => intro h; cases h
  | cons x rest ih =>
    intro h
    unfold summaryStats at h
    by_cases hx : x.cur.1 = key
    · rw [if_pos hx] at h
      by_cases hf : x.cur.2.n = 65536
      · exact ⟨x, by simp, hx, hf⟩
      · rw [if_neg hf] at h
        simp only [] at h
        by_cases hr : (summaryStats key rest).2.2 = true
        · rcases ih hr with ⟨it, hm, h1, h2⟩
          exact ⟨it, by simp [hm], h1, h2⟩
        · rw [if_neg hr] at h; cases h
    · rw [if_neg hx] at h
      rcases ih h with ⟨it, hm, h1, h2⟩
      exact ⟨it, by simp [hm], h1, h2⟩

theorem unionSame_spec {key : Nat} : ∀ (l : List HIter) (t : Container), t.WF' →
    (∀ it ∈ l, it.cur.2.WF) → (∀ it ∈ l, it.cur.1 = key → it.cur.2.n ≠ 65536) →
    (unionSame key t l).WF' ∧
    ∀ v, v ∈ (unionSame key t l).values ↔ (v ∈ t.values ∨ ∃ it ∈ l, it.cur.1 = key ∧ v ∈ it.cur.2.values) := by
  intro l
  induction l with
  | nil => intro t ht _ _; exact ⟨ht, fun v => by simp [unionSame]⟩
  | cons x rest ih =>
    intro t ht hw hn
    have hwr : ∀ it ∈ rest, it.cur.2.WF := fun it h => hw it (by simp [h])
    have hnr : ∀ it ∈ rest, it.cur.1 = key → it.cur.2.n ≠ 65536 := fun it h => hn it (by simp [h])
    unfold unionSame
    by_cases hx : x.cur.1 = key
    · rw [if_pos hx]
      have U := unionInPlaceEffect_spec ht (hw x (by simp)) (hn x (by simp) hx)
      have R := ih _ U.1 hwr hnr
      refine ⟨R.1, fun v => ?_⟩
      rw [R.2 v, U.2 v]
      constructor
      · rintro ((h | h) | ⟨it, hm, h1, h2⟩)
        · exact Or.inl h
        · exact Or.inr ⟨x, by simp, hx, h⟩
        · exact Or.inr ⟨it, by simp [hm], h1, h2⟩
      · rintro (h | ⟨it, hm, h1, h2⟩)
        · exact Or.inl (Or.inl h)
        · rcases List.mem_cons.mp hm with rfl | hm
          · exact Or.inl (Or.inr h2)
          · exact Or.inr ⟨it, hm, h1, h2⟩
    · rw [if_neg hx]
      have R := ih t ht hwr hnr
      refine ⟨R.1, fun v => ?_⟩
      rw [R.2 v]
      constructor
      · rintro (h | ⟨it, hm, h1, h2⟩)
        · exact Or.inl h
        · exact Or.inr ⟨it, by simp [hm], h1, h2⟩
      · rintro (h | ⟨it, hm, h1, h2⟩)
        · exact Or.inl h
        · rcases List.mem_cons.mp hm with rfl | hm
          · exact absurd h1 hx
          · exact Or.inr ⟨it, hm, h1, h2⟩

/-! ### Get / Put -/

theorem find_putL (key : Nat) (c : Option Container) (k' : Nat) : ∀ (cs : List Entry),
    (putL key c cs).find? (fun e => e.1 = k') =
      if k' = key then some (key, c) else cs.find? (fun e => e.1 = k') := by
  intro cs
  induction cs with
  | nil =>
    by_cases h : k' = key
    · simp [putL, h]
    · have : ¬ key = k' := fun e => h e.symm
      simp [putL, h, this]
  | cons e rest ih =>
    rcases e with ⟨k, x⟩
    unfold putL
    by_cases h1 : key < k
    · rw [if_pos h1]
      by_cases h : k' = key
      · simp [h]
      · have : ¬ key = k' := fun e => h e.symm
        rw [if_neg h, List.find?_cons]; simp [this]
    · rw [if_neg h1]
      by_cases h2 : key = k
      · rw [if_pos h2]
        by_cases h : k' = key
        · simp [h]
        · have : ¬ key = k' := fun e => h e.symm
          have h3 : ¬ k = k' := fun e => this (h2.trans e)
          rw [if_neg h, List.find?_cons, List.find?_cons]; simp [this, h3]
      · rw [if_neg h2, List.find?_cons, ih]
        by_cases h : k' = key
        · have h3 : ¬ k = key := fun e => h2 e.symm
          subst h
          simp [h3]
        · rw [if_neg h, if_neg h, List.find?_cons]

theorem Bitmap.put_some (b : Bitmap) (key : Nat) (c : Container) :
    b.put key (some c) = ⟨b.btree, putL key (some c) b.cs⟩ := by
  unfold Bitmap.put; simp

theorem Bitmap.get_put (b : Bitmap) (key : Nat) (c : Container) (k' : Nat) :
    (b.put key (some c)).get k' = if k' = key then some c else b.get k' := by
  rw [Bitmap.put_some]
  unfold Bitmap.get
  simp only []
  rw [find_putL]
  by_cases h : k' = key
  · simp [h]
  · simp [h]

theorem mem_putL {key : Nat} {c : Option Container} {e : Entry} : ∀ {cs : List Entry},
    e ∈ putL key c cs → e = (key, c) ∨ e ∈ cs := by
  intro cs
  induction cs with
  | nil => intro h; simp [putL] at h; exact Or.inl h
  | cons a rest ih =>
    rcases a with ⟨k, x⟩
    intro h
    unfold putL at h
    split at h
    · rcases List.mem_cons.mp h with h | h
      · exact Or.inl h
      · exact Or.inr h
    · split at h
      · rcases List.mem_cons.mp h with h | h
        · exact Or.inl h
        · exact Or.inr (by simp [h])
      · rcases List.mem_cons.mp h with h | h
        · exact Or.inr (by simp [h])
        · rcases ih h with h | h
          · exact Or.inl h
          · exact Or.inr (by simp [h])

theorem sorted_putL_keys (key : Nat) (c : Option Container) : ∀ (cs : List Entry),
    Sorted (cs.map (·.1)) → Sorted ((putL key c cs).map (·.1)) := by
  intro cs
  induction cs with
  | nil => intro _; simp [putL]; trivial
  | cons a rest ih =>
    rcases a with ⟨k, x⟩
    intro h
    rw [List.map_cons] at h
    unfold putL
    by_cases h1 : key < k
    · rw [if_pos h1, List.map_cons, List.map_cons]
      apply sorted_cons h
      intro y hy
      rcases List.mem_cons.mp hy with rfl | hy
      · exact h1
      · exact Nat.lt_trans h1 (sorted_lt h y hy)
    · rw [if_neg h1]
      by_cases h2 : key = k
      · rw [if_pos h2, List.map_cons]; subst h2; exact h
      · rw [if_neg h2, List.map_cons]
        apply sorted_cons (ih (sorted_tail h))
        intro y hy
        rcases List.mem_map.mp hy with ⟨e, he, rfl⟩
        rcases mem_putL he with rfl | he
        · show k < key; omega
        · exact sorted_lt h e.1 (List.mem_map.mpr ⟨e, he, rfl⟩)

theorem keysAsc_putL {key : Nat} {c : Option Container} {cs : List Entry} (h : KeysAsc cs)
    (hk : key ≤ maxContainerKey) : KeysAsc (putL key c cs) := by
  apply keysAsc_of_sorted (sorted_putL_keys key c cs (keysAsc_sorted h))
  intro e he
  rcases mem_putL he with rfl | he
  · exact hk
  · exact KeysAsc.le_max h e he

/-! ### the intermediate target -/

/-- invariant of the target during the tick loop. -/
def TInv (T : Bitmap) : Prop :=
  KeysAsc T.cs ∧ (∀ e ∈ T.cs, WFO' e.2) ∧ (T.btree = true → ∀ e ∈ T.cs, e.2 ≠ none)

theorem TInv.of_wf {T : Bitmap} (h : T.WF) : TInv T :=
  ⟨h.1, fun e he => WFO.toWFO' (h.2.1 e he), h.2.2⟩

theorem Bitmap.get_mem {T : Bitmap} {k : Nat} {c : Container} (hg : T.get k = some c) :
    ∃ k', (k', some c) ∈ T.cs := by
  unfold Bitmap.get at hg
  cases hf : T.cs.find? (fun e => e.1 = k) with
  | none => rw [hf] at hg; cases hg
  | some e =>
    rw [hf] at hg
    rcases e with ⟨k', oc⟩
    simp only [] at hg
    subst hg
    exact ⟨k', List.mem_of_find?_eq_some hf⟩

theorem TInv.get {T : Bitmap} (h : TInv T) {k : Nat} {c : Container} (hg : T.get k = some c) : c.WF' := by
  rcases Bitmap.get_mem hg with ⟨k', hm⟩
  exact h.2.1 _ hm

theorem TInv.put {T : Bitmap} (h : TInv T) {key : Nat} {c : Container} (hk : key ≤ maxContainerKey)
    (hc : c.WF') : TInv (T.put key (some c)) := by
  rw [Bitmap.put_some]
  refine ⟨keysAsc_putL h.1 hk, ?_, ?_⟩
  · intro e he
    rcases mem_putL he with rfl | he
    · exact hc
    · exact h.2.1 e he
  · intro hb e he
    rcases mem_putL he with rfl | he
    · simp
    · exact h.2.2 hb e he

/-- `w` is in the container stored under key `k`. -/
def holds (T : Bitmap) (k w : Nat) : Prop := w ∈ valuesO (T.get k)

/-- the container `e.2` of some other bitmap under key `e.1` is contained in the target. -/
def incl (T : Bitmap) (e : Nat × Container) : Prop := ∀ w ∈ e.2.values, holds T e.1 w

theorem holds_put (T : Bitmap) (key : Nat) (c : Container) (k w : Nat) :
    holds (T.put key (some c)) k w ↔ if k = key then w ∈ c.values else holds T k w := by
  unfold holds
  rw [Bitmap.get_put]
  by_cases h : k = key
  · rw [if_pos h, if_pos h]; rfl
  · rw [if_neg h, if_neg h]

theorem holds_put_same (T : Bitmap) (key : Nat) (c : Container) (w : Nat) :
    holds (T.put key (some c)) key w ↔ w ∈ c.values := by
  rw [holds_put, if_pos rfl]

theorem holds_put_other (T : Bitmap) {key k : Nat} (c : Container) (w : Nat) (h : k ≠ key) :
    holds (T.put key (some c)) k w ↔ holds T k w := by
  rw [holds_put, if_neg h]

/-! ### one step of the inner loop -/

/-- what one or more inner-loop steps do: the target grows by values of current containers only,
the iterators keep their position, and a newly set `handled` flag is justified. -/
structure Step (T : Bitmap) (its : List HIter) (T' : Bitmap) (its' : List HIter) : Prop where
  inv : TInv T'
  mono : ∀ k w, holds T k w → holds T' k w
  sound : ∀ k w, holds T' k w → holds T k w ∨ ∃ it ∈ its, it.cur.1 = k ∧ w ∈ it.cur.2.values
  len : its'.length = its.length
  pos : ∀ (j : Nat) (it' : HIter), its'[j]? = some it' → ∃ it, its[j]? = some it ∧ it'.cur = it.cur ∧ it'.rest = it.rest ∧
    it'.hasNext = it.hasNext ∧ (it'.handled = true → it.handled = true ∨ incl T' it.cur)

theorem Step.refl {T : Bitmap} (h : TInv T) (its : List HIter) : Step T its T its :=
  ⟨h, fun _ _ h => h, fun _ _ h => Or.inl h, rfl, fun _ it' h => ⟨it', h, rfl, rfl, rfl, Or.inl⟩⟩

theorem incl_mono {T T' : Bitmap} (h : ∀ k w, holds T k w → holds T' k w) {e : Nat × Container}
    (hi : incl T e) : incl T' e := fun w hw => h _ _ (hi w hw)

theorem Step.trans {T T' T'' : Bitmap} {its its' its'' : List HIter}
    (a : Step T its T' its') (b : Step T' its' T'' its'') : Step T its T'' its'' := by
  refine ⟨b.inv, fun k w h => b.mono k w (a.mono k w h), ?_, b.len.trans a.len, ?_⟩
  · intro k w h
    rcases b.sound k w h with h | ⟨it', hm, h1, h2⟩
    · exact a.sound k w h
    · rcases List.mem_iff_getElem?.mp hm with ⟨j, hj⟩
      rcases a.pos j it' hj with ⟨it, hj', hc, _, _, _⟩
      exact Or.inr ⟨it, List.mem_of_getElem? hj', by rw [← hc]; exact h1, by rw [← hc]; exact h2⟩
  · intro j it'' hj
    rcases b.pos j it'' hj with ⟨it', hj', hc', hr', hn', hh'⟩
    rcases a.pos j it' hj' with ⟨it, hj0, hc, hr, hn, hh⟩
    refine ⟨it, hj0, hc'.trans hc, hr'.trans hr, hn'.trans hn, fun h => ?_⟩
    rcases hh' h with h | h
    · rcases hh h with h | h
      · exact Or.inl h
      · exact Or.inr (incl_mono b.mono h)
    · exact Or.inr (by rw [← hc]; exact h)

theorem step_mark {T T' : Bitmap} {its : List HIter} (P : Nat → HIter → Prop) [∀ j it, Decidable (P j it)]
    (hinv : TInv T') (hmono : ∀ k w, holds T k w → holds T' k w)
    (hsound : ∀ k w, holds T' k w → holds T k w ∨ ∃ it ∈ its, it.cur.1 = k ∧ w ∈ it.cur.2.values)
    (hP : ∀ j it, its[j]? = some it → P j it → incl T' it.cur) :
    Step T its T' (its.mapIdx (fun idx x => if P idx x then { x with handled := true } else x)) := by
  refine ⟨hinv, hmono, hsound, List.length_mapIdx, ?_⟩
  intro j it' hj
  rw [List.getElem?_mapIdx, Option.map_eq_some_iff] at hj
  rcases hj with ⟨it, hj, he⟩
  refine ⟨it, hj, ?_⟩
  by_cases hp : P j it
  · rw [if_pos hp] at he
    subst he
    exact ⟨rfl, rfl, rfl, fun _ => Or.inr (hP j it hj hp)⟩
  · rw [if_neg hp] at he
    subst he
    exact ⟨rfl, rfl, rfl, Or.inl⟩

theorem step_markHandled {T T' : Bitmap} {its : List HIter} (start key : Nat)
    (hinv : TInv T') (hmono : ∀ k w, holds T k w → holds T' k w)
    (hsound : ∀ k w, holds T' k w → holds T k w ∨ ∃ it ∈ its, it.cur.1 = k ∧ w ∈ it.cur.2.values)
    (hP : ∀ j it, its[j]? = some it → j ≥ start → it.cur.1 = key → incl T' it.cur) :
    Step T its T' (markHandled start key its) :=
  step_mark (fun idx it => idx ≥ start ∧ it.cur.1 = key) hinv hmono hsound
    (fun j it hj hp => hP j it hj hp.1 hp.2)

theorem mem_drop_of_getElem? {its : List HIter} {i j : Nat} {it : HIter} (h : its[j]? = some it) (hj : j ≥ i) :
    it ∈ its.drop i := by
  apply List.mem_iff_getElem?.mpr
  refine ⟨j - i, ?_⟩
  rw [List.getElem?_drop]
  have : i + (j - i) = j := by omega
  rw [this]; exact h

/-- putting the union of the target's container (if any) with current containers of key `key`. -/
theorem step_put {T : Bitmap} {its : List HIter} (hT : TInv T) {key : Nat} {c : Container} (start : Nat)
    (hk : key ≤ maxContainerKey) (hc : c.WF')
    (hm : ∀ w, holds T key w → w ∈ c.values)
    (hs : ∀ w, w ∈ c.values → holds T key w ∨ ∃ it ∈ its, it.cur.1 = key ∧ w ∈ it.cur.2.values)
    (hP : ∀ j it, its[j]? = some it → j ≥ start → it.cur.1 = key → ∀ w ∈ it.cur.2.values, w ∈ c.values) :
    Step T its (T.put key (some c)) (markHandled start key its) := by
  apply step_markHandled start key (hT.put hk hc)
  · intro k w h
    rw [holds_put]
    by_cases hkk : k = key
    · rw [if_pos hkk]; subst hkk; exact hm w h
    · rw [if_neg hkk]; exact h
  · intro k w h
    rw [holds_put] at h
    by_cases hkk : k = key
    · rw [if_pos hkk] at h; subst hkk; exact hs w h
    · rw [if_neg hkk] at h; exact Or.inl h
  · intro j it hj h1 h2 w hw
    rw [h2, holds_put_same]
    exact hP j it hj h1 h2 w hw

theorem holds_lt {T : Bitmap} (hT : TInv T) {k w : Nat} (h : holds T k w) : w < 65536 := by
  unfold holds at h
  cases hg : T.get k with
  | none => rw [hg] at h; cases h
  | some t => rw [hg] at h; exact (hT.get hg).values_lt w h

theorem getElem?_of_mem_drop {its : List HIter} {i : Nat} {x : HIter} (h : x ∈ its.drop i) :
    ∃ j, j ≥ i ∧ its[j]? = some x := by
  rcases List.mem_iff_getElem?.mp h with ⟨j, hj⟩
  rw [List.getElem?_drop] at hj
  exact ⟨i + j, by omega, hj⟩

theorem mem_drop_succ {its : List HIter} {i : Nat} {x : HIter} (h : x ∈ its.drop (i + 1)) : x ∈ its.drop i := by
  rcases getElem?_of_mem_drop h with ⟨j, hj, hx⟩
  exact mem_drop_of_getElem? hx (by omega)

/-- the general case of a tick step: the iterators from `start` on with key `key` are unioned
into `t0`, which holds what the target has under `key` (plus, possibly, current containers). -/
theorem tick_union {T : Bitmap} {its : List HIter} (hT : TInv T)
    (hw : ∀ it ∈ its, it.cur.2.WF ∧ it.cur.1 ≤ maxContainerKey)
    {key : Nat} (hk : key ≤ maxContainerKey) (start : Nat) (t0 : Container) (ht0 : t0.WF')
    (hm : ∀ w, holds T key w → w ∈ t0.values)
    (hs : ∀ w, w ∈ t0.values → holds T key w ∨ ∃ it ∈ its, it.cur.1 = key ∧ w ∈ it.cur.2.values)
    (hn : ∀ it ∈ its.drop start, it.cur.1 = key → it.cur.2.n ≠ 65536) :
    Step T its (T.put key (some (unionSame key t0 (its.drop start)))) (markHandled start key its) ∧
    (∀ w, w ∈ t0.values → holds (T.put key (some (unionSame key t0 (its.drop start)))) key w) ∧
    ∀ j it, its[j]? = some it → j ≥ start → it.cur.1 = key →
      incl (T.put key (some (unionSame key t0 (its.drop start)))) it.cur := by
  have U := unionSame_spec (key := key) (its.drop start) t0 ht0
    (fun x hx => (hw x (List.mem_of_mem_drop hx)).1) hn
  have hP : ∀ j it, its[j]? = some it → j ≥ start → it.cur.1 = key → ∀ w ∈ it.cur.2.values,
      w ∈ (unionSame key t0 (its.drop start)).values := by
    intro j x hj h1 h2 w hww
    exact (U.2 w).mpr (Or.inr ⟨x, mem_drop_of_getElem? hj h1, h2, hww⟩)
  refine ⟨step_put hT start hk U.1 ?_ ?_ hP, ?_, ?_⟩
  · intro w h
    exact (U.2 w).mpr (Or.inl (hm w h))
  · intro w h
    rcases (U.2 w).mp h with h | ⟨x, hx, h1, h2⟩
    · exact hs w h
    · exact Or.inr ⟨x, List.mem_of_mem_drop hx, h1, h2⟩
  · intro w h
    rw [holds_put_same]
    exact (U.2 w).mpr (Or.inl h)
  · intro j x hj h1 h2 w hww
    rw [h2, holds_put_same]
    exact hP j x hj h1 h2 w hww

theorem tickAt_spec {i : Nat} {T : Bitmap} {its : List HIter} (hT : TInv T)
    (hw : ∀ it ∈ its, it.cur.2.WF ∧ it.cur.1 ≤ maxContainerKey)
    (hd : ∀ it, its[i]? = some it → (it.handled = true ∨ it.hasNext = false) → incl T it.cur) :
    Step T its (tickAt i T its).1 (tickAt i T its).2 ∧
    ∀ it, its[i]? = some it → incl (tickAt i T its).1 it.cur := by
  suffices h : ∀ r, tickAt i T its = r → Step T its r.1 r.2 ∧ ∀ it, its[i]? = some it → incl r.1 it.cur from
    h _ rfl
  intro r hr
  unfold tickAt at hr
  cases hi : its[i]? with
  | none => rw [hi] at hr; subst hr; exact ⟨Step.refl hT its, fun it h => by cases h⟩
  | some it =>
    rw [hi] at hr
    simp only [] at hr
    by_cases hskip : (!it.hasNext || it.handled) = true
    · rw [if_pos hskip] at hr
      subst hr
      refine ⟨Step.refl hT its, fun it' h => ?_⟩
      cases h
      apply hd it hi
      cases h1 : it.hasNext <;> cases h2 : it.handled <;> simp [h1, h2] at hskip ⊢
    · rw [if_neg hskip] at hr
      have hitm : it ∈ its := List.mem_of_getElem? hi
      have hwit := hw it hitm
      have hitd : it ∈ its.drop i := mem_drop_of_getElem? hi (Nat.le_refl i)
      by_cases hfull : (T.get it.cur.1).isSome = true ∧ N (T.get it.cur.1) = 65536
      · rw [if_pos hfull] at hr
        subst hr
        cases hg : T.get it.cur.1 with
        | none => rw [hg] at hfull; simp at hfull
        | some t =>
          rw [hg] at hfull
          have hfl := (hT.get hg).full_mem hfull.2
          have hall : ∀ x ∈ its, x.cur.1 = it.cur.1 → incl T x.cur := by
            intro x hx h1 w hww
            unfold holds
            rw [h1, hg]
            exact hfl w (Container.values_lt (hw x hx).1 w hww)
          refine ⟨step_markHandled i it.cur.1 hT (fun _ _ h => h) (fun _ _ h => Or.inl h)
            (fun j x hj _ h2 => hall x (List.mem_of_getElem? hj) h2), fun it' h => ?_⟩
          cases h
          exact hall it hitm rfl
      · rw [if_neg hfull] at hr
        by_cases hmax : (summaryStats it.cur.1 (its.drop i)).2.2 = true
        · rw [if_pos hmax] at hr
          subst hr
          rcases summaryStats_true _ hmax with ⟨x, hx, hx1, hx2⟩
          have hxf := PV.C01.full_mem (hw x (List.mem_of_mem_drop hx)).1 hx2
          have S : Step T its (T.put it.cur.1 (some fullContainer)) (markHandled i it.cur.1 its) := by
            apply step_put hT i hwit.2 (Container.WF.toWF' fullContainer_spec.1)
            · intro w h; exact (fullContainer_spec.2 w).mpr (holds_lt hT h)
            · intro w h
              exact Or.inr ⟨x, List.mem_of_mem_drop hx, hx1, hxf w ((fullContainer_spec.2 w).mp h)⟩
            · intro j y hj _ _ w hww
              exact (fullContainer_spec.2 w).mpr (Container.values_lt (hw y (List.mem_of_getElem? hj)).1 w hww)
          refine ⟨S, fun it' h => ?_⟩
          cases h
          intro w hww
          rw [holds_put_same]
          exact (fullContainer_spec.2 w).mpr (Container.values_lt hwit.1 w hww)
        · rw [if_neg hmax] at hr
          have hn65 := summaryStats_false (key := it.cur.1) (its.drop i) (by simpa using hmax)
          cases hg : T.get it.cur.1 with
          | none =>
            rw [hg] at hr
            simp only [] at hr
            have hnone : ∀ w, ¬ holds T it.cur.1 w := by
              intro w h; unfold holds at h; rw [hg] at h; cases h
            by_cases hone : (summaryStats it.cur.1 (its.drop i)).2.1 = 1
            · rw [if_pos hone] at hr
              subst hr
              have S : Step T its (T.put it.cur.1 (some it.cur.2))
                  (its.mapIdx (fun idx x => if idx = i then { x with handled := true } else x)) := by
                apply step_mark (fun idx _ => idx = i) (hT.put hwit.2 (Container.WF.toWF' hwit.1))
                · intro k w h
                  rw [holds_put]
                  by_cases hkk : k = it.cur.1
                  · subst hkk; exact absurd h (hnone w)
                  · rw [if_neg hkk]; exact h
                · intro k w h
                  rw [holds_put] at h
                  by_cases hkk : k = it.cur.1
                  · rw [if_pos hkk] at h; exact Or.inr ⟨it, hitm, hkk.symm, h⟩
                  · rw [if_neg hkk] at h; exact Or.inl h
                · intro j x hj hji w hww
                  subst hji
                  rw [hi] at hj
                  cases hj
                  rw [holds_put_same]; exact hww
              refine ⟨S, fun it' h => ?_⟩
              cases h
              intro w hww
              rw [holds_put_same]; exact hww
            · rw [if_neg hone] at hr
              by_cases hbig : N (none : Option Container) + (summaryStats it.cur.1 (its.drop i)).1 ≥ 512 ∧
                  (!isBitmap it.cur.2) = true
              · rw [if_pos hbig] at hr
                subst hr
                have R := tick_union hT hw hwit.2 i (.bitmap 0 []) ⟨trivial, by simp, Nat.le_refl _⟩
                  (fun w h => absurd h (hnone w)) (fun w h => by cases h) hn65
                refine ⟨R.1, fun it' h => ?_⟩
                cases h
                exact R.2.2 i it hi (Nat.le_refl i) rfl
              · rw [if_neg hbig] at hr
                subst hr
                have R := tick_union hT hw hwit.2 (i + 1) it.cur.2 (Container.WF.toWF' hwit.1)
                  (fun w h => absurd h (hnone w)) (fun w h => Or.inr ⟨it, hitm, rfl, h⟩)
                  (fun x hx => hn65 x (mem_drop_succ hx))
                refine ⟨R.1, fun it' h => ?_⟩
                cases h
                exact R.2.1
          | some t =>
            rw [hg] at hr
            simp only [] at hr
            subst hr
            have htw := hT.get hg
            have hto : ∀ (b : Prop) [Decidable b], (if b then toBitmap t else t).WF' ∧
                (if b then toBitmap t else t).values = t.values := by
              intro b _
              split
              · exact toBitmap_spec htw
              · exact ⟨htw, rfl⟩
            have hh : ∀ w, holds T it.cur.1 w ↔ w ∈ t.values := by
              intro w; unfold holds; rw [hg]; rfl
            have B := hto (N (some t) + (summaryStats it.cur.1 (its.drop i)).1 ≥ 512 ∧ (!isBitmap t) = true)
            have R := tick_union hT hw hwit.2 i _ B.1
              (fun w h => by rw [B.2]; exact (hh w).mp h)
              (fun w h => by rw [B.2] at h; exact Or.inl ((hh w).mpr h)) hn65
            refine ⟨R.1, fun it' h => ?_⟩
            cases h
            exact R.2.2 i it hi (Nat.le_refl i) rfl

theorem lt_of_getElem? {α : Type} {l : List α} {j : Nat} {a : α} (h : l[j]? = some a) : j < l.length := by
  rcases List.getElem?_eq_some_iff.mp h with ⟨h, _⟩
  exact h

/-- the inner loop from index `i` on: afterwards every current container is in the target. -/
theorem tickAll_spec : ∀ (f i : Nat) (T : Bitmap) (its : List HIter), TInv T →
    (∀ it ∈ its, it.cur.2.WF ∧ it.cur.1 ≤ maxContainerKey) →
    (∀ j it, its[j]? = some it → (j < i ∨ it.handled = true ∨ it.hasNext = false) → incl T it.cur) →
    its.length ≤ i + f →
    Step T its (tickAll f i T its).1 (tickAll f i T its).2 ∧
    ∀ it' ∈ (tickAll f i T its).2, incl (tickAll f i T its).1 it'.cur := by
  intro f
  induction f with
  | zero =>
    intro i T its hT hw hd hlen
    refine ⟨Step.refl hT its, fun it' hm => ?_⟩
    rcases List.mem_iff_getElem?.mp hm with ⟨j, hj⟩
    have hj : its[j]? = some it' := hj
    have := lt_of_getElem? hj
    exact hd j it' hj (Or.inl (by omega))
  | succ f ih =>
    intro i T its hT hw hd hlen
    unfold tickAll
    by_cases hge : i ≥ its.length
    · rw [if_pos hge]
      refine ⟨Step.refl hT its, fun it' hm => ?_⟩
      rcases List.mem_iff_getElem?.mp hm with ⟨j, hj⟩
      have hj : its[j]? = some it' := hj
      have := lt_of_getElem? hj
      exact hd j it' hj (Or.inl (by omega))
    · rw [if_neg hge]
      simp only []
      have A := tickAt_spec (i := i) hT hw (fun it h hh => hd i it h (Or.inr hh))
      have hw' : ∀ it ∈ (tickAt i T its).2, it.cur.2.WF ∧ it.cur.1 ≤ maxContainerKey := by
        intro it' hm
        rcases List.mem_iff_getElem?.mp hm with ⟨j, hj⟩
        rcases A.1.pos j it' hj with ⟨it, hj0, hc, _⟩
        rw [hc]; exact hw it (List.mem_of_getElem? hj0)
      have hd' : ∀ j it, (tickAt i T its).2[j]? = some it →
          (j < i + 1 ∨ it.handled = true ∨ it.hasNext = false) → incl (tickAt i T its).1 it.cur := by
        intro j it' hj hcond
        rcases A.1.pos j it' hj with ⟨it, hj0, hc, _, hn, hh⟩
        rw [hc]
        rcases hcond with h | h | h
        · by_cases hji : j = i
          · subst hji; exact A.2 it hj0
          · exact incl_mono A.1.mono (hd j it hj0 (Or.inl (by omega)))
        · rcases hh h with h | h
          · exact incl_mono A.1.mono (hd j it hj0 (Or.inr (Or.inl h)))
          · exact h
        · rw [hn] at h
          exact incl_mono A.1.mono (hd j it hj0 (Or.inr (Or.inr h)))
      have R := ih (i + 1) (tickAt i T its).1 (tickAt i T its).2 A.1.inv hw' hd'
        (by rw [A.1.len]; omega)
      exact ⟨Step.trans A.1 R.1, R.2⟩

/-! ### the outer loop -/

/-- `w` is in a container with key `k` of one of the other bitmaps. -/
def inOthers (others : List Bitmap) (k w : Nat) : Prop :=
  ∃ o ∈ others, ∃ c, (k, c) ∈ o.live ∧ w ∈ c.values

/-- invariant of the outer loop (`t₀` is the target at the start). -/
structure Outer (t₀ : Bitmap) (others : List Bitmap) (T : Bitmap) (its : List HIter) : Prop where
  inv : TInv T
  sound : ∀ k w, holds T k w → holds t₀ k w ∨ inOthers others k w
  mono : ∀ k w, holds t₀ k w → holds T k w
  src : ∀ it ∈ its, ∃ o ∈ others, ∃ pre, o.live = pre ++ it.cur :: it.rest
  cover : ∀ o ∈ others, o.live = [] ∨
    ∃ it ∈ its, ∃ pre, o.live = pre ++ it.cur :: it.rest ∧ ∀ e ∈ pre, incl T e
  done : ∀ it ∈ its, (it.handled = true ∨ it.hasNext = false) → incl T it.cur

theorem Outer.cur_mem {t₀ T : Bitmap} {others : List Bitmap} {its : List HIter} (h : Outer t₀ others T its)
    {it : HIter} (hit : it ∈ its) : ∃ o ∈ others, it.cur ∈ o.live := by
  rcases h.src it hit with ⟨o, ho, pre, hp⟩
  exact ⟨o, ho, by rw [hp]; simp⟩

theorem tick_outer {t₀ T : Bitmap} {others : List Bitmap} {its : List HIter} (ho : ∀ o ∈ others, o.WF)
    (h : Outer t₀ others T its) :
    Outer t₀ others (tickAll (its.length + 1) 0 T its).1 (tickAll (its.length + 1) 0 T its).2 ∧
    (∀ it' ∈ (tickAll (its.length + 1) 0 T its).2, incl (tickAll (its.length + 1) 0 T its).1 it'.cur) ∧
    (∀ it' ∈ (tickAll (its.length + 1) 0 T its).2, ∃ it ∈ its, it'.rest = it.rest) := by
  have hw : ∀ it ∈ its, it.cur.2.WF ∧ it.cur.1 ≤ maxContainerKey := by
    intro it hit
    rcases h.cur_mem hit with ⟨o, hom, hm⟩
    exact ⟨Bitmap.live_wf (ho o hom) _ hm, live_keys_le (ho o hom) _ hm⟩
  have A := tickAll_spec (its.length + 1) 0 T its h.inv hw
    (fun j it hj hc => by
      rcases hc with hc | hc
      · omega
      · exact h.done it (List.mem_of_getElem? hj) hc) (by omega)
  generalize tickAll (its.length + 1) 0 T its = r at A
  rcases A with ⟨S, hall⟩
  have back : ∀ it' ∈ r.2, ∃ it ∈ its, it'.cur = it.cur ∧ it'.rest = it.rest := by
    intro it' hm
    rcases List.mem_iff_getElem?.mp hm with ⟨j, hj⟩
    rcases S.pos j it' hj with ⟨it, hj0, hc, hr, _⟩
    exact ⟨it, List.mem_of_getElem? hj0, hc, hr⟩
  have forth : ∀ it ∈ its, ∃ it' ∈ r.2, it'.cur = it.cur ∧ it'.rest = it.rest := by
    intro it hm
    rcases List.mem_iff_getElem?.mp hm with ⟨j, hj⟩
    have hlt : j < r.2.length := by rw [S.len]; exact lt_of_getElem? hj
    have hj' : r.2[j]? = some r.2[j] := List.getElem?_eq_getElem hlt
    rcases S.pos j _ hj' with ⟨it2, hj0, hc, hr, _⟩
    rw [hj] at hj0
    cases hj0
    exact ⟨r.2[j], List.mem_of_getElem? hj', hc, hr⟩
  refine ⟨⟨S.inv, ?_, fun k w hh => S.mono k w (h.mono k w hh), ?_, ?_, fun it' hm _ => hall it' hm⟩, hall, ?_⟩
  · intro k w hh
    rcases S.sound k w hh with hh | ⟨it, hit, h1, h2⟩
    · exact h.sound k w hh
    · rcases h.cur_mem hit with ⟨o, hom, hm⟩
      refine Or.inr ⟨o, hom, it.cur.2, ?_, h2⟩
      rw [← h1]; exact hm
  · intro it' hm
    rcases back it' hm with ⟨it, hit, hc, hr⟩
    rw [hc, hr]; exact h.src it hit
  · intro o hom
    rcases h.cover o hom with hh | ⟨it, hit, pre, hp, hi⟩
    · exact Or.inl hh
    · rcases forth it hit with ⟨it', hm', hc, hr⟩
      exact Or.inr ⟨it', hm', pre, by rw [hc, hr]; exact hp, fun e he => incl_mono S.mono (hi e he)⟩
  · intro it' hm
    rcases back it' hm with ⟨it, hit, _, hr⟩
    exact ⟨it, hit, hr⟩

/-- when no iterator has containers left, everything has been unioned in. -/
theorem outer_final {t₀ T : Bitmap} {others : List Bitmap} {its : List HIter}
    (h : Outer t₀ others T its) (hall : ∀ it ∈ its, incl T it.cur) (hr : ∀ it ∈ its, it.rest = []) :
    ∀ k w, holds T k w ↔ (holds t₀ k w ∨ inOthers others k w) := by
  intro k w
  refine ⟨h.sound k w, ?_⟩
  rintro (hh | ⟨o, hom, c, hm, hwc⟩)
  · exact h.mono k w hh
  · rcases h.cover o hom with hl | ⟨it, hit, pre, hp, hi⟩
    · rw [hl] at hm; cases hm
    · rw [hp, hr it hit] at hm
      rcases List.mem_append.mp hm with hm | hm
      · exact hi _ hm w hwc
      · simp at hm
        have := hall it hit
        rw [← hm] at this
        exact this w hwc

def nextIt (it : HIter) : HIter :=
  match it.rest with
  | [] => { it with hasNext := false, handled := false }
  | x :: r => { cur := x, rest := r, hasNext := true, handled := false }

theorem itersNext_eq (its : List HIter) : itersNext its = (its.map nextIt, (its.map nextIt).any (·.hasNext)) := rfl

theorem itersNext_false {its : List HIter} (h : (itersNext its).2 = false) : ∀ it ∈ its, it.rest = [] := by
  intro it hit
  rw [itersNext_eq] at h
  simp only [] at h
  rw [List.any_eq_false] at h
  have := h (nextIt it) (List.mem_map.mpr ⟨it, hit, rfl⟩)
  cases hr : it.rest with
  | nil => rfl
  | cons x r => unfold nextIt at this; rw [hr] at this; simp at this

theorem next_outer {t₀ T : Bitmap} {others : List Bitmap} {its : List HIter}
    (h : Outer t₀ others T its) (hall : ∀ it ∈ its, incl T it.cur) :
    Outer t₀ others T (itersNext its).1 := by
  rw [itersNext_eq]
  simp only []
  refine ⟨h.inv, h.sound, h.mono, ?_, ?_, ?_⟩
  · intro it' hm
    rcases List.mem_map.mp hm with ⟨it, hit, rfl⟩
    rcases h.src it hit with ⟨o, hom, pre, hp⟩
    refine ⟨o, hom, ?_⟩
    unfold nextIt
    cases hr : it.rest with
    | nil => simp only []; exact ⟨pre, by rw [hp, hr]⟩
    | cons x r => simp only []; exact ⟨pre ++ [it.cur], by rw [hp, hr]; simp⟩
  · intro o hom
    rcases h.cover o hom with hl | ⟨it, hit, pre, hp, hi⟩
    · exact Or.inl hl
    · refine Or.inr ⟨nextIt it, List.mem_map.mpr ⟨it, hit, rfl⟩, ?_⟩
      unfold nextIt
      cases hr : it.rest with
      | nil => simp only []; exact ⟨pre, by rw [hp, hr], hi⟩
      | cons x r =>
        simp only []
        refine ⟨pre ++ [it.cur], by rw [hp, hr]; simp, fun e he => ?_⟩
        rcases List.mem_append.mp he with he | he
        · exact hi e he
        · simp at he; rw [he]; exact hall it hit
  · intro it' hm hc
    rcases List.mem_map.mp hm with ⟨it, hit, rfl⟩
    unfold nextIt at hc ⊢
    cases hr : it.rest with
    | nil => simp only []; exact hall it hit
    | cons x r => rw [hr] at hc; simp at hc

theorem next_rest {its : List HIter} {f : Nat} (h : ∀ it ∈ its, it.rest.length ≤ f + 1) :
    ∀ it ∈ (itersNext its).1, it.rest.length ≤ f := by
  rw [itersNext_eq]
  intro it' hm
  rcases List.mem_map.mp hm with ⟨it, hit, rfl⟩
  have := h it hit
  unfold nextIt
  cases hr : it.rest with
  | nil => simp
  | cons x r => simp only []; rw [hr] at this; simp at this; exact this

theorem unionTicks_spec {t₀ : Bitmap} {others : List Bitmap} (ho : ∀ o ∈ others, o.WF) :
    ∀ (f : Nat) (T : Bitmap) (its : List HIter), Outer t₀ others T its →
    (∀ it ∈ its, it.rest.length ≤ f) →
    TInv (unionTicks (f + 1) T its) ∧
    ∀ k w, holds (unionTicks (f + 1) T its) k w ↔ (holds t₀ k w ∨ inOthers others k w) := by
  intro f
  induction f with
  | zero =>
    intro T its h hb
    have A := tick_outer ho h
    have hr : ∀ it' ∈ (tickAll (its.length + 1) 0 T its).2, it'.rest = [] := by
      intro it' hm
      rcases A.2.2 it' hm with ⟨it, hit, he⟩
      have := hb it hit
      rw [he]; exact List.length_eq_zero_iff.mp (by omega)
    have hres : unionTicks (0 + 1) T its = (tickAll (its.length + 1) 0 T its).1 := by
      unfold unionTicks
      simp only []
      split
      · rfl
      · rfl
    rw [hres]
    exact ⟨A.1.inv, outer_final A.1 A.2.1 hr⟩
  | succ f ih =>
    intro T its h hb
    have A := tick_outer ho h
    unfold unionTicks
    simp only []
    by_cases hnx : (itersNext (tickAll (its.length + 1) 0 T its).2).2 = true
    · rw [if_pos hnx]
      apply ih _ _ (next_outer A.1 A.2.1)
      apply next_rest
      intro it' hm
      rcases A.2.2 it' hm with ⟨it, hit, he⟩
      rw [he]; exact hb it hit
    · rw [if_neg hnx]
      exact ⟨A.1.inv, outer_final A.1 A.2.1 (itersNext_false (by simpa using hnx))⟩

/-! ### from the loop to the statement about `Bitmap.values` -/

theorem holds_iff_get (T : Bitmap) (k w : Nat) : holds T k w ↔ ∃ c, T.get k = some c ∧ w ∈ c.values := by
  unfold holds
  cases T.get k with
  | none => simp [valuesO]
  | some c => simp [valuesO]

theorem Bitmap.mem_values_holds {b : Bitmap} (h : b.WF) (v : Nat) :
    v ∈ b.values ↔ holds b (highbits v) (lowbits v) := by
  rw [Bitmap.mem_values h, holds_iff_get]
  constructor
  · rintro ⟨⟨k, c⟩, he, h1, h2⟩
    simp only [] at h1 h2
    subst h1
    exact ⟨c, (Bitmap.get_eq h _ _).mpr he, h2⟩
  · rintro ⟨c, hg, hw⟩
    exact ⟨(highbits v, c), (Bitmap.get_eq h _ _).mp hg, rfl, hw⟩

theorem inOthers_iff {others : List Bitmap} (ho : ∀ o ∈ others, o.WF) (v : Nat) :
    inOthers others (highbits v) (lowbits v) ↔ ∃ o ∈ others, v ∈ o.values := by
  unfold inOthers
  constructor
  · rintro ⟨o, hom, c, hm, hw⟩
    exact ⟨o, hom, (Bitmap.mem_values (ho o hom) v).mpr ⟨(highbits v, c), hm, rfl, hw⟩⟩
  · rintro ⟨o, hom, hv⟩
    rcases (Bitmap.mem_values (ho o hom) v).mp hv with ⟨⟨k, c⟩, he, h1, h2⟩
    simp only [] at h1 h2
    subst h1
    exact ⟨o, hom, c, he, h2⟩

/-- `Containers.Repair()` on the target. -/
def repairAll (T : Bitmap) : Bitmap := ⟨T.btree, T.cs.map (fun e => (e.1, e.2.map Container.repair))⟩

theorem repairAll_get (T : Bitmap) (k : Nat) : (repairAll T).get k = (T.get k).map Container.repair := by
  unfold repairAll Bitmap.get
  simp only []
  rw [List.find?_map]
  have : ((fun e : Entry => decide (e.1 = k)) ∘ fun e : Entry => (e.1, e.2.map Container.repair)) =
      fun e : Entry => decide (e.1 = k) := by
    funext e; rfl
  rw [this]
  cases T.cs.find? (fun e => decide (e.1 = k)) with
  | none => rfl
  | some e => rfl

theorem repairAll_holds {T : Bitmap} (hT : TInv T) (k w : Nat) : holds (repairAll T) k w ↔ holds T k w := by
  unfold holds
  rw [repairAll_get]
  cases hg : T.get k with
  | none => rfl
  | some c =>
    show w ∈ c.repair.values ↔ w ∈ c.values
    rw [(Container.repair_spec (hT.get hg)).2]

theorem repairAll_wf {T : Bitmap} (hT : TInv T) : (repairAll T).WF := by
  unfold repairAll
  refine ⟨?_, ?_, ?_⟩
  · apply keysAsc_of_sorted
    · simp only [List.map_map]
      have : ((fun e : Entry => e.1) ∘ fun e : Entry => (e.1, e.2.map Container.repair)) = fun e : Entry => e.1 := by
        funext e; rfl
      rw [this]
      exact keysAsc_sorted hT.1
    · intro e he
      rcases List.mem_map.mp he with ⟨e0, he0, rfl⟩
      exact KeysAsc.le_max hT.1 e0 he0
  · intro e he
    rcases List.mem_map.mp he with ⟨e0, he0, rfl⟩
    have := hT.2.1 e0 he0
    rcases e0 with ⟨k, oc⟩
    cases oc with
    | none => trivial
    | some c => exact (Container.repair_spec this).1
  · intro hb e he
    rcases List.mem_map.mp he with ⟨e0, he0, rfl⟩
    have := hT.2.2 hb e0 he0
    rcases e0 with ⟨k, oc⟩
    cases oc with
    | none => exact absurd rfl this
    | some c => simp

theorem le_foldl_max : ∀ (l : List Nat) (a : Nat), a ≤ l.foldl Nat.max a ∧ ∀ x ∈ l, x ≤ l.foldl Nat.max a := by
  intro l
  induction l with
  | nil => intro a; exact ⟨Nat.le_refl _, fun x hx => by cases hx⟩
  | cons y t ih =>
    intro a
    rw [List.foldl_cons]
    have := ih (Nat.max a y)
    refine ⟨Nat.le_trans (Nat.le_max_left a y) this.1, fun x hx => ?_⟩
    rcases List.mem_cons.mp hx with rfl | hx
    · exact Nat.le_trans (Nat.le_max_right a x) this.1
    · exact this.2 x hx

def startIt (o : Bitmap) : Option HIter :=
  match o.live with
  | [] => none
  | x :: r => some { cur := x, rest := r, hasNext := true, handled := false }

theorem Bitmap.unionInPlace_eq (t : Bitmap) (others : List Bitmap) :
    t.unionInPlace others =
      repairAll (unionTicks ((others.map (fun o => o.cs.length)).foldl Nat.max 0 + 1) t (others.filterMap startIt)) := rfl

theorem outer_start {t : Bitmap} (others : List Bitmap) (ht : t.WF) :
    Outer t others t (others.filterMap startIt) ∧
    ∀ it ∈ others.filterMap startIt, it.rest.length ≤ (others.map (fun o => o.cs.length)).foldl Nat.max 0 := by
  have key : ∀ it ∈ others.filterMap startIt, ∃ o ∈ others, o.live = it.cur :: it.rest ∧
      it.hasNext = true ∧ it.handled = false := by
    intro it hm
    rcases List.mem_filterMap.mp hm with ⟨o, hom, he⟩
    refine ⟨o, hom, ?_⟩
    unfold startIt at he
    cases hl : o.live with
    | nil => rw [hl] at he; cases he
    | cons x r =>
      rw [hl] at he
      simp only [Option.some.injEq] at he
      subst he
      exact ⟨rfl, rfl, rfl⟩
  refine ⟨⟨TInv.of_wf ht, fun _ _ h => Or.inl h, fun _ _ h => h, ?_, ?_, ?_⟩, ?_⟩
  · intro it hm
    rcases key it hm with ⟨o, hom, hl, _⟩
    exact ⟨o, hom, [], hl⟩
  · intro o hom
    cases hl : o.live with
    | nil => exact Or.inl rfl
    | cons x r =>
      refine Or.inr ⟨{ cur := x, rest := r, hasNext := true, handled := false }, ?_, [], rfl, fun e he => by cases he⟩
      apply List.mem_filterMap.mpr
      refine ⟨o, hom, ?_⟩
      unfold startIt; rw [hl]
  · intro it hm hc
    rcases key it hm with ⟨o, hom, _, h1, h2⟩
    rw [h1, h2] at hc
    simp at hc
  · intro it hm
    rcases key it hm with ⟨o, hom, hl, _⟩
    have h1 := liveL_length_le o.cs
    have h2 : o.live.length = it.rest.length + 1 := by rw [hl]; simp
    have h3 := (le_foldl_max (others.map (fun o => o.cs.length)) 0).2 o.cs.length
      (List.mem_map.mpr ⟨o, hom, rfl⟩)
    unfold Bitmap.live at h2
    omega

/-- `Bitmap.unionInPlace(others...)` (with the final `Repair`) computes the union of the target and
all the others, for any number of others. -/
theorem Bitmap.unionInPlace_spec {t : Bitmap} (others : List Bitmap) (ht : t.WF) (ho : ∀ o ∈ others, o.WF) :
    (t.unionInPlace others).WF ∧
    ∀ v, v ∈ (t.unionInPlace others).values ↔ (v ∈ t.values ∨ ∃ o ∈ others, v ∈ o.values) := by
  rw [Bitmap.unionInPlace_eq]
  have S := outer_start others ht
  have U := unionTicks_spec ho _ t _ S.1 S.2
  have hwf := repairAll_wf U.1
  refine ⟨hwf, fun v => ?_⟩
  rw [Bitmap.mem_values_holds hwf, repairAll_holds U.1, U.2, Bitmap.mem_values_holds ht, inOthers_iff ho]

theorem union_kernelOK : KernelOK (fun x y => some (PV.C01.union x y)) (fun p q => p || q) := by
  apply kernelOK_of_values
  intro x y hx hy
  have S := PV.C01.union_spec hx hy
  refine ⟨S.1, fun v => ?_⟩
  show v ∈ (PV.C01.union x y).values ↔ _
  rw [S.2 v]; simp

/-- `Bitmap.Union(others...)`, any number of arguments -/
theorem Bitmap.union_spec {b : Bitmap} (others : List Bitmap) (hb : b.WF) (ho : ∀ o ∈ others, o.WF) :
    (b.union others).WF ∧
    ∀ v, v ∈ (b.union others).values ↔ (v ∈ b.values ∨ ∃ o ∈ others, v ∈ o.values) := by
  have gen : ∀ os : List Bitmap, (∀ o ∈ os, o.WF) →
      ((Bitmap.mk b.btree b.cs).unionInPlace os).WF ∧
      ∀ v, v ∈ ((Bitmap.mk b.btree b.cs).unionInPlace os).values ↔ (v ∈ b.values ∨ ∃ o ∈ os, v ∈ o.values) :=
    fun os h => Bitmap.unionInPlace_spec (t := b) os hb h
  cases others with
  | nil => exact gen [] ho
  | cons o rest =>
    cases rest with
    | nil =>
      show (b.union1 o).WF ∧ ∀ v, v ∈ (b.union1 o).values ↔ _
      have S := Bitmap.union1_spec union_kernelOK hb (ho o (by simp))
      refine ⟨S.1, fun v => ?_⟩
      rw [S.2 v]; simp
    | cons o2 rest2 => exact gen (o :: o2 :: rest2) ho

end PV.C01
