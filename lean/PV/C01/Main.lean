/-
pm_c01: model driver for C01.

A value list is written as comma separated items `v` or `s-l` (closed range), `-` when empty.
A container `<C>` is `<enc>:<items>` with enc `a` (array), `b` (bitmap), `r` (run); for `r` the
items are exactly the intervals of the run container, for `a`/`b` they are expanded to values.

Kernel lines (stateless; first token `k`):
  k cr <C> <s> <e>           Container.countRange                  -> <n>
  k ic <C> <C>               intersectionCount                     -> <n>
  k and|or|andnot|xor <C> <C>  intersect/union/difference/xor     -> <items> n=<N()>
  k shift <C>                shift                                 -> <items> n=<N()> carry=<bool>
  k flip <C>                 flip                                  -> <items> n=<N()>
  k max <C>                  Container.max                         -> <v>
  k runs <C>                 Container.countRuns                   -> <n>
  k opt <C>                  Container.optimize                    -> <items> n=<N()>
  k conv <name> <C>          one of the six conversions            -> <items> n=<N()>
  k has <C> <v>              Container.Contains                    -> true|false
Bitmap lines (registers are arbitrary tokens; state is reset by `case`):
  new <r> <s|t> <items>      NewBitmap / NewBTreeBitmap(values...) -> c=<Count()>
  mk <r> <s|t> <key>=<C|nil>;...   Containers.Put for every entry   -> c=<Count()>
  addv <r> <items>           Add(v) for every value in the LISTED order (items need not ascend)  -> c=<Count()>
  rm <r> <items>             Remove(v) for every listed value (a container left empty becomes nil
                             in a slice collection and is deleted from a B-tree)                 -> c=<Count()>
  opt <r>                    Optimize                              -> c=<Count()>
  rt <dst> <r> <s|t>         dst := decode(encode(NewBitmap(r.Slice()...)))  -> c=<Count()>
  has <r> <v> | count <r> | cr <r> <s> <e> | min <r> | max <r> | slice <r> | sr <r> <s> <e>
  seek <r> <k> <n>           Seek(k), n times Next                 -> <items> eof|more
  offr <dst> <r> <off> <s> <e>                                     -> <items> c=<Count()>
  and|andnot|xor|shift <dst> <a> [<b>]    or <dst> <a> <b>...   orin <a> <b>...   flip <dst> <a> <s> <e>
  ic <a> <b>
Every answer carries the set specification (Spec.*) evaluated on the denoted sets as `#spec`.
-/
import PV.Common.Proto
import PV.C01.Model
import PV.C01.Bitmap
import PV.C01.Spec
import PV.C01.Words2
open PV.Proto PV.C01

def parseItem (s : String) : Option (Nat × Nat) :=
  match s.splitOn "-" with
  | [v] => do let x ← v.toNat?; pure (x, x)
  | [a, b] => do let x ← a.toNat?; let y ← b.toNat?; pure (x, y)
  | _ => none

def parseItems (s : String) : Option (List (Nat × Nat)) :=
  if s = "-" || s = "" then some [] else (s.splitOn ",").mapM parseItem

def expand (ps : List (Nat × Nat)) : List Nat := ps.flatMap (fun p => Spec.rangeIncl p.1 p.2)

/-- maximal runs of an ascending list, for printing. -/
def compressGo : Nat → Nat → List Nat → List (Nat × Nat)
  | s, p, [] => [(s, p)]
  | s, p, v :: rest => if v = p + 1 then compressGo s v rest else (s, p) :: compressGo v v rest

def compress : List Nat → List (Nat × Nat)
  | [] => []
  | v :: rest => compressGo v v rest

def showItems (vs : List Nat) : String :=
  match compress vs with
  | [] => "-"
  | ps => ",".intercalate (ps.map (fun p => if p.1 = p.2 then toString p.1 else s!"{p.1}-{p.2}"))

def parseContainer (s : String) : Option Container :=
  match s.splitOn ":" with
  | [enc, items] => do
    let ps ← parseItems items
    match enc with
    | "a" => pure (.array (expand ps))
    | "b" => let vs := expand ps; pure (.bitmap vs.length vs)
    | "r" => let ivs := ps.map (fun p => Iv.mk p.1 p.2); pure (.run (runsCard ivs) ivs)
    | _ => none
  | _ => none

def showC (c : Option Container) : String := s!"{showItems (valuesO c)} n={N c}"
def showSet (vs : List Nat) : String := s!"{showItems vs} n={vs.length}"
def showB (b : Bitmap) : String := s!"{showItems b.slice} c={b.count}"
def showSetB (vs : List Nat) : String := s!"{showItems vs} c={vs.length}"

structure Reg where
  name : String
  model : Bitmap
  spec : List Nat

abbrev St := List Reg

def St.get (st : St) (r : String) : Option Reg := st.find? (·.name = r)
def St.set (st : St) (r : String) (m : Bitmap) (s : List Nat) : St :=
  ⟨r, m, s⟩ :: st.filter (·.name ≠ r)

def parseEntry (s : String) : Option (Nat × Option Container) :=
  match s.splitOn "=" with
  | [k, c] => do
    let key ← k.toNat?
    if c = "nil" then pure (key, none) else do let cc ← parseContainer c; pure (key, some cc)
  | _ => none

/-! Word level of the bitmap encoding (Words.lean): where a kernel line reaches `bitmapCountRange`,
`bitmapSetRange`, `bitmapZeroRange`, `bitmapXorRange` or `flipBitmap`, the driver runs the word-level
model (1024 words, Go mask/shift/popcount arithmetic) and prints its abstraction. -/

def countRangeW (c : Container) (s e : Nat) : Nat :=
  match c with
  | .bitmap _ bits => wCountRange (wordsOf bits) s e
  | c => c.countRange s e

def ofWords (r : Nat × List Nat) : Container := .bitmap r.1 (absW r.2)

/-- `intersectBitmapRun` on words: the array branch tests every run value with `bitmapContains`,
the bitmap branch is `wIntersectRuns`. -/
def intersectBitmapRunW (an : Nat) (abits : List Nat) (bn : Nat) (rb : List Iv) : Container :=
  let ws := wordsOf abits
  if bn ≤ arrayMaxSize ∨ an ≤ arrayMaxSize then .array ((runValues rb).filter (fun v => wContains ws v))
  else ofWords (wIntersectRuns ws rb)

def intersectW (a b : Container) : Option Container :=
  if a.n = 65536 ∨ b.n = 65536 ∨ a.n = 0 ∨ b.n = 0 then intersect a b
  else match a, b with
    | .bitmap _ ba, .bitmap _ bb => some (ofWords (wAndN (wordsOf ba) (wordsOf bb)))
    | .bitmap na ba, .run nb rb => some (intersectBitmapRunW na ba nb rb)
    | .run na ra, .bitmap nb bb => some (intersectBitmapRunW nb bb na ra)
    | .array xa, .bitmap _ bb => some (.array (wIntersectArray (wordsOf bb) xa))
    | .bitmap _ ba, .array xb => some (.array (wIntersectArray (wordsOf ba) xb))
    | a, b => intersect a b

def unionW (a b : Container) : Container :=
  if a.n = 65536 ∨ b.n = 65536 then union a b
  else match a, b with
    | .bitmap _ ba, .bitmap _ bb => ofWords (wOrN (wordsOf ba) (wordsOf bb))
    | .array xa, .bitmap nb bb => ofWords (wUnionArray nb (wordsOf bb) xa)
    | .bitmap na ba, .array xb => ofWords (wUnionArray na (wordsOf ba) xb)
    | .bitmap na ba, .run _ rb => ofWords (wUnionRunsN na (wordsOf ba) rb)
    | .run _ ra, .bitmap nb bb => ofWords (wUnionRunsN nb (wordsOf bb) ra)
    | a, b => union a b

def differenceW (a b : Container) : Option Container :=
  if a.n = 0 ∨ b.n = 65536 ∨ b.n = 0 then difference a b
  else match a, b with
    | .bitmap na ba, .run _ rb => some (ofWords (wDiffRunsN na (wordsOf ba) rb))
    | .bitmap na ba, .array xb =>
      let r := wDiffArray na (wordsOf ba) xb
      some (if r.1 < arrayMaxSize then bitmapToArray r.1 (absW r.2) else ofWords r)
    | .array xa, .bitmap _ bb => some (.array (wDifferenceArray (wordsOf bb) xa))
    | .bitmap _ ba, .bitmap _ bb =>
      let r := wAndNotN (wordsOf ba) (wordsOf bb)
      some (if r.1 < arrayMaxSize then bitmapToArray r.1 (absW r.2) else ofWords r)
    | a, b => difference a b

def xorW (a b : Container) : Option Container :=
  if a.n = 0 ∨ b.n = 0 then xor a b
  else match a, b with
    | .bitmap na ba, .run _ rb => some (ofWords (wXorRunsN na (wordsOf ba) rb))
    | .run _ ra, .bitmap nb bb => some (ofWords (wXorRunsN nb (wordsOf bb) ra))
    | .bitmap _ ba, .bitmap _ bb =>
      let r := wXorN (wordsOf ba) (wordsOf bb)
      some (if r.1 < arrayMaxSize then bitmapToArray r.1 (absW r.2) else ofWords r)
    | a, b => xor a b

def flipW (c : Container) : Container := ofWords (wFlipN (wordsOf c.values))

def intersectionCountW (a b : Container) : Nat :=
  if a.n = 65536 ∨ b.n = 65536 ∨ a.n = 0 ∨ b.n = 0 then intersectionCount a b
  else match a, b with
    | .bitmap _ ba, .run _ rb => wIntersectionCountRuns (wordsOf ba) rb
    | .run _ ra, .bitmap _ bb => wIntersectionCountRuns (wordsOf bb) ra
    | .array xa, .bitmap _ bb => wIntersectionCountArray (wordsOf bb) xa
    | .bitmap _ ba, .array xb => wIntersectionCountArray (wordsOf ba) xb
    | a, b => intersectionCount a b

def kernel (ws : List String) : Ans :=
  let bad := ans "bad-op"
  match ws with
  | ["cr", c, s, e] =>
    match parseContainer c, s.toNat?, e.toNat? with
    | some c, some s, some e =>
      ans2 (toString (countRangeW c s e)) (toString (Spec.cntList c.values s e)) "k-countRange"
    | _, _, _ => bad
  | ["ic", a, b] =>
    match parseContainer a, parseContainer b with
    | some a, some b =>
      ans2 (toString (intersectionCountW a b)) (toString (Spec.inter a.values b.values).length) "k-intersectionCount"
    | _, _ => bad
  | ["conv", name, c] =>
    match parseContainer c with
    | some c =>
      let r : Option Container := match name, c with
        | "arrayToBitmap", .array xs => some (arrayToBitmap xs)
        | "arrayToRun", .array xs => some (if xs.length = 0 then .run 0 [] else arrayToRun xs)
        | "bitmapToArray", .bitmap n bits => some (bitmapToArray n bits)
        | "bitmapToRun", .bitmap n bits => some (bitmapToRun n bits)
        | "runToArray", .run n ivs => some (runToArray n ivs)
        | "runToBitmap", .run n ivs => some (runToBitmap n ivs)
        | _, _ => none
      match r with
      | some r => ans2 (showC (some r)) (showSet c.values) "k-conv"
      | none => bad
    | none => bad
  | ["has", c, v] =>
    match parseContainer c, v.toNat? with
    | some c, some v =>
      let m := match c with
        | .bitmap _ bits => wContains (wordsOf bits) v
        | c => c.contains v
      ans2 (showBool m) (showBool (c.values.contains v)) "k-contains"
    | _, _ => bad
  | [op, a, b] =>
    match parseContainer a, parseContainer b with
    | some a, some b =>
      match op with
      | "and" => ans2 (showC (intersectW a b)) (showSet (Spec.inter a.values b.values)) "k-intersect"
      | "or" => ans2 (showC (some (unionW a b))) (showSet (Spec.union a.values b.values)) "k-union"
      | "andnot" => ans2 (showC (differenceW a b)) (showSet (Spec.diff a.values b.values)) "k-difference"
      | "xor" => ans2 (showC (xorW a b)) (showSet (Spec.xor a.values b.values)) "k-xor"
      | _ => bad
    | _, _ => bad
  | [op, c] =>
    match parseContainer c with
    | some c =>
      match op with
      | "shift" =>
        let r : Option Container × Bool := match c with
          | .bitmap n bits =>
            if n = 0 then shift c
            else let w := wShift n (wordsOf bits); (some (.bitmap w.1 (absW w.2.1)), w.2.2)
          | c => shift c
        let sv := Spec.shift 65536 c.values
        ans2 s!"{showC r.1} carry={showBool r.2}" s!"{showSet sv} carry={showBool (c.values.contains 65535)}" "k-shift"
      | "flip" => ans2 (showC (some (flipW c))) (showSet (Spec.compl16 c.values)) "k-flip"
      | "max" => ans2 (toString (maxO (some c))) (toString (Spec.max c.values)) "k-max"
      | "runs" => ans (toString c.countRuns)
      | "opt" => ans2 (showC c.optimize) (showSet c.values) "k-optimize"
      | _ => bad
    | none => bad
  | _ => bad

/-- `Container.remove` at value level (write path of C02; used here only to shape collections). -/
def removeC (c : Container) (v : Nat) : Option Container :=
  match c with
  | .array xs => if xs.length = 1 then none else some (.array (xs.filter (· ≠ v)))
  | .bitmap n bits =>
    if n = 1 then none
    else if n - 1 = arrayMaxSize then some (bitmapToArray (n - 1) (bits.filter (· ≠ v)))
    else some (.bitmap (n - 1) (bits.filter (· ≠ v)))
  | .run n ivs => if n = 1 then none else some (.run (n - 1) (arrayToRunIvs ((runValues ivs).filter (· ≠ v))))

/-- `Bitmap.remove(v)`: nothing happens when the value is absent. -/
def removeV (b : Bitmap) (v : Nat) : Bitmap :=
  match b.get (highbits v) with
  | none => b
  | some c => if c.contains (lowbits v) then b.put (highbits v) (removeC c (lowbits v)) else b

/-- `Bitmap.DirectAdd(v)`. -/
def addV (b : Bitmap) (v : Nat) : Bitmap :=
  b.put (highbits v) (some (add (b.get (highbits v)) (lowbits v)))

def kindOf (s : String) : Option Bool :=
  if s = "s" then some false else if s = "t" then some true else none

def step (st : St) (ws : List String) : St × Ans :=
  let bad := (st, ans "bad-op")
  match ws with
  | "k" :: rest => (st, kernel rest)
  | ["new", r, kind, items] =>
    match kindOf kind, parseItems items with
    | some bt, some ps =>
      let vs := expand ps
      let m := Bitmap.ofValues bt vs
      (st.set r m vs, ans2 s!"c={m.count}" s!"c={vs.length}" "new")
    | _, _ => bad
  | ["mk", r, kind, entries] =>
    match kindOf kind, (if entries = "-" then some [] else (entries.splitOn ";").mapM parseEntry) with
    | some bt, some es =>
      let m := es.foldl (fun (b : Bitmap) e => b.put e.1 e.2) ⟨bt, []⟩
      let sv := m.values
      (st.set r m sv, ans2 s!"c={m.count}" s!"c={sv.length}" "mk")
    | _, _ => bad
  | ["addv", r, items] =>
    match st.get r, parseItems items with
    | some x, some ps =>
      let vs := expand ps
      let m := vs.foldl addV x.model
      let sv := vs.foldl (fun acc v => insertSorted v acc) x.spec
      (st.set r m sv, ans2 s!"c={m.count}" s!"c={sv.length}" "add")
    | _, _ => bad
  | ["rm", r, items] =>
    match st.get r, parseItems items with
    | some x, some ps =>
      let vs := expand ps
      let m := vs.foldl removeV x.model
      let sv := x.spec.filter (fun y => !vs.contains y)
      (st.set r m sv, ans2 s!"c={m.count}" s!"c={sv.length}" "remove")
    | _, _ => bad
  | ["opt", r] =>
    match st.get r with
    | some x => let m := x.model.optimize; (st.set r m x.spec, ans2 s!"c={m.count}" s!"c={x.spec.length}" "optimize")
    | none => bad
  | ["rt", dst, r, kind] =>
    match st.get r, kindOf kind with
    | some x, some bt =>
      let m := (Bitmap.ofValues false x.model.slice).optimize
      let m := Bitmap.mk bt (m.cs.filter (fun e => e.2.isSome))
      (st.set dst m x.spec, ans2 s!"c={m.count}" s!"c={x.spec.length}" "roundtrip")
    | _, _ => bad
  | ["has", r, v] =>
    match st.get r, v.toNat? with
    | some x, some v => (st, ans2 (showBool (x.model.contains v)) (showBool (x.spec.contains v)) "contains")
    | _, _ => bad
  | ["count", r] =>
    match st.get r with
    | some x => (st, ans2 (toString x.model.count) (toString x.spec.length) "count")
    | none => bad
  | ["cr", r, s, e] =>
    match st.get r, s.toNat?, e.toNat? with
    | some x, some s, some e =>
      (st, ans2 (toString (x.model.countRange s e)) (toString (Spec.cntList x.spec s e)) "countRange")
    | _, _, _ => bad
  | ["min", r] =>
    match st.get r with
    | some x =>
      let m := x.model.min
      let sp := match Spec.min? x.spec with | some v => s!"{v} true" | none => "0 false"
      (st, ans2 s!"{m.1} {showBool m.2}" sp "min")
    | none => bad
  | ["max", r] =>
    match st.get r with
    | some x => (st, ans2 (toString x.model.max) (toString (Spec.max x.spec)) "max")
    | none => bad
  | ["slice", r] =>
    match st.get r with
    | some x => (st, ans2 (showItems x.model.slice) (showItems x.spec) "slice")
    | none => bad
  | ["sr", r, s, e] =>
    match st.get r, s.toNat?, e.toNat? with
    | some x, some s, some e =>
      (st, ans2 (showItems (x.model.sliceRange s e)) (showItems (Spec.sliceRange x.spec s e)) "sliceRange")
    | _, _, _ => bad
  | ["seek", r, k, n] =>
    match st.get r, k.toNat?, n.toNat? with
    | some x, some k, some n =>
      let t := Iter.take n (x.model.seek k)
      let sv := Spec.seek x.spec k
      let ms := s!"{showItems t.1} {if t.2 then "eof" else "more"}"
      let ss := s!"{showItems (sv.take n)} {if sv.length < n then "eof" else "more"}"
      (st, ans2 ms ss "seek")
    | _, _, _ => bad
  | ["offr", dst, r, off, s, e] =>
    match st.get r, off.toNat?, s.toNat?, e.toNat? with
    | some x, some off, some s, some e =>
      match x.model.offsetRange off s e with
      | some m =>
        let sv := Spec.offsetRange x.spec off s e
        (st.set dst m sv, ans2 (showB m) (showSetB sv) "offsetRange")
      | none => (st, ans "panic:offsetRange")
    | _, _, _, _ => bad
  | ["ic", a, b] =>
    match st.get a, st.get b with
    | some x, some y =>
      (st, ans2 (toString (x.model.intersectionCount y.model)) (toString (Spec.inter x.spec y.spec).length) "intersectionCount")
    | _, _ => bad
  | ["shift", dst, a] =>
    match st.get a with
    | some x =>
      let m := x.model.shift
      let sv := Spec.shift (2 ^ 64) x.spec
      (st.set dst m sv, ans2 (showB m) (showSetB sv) "shift")
    | none => bad
  | ["flip", dst, a, s, e] =>
    match st.get a, s.toNat?, e.toNat? with
    | some x, some s, some e =>
      if e = 2 ^ 64 - 1 ∨ s > e ∨ e - s > 200000 then bad else
      let m := x.model.flip s e
      let sv := Spec.flip x.spec s e
      (st.set dst m sv, ans2 (showB m) (showSetB sv) "flip")
    | _, _, _ => bad
  | "or" :: dst :: a :: others =>
    match st.get a, others.mapM st.get with
    | some x, some os =>
      let m := x.model.union (os.map (·.model))
      let sv := Spec.unionAll (x.spec :: os.map (·.spec))
      (st.set dst m sv, ans2 (showB m) (showSetB sv) "union")
    | _, _ => bad
  | "orin" :: a :: others =>
    match st.get a, others.mapM st.get with
    | some x, some os =>
      if others.contains a then bad else
      let m := x.model.unionInPlace (os.map (·.model))
      let sv := Spec.unionAll (x.spec :: os.map (·.spec))
      (st.set a m sv, ans2 (showB m) (showSetB sv) "unionInPlace")
    | _, _ => bad
  | [op, dst, a, b] =>
    match st.get a, st.get b with
    | some x, some y =>
      match op with
      | "and" =>
        let m := x.model.intersect y.model
        let sv := Spec.inter x.spec y.spec
        (st.set dst m sv, ans2 (showB m) (showSetB sv) "intersect")
      | "andnot" =>
        let m := x.model.difference y.model
        let sv := Spec.diff x.spec y.spec
        (st.set dst m sv, ans2 (showB m) (showSetB sv) "difference")
      | "xor" =>
        let m := x.model.xor y.model
        let sv := Spec.xor x.spec y.spec
        (st.set dst m sv, ans2 (showB m) (showSetB sv) "xor")
      | _ => bad
    | _, _ => bad
  | _ => bad

def main : IO Unit := run ([] : St) step
