/-
C01 helper lemmas, part 6: the value iterator of a bitmap (`Bitmap.seek`, `Iter.next`, `Iter.take`,
`Iter.takeBelow`) enumerates, in ascending order, exactly the values of `b.values` that are
`≥` the seek key, then reports eof.  Consequences: `Bitmap.slice`, `Bitmap.sliceRange`,
`Bitmap.min`.  Core Lean only.
-/
import PV.C01.LemmasL2
namespace PV.C01
open Spec

/-! ### list helpers -/

theorem filter_ge_self {l : List Nat} {lb : Nat} (h : ∀ x ∈ l, lb ≤ x) :
    l.filter (fun v => decide (lb ≤ v)) = l := by
  rw [List.filter_eq_self]
  intro x hx
  simpa using h x hx

theorem filter_ge_nil {l : List Nat} {lb : Nat} (h : ∀ x ∈ l, x < lb) :
    l.filter (fun v => decide (lb ≤ v)) = [] := by
  rw [List.filter_eq_nil_iff]
  intro x hx
  have := h x hx
  simp; omega

theorem dropWhile_lt_eq_filter {xs : List Nat} (h : Sorted xs) (lb : Nat) :
    xs.dropWhile (fun x => decide (x < lb)) = xs.filter (fun v => decide (lb ≤ v)) := by
  induction xs with
  | nil => rfl
  | cons a t ih =>
    rw [List.dropWhile_cons, List.filter_cons]
    by_cases h1 : a < lb
    · have h2 : decide (a < lb) = true := by simp [h1]
      have h3 : ¬ (decide (lb ≤ a) = true) := by simp; omega
      rw [if_pos h2, if_neg h3]
      exact ih (sorted_tail h)
    · have h2 : ¬ (decide (a < lb) = true) := by simp [h1]
      have h3 : decide (lb ≤ a) = true := by simp; omega
      rw [if_neg h2, if_pos h3]
      rw [filter_ge_self]
      intro x hx
      have := sorted_lt h x hx
      omega

theorem takeWhile_filter_sorted {xs : List Nat} (h : Sorted xs) (s e : Nat) :
    (xs.filter (fun v => decide (s ≤ v))).takeWhile (fun v => decide (v < e))
      = xs.filter (fun v => decide (s ≤ v) && decide (v < e)) := by
  induction xs with
  | nil => rfl
  | cons a t ih =>
    have iht := ih (sorted_tail h)
    rw [List.filter_cons, List.filter_cons]
    by_cases h1 : s ≤ a
    · have h2 : decide (s ≤ a) = true := by simp [h1]
      rw [if_pos h2, List.takeWhile_cons]
      by_cases h3 : a < e
      · have h4 : decide (a < e) = true := by simp [h3]
        have h5 : (decide (s ≤ a) && decide (a < e)) = true := by simp [h1, h3]
        rw [if_pos h4, if_pos h5, iht]
      · have h4 : ¬ (decide (a < e) = true) := by simp [h3]
        have h5 : ¬ ((decide (s ≤ a) && decide (a < e)) = true) := by simp [h3]
        rw [if_neg h4, if_neg h5]
        symm
        rw [List.filter_eq_nil_iff]
        intro x hx
        have := sorted_lt h x hx
        simp; omega
    · have h2 : ¬ (decide (s ≤ a) = true) := by simp [h1]
      have h5 : ¬ ((decide (s ≤ a) && decide (a < e)) = true) := by simp [h1]
      rw [if_neg h2, if_neg h5, iht]

theorem rangeIncl_cons {s l : Nat} (h : s ≤ l) : rangeIncl s l = s :: rangeIncl (s + 1) l := by
  unfold rangeIncl
  have : l + 1 - s = (l + 1 - (s + 1)) + 1 := by omega
  rw [this, List.range'_succ]

theorem rangeIncl_nil {s l : Nat} (h : l < s) : rangeIncl s l = [] := by
  unfold rangeIncl
  have : l + 1 - s = 0 := by omega
  rw [this]; rfl

theorem rangeIncl_filter_ge {s l lb : Nat} (h1 : s ≤ lb) :
    (rangeIncl s l).filter (fun v => decide (lb ≤ v)) = rangeIncl lb l := by
  have hs1 : Sorted (rangeIncl s l) := sorted_range' _ _
  have hs2 : Sorted (rangeIncl lb l) := sorted_range' _ _
  apply sorted_ext (sorted_filter _ hs1) hs2
  intro v
  rw [List.mem_filter, mem_rangeIncl, mem_rangeIncl]
  simp; omega

/-! ### what an iterator still has to produce -/

/-- the values of the current container that are still to be produced. -/
def Cursor.remaining (key : Nat) : Cursor → List Nat
  | .arr rest => rest.map (fun v => key * 65536 + v)
  | .bmp rest => rest.map (fun v => key * 65536 + v)
  | .run [] _ => []
  | .run (r :: runs') k =>
    (rangeIncl (r.start + (k + 1).toNat) r.last ++ runValues runs').map (fun v => key * 65536 + v)

def Iter.remaining (it : Iter) : List Nat :=
  (match it.cur with
    | none => []
    | some (key, cur) => cur.remaining key) ++ valuesL it.rest

/-- cursor invariant: a run cursor has offset `≥ -1` and only valid runs. -/
def Cursor.OK : Cursor → Prop
  | .arr _ => True
  | .bmp _ => True
  | .run runs k => -1 ≤ k ∧ ∀ iv ∈ runs, iv.start ≤ iv.last

/-- iterator invariant: a nil current container means eof (nothing left). -/
def Iter.OK (it : Iter) : Prop :=
  (match it.cur with
    | none => it.rest = []
    | some (_, cur) => cur.OK) ∧ ∀ e ∈ it.rest, e.2.WF

theorem startCursor_remaining (key : Nat) (c : Container) :
    (startCursor c).remaining key = valuesOf key c := by
  cases c with
  | array xs => rfl
  | bitmap n bits => rfl
  | run n ivs =>
    cases ivs with
    | nil => rfl
    | cons r rs =>
      simp only [startCursor, Cursor.remaining, valuesOf, Container.values, runValues]
      have : (-1 + 1 : Int).toNat = 0 := rfl
      rw [this, Nat.add_zero]

theorem startCursor_ok {c : Container} (h : c.WF) : (startCursor c).OK := by
  cases c with
  | array xs => trivial
  | bitmap n bits => trivial
  | run n ivs =>
    exact ⟨Int.le_refl _, fun iv hiv => (RunsWF.valid h.1 iv hiv).1⟩

theorem advance_remaining (rest : List (Nat × Container)) :
    (Iter.advance rest).remaining = valuesL rest := by
  cases rest with
  | nil => rfl
  | cons e r =>
    rcases e with ⟨k, c⟩
    simp only [Iter.advance, Iter.remaining, startCursor_remaining, valuesL_cons]

theorem advance_ok {rest : List (Nat × Container)} (h : ∀ e ∈ rest, e.2.WF) :
    (Iter.advance rest).OK := by
  cases rest with
  | nil => exact ⟨rfl, h⟩
  | cons e r =>
    rcases e with ⟨k, c⟩
    exact ⟨startCursor_ok (h (k, c) (by simp)), fun x hx => h x (List.mem_cons_of_mem _ hx)⟩

/-- what `Next` returns for an iterator whose remaining values are `rem`. -/
def NextSpec (rem : List Nat) (res : Option Nat × Iter) : Prop :=
  (rem = [] ∧ res.1 = none) ∨
  (∃ v it', res = (some v, it') ∧ rem = v :: it'.remaining ∧ it'.OK)

theorem next_none (f : Nat) (it : Iter) (h : it.cur = none) : Iter.next f it = (none, it) := by
  cases f with
  | zero => rfl
  | succ f => rcases it with ⟨cur, rest⟩; simp only at h; subst h; rfl

/-- moving on to the next container (the current one is exhausted). -/
theorem next_skip {f : Nat}
    (ih : ∀ it : Iter, it.OK → it.rest.length + 2 ≤ f → NextSpec it.remaining (Iter.next f it))
    {rest : List (Nat × Container)} (hw : ∀ e ∈ rest, e.2.WF) (hf : rest.length + 1 ≤ f) :
    NextSpec (valuesL rest) (Iter.next f (Iter.advance rest)) := by
  cases rest with
  | nil =>
    left
    refine ⟨rfl, ?_⟩
    rw [next_none f _ rfl]
  | cons e r =>
    have := ih (Iter.advance (e :: r)) (advance_ok hw) (by
      rcases e with ⟨k, c⟩
      simp only [Iter.advance, List.length_cons] at hf ⊢
      omega)
    rw [advance_remaining] at this
    exact this

theorem next_spec : ∀ (f : Nat) (it : Iter), it.OK → it.rest.length + 2 ≤ f →
    NextSpec it.remaining (Iter.next f it) := by
  intro f
  induction f with
  | zero => intro it _ hf; omega
  | succ f ih =>
    intro it hok hf
    rcases it with ⟨cur, rest⟩
    have hw : ∀ e ∈ rest, e.2.WF := hok.2
    have hf' : rest.length + 1 ≤ f := by simp only at hf; omega
    cases cur with
    | none =>
      left
      have : rest = [] := hok.1
      subst this
      exact ⟨rfl, rfl⟩
    | some kc =>
      rcases kc with ⟨key, c⟩
      cases c with
      | arr xs =>
        cases xs with
        | nil =>
          simp only [Iter.next, Iter.remaining, Cursor.remaining, List.map_nil, List.nil_append]
          exact next_skip ih hw hf'
        | cons v xs' =>
          right
          exact ⟨key * 65536 + v, ⟨some (key, .arr xs'), rest⟩, rfl, rfl, ⟨trivial, hw⟩⟩
      | bmp xs =>
        cases xs with
        | nil =>
          simp only [Iter.next, Iter.remaining, Cursor.remaining, List.map_nil, List.nil_append]
          exact next_skip ih hw hf'
        | cons v xs' =>
          right
          exact ⟨key * 65536 + v, ⟨some (key, .bmp xs'), rest⟩, rfl, rfl, ⟨trivial, hw⟩⟩
      | run runs k =>
        have hk : -1 ≤ k := hok.1.1
        have hv : ∀ iv ∈ runs, iv.start ≤ iv.last := hok.1.2
        cases runs with
        | nil =>
          simp only [Iter.next, Iter.remaining, Cursor.remaining, List.nil_append]
          exact next_skip ih hw hf'
        | cons r runs' =>
          have hr := hv r (by simp)
          by_cases hend : k ≥ (r.last : Int) - r.start
          · have hnil : rangeIncl (r.start + (k + 1).toNat) r.last = [] := by
              apply rangeIncl_nil; omega
            cases runs' with
            | nil =>
              simp only [Iter.next, if_pos hend, Iter.remaining, Cursor.remaining, hnil, runValues,
                List.append_nil, List.map_nil, List.nil_append]
              exact next_skip ih hw hf'
            | cons r' rs =>
              right
              have hr' := hv r' (by simp)
              refine ⟨key * 65536 + r'.start, ⟨some (key, .run (r' :: rs) 0), rest⟩, ?_, ?_, ?_⟩
              · simp only [Iter.next, if_pos hend]
              · simp only [Iter.remaining, Cursor.remaining, hnil, List.nil_append, runValues]
                have : ((0 : Int) + 1).toNat = 1 := rfl
                rw [this, rangeIncl_cons hr']
                simp only [List.cons_append, List.map_cons]
              · exact ⟨⟨by omega, fun iv hiv => hv iv (by simp [hiv])⟩, hw⟩
          · right
            refine ⟨key * 65536 + r.start + (k + 1).toNat, ⟨some (key, .run (r :: runs') (k + 1)), rest⟩,
              ?_, ?_, ?_⟩
            · simp only [Iter.next, if_neg hend]
            · simp only [Iter.remaining, Cursor.remaining]
              have h1 : (k + 1 + 1).toNat = (k + 1).toNat + 1 := by omega
              have h2 : r.start + (k + 1).toNat ≤ r.last := by omega
              rw [h1, rangeIncl_cons h2]
              simp only [List.cons_append, List.map_cons, Nat.add_assoc]
            · exact ⟨⟨by omega, hv⟩, hw⟩

theorem next1_spec {it : Iter} (h : it.OK) : NextSpec it.remaining it.next1 :=
  next_spec _ it h (Nat.le_refl _)

/-! ### take / takeBelow -/

theorem take_spec : ∀ (n : Nat) (it : Iter), it.OK →
    Iter.take n it = (it.remaining.take n, decide (it.remaining.length < n)) := by
  intro n
  induction n with
  | zero => intro it _; simp [Iter.take]
  | succ n ih =>
    intro it hok
    rcases next1_spec hok with ⟨hrem, hnone⟩ | ⟨v, it', hres, hrem, hok'⟩
    · cases hn : it.next1 with
      | mk o it1 =>
        rw [hn] at hnone
        simp only at hnone
        subst hnone
        simp only [Iter.take, hn, hrem]
        simp
    · simp only [Iter.take, hres, hrem, ih it' hok']
      simp

theorem takeBelow_spec : ∀ (f e : Nat) (it : Iter), it.OK → it.remaining.length ≤ f →
    Iter.takeBelow f e it = it.remaining.takeWhile (fun v => decide (v < e)) := by
  intro f
  induction f with
  | zero =>
    intro e it _ hl
    have : it.remaining = [] := List.length_eq_zero_iff.mp (by omega)
    rw [this]; rfl
  | succ f ih =>
    intro e it hok hl
    rcases next1_spec hok with ⟨hrem, hnone⟩ | ⟨v, it', hres, hrem, hok'⟩
    · cases hn : it.next1 with
      | mk o it1 =>
        rw [hn] at hnone
        simp only at hnone
        subst hnone
        simp only [Iter.takeBelow, hn, hrem]
        rfl
    · rw [hrem] at hl
      simp only [List.length_cons] at hl
      simp only [Iter.takeBelow, hres, hrem, List.takeWhile_cons]
      by_cases hv : v < e
      · have h2 : decide (v < e) = true := by simp [hv]
        rw [if_pos hv, if_pos h2, ih e it' hok' (by omega)]
      · have h2 : ¬ (decide (v < e) = true) := by simp [hv]
        rw [if_neg hv, if_neg h2]

/-! ### Seek -/

theorem liveL_filter_ge (hb : Nat) (cs : List Entry) :
    liveL (cs.filter (fun e => decide (e.1 ≥ hb))) = (liveL cs).filter (fun e => decide (e.1 ≥ hb)) := by
  induction cs with
  | nil => rfl
  | cons e t ih =>
    rcases e with ⟨k, oc⟩
    rw [List.filter_cons]
    by_cases hk : k ≥ hb
    · have h1 : decide ((k, oc).1 ≥ hb) = true := by simp [hk]
      rw [if_pos h1]
      cases oc with
      | none => simp only [liveL]; exact ih
      | some c =>
        have h2 : decide ((k, c).1 ≥ hb) = true := by simp [hk]
        simp only [liveL]
        rw [List.filter_cons, if_pos h2, ih]
    · have h1 : ¬ (decide ((k, oc).1 ≥ hb) = true) := by simp [hk]
      rw [if_neg h1]
      cases oc with
      | none => simp only [liveL]; exact ih
      | some c =>
        have h2 : ¬ (decide ((k, c).1 ≥ hb) = true) := by simp [hk]
        simp only [liveL]
        rw [List.filter_cons, if_neg h2, ih]

theorem keysSorted_filterP {l : List (Nat × Container)} (p : Nat × Container → Bool) (h : KeysSorted l) :
    KeysSorted (l.filter p) := by
  induction l with
  | nil => trivial
  | cons e t ih =>
    rw [List.filter_cons]
    split
    · unfold KeysSorted
      rw [List.map_cons]
      apply sorted_cons (ih (KeysSorted.tail h))
      intro x hx
      rcases List.mem_map.mp hx with ⟨y, hy, rfl⟩
      exact KeysSorted.lt h y (List.mem_filter.mp hy).1
    · exact ih (KeysSorted.tail h)

/-- values of containers above the seek key's container are all `≥` the seek key. -/
theorem filter_valuesL_above {hb lb : Nat} {l : List (Nat × Container)} (hlb : lb < 65536)
    (hw : ∀ e ∈ l, e.2.WF) (hgt : ∀ e ∈ l, hb < e.1) :
    (valuesL l).filter (fun v => decide (hb * 65536 + lb ≤ v)) = valuesL l := by
  apply filter_ge_self
  intro v hv
  rw [mem_valuesL hw] at hv
  rcases hv with ⟨e, he, h1, _⟩
  have := hgt e he
  unfold highbits at h1
  omega

theorem filter_valuesOf_at (hb lb : Nat) (c : Container) :
    (valuesOf hb c).filter (fun v => decide (hb * 65536 + lb ≤ v))
      = (c.values.filter (fun v => decide (lb ≤ v))).map (fun v => hb * 65536 + v) := by
  unfold valuesOf
  rw [List.filter_map]
  congr 2
  funext v
  simp only [Function.comp]
  exact decide_eq_decide.mpr (by omega)

/-- containers below the seek key's container contribute nothing. -/
theorem filter_valuesL_skip {hb lb : Nat} {l : List (Nat × Container)} (hw : ∀ e ∈ l, e.2.WF) :
    (valuesL l).filter (fun v => decide (hb * 65536 + lb ≤ v))
      = (valuesL (l.filter (fun e => decide (e.1 ≥ hb)))).filter (fun v => decide (hb * 65536 + lb ≤ v)) := by
  induction l with
  | nil => rfl
  | cons e t ih =>
    have iht := ih (fun x hx => hw x (by simp [hx]))
    rw [List.filter_cons, valuesL_cons, List.filter_append]
    by_cases hk : e.1 ≥ hb
    · have h1 : decide (e.1 ≥ hb) = true := by simp [hk]
      rw [if_pos h1, valuesL_cons, List.filter_append, iht]
    · have h1 : ¬ (decide (e.1 ≥ hb) = true) := by simp [hk]
      rw [if_neg h1, ← iht]
      have : (valuesOf e.1 e.2).filter (fun v => decide (hb * 65536 + lb ≤ v)) = [] := by
        apply filter_ge_nil
        intro v hv
        unfold valuesOf at hv
        rcases List.mem_map.mp hv with ⟨w, hw', rfl⟩
        have := Container.values_lt (hw e (by simp)) w hw'
        omega
      rw [this, List.nil_append]

theorem runValues_gt {a : Iv} {t : List Iv} (h : RunsWF (a :: t)) : ∀ v ∈ runValues t, a.last < v := by
  intro v hv
  rw [mem_runValues] at hv
  simp only [inRuns, List.any_eq_true] at hv
  rcases hv with ⟨iv, hiv, hv⟩
  rw [inIv_iff] at hv
  have := RunsWF.gt h iv hiv
  omega

theorem run_seek_nil {ivs : List Iv} {lb : Nat}
    (h : ivs.dropWhile (fun iv => decide (iv.last < lb)) = []) :
    (runValues ivs).filter (fun v => decide (lb ≤ v)) = [] := by
  induction ivs with
  | nil => rfl
  | cons a t ih =>
    rw [List.dropWhile_cons] at h
    by_cases h1 : a.last < lb
    · have h2 : decide (a.last < lb) = true := by simp [h1]
      rw [if_pos h2] at h
      simp only [runValues, List.filter_append, ih h, List.append_nil]
      apply filter_ge_nil
      intro x hx
      rw [mem_rangeIncl] at hx
      omega
    · have h2 : ¬ (decide (a.last < lb) = true) := by simp [h1]
      rw [if_neg h2] at h
      cases h

theorem run_seek_cons {ivs : List Iv} {lb : Nat} {iv : Iv} {rs : List Iv} (hw : RunsWF ivs)
    (h : ivs.dropWhile (fun iv => decide (iv.last < lb)) = iv :: rs) :
    lb ≤ iv.last ∧ RunsWF (iv :: rs) ∧
    (runValues ivs).filter (fun v => decide (lb ≤ v))
      = (rangeIncl iv.start iv.last).filter (fun v => decide (lb ≤ v)) ++ runValues rs := by
  induction ivs with
  | nil => cases h
  | cons a t ih =>
    rw [List.dropWhile_cons] at h
    by_cases h1 : a.last < lb
    · have h2 : decide (a.last < lb) = true := by simp [h1]
      rw [if_pos h2] at h
      have := ih (RunsWF.tail hw) h
      refine ⟨this.1, this.2.1, ?_⟩
      simp only [runValues, List.filter_append]
      rw [this.2.2]
      have : (rangeIncl a.start a.last).filter (fun v => decide (lb ≤ v)) = [] := by
        apply filter_ge_nil
        intro x hx
        rw [mem_rangeIncl] at hx
        omega
      rw [this, List.nil_append]
    · have h2 : ¬ (decide (a.last < lb) = true) := by simp [h1]
      rw [if_neg h2] at h
      injection h with e1 e2
      subst e1 e2
      refine ⟨by omega, hw, ?_⟩
      simp only [runValues, List.filter_append]
      congr 1
      apply filter_ge_self
      intro x hx
      have := runValues_gt hw x hx
      omega

/-- the body of `Bitmap.seek` on the container list handed out by `Containers.Iterator`. -/
def seekL (hb lb : Nat) : List (Nat × Container) → Iter
  | [] => ⟨none, []⟩
  | (key, c) :: rest =>
    match c with
    | .array xs =>
      if key > hb then ⟨some (key, .arr xs), rest⟩
      else
        let r := xs.dropWhile (· < lb)
        if r.length > 0 then ⟨some (key, .arr r), rest⟩
        else Iter.advance rest
    | .run _ ivs =>
      if key > hb then ⟨some (key, .run ivs (-1)), rest⟩
      else
        let r := ivs.dropWhile (fun iv => iv.last < lb)
        match r with
        | [] => Iter.advance rest
        | iv :: _ =>
          if lb ≥ iv.start then ⟨some (key, .run r ((lb : Int) - iv.start - 1)), rest⟩
          else ⟨some (key, .run r (-1)), rest⟩
    | .bitmap _ bits =>
      if key > hb then ⟨some (key, .bmp bits), rest⟩
      else ⟨some (key, .bmp (bits.dropWhile (· < lb))), rest⟩

theorem Bitmap.seek_eq (b : Bitmap) (k : Nat) :
    b.seek k = seekL (highbits k) (lowbits k) (b.iterFrom (highbits k)).1 := by
  unfold Bitmap.seek seekL
  rfl

theorem seekL_spec {hb lb : Nat} (hlb : lb < 65536) {l : List (Nat × Container)}
    (hk : KeysSorted l) (hw : ∀ e ∈ l, e.2.WF) (hge : ∀ e ∈ l, hb ≤ e.1) :
    (seekL hb lb l).remaining = (valuesL l).filter (fun v => decide (hb * 65536 + lb ≤ v)) ∧
    (seekL hb lb l).OK := by
  cases l with
  | nil => exact ⟨rfl, rfl, hw⟩
  | cons e rest =>
    rcases e with ⟨key, c⟩
    have hwc : c.WF := hw (key, c) (by simp)
    have hwr : ∀ e ∈ rest, e.2.WF := fun x hx => hw x (by simp [hx])
    have hkey : hb ≤ key := hge (key, c) (by simp)
    have hgt : ∀ e ∈ rest, hb < e.1 := by
      intro x hx
      have := KeysSorted.lt hk x hx
      simp only at this
      omega
    have hB := filter_valuesL_above hlb hwr hgt
    by_cases hkgt : key > hb
    · have hs : seekL hb lb ((key, c) :: rest) = ⟨some (key, startCursor c), rest⟩ := by
        cases c <;> simp only [seekL, if_pos hkgt, startCursor]
      rw [hs]
      refine ⟨?_, startCursor_ok hwc, hwr⟩
      rw [filter_valuesL_above hlb hw (by
        intro x hx
        rcases List.mem_cons.mp hx with rfl | hx
        · exact hkgt
        · exact hgt x hx)]
      simp only [Iter.remaining, startCursor_remaining, valuesL_cons]
    · have hkeq : key = hb := by omega
      subst hkeq
      rw [valuesL_cons, List.filter_append, hB]
      simp only [filter_valuesOf_at]
      cases c with
      | array xs =>
        have hd := dropWhile_lt_eq_filter hwc.1 lb
        simp only [seekL, if_neg hkgt, Container.values]
        rw [hd]
        by_cases hlen : (xs.filter (fun v => decide (lb ≤ v))).length > 0
        · rw [if_pos hlen]
          exact ⟨rfl, trivial, hwr⟩
        · rw [if_neg hlen]
          have : xs.filter (fun v => decide (lb ≤ v)) = [] := List.length_eq_zero_iff.mp (by omega)
          rw [this, advance_remaining]
          exact ⟨rfl, advance_ok hwr⟩
      | bitmap n bits =>
        have hd := dropWhile_lt_eq_filter hwc.1 lb
        simp only [seekL, if_neg hkgt, Container.values]
        rw [hd]
        exact ⟨rfl, trivial, hwr⟩
      | run n ivs =>
        simp only [seekL, if_neg hkgt, Container.values]
        cases hr : ivs.dropWhile (fun iv => decide (iv.last < lb)) with
        | nil =>
          simp only
          rw [run_seek_nil hr, advance_remaining]
          exact ⟨rfl, advance_ok hwr⟩
        | cons iv rs =>
          have hrs := run_seek_cons hwc.1 hr
          have hiv := RunsWF.head hrs.2.1
          have hvalid : ∀ x ∈ iv :: rs, x.start ≤ x.last :=
            fun x hx => (RunsWF.valid hrs.2.1 x hx).1
          simp only
          rw [hrs.2.2]
          by_cases hst : lb ≥ iv.start
          · rw [if_pos hst]
            refine ⟨?_, ⟨by omega, hvalid⟩, hwr⟩
            simp only [Iter.remaining, Cursor.remaining]
            have h1 : ((lb : Int) - iv.start - 1 + 1).toNat = lb - iv.start := by omega
            have h2 : iv.start + (lb - iv.start) = lb := by omega
            rw [h1, h2, rangeIncl_filter_ge hst]
          · rw [if_neg hst]
            refine ⟨?_, ⟨Int.le_refl _, hvalid⟩, hwr⟩
            simp only [Iter.remaining, Cursor.remaining]
            have h1 : ((-1 : Int) + 1).toNat = 0 := rfl
            rw [h1, Nat.add_zero, filter_ge_self]
            intro x hx
            rw [mem_rangeIncl] at hx
            omega

theorem Bitmap.seek_spec {b : Bitmap} (h : b.WF) (k : Nat) :
    (b.seek k).remaining = Spec.seek b.values k ∧ (b.seek k).OK := by
  rw [Bitmap.seek_eq]
  have hL : (b.iterFrom (highbits k)).1 = b.live.filter (fun e => decide (e.1 ≥ highbits k)) :=
    liveL_filter_ge (highbits k) b.cs
  rw [hL]
  have hlb : lowbits k < 65536 := by unfold lowbits; omega
  have := seekL_spec (hb := highbits k) (lb := lowbits k) hlb
    (l := b.live.filter (fun e => decide (e.1 ≥ highbits k)))
    (keysSorted_filterP _ (Bitmap.live_keysSorted h))
    (fun e he => Bitmap.live_wf h e (List.mem_filter.mp he).1)
    (fun e he => by
      have := (List.mem_filter.mp he).2
      simpa using this)
  refine ⟨?_, this.2⟩
  rw [this.1, ← filter_valuesL_skip (Bitmap.live_wf h)]
  have hk : highbits k * 65536 + lowbits k = k := by unfold highbits lowbits; omega
  rw [hk]
  rfl

/-! ### the iterator against the spec -/

theorem foldl_add_length (l : List (Nat × Container)) : ∀ acc : Nat,
    (l.map (fun e => e.2.values.length)).foldl (· + ·) acc = acc + (valuesL l).length := by
  induction l with
  | nil => intro acc; rfl
  | cons e t ih =>
    intro acc
    rw [List.map_cons, List.foldl_cons, ih, valuesL_cons, List.length_append]
    unfold valuesOf
    rw [List.length_map]
    omega

theorem Bitmap.card_eq (b : Bitmap) : b.card = b.values.length := by
  unfold Bitmap.card
  rw [foldl_add_length, Bitmap.values_eq]
  omega

/-- `Seek(k)` followed by `n` calls of `Next`: the first `n` values `≥ k` in ascending order, and
eof exactly when there are fewer than `n`. -/
theorem Bitmap.seek_take_spec {b : Bitmap} (h : b.WF) (k n : Nat) :
    Iter.take n (b.seek k) = ((Spec.seek b.values k).take n, decide ((Spec.seek b.values k).length < n)) := by
  have hs := Bitmap.seek_spec h k
  rw [take_spec n _ hs.2, hs.1]

theorem Bitmap.slice_spec {b : Bitmap} (h : b.WF) : b.slice = b.values := by
  unfold Bitmap.slice
  rw [Bitmap.seek_take_spec h]
  have : Spec.seek b.values 0 = b.values := by
    unfold Spec.seek
    apply filter_ge_self
    intro x _; omega
  rw [this, Bitmap.card_eq]
  exact List.take_of_length_le (by omega)

theorem Bitmap.sliceRange_spec {b : Bitmap} (h : b.WF) (s e : Nat) :
    b.sliceRange s e = Spec.sliceRange b.values s e := by
  unfold Bitmap.sliceRange
  have hs := Bitmap.seek_spec h s
  rw [takeBelow_spec _ e _ hs.2 (by
    rw [hs.1, Bitmap.card_eq]
    unfold Spec.seek
    have := List.length_filter_le (fun v => decide (s ≤ v)) b.values
    omega)]
  rw [hs.1]
  exact takeWhile_filter_sorted (Bitmap.values_sorted h) s e

theorem Bitmap.min_spec {b : Bitmap} (h : b.WF) :
    b.min = (match b.values with | [] => (0, false) | v :: _ => (v, true)) := by
  have hs := Bitmap.seek_spec h 0
  have h0 : Spec.seek b.values 0 = b.values := by
    unfold Spec.seek
    apply filter_ge_self
    intro x _; omega
  rw [h0] at hs
  unfold Bitmap.min
  rcases next1_spec hs.2 with ⟨hrem, hnone⟩ | ⟨v, it', hres, hrem, _⟩
  · rw [hs.1] at hrem
    cases hn : (b.seek 0).next1 with
    | mk o it1 =>
      rw [hn] at hnone
      simp only at hnone
      subst hnone
      rw [hrem]
  · rw [hs.1] at hrem
    rw [hres, hrem]

end PV.C01
