/-
C01 helper lemmas, part 10: Bitmap.Shift, Container/Bitmap.Optimize, the bitmap-level intersection
count, NewBitmap(values...), OffsetRange.  Core Lean only.
-/
import PV.C01.LemmasL2Shift
namespace PV.C01
open Spec

/-! ### Container.optimize -/

theorem arrayToRun_ok {xs : List Nat} (hs : Sorted xs) (hlt : ∀ v ∈ xs, v < 65536) (n : Nat) (hn : n = xs.length) :
    (Container.run n (arrayToRunIvs xs)).WF ∧ ∀ w, w ∈ (Container.run n (arrayToRunIvs xs)).values ↔ w ∈ xs := by
  have S := arrayToRunIvs_spec xs hs hlt
  refine ⟨⟨S.1, by rw [S.2.2]; exact hn⟩, ?_⟩
  intro w
  show w ∈ runValues (arrayToRunIvs xs) ↔ _
  rw [mem_runValues, S.2.1 w]; simp

theorem opt_array {xs : List Nat} (h : (Container.array xs).WF) (t : Nat) :
    (if t = 2 then arrayToBitmap xs else if t = 0 then arrayToRun xs else Container.array xs).WF ∧
    ∀ w, w ∈ (if t = 2 then arrayToBitmap xs else if t = 0 then arrayToRun xs else Container.array xs).values ↔ w ∈ xs := by
  split
  · exact ⟨⟨h.1, h.2, rfl⟩, fun _ => Iff.rfl⟩
  · split
    · exact arrayToRun_ok h.1 h.2 _ rfl
    · exact ⟨h, fun _ => Iff.rfl⟩

theorem opt_bitmap {n : Nat} {bits : List Nat} (h : (Container.bitmap n bits).WF) (hn : n ≠ 0) (t : Nat) :
    (if t = 1 then bitmapToArray n bits else if t = 0 then bitmapToRun n bits else Container.bitmap n bits).WF ∧
    ∀ w, w ∈ (if t = 1 then bitmapToArray n bits else if t = 0 then bitmapToRun n bits else Container.bitmap n bits).values ↔ w ∈ bits := by
  split
  · unfold bitmapToArray; rw [if_neg hn]
    exact ⟨⟨h.1, h.2.1⟩, fun _ => Iff.rfl⟩
  · split
    · unfold bitmapToRun; rw [if_neg hn]
      exact arrayToRun_ok h.1 h.2.1 _ h.2.2
    · exact ⟨h, fun _ => Iff.rfl⟩

theorem opt_run {n : Nat} {ivs : List Iv} (h : (Container.run n ivs).WF) (hn : n ≠ 0) (t : Nat) :
    (if t = 2 then runToBitmap n ivs else if t = 1 then runToArray n ivs else Container.run n ivs).WF ∧
    ∀ w, w ∈ (if t = 2 then runToBitmap n ivs else if t = 1 then runToArray n ivs else Container.run n ivs).values ↔ w ∈ runValues ivs := by
  have hlen : (runValues ivs).length = n := Container.values_length h
  split
  · unfold runToBitmap; rw [if_neg hn]
    exact ⟨⟨runValues_sorted h.1, runValues_lt h.1, hlen.symm⟩, fun _ => Iff.rfl⟩
  · split
    · unfold runToArray; rw [if_neg hn]
      exact ⟨⟨runValues_sorted h.1, runValues_lt h.1⟩, fun _ => Iff.rfl⟩
    · exact ⟨h, fun _ => Iff.rfl⟩

theorem Container.optimize_spec {c : Container} (h : c.WF) :
    WFO c.optimize ∧ ∀ w, w ∈ valuesO c.optimize ↔ w ∈ c.values := by
  unfold Container.optimize
  by_cases h0 : c.n = 0
  · rw [if_pos h0]
    have hv := empty_values h h0
    simp [WFO, valuesO, hv]
  · rw [if_neg h0]
    cases c with
    | array xs => exact opt_array h _
    | bitmap n bits => exact opt_bitmap h h0 _
    | run n ivs => exact opt_run h h0 _

/-! ### Bitmap.optimize -/

theorem keysAsc_sorted {cs : List Entry} (h : KeysAsc cs) : Sorted (cs.map (·.1)) := by
  induction cs with
  | nil => trivial
  | cons e t ih =>
    rw [List.map_cons]
    apply sorted_cons (ih (KeysAsc.tail h))
    intro x hx
    rcases List.mem_map.mp hx with ⟨y, hy, rfl⟩
    exact KeysAsc.lt h y hy

theorem entries_sorted_filter {l : List Entry} (p : Entry → Bool) (h : Sorted (l.map (·.1))) :
    Sorted ((l.filter p).map (·.1)) := by
  induction l with
  | nil => trivial
  | cons e t ih =>
    rw [List.map_cons] at h
    rw [List.filter_cons]
    split
    · rw [List.map_cons]
      apply sorted_cons (ih (sorted_tail h))
      intro x hx
      rcases List.mem_map.mp hx with ⟨y, hy, rfl⟩
      exact sorted_lt h y.1 (List.mem_map.mpr ⟨y, (List.mem_filter.mp hy).1, rfl⟩)
    · exact ih (sorted_tail h)

theorem liveL_filter_isSome (l : List Entry) : liveL (l.filter (fun e => e.2.isSome)) = liveL l := by
  induction l with
  | nil => rfl
  | cons e t ih =>
    rcases e with ⟨k, oc⟩
    cases oc with
    | none => simp only [List.filter_cons, Option.isSome_none, Bool.false_eq_true, if_false, liveL]; exact ih
    | some c => simp only [List.filter_cons, Option.isSome_some, if_true, liveL, ih]

theorem optimize_entries_mem (cs : List Entry) (hw : ∀ e ∈ cs, WFO e.2) (v : Nat) :
    v ∈ valuesL (liveL (cs.map (fun e => (e.1, e.2.bind Container.optimize)))) ↔ v ∈ valuesL (liveL cs) := by
  induction cs with
  | nil => simp [liveL]
  | cons e t ih =>
    have iht := ih (fun x hx => hw x (by simp [hx]))
    rcases e with ⟨k, oc⟩
    cases oc with
    | none => simp only [List.map_cons, Option.bind_none, liveL]; exact iht
    | some c =>
      have hc : c.WF := hw (k, some c) (by simp)
      have S := Container.optimize_spec hc
      simp only [List.map_cons, Option.bind_some]
      cases ho : c.optimize with
      | none =>
        rw [ho] at S
        have : ∀ w, w ∉ c.values := fun w hm => by have := (S.2 w).mpr hm; simp [valuesO] at this
        simp only [liveL, valuesL_cons, List.mem_append, iht, mem_valuesOf hc]
        constructor
        · intro h; exact Or.inr h
        · rintro (⟨_, h⟩ | h)
          · exact absurd h (this _)
          · exact h
      | some c' =>
        rw [ho] at S
        have hc' : c'.WF := S.1
        simp only [liveL, valuesL_cons, List.mem_append, iht, mem_valuesOf hc, mem_valuesOf hc']
        have := S.2 (lowbits v)
        simp only [valuesO] at this
        rw [this]

theorem Bitmap.optimize_spec {b : Bitmap} (h : b.WF) :
    b.optimize.WF ∧ ∀ v, v ∈ b.optimize.values ↔ v ∈ b.values := by
  have hs : Sorted ((b.cs.map (fun e => (e.1, e.2.bind Container.optimize))).map (·.1)) := by
    rw [List.map_map]
    exact keysAsc_sorted h.1
  have hle : ∀ e ∈ b.cs.map (fun e => (e.1, e.2.bind Container.optimize)), e.1 ≤ maxContainerKey := by
    intro e he
    rcases List.mem_map.mp he with ⟨x, hx, rfl⟩
    exact KeysAsc.le_max h.1 x hx
  have hwf : ∀ e ∈ b.cs.map (fun e => (e.1, e.2.bind Container.optimize)), WFO e.2 := by
    intro e he
    rcases List.mem_map.mp he with ⟨x, hx, rfl⟩
    rcases x with ⟨k, oc⟩
    cases oc with
    | none => trivial
    | some c => exact (Container.optimize_spec (h.2.1 (k, some c) hx)).1
  unfold Bitmap.optimize
  simp only []
  cases hb : b.btree with
  | true =>
    simp only [if_true]
    refine ⟨⟨?_, ?_, ?_⟩, ?_⟩
    · apply keysAsc_of_sorted (entries_sorted_filter _ hs)
      intro e he; exact hle e (List.mem_filter.mp he).1
    · intro e he; exact hwf e (List.mem_filter.mp he).1
    · intro _ e he hn
      have := (List.mem_filter.mp he).2
      rw [hn] at this; simp at this
    · intro v
      show v ∈ valuesL (liveL _) ↔ v ∈ valuesL (liveL b.cs)
      rw [liveL_filter_isSome]
      exact optimize_entries_mem b.cs h.2.1 v
  | false =>
    simp only [Bool.false_eq_true, if_false]
    refine ⟨⟨keysAsc_of_sorted hs hle, hwf, by intro hh; cases hh⟩, ?_⟩
    intro v
    exact optimize_entries_mem b.cs h.2.1 v

/-! ### Bitmap.intersectionCount -/

theorem filter_false_nil (l : List Nat) : l.filter (fun _ => false) = [] := by
  induction l with
  | nil => rfl
  | cons a t ih => rw [List.filter_cons]; simp [ih]

theorem valuesOf_filter_len {k : Nat} {c d : Container} (hd : d.WF) :
    ((valuesOf k c).filter (fun v => decide (v ∈ valuesOf k d))).length
      = (c.values.filter (fun v => decide (v ∈ d.values))).length := by
  unfold valuesOf
  rw [List.filter_map, List.length_map]
  apply congrArg
  apply List.filter_congr
  intro w _
  exact valuesOf_mem_shift hd w

theorem intersectionCountLoop_spec
    (hk : ∀ x y : Container, x.WF → y.WF →
      PV.C01.intersectionCount x y = (x.values.filter (fun v => decide (v ∈ y.values))).length) :
    ∀ (fuel : Nat) (la lb : List (Nat × Container)),
    KeysSorted la → KeysSorted lb → (∀ x ∈ la, x.2.WF) → (∀ y ∈ lb, y.2.WF) → la.length + lb.length ≤ fuel →
    intersectionCountLoop fuel la lb = ((valuesL la).filter (fun v => decide (v ∈ valuesL lb))).length := by
  intro fuel
  induction fuel with
  | zero =>
    intro la lb _ _ _ _ hl
    have h1 : la = [] := List.length_eq_zero_iff.mp (by omega)
    subst h1
    simp [intersectionCountLoop]
  | succ fuel ih =>
    intro la lb hka hkb hwa hwb hl
    match la, lb with
    | [], _ => simp [intersectionCountLoop]
    | (ki, ci) :: ia, [] => simp [intersectionCountLoop, filter_false_nil]
    | (ki, ci) :: ia, (kj, cj) :: jb =>
      have hci : ci.WF := hwa (ki, ci) (by simp)
      have hcj : cj.WF := hwb (kj, cj) (by simp)
      have hwia : ∀ x ∈ ia, x.2.WF := fun x hx => hwa x (by simp [hx])
      have hwjb : ∀ y ∈ jb, y.2.WF := fun y hy => hwb y (by simp [hy])
      have hgta := KeysSorted.lt hka
      have hgtb := KeysSorted.lt hkb
      simp only [intersectionCountLoop]
      by_cases hlt : ki < kj
      · rw [if_pos hlt]
        rw [ih ia ((kj, cj) :: jb) (KeysSorted.tail hka) hkb hwia hwb (by simp at hl ⊢; omega)]
        rw [valuesL_cons (ki, ci) ia, List.filter_append, List.length_append]
        have : (valuesOf ki ci).filter (fun v => decide (v ∈ valuesL ((kj, cj) :: jb))) = [] := by
          rw [List.filter_eq_nil_iff]
          intro v hv
          have hkey : highbits v = ki := ((mem_valuesOf hci v).mp hv).1
          have : v ∉ valuesL ((kj, cj) :: jb) := not_mem_valuesL_of_key hwb v (fun y hy => by
            rcases List.mem_cons.mp hy with rfl | hy
            · simp only; omega
            · have := hgtb y hy; simp only at this; omega)
          simp only [decide_eq_true_eq]; exact this
        rw [this]; simp
      · rw [if_neg hlt]
        by_cases hgt : ki > kj
        · rw [if_pos hgt]
          rw [ih ((ki, ci) :: ia) jb hka (KeysSorted.tail hkb) hwa hwjb (by simp at hl ⊢; omega)]
          apply congrArg
          apply List.filter_congr
          intro v hv
          rw [valuesL_cons (kj, cj) jb, decide_eq_decide, List.mem_append]
          have hnot : v ∉ valuesOf kj cj := by
            rw [mem_valuesOf hcj]
            rintro ⟨h1, _⟩
            rcases (mem_valuesL hwa v).mp hv with ⟨x, hx, h2, _⟩
            rcases List.mem_cons.mp hx with rfl | hx
            · simp only at h2; omega
            · have := hgta x hx; simp only at this; omega
          simp [hnot]
        · rw [if_neg hgt]
          have hkeq : ki = kj := by omega
          subst hkeq
          rw [ih ia jb (KeysSorted.tail hka) (KeysSorted.tail hkb) hwia hwjb (by simp at hl ⊢; omega)]
          rw [hk ci cj hci hcj]
          rw [valuesL_cons (ki, ci) ia, List.filter_append, List.length_append]
          rw [← valuesOf_filter_len (k := ki) hcj]
          have e1 : (valuesOf ki ci).filter (fun v => decide (v ∈ valuesL ((ki, cj) :: jb)))
              = (valuesOf ki ci).filter (fun v => decide (v ∈ valuesOf ki cj)) := by
            apply List.filter_congr
            intro v hv
            rw [valuesL_cons (ki, cj) jb, decide_eq_decide, List.mem_append]
            have hkey : highbits v = ki := ((mem_valuesOf hci v).mp hv).1
            have hnjb : v ∉ valuesL jb := not_mem_valuesL_of_key hwjb v (fun y hy => by
              have := hgtb y hy; simp only at this; omega)
            simp [hnjb]
          have e2 : (valuesL ia).filter (fun v => decide (v ∈ valuesL ((ki, cj) :: jb)))
              = (valuesL ia).filter (fun v => decide (v ∈ valuesL jb)) := by
            apply List.filter_congr
            intro v hv
            rw [valuesL_cons (ki, cj) jb, decide_eq_decide, List.mem_append]
            have hnot : v ∉ valuesOf ki cj := by
              rw [mem_valuesOf hcj]
              rintro ⟨h1, _⟩
              rcases (mem_valuesL hwia v).mp hv with ⟨x, hx, h2, _⟩
              have := hgta x hx; simp only at this; omega
            simp [hnot]
          rw [e1, e2]

theorem Bitmap.intersectionCount_spec
    (hk : ∀ x y : Container, x.WF → y.WF →
      PV.C01.intersectionCount x y = (x.values.filter (fun v => decide (v ∈ y.values))).length)
    {a b : Bitmap} (ha : a.WF) (hb : b.WF) :
    a.intersectionCount b = (a.values.filter (fun v => decide (v ∈ b.values))).length := by
  have hl : a.live.length + b.live.length ≤ a.cs.length + b.cs.length + 1 := by
    have := liveL_length_le a.cs; have := liveL_length_le b.cs
    unfold Bitmap.live; omega
  exact intersectionCountLoop_spec hk _ a.live b.live
    (Bitmap.live_keysSorted ha) (Bitmap.live_keysSorted hb) (Bitmap.live_wf ha) (Bitmap.live_wf hb) hl

/-! ### Bitmap.shift -/

theorem pow64_eq : (2:Nat) ^ 64 = 18446744073709551616 := by decide
theorem maxKey_eq : maxContainerKey = 281474976710655 := by decide

/-- the entry `Shift` stores for a shifted container: nothing when it is empty. -/
def midE (k : Nat) (o : Option Container) : List Entry := if N o > 0 then [(k, o)] else []

theorem midE_cases (k : Nat) (o : Option Container) : midE k o = [] ∨ midE k o = [(k, o)] := by
  unfold midE; split
  · exact Or.inr rfl
  · exact Or.inl rfl

theorem mem_midE {k : Nat} {o : Option Container} (h : WFO o) (v : Nat) :
    v ∈ valuesL (liveL (midE k o)) ↔ (highbits v = k ∧ lowbits v ∈ valuesO o) := by
  unfold midE
  cases o with
  | none => simp [N, liveL, valuesO]
  | some c =>
    have hc : c.WF := h
    by_cases hn : c.n > 0
    · have : N (some c) > 0 := hn
      rw [if_pos this]
      simp only [liveL, valuesL_cons, valuesL_nil, List.append_nil, valuesO]
      exact mem_valuesOf hc v
    · have : ¬ N (some c) > 0 := hn
      rw [if_neg this]
      have hv := empty_values hc (by omega)
      simp [liveL, valuesO, hv]

theorem mem_zeroEntry (k v : Nat) : v ∈ valuesL (liveL [(k, some (Container.array [0]))]) ↔ v = k * 65536 := by
  simp [liveL, valuesOf, Container.values]

theorem wf_zeroArray : (Container.array [0]).WF := by
  refine ⟨trivial, ?_⟩
  intro v hv
  have : v = 0 := by simpa using hv
  omega

/-- the values of one container after the shift: the carry out plus the shifted container. -/
theorem shiftC_mem {ki : Nat} {ci : Container} (hci : ci.WF) (hki : ki ≤ maxContainerKey) (v : Nat) :
    (1 ≤ v ∧ v < 2 ^ 64 ∧ v - 1 ∈ valuesOf ki ci) ↔
      (((PV.C01.shift ci).2 = true ∧ ki + 1 ≤ maxContainerKey ∧ v = (ki + 1) * 65536) ∨
        (highbits v = ki ∧ lowbits v ∈ valuesO (PV.C01.shift ci).1)) := by
  have S := shift_spec hci
  rw [mem_valuesOf hci, S.2.2, S.2.1 (lowbits v), pow64_eq, maxKey_eq]
  rw [maxKey_eq] at hki
  unfold highbits lowbits
  constructor
  · rintro ⟨h1, h2, h3, h4⟩
    have hlt := Container.values_lt hci _ h4
    by_cases h5 : (v - 1) % 65536 = 65535
    · left
      rw [h5] at h4
      exact ⟨h4, by omega, by omega⟩
    · right
      have e : v % 65536 - 1 = (v - 1) % 65536 := by omega
      rw [e]
      exact ⟨by omega, by omega, by omega, h4⟩
  · rintro (⟨h1, h2, h3⟩ | ⟨h1, h2, h3, h4⟩)
    · have e1 : (v - 1) / 65536 = ki := by omega
      have e2 : (v - 1) % 65536 = 65535 := by omega
      rw [e1, e2]
      exact ⟨by omega, by omega, rfl, h1⟩
    · have e : (v - 1) % 65536 = v % 65536 - 1 := by omega
      rw [e]
      exact ⟨by omega, by omega, by omega, h4⟩

theorem shiftLoop_head (ki : Nat) (ci : Container) (rest : List (Nat × Container)) (carry : Bool) (lk : Nat)
    (hci : ci.WF) (hlt : carry = true → lk < ki) (hki : ki ≤ maxContainerKey) :
    ∃ (pre : List Entry) (o : Option Container),
      shiftLoop ((ki, ci) :: rest) carry lk = pre ++ (midE ki o ++ shiftLoop rest (PV.C01.shift ci).2 ki) ∧
      (pre = [] ∨ (pre = [(lk + 1, some (.array [0]))] ∧ carry = true ∧ lk + 1 < ki)) ∧
      WFO o ∧
      ∀ v, (v ∈ valuesL (liveL pre) ∨ (highbits v = ki ∧ lowbits v ∈ valuesO o)) ↔
        ((carry = true ∧ lk + 1 ≤ maxContainerKey ∧ v = (lk + 1) * 65536) ∨
          (highbits v = ki ∧ lowbits v ∈ valuesO (PV.C01.shift ci).1)) := by
  have S := shift_spec hci
  cases carry with
  | false =>
    refine ⟨[], (PV.C01.shift ci).1, ?_, Or.inl rfl, S.1, ?_⟩
    · simp [shiftLoop, midE]
    · intro v; simp [liveL]
  | true =>
    have hlk := hlt rfl
    by_cases hgap : ki > lk + 1
    · refine ⟨[(lk + 1, some (.array [0]))], (PV.C01.shift ci).1, ?_, Or.inr ⟨rfl, rfl, hgap⟩, S.1, ?_⟩
      · simp [shiftLoop, midE, hgap]
      · intro v
        rw [mem_zeroEntry]
        have : lk + 1 ≤ maxContainerKey := by omega
        simp [this]
    · have h0 : 0 ∉ valuesO (PV.C01.shift ci).1 := by
        intro hm
        have := (S.2.1 0).mp hm
        omega
      have A := add_zero_spec S.1 h0
      refine ⟨[], some (add (PV.C01.shift ci).1 0), ?_, Or.inl rfl, A.1, ?_⟩
      · simp [shiftLoop, midE, hgap]
      · intro v
        have hk : ki = lk + 1 := by omega
        have hle : lk + 1 ≤ maxContainerKey := by omega
        have := A.2 (lowbits v)
        simp only [valuesO] at this ⊢
        rw [this]
        simp only [liveL, valuesL_nil, List.not_mem_nil, false_or, true_and, hle]
        unfold highbits lowbits
        subst hk
        constructor
        · rintro ⟨h1, h2 | h2⟩
          · left; omega
          · right; exact ⟨h1, h2⟩
        · rintro (h1 | ⟨h1, h2⟩)
          · exact ⟨by omega, Or.inl (by omega)⟩
          · exact ⟨h1, Or.inr h2⟩

theorem shiftLoop_spec : ∀ (l : List (Nat × Container)) (carry : Bool) (lk : Nat),
    KeysSorted l → (∀ x ∈ l, x.2.WF) → (∀ x ∈ l, x.1 ≤ maxContainerKey) →
    (carry = true → ∀ x ∈ l, lk < x.1) → (carry = true → lk ≤ maxContainerKey) →
    (∀ e ∈ shiftLoop l carry lk, WFO e.2 ∧ e.1 ≤ maxContainerKey) ∧
    Sorted ((shiftLoop l carry lk).map (·.1)) ∧
    (∀ m, (∀ x ∈ l, m ≤ x.1) → (carry = true → m ≤ lk + 1) → ∀ e ∈ shiftLoop l carry lk, m ≤ e.1) ∧
    (∀ v, v ∈ valuesL (liveL (shiftLoop l carry lk)) ↔
      ((carry = true ∧ lk + 1 ≤ maxContainerKey ∧ v = (lk + 1) * 65536) ∨
        (1 ≤ v ∧ v < 2 ^ 64 ∧ v - 1 ∈ valuesL l))) := by
  intro l
  induction l with
  | nil =>
    intro carry lk _ _ _ _ hlk
    simp only [shiftLoop]
    by_cases hc : carry = true ∧ lk ≠ maxContainerKey
    · rw [if_pos hc]
      have hlk' := hlk hc.1
      have hle : lk + 1 ≤ maxContainerKey := by have := hc.2; omega
      refine ⟨?_, trivial, ?_, ?_⟩
      · intro e he
        have : e = (lk + 1, some (.array [0])) := by simpa using he
        subst this
        exact ⟨wf_zeroArray, hle⟩
      · intro m _ hm e he
        have : e = (lk + 1, some (.array [0])) := by simpa using he
        subst this
        exact hm hc.1
      · intro v
        rw [mem_zeroEntry]
        simp [hc.1, hle]
    · rw [if_neg hc]
      refine ⟨by simp, trivial, by simp, ?_⟩
      intro v
      simp only [liveL, valuesL_nil, List.not_mem_nil, and_false, or_false, false_iff]
      rintro ⟨h1, h2, _⟩
      apply hc
      refine ⟨h1, ?_⟩
      omega
  | cons x rest ih =>
    intro carry lk hks hw hmax hlt hlk
    rcases x with ⟨ki, ci⟩
    have hci : ci.WF := hw (ki, ci) (by simp)
    have hki : ki ≤ maxContainerKey := hmax (ki, ci) (by simp)
    have hgt := KeysSorted.lt hks
    obtain ⟨pre, o, hR, hpre, hwo, hval⟩ :=
      shiftLoop_head ki ci rest carry lk hci (fun h => hlt h (ki, ci) (by simp)) hki
    have IH := ih (PV.C01.shift ci).2 ki (KeysSorted.tail hks) (fun x hx => hw x (by simp [hx]))
      (fun x hx => hmax x (by simp [hx])) (fun _ x hx => hgt x hx) (fun _ => hki)
    have htail : ∀ e ∈ shiftLoop rest (PV.C01.shift ci).2 ki, ki + 1 ≤ e.1 :=
      IH.2.2.1 (ki + 1) (fun x hx => hgt x hx) (fun _ => Nat.le_refl _)
    have hmidk : ∀ e ∈ midE ki o, e = (ki, o) := by
      intro e he
      rcases midE_cases ki o with h | h
      · rw [h] at he; cases he
      · rw [h] at he; simpa using he
    have hprek : ∀ e ∈ pre, e = (lk + 1, some (.array [0])) ∧ carry = true ∧ lk + 1 < ki := by
      intro e he
      rcases hpre with h | ⟨h, h2, h3⟩
      · rw [h] at he; cases he
      · rw [h] at he; exact ⟨by simpa using he, h2, h3⟩
    rw [hR]
    refine ⟨?_, ?_, ?_, ?_⟩
    · intro e he
      rcases List.mem_append.mp he with he | he
      · obtain ⟨rfl, _, h3⟩ := hprek e he
        exact ⟨wf_zeroArray, by show lk + 1 ≤ maxContainerKey; omega⟩
      · rcases List.mem_append.mp he with he | he
        · rw [hmidk e he]; exact ⟨hwo, hki⟩
        · exact IH.1 e he
    · rw [List.map_append, List.map_append]
      apply sorted_append
      · rcases hpre with h | ⟨h, _, _⟩ <;> rw [h] <;> trivial
      · apply sorted_append
        · rcases midE_cases ki o with h | h <;> rw [h] <;> trivial
        · exact IH.2.1
        · intro a ha b hb
          rcases List.mem_map.mp ha with ⟨e, he, rfl⟩
          rcases List.mem_map.mp hb with ⟨f, hf, rfl⟩
          rw [hmidk e he]
          have := htail f hf
          show ki < f.1
          omega
      · intro a ha b hb
        rcases List.mem_map.mp ha with ⟨e, he, rfl⟩
        obtain ⟨rfl, _, h3⟩ := hprek e he
        show lk + 1 < b
        rcases List.mem_append.mp hb with hb | hb
        · rcases List.mem_map.mp hb with ⟨f, hf, rfl⟩
          rw [hmidk f hf]; exact h3
        · rcases List.mem_map.mp hb with ⟨f, hf, rfl⟩
          have := htail f hf
          omega
    · intro m hm1 hm2 e he
      have hmk : m ≤ ki := hm1 (ki, ci) (by simp)
      rcases List.mem_append.mp he with he | he
      · obtain ⟨rfl, h2, _⟩ := hprek e he
        exact hm2 h2
      · rcases List.mem_append.mp he with he | he
        · rw [hmidk e he]; exact hmk
        · have := htail e he
          omega
    · intro v
      rw [liveL_append, liveL_append, valuesL_append, valuesL_append, List.mem_append, List.mem_append,
        mem_midE hwo, IH.2.2.2 v, valuesL_cons (ki, ci) rest, List.mem_append]
      have hC := shiftC_mem hci hki v
      have hV := hval v
      simp only at hC ⊢
      constructor
      · intro h
        have h' : (v ∈ valuesL (liveL pre) ∨ (highbits v = ki ∧ lowbits v ∈ valuesO o)) ∨
            (((PV.C01.shift ci).2 = true ∧ ki + 1 ≤ maxContainerKey ∧ v = (ki + 1) * 65536) ∨
              (1 ≤ v ∧ v < 2 ^ 64 ∧ v - 1 ∈ valuesL rest)) := by
          rcases h with h | h | h
          · exact Or.inl (Or.inl h)
          · exact Or.inl (Or.inr h)
          · exact Or.inr h
        rcases h' with h | h | ⟨h1, h2, h3⟩
        · rcases hV.mp h with h | h
          · exact Or.inl h
          · have := hC.mpr (Or.inr h)
            exact Or.inr ⟨this.1, this.2.1, Or.inl this.2.2⟩
        · have := hC.mpr (Or.inl h)
          exact Or.inr ⟨this.1, this.2.1, Or.inl this.2.2⟩
        · exact Or.inr ⟨h1, h2, Or.inr h3⟩
      · rintro (h | ⟨h1, h2, h3 | h3⟩)
        · rcases hV.mpr (Or.inl h) with h | h
          · exact Or.inl h
          · exact Or.inr (Or.inl h)
        · rcases hC.mp ⟨h1, h2, h3⟩ with h | h
          · exact Or.inr (Or.inr (Or.inl h))
          · rcases hV.mpr (Or.inr h) with h | h
            · exact Or.inl h
            · exact Or.inr (Or.inl h)
        · exact Or.inr (Or.inr (Or.inr ⟨h1, h2, h3⟩))

theorem Bitmap.shift_spec {b : Bitmap} (h : b.WF) :
    b.shift.WF ∧ ∀ v, v ∈ b.shift.values ↔ (1 ≤ v ∧ v < 2 ^ 64 ∧ v - 1 ∈ b.values) := by
  have S := shiftLoop_spec b.live false 0 (Bitmap.live_keysSorted h) (Bitmap.live_wf h) (live_keys_le h)
    (by intro hh; cases hh) (by intro hh; cases hh)
  unfold Bitmap.shift
  refine ⟨⟨?_, ?_, by intro hh; cases hh⟩, ?_⟩
  · exact keysAsc_of_sorted S.2.1 (fun e he => (S.1 e he).2)
  · exact fun e he => (S.1 e he).1
  · intro v
    have := S.2.2.2 v
    simp only [Bool.false_eq_true, false_and, false_or] at this
    exact this

/-! ### Bitmap.ofValues -/

theorem sorted_of_append_left {a b : List Nat} (h : Sorted (a ++ b)) : Sorted a := by
  induction a with
  | nil => trivial
  | cons x t ih =>
    rw [List.cons_append] at h
    exact sorted_cons (ih (sorted_tail h)) (fun y hy => sorted_lt h y (List.mem_append.mpr (Or.inl hy)))

theorem sorted_of_append_right {a b : List Nat} (h : Sorted (a ++ b)) : Sorted b := by
  induction a with
  | nil => exact h
  | cons x t ih =>
    rw [List.cons_append] at h
    exact ih (sorted_tail h)

theorem mem_takeWhile_sat (p : Nat → Bool) : ∀ (l : List Nat) (x : Nat), x ∈ l.takeWhile p → p x = true := by
  intro l
  induction l with
  | nil => intro x hx; cases hx
  | cons a t ih =>
    intro x hx
    rw [List.takeWhile_cons] at hx
    by_cases ha : p a = true
    · rw [if_pos ha] at hx
      rcases List.mem_cons.mp hx with rfl | hx
      · exact ha
      · exact ih x hx
    · rw [if_neg ha] at hx; cases hx

theorem dropWhile_key {k : Nat} : ∀ (l : List Nat), Sorted l → (∀ x ∈ l, k ≤ highbits x) →
    ∀ x ∈ l.dropWhile (fun x => highbits x = k), k < highbits x := by
  intro l
  induction l with
  | nil => intro _ _ x hx; cases hx
  | cons a t ih =>
    intro hs hk x hx
    rw [List.dropWhile_cons] at hx
    by_cases ha : highbits a = k
    · have : decide (highbits a = k) = true := by simp [ha]
      rw [if_pos this] at hx
      exact ih (sorted_tail hs) (fun y hy => hk y (by simp [hy])) x hx
    · have : ¬ (decide (highbits a = k) = true) := by simp [ha]
      rw [if_neg this] at hx
      have hak := hk a (by simp)
      rcases List.mem_cons.mp hx with rfl | hx
      · omega
      · have := sorted_lt hs x hx
        unfold highbits at *
        omega

theorem sorted_map_lowbits {k : Nat} : ∀ (l : List Nat), Sorted l → (∀ x ∈ l, highbits x = k) →
    Sorted (l.map lowbits) := by
  intro l
  induction l with
  | nil => intro _ _; trivial
  | cons a t ih =>
    intro hs hk
    rw [List.map_cons]
    apply sorted_cons (ih (sorted_tail hs) (fun x hx => hk x (by simp [hx])))
    intro y hy
    rcases List.mem_map.mp hy with ⟨x, hx, rfl⟩
    have h1 := sorted_lt hs x hx
    have h2 := hk a (by simp)
    have h3 := hk x (by simp [hx])
    unfold highbits at h2 h3
    unfold lowbits
    omega

theorem groupByKey_cons (f v : Nat) (rest : List Nat) : groupByKey (f + 1) (v :: rest) =
    (highbits v, (v :: rest.takeWhile (fun x => highbits x = highbits v)).map lowbits) ::
      groupByKey f (rest.dropWhile (fun x => highbits x = highbits v)) := by
  simp [groupByKey]

theorem groupByKey_spec : ∀ (fuel : Nat) (vs : List Nat), Sorted vs → vs.length < fuel →
    (∀ g ∈ groupByKey fuel vs, Sorted g.2 ∧ (∀ w ∈ g.2, w < 65536) ∧ ∃ x ∈ vs, highbits x = g.1) ∧
    Sorted ((groupByKey fuel vs).map (·.1)) ∧
    (∀ v, v ∈ vs ↔ ∃ g ∈ groupByKey fuel vs, highbits v = g.1 ∧ lowbits v ∈ g.2) := by
  intro fuel
  induction fuel with
  | zero => intro vs _ hl; omega
  | succ fuel ih =>
    intro vs hs hl
    cases vs with
    | nil => simp [groupByKey, Sorted]
    | cons v0 rest =>
      rw [groupByKey_cons]
      have happ : rest.takeWhile (fun x => highbits x = highbits v0) ++ rest.dropWhile (fun x => highbits x = highbits v0) = rest :=
        List.takeWhile_append_dropWhile
      generalize htw : rest.takeWhile (fun x => highbits x = highbits v0) = tw at happ
      generalize hdw : rest.dropWhile (fun x => highbits x = highbits v0) = dw at happ
      have hrest : Sorted rest := sorted_tail hs
      have hgt := sorted_lt hs
      have hstw : Sorted tw := by rw [← happ] at hrest; exact sorted_of_append_left hrest
      have hsdw : Sorted dw := by rw [← happ] at hrest; exact sorted_of_append_right hrest
      have hktw : ∀ x ∈ tw, highbits x = highbits v0 := by
        intro x hx
        rw [← htw] at hx
        have := mem_takeWhile_sat _ rest x hx
        simpa using this
      have hkdw : ∀ x ∈ dw, highbits v0 < highbits x := by
        intro x hx
        rw [← hdw] at hx
        apply dropWhile_key rest hrest ?_ x hx
        intro y hy
        have := hgt y hy
        unfold highbits; omega
      have hlen : dw.length < fuel := by
        have : tw.length + dw.length = rest.length := by rw [← List.length_append, happ]
        simp at hl; omega
      have IH := ih dw hsdw hlen
      have hsub : ∀ x ∈ dw, x ∈ rest := fun x hx => by rw [← happ]; exact List.mem_append.mpr (Or.inr hx)
      have hsame : Sorted (v0 :: tw) := by
        apply sorted_cons hstw
        intro x hx; exact hgt x (by rw [← happ]; exact List.mem_append.mpr (Or.inl hx))
      have hksame : ∀ x ∈ v0 :: tw, highbits x = highbits v0 := by
        intro x hx
        rcases List.mem_cons.mp hx with rfl | hx
        · rfl
        · exact hktw x hx
      refine ⟨?_, ?_, ?_⟩
      · intro g hg
        rcases List.mem_cons.mp hg with rfl | hg
        · refine ⟨sorted_map_lowbits _ hsame hksame, ?_, v0, by simp, rfl⟩
          intro w hw
          rcases List.mem_map.mp hw with ⟨x, _, rfl⟩
          unfold lowbits; omega
        · obtain ⟨h1, h2, x, hx, h3⟩ := IH.1 g hg
          exact ⟨h1, h2, x, by simp [hsub x hx], h3⟩
      · rw [List.map_cons]
        apply sorted_cons IH.2.1
        intro key hkey
        rcases List.mem_map.mp hkey with ⟨g, hg, rfl⟩
        obtain ⟨_, _, x, hx, h3⟩ := IH.1 g hg
        rw [← h3]; exact hkdw x hx
      · intro v
        have hsplit : v ∈ v0 :: rest ↔ (v ∈ v0 :: tw ∨ v ∈ dw) := by
          rw [← happ]; simp [or_assoc]
        rw [hsplit, IH.2.2 v]
        constructor
        · rintro (h | ⟨g, hg, h⟩)
          · exact ⟨(highbits v0, (v0 :: tw).map lowbits), List.mem_cons.mpr (Or.inl rfl), hksame v h, List.mem_map.mpr ⟨v, h, rfl⟩⟩
          · exact ⟨g, by simp [hg], h⟩
        · rintro ⟨g, hg, h1, h2⟩
          rcases List.mem_cons.mp hg with rfl | hg
          · left
            rcases List.mem_map.mp h2 with ⟨x, hx, hxl⟩
            have hxk := hksame x hx
            have : x = v := by
              simp only at h1
              unfold highbits at h1 hxk; unfold lowbits at hxl
              omega
            rw [← this]; exact hx
          · exact Or.inr ⟨g, hg, h1, h2⟩

theorem arrayOrBitmap_values (vs : List Nat) : (arrayOrBitmap vs).values = vs := by
  unfold arrayOrBitmap; split <;> rfl

theorem arrayOrBitmap_wf {vs : List Nat} (hs : Sorted vs) (hlt : ∀ v ∈ vs, v < 65536) : (arrayOrBitmap vs).WF := by
  unfold arrayOrBitmap; split
  · exact ⟨hs, hlt⟩
  · exact ⟨hs, hlt, rfl⟩

theorem liveL_map_some (G : List (Nat × List Nat)) :
    liveL (G.map (fun g => (g.1, some (arrayOrBitmap g.2)))) = G.map (fun g => (g.1, arrayOrBitmap g.2)) := by
  induction G with
  | nil => rfl
  | cons g t ih => simp only [List.map_cons, liveL, ih]

theorem Bitmap.ofValues_spec (bt : Bool) (vs : List Nat) (hs : Sorted vs) (hlt : ∀ v ∈ vs, v < 2 ^ 64) :
    (Bitmap.ofValues bt vs).WF ∧ ∀ v, v ∈ (Bitmap.ofValues bt vs).values ↔ v ∈ vs := by
  have S := groupByKey_spec (vs.length + 1) vs hs (Nat.lt_succ_self _)
  have hwf : ∀ e ∈ (groupByKey (vs.length + 1) vs).map (fun g => (g.1, arrayOrBitmap g.2)), e.2.WF := by
    intro e he
    rcases List.mem_map.mp he with ⟨g, hg, rfl⟩
    exact arrayOrBitmap_wf (S.1 g hg).1 (S.1 g hg).2.1
  unfold Bitmap.ofValues
  refine ⟨⟨?_, ?_, ?_⟩, ?_⟩
  · apply keysAsc_of_sorted
    · rw [List.map_map]; exact S.2.1
    · intro e he
      rcases List.mem_map.mp he with ⟨g, hg, rfl⟩
      obtain ⟨_, _, x, hx, h3⟩ := S.1 g hg
      have := hlt x hx
      rw [pow64_eq] at this
      show g.1 ≤ maxContainerKey
      rw [maxKey_eq, ← h3]
      unfold highbits; omega
  · intro e he
    rcases List.mem_map.mp he with ⟨g, hg, rfl⟩
    exact arrayOrBitmap_wf (S.1 g hg).1 (S.1 g hg).2.1
  · intro _ e he
    rcases List.mem_map.mp he with ⟨g, hg, rfl⟩
    simp
  · intro v
    show v ∈ valuesL (liveL _) ↔ _
    rw [liveL_map_some, mem_valuesL hwf, S.2.2 v]
    constructor
    · rintro ⟨e, he, h1, h2⟩
      rcases List.mem_map.mp he with ⟨g, hg, rfl⟩
      rw [arrayOrBitmap_values] at h2
      exact ⟨g, hg, h1.symm, h2⟩
    · rintro ⟨g, hg, h1, h2⟩
      exact ⟨(g.1, arrayOrBitmap g.2), List.mem_map.mpr ⟨g, hg, rfl⟩, h1.symm, by rw [arrayOrBitmap_values]; exact h2⟩

/-! ### Bitmap.offsetRange -/

theorem offsetRangeLoop_spec (off hi0 hi1 : Nat) : ∀ (l : List (Nat × Container)),
    KeysSorted l → (∀ x ∈ l, x.2.WF) → (∀ x ∈ l, hi0 ≤ x.1) →
    (∀ e ∈ offsetRangeLoop off hi0 hi1 l, WFO e.2 ∧ ∃ x ∈ l, x.1 < hi1 ∧ e.1 = off + (x.1 - hi0)) ∧
    Sorted ((offsetRangeLoop off hi0 hi1 l).map (·.1)) ∧
    (∀ v, v ∈ valuesL (liveL (offsetRangeLoop off hi0 hi1 l)) ↔
      ∃ x ∈ l, x.1 < hi1 ∧ highbits v = off + (x.1 - hi0) ∧ lowbits v ∈ x.2.values) := by
  intro l
  induction l with
  | nil =>
    intro _ _ _
    simp [offsetRangeLoop, liveL, Sorted]
  | cons x rest ih =>
    intro hks hw hlo
    rcases x with ⟨k, c⟩
    have hc : c.WF := hw (k, c) (by simp)
    have hk0 : hi0 ≤ k := hlo (k, c) (by simp)
    have hgt := KeysSorted.lt hks
    have IH := ih (KeysSorted.tail hks) (fun x hx => hw x (by simp [hx])) (fun x hx => hlo x (by simp [hx]))
    simp only [offsetRangeLoop]
    by_cases hge : k ≥ hi1
    · rw [if_pos hge]
      refine ⟨by simp, trivial, ?_⟩
      intro v
      simp only [liveL, valuesL_nil, List.not_mem_nil, false_iff]
      rintro ⟨x, hx, h1, _⟩
      rcases List.mem_cons.mp hx with rfl | hx
      · simp only at h1; omega
      · have := hgt x hx; simp only at this; omega
    · rw [if_neg hge]
      refine ⟨?_, ?_, ?_⟩
      · intro e he
        rcases List.mem_cons.mp he with rfl | he
        · exact ⟨hc, (k, c), by simp, by simp only; omega, rfl⟩
        · obtain ⟨h1, x, hx, h2⟩ := IH.1 e he
          exact ⟨h1, x, by simp [hx], h2⟩
      · rw [List.map_cons]
        apply sorted_cons IH.2.1
        intro key hkey
        rcases List.mem_map.mp hkey with ⟨e, he, rfl⟩
        obtain ⟨_, x, hx, _, h3⟩ := IH.1 e he
        have := hgt x hx
        simp only at this ⊢
        omega
      · intro v
        simp only [liveL, valuesL_cons, List.mem_append, mem_valuesOf hc, IH.2.2 v]
        constructor
        · rintro (⟨h1, h2⟩ | ⟨x, hx, h⟩)
          · exact ⟨(k, c), by simp, by simp only; omega, h1, h2⟩
          · exact ⟨x, by simp [hx], h⟩
        · rintro ⟨x, hx, h1, h2, h3⟩
          rcases List.mem_cons.mp hx with rfl | hx
          · exact Or.inl ⟨h2, h3⟩
          · exact Or.inr ⟨x, hx, h1, h2, h3⟩

theorem Bitmap.offsetRange_spec {b : Bitmap} (h : b.WF) (offset s e : Nat)
    (ho : lowbits offset = 0) (hs : lowbits s = 0) (he : lowbits e = 0)
    (hfit : highbits offset + (highbits e - highbits s) ≤ maxContainerKey + 1) :
    ∃ r, b.offsetRange offset s e = some r ∧ r.WF ∧
      ∀ v, v ∈ r.values ↔ ∃ x ∈ b.values, s ≤ x ∧ x < e ∧ v = x - s + offset := by
  have hcond : ¬ (lowbits offset ≠ 0 ∨ lowbits s ≠ 0 ∨ lowbits e ≠ 0) := by
    rw [ho, hs, he]; simp
  unfold Bitmap.offsetRange
  rw [if_neg hcond]
  refine ⟨_, rfl, ?_⟩
  have hl : (b.iterFrom (highbits s)).1 = b.live.filter (fun x => x.1 ≥ highbits s) := by
    unfold Bitmap.iterFrom Bitmap.live
    exact liveL_filter b.cs (highbits s)
  rw [hl]
  have hmem : ∀ x, x ∈ b.live.filter (fun x => x.1 ≥ highbits s) ↔ (x ∈ b.live ∧ highbits s ≤ x.1) := by
    intro x; rw [List.mem_filter]; simp
  have S := offsetRangeLoop_spec (highbits offset) (highbits s) (highbits e)
    (b.live.filter (fun x => x.1 ≥ highbits s))
    (keysSorted_filter _ (Bitmap.live_keysSorted h))
    (fun x hx => Bitmap.live_wf h x ((hmem x).mp hx).1)
    (fun x hx => ((hmem x).mp hx).2)
  refine ⟨⟨?_, fun e he => (S.1 e he).1, by intro hh; cases hh⟩, ?_⟩
  · apply keysAsc_of_sorted S.2.1
    intro en hen
    obtain ⟨_, x, hx, h1, h2⟩ := S.1 en hen
    have := ((hmem x).mp hx).2
    rw [h2]
    omega
  · intro v
    show v ∈ valuesL (liveL _) ↔ _
    rw [S.2.2 v]
    unfold highbits lowbits at *
    constructor
    · rintro ⟨x, hx, h1, h2, h3⟩
      have hxl := (hmem x).mp hx
      have hlt := Container.values_lt (Bitmap.live_wf h x hxl.1) _ h3
      refine ⟨x.1 * 65536 + v % 65536, ?_, by omega, by omega, by omega⟩
      rw [Bitmap.mem_values h]
      refine ⟨x, hxl.1, ?_, ?_⟩
      · unfold highbits; omega
      · unfold lowbits
        have : (x.1 * 65536 + v % 65536) % 65536 = v % 65536 := by omega
        rw [this]; exact h3
    · rintro ⟨y, hy, h1, h2, h3⟩
      rw [Bitmap.mem_values h] at hy
      obtain ⟨x, hx, h4, h5⟩ := hy
      unfold highbits at h4; unfold lowbits at h5
      refine ⟨x, (hmem x).mpr ⟨hx, by omega⟩, by omega, by omega, ?_⟩
      have : v % 65536 = y % 65536 := by omega
      rw [this]; exact h5

end PV.C01
