/-
C01: decidability of the well-formedness predicates (used by the non-vacuity examples).
-/
import PV.C01.Bitmap
namespace PV.C01

instance decWFO (oc : Option Container) : Decidable (WFO oc) := by
  cases oc <;> unfold WFO <;> exact inferInstance

instance decKeysAsc : (cs : List Entry) → Decidable (KeysAsc cs)
  | [] => isTrue trivial
  | [e] => by unfold KeysAsc; exact inferInstance
  | a :: b :: rest =>
    match decKeysAsc (b :: rest) with
    | isTrue h => if h1 : a.1 < b.1 then isTrue ⟨h1, h⟩ else isFalse (fun hh => h1 hh.1)
    | isFalse h => isFalse (fun hh => h hh.2)

instance (b : Bitmap) : Decidable b.WF := by unfold Bitmap.WF; exact inferInstance

end PV.C01
