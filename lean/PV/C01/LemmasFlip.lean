/-
C01 helper lemmas, part 11: Bitmap.Flip.  Core Lean only.
-/
import PV.C01.LemmasL2Iter
import PV.C01.LemmasL2More
namespace PV.C01
open Spec

theorem Bitmap.values_lt {b : Bitmap} (h : b.WF) : ∀ v ∈ b.values, v < 2 ^ 64 := by
  intro v hv
  rcases (Bitmap.mem_values h v).mp hv with ⟨e, he, h1, h2⟩
  have hk := live_keys_le h e he
  have hl := Container.values_lt (Bitmap.live_wf h e he) _ h2
  rw [pow64_eq]
  rw [maxKey_eq] at hk
  unfold highbits lowbits at *
  omega

theorem takeWhile_lt_eq_filter {xs : List Nat} (h : Sorted xs) (s : Nat) :
    xs.takeWhile (fun x => decide (x < s)) = xs.filter (fun v => decide (v < s)) := by
  induction xs with
  | nil => rfl
  | cons a t ih =>
    rw [List.takeWhile_cons, List.filter_cons]
    by_cases h1 : a < s
    · have : decide (a < s) = true := by simp [h1]
      rw [if_pos this, if_pos this, ih (sorted_tail h)]
    · have : ¬ (decide (a < s) = true) := by simp [h1]
      rw [if_neg this, if_neg this]
      symm
      rw [List.filter_eq_nil_iff]
      intro x hx
      have := sorted_lt h x hx
      simp; omega

theorem flipMid_gt (f i e : Nat) (vs : List Nat) (h : i > e) : flipMid (f + 1) i e vs = ([], vs) := by
  simp only [flipMid]; rw [if_pos h]

theorem flipMid_nil (f i e : Nat) (h : ¬ i > e) :
    flipMid (f + 1) i e [] = (i :: (flipMid f (i + 1) e []).1, (flipMid f (i + 1) e []).2) := by
  simp only [flipMid]; rw [if_neg h]

theorem flipMid_eq (f i e : Nat) (vs : List Nat) (h : ¬ i > e) :
    flipMid (f + 1) i e (i :: vs) = flipMid f (i + 1) e vs := by
  simp only [flipMid]; rw [if_neg h]; simp

theorem flipMid_ne (f i e x : Nat) (vs : List Nat) (h : ¬ i > e) (hx : x ≠ i) :
    flipMid (f + 1) i e (x :: vs)
      = (i :: (flipMid f (i + 1) e (x :: vs)).1, (flipMid f (i + 1) e (x :: vs)).2) := by
  simp only [flipMid]; rw [if_neg h]; simp [hx]

/-- the middle loop of `Flip`. -/
theorem flipMid_spec : ∀ (fuel i e : Nat) (vs : List Nat), Sorted vs → (∀ v ∈ vs, i ≤ v) → e + 1 - i < fuel →
    Sorted ((flipMid fuel i e vs).1 ++ (flipMid fuel i e vs).2) ∧
    (∀ v ∈ (flipMid fuel i e vs).1 ++ (flipMid fuel i e vs).2, i ≤ v) ∧
    ∀ v, v ∈ (flipMid fuel i e vs).1 ++ (flipMid fuel i e vs).2 ↔
      ((i ≤ v ∧ v ≤ e ∧ v ∉ vs) ∨ (v ∈ vs ∧ e < v)) := by
  intro fuel
  induction fuel with
  | zero => intro i e vs _ _ hf; omega
  | succ fuel ih =>
    intro i e vs hs hlo hf
    by_cases hie : i > e
    · rw [flipMid_gt fuel i e vs hie]
      simp only [List.nil_append]
      refine ⟨hs, hlo, fun v => ?_⟩
      constructor
      · intro hv; exact Or.inr ⟨hv, by have := hlo v hv; omega⟩
      · rintro (⟨h1, h2, _⟩ | ⟨h1, _⟩)
        · omega
        · exact h1
    · cases vs with
      | nil =>
        have IH := ih (i + 1) e [] trivial (by simp) (by omega)
        rw [flipMid_nil fuel i e hie]
        simp only []
        rw [List.cons_append]
        refine ⟨sorted_cons IH.1 (fun x hx => by have := IH.2.1 x hx; omega), ?_, fun v => ?_⟩
        · intro v hv
          rcases List.mem_cons.mp hv with rfl | hv
          · exact Nat.le_refl _
          · have := IH.2.1 v hv; omega
        · rw [List.mem_cons, IH.2.2 v]
          simp only [List.not_mem_nil, not_false_eq_true, and_true, false_and, or_false]
          omega
      | cons x xs =>
        have hx := hlo x (by simp)
        have hgt := sorted_lt hs
        by_cases hxi : x = i
        · subst hxi
          rw [flipMid_eq fuel x e xs hie]
          have IH := ih (x + 1) e xs (sorted_tail hs) (fun v hv => by have := hgt v hv; omega) (by omega)
          refine ⟨IH.1, fun v hv => by have := IH.2.1 v hv; omega, fun v => ?_⟩
          rw [IH.2.2 v]
          simp only [List.mem_cons]
          have hnx : x ∉ xs := sorted_not_mem_head hs
          constructor
          · rintro (⟨h1, h2, h3⟩ | ⟨h1, h2⟩)
            · exact Or.inl ⟨by omega, h2, fun h => by rcases h with rfl | h; omega; exact h3 h⟩
            · exact Or.inr ⟨Or.inr h1, h2⟩
          · rintro (⟨h1, h2, h3⟩ | ⟨h1 | h1, h2⟩)
            · have : v ≠ x := fun e' => h3 (Or.inl e')
              exact Or.inl ⟨by omega, h2, fun h => h3 (Or.inr h)⟩
            · omega
            · exact Or.inr ⟨h1, h2⟩
        · rw [flipMid_ne fuel i e x xs hie hxi]
          have IH := ih (i + 1) e (x :: xs) hs (fun v hv => by
            rcases List.mem_cons.mp hv with rfl | hv
            · omega
            · have := hgt v hv; omega) (by omega)
          simp only []
          rw [List.cons_append]
          refine ⟨sorted_cons IH.1 (fun y hy => by have := IH.2.1 y hy; omega), ?_, fun v => ?_⟩
          · intro v hv
            rcases List.mem_cons.mp hv with rfl | hv
            · exact Nat.le_refl _
            · have := IH.2.1 v hv; omega
          · rw [List.mem_cons, IH.2.2 v]
            constructor
            · rintro (rfl | ⟨h1, h2, h3⟩ | h)
              · refine Or.inl ⟨Nat.le_refl _, by omega, fun h => ?_⟩
                rcases List.mem_cons.mp h with e' | h
                · exact hxi e'.symm
                · have := hgt v h; omega
              · exact Or.inl ⟨by omega, h2, h3⟩
              · exact Or.inr h
            · rintro (⟨h1, h2, h3⟩ | h)
              · by_cases hvi : v = i
                · exact Or.inl hvi
                · exact Or.inr (Or.inl ⟨by omega, h2, h3⟩)
              · exact Or.inr (Or.inr h)

/-- `Bitmap.Flip(s, e)` (closed range): membership is toggled exactly inside `[s, e]`. -/
theorem Bitmap.flip_spec {b : Bitmap} (h : b.WF) (s e : Nat) (hse : s ≤ e) (he : e < 2 ^ 64) :
    (b.flip s e).WF ∧
    ∀ v, v ∈ (b.flip s e).values ↔ ((v ∈ b.values ∧ ¬ (s ≤ v ∧ v ≤ e)) ∨ (v ∉ b.values ∧ s ≤ v ∧ v ≤ e)) := by
  have hs := Bitmap.values_sorted h
  have hlt := Bitmap.values_lt h
  unfold Bitmap.flip
  simp only []
  rw [Bitmap.slice_spec h, takeWhile_lt_eq_filter hs s, dropWhile_lt_eq_filter hs s]
  have hf2 : Sorted (b.values.filter (fun v => decide (s ≤ v))) := sorted_filter _ hs
  have M := flipMid_spec (e + 1 - s + 1) s e _ hf2
    (fun v hv => by simpa using (List.mem_filter.mp hv).2) (by omega)
  -- the list handed to the DirectAdd loop
  have hsorted : Sorted (b.values.filter (fun v => decide (v < s)) ++
      (flipMid (e + 1 - s + 1) s e (b.values.filter (fun v => decide (s ≤ v)))).1 ++
      (flipMid (e + 1 - s + 1) s e (b.values.filter (fun v => decide (s ≤ v)))).2) := by
    rw [List.append_assoc]
    apply sorted_append (sorted_filter _ hs) M.1
    intro x hx y hy
    have h1 : x < s := by simpa using (List.mem_filter.mp hx).2
    have := M.2.1 y hy
    omega
  have hmem : ∀ v, v ∈ (b.values.filter (fun v => decide (v < s)) ++
      (flipMid (e + 1 - s + 1) s e (b.values.filter (fun v => decide (s ≤ v)))).1 ++
      (flipMid (e + 1 - s + 1) s e (b.values.filter (fun v => decide (s ≤ v)))).2) ↔
      ((v ∈ b.values ∧ ¬ (s ≤ v ∧ v ≤ e)) ∨ (v ∉ b.values ∧ s ≤ v ∧ v ≤ e)) := by
    intro v
    rw [List.append_assoc, List.mem_append, M.2.2 v]
    simp only [List.mem_filter, decide_eq_true_eq]
    constructor
    · rintro (⟨h1, h2⟩ | ⟨h1, h2, h3⟩ | ⟨⟨h1, h2⟩, h3⟩)
      · exact Or.inl ⟨h1, by omega⟩
      · exact Or.inr ⟨fun hm => h3 ⟨hm, h1⟩, h1, h2⟩
      · exact Or.inl ⟨h1, by omega⟩
    · rintro (⟨h1, h2⟩ | ⟨h1, h2, h3⟩)
      · by_cases hvs : v < s
        · exact Or.inl ⟨h1, hvs⟩
        · exact Or.inr (Or.inr ⟨⟨h1, by omega⟩, by omega⟩)
      · exact Or.inr (Or.inl ⟨h2, h3, fun hm => h1 hm.1⟩)
  have hbound : ∀ v ∈ (b.values.filter (fun v => decide (v < s)) ++
      (flipMid (e + 1 - s + 1) s e (b.values.filter (fun v => decide (s ≤ v)))).1 ++
      (flipMid (e + 1 - s + 1) s e (b.values.filter (fun v => decide (s ≤ v)))).2), v < 2 ^ 64 := by
    intro v hv
    rcases (hmem v).mp hv with ⟨h1, _⟩ | ⟨_, _, h3⟩
    · exact hlt v h1
    · omega
  have O := Bitmap.ofValues_spec false _ hsorted hbound
  exact ⟨O.1, fun v => (O.2 v).trans (hmem v)⟩

end PV.C01
