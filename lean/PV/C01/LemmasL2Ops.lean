/-
C01 helper lemmas, part 7: the key-merge loops of the Bitmap-level binary operations, given the
correctness of the container kernel.  Core Lean only.
-/
import PV.C01.LemmasL2
namespace PV.C01
open Spec

/-- what is assumed of a container kernel `both` implementing the Boolean operation `f`. -/
def KernelOK (both : Container → Container → Option Container) (f : Bool → Bool → Bool) : Prop :=
  ∀ x y, x.WF → y.WF → WFO (both x y) ∧ ∀ v, memO (both x y) v = f (mem x v) (mem y v)

theorem liveL_append (a b : List Entry) : liveL (a ++ b) = liveL a ++ liveL b := by
  induction a with
  | nil => rfl
  | cons e t ih =>
    rcases e with ⟨k, oc⟩
    cases oc with
    | none => simp only [List.cons_append, liveL]; exact ih
    | some c => simp only [List.cons_append, liveL, ih]

theorem valuesL_append (a b : List (Nat × Container)) : valuesL (a ++ b) = valuesL a ++ valuesL b := by
  simp [valuesL, List.flatMap_append]

theorem liveL_length_le (cs : List Entry) : (liveL cs).length ≤ cs.length := by
  induction cs with
  | nil => simp [liveL]
  | cons e t ih =>
    rcases e with ⟨k, oc⟩
    cases oc with
    | none => simp only [liveL, List.length_cons]; omega
    | some c => simp only [liveL, List.length_cons]; omega

/-- a value whose key is not a key of the list is not in the list. -/
theorem not_mem_valuesL_of_key {l : List (Nat × Container)} (hw : ∀ x ∈ l, x.2.WF) (v : Nat)
    (h : ∀ x ∈ l, x.1 ≠ highbits v) : v ∉ valuesL l := by
  rw [mem_valuesL hw]
  rintro ⟨x, hx, h1, _⟩
  exact h x hx h1

theorem keysAsc_of_sorted {R : List Entry} (h : Sorted (R.map (·.1))) (hb : ∀ e ∈ R, e.1 ≤ maxContainerKey) :
    KeysAsc R := by
  induction R with
  | nil => trivial
  | cons a t ih =>
    cases t with
    | nil => exact hb a (by simp)
    | cons b u =>
      rw [List.map_cons, List.map_cons] at h
      exact ⟨h.1, ih (by rw [List.map_cons]; exact h.2) (fun e he => hb e (by simp [he]))⟩

/-- `f p false` and `f false q` in terms of the copy flags. -/
theorem f_right_false {f : Bool → Bool → Bool} {onlyA : Bool} (h00 : f false false = false)
    (h10 : f true false = onlyA) (p : Bool) : f p false = (p && onlyA) := by
  cases p <;> simp [h00, h10]

theorem f_left_false {f : Bool → Bool → Bool} {onlyB : Bool} (h00 : f false false = false)
    (h01 : f false true = onlyB) (q : Bool) : f false q = (q && onlyB) := by
  cases q <;> simp [h00, h01]

/-- membership of `v` in a one-entry output. -/
theorem mem_single (k : Nat) (c : Container) (flag : Bool) (v : Nat) :
    v ∈ valuesL (liveL (if flag then [(k, some c)] else [])) ↔ (flag = true ∧ v ∈ valuesOf k c) := by
  cases flag <;> simp [liveL, valuesL]

section merge
variable (onlyA onlyB : Bool) (both : Container → Container → Option Container) (f : Bool → Bool → Bool)
variable (h00 : f false false = false) (h10 : f true false = onlyA) (h01 : f false true = onlyB)
variable (hk : KernelOK both f)
include h00 h10 h01 hk

theorem mergeLoop_spec : ∀ (fuel : Nat) (la lb : List (Nat × Container)),
    KeysSorted la → KeysSorted lb → (∀ x ∈ la, x.2.WF) → (∀ y ∈ lb, y.2.WF) → la.length + lb.length ≤ fuel →
    (∀ e ∈ mergeLoop onlyA onlyB both fuel la lb, (∃ x ∈ la, x.1 = e.1) ∨ (∃ y ∈ lb, y.1 = e.1)) ∧
    Sorted ((mergeLoop onlyA onlyB both fuel la lb).map (·.1)) ∧
    (∀ e ∈ mergeLoop onlyA onlyB both fuel la lb, WFO e.2) ∧
    (∀ v, v ∈ valuesL (liveL (mergeLoop onlyA onlyB both fuel la lb))
        ↔ f (decide (v ∈ valuesL la)) (decide (v ∈ valuesL lb)) = true) := by
  intro fuel
  induction fuel with
  | zero =>
    intro la lb _ _ _ _ hl
    have h1 : la = [] := List.length_eq_zero_iff.mp (by omega)
    have h2 : lb = [] := List.length_eq_zero_iff.mp (by omega)
    subst h1 h2
    simp [mergeLoop, Sorted, liveL, h00]
  | succ fuel ih =>
    intro la lb hka hkb hwa hwb hl
    match la, lb with
    | [], [] => simp [mergeLoop, Sorted, liveL, h00]
    | (ki, ci) :: ia, [] =>
      have hci : ci.WF := hwa (ki, ci) (by simp)
      have hwia : ∀ x ∈ ia, x.2.WF := fun x hx => hwa x (by simp [hx])
      have hgt := KeysSorted.lt hka
      have IH := ih ia [] (KeysSorted.tail hka) hkb hwia hwb (by simp at hl ⊢; omega)
      simp only [mergeLoop]
      refine ⟨?_, ?_, ?_, ?_⟩
      · intro e he
        rcases List.mem_append.mp he with he | he
        · cases onlyA <;> simp at he
          subst he; exact Or.inl ⟨(ki, ci), by simp, rfl⟩
        · rcases IH.1 e he with ⟨x, hx, h⟩ | ⟨y, hy, _⟩
          · exact Or.inl ⟨x, by simp [hx], h⟩
          · cases hy
      · rw [List.map_append]
        apply sorted_append
        · cases onlyA <;> simp [Sorted]
        · exact IH.2.1
        · intro a ha b hb
          have ha' : a = ki := by cases onlyA <;> simp at ha; exact ha
          rcases List.mem_map.mp hb with ⟨e, he, rfl⟩
          rcases IH.1 e he with ⟨x, hx, h⟩ | ⟨y, hy, _⟩
          · have := hgt x hx; simp only at this; omega
          · cases hy
      · intro e he
        rcases List.mem_append.mp he with he | he
        · cases onlyA <;> simp at he
          subst he; exact hci
        · exact IH.2.2.1 e he
      · intro v
        rw [liveL_append, valuesL_append, List.mem_append, mem_single ki ci onlyA, IH.2.2.2 v]
        simp only [valuesL_nil, List.not_mem_nil, decide_false, valuesL_cons, List.mem_append]
        rw [f_right_false h00 h10, f_right_false h00 h10]
        by_cases h1 : v ∈ valuesOf ki ci <;> by_cases h2 : v ∈ valuesL ia <;> cases onlyA <;> simp [h1, h2]
    | [], (kj, cj) :: jb =>
      have hcj : cj.WF := hwb (kj, cj) (by simp)
      have hwjb : ∀ y ∈ jb, y.2.WF := fun y hy => hwb y (by simp [hy])
      have hgt := KeysSorted.lt hkb
      have IH := ih [] jb hka (KeysSorted.tail hkb) hwa hwjb (by simp at hl ⊢; omega)
      simp only [mergeLoop]
      refine ⟨?_, ?_, ?_, ?_⟩
      · intro e he
        rcases List.mem_append.mp he with he | he
        · cases onlyB <;> simp at he
          subst he; exact Or.inr ⟨(kj, cj), by simp, rfl⟩
        · rcases IH.1 e he with ⟨x, hx, _⟩ | ⟨y, hy, h⟩
          · cases hx
          · exact Or.inr ⟨y, by simp [hy], h⟩
      · rw [List.map_append]
        apply sorted_append
        · cases onlyB <;> simp [Sorted]
        · exact IH.2.1
        · intro a ha b hb
          have ha' : a = kj := by cases onlyB <;> simp at ha; exact ha
          rcases List.mem_map.mp hb with ⟨e, he, rfl⟩
          rcases IH.1 e he with ⟨x, hx, _⟩ | ⟨y, hy, h⟩
          · cases hx
          · have := hgt y hy; simp only at this; omega
      · intro e he
        rcases List.mem_append.mp he with he | he
        · cases onlyB <;> simp at he
          subst he; exact hcj
        · exact IH.2.2.1 e he
      · intro v
        rw [liveL_append, valuesL_append, List.mem_append, mem_single kj cj onlyB, IH.2.2.2 v]
        simp only [valuesL_nil, List.not_mem_nil, decide_false, valuesL_cons, List.mem_append]
        rw [f_left_false h00 h01, f_left_false h00 h01]
        by_cases h1 : v ∈ valuesOf kj cj <;> by_cases h2 : v ∈ valuesL jb <;> cases onlyB <;> simp [h1, h2]
    | (ki, ci) :: ia, (kj, cj) :: jb =>
      have hci : ci.WF := hwa (ki, ci) (by simp)
      have hcj : cj.WF := hwb (kj, cj) (by simp)
      have hwia : ∀ x ∈ ia, x.2.WF := fun x hx => hwa x (by simp [hx])
      have hwjb : ∀ y ∈ jb, y.2.WF := fun y hy => hwb y (by simp [hy])
      have hgta := KeysSorted.lt hka
      have hgtb := KeysSorted.lt hkb
      simp only [mergeLoop]
      by_cases hlt : ki < kj
      · rw [if_pos hlt]
        have IH := ih ia ((kj, cj) :: jb) (KeysSorted.tail hka) hkb hwia hwb (by simp at hl ⊢; omega)
        refine ⟨?_, ?_, ?_, ?_⟩
        · intro e he
          rcases List.mem_append.mp he with he | he
          · cases onlyA <;> simp at he
            subst he; exact Or.inl ⟨(ki, ci), by simp, rfl⟩
          · rcases IH.1 e he with ⟨x, hx, h⟩ | ⟨y, hy, h⟩
            · exact Or.inl ⟨x, by simp [hx], h⟩
            · exact Or.inr ⟨y, hy, h⟩
        · rw [List.map_append]
          apply sorted_append
          · cases onlyA <;> simp [Sorted]
          · exact IH.2.1
          · intro a ha b hb
            have ha' : a = ki := by cases onlyA <;> simp at ha; exact ha
            rcases List.mem_map.mp hb with ⟨e, he, rfl⟩
            rcases IH.1 e he with ⟨x, hx, h⟩ | ⟨y, hy, h⟩
            · have := hgta x hx; simp only at this; omega
            · rcases List.mem_cons.mp hy with rfl | hy
              · simp only at h; omega
              · have := hgtb y hy; simp only at this; omega
        · intro e he
          rcases List.mem_append.mp he with he | he
          · cases onlyA <;> simp at he
            subst he; exact hci
          · exact IH.2.2.1 e he
        · intro v
          rw [liveL_append, valuesL_append, List.mem_append, mem_single ki ci onlyA, IH.2.2.2 v]
          rw [valuesL_cons (ki, ci) ia]
          simp only [List.mem_append]
          by_cases h1 : v ∈ valuesOf ki ci
          · have hkey : highbits v = ki := ((mem_valuesOf hci v).mp h1).1
            have hnia : v ∉ valuesL ia := not_mem_valuesL_of_key hwia v (fun x hx => by
              have := hgta x hx; simp only at this; omega)
            have hnb : v ∉ valuesL ((kj, cj) :: jb) := not_mem_valuesL_of_key hwb v (fun y hy => by
              rcases List.mem_cons.mp hy with rfl | hy
              · simp only; omega
              · have := hgtb y hy; simp only at this; omega)
            have hnb1 : v ∉ valuesOf kj cj := fun hm => hnb (by rw [valuesL_cons]; exact List.mem_append.mpr (Or.inl hm))
            have hnb2 : v ∉ valuesL jb := fun hm => hnb (by rw [valuesL_cons]; exact List.mem_append.mpr (Or.inr hm))
            simp [h1, hnia, hnb1, hnb2, h00, h10]
          · simp [h1]
      · rw [if_neg hlt]
        by_cases hgt : ki > kj
        · rw [if_pos hgt]
          have IH := ih ((ki, ci) :: ia) jb hka (KeysSorted.tail hkb) hwa hwjb (by simp at hl ⊢; omega)
          refine ⟨?_, ?_, ?_, ?_⟩
          · intro e he
            rcases List.mem_append.mp he with he | he
            · cases onlyB <;> simp at he
              subst he; exact Or.inr ⟨(kj, cj), by simp, rfl⟩
            · rcases IH.1 e he with ⟨x, hx, h⟩ | ⟨y, hy, h⟩
              · exact Or.inl ⟨x, hx, h⟩
              · exact Or.inr ⟨y, by simp [hy], h⟩
          · rw [List.map_append]
            apply sorted_append
            · cases onlyB <;> simp [Sorted]
            · exact IH.2.1
            · intro a ha b hb
              have ha' : a = kj := by cases onlyB <;> simp at ha; exact ha
              rcases List.mem_map.mp hb with ⟨e, he, rfl⟩
              rcases IH.1 e he with ⟨x, hx, h⟩ | ⟨y, hy, h⟩
              · rcases List.mem_cons.mp hx with rfl | hx
                · simp only at h; omega
                · have := hgta x hx; simp only at this; omega
              · have := hgtb y hy; simp only at this; omega
          · intro e he
            rcases List.mem_append.mp he with he | he
            · cases onlyB <;> simp at he
              subst he; exact hcj
            · exact IH.2.2.1 e he
          · intro v
            rw [liveL_append, valuesL_append, List.mem_append, mem_single kj cj onlyB, IH.2.2.2 v]
            rw [valuesL_cons (kj, cj) jb]
            simp only [List.mem_append]
            by_cases h1 : v ∈ valuesOf kj cj
            · have hkey : highbits v = kj := ((mem_valuesOf hcj v).mp h1).1
              have hnjb : v ∉ valuesL jb := not_mem_valuesL_of_key hwjb v (fun y hy => by
                have := hgtb y hy; simp only at this; omega)
              have hna : v ∉ valuesL ((ki, ci) :: ia) := not_mem_valuesL_of_key hwa v (fun x hx => by
                rcases List.mem_cons.mp hx with rfl | hx
                · simp only; omega
                · have := hgta x hx; simp only at this; omega)
              have hna1 : v ∉ valuesOf ki ci := fun hm => hna (by rw [valuesL_cons]; exact List.mem_append.mpr (Or.inl hm))
              have hna2 : v ∉ valuesL ia := fun hm => hna (by rw [valuesL_cons]; exact List.mem_append.mpr (Or.inr hm))
              simp [h1, hnjb, hna1, hna2, h00, h01]
            · simp [h1]
        · rw [if_neg hgt]
          have hkeq : ki = kj := by omega
          subst hkeq
          have IH := ih ia jb (KeysSorted.tail hka) (KeysSorted.tail hkb) hwia hwjb (by simp at hl ⊢; omega)
          have hker := hk ci cj hci hcj
          refine ⟨?_, ?_, ?_, ?_⟩
          · intro e he
            rcases List.mem_cons.mp he with rfl | he
            · exact Or.inl ⟨(ki, ci), by simp, rfl⟩
            · rcases IH.1 e he with ⟨x, hx, h⟩ | ⟨y, hy, h⟩
              · exact Or.inl ⟨x, by simp [hx], h⟩
              · exact Or.inr ⟨y, by simp [hy], h⟩
          · rw [List.map_cons]
            apply sorted_cons IH.2.1
            intro b hb
            rcases List.mem_map.mp hb with ⟨e, he, rfl⟩
            rcases IH.1 e he with ⟨x, hx, h⟩ | ⟨y, hy, h⟩
            · have := hgta x hx; simp only at this ⊢; omega
            · have := hgtb y hy; simp only at this ⊢; omega
          · intro e he
            rcases List.mem_cons.mp he with rfl | he
            · exact hker.1
            · exact IH.2.2.1 e he
          · intro v
            rw [valuesL_cons (ki, ci) ia, valuesL_cons (ki, cj) jb]
            simp only [List.mem_append]
            have hhead : v ∈ valuesL (liveL ((ki, both ci cj) :: mergeLoop onlyA onlyB both fuel ia jb))
                ↔ ((highbits v = ki ∧ memO (both ci cj) (lowbits v) = true) ∨
                    v ∈ valuesL (liveL (mergeLoop onlyA onlyB both fuel ia jb))) := by
              cases hb : both ci cj with
              | none => simp [liveL, memO]
              | some r =>
                have hr : r.WF := by have := hker.1; rw [hb] at this; exact this
                simp only [liveL, valuesL_cons, List.mem_append, mem_valuesOf hr, memO]
                have := mem_iff hr (lowbits v)
                unfold mem at this
                rw [this]
            rw [hhead, IH.2.2.2 v]
            by_cases hkey : highbits v = ki
            · have hnia : v ∉ valuesL ia := not_mem_valuesL_of_key hwia v (fun x hx => by
                have := hgta x hx; simp only at this; omega)
              have hnjb : v ∉ valuesL jb := not_mem_valuesL_of_key hwjb v (fun y hy => by
                have := hgtb y hy; simp only at this; omega)
              rw [hker.2 (lowbits v), mem_eq hci, mem_eq hcj]
              have e1 : v ∈ valuesOf ki ci ↔ lowbits v ∈ ci.values := by
                rw [mem_valuesOf hci]; simp [hkey]
              have e2 : v ∈ valuesOf ki cj ↔ lowbits v ∈ cj.values := by
                rw [mem_valuesOf hcj]; simp [hkey]
              simp only [hnia, hnjb, decide_false, h00, or_false, hkey, true_and, Bool.false_eq_true]
              rw [decide_eq_decide.mpr e1, decide_eq_decide.mpr e2]
            · have e1 : v ∉ valuesOf ki ci := by rw [mem_valuesOf hci]; simp [hkey]
              have e2 : v ∉ valuesOf ki cj := by rw [mem_valuesOf hcj]; simp [hkey]
              simp [hkey, e1, e2]

end merge

/-! ### the Bitmap-level statements -/

theorem live_keys_le {b : Bitmap} (h : b.WF) : ∀ x ∈ b.live, x.1 ≤ maxContainerKey := by
  intro x hx
  rcases x with ⟨k, c⟩
  exact KeysAsc.le_max h.1 (k, some c) (mem_liveL.mp hx)

/-- from the loop lemma to a statement about the result bitmap. -/
theorem merge_bitmap_spec (onlyA onlyB : Bool) (both : Container → Container → Option Container)
    (f : Bool → Bool → Bool) (h00 : f false false = false) (h10 : f true false = onlyA)
    (h01 : f false true = onlyB) (hk : KernelOK both f) {a b : Bitmap} (ha : a.WF) (hb : b.WF) :
    let r : Bitmap := ⟨false, mergeLoop onlyA onlyB both (a.cs.length + b.cs.length + 1) a.live b.live⟩
    r.WF ∧ ∀ v, v ∈ r.values ↔ f (decide (v ∈ a.values)) (decide (v ∈ b.values)) = true := by
  have hl : a.live.length + b.live.length ≤ a.cs.length + b.cs.length + 1 := by
    have := liveL_length_le a.cs; have := liveL_length_le b.cs
    unfold Bitmap.live; omega
  have S := mergeLoop_spec onlyA onlyB both f h00 h10 h01 hk _ a.live b.live
    (Bitmap.live_keysSorted ha) (Bitmap.live_keysSorted hb) (Bitmap.live_wf ha) (Bitmap.live_wf hb) hl
  refine ⟨⟨?_, S.2.2.1, by intro h; cases h⟩, S.2.2.2⟩
  apply keysAsc_of_sorted S.2.1
  intro e he
  rcases S.1 e he with ⟨x, hx, h⟩ | ⟨y, hy, h⟩
  · rw [← h]; exact live_keys_le ha x hx
  · rw [← h]; exact live_keys_le hb y hy

theorem Bitmap.union1_spec (hk : KernelOK (fun x y => some (PV.C01.union x y)) (fun p q => p || q))
    {a b : Bitmap} (ha : a.WF) (hb : b.WF) :
    (a.union1 b).WF ∧ ∀ v, v ∈ (a.union1 b).values ↔ (v ∈ a.values ∨ v ∈ b.values) := by
  have := merge_bitmap_spec true true _ (fun p q => p || q) rfl rfl rfl hk ha hb
  refine ⟨this.1, fun v => ?_⟩
  rw [show (a.union1 b).values = _ from rfl]
  have h2 := this.2 v
  unfold Bitmap.union1
  rw [h2]; simp

theorem Bitmap.difference_spec (hk : KernelOK PV.C01.difference (fun p q => p && !q))
    {a b : Bitmap} (ha : a.WF) (hb : b.WF) :
    (a.difference b).WF ∧ ∀ v, v ∈ (a.difference b).values ↔ (v ∈ a.values ∧ v ∉ b.values) := by
  have := merge_bitmap_spec true false _ (fun p q => p && !q) rfl rfl rfl hk ha hb
  refine ⟨this.1, fun v => ?_⟩
  have h2 := this.2 v
  unfold Bitmap.difference
  rw [h2]; simp

theorem Bitmap.xor_spec (hk : KernelOK PV.C01.xor (fun p q => p != q))
    {a b : Bitmap} (ha : a.WF) (hb : b.WF) :
    (a.xor b).WF ∧ ∀ v, v ∈ (a.xor b).values ↔ ((v ∈ a.values ∧ v ∉ b.values) ∨ (v ∉ a.values ∧ v ∈ b.values)) := by
  have := merge_bitmap_spec true true _ (fun p q => p != q) rfl rfl rfl hk ha hb
  refine ⟨this.1, fun v => ?_⟩
  have h2 := this.2 v
  unfold Bitmap.xor
  rw [h2]
  by_cases h1 : v ∈ a.values <;> by_cases h3 : v ∈ b.values <;> simp [h1, h3]

/-- `intersectLoop` is the merge loop that copies nothing. -/
theorem mergeLoop_nil_right (both : Container → Container → Option Container) :
    ∀ (fuel : Nat) (la : List (Nat × Container)), mergeLoop false false both fuel la [] = [] := by
  intro fuel
  induction fuel with
  | zero => intro la; rfl
  | succ fuel ih =>
    intro la
    cases la with
    | nil => rfl
    | cons x t => rcases x with ⟨k, c⟩; simp [mergeLoop, ih]

theorem mergeLoop_nil_left (both : Container → Container → Option Container) :
    ∀ (fuel : Nat) (lb : List (Nat × Container)), mergeLoop false false both fuel [] lb = [] := by
  intro fuel
  induction fuel with
  | zero => intro lb; rfl
  | succ fuel ih =>
    intro lb
    cases lb with
    | nil => rfl
    | cons x t => rcases x with ⟨k, c⟩; simp [mergeLoop, ih]

theorem intersectLoop_eq : ∀ (fuel : Nat) (la lb : List (Nat × Container)),
    intersectLoop fuel la lb = mergeLoop false false PV.C01.intersect fuel la lb := by
  intro fuel
  induction fuel with
  | zero => intro la lb; rfl
  | succ fuel ih =>
    intro la lb
    match la, lb with
    | [], [] => rfl
    | (ki, ci) :: ia, [] => simp [intersectLoop, mergeLoop, mergeLoop_nil_right]
    | [], (kj, cj) :: jb => simp [intersectLoop, mergeLoop, mergeLoop_nil_left]
    | (ki, ci) :: ia, (kj, cj) :: jb =>
      simp only [intersectLoop, mergeLoop, ih]
      simp

theorem Bitmap.intersect_spec (hk : KernelOK PV.C01.intersect (fun p q => p && q))
    {a b : Bitmap} (ha : a.WF) (hb : b.WF) :
    (a.intersect b).WF ∧ ∀ v, v ∈ (a.intersect b).values ↔ (v ∈ a.values ∧ v ∈ b.values) := by
  have := merge_bitmap_spec false false _ (fun p q => p && q) rfl rfl rfl hk ha hb
  unfold Bitmap.intersect
  rw [intersectLoop_eq]
  refine ⟨this.1, fun v => ?_⟩
  rw [this.2 v]; simp

end PV.C01
