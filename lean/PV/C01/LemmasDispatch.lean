/-
C01 helper lemmas, part 10: the container-level dispatchers `intersect`, `union`, `difference`,
`xor`, `intersectionCount` for every pairing of encodings.  Core Lean only.
-/
import PV.C01.LemmasKernels
import PV.C01.LemmasRR
namespace PV.C01
open Spec

/-! ### intersect -/

theorem intersect_spec {a b : Container} (ha : a.WF) (hb : b.WF) :
    WFO (intersect a b) ∧ ∀ v, v ∈ valuesO (intersect a b) ↔ (v ∈ a.values ∧ v ∈ b.values) := by
  unfold intersect
  by_cases h1 : a.n = 65536
  · rw [if_pos h1]
    refine ⟨hb, fun v => ⟨fun hv => ⟨full_mem ha h1 v (Container.values_lt hb v hv), hv⟩, fun hv => hv.2⟩⟩
  · rw [if_neg h1]
    by_cases h2 : b.n = 65536
    · rw [if_pos h2]
      refine ⟨ha, fun v => ⟨fun hv => ⟨hv, full_mem hb h2 v (Container.values_lt ha v hv)⟩, fun hv => hv.1⟩⟩
    · rw [if_neg h2]
      by_cases h3 : a.n = 0 ∨ b.n = 0
      · rw [if_pos h3]
        refine ⟨trivial, fun v => ?_⟩
        rcases h3 with h3 | h3
        · simp [valuesO, empty_values ha h3]
        · simp [valuesO, empty_values hb h3]
      · rw [if_neg h3]
        cases a with
        | array xa =>
          cases b with
          | array xb =>
            have S := intersectArrayArray_spec (xa.length + xb.length + 1) xa xb ha.1 hb.1 (by omega)
            exact ⟨⟨S.1, fun v hv => ha.2 v ((S.2 v).mp hv).1⟩, S.2⟩
          | run nb rb =>
            have S := intersectArrayRun_spec (xa.length + rb.length + 1) xa rb ha.1 hb.1 (by omega)
            refine ⟨⟨S.1, fun v hv => ha.2 v ((S.2 v).mp hv).1⟩, fun v => ?_⟩
            show v ∈ intersectArrayRun _ xa rb ↔ (v ∈ xa ∧ v ∈ runValues rb)
            rw [S.2 v, mem_runValues]
          | bitmap nb bb =>
            exact ⟨⟨sorted_inter ha.1 hb.1, inter_lt ha.2 hb.2.1⟩, fun v => mem_inter ha.1 hb.1 v⟩
        | run na ra =>
          cases b with
          | array xb =>
            have S := intersectArrayRun_spec (xb.length + ra.length + 1) xb ra hb.1 ha.1 (by omega)
            refine ⟨⟨S.1, fun v hv => hb.2 v ((S.2 v).mp hv).1⟩, fun v => ?_⟩
            show v ∈ intersectArrayRun _ xb ra ↔ (v ∈ runValues ra ∧ v ∈ xb)
            rw [S.2 v, mem_runValues]; exact And.comm
          | run nb rb =>
            have S := intersectRunRunEmit_spec (ra.length + rb.length + 1) ra rb ha.1 hb.1 (by omega)
            have E := appendAll_enc S.1
            have key : ∀ w, inRuns (intersectRunRunEmit (ra.length + rb.length + 1) ra rb) w = true ↔
                (w ∈ runValues ra ∧ w ∈ runValues rb) := by
              intro w; rw [S.2 w, mem_runValues, mem_runValues]; simp
            show WFO (some (intersectRunRun ra rb)) ∧ ∀ v, v ∈ (intersectRunRun ra rb).values ↔ _
            unfold intersectRunRun
            simp only []
            split
            · exact ⟨E.1.1, fun v => (E.1.2 v).trans (key v)⟩
            · split
              · exact ⟨E.2.1.1, fun v => (E.2.1.2 v).trans (key v)⟩
              · exact ⟨E.2.2.1, fun v => (E.2.2.2 v).trans (key v)⟩
          | bitmap nb bb =>
            have hs := sorted_inter hb.1 (runValues_sorted ha.1)
            have hl := inter_lt hb.2.1 (runValues_lt ha.1)
            have hm : ∀ v, v ∈ Spec.inter bb (runValues ra) ↔ (v ∈ runValues ra ∧ v ∈ bb) :=
              fun v => (mem_inter hb.1 (runValues_sorted ha.1) v).trans And.comm
            show WFO (some (intersectBitmapRun nb bb na ra)) ∧ ∀ v, v ∈ (intersectBitmapRun nb bb na ra).values ↔ _
            unfold intersectBitmapRun
            simp only []
            split
            · exact ⟨⟨hs, hl⟩, hm⟩
            · exact ⟨⟨hs, hl, rfl⟩, hm⟩
        | bitmap na ba =>
          cases b with
          | array xb =>
            exact ⟨⟨sorted_inter hb.1 ha.1, inter_lt hb.2 ha.2.1⟩,
              fun v => (mem_inter hb.1 ha.1 v).trans And.comm⟩
          | run nb rb =>
            have hs := sorted_inter ha.1 (runValues_sorted hb.1)
            have hl := inter_lt ha.2.1 (runValues_lt hb.1)
            have hm : ∀ v, v ∈ Spec.inter ba (runValues rb) ↔ (v ∈ ba ∧ v ∈ runValues rb) :=
              fun v => mem_inter ha.1 (runValues_sorted hb.1) v
            show WFO (some (intersectBitmapRun na ba nb rb)) ∧ ∀ v, v ∈ (intersectBitmapRun na ba nb rb).values ↔ _
            unfold intersectBitmapRun
            simp only []
            split
            · exact ⟨⟨hs, hl⟩, hm⟩
            · exact ⟨⟨hs, hl, rfl⟩, hm⟩
          | bitmap nb bb =>
            exact ⟨⟨sorted_inter ha.1 hb.1, inter_lt ha.2.1 hb.2.1, rfl⟩, fun v => mem_inter ha.1 hb.1 v⟩


/-! ### union -/

theorem fullContainer_spec : fullContainer.WF ∧ ∀ v, v ∈ fullContainer.values ↔ v < 65536 := by
  refine ⟨⟨⟨Nat.zero_le _, Nat.le_refl _⟩, rfl⟩, fun v => ?_⟩
  show v ∈ runValues [⟨0, 65535⟩] ↔ _
  rw [mem_runValues]; simp [inIv]; omega

/-- `n + (|vs| - |bits|)` is `|vs|` when `n = |bits|` and `bits ⊆ vs`. -/
theorem grown_n {n : Nat} {bits vs : List Nat} (hn : n = bits.length) (hb : Sorted bits) (hv : Sorted vs)
    (hlt : ∀ v ∈ vs, v < 65536) (hsub : ∀ v ∈ bits, v ∈ vs) : n + (vs.length - bits.length) = vs.length := by
  have := sorted_subset_length_le hb hv hlt hsub
  omega

theorem union_spec {a b : Container} (ha : a.WF) (hb : b.WF) :
    (union a b).WF ∧ ∀ v, v ∈ (union a b).values ↔ (v ∈ a.values ∨ v ∈ b.values) := by
  unfold union
  by_cases h1 : a.n = 65536 ∨ b.n = 65536
  · rw [if_pos h1]
    refine ⟨fullContainer_spec.1, fun v => ?_⟩
    rw [fullContainer_spec.2 v]
    constructor
    · intro hv
      rcases h1 with h1 | h1
      · exact Or.inl (full_mem ha h1 v hv)
      · exact Or.inr (full_mem hb h1 v hv)
    · rintro (hv | hv)
      · exact Container.values_lt ha v hv
      · exact Container.values_lt hb v hv
  · rw [if_neg h1]
    cases a with
    | array xa =>
      cases b with
      | array xb =>
        have S := unionArrayArray_spec (xa.length + xb.length + 1) xa xb ha.1 hb.1 (by omega)
        refine ⟨⟨S.1, fun v hv => ?_⟩, S.2⟩
        rcases (S.2 v).mp hv with h | h
        · exact ha.2 v h
        · exact hb.2 v h
      | run nb rb =>
        have S := unionArrayRunEmit_spec (xa.length + rb.length + 1) xa rb ha.1 ha.2 hb.1 (by omega)
        have E := appendAll_enc S.1
        have key : ∀ w, inRuns (unionArrayRunEmit (xa.length + rb.length + 1) xa rb) w = true ↔
            (w ∈ xa ∨ w ∈ runValues rb) := by
          intro w; rw [S.2 w, mem_runValues]; simp
        show (unionArrayRun xa rb).WF ∧ ∀ v, v ∈ (unionArrayRun xa rb).values ↔ _
        unfold unionArrayRun
        simp only []
        split
        · exact ⟨E.1.1, fun v => (E.1.2 v).trans (key v)⟩
        · split
          · exact ⟨E.2.1.1, fun v => (E.2.1.2 v).trans (key v)⟩
          · exact ⟨E.2.2.1, fun v => (E.2.2.2 v).trans (key v)⟩
      | bitmap nb bb =>
        have hs := sorted_union ha.1 hb.1
        have hl := union_lt ha.2 hb.2.1
        have hm := fun v => mem_union ha.1 hb.1 v
        refine ⟨⟨hs, hl, ?_⟩, hm⟩
        exact grown_n hb.2.2 hb.1 hs hl (fun v hv => (hm v).mpr (Or.inr hv))
    | run na ra =>
      cases b with
      | array xb =>
        have S := unionArrayRunEmit_spec (xb.length + ra.length + 1) xb ra hb.1 hb.2 ha.1 (by omega)
        have E := appendAll_enc S.1
        have key : ∀ w, inRuns (unionArrayRunEmit (xb.length + ra.length + 1) xb ra) w = true ↔
            (w ∈ runValues ra ∨ w ∈ xb) := by
          intro w; rw [S.2 w, mem_runValues]; simp; exact Or.comm
        show (unionArrayRun xb ra).WF ∧ ∀ v, v ∈ (unionArrayRun xb ra).values ↔ _
        unfold unionArrayRun
        simp only []
        split
        · exact ⟨E.1.1, fun v => (E.1.2 v).trans (key v)⟩
        · split
          · exact ⟨E.2.1.1, fun v => (E.2.1.2 v).trans (key v)⟩
          · exact ⟨E.2.2.1, fun v => (E.2.2.2 v).trans (key v)⟩
      | run nb rb =>
        have S := unionRunRunEmit_spec (ra.length + rb.length + 1) ra rb ha.1 hb.1 (by omega)
        have E := appendAll_enc S.1
        have key : ∀ w, inRuns (unionRunRunEmit (ra.length + rb.length + 1) ra rb) w = true ↔
            (w ∈ runValues ra ∨ w ∈ runValues rb) := by
          intro w; rw [S.2 w, mem_runValues, mem_runValues]; simp
        show (unionRunRun ra rb).WF ∧ ∀ v, v ∈ (unionRunRun ra rb).values ↔ _
        unfold unionRunRun
        simp only []
        split
        · exact ⟨E.2.1.1, fun v => (E.2.1.2 v).trans (key v)⟩
        · exact ⟨E.2.2.1, fun v => (E.2.2.2 v).trans (key v)⟩
      | bitmap nb bb =>
        have hr := runValues_sorted ha.1
        have hs := sorted_union hb.1 hr
        have hl := union_lt hb.2.1 (runValues_lt ha.1)
        have hm := fun v => mem_union hb.1 hr v
        refine ⟨⟨hs, hl, ?_⟩, fun v => (hm v).trans Or.comm⟩
        exact grown_n hb.2.2 hb.1 hs hl (fun v hv => (hm v).mpr (Or.inl hv))
    | bitmap na ba =>
      cases b with
      | array xb =>
        have hs := sorted_union hb.1 ha.1
        have hl := union_lt hb.2 ha.2.1
        have hm := fun v => mem_union hb.1 ha.1 v
        refine ⟨⟨hs, hl, ?_⟩, fun v => (hm v).trans Or.comm⟩
        exact grown_n ha.2.2 ha.1 hs hl (fun v hv => (hm v).mpr (Or.inr hv))
      | run nb rb =>
        have hr := runValues_sorted hb.1
        have hs := sorted_union ha.1 hr
        have hl := union_lt ha.2.1 (runValues_lt hb.1)
        have hm := fun v => mem_union ha.1 hr v
        refine ⟨⟨hs, hl, ?_⟩, hm⟩
        exact grown_n ha.2.2 ha.1 hs hl (fun v hv => (hm v).mpr (Or.inl hv))
      | bitmap nb bb =>
        exact ⟨⟨sorted_union ha.1 hb.1, union_lt ha.2.1 hb.2.1, rfl⟩, fun v => mem_union ha.1 hb.1 v⟩

/-! ### difference -/

/-- `n - (|bits| - |vs|)` is `|vs|` when `n = |bits|` and `vs ⊆ bits`. -/
theorem shrunk_n {n : Nat} {bits vs : List Nat} (hn : n = bits.length) (hb : Sorted bits) (hv : Sorted vs)
    (hlt : ∀ v ∈ bits, v < 65536) (hsub : ∀ v ∈ vs, v ∈ bits) : n - (bits.length - vs.length) = vs.length := by
  have := sorted_subset_length_le hv hb hlt hsub
  omega

theorem arrayToRunIvs_bounds {xs : List Nat} (h : Sorted xs) (hlt : ∀ v ∈ xs, v < 65536) :
    ∀ iv ∈ arrayToRunIvs xs, iv.start ∈ xs ∧ iv.last ∈ xs := by
  have S := arrayToRunIvs_spec xs h hlt
  intro iv hiv
  have hv := RunsWF.valid S.1 iv hiv
  have h1 : inRuns (arrayToRunIvs xs) iv.start = true := by
    simp only [inRuns, List.any_eq_true]
    exact ⟨iv, hiv, by rw [inIv_iff]; omega⟩
  have h2 : inRuns (arrayToRunIvs xs) iv.last = true := by
    simp only [inRuns, List.any_eq_true]
    exact ⟨iv, hiv, by rw [inIv_iff]; omega⟩
  rw [S.2.1] at h1 h2
  exact ⟨by simpa using h1, by simpa using h2⟩

theorem differenceRunBitmapRuns_spec (bits : List Nat) (hb : Sorted bits) :
    ∀ (ra : List Iv), RunsWF ra →
      RunsWF (differenceRunBitmapRuns bits ra) ∧
      (∀ iv ∈ differenceRunBitmapRuns bits ra, ∃ r ∈ ra, r.start ≤ iv.start ∧ iv.last ≤ r.last) ∧
      ∀ w, inRuns (differenceRunBitmapRuns bits ra) w = (inRuns ra w && !decide (w ∈ bits)) := by
  intro ra
  induction ra with
  | nil => intro _; simp [differenceRunBitmapRuns, RunsWF]
  | cons a t ih =>
    intro h
    have ha := RunsWF.head h
    have hgt := RunsWF.gt h
    have iht := ih (RunsWF.tail h)
    have hrs : Sorted (rangeIncl a.start a.last) := sorted_range' _ _
    have hds := sorted_diff hrs hb
    have hdl : ∀ v ∈ Spec.diff (rangeIncl a.start a.last) bits, v < 65536 := by
      intro v hv
      have := ((mem_diff hrs hb v).mp hv).1
      rw [mem_rangeIncl] at this; omega
    have S := arrayToRunIvs_spec _ hds hdl
    have B := arrayToRunIvs_bounds hds hdl
    have hin : ∀ iv ∈ arrayToRunIvs (Spec.diff (rangeIncl a.start a.last) bits),
        a.start ≤ iv.start ∧ iv.last ≤ a.last := by
      intro iv hiv
      have := B iv hiv
      have h1 := ((mem_diff hrs hb _).mp this.1).1
      have h2 := ((mem_diff hrs hb _).mp this.2).1
      rw [mem_rangeIncl] at h1 h2
      omega
    simp only [differenceRunBitmapRuns]
    refine ⟨?_, ?_, ?_⟩
    · apply runsWF_append S.1 iht.1
      intro x hx y hy
      have := hin x hx
      rcases iht.2.1 y hy with ⟨r, hr, h1, _⟩
      have := hgt r hr
      omega
    · intro iv hiv
      rcases List.mem_append.mp hiv with hiv | hiv
      · exact ⟨a, by simp, hin iv hiv⟩
      · rcases iht.2.1 iv hiv with ⟨r, hr, h1, h2⟩
        exact ⟨r, by simp [hr], h1, h2⟩
    · intro w
      rw [inRuns_append, S.2.1 w, iht.2.2 w, inRuns_cons]
      have : decide (w ∈ Spec.diff (rangeIncl a.start a.last) bits) = (inIv a w && !decide (w ∈ bits)) := by
        rw [Bool.eq_iff_iff]
        simp only [decide_eq_true_eq, Bool.and_eq_true, Bool.not_eq_true', decide_eq_false_iff_not, inIv_iff]
        rw [mem_diff hrs hb, mem_rangeIncl]
      rw [this]
      cases inIv a w <;> cases inRuns t w <;> cases decide (w ∈ bits) <;> rfl

theorem compl_spec {bits : List Nat} (hb : Sorted bits) (n : Nat) :
    Sorted (Spec.diff (List.range' 0 n) bits) ∧ (∀ v ∈ Spec.diff (List.range' 0 n) bits, v < n) ∧
    ∀ v, v ∈ Spec.diff (List.range' 0 n) bits ↔ (v < n ∧ v ∉ bits) := by
  have hr : Sorted (List.range' 0 n) := sorted_range' _ _
  refine ⟨sorted_diff hr hb, fun v hv => ?_, fun v => ?_⟩
  · have := ((mem_diff hr hb v).mp hv).1
    rcases List.mem_range'.mp this with ⟨i, hi, rfl⟩; omega
  · rw [mem_diff hr hb, List.mem_range']
    constructor
    · rintro ⟨⟨i, hi, rfl⟩, h2⟩; exact ⟨by omega, h2⟩
    · rintro ⟨h1, h2⟩; exact ⟨⟨v, h1, by omega⟩, h2⟩

theorem compl16_spec {bits : List Nat} (hb : Sorted bits) :
    Sorted (Spec.compl16 bits) ∧ (∀ v ∈ Spec.compl16 bits, v < 65536) ∧
    ∀ v, v ∈ Spec.compl16 bits ↔ (v < 65536 ∧ v ∉ bits) := compl_spec hb 65536

attribute [local irreducible] Spec.compl16 in
theorem flipBitmap_spec {bits : List Nat} (hb : Sorted bits) :
    (flipBitmap bits).WF ∧ ∀ v, v ∈ (flipBitmap bits).values ↔ (v < 65536 ∧ v ∉ bits) := by
  have C := compl16_spec hb
  have hfb : flipBitmap bits = Container.bitmap (Spec.compl16 bits).length (Spec.compl16 bits) := by
    unfold flipBitmap; rfl
  rw [hfb]
  refine ⟨⟨C.1, C.2.1, rfl⟩, fun v => ?_⟩
  show v ∈ Spec.compl16 bits ↔ _
  exact C.2.2 v

theorem difference_spec {a b : Container} (ha : a.WF) (hb : b.WF) :
    WFO (difference a b) ∧ ∀ v, v ∈ valuesO (difference a b) ↔ (v ∈ a.values ∧ v ∉ b.values) := by
  unfold difference
  by_cases h1 : a.n = 0 ∨ b.n = 65536
  · rw [if_pos h1]
    refine ⟨trivial, fun v => ?_⟩
    rcases h1 with h1 | h1
    · simp [valuesO, empty_values ha h1]
    · simp only [valuesO, List.not_mem_nil, false_iff, not_and, Classical.not_not]
      intro hv
      exact full_mem hb h1 v (Container.values_lt ha v hv)
  · rw [if_neg h1]
    by_cases h2 : b.n = 0
    · rw [if_pos h2]
      refine ⟨ha, fun v => ?_⟩
      simp [valuesO, empty_values hb h2]
    · rw [if_neg h2]
      cases a with
      | array xa =>
        cases b with
        | array xb =>
          have S := differenceArrayArrayL_spec (xa.length + xb.length + 1) xa xb ha.1 hb.1 (by omega)
          have A := arrayOrBitmap_spec S.1 (fun v hv => ha.2 v ((S.2 v).mp hv).1)
          refine ⟨A.1, fun v => ?_⟩
          show v ∈ (differenceArrayArray xa xb).values ↔ _
          unfold differenceArrayArray
          rw [A.2]; exact S.2 v
        | run nb rb =>
          have S := differenceArrayRun_spec (xa.length + rb.length + 1) xa rb ha.1 hb.1 (by omega)
          refine ⟨⟨S.1, fun v hv => ha.2 v ((S.2 v).mp hv).1⟩, fun v => ?_⟩
          show v ∈ differenceArrayRun _ xa rb ↔ (v ∈ xa ∧ v ∉ runValues rb)
          rw [S.2 v, mem_runValues]; simp
        | bitmap nb bb =>
          exact ⟨⟨sorted_diff ha.1 hb.1, diff_lt ha.2 hb.2.1⟩, fun v => mem_diff ha.1 hb.1 v⟩
      | run na ra =>
        cases b with
        | array xb =>
          cases xb with
          | nil => exact absurd rfl h2
          | cons vb ab =>
            have S := differenceRunArrayLoop_spec ra vb ab ha.1 hb.1 hb.2
            have O := run_optimize_spec S.1 rfl
            refine ⟨O.1, fun v => ?_⟩
            show v ∈ valuesO (differenceRunArray ra (vb :: ab)) ↔ (v ∈ runValues ra ∧ v ∉ vb :: ab)
            unfold differenceRunArray
            simp only []
            rw [O.2 v, S.2 v, mem_runValues]; simp
        | run nb rb =>
          cases ra with
          | nil =>
            refine ⟨⟨trivial, rfl⟩, fun v => ?_⟩
            simp [valuesO, differenceRunRun, Container.values, runValues]
          | cons x ra' =>
            have S := differenceRunRunLoop_spec x ra' rb ha.1 hb.1 (2 * ((x :: ra').length + rb.length) + 2)
              (by simp only [List.length_cons]; omega)
            refine ⟨⟨S.1, rfl⟩, fun v => ?_⟩
            show v ∈ runValues (differenceRunRunLoop _ x.start x.last ra' rb) ↔ (v ∈ runValues (x :: ra') ∧ v ∉ runValues rb)
            rw [mem_runValues, S.2 v, mem_runValues, mem_runValues]; simp
        | bitmap nb bb =>
          show WFO (some (differenceRunBitmap ra bb)) ∧ ∀ v, v ∈ (differenceRunBitmap ra bb).values ↔ (v ∈ runValues ra ∧ v ∉ bb)
          have general : ∀ (n : Nat), n = runsCard (differenceRunBitmapRuns bb ra) →
              let runs := differenceRunBitmapRuns bb ra
              let r := if n < arrayMaxSize ∧ runs.length > n / 2 then runToArray n runs
                else if runs.length > runMaxSize then runToBitmap n runs else Container.run n runs
              r.WF ∧ ∀ v, v ∈ r.values ↔ (v ∈ runValues ra ∧ v ∉ bb) := by
            intro n hn
            have S := differenceRunBitmapRuns_spec bb hb.1 ra ha.1
            have E := runs_enc S.1 hn
            have key : ∀ w, inRuns (differenceRunBitmapRuns bb ra) w = true ↔ (w ∈ runValues ra ∧ w ∉ bb) := by
              intro w; rw [S.2.2 w, mem_runValues]; simp
            simp only []
            split
            · exact ⟨E.1.1, fun v => (E.1.2 v).trans (key v)⟩
            · split
              · exact ⟨E.2.1.1, fun v => (E.2.1.2 v).trans (key v)⟩
              · exact ⟨E.2.2.1, fun v => (E.2.2.2 v).trans (key v)⟩
          have flipcase := flipBitmap_spec hb.1
          unfold differenceRunBitmap
          split
          · rename_i rest heq
            refine ⟨flipcase.1, fun v => ?_⟩
            rw [flipcase.2 v]
            constructor
            · rintro ⟨h3, h4⟩
              refine ⟨?_, h4⟩
              rw [mem_runValues, inRuns_cons]
              have : inIv (⟨0, 65535⟩ : Iv) v = true := by rw [inIv_iff]; exact ⟨Nat.zero_le _, by show v ≤ 65535; omega⟩
              rw [this]; rfl
            · rintro ⟨h3, h4⟩
              exact ⟨runValues_lt ha.1 v h3, h4⟩
          · exact general _ rfl
      | bitmap na ba =>
        cases b with
        | array xb =>
          have hs := sorted_diff ha.1 hb.1
          have hl := diff_lt ha.2.1 hb.2
          have hm := fun v => mem_diff ha.1 hb.1 v
          have hn := shrunk_n ha.2.2 ha.1 hs ha.2.1 (fun v hv => ((hm v).mp hv).1)
          show WFO (some (differenceBitmapArray na ba xb)) ∧ ∀ v, v ∈ (differenceBitmapArray na ba xb).values ↔ _
          unfold differenceBitmapArray
          simp only []
          rw [hn]
          split
          · have B := bitmapToArray_spec (bitmap_wf_of hs hl)
            exact ⟨B.1, fun v => by rw [B.2]; exact hm v⟩
          · exact ⟨⟨hs, hl, rfl⟩, hm⟩
        | run nb rb =>
          have hr := runValues_sorted hb.1
          have hs := sorted_diff ha.1 hr
          have hl := diff_lt ha.2.1 (runValues_lt hb.1)
          have hm := fun v => mem_diff ha.1 hr v
          have hn := shrunk_n ha.2.2 ha.1 hs ha.2.1 (fun v hv => ((hm v).mp hv).1)
          show WFO (some (differenceBitmapRun na ba rb)) ∧ ∀ v, v ∈ (differenceBitmapRun na ba rb).values ↔ _
          unfold differenceBitmapRun
          simp only []
          rw [hn]
          exact ⟨⟨hs, hl, rfl⟩, hm⟩
        | bitmap nb bb =>
          have hs := sorted_diff ha.1 hb.1
          have hl := diff_lt ha.2.1 hb.2.1
          have hm := fun v => mem_diff ha.1 hb.1 v
          show WFO (some (differenceBitmapBitmap ba bb)) ∧ ∀ v, v ∈ (differenceBitmapBitmap ba bb).values ↔ _
          unfold differenceBitmapBitmap
          simp only []
          split
          · have B := bitmapToArray_spec (bitmap_wf_of hs hl)
            exact ⟨B.1, fun v => by rw [B.2]; exact hm v⟩
          · exact ⟨⟨hs, hl, rfl⟩, hm⟩


/-! ### xor -/

theorem xor_prop_comm {p q : Prop} : ((p ∧ ¬ q) ∨ (¬ p ∧ q)) ↔ ((q ∧ ¬ p) ∨ (¬ q ∧ p)) := by
  constructor
  · rintro (⟨h1, h2⟩ | ⟨h1, h2⟩)
    · exact Or.inr ⟨h2, h1⟩
    · exact Or.inl ⟨h2, h1⟩
  · rintro (⟨h1, h2⟩ | ⟨h1, h2⟩)
    · exact Or.inr ⟨h2, h1⟩
    · exact Or.inl ⟨h2, h1⟩

theorem xor_spec {a b : Container} (ha : a.WF) (hb : b.WF) :
    WFO (xor a b) ∧ ∀ v, v ∈ valuesO (xor a b) ↔ ((v ∈ a.values ∧ v ∉ b.values) ∨ (v ∉ a.values ∧ v ∈ b.values)) := by
  unfold xor
  by_cases h1 : a.n = 0
  · rw [if_pos h1]
    refine ⟨hb, fun v => ?_⟩
    simp [valuesO, empty_values ha h1]
  · rw [if_neg h1]
    by_cases h2 : b.n = 0
    · rw [if_pos h2]
      refine ⟨ha, fun v => ?_⟩
      simp [valuesO, empty_values hb h2]
    · rw [if_neg h2]
      cases a with
      | array xa =>
        cases b with
        | array xb =>
          have S := xorArrayArray_spec (xa.length + xb.length + 1) xa xb ha.1 hb.1 (by omega)
          refine ⟨⟨S.1, fun v hv => ?_⟩, S.2⟩
          rcases (S.2 v).mp hv with h | h
          · exact ha.2 v h.1
          · exact hb.2 v h.2
        | run nb rb =>
          have S := xorArrayRunEmit_spec xa rb ha.1 ha.2 hb.1 (2 * (xa.length + rb.length) + 2) (Nat.le_refl _)
          have E := appendAll_enc S.1
          have key : ∀ w, inRuns (xorArrayRunEmit (2 * (xa.length + rb.length) + 2) xa none rb) w = true ↔
              ((w ∈ xa ∧ w ∉ runValues rb) ∨ (w ∉ xa ∧ w ∈ runValues rb)) := by
            intro w; rw [S.2 w, mem_runValues]
            by_cases h3 : w ∈ xa <;> cases h4 : inRuns rb w <;> simp [h3, h4]
          show WFO (some (xorArrayRun xa rb)) ∧ ∀ v, v ∈ (xorArrayRun xa rb).values ↔ _
          unfold xorArrayRun
          simp only []
          split
          · exact ⟨E.1.1, fun v => (E.1.2 v).trans (key v)⟩
          · split
            · exact ⟨E.2.1.1, fun v => (E.2.1.2 v).trans (key v)⟩
            · exact ⟨E.2.2.1, fun v => (E.2.2.2 v).trans (key v)⟩
        | bitmap nb bb =>
          have hs := sorted_xor ha.1 hb.1
          have hl := xor_lt ha.2 hb.2.1
          have hm := fun v => mem_xor ha.1 hb.1 v
          show WFO (xorArrayBitmap xa bb) ∧ ∀ v, v ∈ valuesO (xorArrayBitmap xa bb) ↔ _
          unfold xorArrayBitmap
          simp only []
          split
          · rename_i h0
            have : Spec.xor xa bb = [] := List.length_eq_zero_iff.mp h0
            refine ⟨trivial, fun v => ?_⟩
            show v ∈ valuesO none ↔ ((v ∈ xa ∧ v ∉ bb) ∨ (v ∉ xa ∧ v ∈ bb))
            rw [← hm v, this]; simp [valuesO]
          · split
            · exact ⟨⟨hs, hl⟩, hm⟩
            · exact ⟨⟨hs, hl, rfl⟩, hm⟩
      | run na ra =>
        cases b with
        | array xb =>
          have S := xorArrayRunEmit_spec xb ra hb.1 hb.2 ha.1 (2 * (xb.length + ra.length) + 2) (Nat.le_refl _)
          have E := appendAll_enc S.1
          have key : ∀ w, inRuns (xorArrayRunEmit (2 * (xb.length + ra.length) + 2) xb none ra) w = true ↔
              ((w ∈ runValues ra ∧ w ∉ xb) ∨ (w ∉ runValues ra ∧ w ∈ xb)) := by
            intro w; rw [S.2 w, mem_runValues]
            by_cases h3 : w ∈ xb <;> cases h4 : inRuns ra w <;> simp [h3, h4]
          show WFO (some (xorArrayRun xb ra)) ∧ ∀ v, v ∈ (xorArrayRun xb ra).values ↔ _
          unfold xorArrayRun
          simp only []
          split
          · exact ⟨E.1.1, fun v => (E.1.2 v).trans (key v)⟩
          · split
            · exact ⟨E.2.1.1, fun v => (E.2.1.2 v).trans (key v)⟩
            · exact ⟨E.2.2.1, fun v => (E.2.2.2 v).trans (key v)⟩
        | run nb rb =>
          have S := xorRunRunEmit_spec ra rb ha.1 hb.1 (4 * (ra.length + rb.length) + 4) (Nat.le_refl _)
          have E := appendAll_enc S.1
          have key : ∀ w, inRuns (xorRunRunEmit (4 * (ra.length + rb.length) + 4) none ra none rb) w = true ↔
              ((w ∈ runValues ra ∧ w ∉ runValues rb) ∨ (w ∉ runValues ra ∧ w ∈ runValues rb)) := by
            intro w; rw [S.2 w, mem_runValues, mem_runValues]
            cases h3 : inRuns ra w <;> cases h4 : inRuns rb w <;> simp
          show WFO (some (xorRunRun ra rb)) ∧ ∀ v, v ∈ (xorRunRun ra rb).values ↔ _
          unfold xorRunRun
          simp only []
          split
          · exact ⟨E.1.1, fun v => (E.1.2 v).trans (key v)⟩
          · split
            · exact ⟨E.2.1.1, fun v => (E.2.1.2 v).trans (key v)⟩
            · exact ⟨E.2.2.1, fun v => (E.2.2.2 v).trans (key v)⟩
        | bitmap nb bb =>
          have hr := runValues_sorted ha.1
          have hs := sorted_xor hb.1 hr
          have hl := xor_lt hb.2.1 (runValues_lt ha.1)
          have hm := fun v => mem_xor hb.1 hr v
          show WFO (some (xorBitmapRun nb bb ra)) ∧ ∀ v, v ∈ (xorBitmapRun nb bb ra).values ↔ _
          unfold xorBitmapRun
          simp only []
          refine ⟨⟨hs, hl, ?_⟩, fun v => (hm v).trans xor_prop_comm⟩
          have := hb.2.2; omega
      | bitmap na ba =>
        cases b with
        | array xb =>
          have hs := sorted_xor hb.1 ha.1
          have hl := xor_lt hb.2 ha.2.1
          have hm := fun v => mem_xor hb.1 ha.1 v
          show WFO (xorArrayBitmap xb ba) ∧ ∀ v, v ∈ valuesO (xorArrayBitmap xb ba) ↔ _
          unfold xorArrayBitmap
          simp only []
          split
          · rename_i h0
            have : Spec.xor xb ba = [] := List.length_eq_zero_iff.mp h0
            refine ⟨trivial, fun v => ?_⟩
            show v ∈ valuesO none ↔ ((v ∈ ba ∧ v ∉ xb) ∨ (v ∉ ba ∧ v ∈ xb))
            rw [← xor_prop_comm, ← hm v, this]; simp [valuesO]
          · split
            · exact ⟨⟨hs, hl⟩, fun v => (hm v).trans xor_prop_comm⟩
            · exact ⟨⟨hs, hl, rfl⟩, fun v => (hm v).trans xor_prop_comm⟩
        | run nb rb =>
          have hr := runValues_sorted hb.1
          have hs := sorted_xor ha.1 hr
          have hl := xor_lt ha.2.1 (runValues_lt hb.1)
          have hm := fun v => mem_xor ha.1 hr v
          show WFO (some (xorBitmapRun na ba rb)) ∧ ∀ v, v ∈ (xorBitmapRun na ba rb).values ↔ _
          unfold xorBitmapRun
          simp only []
          refine ⟨⟨hs, hl, ?_⟩, hm⟩
          have := ha.2.2; omega
        | bitmap nb bb =>
          have hs := sorted_xor ha.1 hb.1
          have hl := xor_lt ha.2.1 hb.2.1
          have hm := fun v => mem_xor ha.1 hb.1 v
          show WFO (some (xorBitmapBitmap ba bb)) ∧ ∀ v, v ∈ (xorBitmapBitmap ba bb).values ↔ _
          unfold xorBitmapBitmap
          simp only []
          split
          · have B := bitmapToArray_spec (bitmap_wf_of hs hl)
            exact ⟨B.1, fun v => by rw [B.2]; exact hm v⟩
          · exact ⟨⟨hs, hl, rfl⟩, hm⟩

/-! ### intersectionCount -/

/-- the canonical form of the count: members of `x` that are in `y`. -/
def interLen (x y : List Nat) : Nat := (x.filter (fun v => decide (v ∈ y))).length

theorem interLen_comm {x y : List Nat} (hx : Sorted x) (hy : Sorted y) : interLen x y = interLen y x :=
  filter_mem_length_symm x y hx hy

theorem inter_eq_filter {x y : List Nat} (hx : Sorted x) (hy : Sorted y) :
    Spec.inter x y = x.filter (fun v => decide (v ∈ y)) := by
  apply sorted_ext (sorted_inter hx hy) (sorted_filter _ hx)
  intro v
  rw [mem_inter hx hy, List.mem_filter]; simp

theorem interLen_of_subset {x y : List Nat} (h : ∀ v ∈ x, v ∈ y) : interLen x y = x.length := by
  unfold interLen
  have : x.filter (fun v => decide (v ∈ y)) = x := by
    rw [List.filter_eq_self]; intro v hv; simp [h v hv]
  rw [this]

theorem interLen_runs_bits (bits : List Nat) (hb : Sorted bits) :
    ∀ (runs : List Iv), RunsWF runs →
      intersectionCountBitmapRun bits runs = interLen (runValues runs) bits := by
  intro runs
  induction runs with
  | nil => intro _; rfl
  | cons a t ih =>
    intro h
    simp only [intersectionCountBitmapRun, runValues]
    unfold interLen at ih ⊢
    rw [List.filter_append, List.length_append, ih (RunsWF.tail h)]
    congr 1
    -- members of the bit set inside [a.start, a.last]
    have hr : Sorted (rangeIncl a.start a.last) := sorted_range' _ _
    have := filter_mem_length_symm (rangeIncl a.start a.last) bits hr hb
    rw [this]
    unfold bitmapCountRange cntList
    apply congrArg
    apply List.filter_congr
    intro v _
    rw [Bool.eq_iff_iff]
    simp only [Bool.and_eq_true, decide_eq_true_eq, mem_rangeIncl]
    omega

theorem intersectionCount_spec {a b : Container} (ha : a.WF) (hb : b.WF) :
    intersectionCount a b = interLen a.values b.values := by
  have hsa := Container.values_sorted ha
  have hsb := Container.values_sorted hb
  unfold intersectionCount
  by_cases h1 : a.n = 65536
  · rw [if_pos h1, interLen_comm hsa hsb, interLen_of_subset (fun v hv => full_mem ha h1 v (Container.values_lt hb v hv))]
    exact (Container.values_length hb).symm
  · rw [if_neg h1]
    by_cases h2 : b.n = 65536
    · rw [if_pos h2, interLen_of_subset (fun v hv => full_mem hb h2 v (Container.values_lt ha v hv))]
      exact (Container.values_length ha).symm
    · rw [if_neg h2]
      by_cases h3 : a.n = 0 ∨ b.n = 0
      · rw [if_pos h3]
        rcases h3 with h3 | h3
        · simp [interLen, empty_values ha h3]
        · rw [interLen_comm hsa hsb]; simp [interLen, empty_values hb h3]
      · rw [if_neg h3]
        cases a with
        | array xa =>
          cases b with
          | array xb => exact intersectionCountArrayArray_spec xa xb ha.1 hb.1
          | run nb rb =>
            show intersectionCountArrayRun _ xa rb = interLen xa (runValues rb)
            rw [intersectionCountArrayRun_spec _ xa rb ha.1 hb.1 (by omega)]
            unfold interLen
            apply congrArg
            apply List.filter_congr
            intro v _
            rw [Bool.eq_iff_iff, decide_eq_true_eq, mem_runValues]
          | bitmap nb bb =>
            show (Spec.inter xa bb).length = _
            rw [inter_eq_filter ha.1 hb.1]; rfl
        | run na ra =>
          cases b with
          | array xb =>
            show intersectionCountArrayRun _ xb ra = interLen (runValues ra) xb
            rw [intersectionCountArrayRun_spec _ xb ra hb.1 ha.1 (by omega), interLen_comm (runValues_sorted ha.1) hb.1]
            unfold interLen
            apply congrArg
            apply List.filter_congr
            intro v _
            rw [Bool.eq_iff_iff, decide_eq_true_eq]
            exact (mem_runValues ra v).symm
          | run nb rb =>
            show intersectionCountRunRun _ ra rb = interLen (runValues ra) (runValues rb)
            rw [intersectionCountRunRun_spec _ ra rb ha.1 hb.1 (by omega)]
            unfold interLen
            have hsf : Sorted ((runValues ra).filter (fun v => decide (v ∈ runValues rb))) := sorted_filter _ hsa
            rw [length_eq_cnt hsf (fun v hv => runValues_lt ha.1 v (List.mem_filter.mp hv).1)]
            apply cnt_congr
            intro v _ _
            rw [Bool.eq_iff_iff]
            simp only [Bool.and_eq_true, decide_eq_true_eq, List.mem_filter, mem_runValues]
          | bitmap nb bb =>
            show intersectionCountBitmapRun bb ra = _
            exact interLen_runs_bits bb hb.1 ra ha.1
        | bitmap na ba =>
          cases b with
          | array xb =>
            show (Spec.inter xb ba).length = interLen ba xb
            rw [inter_eq_filter hb.1 ha.1, interLen_comm ha.1 hb.1]; rfl
          | run nb rb =>
            show intersectionCountBitmapRun ba rb = interLen ba (runValues rb)
            rw [interLen_runs_bits ba ha.1 rb hb.1, interLen_comm (runValues_sorted hb.1) ha.1]
          | bitmap nb bb =>
            show (Spec.inter ba bb).length = _
            rw [inter_eq_filter ha.1 hb.1]; rfl

end PV.C01
