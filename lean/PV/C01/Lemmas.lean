/-
C01 helper lemmas, part 1: ascending lists, counting over an interval, the generic merge `Spec.merge2`.
Core Lean only.
-/
import PV.C01.Spec
namespace PV.C01
open Spec

/-! ### Sorted -/

theorem sorted_tail {a : Nat} {l : List Nat} (h : Sorted (a :: l)) : Sorted l := by
  cases l with
  | nil => trivial
  | cons b t => exact h.2

theorem sorted_lt {a : Nat} {l : List Nat} (h : Sorted (a :: l)) : ∀ x ∈ l, a < x := by
  induction l generalizing a with
  | nil => intro x hx; cases hx
  | cons b t ih =>
    intro x hx
    have h1 : a < b := h.1
    rcases List.mem_cons.mp hx with rfl | hx
    · exact h1
    · exact Nat.lt_trans h1 (ih h.2 x hx)

theorem sorted_cons {a : Nat} {l : List Nat} (hl : Sorted l) (h : ∀ x ∈ l, a < x) : Sorted (a :: l) := by
  cases l with
  | nil => trivial
  | cons b t => exact ⟨h b (by simp), hl⟩

theorem sorted_cons_iff {a : Nat} {l : List Nat} : Sorted (a :: l) ↔ (∀ x ∈ l, a < x) ∧ Sorted l :=
  ⟨fun h => ⟨sorted_lt h, sorted_tail h⟩, fun h => sorted_cons h.2 h.1⟩

theorem sorted_not_mem_head {a : Nat} {l : List Nat} (h : Sorted (a :: l)) : a ∉ l := by
  intro hm; exact Nat.lt_irrefl a (sorted_lt h a hm)

theorem sorted_append {l₁ l₂ : List Nat} (h1 : Sorted l₁) (h2 : Sorted l₂)
    (h : ∀ x ∈ l₁, ∀ y ∈ l₂, x < y) : Sorted (l₁ ++ l₂) := by
  induction l₁ with
  | nil => simpa using h2
  | cons a t ih =>
    rw [List.cons_append]
    apply sorted_cons
    · exact ih (sorted_tail h1) (fun x hx y hy => h x (by simp [hx]) y hy)
    · intro x hx
      rcases List.mem_append.mp hx with hx | hx
      · exact sorted_lt h1 x hx
      · exact h a (by simp) x hx

theorem sorted_filter {l : List Nat} (p : Nat → Bool) (h : Sorted l) : Sorted (l.filter p) := by
  induction l with
  | nil => trivial
  | cons a t ih =>
    rw [List.filter_cons]
    split
    · apply sorted_cons (ih (sorted_tail h))
      intro x hx
      exact sorted_lt h x (List.mem_filter.mp hx).1
    · exact ih (sorted_tail h)

theorem sorted_range' (s n : Nat) : Sorted (List.range' s n) := by
  induction n generalizing s with
  | zero => trivial
  | succ n ih =>
    rw [List.range'_succ]
    apply sorted_cons (ih _)
    intro x hx
    rcases List.mem_range'.mp hx with ⟨i, _, rfl⟩
    omega

theorem sorted_map_add {l : List Nat} (k : Nat) (h : Sorted l) : Sorted (l.map (k + ·)) := by
  induction l with
  | nil => trivial
  | cons a t ih =>
    rw [List.map_cons]
    apply sorted_cons (ih (sorted_tail h))
    intro x hx
    rcases List.mem_map.mp hx with ⟨y, hy, rfl⟩
    have := sorted_lt h y hy
    omega

/-- two ascending lists with the same members are equal. -/
theorem sorted_ext {l₁ l₂ : List Nat} (h1 : Sorted l₁) (h2 : Sorted l₂)
    (h : ∀ v, v ∈ l₁ ↔ v ∈ l₂) : l₁ = l₂ := by
  induction l₁ generalizing l₂ with
  | nil =>
    cases l₂ with
    | nil => rfl
    | cons b t => exact absurd ((h b).mpr (by simp)) (by simp)
  | cons a t ih =>
    cases l₂ with
    | nil => exact absurd ((h a).mp (by simp)) (by simp)
    | cons b u =>
      have hab : a = b := by
        have ha := (h a).mp (by simp)
        have hb := (h b).mpr (by simp)
        rcases List.mem_cons.mp ha with e | ha'
        · exact e
        · rcases List.mem_cons.mp hb with e | hb'
          · exact e.symm
          · have := sorted_lt h2 a ha'
            have := sorted_lt h1 b hb'
            omega
      subst hab
      congr 1
      apply ih (sorted_tail h1) (sorted_tail h2)
      intro v
      constructor
      · intro hv
        have := (h v).mp (by simp [hv])
        rcases List.mem_cons.mp this with e | h'
        · subst e; exact absurd hv (sorted_not_mem_head h1)
        · exact h'
      · intro hv
        have := (h v).mpr (by simp [hv])
        rcases List.mem_cons.mp this with e | h'
        · subst e; exact absurd hv (sorted_not_mem_head h2)
        · exact h'

/-! ### counting -/

theorem cnt_eq_zero_of_le {p : Nat → Bool} {s e : Nat} (h : e ≤ s) : cnt p s e = 0 := by
  unfold cnt; rw [Nat.sub_eq_zero_of_le h]; rfl

theorem cnt_split (p : Nat → Bool) {s m e : Nat} (h1 : s ≤ m) (h2 : m ≤ e) :
    cnt p s e = cnt p s m + cnt p m e := by
  unfold cnt
  have : e - s = (m - s) + (e - m) := by omega
  rw [this, ← List.range'_append, List.countP_append]
  congr 3
  omega

theorem cnt_succ_left (p : Nat → Bool) {s e : Nat} (h : s < e) :
    cnt p s e = (if p s then 1 else 0) + cnt p (s + 1) e := by
  unfold cnt
  have : e - s = (e - (s + 1)) + 1 := by omega
  rw [this, List.range'_succ, List.countP_cons]
  omega

theorem cnt_congr {p q : Nat → Bool} {s e : Nat} (h : ∀ v, s ≤ v → v < e → p v = q v) :
    cnt p s e = cnt q s e := by
  unfold cnt
  apply List.countP_congr
  intro x hx
  rcases List.mem_range'.mp hx with ⟨i, hi, rfl⟩
  rw [h (s + 1 * i) (by omega) (by omega)]

theorem cnt_false {p : Nat → Bool} {s e : Nat} (h : ∀ v, s ≤ v → v < e → p v = false) :
    cnt p s e = 0 := by
  unfold cnt
  rw [List.countP_eq_zero]
  intro x hx
  rcases List.mem_range'.mp hx with ⟨i, hi, rfl⟩
  rw [h (s + 1 * i) (by omega) (by omega)]; simp

theorem cnt_true {p : Nat → Bool} {s e : Nat} (h : ∀ v, s ≤ v → v < e → p v = true) :
    cnt p s e = e - s := by
  unfold cnt
  have : List.countP p (List.range' s (e - s)) = (List.range' s (e - s)).length := by
    rw [List.countP_eq_length]
    intro x hx
    rcases List.mem_range'.mp hx with ⟨i, hi, rfl⟩
    exact h (s + 1 * i) (by omega) (by omega)
  rw [this, List.length_range']

/-- number of `v ∈ [s, e)` inside the closed interval `[a, b]`. -/
theorem cnt_interval (a b s e : Nat) (hab : a ≤ b) :
    cnt (fun v => decide (a ≤ v ∧ v ≤ b)) s e = min (b + 1) e - max a s := by
  by_cases hse : e ≤ s
  · rw [cnt_eq_zero_of_le hse]; omega
  · have hlo1 : s ≤ min (max a s) e := by omega
    have hlo2 : min (max a s) e ≤ max (min (max a s) e) (min (b + 1) e) := by omega
    have hhi : max (min (max a s) e) (min (b + 1) e) ≤ e := by omega
    rw [cnt_split _ hlo1 (Nat.le_trans hlo2 hhi), cnt_split _ hlo2 hhi]
    have e1 : cnt (fun v => decide (a ≤ v ∧ v ≤ b)) s (min (max a s) e) = 0 := by
      apply cnt_false
      intro v h1 h2
      simp; omega
    have e3 : cnt (fun v => decide (a ≤ v ∧ v ≤ b)) (max (min (max a s) e) (min (b + 1) e)) e = 0 := by
      apply cnt_false
      intro v h1 h2
      simp; omega
    have e2 : cnt (fun v => decide (a ≤ v ∧ v ≤ b)) (min (max a s) e) (max (min (max a s) e) (min (b + 1) e))
        = max (min (max a s) e) (min (b + 1) e) - min (max a s) e := by
      apply cnt_true
      intro v h1 h2
      simp; omega
    rw [e1, e2, e3]
    omega

theorem cnt_or_disjoint (p q : Nat → Bool) (s e : Nat)
    (h : ∀ v, s ≤ v → v < e → ¬ (p v = true ∧ q v = true)) :
    cnt (fun v => p v || q v) s e = cnt p s e + cnt q s e := by
  unfold cnt
  generalize hn : e - s = n
  induction n generalizing s with
  | zero => simp
  | succ n ih =>
    rw [List.range'_succ, List.countP_cons, List.countP_cons, List.countP_cons]
    have hs : s < e := by omega
    have := ih (s + 1) (fun v h1 h2 => h v (by omega) h2) (by omega)
    rw [this]
    have h0 := h s (Nat.le_refl _) hs
    cases hp : p s <;> cases hq : q s <;> simp_all <;> omega

/-- `cntList` of an ascending list is `cnt` of its membership predicate. -/
theorem cntList_eq_cnt {xs : List Nat} (h : Sorted xs) (s e : Nat) :
    cntList xs s e = cnt (fun v => decide (v ∈ xs)) s e := by
  induction xs with
  | nil =>
    simp [cntList]
    exact (cnt_false (by intros; rfl)).symm
  | cons a t ih =>
    have hlt := sorted_lt h
    have hnm := sorted_not_mem_head h
    have iht := ih (sorted_tail h)
    have hsplit : cnt (fun v => decide (v ∈ a :: t)) s e
        = cnt (fun v => decide (a ≤ v ∧ v ≤ a)) s e + cnt (fun v => decide (v ∈ t)) s e := by
      rw [← cnt_or_disjoint]
      · apply cnt_congr
        intro v _ _
        by_cases hva : v = a
        · subst hva; simp
        · have : ¬ (a ≤ v ∧ v ≤ a) := by omega
          simp [hva, this]
      · intro v _ _ ⟨h1, h2⟩
        have h1' : a ≤ v ∧ v ≤ a := by simpa using h1
        have h2' : v ∈ t := by simpa using h2
        have := hlt v h2'
        omega
    rw [hsplit, cnt_interval a a s e (Nat.le_refl _), ← iht]
    unfold cntList
    rw [List.filter_cons]
    by_cases hc : s ≤ a ∧ a < e
    · have : (decide (s ≤ a) && decide (a < e)) = true := by simp [hc]
      rw [if_pos this, List.length_cons]
      omega
    · have : ¬ ((decide (s ≤ a) && decide (a < e)) = true) := by simp; omega
      rw [if_neg this]
      omega

/-! ### the generic merge -/

theorem merge2_mem (f : Bool → Bool → Bool) (hf : f false false = false) :
    ∀ (fuel : Nat) (a b : List Nat), Sorted a → Sorted b → a.length + b.length ≤ fuel →
      ∀ v, v ∈ merge2 f fuel a b ↔ f (decide (v ∈ a)) (decide (v ∈ b)) = true := by
  intro fuel
  induction fuel with
  | zero =>
    intro a b _ _ hl v
    have ha : a = [] := List.length_eq_zero_iff.mp (by omega)
    have hb : b = [] := List.length_eq_zero_iff.mp (by omega)
    subst ha hb
    simp [merge2, hf]
  | succ fuel ih =>
    intro a b ha hb hl v
    match a, b with
    | [], [] => simp [merge2, hf]
    | x :: as, [] =>
      have hx := sorted_lt ha
      have ih' := ih as [] (sorted_tail ha) trivial (by simp at hl ⊢; omega) v
      simp only [merge2]
      by_cases hvx : v = x
      · subst hvx
        have hn : v ∉ as := sorted_not_mem_head ha
        split
        · rename_i hft; simp [hft]
        · rename_i hft
          rw [ih']; simp [hn, hf, hft]
      · split
        · rw [List.mem_cons, ih']; simp [hvx]
        · rw [ih']; simp [hvx]
    | [], y :: bs =>
      have ih' := ih [] bs trivial (sorted_tail hb) (by simp at hl ⊢; omega) v
      simp only [merge2]
      by_cases hvy : v = y
      · subst hvy
        have hn : v ∉ bs := sorted_not_mem_head hb
        split
        · rename_i hft; simp [hft]
        · rename_i hft
          rw [ih']; simp [hn, hf, hft]
      · split
        · rw [List.mem_cons, ih']; simp [hvy]
        · rw [ih']; simp [hvy]
    | x :: as, y :: bs =>
      have hxa := sorted_lt ha
      have hyb := sorted_lt hb
      have hnx : x ∉ as := sorted_not_mem_head ha
      have hny : y ∉ bs := sorted_not_mem_head hb
      simp only [merge2]
      by_cases hxy : x < y
      · rw [if_pos hxy]
        have ih' := ih as (y :: bs) (sorted_tail ha) hb (by simp at hl ⊢; omega) v
        have hxb : x ∉ y :: bs := by
          intro hm
          rcases List.mem_cons.mp hm with e | hm
          · omega
          · have := hyb x hm; omega
        by_cases hvx : v = x
        · subst hvx
          split
          · rename_i hft; simp [hft, hxb]
          · rename_i hft
            rw [ih']; simp only [hnx, hxb, decide_false, hf]
            simp [hxb, hft]
        · split
          · rw [List.mem_cons, ih']; simp [hvx]
          · rw [ih']; simp [hvx]
      · rw [if_neg hxy]
        by_cases hyx : y < x
        · rw [if_pos hyx]
          have ih' := ih (x :: as) bs ha (sorted_tail hb) (by simp at hl ⊢; omega) v
          have hya : y ∉ x :: as := by
            intro hm
            rcases List.mem_cons.mp hm with e | hm
            · omega
            · have := hxa y hm; omega
          by_cases hvy : v = y
          · subst hvy
            split
            · rename_i hft; simp [hft, hya]
            · rename_i hft
              rw [ih']; simp only [hny, hya, decide_false, hf]
              simp [hya, hft]
          · split
            · rw [List.mem_cons, ih']; simp [hvy]
            · rw [ih']; simp [hvy]
        · rw [if_neg hyx]
          have hxy' : x = y := by omega
          subst hxy'
          have ih' := ih as bs (sorted_tail ha) (sorted_tail hb) (by simp at hl ⊢; omega) v
          by_cases hvx : v = x
          · subst hvx
            split
            · rename_i hft; simp [hft]
            · rename_i hft
              rw [ih']; simp [hnx, hny, hf, hft]
          · split
            · rw [List.mem_cons, ih']; simp [hvx]
            · rw [ih']; simp [hvx]

theorem merge2_lb (f : Bool → Bool → Bool) :
    ∀ (fuel : Nat) (a b : List Nat) (m : Nat), (∀ x ∈ a, m < x) → (∀ x ∈ b, m < x) →
      ∀ x ∈ merge2 f fuel a b, m < x := by
  intro fuel
  induction fuel with
  | zero => intro a b m _ _ x hx; simp [merge2] at hx
  | succ fuel ih =>
    intro a b m ha hb x hx
    match a, b with
    | [], [] => simp [merge2] at hx
    | u :: as, [] =>
      simp only [merge2] at hx
      have ih' := ih as [] m (fun z hz => ha z (by simp [hz])) hb
      split at hx
      · rcases List.mem_cons.mp hx with e | hx
        · subst e; exact ha _ (by simp)
        · exact ih' x hx
      · exact ih' x hx
    | [], w :: bs =>
      simp only [merge2] at hx
      have ih' := ih [] bs m ha (fun z hz => hb z (by simp [hz]))
      split at hx
      · rcases List.mem_cons.mp hx with e | hx
        · subst e; exact hb _ (by simp)
        · exact ih' x hx
      · exact ih' x hx
    | u :: as, w :: bs =>
      simp only [merge2] at hx
      have ih1 := ih as (w :: bs) m (fun z hz => ha z (by simp [hz])) hb
      have ih2 := ih (u :: as) bs m ha (fun z hz => hb z (by simp [hz]))
      have ih3 := ih as bs m (fun z hz => ha z (by simp [hz])) (fun z hz => hb z (by simp [hz]))
      split at hx
      · split at hx
        · rcases List.mem_cons.mp hx with e | hx
          · subst e; exact ha _ (by simp)
          · exact ih1 x hx
        · exact ih1 x hx
      · split at hx
        · split at hx
          · rcases List.mem_cons.mp hx with e | hx
            · subst e; exact hb _ (by simp)
            · exact ih2 x hx
          · exact ih2 x hx
        · split at hx
          · rcases List.mem_cons.mp hx with e | hx
            · subst e; exact ha _ (by simp)
            · exact ih3 x hx
          · exact ih3 x hx

theorem merge2_sorted (f : Bool → Bool → Bool) :
    ∀ (fuel : Nat) (a b : List Nat), Sorted a → Sorted b → Sorted (merge2 f fuel a b) := by
  intro fuel
  induction fuel with
  | zero => intro a b _ _; simp [merge2, Sorted]
  | succ fuel ih =>
    intro a b ha hb
    match a, b with
    | [], [] => simp [merge2, Sorted]
    | u :: as, [] =>
      simp only [merge2]
      have ih' := ih as [] (sorted_tail ha) trivial
      split
      · exact sorted_cons ih' (merge2_lb f fuel as [] u (sorted_lt ha) (by simp))
      · exact ih'
    | [], w :: bs =>
      simp only [merge2]
      have ih' := ih [] bs trivial (sorted_tail hb)
      split
      · exact sorted_cons ih' (merge2_lb f fuel [] bs w (by simp) (sorted_lt hb))
      · exact ih'
    | u :: as, w :: bs =>
      simp only [merge2]
      split
      · rename_i huw
        have ih' := ih as (w :: bs) (sorted_tail ha) hb
        split
        · apply sorted_cons ih'
          apply merge2_lb f fuel as (w :: bs) u (sorted_lt ha)
          intro z hz
          rcases List.mem_cons.mp hz with e | hz
          · omega
          · have := sorted_lt hb z hz; omega
        · exact ih'
      · split
        · rename_i hwu
          have ih' := ih (u :: as) bs ha (sorted_tail hb)
          split
          · apply sorted_cons ih'
            apply merge2_lb f fuel (u :: as) bs w _ (sorted_lt hb)
            intro z hz
            rcases List.mem_cons.mp hz with e | hz
            · omega
            · have := sorted_lt ha z hz; omega
          · exact ih'
        · have ih' := ih as bs (sorted_tail ha) (sorted_tail hb)
          rename_i h1 h2
          have : u = w := by omega
          subst this
          split
          · exact sorted_cons ih' (merge2_lb f fuel as bs u (sorted_lt ha) (sorted_lt hb))
          · exact ih'

/-- every element of a merge comes from one of the inputs. -/
theorem merge2_subset (f : Bool → Bool → Bool) :
    ∀ (fuel : Nat) (a b : List Nat), ∀ x ∈ merge2 f fuel a b, x ∈ a ∨ x ∈ b := by
  intro fuel
  induction fuel with
  | zero => intro a b x hx; simp [merge2] at hx
  | succ fuel ih =>
    intro a b x hx
    match a, b with
    | [], [] => simp [merge2] at hx
    | u :: as, [] =>
      simp only [merge2] at hx
      split at hx
      · rcases List.mem_cons.mp hx with e | hx
        · simp [e]
        · rcases ih as [] x hx with h | h <;> simp [h]
      · rcases ih as [] x hx with h | h <;> simp [h]
    | [], w :: bs =>
      simp only [merge2] at hx
      split at hx
      · rcases List.mem_cons.mp hx with e | hx
        · simp [e]
        · rcases ih [] bs x hx with h | h <;> simp [h]
      · rcases ih [] bs x hx with h | h <;> simp [h]
    | u :: as, w :: bs =>
      simp only [merge2] at hx
      split at hx
      · split at hx
        · rcases List.mem_cons.mp hx with e | hx
          · simp [e]
          · rcases ih as (w :: bs) x hx with h | h
            · left; simp [h]
            · right; exact h
        · rcases ih as (w :: bs) x hx with h | h
          · left; simp [h]
          · right; exact h
      · split at hx
        · split at hx
          · rcases List.mem_cons.mp hx with e | hx
            · simp [e]
            · rcases ih (u :: as) bs x hx with h | h
              · left; exact h
              · right; simp [h]
          · rcases ih (u :: as) bs x hx with h | h
            · left; exact h
            · right; simp [h]
        · split at hx
          · rcases List.mem_cons.mp hx with e | hx
            · simp [e]
            · rcases ih as bs x hx with h | h
              · left; simp [h]
              · right; simp [h]
          · rcases ih as bs x hx with h | h
            · left; simp [h]
            · right; simp [h]

end PV.C01
