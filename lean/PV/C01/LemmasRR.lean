/-
C01 helper lemmas, part 3: the run x run kernels (`intersectRunRunEmit`, `intersectionCountRunRun`,
`unionRunRunEmit`, `differenceRunRunLoop`, `xorRunRunEmit`).  Core Lean only.
-/
import PV.C01.LemmasRun
namespace PV.C01
open Spec

/-! ### generic helpers -/

theorem EmitOK.valid {l : List Iv} (h : EmitOK l) : ∀ iv ∈ l, iv.start ≤ iv.last ∧ iv.last ≤ 65535 := by
  induction l with
  | nil => intro iv hiv; cases hiv
  | cons a t ih =>
    intro iv hiv
    rcases List.mem_cons.mp hiv with e | hiv
    · subst e; exact EmitOK.head h
    · exact ih (EmitOK.tail h) iv hiv

theorem inRuns_start_of_mem {l : List Iv} (hv : ∀ iv ∈ l, iv.start ≤ iv.last) {iv : Iv} (h : iv ∈ l) :
    inRuns l iv.start = true := by
  simp only [inRuns, List.any_eq_true]
  exact ⟨iv, h, by rw [inIv_iff]; have := hv iv h; omega⟩

theorem inRuns_lb {l : List Iv} {m v : Nat} (h : ∀ x ∈ l, m ≤ x.start) (hv : inRuns l v = true) : m ≤ v := by
  simp only [inRuns, List.any_eq_true] at hv
  rcases hv with ⟨iv, hiv, hv⟩
  rw [inIv_iff] at hv
  have := h iv hiv
  omega

theorem inRuns_lt65536 {l : List Iv} {v : Nat} (h : RunsWF l) (hv : inRuns l v = true) : v < 65536 := by
  simp only [inRuns, List.any_eq_true] at hv
  rcases hv with ⟨iv, hiv, hv⟩
  rw [inIv_iff] at hv
  have := RunsWF.valid h iv hiv
  omega

/-- all runs of a well-formed list start at or after the head's start. -/
theorem RunsWF.ge_head {a : Iv} {rest : List Iv} (h : RunsWF (a :: rest)) : ∀ iv ∈ a :: rest, a.start ≤ iv.start := by
  intro iv hiv
  rcases List.mem_cons.mp hiv with e | hiv
  · subst e; exact Nat.le_refl _
  · have := RunsWF.gt h iv hiv
    have := (RunsWF.head h).1
    omega

/-- `EmitOK.cons` from a semantic lower bound: every value of `rest` is `≥ a.start`. -/
theorem EmitOK.cons_sem {a : Iv} {rest : List Iv} (ha : a.start ≤ a.last ∧ a.last ≤ 65535)
    (hr : EmitOK rest) (hs : ∀ v, inRuns rest v = true → a.start ≤ v) : EmitOK (a :: rest) := by
  apply EmitOK.cons ha hr
  intro b hb
  have hb' : b ∈ rest := List.mem_of_mem_head? hb
  exact hs b.start (inRuns_start_of_mem (fun iv hiv => (EmitOK.valid hr iv hiv).1) hb')

theorem RunsWF.cons_sem {a : Iv} {rest : List Iv} (ha : a.start ≤ a.last ∧ a.last ≤ 65535)
    (hr : RunsWF rest) (hs : ∀ v, inRuns rest v = true → a.last < v) : RunsWF (a :: rest) := by
  apply RunsWF.cons ha hr
  intro b hb
  exact hs b.start (inRuns_start_of_mem (fun iv hiv => (RunsWF.valid hr iv hiv).1) hb)

theorem RunsWF.emitOK {l : List Iv} (h : RunsWF l) : EmitOK l := by
  induction l with
  | nil => trivial
  | cons a t ih =>
    apply EmitOK.cons (RunsWF.head h) (ih (RunsWF.tail h))
    intro b hb
    have := RunsWF.gt h b (List.mem_of_mem_head? hb)
    have := (RunsWF.head h).1
    omega

/-- values of the tail lie above the head. -/
theorem RunsWF.tail_gt {a : Iv} {rest : List Iv} (h : RunsWF (a :: rest)) {v : Nat}
    (hv : inRuns rest v = true) : a.last < v :=
  inRuns_lb (m := a.last + 1) (fun x hx => RunsWF.gt h x hx) hv

theorem bne_eq_or (a b : Bool) : (a != b) = ((a && !b) || (!a && b)) := by
  cases a <;> cases b <;> rfl

/-- pointwise Boolean/arithmetic goals: case on the two opaque Boolean atoms `x`, `y`; `h` holds the
arithmetic consequences of `x = true`, `y = true`. -/
syntax "pw2 " term:max term:max ident : tactic
macro_rules
  | `(tactic| pw2 $x $y $h) =>
    `(tactic| (revert $h:ident; cases $x:term <;> cases $y:term <;> intro $h:ident <;> simp at $h:ident <;> (try simp only [bne_eq_or]) <;>
      (try rw [Bool.eq_iff_iff]) <;> simp [inIv] <;> omega))


/-! ### intersectRunRunEmit -/

/-- the emitted sequence of `intersectRunRun` is even a well-formed run list. -/
theorem intersectRunRunEmit_wf (fuel : Nat) (ra rb : List Iv) (ha : RunsWF ra) (hb : RunsWF rb)
    (hf : ra.length + rb.length ≤ fuel) :
    RunsWF (intersectRunRunEmit fuel ra rb) ∧
    ∀ v, inRuns (intersectRunRunEmit fuel ra rb) v = (inRuns ra v && inRuns rb v) := by
  induction fuel generalizing ra rb with
  | zero =>
    have h1 : ra = [] := List.length_eq_zero_iff.mp (by omega)
    subst h1
    simp [intersectRunRunEmit, RunsWF]
  | succ f ih =>
    match ra, rb with
    | [], rb =>
      simp [intersectRunRunEmit, RunsWF]
    | va :: ra, [] =>
      simp [intersectRunRunEmit, RunsWF]
    | va :: ra, vb :: rb =>
      have hva := RunsWF.head ha
      have hvb := RunsWF.head hb
      have ih1 := ih ra (vb :: rb) (RunsWF.tail ha) hb (by simp only [List.length_cons] at hf ⊢; omega)
      have ih2 := ih (va :: ra) rb ha (RunsWF.tail hb) (by simp only [List.length_cons] at hf ⊢; omega)
      have pw : ∀ v, (inRuns ra v = true → va.last < v) ∧ (inRuns rb v = true → vb.last < v) :=
        fun v => ⟨RunsWF.tail_gt ha, RunsWF.tail_gt hb⟩
      simp only [intersectRunRunEmit]
      by_cases c1 : va.last < vb.start
      · rw [if_pos c1]
        refine ⟨ih1.1, ?_⟩
        intro v
        rw [ih1.2 v]
        have h := pw v
        simp only [inRuns_cons]
        pw2 (inRuns ra v) (inRuns rb v) h
      · rw [if_neg c1]
        by_cases c2 : vb.last < va.start
        · rw [if_pos c2]
          refine ⟨ih2.1, ?_⟩
          intro v
          rw [ih2.2 v]
          have h := pw v
          simp only [inRuns_cons]
          pw2 (inRuns ra v) (inRuns rb v) h
        · rw [if_neg c2]
          by_cases c3 : va.last > vb.last ∧ va.start ≥ vb.start
          · rw [if_pos c3]
            refine ⟨RunsWF.cons_sem (by simp only; omega) ih2.1 ?_, ?_⟩
            · intro v
              rw [ih2.2 v]
              have h := pw v
              simp only [inRuns_cons]
              pw2 (inRuns ra v) (inRuns rb v) h
            · intro v
              rw [inRuns_cons, ih2.2 v]
              have h := pw v
              simp only [inRuns_cons]
              pw2 (inRuns ra v) (inRuns rb v) h
          · rw [if_neg c3]
            by_cases c4 : va.last > vb.last ∧ va.start < vb.start
            · rw [if_pos c4]
              refine ⟨RunsWF.cons_sem hvb ih2.1 ?_, ?_⟩
              · intro v
                rw [ih2.2 v]
                have h := pw v
                simp only [inRuns_cons]
                pw2 (inRuns ra v) (inRuns rb v) h
              · intro v
                rw [inRuns_cons, ih2.2 v]
                have h := pw v
                simp only [inRuns_cons]
                pw2 (inRuns ra v) (inRuns rb v) h
            · rw [if_neg c4]
              by_cases c5 : va.last ≤ vb.last ∧ va.start ≥ vb.start
              · rw [if_pos c5]
                refine ⟨RunsWF.cons_sem hva ih1.1 ?_, ?_⟩
                · intro v
                  rw [ih1.2 v]
                  have h := pw v
                  simp only [inRuns_cons]
                  pw2 (inRuns ra v) (inRuns rb v) h
                · intro v
                  rw [inRuns_cons, ih1.2 v]
                  have h := pw v
                  simp only [inRuns_cons]
                  pw2 (inRuns ra v) (inRuns rb v) h
              · rw [if_neg c5]
                refine ⟨RunsWF.cons_sem (by simp only; omega) ih1.1 ?_, ?_⟩
                · intro v
                  rw [ih1.2 v]
                  have h := pw v
                  simp only [inRuns_cons]
                  pw2 (inRuns ra v) (inRuns rb v) h
                · intro v
                  rw [inRuns_cons, ih1.2 v]
                  have h := pw v
                  simp only [inRuns_cons]
                  pw2 (inRuns ra v) (inRuns rb v) h


theorem intersectRunRunEmit_spec (fuel : Nat) (ra rb : List Iv) (ha : RunsWF ra) (hb : RunsWF rb)
    (hf : ra.length + rb.length ≤ fuel) :
    EmitOK (intersectRunRunEmit fuel ra rb) ∧
    ∀ v, inRuns (intersectRunRunEmit fuel ra rb) v = (inRuns ra v && inRuns rb v) :=
  ⟨RunsWF.emitOK (intersectRunRunEmit_wf fuel ra rb ha hb hf).1, (intersectRunRunEmit_wf fuel ra rb ha hb hf).2⟩

/-! ### intersectionCountRunRun -/

theorem runsCard_eq_cnt {l : List Iv} (h : RunsWF l) : runsCard l = cnt (inRuns l) 0 65536 := by
  induction l with
  | nil =>
    rw [cnt_false (by intros; rfl)]; rfl
  | cons a t ih =>
    have ha := RunsWF.head h
    rw [cnt_inRuns_cons h, cnt_inIv a 0 65536 ha.1, ← ih (RunsWF.tail h)]
    simp only [runsCard]
    omega

/-- the count kernel adds up the cardinalities of the intervals the intersect kernel emits. -/
theorem intersectionCountRunRun_eq_card (fuel : Nat) (ra rb : List Iv) :
    intersectionCountRunRun fuel ra rb = runsCard (intersectRunRunEmit fuel ra rb) := by
  induction fuel generalizing ra rb with
  | zero => simp [intersectionCountRunRun, intersectRunRunEmit, runsCard]
  | succ f ih =>
    match ra, rb with
    | [], rb => simp [intersectionCountRunRun, intersectRunRunEmit, runsCard]
    | va :: ra, [] => simp [intersectionCountRunRun, intersectRunRunEmit, runsCard]
    | va :: ra, vb :: rb =>
      simp only [intersectionCountRunRun, intersectRunRunEmit]
      by_cases c1 : va.last < vb.start
      · rw [if_pos c1, if_pos c1]; exact ih _ _
      · rw [if_neg c1, if_neg c1]
        by_cases c2 : vb.last < va.start
        · rw [if_pos c2, if_pos c2]; exact ih _ _
        · rw [if_neg c2, if_neg c2]
          by_cases c3 : va.last > vb.last ∧ va.start ≥ vb.start
          · rw [if_pos c3, if_pos c3]; simp only [runsCard]; rw [ih]; omega
          · rw [if_neg c3, if_neg c3]
            by_cases c4 : va.last > vb.last ∧ va.start < vb.start
            · rw [if_pos c4, if_pos c4]; simp only [runsCard]; rw [ih]; omega
            · rw [if_neg c4, if_neg c4]
              by_cases c5 : va.last ≤ vb.last ∧ va.start ≥ vb.start
              · rw [if_pos c5, if_pos c5]; simp only [runsCard]; rw [ih]; omega
              · rw [if_neg c5, if_neg c5]; simp only [runsCard]; rw [ih]; omega

theorem intersectionCountRunRun_spec (fuel : Nat) (ra rb : List Iv) (ha : RunsWF ra) (hb : RunsWF rb)
    (hf : ra.length + rb.length ≤ fuel) :
    intersectionCountRunRun fuel ra rb = cnt (fun v => inRuns ra v && inRuns rb v) 0 65536 := by
  have h := intersectRunRunEmit_wf fuel ra rb ha hb hf
  rw [intersectionCountRunRun_eq_card, runsCard_eq_cnt h.1]
  apply cnt_congr
  intro v _ _
  exact h.2 v

/-! ### unionRunRunEmit -/

theorem unionRunRunEmit_spec (fuel : Nat) (ra rb : List Iv) (ha : RunsWF ra) (hb : RunsWF rb)
    (hf : ra.length + rb.length ≤ fuel) :
    EmitOK (unionRunRunEmit fuel ra rb) ∧
    ∀ v, inRuns (unionRunRunEmit fuel ra rb) v = (inRuns ra v || inRuns rb v) := by
  induction fuel generalizing ra rb with
  | zero =>
    have h1 : ra = [] := List.length_eq_zero_iff.mp (by omega)
    have h2 : rb = [] := List.length_eq_zero_iff.mp (by omega)
    subst h1 h2
    simp [unionRunRunEmit, EmitOK]
  | succ f ih =>
    match ra, rb with
    | [], [] => simp [unionRunRunEmit, EmitOK]
    | va :: ra, [] =>
      have hva := RunsWF.head ha
      have ih1 := ih ra [] (RunsWF.tail ha) hb (by simp only [List.length_cons] at hf ⊢; omega)
      simp only [unionRunRunEmit]
      refine ⟨EmitOK.cons_sem hva ih1.1 ?_, ?_⟩
      · intro v
        rw [ih1.2 v]
        have h : inRuns ra v = true → va.last < v := RunsWF.tail_gt ha
        simp only [inRuns_nil, Bool.or_false]
        intro h1; have := h h1; omega
      · intro v
        rw [inRuns_cons, ih1.2 v]
        simp
    | [], vb :: rb =>
      have hvb := RunsWF.head hb
      have ih1 := ih [] rb ha (RunsWF.tail hb) (by simp only [List.length_cons] at hf ⊢; omega)
      simp only [unionRunRunEmit]
      refine ⟨EmitOK.cons_sem hvb ih1.1 ?_, ?_⟩
      · intro v
        rw [ih1.2 v]
        have h : inRuns rb v = true → vb.last < v := RunsWF.tail_gt hb
        simp only [inRuns_nil, Bool.false_or]
        intro h1; have := h h1; omega
      · intro v
        rw [inRuns_cons, ih1.2 v]
        simp
    | va :: ra, vb :: rb =>
      have hva := RunsWF.head ha
      have hvb := RunsWF.head hb
      have ih1 := ih ra (vb :: rb) (RunsWF.tail ha) hb (by simp only [List.length_cons] at hf ⊢; omega)
      have ih2 := ih (va :: ra) rb ha (RunsWF.tail hb) (by simp only [List.length_cons] at hf ⊢; omega)
      have pw : ∀ v, (inRuns ra v = true → va.last < v) ∧ (inRuns rb v = true → vb.last < v) :=
        fun v => ⟨RunsWF.tail_gt ha, RunsWF.tail_gt hb⟩
      simp only [unionRunRunEmit]
      by_cases c1 : va.start < vb.start
      · rw [if_pos c1]
        refine ⟨EmitOK.cons_sem hva ih1.1 ?_, ?_⟩
        · intro v
          rw [ih1.2 v]
          have h := pw v
          simp only [inRuns_cons]
          pw2 (inRuns ra v) (inRuns rb v) h
        · intro v
          rw [inRuns_cons, ih1.2 v]
          simp only [inRuns_cons]
          cases inIv va v <;> cases inIv vb v <;> cases inRuns ra v <;> cases inRuns rb v <;> rfl
      · rw [if_neg c1]
        refine ⟨EmitOK.cons_sem hvb ih2.1 ?_, ?_⟩
        · intro v
          rw [ih2.2 v]
          have h := pw v
          simp only [inRuns_cons]
          pw2 (inRuns ra v) (inRuns rb v) h
        · intro v
          rw [inRuns_cons, ih2.2 v]
          simp only [inRuns_cons]
          cases inIv va v <;> cases inIv vb v <;> cases inRuns ra v <;> cases inRuns rb v <;> rfl


/-! ### differenceRunRunLoop -/

/-- "advance to the next a-run" of `differenceRunRunLoop`. -/
def drrNext (f : Nat) (ra rb : List Iv) : List Iv :=
  match ra with
  | [] => []
  | a' :: ra' => differenceRunRunLoop f a'.start a'.last ra' rb

theorem drr_cons_eq (f astart alast : Nat) (ra : List Iv) (vb : Iv) (rb : List Iv) :
    differenceRunRunLoop (f + 1) astart alast ra (vb :: rb) =
      if alast < vb.start then ⟨astart, alast⟩ :: drrNext f ra (vb :: rb)
      else if vb.last < astart then differenceRunRunLoop f astart alast ra rb
      else if alast > vb.last then
        (if astart < vb.start then [⟨astart, vb.start - 1⟩] else []) ++
          differenceRunRunLoop f (vb.last + 1) alast ra (vb :: rb)
      else (if astart < vb.start then [⟨astart, vb.start - 1⟩] else []) ++ drrNext f ra (vb :: rb) := by
  cases ra <;> rfl

/-- 1 when the head b-run may still trim the current a-run. -/
def drrC (astart : Nat) : List Iv → Nat
  | [] => 0
  | vb :: _ => if vb.last < astart then 0 else 1

theorem drrC_le (astart : Nat) (rb : List Iv) : drrC astart rb ≤ 1 := by
  cases rb with
  | nil => simp [drrC]
  | cons vb rb => simp only [drrC]; split <;> omega

theorem differenceRunRunLoop_gen (fuel : Nat) :
    ∀ (astart alast : Nat) (ra rb : List Iv), RunsWF (⟨astart, alast⟩ :: ra) → RunsWF rb →
      2 * (ra.length + rb.length) + drrC astart rb + 1 ≤ fuel →
      RunsWF (differenceRunRunLoop fuel astart alast ra rb) ∧
      ∀ v, inRuns (differenceRunRunLoop fuel astart alast ra rb) v =
        (inRuns (⟨astart, alast⟩ :: ra) v && !inRuns rb v) := by
  induction fuel with
  | zero => intro astart alast ra rb _ _ hf; omega
  | succ f ih =>
    intro astart alast ra rb ha hb hf
    cases rb with
    | nil =>
      simp only [differenceRunRunLoop]
      refine ⟨ha, ?_⟩
      intro v; simp
    | cons vb rb =>
      have hcur : astart ≤ alast ∧ alast ≤ 65535 := RunsWF.head ha
      have hvb := RunsWF.head hb
      have pw : ∀ v, (inRuns ra v = true → alast < v) ∧ (inRuns rb v = true → vb.last < v) :=
        fun v => ⟨RunsWF.tail_gt ha, RunsWF.tail_gt hb⟩
      -- the "advance a" continuation
      have hT : 2 * (ra.length + rb.length) + 2 ≤ f →
          RunsWF (drrNext f ra (vb :: rb)) ∧
          ∀ v, inRuns (drrNext f ra (vb :: rb)) v = (inRuns ra v && !inRuns (vb :: rb) v) := by
        intro hf'
        cases ra with
        | nil => simp [drrNext, RunsWF]
        | cons a' ra' =>
          have := drrC_le a'.start (vb :: rb)
          exact ih a'.start a'.last ra' (vb :: rb) (RunsWF.tail ha) hb
            (by simp only [List.length_cons] at hf' ⊢; omega)
      rw [drr_cons_eq]
      by_cases c1 : alast < vb.start
      · rw [if_pos c1]
        have hT := hT (by simp only [List.length_cons] at hf; omega)
        refine ⟨RunsWF.cons_sem hcur hT.1 ?_, ?_⟩
        · intro v
          rw [hT.2 v]
          have h := pw v
          simp only [inRuns_cons]
          pw2 (inRuns ra v) (inRuns rb v) h
        · intro v
          rw [inRuns_cons, hT.2 v]
          have h := pw v
          simp only [inRuns_cons]
          pw2 (inRuns ra v) (inRuns rb v) h
      · rw [if_neg c1]
        by_cases c2 : vb.last < astart
        · rw [if_pos c2]
          have hc : drrC astart (vb :: rb) = 0 := by simp [drrC, c2]
          have := drrC_le astart rb
          have ih2 := ih astart alast ra rb ha (RunsWF.tail hb)
            (by simp only [List.length_cons] at hf; omega)
          refine ⟨ih2.1, ?_⟩
          intro v
          rw [ih2.2 v]
          have h := pw v
          simp only [inRuns_cons]
          pw2 (inRuns ra v) (inRuns rb v) h
        · rw [if_neg c2]
          have hc : drrC astart (vb :: rb) = 1 := by simp [drrC, c2]
          by_cases c3 : alast > vb.last
          · rw [if_pos c3]
            have hc' : drrC (vb.last + 1) (vb :: rb) = 0 := by simp [drrC]
            have ha3 : RunsWF (⟨vb.last + 1, alast⟩ :: ra) :=
              RunsWF.cons (by simp only; omega) (RunsWF.tail ha) (fun iv hiv => RunsWF.gt ha iv hiv)
            have ih3 := ih (vb.last + 1) alast ra (vb :: rb) ha3 hb (by omega)
            by_cases c4 : astart < vb.start
            · rw [if_pos c4, List.singleton_append]
              refine ⟨RunsWF.cons_sem (by simp only; omega) ih3.1 ?_, ?_⟩
              · intro v
                rw [ih3.2 v]
                have h := pw v
                simp only [inRuns_cons]
                pw2 (inRuns ra v) (inRuns rb v) h
              · intro v
                rw [inRuns_cons, ih3.2 v]
                have h := pw v
                simp only [inRuns_cons]
                pw2 (inRuns ra v) (inRuns rb v) h
            · rw [if_neg c4, List.nil_append]
              refine ⟨ih3.1, ?_⟩
              intro v
              rw [ih3.2 v]
              have h := pw v
              simp only [inRuns_cons]
              pw2 (inRuns ra v) (inRuns rb v) h
          · rw [if_neg c3]
            have hT := hT (by simp only [List.length_cons] at hf; omega)
            by_cases c4 : astart < vb.start
            · rw [if_pos c4, List.singleton_append]
              refine ⟨RunsWF.cons_sem (by simp only; omega) hT.1 ?_, ?_⟩
              · intro v
                rw [hT.2 v]
                have h := pw v
                simp only [inRuns_cons]
                pw2 (inRuns ra v) (inRuns rb v) h
              · intro v
                rw [inRuns_cons, hT.2 v]
                have h := pw v
                simp only [inRuns_cons]
                pw2 (inRuns ra v) (inRuns rb v) h
            · rw [if_neg c4, List.nil_append]
              refine ⟨hT.1, ?_⟩
              intro v
              rw [hT.2 v]
              have h := pw v
              simp only [inRuns_cons]
              pw2 (inRuns ra v) (inRuns rb v) h

theorem differenceRunRunLoop_spec (a : Iv) (ra rb : List Iv) (ha : RunsWF (a :: ra)) (hb : RunsWF rb)
    (fuel : Nat) (hf : 2 * (ra.length + 1 + rb.length) + 2 ≤ fuel) :
    RunsWF (differenceRunRunLoop fuel a.start a.last ra rb) ∧
    ∀ v, inRuns (differenceRunRunLoop fuel a.start a.last ra rb) v = (inRuns (a :: ra) v && !inRuns rb v) := by
  have := drrC_le a.start rb
  exact differenceRunRunLoop_gen fuel a.start a.last ra rb ha hb (by omega)


/-! ### xorRunRunEmit -/

/-- membership in an optional (possibly trimmed) current run. -/
def inO : Option Iv → Nat → Bool
  | none, _ => false
  | some iv, v => inIv iv v

/-- the runs still to be processed: optional current run, then the unread ones. -/
def optRuns : Option Iv → List Iv → List Iv
  | none, l => l
  | some a, l => a :: l

def osz : Option Iv → Nat
  | none => 0
  | some _ => 1

theorem inRuns_optRuns (w : Option Iv) (l : List Iv) (v : Nat) :
    inRuns (optRuns w l) v = (inO w v || inRuns l v) := by
  cases w <;> simp [optRuns, inO]

/-- the emitted interval of `xorCompare` is valid, starts at the smaller start and ends inside both runs. -/
theorem xorCompare_emit (va vb : Iv) (ha : va.start ≤ va.last ∧ va.last ≤ 65535)
    (hb : vb.start ≤ vb.last ∧ vb.last ≤ 65535) :
    ∀ iv, (xorCompare va vb).1 = some iv →
      iv.start ≤ iv.last ∧ iv.last ≤ 65535 ∧ iv.start ≤ va.start ∧ iv.start ≤ vb.start := by
  intro iv
  generalize hr : xorCompare va vb = r
  simp only [xorCompare] at hr
  repeat' (split at hr)
  all_goals (subst hr; intro h; simp only [Option.some.injEq, reduceCtorEq] at h; try subst h)
  all_goals (try simp only)
  all_goals omega

/-- what is left of `va` is a valid tail piece of `va`. -/
theorem xorCompare_remA (va vb : Iv) (ha : va.start ≤ va.last ∧ va.last ≤ 65535)
    (hb : vb.start ≤ vb.last ∧ vb.last ≤ 65535) :
    ∀ w, (xorCompare va vb).2.1 = some w → w.start ≤ w.last ∧ va.start ≤ w.start ∧ w.last = va.last := by
  intro w
  generalize hr : xorCompare va vb = r
  simp only [xorCompare] at hr
  repeat' (split at hr)
  all_goals (subst hr; intro h; simp only [Option.some.injEq, reduceCtorEq] at h; try subst h)
  all_goals (try simp only)
  all_goals (refine ⟨?_, ?_, ?_⟩)
  all_goals (first | omega | trivial)

theorem xorCompare_remB (va vb : Iv) (ha : va.start ≤ va.last ∧ va.last ≤ 65535)
    (hb : vb.start ≤ vb.last ∧ vb.last ≤ 65535) :
    ∀ w, (xorCompare va vb).2.2 = some w → w.start ≤ w.last ∧ vb.start ≤ w.start ∧ w.last = vb.last := by
  intro w
  generalize hr : xorCompare va vb = r
  simp only [xorCompare] at hr
  repeat' (split at hr)
  all_goals (subst hr; intro h; simp only [Option.some.injEq, reduceCtorEq] at h; try subst h)
  all_goals (try simp only)
  all_goals (refine ⟨?_, ?_, ?_⟩)
  all_goals (first | omega | trivial)

/-- at most one of the two runs survives a comparison. -/
theorem xorCompare_osz (va vb : Iv) : osz (xorCompare va vb).2.1 + osz (xorCompare va vb).2.2 ≤ 1 := by
  generalize hr : xorCompare va vb = r
  simp only [xorCompare] at hr
  repeat' (split at hr)
  all_goals (subst hr; simp only [osz])
  all_goals omega

/-- pointwise: emitted ∪ (rest of `va` ++ x) xor (rest of `vb` ++ y) = (va ++ x) xor (vb ++ y), for any sets
`x`, `y` lying above `va`, `vb`. -/
theorem xorCompare_sem (va vb : Iv) (ha : va.start ≤ va.last ∧ va.last ≤ 65535)
    (hb : vb.start ≤ vb.last ∧ vb.last ≤ 65535) (v : Nat) (x y : Bool)
    (h : (x = true → va.last < v) ∧ (y = true → vb.last < v)) :
    (inO (xorCompare va vb).1 v || ((inO (xorCompare va vb).2.1 v || x) != (inO (xorCompare va vb).2.2 v || y))) =
      ((inIv va v || x) != (inIv vb v || y)) := by
  generalize hr : xorCompare va vb = r
  simp only [xorCompare] at hr
  repeat' (split at hr)
  all_goals (subst hr; simp only [inO])
  all_goals (pw2 x y h)


theorem optRuns_rem_wf {va : Iv} {ra : List Iv} (h : RunsWF (va :: ra)) {w : Option Iv}
    (hw : ∀ wa, w = some wa → wa.start ≤ wa.last ∧ va.start ≤ wa.start ∧ wa.last = va.last) :
    RunsWF (optRuns w ra) := by
  cases w with
  | none => exact RunsWF.tail h
  | some wa =>
    have h1 := hw wa rfl
    have h2 := RunsWF.head h
    apply RunsWF.cons (by omega) (RunsWF.tail h)
    intro iv hiv
    have := RunsWF.gt h iv hiv
    omega

theorem xorRunRunEmit_gen (fuel : Nat) :
    ∀ (sa : Option Iv) (ra : List Iv) (sb : Option Iv) (rb : List Iv),
      RunsWF (optRuns sa ra) → RunsWF (optRuns sb rb) →
      2 * ra.length + osz sa + 2 * rb.length + osz sb ≤ fuel →
      EmitOK (xorRunRunEmit fuel sa ra sb rb) ∧
      ∀ v, inRuns (xorRunRunEmit fuel sa ra sb rb) v =
        (inRuns (optRuns sa ra) v != inRuns (optRuns sb rb) v) := by
  induction fuel with
  | zero =>
    intro sa ra sb rb _ _ hf
    have h1 : ra = [] := List.length_eq_zero_iff.mp (by omega)
    have h2 : rb = [] := List.length_eq_zero_iff.mp (by omega)
    subst h1 h2
    cases sa <;> cases sb <;> simp [osz] at hf
    simp [xorRunRunEmit, EmitOK, optRuns]
  | succ f ih =>
    intro sa ra sb rb ha hb hf
    match sa, ra, sb, rb with
    | none, va :: ra, sb, rb =>
      simp only [xorRunRunEmit]
      exact ih (some va) ra sb rb ha hb (by simp only [List.length_cons, osz] at hf ⊢; omega)
    | none, [], none, vb :: rb =>
      simp only [xorRunRunEmit]
      exact ih none [] (some vb) rb ha hb (by simp only [List.length_cons, osz] at hf ⊢; omega)
    | some va, ra, none, vb :: rb =>
      simp only [xorRunRunEmit]
      exact ih (some va) ra (some vb) rb ha hb (by simp only [List.length_cons, osz] at hf ⊢; omega)
    | none, [], none, [] =>
      simp [xorRunRunEmit, EmitOK, optRuns]
    | some va, ra, none, [] =>
      simp only [xorRunRunEmit]
      have ha' : RunsWF (va :: ra) := ha
      have hva := RunsWF.head ha'
      have ih1 := ih none ra none [] (RunsWF.tail ha') hb (by simp only [osz] at hf ⊢; omega)
      have h : ∀ v, inRuns ra v = true → va.last < v := fun v => RunsWF.tail_gt ha'
      refine ⟨EmitOK.cons_sem hva ih1.1 ?_, ?_⟩
      · intro v
        rw [ih1.2 v]
        have h := h v
        simp only [optRuns, inRuns_nil]
        intro h1
        have : inRuns ra v = true := by simpa using h1
        have := h this
        omega
      · intro v
        rw [inRuns_cons, ih1.2 v]
        simp [optRuns]
    | none, [], some vb, rb =>
      simp only [xorRunRunEmit]
      have hb' : RunsWF (vb :: rb) := hb
      have hvb := RunsWF.head hb'
      have ih1 := ih none [] none rb ha (RunsWF.tail hb') (by simp only [osz] at hf ⊢; omega)
      have h : ∀ v, inRuns rb v = true → vb.last < v := fun v => RunsWF.tail_gt hb'
      refine ⟨EmitOK.cons_sem hvb ih1.1 ?_, ?_⟩
      · intro v
        rw [ih1.2 v]
        have h := h v
        simp only [optRuns, inRuns_nil]
        intro h1
        have : inRuns rb v = true := by simpa using h1
        have := h this
        omega
      · intro v
        rw [inRuns_cons, ih1.2 v]
        simp [optRuns]
    | some va, ra, some vb, rb =>
      simp only [xorRunRunEmit]
      have ha' : RunsWF (va :: ra) := ha
      have hb' : RunsWF (vb :: rb) := hb
      have hva := RunsWF.head ha'
      have hvb := RunsWF.head hb'
      have hE := xorCompare_emit va vb hva hvb
      have hA := xorCompare_remA va vb hva hvb
      have hB := xorCompare_remB va vb hva hvb
      have hZ := xorCompare_osz va vb
      have hS := fun v x y h => xorCompare_sem va vb hva hvb v x y h
      have pw : ∀ v, (inRuns ra v = true → va.last < v) ∧ (inRuns rb v = true → vb.last < v) :=
        fun v => ⟨RunsWF.tail_gt ha', RunsWF.tail_gt hb'⟩
      generalize xorCompare va vb = r at hE hA hB hZ hS ⊢
      obtain ⟨e, wa, wb⟩ := r
      simp only at hE hA hB hZ hS ⊢
      have ih1 := ih wa ra wb rb (optRuns_rem_wf ha' hA) (optRuns_rem_wf hb' hB)
        (by simp only [osz] at hf; omega)
      -- values of what is left lie at or above the smaller start
      have lbA : ∀ v, inRuns (optRuns wa ra) v = true → va.start ≤ v := by
        intro v hv
        rw [inRuns_optRuns] at hv
        cases wa with
        | none =>
          have := (pw v).1 (by simpa [inO] using hv); omega
        | some w =>
          have hw := hA w rfl
          simp only [inO, Bool.or_eq_true, inIv_iff] at hv
          rcases hv with hv | hv
          · omega
          · have := (pw v).1 hv; omega
      have lbB : ∀ v, inRuns (optRuns wb rb) v = true → vb.start ≤ v := by
        intro v hv
        rw [inRuns_optRuns] at hv
        cases wb with
        | none =>
          have := (pw v).2 (by simpa [inO] using hv); omega
        | some w =>
          have hw := hB w rfl
          simp only [inO, Bool.or_eq_true, inIv_iff] at hv
          rcases hv with hv | hv
          · omega
          · have := (pw v).2 hv; omega
      have sem : ∀ v, (inO e v || inRuns (xorRunRunEmit f wa ra wb rb) v) =
          (inRuns (optRuns (some va) ra) v != inRuns (optRuns (some vb) rb) v) := by
        intro v
        rw [ih1.2 v, inRuns_optRuns, inRuns_optRuns]
        simp only [optRuns, inRuns_cons]
        exact hS v _ _ (pw v)
      cases e with
      | none =>
        simp only
        refine ⟨ih1.1, ?_⟩
        intro v
        rw [← sem v]; simp [inO]
      | some iv =>
        simp only
        have hiv := hE iv rfl
        refine ⟨EmitOK.cons_sem ⟨hiv.1, hiv.2.1⟩ ih1.1 ?_, ?_⟩
        · intro v hv
          rw [ih1.2 v] at hv
          cases h1 : inRuns (optRuns wa ra) v
          · cases h2 : inRuns (optRuns wb rb) v
            · rw [h1, h2] at hv; cases hv
            · have := lbB v h2; omega
          · have := lbA v h1; omega
        · intro v
          rw [inRuns_cons, ← sem v]; simp [inO]

theorem xorRunRunEmit_spec (ra rb : List Iv) (ha : RunsWF ra) (hb : RunsWF rb)
    (fuel : Nat) (hf : 4 * (ra.length + rb.length) + 4 ≤ fuel) :
    EmitOK (xorRunRunEmit fuel none ra none rb) ∧
    ∀ v, inRuns (xorRunRunEmit fuel none ra none rb) v = (inRuns ra v != inRuns rb v) :=
  xorRunRunEmit_gen fuel none ra none rb ha hb (by simp only [osz]; omega)

end PV.C01
