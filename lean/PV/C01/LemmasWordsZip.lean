/-
C01 helper lemmas, part 14: the word-wise bitmap × bitmap kernels refine the set operations.
Core Lean only.
-/
import PV.C01.LemmasWordsN
namespace PV.C01
open Spec

theorem getD_zipWith (op : Nat → Nat → Nat) (a b : List Nat) (k : Nat) (ha : k < a.length) (hb : k < b.length) :
    (List.zipWith op a b).getD k 0 = op (a.getD k 0) (b.getD k 0) := by
  rw [List.getD_eq_getElem?_getD, List.getD_eq_getElem?_getD, List.getD_eq_getElem?_getD, List.getElem?_zipWith,
    List.getElem?_eq_getElem ha, List.getElem?_eq_getElem hb]
  rfl

theorem zipWith_wf {a b : List Nat} (ha : WordsWF a) (hb : WordsWF b) (op : Nat → Nat → Nat)
    (hop : ∀ x y, x < 2 ^ 64 → y < 2 ^ 64 → op x y < 2 ^ 64) : WordsWF (List.zipWith op a b) := by
  refine ⟨by rw [List.length_zipWith, ha.1, hb.1]; rfl, ?_⟩
  intro w hw
  rcases List.mem_iff_getElem?.mp hw with ⟨k, hk⟩
  rw [List.getElem?_zipWith] at hk
  cases hx : a[k]? with
  | none => rw [hx] at hk; simp at hk
  | some x =>
    cases hy : b[k]? with
    | none => rw [hx, hy] at hk; simp at hk
    | some y =>
      rw [hx, hy] at hk
      simp at hk
      rw [← hk]
      exact hop x y (ha.2 x (List.mem_of_getElem? hx)) (hb.2 y (List.mem_of_getElem? hy))

/-- a word-wise Boolean operation is the set operation on the abstractions, and the popcount sum
is the cardinality of the result. -/
theorem wZipN_refines {a b : List Nat} (ha : WordsWF a) (hb : WordsWF b) (op : Nat → Nat → Nat)
    (f : Bool → Bool → Bool) (hf : f false false = false)
    (hop : ∀ x y, x < 2 ^ 64 → y < 2 ^ 64 → op x y < 2 ^ 64)
    (hbit : ∀ x y t, x < 2 ^ 64 → y < 2 ^ 64 → t < 64 → (op x y).testBit t = f (x.testBit t) (y.testBit t)) :
    WordsWF (wZipN op a b).2 ∧ absW (wZipN op a b).2 = Spec.op f (absW a) (absW b) ∧
    (wZipN op a b).1 = (absW (wZipN op a b).2).length := by
  have hw := zipWith_wf ha hb op hop
  refine ⟨hw, ?_, ?_⟩
  · apply absW_ext hw (sorted_op f (sorted_absW a) (sorted_absW b)) (op_lt f (absW_lt ha) (absW_lt hb))
    intro p hp
    rw [mem_op f hf (sorted_absW a) (sorted_absW b)]
    have hka : p / 64 < a.length := by rw [ha.1]; omega
    have hkb : p / 64 < b.length := by rw [hb.1]; omega
    have e : bitp (List.zipWith op a b) p = f (bitp a p) (bitp b p) := by
      unfold bitp
      rw [getD_zipWith op a b _ hka hkb, hbit _ _ _ (getD_lt ha.2 _) (getD_lt hb.2 _) (by omega)]
    show bitp (List.zipWith op a b) p = true ↔ _
    rw [e]
    have ea : decide (p ∈ absW a) = bitp a p := by
      rw [Bool.eq_iff_iff, decide_eq_true_eq]; exact (bitp_iff_absW ha p hp).symm
    have eb : decide (p ∈ absW b) = bitp b p := by
      rw [Bool.eq_iff_iff, decide_eq_true_eq]; exact (bitp_iff_absW hb p hp).symm
    rw [ea, eb]
  · show sumPop (List.zipWith op a b) 0 1024 = (absW (List.zipWith op a b)).length
    rw [← sumPop_total, hw.1]

theorem wAndN_refines {a b : List Nat} (ha : WordsWF a) (hb : WordsWF b) :
    WordsWF (wAndN a b).2 ∧ absW (wAndN a b).2 = Spec.inter (absW a) (absW b) ∧
    (wAndN a b).1 = (absW (wAndN a b).2).length :=
  wZipN_refines ha hb _ (fun p q => p && q) rfl (fun x _ _ hy => Nat.and_lt_two_pow x hy)
    (fun x y t _ _ _ => Nat.testBit_and x y t)

theorem wOrN_refines {a b : List Nat} (ha : WordsWF a) (hb : WordsWF b) :
    WordsWF (wOrN a b).2 ∧ absW (wOrN a b).2 = Spec.union (absW a) (absW b) ∧
    (wOrN a b).1 = (absW (wOrN a b).2).length :=
  wZipN_refines ha hb _ (fun p q => p || q) rfl (fun _ _ hx hy => Nat.or_lt_two_pow hx hy)
    (fun x y t _ _ _ => Nat.testBit_or x y t)

theorem wXorN_refines {a b : List Nat} (ha : WordsWF a) (hb : WordsWF b) :
    WordsWF (wXorN a b).2 ∧ absW (wXorN a b).2 = Spec.xor (absW a) (absW b) ∧
    (wXorN a b).1 = (absW (wXorN a b).2).length :=
  wZipN_refines ha hb _ (fun p q => p != q) rfl (fun _ _ hx hy => Nat.xor_lt_two_pow hx hy)
    (fun x y t _ _ _ => Nat.testBit_xor x y t)

theorem wAndNotN_refines {a b : List Nat} (ha : WordsWF a) (hb : WordsWF b) :
    WordsWF (wAndNotN a b).2 ∧ absW (wAndNotN a b).2 = Spec.diff (absW a) (absW b) ∧
    (wAndNotN a b).1 = (absW (wAndNotN a b).2).length :=
  wZipN_refines ha hb _ (fun p q => p && !q) rfl (fun x y _ _ => Nat.and_lt_two_pow x (wnot_lt y))
    (fun x y t _ hy ht => by
      unfold andNot
      rw [Nat.testBit_and, testBit_wnot hy]
      have : decide (t < 64) = true := by simp; omega
      rw [this]; rfl)

end PV.C01
