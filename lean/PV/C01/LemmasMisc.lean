/-
C01 helper lemmas, part 3: shift, array -> run conversion, countRuns, max.  Core Lean only.
-/
import PV.C01.LemmasRun
namespace PV.C01
open Spec

/-! ### shiftArray -/

theorem shiftArray_spec (xs : List Nat) (h : Sorted xs) (hlt : ∀ v ∈ xs, v < 65536) :
    Sorted (shiftArray xs).1 ∧
    (∀ v, v ∈ (shiftArray xs).1 ↔ (1 ≤ v ∧ v < 65536 ∧ v - 1 ∈ xs)) ∧
    ((shiftArray xs).2 = true ↔ 65535 ∈ xs) := by
  induction xs with
  | nil => simp [shiftArray, Sorted]
  | cons a t ih =>
    have iht := ih (sorted_tail h) (fun v hv => hlt v (by simp [hv]))
    have ha := hlt a (by simp)
    have hgt := sorted_lt h
    simp only [shiftArray]
    by_cases h1 : a + 1 = 65536
    · rw [if_pos h1]
      -- a = 65535 is the largest possible value, so the tail is empty
      have ht : t = [] := by
        cases t with
        | nil => rfl
        | cons b u =>
          have := hgt b (by simp); have := hlt b (by simp); omega
      subst ht
      have ha' : a = 65535 := by omega
      subst ha'
      simp [shiftArray, Sorted]
      intro v h1 h2 h3; omega
    · rw [if_neg h1]
      refine ⟨?_, ?_, ?_⟩
      · apply sorted_cons iht.1
        intro x hx
        have := (iht.2.1 x).mp hx
        have := hgt (x - 1) this.2.2
        omega
      · intro v
        simp only [List.mem_cons, iht.2.1 v]
        constructor
        · rintro (e | ⟨h1', h2', h3'⟩)
          · subst e; exact ⟨by omega, by omega, Or.inl (by omega)⟩
          · exact ⟨h1', h2', Or.inr h3'⟩
        · rintro ⟨h1', h2', e | h3'⟩
          · left; omega
          · right; exact ⟨h1', h2', h3'⟩
      · simp only [iht.2.2, List.mem_cons]
        constructor
        · intro hm; exact Or.inr hm
        · rintro (e | hm)
          · omega
          · exact hm

/-! ### shiftRunLoop -/

theorem shiftRunLoop_spec (ivs : List Iv) (h : RunsWF ivs) (c : Bool) :
    RunsWF (shiftRunLoop ivs c).1 ∧
    (∀ iv ∈ (shiftRunLoop ivs c).1, ∃ iv' ∈ ivs, iv.start = iv'.start + 1) ∧
    (∀ v, inRuns (shiftRunLoop ivs c).1 v = (decide (1 ≤ v ∧ v ≤ 65535) && inRuns ivs (v - 1))) ∧
    ((shiftRunLoop ivs c).2 = (match ivs with | [] => c | _ => inRuns ivs 65535)) := by
  induction ivs generalizing c with
  | nil => simp [shiftRunLoop, RunsWF]
  | cons a rest ih =>
    have ha := RunsWF.head h
    have hgt := RunsWF.gt h
    simp only [shiftRunLoop]
    by_cases h1 : a.start + 1 = 65536
    · rw [if_pos h1]
      have hrest : rest = [] := by
        cases rest with
        | nil => rfl
        | cons b u =>
          have := hgt b (by simp); have := RunsWF.head (RunsWF.tail h); omega
      subst hrest
      refine ⟨trivial, by simp, ?_, ?_⟩
      · intro v
        simp only [inRuns_nil, inRuns_cons, Bool.or_false]
        cases hv : decide (1 ≤ v ∧ v ≤ 65535) <;> simp [inIv] <;> simp at hv <;> omega
      · simp [inIv]; omega
    · rw [if_neg h1]
      by_cases h2 : a.last + 1 = 65536
      · rw [if_pos h2]
        have hrest : rest = [] := by
          cases rest with
          | nil => rfl
          | cons b u =>
            have := hgt b (by simp); have := RunsWF.head (RunsWF.tail h); omega
        subst hrest
        simp only [shiftRunLoop]
        refine ⟨⟨by simp; omega, by simp; omega⟩, by simp, ?_, ?_⟩
        · intro v
          simp only [inRuns_nil, inRuns_cons, Bool.or_false, inIv]
          rw [← Bool.decide_and, decide_eq_decide]
          omega
        · simp [inIv]; omega
      · rw [if_neg h2]
        have iht := ih (RunsWF.tail h) false
        refine ⟨?_, ?_, ?_, ?_⟩
        · apply RunsWF.cons (by simp; omega) iht.1
          intro iv hiv
          rcases iht.2.1 iv hiv with ⟨iv', hiv', e⟩
          have := hgt iv' hiv'
          simp; omega
        · intro iv hiv
          rcases List.mem_cons.mp hiv with e | hiv
          · exact ⟨a, by simp, by simp [e]⟩
          · rcases iht.2.1 iv hiv with ⟨iv', hiv', e⟩
            exact ⟨iv', by simp [hiv'], e⟩
        · intro v
          simp only [inRuns_cons, iht.2.2.1 v]
          have : inIv ⟨a.start + 1, a.last + 1⟩ v = (decide (1 ≤ v ∧ v ≤ 65535) && inIv a (v - 1)) := by
            simp only [inIv]
            rw [← Bool.decide_and, decide_eq_decide]
            omega
          rw [this]
          cases decide (1 ≤ v ∧ v ≤ 65535) <;> simp
        · rw [iht.2.2.2]
          cases rest with
          | nil => simp [inIv]; omega
          | cons b u =>
            simp only [inRuns_cons]
            have : inIv a 65535 = false := by simp [inIv]; omega
            rw [this]; simp

/-! ### arrayToRun -/

theorem arrayToRunLoop_spec (rest : List Nat) :
    ∀ (start prev : Nat), start ≤ prev → Sorted (prev :: rest) → (∀ v ∈ prev :: rest, v < 65536) →
      RunsWF (arrayToRunLoop start prev rest) ∧
      (∀ iv ∈ arrayToRunLoop start prev rest, start ≤ iv.start) ∧
      (∀ v, inRuns (arrayToRunLoop start prev rest) v = (decide (start ≤ v ∧ v ≤ prev) || decide (v ∈ rest))) ∧
      runsCard (arrayToRunLoop start prev rest) = (prev - start + 1) + rest.length := by
  induction rest with
  | nil =>
    intro start prev hsp _ hlt
    have := hlt prev (by simp)
    simp only [arrayToRunLoop]
    refine ⟨⟨hsp, by show prev ≤ 65535; omega⟩, by simp, ?_, by simp [runsCard]⟩
    intro v; simp [inIv]
  | cons x t ih =>
    intro start prev hsp hs hlt
    have hpx : prev < x := hs.1
    have hst := sorted_tail hs
    have hlt' : ∀ v ∈ x :: t, v < 65536 := fun v hv => hlt v (by simp [hv])
    have hp := hlt prev (by simp)
    simp only [arrayToRunLoop]
    by_cases h1 : x - prev > 1
    · rw [if_pos h1]
      have iht := ih x x (Nat.le_refl _) hst hlt'
      refine ⟨?_, ?_, ?_, ?_⟩
      · apply RunsWF.cons ⟨hsp, by show prev ≤ 65535; omega⟩ iht.1
        intro iv hiv
        have := iht.2.1 iv hiv
        simp; omega
      · intro iv hiv
        rcases List.mem_cons.mp hiv with e | hiv
        · subst e; exact Nat.le_refl _
        · have := iht.2.1 iv hiv; omega
      · intro v
        rw [inRuns_cons, iht.2.2.1 v]
        simp only [inIv, List.mem_cons]
        by_cases hvx : v = x
        · subst hvx; simp
        · have : ¬ (x ≤ v ∧ v ≤ x) := by omega
          simp [hvx, this]
      · simp only [runsCard, iht.2.2.2, List.length_cons]; omega
    · rw [if_neg h1]
      have hx : x = prev + 1 := by omega
      have iht := ih start x (by omega) hst hlt'
      refine ⟨iht.1, iht.2.1, ?_, ?_⟩
      · intro v
        rw [iht.2.2.1 v]
        simp only [List.mem_cons]
        by_cases hvx : v = x
        · subst hvx
          have : start ≤ v ∧ v ≤ v := by omega
          simp [this]
        · have : (start ≤ v ∧ v ≤ x) ↔ (start ≤ v ∧ v ≤ prev) := by omega
          simp [hvx, this]
      · rw [iht.2.2.2, List.length_cons]; omega

theorem arrayToRunIvs_spec (xs : List Nat) (h : Sorted xs) (hlt : ∀ v ∈ xs, v < 65536) :
    RunsWF (arrayToRunIvs xs) ∧ (∀ v, inRuns (arrayToRunIvs xs) v = decide (v ∈ xs)) ∧
    runsCard (arrayToRunIvs xs) = xs.length := by
  cases xs with
  | nil => simp [arrayToRunIvs, RunsWF, runsCard]
  | cons x t =>
    have := arrayToRunLoop_spec t x x (Nat.le_refl _) h hlt
    simp only [arrayToRunIvs]
    refine ⟨this.1, ?_, by rw [this.2.2.2, List.length_cons]; omega⟩
    intro v
    rw [this.2.2.1 v]
    simp only [List.mem_cons]
    by_cases hvx : v = x
    · subst hvx; simp
    · have : ¬ (x ≤ v ∧ v ≤ x) := by omega
      simp [hvx, this]

/-- `arrayCountRuns` counts exactly the runs `arrayToRun` produces. -/
theorem arrayCountRunsFrom_eq (rest : List Nat) :
    ∀ (start prev : Nat), Sorted (prev :: rest) →
      1 + arrayCountRunsFrom (some prev) rest = (arrayToRunLoop start prev rest).length := by
  induction rest with
  | nil => intro start prev _; simp [arrayCountRunsFrom, arrayToRunLoop]
  | cons x t ih =>
    intro start prev hs
    have hpx : prev < x := hs.1
    simp only [arrayCountRunsFrom, arrayToRunLoop]
    by_cases h1 : x - prev > 1
    · rw [if_pos h1]
      have : prev + 1 ≠ x := by omega
      rw [if_pos this, List.length_cons, ← ih x x (sorted_tail hs)]
      omega
    · rw [if_neg h1]
      have : ¬ (prev + 1 ≠ x) := by omega
      rw [if_neg this, ← ih start x (sorted_tail hs)]
      omega

theorem arrayCountRuns_eq (xs : List Nat) (h : Sorted xs) :
    arrayCountRuns xs = (arrayToRunIvs xs).length := by
  cases xs with
  | nil => rfl
  | cons x t =>
    simp only [arrayCountRuns, arrayCountRunsFrom, arrayToRunIvs]
    exact arrayCountRunsFrom_eq t x x h

/-! ### max -/

theorem sorted_getLast_max (xs : List Nat) (h : Sorted xs) (hne : xs ≠ []) :
    xs.getLast?.getD 0 ∈ xs ∧ ∀ v ∈ xs, v ≤ xs.getLast?.getD 0 := by
  induction xs with
  | nil => exact absurd rfl hne
  | cons a t ih =>
    cases t with
    | nil => simp
    | cons b u =>
      have iht := ih (sorted_tail h) (by simp)
      have hgt := sorted_lt h
      rw [List.getLast?_cons_cons]
      refine ⟨by simp only [List.mem_cons] at iht ⊢; exact Or.inr iht.1, ?_⟩
      intro v hv
      rcases List.mem_cons.mp hv with e | hv
      · subst e
        have h1 := hgt _ iht.1
        omega
      · exact iht.2 v hv

theorem runs_getLast_max (ivs : List Iv) (h : RunsWF ivs) (hne : ivs ≠ []) :
    ∃ l, ivs.getLast? = some l ∧ inRuns ivs l.last = true ∧ ∀ v, inRuns ivs v = true → v ≤ l.last := by
  induction ivs with
  | nil => exact absurd rfl hne
  | cons a t ih =>
    cases t with
    | nil =>
      have ha := RunsWF.head h
      refine ⟨a, rfl, by simp [inIv]; exact ha.1, ?_⟩
      intro v hv
      simp [inIv] at hv; exact hv.2
    | cons b u =>
      rcases ih (RunsWF.tail h) (by simp) with ⟨l, hl1, hl2, hl3⟩
      refine ⟨l, by rw [List.getLast?_cons_cons]; exact hl1, by rw [inRuns_cons, hl2]; simp, ?_⟩
      intro v hv
      rw [inRuns_cons, Bool.or_eq_true] at hv
      rcases hv with hv | hv
      · rw [inIv_iff] at hv
        -- l lies in the tail, whose runs all start after a.last
        simp only [inRuns, List.any_eq_true] at hl2
        rcases hl2 with ⟨iv, hiv, hl2⟩
        rw [inIv_iff] at hl2
        have := RunsWF.gt h iv hiv
        omega
      · exact hl3 v hv

end PV.C01
