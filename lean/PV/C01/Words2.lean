/-
C01 model, word level of the bitmap encoding, part 2 (roaring.go): single-bit reads and updates
(`bitmapContains`, `bitmapAdd`, `bitmapRemove`, the array × bitmap kernels), the bitmap branch of
`intersectBitmapRun`, `shiftBitmap`.  Same conventions as Words.lean.
-/
import PV.C01.Words
namespace PV.C01

/-- `1 << (v % 64)`. -/
def bitMask (v : Nat) : Nat := 1 <<< (v % 64)

/-- `bitmapContains`: `(bitmap[v/64] & (1 << (v%64))) != 0`. -/
def wContains (ws : List Nat) (v : Nat) : Bool := (ws.getD (v / 64) 0 &&& bitMask v) != 0

/-- `bitmap[v/64] |= 1 << (v%64)`. -/
def wSetBit (ws : List Nat) (v : Nat) : List Nat :=
  ws.mapIdx (fun k w => if k = v / 64 then w ||| bitMask v else w)

/-- `bitmap[v/64] &^= 1 << (v%64)`. -/
def wClearBit (ws : List Nat) (v : Nat) : List Nat :=
  ws.mapIdx (fun k w => if k = v / 64 then andNot w (bitMask v) else w)

/-- `bitmapAdd`: (n, words, added). -/
def wBitmapAdd (n : Nat) (ws : List Nat) (v : Nat) : Nat × List Nat × Bool :=
  if wContains ws v then (n, ws, false) else (n + 1, wSetBit ws v, true)

/-- `bitmapRemove` up to the conversion decisions: (n, words, removed). -/
def wBitmapRemove (n : Nat) (ws : List Nat) (v : Nat) : Nat × List Nat × Bool :=
  if !wContains ws v then (n, ws, false) else (n - 1, wClearBit ws v, true)

/-- `unionArrayBitmap` / `unionBitmapArrayInPlace`: for every array value not yet contained, set its
bit and count it. -/
def wUnionArray (n : Nat) (ws : List Nat) (xs : List Nat) : Nat × List Nat :=
  xs.foldl (fun acc v => if wContains acc.2 v then acc else (acc.1 + 1, wSetBit acc.2 v)) (n, ws)

/-- `differenceBitmapArray`: for every array value that is contained, clear its bit and uncount it. -/
def wDiffArray (n : Nat) (ws : List Nat) (xs : List Nat) : Nat × List Nat :=
  xs.foldl (fun acc v => if wContains acc.2 v then (acc.1 - 1, wClearBit acc.2 v) else acc) (n, ws)

/-- `intersectArrayBitmap` (`b & mask > 0`) and `differenceArrayBitmap` (`mask &^ b > 0`). -/
def wIntersectArray (ws : List Nat) (xs : List Nat) : List Nat := xs.filter (fun v => wContains ws v)
def wDifferenceArray (ws : List Nat) (xs : List Nat) : List Nat :=
  xs.filter (fun v => andNot (bitMask v) (ws.getD (v / 64) 0) != 0)

/-- `intersectionCountArrayBitmap`: `n += (bitmap[i] >> off) & 1`. -/
def wIntersectionCountArray (ws : List Nat) : List Nat → Nat
  | [] => 0
  | v :: rest => ((ws.getD (v / 64) 0 >>> (v % 64)) &&& 1) + wIntersectionCountArray ws rest

/-! ### intersectBitmapRun, bitmap branch -/

/-- the `bits` the loop body computes for word `i` (`vastart = 64 i`, `valast = 64 i + 63`) and
run `[s, l]`, by the four cases of the Go code. -/
def ibrBits (aw : Nat) (i s l : Nat) : Nat :=
  let vastart := 64 * i
  let valast := vastart + 63
  if vastart ≥ s ∧ valast ≤ l then aw                                              -- a within b
  else if s ≥ vastart ∧ l ≤ valast then aw &&& shl ((1 <<< (l - s + 1)) - 1) (s - vastart)   -- b within a
  else if vastart < s then shl (aw >>> (64 - (1 + valast - s))) (64 - (1 + valast - s))   -- a overlaps front of b
  else (shl aw (64 - (1 + l - vastart))) >>> (64 - (1 + l - vastart))             -- b overlaps front of a

/-- whether the Go loop uses `bitmap[i] = aBitmap[i]` (a within b) or `bitmap[i] |= bits`. -/
def ibrAssign (i s l : Nat) : Bool := decide (64 * i ≥ s ∧ 64 * i + 63 ≤ l)

/-- store into output word `i`: `bitmap[i] = bits` or `bitmap[i] |= bits`. -/
def ibrStore (out : List Nat) (i bits : Nat) (assign : Bool) : List Nat :=
  out.mapIdx (fun k w => if k = i then (if assign then bits else w ||| bits) else w)

/-- the inner `for valast >= vb.start && vastart <= vb.last && i < bitmapN` loop for one run:
words `i, i+1, ...` (`c` = number of words still possibly touched); state = (n, output words). -/
def ibrRun (aws : List Nat) (s l : Nat) : Nat → Nat → Nat × List Nat → Nat × List Nat
  | _, 0, acc => acc
  | i, c + 1, acc =>
    if 64 * i + 63 ≥ s ∧ 64 * i ≤ l ∧ i < 1024 then
      let bits := ibrBits (aws.getD i 0) i s l
      ibrRun aws s l (i + 1) c (acc.1 + popcount bits, ibrStore acc.2 i bits (ibrAssign i s l))
    else acc

/-- `intersectBitmapRun`, bitmap branch: (n, words) of the output container. -/
def wIntersectRuns (aws : List Nat) (rb : List Iv) : Nat × List Nat :=
  rb.foldl (fun acc r => ibrRun aws r.start r.last (r.start / 64) (r.last / 64 + 1 - r.start / 64) acc)
    (0, List.replicate 1024 0)

/-! ### shiftBitmap -/

/-- `for i, v := range ba { carry = v >> 63; v = v<<1 | lastCarry; bo[i] = v; lastCarry = carry }`:
output words and the final carry. -/
def wShiftLoop : List Nat → Nat → List Nat × Nat
  | [], lastCarry => ([], lastCarry)
  | v :: rest, lastCarry =>
    let r := wShiftLoop rest (v >>> 63)
    ((shl v 1 ||| lastCarry) :: r.1, r.2)

/-- `shiftBitmap`: (n - carry, words, carry != 0). -/
def wShift (n : Nat) (ws : List Nat) : Nat × List Nat × Bool :=
  let r := wShiftLoop ws 0
  (n - r.2, r.1, r.2 != 0)

end PV.C01
