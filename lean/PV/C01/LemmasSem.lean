/-
C01 helper lemmas, part 4: the meaning of a container (`mem`, `values`, `n`) under `WF`, the
meaning of the executable set operations of `Spec`, and the kernels that are modelled through
their set operation (bitmap encodings).  Core Lean only.
-/
import PV.C01.LemmasMisc
namespace PV.C01
open Spec

/-! ### Spec operations -/

theorem mem_op (f : Bool → Bool → Bool) (hf : f false false = false) {a b : List Nat}
    (ha : Sorted a) (hb : Sorted b) (v : Nat) :
    v ∈ Spec.op f a b ↔ f (decide (v ∈ a)) (decide (v ∈ b)) = true :=
  merge2_mem f hf _ a b ha hb (Nat.le_refl _) v

theorem sorted_op (f : Bool → Bool → Bool) {a b : List Nat} (ha : Sorted a) (hb : Sorted b) :
    Sorted (Spec.op f a b) := merge2_sorted f _ a b ha hb

theorem mem_inter {a b : List Nat} (ha : Sorted a) (hb : Sorted b) (v : Nat) :
    v ∈ Spec.inter a b ↔ (v ∈ a ∧ v ∈ b) := by
  unfold Spec.inter; rw [mem_op _ rfl ha hb]; simp

theorem mem_union {a b : List Nat} (ha : Sorted a) (hb : Sorted b) (v : Nat) :
    v ∈ Spec.union a b ↔ (v ∈ a ∨ v ∈ b) := by
  unfold Spec.union; rw [mem_op _ rfl ha hb]; simp

theorem mem_diff {a b : List Nat} (ha : Sorted a) (hb : Sorted b) (v : Nat) :
    v ∈ Spec.diff a b ↔ (v ∈ a ∧ v ∉ b) := by
  unfold Spec.diff; rw [mem_op _ rfl ha hb]; simp

theorem mem_xor {a b : List Nat} (ha : Sorted a) (hb : Sorted b) (v : Nat) :
    v ∈ Spec.xor a b ↔ ((v ∈ a ∧ v ∉ b) ∨ (v ∉ a ∧ v ∈ b)) := by
  unfold Spec.xor; rw [mem_op _ rfl ha hb]
  by_cases h1 : v ∈ a <;> by_cases h2 : v ∈ b <;> simp [h1, h2]

theorem sorted_inter {a b : List Nat} (ha : Sorted a) (hb : Sorted b) : Sorted (Spec.inter a b) := sorted_op _ ha hb
theorem sorted_union {a b : List Nat} (ha : Sorted a) (hb : Sorted b) : Sorted (Spec.union a b) := sorted_op _ ha hb
theorem sorted_diff {a b : List Nat} (ha : Sorted a) (hb : Sorted b) : Sorted (Spec.diff a b) := sorted_op _ ha hb
theorem sorted_xor {a b : List Nat} (ha : Sorted a) (hb : Sorted b) : Sorted (Spec.xor a b) := sorted_op _ ha hb

theorem op_lt (f : Bool → Bool → Bool) {a b : List Nat} {m : Nat} (ha : ∀ v ∈ a, v < m) (hb : ∀ v ∈ b, v < m) :
    ∀ v ∈ Spec.op f a b, v < m := by
  intro v hv
  rcases merge2_subset f _ a b v hv with h | h
  · exact ha v h
  · exact hb v h

/-- an ascending list inside `[lo, m)` has at most `m - lo` elements. -/
theorem sorted_length_bound : ∀ (l : List Nat) (lo m : Nat), Sorted l → (∀ v ∈ l, lo ≤ v ∧ v < m) →
    l.length ≤ m - lo := by
  intro l
  induction l with
  | nil => intro lo m _ _; simp
  | cons x u ihu =>
    intro lo m hs hb
    have hx := hb x (by simp)
    have := ihu (x + 1) m (sorted_tail hs) (by
      intro v hv
      have := sorted_lt hs v hv
      have := hb v (by simp [hv])
      omega)
    simp; omega

/-- an ascending list inside `[lo, m)` with `m - lo` elements contains every value of `[lo, m)`. -/
theorem sorted_length_full : ∀ (l : List Nat) (lo m : Nat), Sorted l → (∀ v ∈ l, lo ≤ v ∧ v < m) →
    l.length = m - lo → ∀ v, lo ≤ v → v < m → v ∈ l := by
  intro l
  induction l with
  | nil => intro lo m _ _ hlen v h1 h2; simp at hlen; omega
  | cons x u ihu =>
    intro lo m hs hb hlen v h1 h2
    have hx := hb x (by simp)
    have hu : ∀ w ∈ u, x + 1 ≤ w ∧ w < m := by
      intro w hw
      have := sorted_lt hs w hw
      have := hb w (by simp [hw])
      omega
    have hle := sorted_length_bound u (x + 1) m (sorted_tail hs) hu
    simp at hlen
    by_cases hv : v = x
    · simp [hv]
    · have := ihu (x + 1) m (sorted_tail hs) hu (by omega) v (by omega) h2
      simp [this]

theorem sorted_length_le {l : List Nat} (h : Sorted l) (m : Nat) (hm : ∀ v ∈ l, v < m) : l.length ≤ m := by
  have := sorted_length_bound l 0 m h (fun v hv => ⟨Nat.zero_le _, hm v hv⟩)
  omega

/-! ### containers -/

theorem Container.values_sorted {c : Container} (h : c.WF) : Sorted c.values := by
  cases c with
  | array xs => exact h.1
  | bitmap n bits => exact h.1
  | run n ivs => exact runValues_sorted h.1

theorem Container.values_lt {c : Container} (h : c.WF) : ∀ v ∈ c.values, v < 65536 := by
  cases c with
  | array xs => exact h.2
  | bitmap n bits => exact h.2.1
  | run n ivs => exact runValues_lt h.1

theorem Container.values_length {c : Container} (h : c.WF) : c.values.length = c.n := by
  cases c with
  | array xs => rfl
  | bitmap n bits => exact h.2.2.symm
  | run n ivs =>
    show (runValues ivs).length = n
    rw [runValues_length (fun iv hiv => (RunsWF.valid h.1 iv hiv).1)]
    exact h.2.symm

/-- `Contains` is membership in the denoted set. -/
theorem mem_eq {c : Container} (h : c.WF) (v : Nat) : mem c v = decide (v ∈ c.values) := by
  cases c with
  | array xs =>
    show xs.contains v = decide (v ∈ xs)
    exact List.contains_eq_mem v xs
  | bitmap n bits =>
    show bits.contains v = decide (v ∈ bits)
    exact List.contains_eq_mem v bits
  | run n ivs =>
    show runContains ivs v = decide (v ∈ runValues ivs)
    rw [runContains_eq h.1]
    cases hx : inRuns ivs v
    · have : ¬ v ∈ runValues ivs := by rw [mem_runValues, hx]; simp
      simp [this]
    · have : v ∈ runValues ivs := by rw [mem_runValues, hx]
      simp [this]

theorem mem_iff {c : Container} (h : c.WF) (v : Nat) : mem c v = true ↔ v ∈ c.values := by
  rw [mem_eq h]; simp

theorem memO_iff {c : Option Container} (h : WFO c) (v : Nat) : memO c v = true ↔ v ∈ valuesO c := by
  cases c with
  | none => simp [memO, valuesO]
  | some c => exact mem_iff h v

theorem n_le {c : Container} (h : c.WF) : c.n ≤ 65536 := by
  rw [← Container.values_length h]
  exact sorted_length_le (Container.values_sorted h) 65536 (Container.values_lt h)

/-- a container holding 65536 values holds every value. -/
theorem full_mem {c : Container} (h : c.WF) (hn : c.n = 65536) : ∀ v, v < 65536 → v ∈ c.values := by
  have hs := Container.values_sorted h
  have hl := Container.values_lt h
  have hlen := Container.values_length h
  rw [hn] at hlen
  intro v hv
  exact sorted_length_full c.values 0 65536 hs (fun w hw => ⟨Nat.zero_le _, hl w hw⟩) (by omega) v (Nat.zero_le _) hv

theorem empty_values {c : Container} (h : c.WF) (hn : c.n = 0) : c.values = [] := by
  have := Container.values_length h
  rw [hn] at this
  exact List.length_eq_zero_iff.mp this

end PV.C01
