/-
C01 model, layer L2: `roaring.Bitmap` over a container collection.

`cs` lists `(key, container)` with ascending keys.  A slice collection (`btree = false`,
containers_slice.go) may hold nil containers (`none`): `Put(key, nil)` stores nil, `Size()` and
`Last()` see it, the container iterator skips it.  A B-tree collection (`btree = true`,
containers_btree.go / btree.go) never stores nil: `Set(key, nil)` deletes the key.  The lookaside
caches (`lastKey/lastContainer`) are not modelled here (property C02 owns them); results of
operations are always fresh slice bitmaps (`NewBitmap()`).

The value iterator is modelled on suffixes: instead of the indices `j`, `k` into the current
container it keeps what is still to be visited of that container (array: the elements after
index `j`; run: the runs from index `j` on and the offset `k`; bitmap: the set bits above `j`).
-/
import PV.C01.Model
namespace PV.C01

abbrev Entry := Nat × Option Container

structure Bitmap where
  btree : Bool
  cs : List Entry
deriving Repr, Inhabited

def Bitmap.empty : Bitmap := ⟨false, []⟩

def maxContainerKey : Nat := 2 ^ 48 - 1
def highbits (v : Nat) : Nat := v / 65536
def lowbits (v : Nat) : Nat := v % 65536

def putL (key : Nat) (c : Option Container) : List Entry → List Entry
  | [] => [(key, c)]
  | (k, x) :: rest =>
    if key < k then (key, c) :: (k, x) :: rest
    else if key = k then (key, c) :: rest
    else (k, x) :: putL key c rest

/-- `Containers.Put`. -/
def Bitmap.put (b : Bitmap) (key : Nat) (c : Option Container) : Bitmap :=
  if b.btree ∧ c.isNone then ⟨b.btree, b.cs.filter (fun e => e.1 ≠ key)⟩
  else ⟨b.btree, putL key c b.cs⟩

/-- `Containers.Get`. -/
def Bitmap.get (b : Bitmap) (key : Nat) : Option Container :=
  match b.cs.find? (fun e => e.1 = key) with
  | some (_, c) => c
  | none => none

/-- what a container iterator started at key 0 yields: the non-nil containers in key order. -/
def liveL : List Entry → List (Nat × Container)
  | [] => []
  | (k, some c) :: rest => (k, c) :: liveL rest
  | (_, none) :: rest => liveL rest

def Bitmap.live (b : Bitmap) : List (Nat × Container) := liveL b.cs

/-- `Containers.Iterator(key)`: containers with key ≥ `key`, and whether `key` itself is present
(for a slice collection also when a nil container is stored there). -/
def Bitmap.iterFrom (b : Bitmap) (key : Nat) : List (Nat × Container) × Bool :=
  (liveL (b.cs.filter (fun e => e.1 ≥ key)), b.cs.any (fun e => e.1 = key))

def valuesOf (k : Nat) (c : Container) : List Nat := c.values.map (fun v => k * 65536 + v)

/-- the set a bitmap denotes. -/
def Bitmap.values (b : Bitmap) : List Nat := b.live.flatMap (fun e => valuesOf e.1 e.2)

/-- every container well-formed, keys ascending and in range. -/
def KeysAsc : List Entry → Prop
  | [] => True
  | [e] => e.1 ≤ maxContainerKey
  | a :: b :: rest => a.1 < b.1 ∧ KeysAsc (b :: rest)

def Bitmap.WF (b : Bitmap) : Prop :=
  KeysAsc b.cs ∧ (∀ e ∈ b.cs, WFO e.2) ∧ (b.btree = true → ∀ e ∈ b.cs, e.2 ≠ none)

/-- NewBitmap(values...) / repeated DirectAdd of ascending values: per key an array that turns
into a bitmap with the 4097th value. `vs` ascending. -/
def groupByKey : Nat → List Nat → List (Nat × List Nat)
  | 0, _ => []
  | _, [] => []
  | f+1, v :: rest =>
    let k := highbits v
    let same := (v :: rest).takeWhile (fun x => highbits x = k)
    let others := (v :: rest).dropWhile (fun x => highbits x = k)
    (k, same.map lowbits) :: groupByKey f others

def Bitmap.ofValues (btree : Bool) (vs : List Nat) : Bitmap :=
  ⟨btree, (groupByKey (vs.length + 1) vs).map (fun g => (g.1, some (arrayOrBitmap g.2)))⟩

/-! ### reads -/

def Bitmap.contains (b : Bitmap) (v : Nat) : Bool :=
  match b.get (highbits v) with
  | none => false
  | some c => c.contains (lowbits v)

/-- `Containers.Count()`: sum of the stored cardinalities. -/
def Bitmap.count (b : Bitmap) : Nat := (b.cs.map (fun e => N e.2)).foldl (· + ·) 0

/-- `Bitmap.Max` as coded after the fix. -/
def Bitmap.max (b : Bitmap) : Nat :=
  match b.cs.getLast? with
  | none => 0                                            -- Size() == 0
  | some (hb, c) =>
    if N c > 0 then hb * 65536 + maxO c
    else b.live.foldl (fun m e => if e.2.n > 0 then e.1 * 65536 + e.2.max else m) 0

def countRangeLoop (skey ekey ls le : Nat) : List (Nat × Container) → Nat
  | [] => 0
  | (k, c) :: rest =>
    if k > ekey then 0                                                    -- break
    else if k = skey then c.countRange ls 65536 + countRangeLoop skey ekey ls le rest
    else if k < ekey then c.n + countRangeLoop skey ekey ls le rest
    else c.countRange 0 le                                                -- k == ekey: break

/-- `Bitmap.CountRange` as coded after the fix (`start ≤ end`). -/
def Bitmap.countRange (b : Bitmap) (s e : Nat) : Nat :=
  if b.cs.length = 0 then 0
  else
    let skey := highbits s
    let ekey := highbits e
    let it := b.iterFrom skey
    if it.2 ∧ skey = ekey then
      match it.1 with
      | (k, c) :: _ => if k ≠ skey then 0 else c.countRange (lowbits s) (lowbits e)
      | [] => 0
    else countRangeLoop skey ekey (lowbits s) (lowbits e) it.1

/-! ### the value iterator -/

inductive Cursor where
  | arr (rest : List Nat)               -- array elements after index j
  | run (runs : List Iv) (k : Int)      -- runs from index j on; k = offset inside runs[j]
  | bmp (rest : List Nat)               -- set bits above j
deriving Repr

structure Iter where
  cur : Option (Nat × Cursor)           -- itr.key and the position inside itr.c; none = nil c
  rest : List (Nat × Container)         -- itr.citer

def startCursor : Container → Cursor
  | .array xs => .arr xs                -- j = -1
  | .run _ ivs => .run ivs (-1)         -- j = -1 / 0, k = -1
  | .bitmap _ bits => .bmp bits         -- j = -1

/-- move to the next container, positioned before its first value. -/
def Iter.advance (rest : List (Nat × Container)) : Iter :=
  match rest with
  | [] => ⟨none, []⟩
  | (k, c) :: r => ⟨some (k, startCursor c), r⟩

/-- `Iterator.Seek`. -/
def Bitmap.seek (b : Bitmap) (seek : Nat) : Iter :=
  let hb := highbits seek
  let lb := lowbits seek
  match (b.iterFrom hb).1 with
  | [] => ⟨none, []⟩
  | (key, c) :: rest =>
    match c with
    | .array xs =>
      if key > hb then ⟨some (key, .arr xs), rest⟩
      else
        let r := xs.dropWhile (· < lb)                 -- search32: first index with value ≥ lb
        if r.length > 0 then ⟨some (key, .arr r), rest⟩
        else Iter.advance rest                          -- at the end: move to the next container
    | .run _ ivs =>
      if key > hb then ⟨some (key, .run ivs (-1)), rest⟩
      else
        let r := ivs.dropWhile (fun iv => iv.last < lb)  -- binSearchRuns
        match r with
        | [] => Iter.advance rest                        -- seek is larger than all elements
        | iv :: _ =>
          if lb ≥ iv.start then ⟨some (key, .run r ((lb : Int) - iv.start - 1)), rest⟩
          else ⟨some (key, .run r (-1)), rest⟩
    | .bitmap _ bits =>
      if key > hb then ⟨some (key, .bmp bits), rest⟩
      else ⟨some (key, .bmp (bits.dropWhile (· < lb))), rest⟩     -- j = lb - 1

/-- `Iterator.Next`: `none` = eof.  Fuel: number of containers that may be skipped + 1. -/
def Iter.next : Nat → Iter → Option Nat × Iter
  | 0, it => (none, it)
  | f+1, it =>
    match it.cur with
    | none => (none, it)
    | some (key, .arr xs) =>
      match xs with
      | [] => Iter.next f (Iter.advance it.rest)             -- j >= N-1
      | v :: xs' => (some (key * 65536 + v), ⟨some (key, .arr xs'), it.rest⟩)
    | some (key, .run runs k) =>
      match runs with
      | [] => Iter.next f (Iter.advance it.rest)             -- no runs (left)
      | r :: runs' =>
        if k ≥ (r.last : Int) - r.start then                   -- reached end of run
          match runs' with
          | [] => Iter.next f (Iter.advance it.rest)
          | r' :: _ => (some (key * 65536 + r'.start), ⟨some (key, .run runs' 0), it.rest⟩)
        else (some (key * 65536 + r.start + (k + 1).toNat), ⟨some (key, .run runs (k + 1)), it.rest⟩)
    | some (key, .bmp bits) =>
      match bits with
      | [] => Iter.next f (Iter.advance it.rest)
      | v :: bits' => (some (key * 65536 + v), ⟨some (key, .bmp bits'), it.rest⟩)

def Iter.next1 (it : Iter) : Option Nat × Iter := Iter.next (it.rest.length + 2) it

/-- at most `n` values from the iterator, and whether eof was seen. -/
def Iter.take : Nat → Iter → List Nat × Bool
  | 0, _ => ([], false)
  | n+1, it =>
    match it.next1 with
    | (none, _) => ([], true)
    | (some v, it') => let r := Iter.take n it'; (v :: r.1, r.2)

/-- loop `for v, eof := itr.Next(); !eof && v < end; ...` (fuel = number of values). -/
def Iter.takeBelow : Nat → Nat → Iter → List Nat
  | 0, _, _ => []
  | f+1, e, it =>
    match it.next1 with
    | (none, _) => []
    | (some v, it') => if v < e then v :: Iter.takeBelow f e it' else []

def Bitmap.card (b : Bitmap) : Nat := (b.live.map (fun e => e.2.values.length)).foldl (· + ·) 0

def Bitmap.slice (b : Bitmap) : List Nat := (Iter.take (b.card + 1) (b.seek 0)).1

def Bitmap.sliceRange (b : Bitmap) (s e : Nat) : List Nat := Iter.takeBelow (b.card + 1) e (b.seek s)

/-- `Bitmap.Min`: `(v, ok)`. -/
def Bitmap.min (b : Bitmap) : Nat × Bool :=
  match (b.seek 0).next1 with
  | (some v, _) => (v, true)
  | (none, _) => (0, false)

/-! ### operations producing bitmaps -/

def offsetRangeLoop (off hi0 hi1 : Nat) : List (Nat × Container) → List Entry
  | [] => []
  | (k, c) :: rest => if k ≥ hi1 then [] else (off + (k - hi0), some c) :: offsetRangeLoop off hi0 hi1 rest

/-- `OffsetRange`; `none` = panic (low bits set). -/
def Bitmap.offsetRange (b : Bitmap) (offset s e : Nat) : Option Bitmap :=
  if lowbits offset ≠ 0 ∨ lowbits s ≠ 0 ∨ lowbits e ≠ 0 then none
  else some ⟨false, offsetRangeLoop (highbits offset) (highbits s) (highbits e) (b.iterFrom (highbits s)).1⟩

def intersectionCountLoop : Nat → List (Nat × Container) → List (Nat × Container) → Nat
  | 0, _, _ => 0
  | f+1, (ki, ci) :: ia, (kj, cj) :: jb =>
    if ki < kj then intersectionCountLoop f ia ((kj, cj) :: jb)
    else if ki > kj then intersectionCountLoop f ((ki, ci) :: ia) jb
    else PV.C01.intersectionCount ci cj + intersectionCountLoop f ia jb
  | _, _, _ => 0

def Bitmap.intersectionCount (a b : Bitmap) : Nat :=
  intersectionCountLoop (a.cs.length + b.cs.length + 1) a.live b.live

def intersectLoop : Nat → List (Nat × Container) → List (Nat × Container) → List Entry
  | 0, _, _ => []
  | f+1, (ki, ci) :: ia, (kj, cj) :: jb =>
    if ki < kj then intersectLoop f ia ((kj, cj) :: jb)
    else if ki > kj then intersectLoop f ((ki, ci) :: ia) jb
    else (ki, PV.C01.intersect ci cj) :: intersectLoop f ia jb
  | _, _, _ => []

def Bitmap.intersect (a b : Bitmap) : Bitmap :=
  ⟨false, intersectLoop (a.cs.length + b.cs.length + 1) a.live b.live⟩

/-- the shared shape of unionIntoTargetSingle / Difference / Xor: `onlyA`, `onlyB` say whether
a container present on one side only is copied (frozen) to the output. -/
def mergeLoop (onlyA onlyB : Bool) (both : Container → Container → Option Container) :
    Nat → List (Nat × Container) → List (Nat × Container) → List Entry
  | 0, _, _ => []
  | _+1, [], [] => []
  | f+1, (ki, ci) :: ia, [] =>
    (if onlyA then [(ki, some ci)] else []) ++ mergeLoop onlyA onlyB both f ia []
  | f+1, [], (kj, cj) :: jb =>
    (if onlyB then [(kj, some cj)] else []) ++ mergeLoop onlyA onlyB both f [] jb
  | f+1, (ki, ci) :: ia, (kj, cj) :: jb =>
    if ki < kj then (if onlyA then [(ki, some ci)] else []) ++ mergeLoop onlyA onlyB both f ia ((kj, cj) :: jb)
    else if ki > kj then (if onlyB then [(kj, some cj)] else []) ++ mergeLoop onlyA onlyB both f ((ki, ci) :: ia) jb
    else (ki, both ci cj) :: mergeLoop onlyA onlyB both f ia jb

def Bitmap.union1 (a b : Bitmap) : Bitmap :=
  ⟨false, mergeLoop true true (fun x y => some (PV.C01.union x y)) (a.cs.length + b.cs.length + 1) a.live b.live⟩

def Bitmap.difference (a b : Bitmap) : Bitmap :=
  ⟨false, mergeLoop true false PV.C01.difference (a.cs.length + b.cs.length + 1) a.live b.live⟩

def Bitmap.xor (a b : Bitmap) : Bitmap :=
  ⟨false, mergeLoop true true PV.C01.xor (a.cs.length + b.cs.length + 1) a.live b.live⟩

/-! ### n-ary in-place union -/

structure HIter where
  cur : Nat × Container             -- iter.Value(); keeps its last value once exhausted
  rest : List (Nat × Container)
  hasNext : Bool
  handled : Bool

def markHandled (start : Nat) (key : Nat) (its : List HIter) : List HIter :=
  its.mapIdx (fun idx it => if idx ≥ start ∧ it.cur.1 = key then { it with handled := true } else it)

/-- `calculateSummaryStats`: (n, c, hasMaxRange). -/
def summaryStats (key : Nat) : List HIter → Nat × Nat × Bool
  | [] => (0, 0, false)
  | it :: rest =>
    if it.cur.1 = key then
      if it.cur.2.n = 65536 then (65536, 1, true)
      else
        let r := summaryStats key rest
        if r.2.2 then (65536, r.2.1 + 1, true) else (r.1 + it.cur.2.n, r.2.1 + 1, false)
    else summaryStats key rest

/-- union every iter of `its` whose current key is `key` into `t`. -/
def unionSame (key : Nat) (t : Container) : List HIter → Container
  | [] => t
  | it :: rest => if it.cur.1 = key then unionSame key (unionInPlaceEffect t it.cur.2) rest else unionSame key t rest

def isBitmap : Container → Bool
  | .bitmap _ _ => true
  | _ => false

def toBitmap : Container → Container
  | .array xs => arrayToBitmap xs
  | .run n ivs => runToBitmap n ivs
  | c => c

/-- the body of the inner `for i, iIter := range bitmapIters` for one `i`. -/
def tickAt (i : Nat) (target : Bitmap) (its : List HIter) : Bitmap × List HIter :=
  match its[i]? with
  | none => (target, its)
  | some it =>
    if !it.hasNext || it.handled then (target, its)
    else
      let iKey := it.cur.1
      let iC := it.cur.2
      let tC := target.get iKey
      if tC.isSome ∧ N tC = 65536 then (target, markHandled i iKey its)
      else
        let stats := summaryStats iKey (its.drop i)
        if stats.2.2 then (target.put iKey (some fullContainer), markHandled i iKey its)
        else
          let expectedN := N tC + stats.1
          match tC with
          | none =>
            if stats.2.1 = 1 then
              (target.put iKey (some iC), its.mapIdx (fun idx x => if idx = i then { x with handled := true } else x))
            else if expectedN ≥ 512 ∧ !isBitmap iC then
              (target.put iKey (some (unionSame iKey (.bitmap 0 []) (its.drop i))), markHandled i iKey its)
            else
              (target.put iKey (some (unionSame iKey iC (its.drop (i + 1)))), markHandled (i + 1) iKey its)
          | some t =>
            let t0 := if expectedN ≥ 512 ∧ !isBitmap t then toBitmap t else t
            (target.put iKey (some (unionSame iKey t0 (its.drop i))), markHandled i iKey its)

def tickAll : Nat → Nat → Bitmap → List HIter → Bitmap × List HIter
  | 0, _, target, its => (target, its)
  | f+1, i, target, its =>
    if i ≥ its.length then (target, its)
    else let r := tickAt i target its; tickAll f (i + 1) r.1 r.2

/-- `handledIters.next`. -/
def itersNext (its : List HIter) : List HIter × Bool :=
  let its' := its.map (fun it => match it.rest with
    | [] => { it with hasNext := false, handled := false }
    | x :: r => { cur := x, rest := r, hasNext := true, handled := false })
  (its', its'.any (·.hasNext))

def unionTicks : Nat → Bitmap → List HIter → Bitmap
  | 0, target, _ => target
  | f+1, target, its =>
    let r := tickAll (its.length + 1) 0 target its
    let nx := itersNext r.2
    if nx.2 then unionTicks f r.1 nx.1 else r.1

/-- `Bitmap.unionInPlace(others...)` followed by `Containers.Repair()`. -/
def Bitmap.unionInPlace (target : Bitmap) (others : List Bitmap) : Bitmap :=
  let its := others.filterMap (fun o => match o.live with
    | [] => none
    | x :: r => some { cur := x, rest := r, hasNext := true, handled := false : HIter })
  let fuel := (others.map (fun o => o.cs.length)).foldl Nat.max 0 + 1
  let t := unionTicks fuel target its
  ⟨t.btree, t.cs.map (fun e => (e.1, e.2.map Container.repair))⟩

/-- `Bitmap.Union(others...)`. -/
def Bitmap.union (b : Bitmap) (others : List Bitmap) : Bitmap :=
  match others with
  | [o] => b.union1 o
  | _ => (Bitmap.mk b.btree b.cs).unionInPlace others      -- b.Freeze()

/-- `Bitmap.Shift(1)` as coded after the fix. -/
def shiftLoop : List (Nat × Container) → Bool → Nat → List Entry
  | [], lastCarry, lastKey =>
    if lastCarry ∧ lastKey ≠ maxContainerKey then [(lastKey + 1, some (.array [0]))] else []
  | (ki, ci) :: rest, lastCarry, lastKey =>
    let gap := lastCarry ∧ ki > lastKey + 1
    let pre : List Entry := if gap then [(lastKey + 1, some (.array [0]))] else []
    let lastCarry' := if gap then false else lastCarry
    let r := PV.C01.shift ci
    let o : Option Container := if lastCarry' then some (add r.1 0) else r.1
    pre ++ (if N o > 0 then [(ki, o)] else []) ++ shiftLoop rest r.2 ki

def Bitmap.shift (b : Bitmap) : Bitmap := ⟨false, shiftLoop b.live false 0⟩

/-- middle loop of `Flip`: `for i := start; i <= end; i++`. `vs` = values not yet consumed. -/
def flipMid : Nat → Nat → Nat → List Nat → List Nat × List Nat
  | 0, _, _, vs => ([], vs)
  | f+1, i, e, vs =>
    if i > e then ([], vs)
    else match vs with
      | [] => let r := flipMid f (i + 1) e []; (i :: r.1, r.2)                 -- eof: add i
      | v :: vs' =>
        if v = i then flipMid f (i + 1) e vs'                                    -- v == i: skip, next
        else let r := flipMid f (i + 1) e (v :: vs'); (i :: r.1, r.2)          -- add i

/-- `Bitmap.Flip(start, end)` (closed range); the result is built by DirectAdd in ascending order. -/
def Bitmap.flip (b : Bitmap) (s e : Nat) : Bitmap :=
  let vs := b.slice
  let pre := vs.takeWhile (· < s)
  let r := flipMid (e + 1 - s + 1) s e (vs.dropWhile (· < s))
  Bitmap.ofValues false (pre ++ r.1 ++ r.2)

/-- `Bitmap.Optimize`. -/
def Bitmap.optimize (b : Bitmap) : Bitmap :=
  let cs := b.cs.map (fun e => (e.1, e.2.bind Container.optimize))
  if b.btree then ⟨true, cs.filter (fun e => e.2.isSome)⟩ else ⟨false, cs⟩

end PV.C01
