/-
C01 helper lemmas, part 17: `shiftBitmap` on words.  Core Lean only.
-/
import PV.C01.LemmasWords3
namespace PV.C01
open Spec

theorem wShiftLoop_length (ws : List Nat) : ∀ c, (wShiftLoop ws c).1.length = ws.length := by
  induction ws with
  | nil => intro c; rfl
  | cons v rest ih => intro c; simp only [wShiftLoop, List.length_cons, ih]

theorem wShiftLoop_getD (ws : List Nat) : ∀ (c k : Nat), k < ws.length →
    (wShiftLoop ws c).1.getD k 0 = (shl (ws.getD k 0) 1 ||| (if k = 0 then c else ws.getD (k - 1) 0 >>> 63)) := by
  induction ws with
  | nil => intro c k hk; simp at hk
  | cons v rest ih =>
    intro c k hk
    simp only [wShiftLoop]
    cases k with
    | zero => simp
    | succ k =>
      have hk' : k < rest.length := by simpa using hk
      rw [List.getD_cons_succ, List.getD_cons_succ, ih (v >>> 63) k hk']
      cases k with
      | zero => simp
      | succ j => simp

theorem wShiftLoop_carry (ws : List Nat) : ∀ c, (wShiftLoop ws c).2 = (if ws.length = 0 then c else ws.getD (ws.length - 1) 0 >>> 63) := by
  induction ws with
  | nil => intro c; rfl
  | cons v rest ih =>
    intro c
    simp only [wShiftLoop]
    rw [ih (v >>> 63)]
    cases rest with
    | nil => simp
    | cons w r => simp

theorem shr63_bit {x : Nat} (hx : x < 2 ^ 64) (b : Nat) : (x >>> 63).testBit b = (decide (b = 0) && x.testBit 63) := by
  rw [Nat.testBit_shiftRight]
  by_cases hb : b = 0
  · subst hb; simp
  · rw [testBit_high hx (by omega)]; simp [hb]

theorem shr63_lt {x : Nat} (hx : x < 2 ^ 64) : x >>> 63 < 2 ^ 64 := shr_lt hx 63

theorem shr63_val {x : Nat} (hx : x < 2 ^ 64) : x >>> 63 = if x.testBit 63 then 1 else 0 := by
  apply Nat.eq_of_testBit_eq
  intro b
  rw [shr63_bit hx]
  by_cases hb : b = 0
  · subst hb; cases x.testBit 63 <;> simp
  · have h1 : Nat.testBit 1 b = false := by
      have : (1 : Nat) = 2 ^ 0 := rfl
      rw [this, Nat.testBit_two_pow]; simp; omega
    cases x.testBit 63 <;> simp [hb, h1]

theorem wShift_wf {ws : List Nat} (h : WordsWF ws) : WordsWF (wShiftLoop ws 0).1 := by
  refine ⟨by rw [wShiftLoop_length]; exact h.1, ?_⟩
  intro w hw
  rcases List.mem_iff_getElem?.mp hw with ⟨k, hk⟩
  have hkl : k < (wShiftLoop ws 0).1.length := by
    rcases List.getElem?_eq_some_iff.mp hk with ⟨hlt, _⟩; exact hlt
  rw [wShiftLoop_length] at hkl
  have hg := wShiftLoop_getD ws 0 k hkl
  rw [List.getD_eq_getElem?_getD, hk] at hg
  simp only [Option.getD_some] at hg
  rw [hg]
  apply Nat.or_lt_two_pow (shl_lt _ _)
  split
  · exact Nat.two_pow_pos 64
  · exact shr63_lt (getD_lt h.2 _)

theorem bitp_shift {ws : List Nat} (h : WordsWF ws) (p : Nat) (hp : p < 65536) :
    bitp (wShiftLoop ws 0).1 p = (decide (1 ≤ p) && bitp ws (p - 1)) := by
  unfold bitp
  rw [wShiftLoop_getD ws 0 (p / 64) (by rw [h.1]; omega), Nat.testBit_or, testBit_shl]
  by_cases hb : p % 64 = 0
  · -- bit 0 of the word: the carry of the previous word
    rw [hb]
    have d2 : decide (1 ≤ 0) = false := by simp
    rw [d2]
    simp only [Bool.and_false, Bool.false_and, Bool.false_or]
    by_cases hk : p / 64 = 0
    · rw [if_pos hk]
      have : p = 0 := by omega
      subst this; simp
    · rw [if_neg hk, shr63_bit (getD_lt h.2 _)]
      have e1 : (p - 1) / 64 = p / 64 - 1 := by omega
      have e2 : (p - 1) % 64 = 63 := by omega
      have d3 : decide (1 ≤ p) = true := by simp; omega
      rw [e1, e2, d3]; simp
  · have hcar : (if p / 64 = 0 then 0 else ws.getD (p / 64 - 1) 0 >>> 63).testBit (p % 64) = false := by
      split
      · exact Nat.zero_testBit _
      · rw [shr63_bit (getD_lt h.2 _)]
        have : decide (p % 64 = 0) = false := by simp [hb]
        rw [this]; simp
    rw [hcar]
    have d1 : decide (p % 64 < 64) = true := by simp; omega
    have d2 : decide (1 ≤ p % 64) = true := by simp; omega
    have d3 : decide (1 ≤ p) = true := by simp; omega
    have e1 : (p - 1) / 64 = p / 64 := by omega
    have e2 : (p - 1) % 64 = p % 64 - 1 := by omega
    rw [d1, d2, d3, e1, e2]; simp

/-- `shiftBitmap`: every position moves up by one, bit 65535 leaves as the carry, `n` drops by the
carry; this is the set-level `Spec.shift`. -/
theorem wShift_refines {ws : List Nat} {n : Nat} (h : WordsWF ws) (hn : n = (absW ws).length) :
    WordsWF (wShift n ws).2.1 ∧
    absW (wShift n ws).2.1 = Spec.shift 65536 (absW ws) ∧
    (wShift n ws).2.2 = decide (65535 ∈ absW ws) ∧
    (wShift n ws).1 = (absW (wShift n ws).2.1).length := by
  have hw := wShift_wf h
  have hcarry : (wShiftLoop ws 0).2 = if bitp ws 65535 then 1 else 0 := by
    rw [wShiftLoop_carry, if_neg (by rw [h.1]; omega), h.1, shr63_val (getD_lt h.2 _)]
    rfl
  have hsorted : Sorted (Spec.shift 65536 (absW ws)) := by
    unfold Spec.shift
    apply sorted_filter
    have := sorted_map_add 1 (sorted_absW ws)
    have e : (absW ws).map (· + 1) = (absW ws).map (1 + ·) := by
      apply List.map_congr_left; intro a _; omega
    rw [e]; exact this
  have hmem : ∀ p, p ∈ Spec.shift 65536 (absW ws) ↔ (1 ≤ p ∧ p < 65536 ∧ p - 1 ∈ absW ws) := by
    intro p
    unfold Spec.shift
    rw [List.mem_filter, List.mem_map]
    constructor
    · rintro ⟨⟨x, hx, rfl⟩, h2⟩
      have : x + 1 < 65536 := by simpa using h2
      exact ⟨by omega, this, by simpa using hx⟩
    · rintro ⟨h1, h2, h3⟩
      exact ⟨⟨p - 1, h3, by omega⟩, by simpa using h2⟩
  have habs : absW (wShiftLoop ws 0).1 = Spec.shift 65536 (absW ws) := by
    apply absW_ext hw hsorted (fun v hv => ((hmem v).mp hv).2.1)
    intro p hp
    rw [bitp_shift h p hp, hmem p, Bool.and_eq_true, decide_eq_true_eq, bitp_iff_absW h (p - 1) (by omega)]
    constructor
    · rintro ⟨h1, h2⟩; exact ⟨h1, hp, h2⟩
    · rintro ⟨h1, _, h2⟩; exact ⟨h1, h2⟩
  refine ⟨hw, habs, ?_, ?_⟩
  · show ((wShiftLoop ws 0).2 != 0) = _
    rw [hcarry, Bool.eq_iff_iff, decide_eq_true_eq, ← bitp_iff_absW h 65535 (by omega)]
    cases bitp ws 65535 <;> simp
  · show n - (wShiftLoop ws 0).2 = (absW (wShiftLoop ws 0).1).length
    rw [habs, hcarry, hn, card_eq_cnt h]
    -- |shift| = number of positions below 65535
    have hlen : (Spec.shift 65536 (absW ws)).length = cnt (bitp ws) 0 65535 := by
      rw [length_eq_cnt hsorted (fun v hv => ((hmem v).mp hv).2.1)]
      rw [cnt_split _ (s := 0) (m := 1) (e := 65536) (by omega) (by omega)]
      have z : cnt (fun v => decide (v ∈ Spec.shift 65536 (absW ws))) 0 1 = 0 := by
        apply cnt_false; intro v _ hv
        have : v ∉ Spec.shift 65536 (absW ws) := fun hm => by have := ((hmem v).mp hm).1; omega
        simp [this]
      rw [z, Nat.zero_add]
      have e1 : (1 : Nat) = 1 + 0 := rfl
      have e2 : (65536 : Nat) = 1 + 65535 := rfl
      conv => lhs; rw [e2]; arg 2; rw [e1]
      rw [cnt_translate]
      apply cnt_congr
      intro v _ hv
      rw [Bool.eq_iff_iff, decide_eq_true_eq, hmem]
      have : 1 + v - 1 = v := by omega
      rw [this, ← bitp_iff_absW h v (by omega)]
      constructor
      · rintro ⟨_, _, h3⟩; exact h3
      · intro h3; exact ⟨by omega, by omega, h3⟩
    rw [hlen, cnt_split (bitp ws) (s := 0) (m := 65535) (e := 65536) (by omega) (by omega)]
    have hlast : cnt (bitp ws) 65535 65536 = if bitp ws 65535 then 1 else 0 := by
      rw [cnt_succ_left _ (by omega), cnt_eq_zero_of_le (Nat.le_refl _)]
      cases bitp ws 65535 <;> rfl
    rw [hlast]
    cases bitp ws 65535 <;> simp

end PV.C01
