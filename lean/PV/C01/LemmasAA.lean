/-
C01 helper lemmas, part 3: the array x array kernels (`intersectArrayArray`, `unionArrayArray`,
`differenceArrayArrayL`, `xorArrayArray`, `intersectionCountArrayArray`).  Each list kernel is
the generic merge `Spec.merge2` for the right Boolean function.  Core Lean only.
-/
import PV.C01.Model
import PV.C01.Lemmas
namespace PV.C01
open Spec

/-! ### `merge2` after one side is exhausted -/

theorem merge2_nil_right_drop (f : Bool → Bool → Bool) (h10 : f true false = false) :
    ∀ (fuel : Nat) (a : List Nat), merge2 f fuel a [] = [] := by
  intro fuel
  induction fuel with
  | zero => intro a; simp [merge2]
  | succ fuel ih =>
    intro a
    cases a with
    | nil => simp [merge2]
    | cons x as => simp [merge2, h10, ih]

theorem merge2_nil_left_drop (f : Bool → Bool → Bool) (h01 : f false true = false) :
    ∀ (fuel : Nat) (b : List Nat), merge2 f fuel [] b = [] := by
  intro fuel
  induction fuel with
  | zero => intro b; simp [merge2]
  | succ fuel ih =>
    intro b
    cases b with
    | nil => simp [merge2]
    | cons y bs => simp [merge2, h01, ih]

/-! ### each kernel is a `merge2` -/

theorem intersectArrayArray_eq_merge2 (f : Bool → Bool → Bool)
    (h10 : f true false = false) (h01 : f false true = false) (h11 : f true true = true) :
    ∀ (fuel : Nat) (a b : List Nat), intersectArrayArray fuel a b = merge2 f fuel a b := by
  intro fuel
  induction fuel with
  | zero => intro a b; simp [merge2, intersectArrayArray]
  | succ fuel ih =>
    intro a b
    match a, b with
    | [], [] => simp [merge2, intersectArrayArray]
    | x :: as, [] =>
      simp [merge2, intersectArrayArray, h10, merge2_nil_right_drop f h10]
    | [], y :: bs =>
      simp [merge2, intersectArrayArray, h01, merge2_nil_left_drop f h01]
    | x :: as, y :: bs =>
      simp only [merge2, intersectArrayArray, ih, h10, h01, h11]
      by_cases hxy : x < y
      · simp [hxy]
      · by_cases hyx : y < x
        · simp [hxy, hyx]
        · simp [hxy, hyx]

theorem unionArrayArray_eq_merge2 (f : Bool → Bool → Bool)
    (h10 : f true false = true) (h01 : f false true = true) (h11 : f true true = true) :
    ∀ (fuel : Nat) (a b : List Nat), unionArrayArray fuel a b = merge2 f fuel a b := by
  intro fuel
  induction fuel with
  | zero => intro a b; simp [merge2, unionArrayArray]
  | succ fuel ih =>
    intro a b
    match a, b with
    | [], [] => simp [merge2, unionArrayArray]
    | x :: as, [] => simp [merge2, unionArrayArray, h10, ih]
    | [], y :: bs => simp [merge2, unionArrayArray, h01, ih]
    | x :: as, y :: bs =>
      simp only [merge2, unionArrayArray, ih, h10, h01, h11]
      by_cases hxy : x < y
      · simp [hxy]
      · by_cases hyx : y < x
        · simp [hxy, hyx]
        · simp [hxy, hyx]

theorem differenceArrayArrayL_eq_merge2 (f : Bool → Bool → Bool)
    (h10 : f true false = true) (h01 : f false true = false) (h11 : f true true = false) :
    ∀ (fuel : Nat) (a b : List Nat), differenceArrayArrayL fuel a b = merge2 f fuel a b := by
  intro fuel
  induction fuel with
  | zero => intro a b; simp [merge2, differenceArrayArrayL]
  | succ fuel ih =>
    intro a b
    match a, b with
    | [], [] => simp [merge2, differenceArrayArrayL]
    | x :: as, [] => simp [merge2, differenceArrayArrayL, h10, ih]
    | [], y :: bs =>
      simp [merge2, differenceArrayArrayL, h01, merge2_nil_left_drop f h01]
    | x :: as, y :: bs =>
      simp only [merge2, differenceArrayArrayL, ih, h10, h01, h11]
      by_cases hxy : x < y
      · simp [hxy]
      · by_cases hyx : y < x
        · simp [hxy, hyx]
        · simp [hxy, hyx]

theorem xorArrayArray_eq_merge2 (f : Bool → Bool → Bool)
    (h10 : f true false = true) (h01 : f false true = true) (h11 : f true true = false) :
    ∀ (fuel : Nat) (a b : List Nat), xorArrayArray fuel a b = merge2 f fuel a b := by
  intro fuel
  induction fuel with
  | zero => intro a b; simp [merge2, xorArrayArray]
  | succ fuel ih =>
    intro a b
    match a, b with
    | [], [] => simp [merge2, xorArrayArray]
    | x :: as, [] => simp [merge2, xorArrayArray, h10, ih]
    | [], y :: bs => simp [merge2, xorArrayArray, h01, ih]
    | x :: as, y :: bs =>
      simp only [merge2, xorArrayArray, ih, h10, h01, h11]
      by_cases hxy : x < y
      · simp [hxy]
      · by_cases hyx : y < x
        · simp [hxy, hyx]
        · simp [hxy, hyx]

/-! ### the four list kernels -/

theorem intersectArrayArray_spec (fuel : Nat) (a b : List Nat) (ha : Sorted a) (hb : Sorted b)
    (hf : a.length + b.length ≤ fuel) :
    Sorted (intersectArrayArray fuel a b) ∧ ∀ v, v ∈ intersectArrayArray fuel a b ↔ (v ∈ a ∧ v ∈ b) := by
  rw [intersectArrayArray_eq_merge2 (fun x y => x && y) rfl rfl rfl]
  refine ⟨merge2_sorted _ fuel a b ha hb, fun v => ?_⟩
  rw [merge2_mem _ rfl fuel a b ha hb hf v]
  simp

theorem unionArrayArray_spec (fuel : Nat) (a b : List Nat) (ha : Sorted a) (hb : Sorted b)
    (hf : a.length + b.length ≤ fuel) :
    Sorted (unionArrayArray fuel a b) ∧ ∀ v, v ∈ unionArrayArray fuel a b ↔ (v ∈ a ∨ v ∈ b) := by
  rw [unionArrayArray_eq_merge2 (fun x y => x || y) rfl rfl rfl]
  refine ⟨merge2_sorted _ fuel a b ha hb, fun v => ?_⟩
  rw [merge2_mem _ rfl fuel a b ha hb hf v]
  simp

theorem differenceArrayArrayL_spec (fuel : Nat) (a b : List Nat) (ha : Sorted a) (hb : Sorted b)
    (hf : a.length + b.length ≤ fuel) :
    Sorted (differenceArrayArrayL fuel a b) ∧ ∀ v, v ∈ differenceArrayArrayL fuel a b ↔ (v ∈ a ∧ v ∉ b) := by
  rw [differenceArrayArrayL_eq_merge2 (fun x y => x && !y) rfl rfl rfl]
  refine ⟨merge2_sorted _ fuel a b ha hb, fun v => ?_⟩
  rw [merge2_mem _ rfl fuel a b ha hb hf v]
  simp

theorem xorArrayArray_spec (fuel : Nat) (a b : List Nat) (ha : Sorted a) (hb : Sorted b)
    (hf : a.length + b.length ≤ fuel) :
    Sorted (xorArrayArray fuel a b) ∧ ∀ v, v ∈ xorArrayArray fuel a b ↔ ((v ∈ a ∧ v ∉ b) ∨ (v ∉ a ∧ v ∈ b)) := by
  rw [xorArrayArray_eq_merge2 (fun x y => x != y) rfl rfl rfl]
  refine ⟨merge2_sorted _ fuel a b ha hb, fun v => ?_⟩
  rw [merge2_mem _ rfl fuel a b ha hb hf v]
  by_cases h1 : v ∈ a <;> by_cases h2 : v ∈ b <;> simp [h1, h2]

/-! ### `intersectionCountArrayArray` -/

theorem sorted_dropWhile (p : Nat → Bool) {l : List Nat} (h : Sorted l) : Sorted (l.dropWhile p) := by
  induction l with
  | nil => trivial
  | cons c t ih =>
    rw [List.dropWhile_cons]
    split
    · exact ih (sorted_tail h)
    · exact h

theorem mem_dropWhile_lt_iff (va : Nat) (l : List Nat) (x : Nat) (hx : va ≤ x) :
    x ∈ l.dropWhile (· < va) ↔ x ∈ l := by
  induction l with
  | nil => simp
  | cons c t ih =>
    rw [List.dropWhile_cons]
    split
    · rename_i hc
      have hc' : c < va := by simpa using hc
      rw [ih, List.mem_cons]
      constructor
      · intro h; exact Or.inr h
      · intro h
        rcases h with e | h
        · omega
        · exact h
    · rfl

theorem head_dropWhile_lt (va : Nat) (l : List Nat) (vb : Nat) (r : List Nat)
    (h : l.dropWhile (· < va) = vb :: r) : va ≤ vb := by
  induction l with
  | nil => simp at h
  | cons c t ih =>
    rw [List.dropWhile_cons] at h
    split at h
    · exact ih h
    · rename_i hc
      have : c = vb := by injection h
      subst this
      simpa using hc

theorem filter_mem_congr (l b d : List Nat) (h : ∀ x ∈ l, (x ∈ b ↔ x ∈ d)) :
    l.filter (fun v => decide (v ∈ b)) = l.filter (fun v => decide (v ∈ d)) := by
  apply List.filter_congr
  intro x hx
  simp [h x hx]

theorem icAALoop_eq : ∀ (ca cb : List Nat) (n : Nat), Sorted ca → Sorted cb →
    icAALoop ca cb n = n + (ca.filter (fun v => decide (v ∈ cb))).length := by
  intro ca
  induction ca with
  | nil => intro cb n _ _; simp [icAALoop]
  | cons va ca ih =>
    intro cb n ha hb
    have hlt := sorted_lt ha
    have hcong : (va :: ca).filter (fun v => decide (v ∈ cb))
        = (va :: ca).filter (fun v => decide (v ∈ cb.dropWhile (· < va))) := by
      apply filter_mem_congr
      intro x hx
      rw [mem_dropWhile_lt_iff]
      rcases List.mem_cons.mp hx with e | hx
      · omega
      · have := hlt x hx; omega
    have hsd := sorted_dropWhile (· < va) hb
    have hhd := head_dropWhile_lt va cb
    rw [hcong]
    simp only [icAALoop]
    generalize cb.dropWhile (· < va) = d at hsd hhd
    match d with
    | [] => simp
    | vb :: cb' =>
      simp only []
      have hle := hhd vb cb' rfl
      rw [ih _ _ (sorted_tail ha) hsd, List.filter_cons]
      have hiff : va ∈ vb :: cb' ↔ vb = va := by
        constructor
        · intro hm
          rcases List.mem_cons.mp hm with e | hm
          · exact e.symm
          · have := sorted_lt hsd va hm; omega
        · intro e; simp [e]
      by_cases e : vb = va
      · have : va ∈ vb :: cb' := hiff.mpr e
        simp [e]; omega
      · have : va ∉ vb :: cb' := fun hm => e (hiff.mp hm)
        simp [e, this]

theorem filter_mem_cons_length (x : Nat) (t : List Nat) (hx : x ∉ t) :
    ∀ (b : List Nat), Sorted b →
      (b.filter (fun v => decide (v ∈ x :: t))).length
        = (if x ∈ b then 1 else 0) + (b.filter (fun v => decide (v ∈ t))).length := by
  intro b
  induction b with
  | nil => intro _; simp
  | cons y u ih =>
    intro hb
    have ih' := ih (sorted_tail hb)
    have hyu := sorted_not_mem_head hb
    simp only [List.filter_cons]
    by_cases e : y = x
    · subst e
      have h1 : decide (y ∈ y :: t) = true := by simp
      have h2 : ¬ (decide (y ∈ t) = true) := by simpa using hx
      have h3 : y ∈ y :: u := by simp
      rw [if_pos h1, if_neg h2, if_pos h3, List.length_cons, ih', if_neg hyu]; omega
    · have hxu : (x ∈ y :: u) ↔ x ∈ u := by
        rw [List.mem_cons]
        constructor
        · intro h
          rcases h with h | h
          · exact absurd h.symm e
          · exact h
        · intro h; exact Or.inr h
      have hyt : decide (y ∈ x :: t) = decide (y ∈ t) := by simp [e]
      rw [hyt]
      by_cases hc : y ∈ t
      · have h2 : decide (y ∈ t) = true := by simpa using hc
        rw [if_pos h2, if_pos h2, List.length_cons, List.length_cons, ih']
        by_cases hm : x ∈ u
        · rw [if_pos hm, if_pos (hxu.mpr hm)]; omega
        · rw [if_neg hm, if_neg (fun h => hm (hxu.mp h))]; omega
      · have h2 : ¬ (decide (y ∈ t) = true) := by simpa using hc
        rw [if_neg h2, if_neg h2, ih']
        by_cases hm : x ∈ u
        · rw [if_pos hm, if_pos (hxu.mpr hm)]
        · rw [if_neg hm, if_neg (fun h => hm (hxu.mp h))]

theorem filter_mem_length_symm : ∀ (a b : List Nat), Sorted a → Sorted b →
    (a.filter (fun v => decide (v ∈ b))).length = (b.filter (fun v => decide (v ∈ a))).length := by
  intro a
  induction a with
  | nil =>
    intro b _ _
    have : b.filter (fun v => decide (v ∈ ([] : List Nat))) = [] := by
      rw [List.filter_eq_nil_iff]; intro x _; simp
    rw [this]; rfl
  | cons x t ih =>
    intro b ha hb
    rw [filter_mem_cons_length x t (sorted_not_mem_head ha) b hb, ← ih b (sorted_tail ha) hb,
      List.filter_cons]
    by_cases h : x ∈ b
    · have h2 : decide (x ∈ b) = true := by simpa using h
      rw [if_pos h2, if_pos h, List.length_cons]; omega
    · have h2 : ¬ (decide (x ∈ b) = true) := by simpa using h
      rw [if_neg h2, if_neg h]; omega

theorem intersectionCountArrayArray_spec (a b : List Nat) (ha : Sorted a) (hb : Sorted b) :
    intersectionCountArrayArray a b = (a.filter (fun v => decide (v ∈ b))).length := by
  unfold intersectionCountArrayArray
  split
  · rw [icAALoop_eq b a 0 hb ha, filter_mem_length_symm a b ha hb]; omega
  · rw [icAALoop_eq a b 0 ha hb]; omega

end PV.C01
