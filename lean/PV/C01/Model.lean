/-
C01 model, layer L1: roaring containers and their kernels (roaring/roaring.go, container_stash.go).

Encodings.  `array xs`  : the uint16 slice, ascending (n = len, as `setArray` maintains it).
            `run n ivs` : the interval16 slice plus the separately stored cardinality `n`.
            `bitmap n bits` : the stored cardinality `n` plus the SET of bit positions `bits`
                          (ascending list).  The 1024-word layout and the mask / popcount
                          arithmetic of the bitmap kernels are NOT modelled: a bitmap kernel is
                          modelled by the set operation it implements plus the Go code's decisions
                          about `n` and about the encoding of the result.  They are tied to the
                          code by the correspondence check only.
Array and run kernels follow the Go control flow branch for branch.  Loops over two slices take
fuel (callers pass `len a + len b + 1` or more); binary searches (`search32`, `sort.Search`) are
modelled by their specification (first index with ...).  A nil `*Container` is `none`.
uint16 / int32 are `Nat`; the places where Go guards against uint16 overflow are kept as branches.
-/
import PV.C01.Spec
namespace PV.C01

structure Iv where
  start : Nat
  last : Nat
deriving DecidableEq, Repr, Inhabited

inductive Container where
  | array (xs : List Nat)
  | bitmap (n : Nat) (bits : List Nat)
  | run (n : Nat) (ivs : List Iv)
deriving DecidableEq, Repr, Inhabited

def maxContainerVal : Nat := 65535
def arrayMaxSize : Nat := 4096
def runMaxSize : Nat := 2048

/-! ### values, n, well-formedness -/

def runValues : List Iv → List Nat
  | [] => []
  | iv :: rest => Spec.rangeIncl iv.start iv.last ++ runValues rest

def runsCard : List Iv → Nat
  | [] => 0
  | iv :: rest => (iv.last - iv.start + 1) + runsCard rest

def Container.values : Container → List Nat
  | .array xs => xs
  | .bitmap _ bits => bits
  | .run _ ivs => runValues ivs

/-- `Container.N()`. -/
def Container.n : Container → Nat
  | .array xs => xs.length
  | .bitmap n _ => n
  | .run n _ => n

/-- `N()` of a possibly nil container. -/
def N : Option Container → Nat
  | none => 0
  | some c => c.n

def valuesO : Option Container → List Nat
  | none => []
  | some c => c.values

/-- runs are valid, ascending and non-overlapping (adjacent runs are allowed). -/
def RunsWF : List Iv → Prop
  | [] => True
  | [a] => a.start ≤ a.last ∧ a.last ≤ 65535
  | a :: b :: rest => a.start ≤ a.last ∧ a.last < b.start ∧ RunsWF (b :: rest)

instance decRunsWF : (ivs : List Iv) → Decidable (RunsWF ivs)
  | [] => isTrue trivial
  | [a] => by unfold RunsWF; exact inferInstance
  | a :: b :: rest =>
    match decRunsWF (b :: rest) with
    | isTrue h =>
      if h1 : a.start ≤ a.last ∧ a.last < b.start then isTrue ⟨h1.1, h1.2, h⟩
      else isFalse (fun hh => h1 ⟨hh.1, hh.2.1⟩)
    | isFalse h => isFalse (fun hh => h hh.2.2)

def Container.WF : Container → Prop
  | .array xs => Spec.Sorted xs ∧ ∀ v ∈ xs, v < 65536
  | .bitmap n bits => Spec.Sorted bits ∧ (∀ v ∈ bits, v < 65536) ∧ n = bits.length
  | .run n ivs => RunsWF ivs ∧ n = runsCard ivs

instance (c : Container) : Decidable c.WF := by
  cases c <;> unfold Container.WF <;> exact inferInstance

def WFO : Option Container → Prop
  | none => True
  | some c => c.WF

/-! ### Contains -/

/-- `binSearchRuns`: the first run with `last ≥ v` (sort.Search), and whether it contains `v`. -/
def runContains (ivs : List Iv) (v : Nat) : Bool :=
  match ivs.find? (fun iv => iv.last ≥ v) with
  | some iv => v ≥ iv.start && v ≤ iv.last
  | none => false

def Container.contains : Container → Nat → Bool
  | .array xs, v => xs.contains v          -- search32(array, v) >= 0
  | .bitmap _ bits, v => bits.contains v   -- bitmap[v/64] & (1 << v%64) != 0
  | .run _ ivs, v => runContains ivs v

/-- membership, the semantic function of a container. -/
def mem (c : Container) (v : Nat) : Bool := c.contains v

def memO : Option Container → Nat → Bool
  | none, _ => false
  | some c, v => c.contains v

/-! ### countRange -/

/-- `arrayCountRange`: sort.Search for the first element `≥ start`, then count while `< end`. -/
def arrayCountRange (xs : List Nat) (s e : Nat) : Nat :=
  ((xs.dropWhile (· < s)).takeWhile (· < e)).length

/-- `bitmapCountRange` (abstracted: number of set bits in `[s, e)`). -/
def bitmapCountRange (bits : List Nat) (s e : Nat) : Nat := Spec.cntList bits s e

/-- `runCountRange` as coded after the fix (superset test `last >= end`, overlaps-end test
`start >= start`).  `n` is the running count; the superset case returns `end - start` directly. -/
def runCountRange : List Iv → Nat → Nat → Nat → Nat
  | [], n, _, _ => n
  | iv :: rest, n, s, e =>
    if iv.last < s then runCountRange rest n s e                 -- iv is before range: continue
    else if e < iv.start then n                                   -- iv is after range: break
    else if iv.start < s ∧ iv.last ≥ e then e - s                 -- iv is superset of range: return
    else
      let n1 := if iv.start ≥ s ∧ iv.last < e then n + (iv.last - iv.start + 1) else n  -- subset
      let n2 := if iv.start < s ∧ iv.last < e then n1 + (iv.last - s + 1) else n1       -- overlaps beginning
      let n3 := if iv.start ≥ s ∧ iv.last ≥ e then n2 + (e - iv.start) else n2          -- overlaps end
      runCountRange rest n3 s e

def Container.countRange : Container → Nat → Nat → Nat
  | .array xs, s, e => arrayCountRange xs s e
  | .bitmap _ bits, s, e => bitmapCountRange bits s e
  | .run _ ivs, s, e => runCountRange ivs 0 s e

def countRange : Option Container → Nat → Nat → Nat
  | none, _, _ => 0
  | some c, s, e => c.countRange s e

/-! ### conversions, countRuns, optimize -/

def runToArray (n : Nat) (ivs : List Iv) : Container :=
  if n = 0 then .array [] else .array (runValues ivs)

def runToBitmap (n : Nat) (ivs : List Iv) : Container :=
  if n = 0 then .bitmap 0 [] else .bitmap n (runValues ivs)

def arrayToBitmap (xs : List Nat) : Container := .bitmap xs.length xs

def bitmapToArray (n : Nat) (bits : List Nat) : Container :=
  if n = 0 then .array [] else .array bits

/-- `arrayCountRuns`: `prev` starts at -2, i.e. the first value always opens a run. -/
def arrayCountRunsFrom : Option Nat → List Nat → Nat
  | _, [] => 0
  | none, v :: rest => 1 + arrayCountRunsFrom (some v) rest
  | some p, v :: rest => (if p + 1 ≠ v then 1 else 0) + arrayCountRunsFrom (some v) rest

def arrayCountRuns (xs : List Nat) : Nat := arrayCountRunsFrom none xs

/-- The loop of `arrayToRun`: `start` is the start of the open run, `prev` the previous value. -/
def arrayToRunLoop : Nat → Nat → List Nat → List Iv
  | start, prev, [] => [⟨start, prev⟩]                          -- append final run
  | start, prev, v :: rest =>
    if v - prev > 1 then ⟨start, prev⟩ :: arrayToRunLoop v v rest
    else arrayToRunLoop start v rest

def arrayToRunIvs : List Nat → List Iv
  | [] => []
  | x :: rest => arrayToRunLoop x x rest

def arrayToRun (xs : List Nat) : Container := .run xs.length (arrayToRunIvs xs)

/-- `bitmapToRun` (abstracted: the maximal runs of the set bits; `n` is carried over). -/
def bitmapToRun (n : Nat) (bits : List Nat) : Container :=
  if n = 0 then .run 0 [] else .run n (arrayToRunIvs bits)

def Container.countRuns : Container → Nat
  | .array xs => arrayCountRuns xs
  | .bitmap _ bits => arrayCountRuns bits        -- bitmapCountRuns, abstracted
  | .run _ ivs => ivs.length

/-- `Container.optimize`. -/
def Container.optimize (c : Container) : Option Container :=
  if c.n = 0 then none
  else
    let runs := c.countRuns
    -- 0 = run, 1 = array, 2 = bitmap
    let newType := if runs ≤ runMaxSize ∧ runs ≤ c.n / 2 then 0 else if c.n < arrayMaxSize then 1 else 2
    match c with
    | .array xs => some (if newType = 2 then arrayToBitmap xs else if newType = 0 then arrayToRun xs else c)
    | .bitmap n bits => some (if newType = 1 then bitmapToArray n bits else if newType = 0 then bitmapToRun n bits else c)
    | .run n ivs => some (if newType = 2 then runToBitmap n ivs else if newType = 1 then runToArray n ivs else c)

/-! ### runAppendInterval.  The output container's runs are kept REVERSED (head = last run). -/

def runAppendInterval (racc : List Iv) (v : Iv) : List Iv × Nat :=
  match racc with
  | [] => ([v], v.last - v.start + 1)
  | last :: rest =>
    if last.last = 65535 then (racc, 0)               -- protect against overflow
    else if last.last + 1 ≥ v.start ∧ v.last > last.last then (⟨last.start, v.last⟩ :: rest, v.last - last.last)
    else if last.last + 1 < v.start then (v :: racc, v.last - v.start + 1)
    else (racc, 0)

def appendStep (acc : List Iv × Nat) (v : Iv) : List Iv × Nat :=
  let r := runAppendInterval acc.1 v
  (r.1, acc.2 + r.2)

/-- Appending a sequence of intervals to an empty run container: (runs in order, n). -/
def appendAll (ivs : List Iv) : List Iv × Nat :=
  let r := ivs.foldl appendStep ([], 0)
  (r.1.reverse, r.2)

/-! ### intersectionCount -/

/-- loop of `intersectionCountArrayArray`; `ca` is the shorter slice. For each `va` skip the
elements of `cb` below it (returning `n` when `cb` is exhausted), count an equal element. -/
def icAALoop : List Nat → List Nat → Nat → Nat
  | [], _, n => n
  | va :: ca, cb, n =>
    match cb.dropWhile (· < va) with
    | [] => n
    | vb :: cb' => icAALoop ca (vb :: cb') (if vb = va then n + 1 else n)

def intersectionCountArrayArray (a b : List Nat) : Nat :=
  if a.length > b.length then icAALoop b a 0 else icAALoop a b 0

def intersectionCountArrayRun : Nat → List Nat → List Iv → Nat
  | 0, _, _ => 0
  | f+1, va :: as, vb :: rb =>
    if va < vb.start then intersectionCountArrayRun f as (vb :: rb)
    else if va ≥ vb.start ∧ va ≤ vb.last then 1 + intersectionCountArrayRun f as (vb :: rb)
    else intersectionCountArrayRun f (va :: as) rb             -- va > vb.last
  | _, _, _ => 0

def intersectionCountRunRun : Nat → List Iv → List Iv → Nat
  | 0, _, _ => 0
  | f+1, va :: ra, vb :: rb =>
    if va.last < vb.start then intersectionCountRunRun f ra (vb :: rb)
    else if va.start > vb.last then intersectionCountRunRun f (va :: ra) rb
    else if va.last > vb.last ∧ va.start ≥ vb.start then
      (1 + (vb.last - va.start)) + intersectionCountRunRun f (va :: ra) rb
    else if va.last > vb.last ∧ va.start < vb.start then
      (1 + (vb.last - vb.start)) + intersectionCountRunRun f (va :: ra) rb
    else if va.last ≤ vb.last ∧ va.start ≥ vb.start then
      (1 + (va.last - va.start)) + intersectionCountRunRun f ra (vb :: rb)
    else
      (1 + (va.last - vb.start)) + intersectionCountRunRun f ra (vb :: rb)
  | _, _, _ => 0

/-- `intersectionCountBitmapRun`: sum of `bitmapCountRange` over the runs. -/
def intersectionCountBitmapRun (bits : List Nat) : List Iv → Nat
  | [] => 0
  | iv :: rest => bitmapCountRange bits iv.start (iv.last + 1) + intersectionCountBitmapRun bits rest

def intersectionCountArrayBitmap (xs bits : List Nat) : Nat := (Spec.inter xs bits).length
def intersectionCountBitmapBitmap (a b : List Nat) : Nat := (Spec.inter a b).length

def intersectionCount (a b : Container) : Nat :=
  if a.n = 65536 then b.n
  else if b.n = 65536 then a.n
  else if a.n = 0 ∨ b.n = 0 then 0
  else match a, b with
    | .array xa, .array xb => intersectionCountArrayArray xa xb
    | .array xa, .run _ rb => intersectionCountArrayRun (xa.length + rb.length + 1) xa rb
    | .array xa, .bitmap _ bb => intersectionCountArrayBitmap xa bb
    | .run _ ra, .array xb => intersectionCountArrayRun (xb.length + ra.length + 1) xb ra
    | .run _ ra, .run _ rb => intersectionCountRunRun (ra.length + rb.length + 1) ra rb
    | .run _ ra, .bitmap _ bb => intersectionCountBitmapRun bb ra
    | .bitmap _ ba, .array xb => intersectionCountArrayBitmap xb ba
    | .bitmap _ ba, .run _ rb => intersectionCountBitmapRun ba rb
    | .bitmap _ ba, .bitmap _ bb => intersectionCountBitmapBitmap ba bb

/-! ### intersect -/

def intersectArrayArray : Nat → List Nat → List Nat → List Nat
  | 0, _, _ => []
  | f+1, va :: as, vb :: bs =>
    if va < vb then intersectArrayArray f as (vb :: bs)
    else if va > vb then intersectArrayArray f (va :: as) bs
    else va :: intersectArrayArray f as bs
  | _, _, _ => []

def intersectArrayRun : Nat → List Nat → List Iv → List Nat
  | 0, _, _ => []
  | f+1, va :: as, vb :: rb =>
    if va < vb.start then intersectArrayRun f as (vb :: rb)
    else if va > vb.last then intersectArrayRun f (va :: as) rb
    else va :: intersectArrayRun f as (vb :: rb)
  | _, _, _ => []

/-- the intervals `intersectRunRun` hands to `runAppendInterval`, in order. -/
def intersectRunRunEmit : Nat → List Iv → List Iv → List Iv
  | 0, _, _ => []
  | f+1, va :: ra, vb :: rb =>
    if va.last < vb.start then intersectRunRunEmit f ra (vb :: rb)
    else if vb.last < va.start then intersectRunRunEmit f (va :: ra) rb
    else if va.last > vb.last ∧ va.start ≥ vb.start then
      ⟨va.start, vb.last⟩ :: intersectRunRunEmit f (va :: ra) rb
    else if va.last > vb.last ∧ va.start < vb.start then
      vb :: intersectRunRunEmit f (va :: ra) rb
    else if va.last ≤ vb.last ∧ va.start ≥ vb.start then
      va :: intersectRunRunEmit f ra (vb :: rb)
    else
      ⟨vb.start, va.last⟩ :: intersectRunRunEmit f ra (vb :: rb)
  | _, _, _ => []

def intersectRunRun (ra rb : List Iv) : Container :=
  let r := appendAll (intersectRunRunEmit (ra.length + rb.length + 1) ra rb)
  let runs := r.1
  let n := r.2
  if n < arrayMaxSize ∧ runs.length > n / 2 then runToArray n runs
  else if runs.length > runMaxSize then runToBitmap n runs
  else .run n runs

/-- `intersectBitmapRun` (set abstracted; the encoding decision is the Go one). -/
def intersectBitmapRun (an : Nat) (abits : List Nat) (bn : Nat) (rb : List Iv) : Container :=
  let vs := Spec.inter abits (runValues rb)
  if bn ≤ arrayMaxSize ∨ an ≤ arrayMaxSize then .array vs else .bitmap vs.length vs

def intersectArrayBitmap (xs bits : List Nat) : Container := .array (Spec.inter xs bits)

def intersectBitmapBitmap (a b : List Nat) : Container :=
  let vs := Spec.inter a b
  .bitmap vs.length vs

def intersect (a b : Container) : Option Container :=
  if a.n = 65536 then some b
  else if b.n = 65536 then some a
  else if a.n = 0 ∨ b.n = 0 then none
  else some (match a, b with
    | .array xa, .array xb => .array (intersectArrayArray (xa.length + xb.length + 1) xa xb)
    | .array xa, .run _ rb => .array (intersectArrayRun (xa.length + rb.length + 1) xa rb)
    | .array xa, .bitmap _ bb => intersectArrayBitmap xa bb
    | .run _ ra, .array xb => .array (intersectArrayRun (xb.length + ra.length + 1) xb ra)
    | .run _ ra, .run _ rb => intersectRunRun ra rb
    | .run na ra, .bitmap nb bb => intersectBitmapRun nb bb na ra
    | .bitmap _ ba, .array xb => intersectArrayBitmap xb ba
    | .bitmap na ba, .run nb rb => intersectBitmapRun na ba nb rb
    | .bitmap _ ba, .bitmap _ bb => intersectBitmapBitmap ba bb)

/-! ### union -/

def unionArrayArray : Nat → List Nat → List Nat → List Nat
  | 0, _, _ => []
  | _+1, [], [] => []
  | f+1, va :: as, [] => va :: unionArrayArray f as []
  | f+1, [], vb :: bs => vb :: unionArrayArray f [] bs
  | f+1, va :: as, vb :: bs =>
    if va < vb then va :: unionArrayArray f as (vb :: bs)
    else if va > vb then vb :: unionArrayArray f (va :: as) bs
    else va :: unionArrayArray f as bs

/-- intervals appended by `unionArrayRun`. -/
def unionArrayRunEmit : Nat → List Nat → List Iv → List Iv
  | 0, _, _ => []
  | _+1, [], [] => []
  | f+1, va :: as, [] => ⟨va, va⟩ :: unionArrayRunEmit f as []
  | f+1, [], vb :: rb => vb :: unionArrayRunEmit f [] rb
  | f+1, va :: as, vb :: rb =>
    if va < vb.start then ⟨va, va⟩ :: unionArrayRunEmit f as (vb :: rb)
    else vb :: unionArrayRunEmit f (va :: as) rb

def unionArrayRun (xa : List Nat) (rb : List Iv) : Container :=
  let r := appendAll (unionArrayRunEmit (xa.length + rb.length + 1) xa rb)
  if r.2 < arrayMaxSize then runToArray r.2 r.1
  else if r.1.length > runMaxSize then runToBitmap r.2 r.1
  else .run r.2 r.1

def unionRunRunEmit : Nat → List Iv → List Iv → List Iv
  | 0, _, _ => []
  | _+1, [], [] => []
  | f+1, va :: ra, [] => va :: unionRunRunEmit f ra []
  | f+1, [], vb :: rb => vb :: unionRunRunEmit f [] rb
  | f+1, va :: ra, vb :: rb =>
    if va.start < vb.start then va :: unionRunRunEmit f ra (vb :: rb)
    else vb :: unionRunRunEmit f (va :: ra) rb

def unionRunRun (ra rb : List Iv) : Container :=
  let r := appendAll (unionRunRunEmit (ra.length + rb.length + 1) ra rb)
  if r.1.length > runMaxSize then runToBitmap r.2 r.1 else .run r.2 r.1

/-- `unionBitmapRun`: clone of `a`, `bitmapSetRange` per run; `n` grows by the newly set bits. -/
def unionBitmapRun (an : Nat) (abits : List Nat) (rb : List Iv) : Container :=
  let vs := Spec.union abits (runValues rb)
  .bitmap (an + (vs.length - abits.length)) vs

def unionArrayBitmap (xs : List Nat) (bn : Nat) (bbits : List Nat) : Container :=
  let vs := Spec.union xs bbits
  .bitmap (bn + (vs.length - bbits.length)) vs

def unionBitmapBitmap (a b : List Nat) : Container :=
  let vs := Spec.union a b
  .bitmap vs.length vs

def fullContainer : Container := .run 65536 [⟨0, 65535⟩]

def union (a b : Container) : Container :=
  if a.n = 65536 ∨ b.n = 65536 then fullContainer
  else match a, b with
    | .array xa, .array xb => .array (unionArrayArray (xa.length + xb.length + 1) xa xb)
    | .array xa, .run _ rb => unionArrayRun xa rb
    | .array xa, .bitmap nb bb => unionArrayBitmap xa nb bb
    | .run _ ra, .array xb => unionArrayRun xb ra
    | .run _ ra, .run _ rb => unionRunRun ra rb
    | .run _ ra, .bitmap nb bb => unionBitmapRun nb bb ra
    | .bitmap na ba, .array xb => unionArrayBitmap xb na ba
    | .bitmap na ba, .run _ rb => unionBitmapRun na ba rb
    | .bitmap _ ba, .bitmap _ bb => unionBitmapBitmap ba bb

/-! ### difference -/

def differenceArrayArrayL : Nat → List Nat → List Nat → List Nat
  | 0, _, _ => []
  | _+1, [], _ => []
  | f+1, va :: as, [] => va :: differenceArrayArrayL f as []
  | f+1, va :: as, vb :: bs =>
    if va < vb then va :: differenceArrayArrayL f as (vb :: bs)
    else if va > vb then differenceArrayArrayL f (va :: as) bs
    else differenceArrayArrayL f as bs

/-- `output.add(va)` on an array container switches to a bitmap when it already holds
`ArrayMaxSize` values. -/
def arrayOrBitmap (vs : List Nat) : Container :=
  if vs.length ≤ arrayMaxSize then .array vs else .bitmap vs.length vs

def differenceArrayArray (xa xb : List Nat) : Container :=
  arrayOrBitmap (differenceArrayArrayL (xa.length + xb.length + 1) xa xb)

def differenceArrayRun : Nat → List Nat → List Iv → List Nat
  | 0, _, _ => []
  | _+1, [], _ => []
  | _+1, va :: as, [] => va :: as                                -- keep all elements after end of runs
  | f+1, va :: as, vb :: rb =>
    if va < vb.start then va :: differenceArrayRun f as (vb :: rb)
    else if va ≥ vb.start ∧ va ≤ vb.last then differenceArrayRun f as (vb :: rb)
    else differenceArrayRun f (va :: as) rb                      -- va > vb.last: next run

/-- inner loops of `differenceRunArray` for one run `[.., last]` whose uncovered part starts at
`start`; `vb :: ab` is the unread part of the array (`none` = exhausted).  Result: the runs
appended for this run, the unread part afterwards, and whether RUNLOOP was left (overflow). -/
def draInner : Nat → Nat → Nat → Option (Nat × List Nat) → List Iv × Option (Nat × List Nat) × Bool
  | 0, _, _, st => ([], st, false)
  | _+1, start, last, none => (if start ≤ last then [⟨start, last⟩] else [], none, false)
  | f+1, start, last, some (vb, ab) =>
    if vb ≥ start ∧ vb ≤ last then        -- loop condition `vb >= run.start && vb <= run.last`
      if vb = start then
        if vb = 65535 then ([], some (vb, ab), true)              -- break RUNLOOP
        else
          match ab with
          | [] => (if start + 1 ≤ last then [⟨start + 1, last⟩] else [], none, false)
          | vb' :: ab' => draInner f (start + 1) last (some (vb', ab'))
      else
        if vb = 65535 then ([⟨start, vb - 1⟩], some (vb, ab), true)
        else
          match ab with
          | [] => (⟨start, vb - 1⟩ :: (if vb + 1 ≤ last then [⟨vb + 1, last⟩] else []), none, false)
          | vb' :: ab' =>
            let r := draInner f (vb + 1) last (some (vb', ab'))
            (⟨start, vb - 1⟩ :: r.1, r.2.1, r.2.2)
    else (if start ≤ last then [⟨start, last⟩] else [], some (vb, ab), false)

/-- skip array values below the run start (`for vb < run.start`). -/
def draSkip (rstart : Nat) : Option (Nat × List Nat) → Option (Nat × List Nat)
  | none => none
  | some (vb, ab) =>
    if vb < rstart then
      match ab.dropWhile (· < rstart) with
      | [] => none
      | vb' :: ab' => some (vb', ab')
    else some (vb, ab)

def differenceRunArrayLoop : List Iv → Option (Nat × List Nat) → List Iv
  | [], _ => []
  | run :: ra, st =>
    let st1 := draSkip run.start st
    let r := draInner (run.last - run.start + 2 + (match st1 with | some (_, ab) => ab.length | none => 0))
               run.start run.last st1
    if r.2.2 then r.1 else r.1 ++ differenceRunArrayLoop ra r.2.1

/-! ### add (used by Shift and Flip) and remove-free helpers -/

def insertSorted (v : Nat) : List Nat → List Nat
  | [] => [v]
  | x :: rest => if v < x then v :: x :: rest else if v = x then x :: rest else x :: insertSorted v rest

def arrayAdd (xs : List Nat) (v : Nat) : Container :=
  if xs.contains v then .array xs
  else if xs.length ≥ arrayMaxSize then .bitmap (xs.length + 1) (insertSorted v xs)
  else .array (insertSorted v xs)

def bitmapAdd (n : Nat) (bits : List Nat) (v : Nat) : Container :=
  if bits.contains v then .bitmap n bits else .bitmap (n + 1) (insertSorted v bits)

/-- `runAdd`: `prev` is the run before the first run with `last ≥ v`. -/
def runAddLoop (v : Nat) : Option Iv → List Iv → List Iv × Bool
  | none, [] => ([⟨v, v⟩], true)
  | some p, [] =>                                   -- v is beyond every run: i = len-1
    if p.last + 1 = v then ([⟨p.start, p.last + 1⟩], true) else ([p, ⟨v, v⟩], true)
  | prev, iv :: rest =>
    if iv.last ≥ v then
      let pre := match prev with | some p => [p] | none => []
      if v ≥ iv.start then (pre ++ iv :: rest, false)
      else if v + 1 = iv.start then
        match prev with
        | some p => if p.last + 1 = v then (⟨p.start, iv.last⟩ :: rest, true)
                    else (p :: ⟨iv.start - 1, iv.last⟩ :: rest, true)
        | none => (⟨iv.start - 1, iv.last⟩ :: rest, true)
      else
        match prev with
        | some p => if p.last + 1 = v then (⟨p.start, p.last + 1⟩ :: iv :: rest, true)
                    else (p :: ⟨v, v⟩ :: iv :: rest, true)
        | none => (⟨v, v⟩ :: iv :: rest, true)
    else
      let r := runAddLoop v (some iv) rest
      ((match prev with | some p => [p] | none => []) ++ r.1, r.2)

def runAdd (n : Nat) (ivs : List Iv) (v : Nat) : Container :=
  let r := runAddLoop v none ivs
  if r.2 then .run (n + 1) r.1 else .run n ivs

def add (c : Option Container) (v : Nat) : Container :=
  match c with
  | none => .array [v]
  | some (.array xs) => arrayAdd xs v
  | some (.bitmap n bits) => bitmapAdd n bits v
  | some (.run n ivs) => runAdd n ivs v

/-! ### difference, continued -/

def differenceRunArray (ra : List Iv) (ab : List Nat) : Option Container :=
  match ab with
  | [] => (Container.run (runsCard ra) ra).optimize      -- Go would panic on ab[0]; unreachable (b.N() != 0)
  | vb :: ab' =>
    let runs := differenceRunArrayLoop ra (some (vb, ab'))
    (Container.run (runsCard runs) runs).optimize

/-- `differenceRunBitmap` (bit loop abstracted): every input run is cut into the maximal runs of
its values that are not in `b`; runs coming from different input runs are not merged. -/
def differenceRunBitmapRuns (bits : List Nat) : List Iv → List Iv
  | [] => []
  | iv :: rest =>
    arrayToRunIvs (Spec.diff (Spec.rangeIncl iv.start iv.last) bits) ++ differenceRunBitmapRuns bits rest

def flipBitmap (bits : List Nat) : Container :=
  let vs := Spec.compl16 bits
  .bitmap vs.length vs

def differenceRunBitmap (ra : List Iv) (bits : List Nat) : Container :=
  match ra with
  | ⟨0, 65535⟩ :: _ => flipBitmap bits
  | _ =>
    let runs := differenceRunBitmapRuns bits ra
    let n := runsCard runs
    if n < arrayMaxSize ∧ runs.length > n / 2 then runToArray n runs
    else if runs.length > runMaxSize then runToBitmap n runs
    else .run n runs

/-- `differenceRunRun`: `(astart, alast)` is the uncovered part of the current a-run, `ra` the
a-runs after it; `rb` starts with the current b-run. -/
def differenceRunRunLoop : Nat → Nat → Nat → List Iv → List Iv → List Iv
  | 0, _, _, _, _ => []
  | _+1, astart, alast, ra, [] => ⟨astart, alast⟩ :: ra                 -- bpos = blen: copy the rest
  | f+1, astart, alast, ra, vb :: rb =>
    if alast < vb.start then
      ⟨astart, alast⟩ :: (match ra with
        | [] => []
        | a' :: ra' => differenceRunRunLoop f a'.start a'.last ra' (vb :: rb))
    else if vb.last < astart then differenceRunRunLoop f astart alast ra rb
    else
      let pre := if astart < vb.start then [⟨astart, vb.start - 1⟩] else []
      if alast > vb.last then pre ++ differenceRunRunLoop f (vb.last + 1) alast ra (vb :: rb)
      else pre ++ (match ra with
        | [] => []
        | a' :: ra' => differenceRunRunLoop f a'.start a'.last ra' (vb :: rb))

def differenceRunRun (ra rb : List Iv) : Container :=
  match ra with
  | [] => .run 0 []                                   -- Go would panic on ra[0]; unreachable (a.N() != 0)
  | a :: ra' =>
    let runs := differenceRunRunLoop (2 * (ra.length + rb.length) + 2) a.start a.last ra' rb
    .run (runsCard runs) runs

def differenceArrayBitmap (xs bits : List Nat) : Container := .array (Spec.diff xs bits)

def differenceBitmapArray (an : Nat) (abits xs : List Nat) : Container :=
  let vs := Spec.diff abits xs
  let n := an - (abits.length - vs.length)
  if n < arrayMaxSize then bitmapToArray n vs else .bitmap n vs

def differenceBitmapBitmap (a b : List Nat) : Container :=
  let vs := Spec.diff a b
  if vs.length < arrayMaxSize then bitmapToArray vs.length vs else .bitmap vs.length vs

def differenceBitmapRun (an : Nat) (abits : List Nat) (rb : List Iv) : Container :=
  let vs := Spec.diff abits (runValues rb)
  .bitmap (an - (abits.length - vs.length)) vs

def difference (a b : Container) : Option Container :=
  if a.n = 0 ∨ b.n = 65536 then none
  else if b.n = 0 then some a
  else match a, b with
    | .array xa, .array xb => some (differenceArrayArray xa xb)
    | .array xa, .run _ rb => some (.array (differenceArrayRun (xa.length + rb.length + 1) xa rb))
    | .array xa, .bitmap _ bb => some (differenceArrayBitmap xa bb)
    | .run _ ra, .array xb => differenceRunArray ra xb
    | .run _ ra, .run _ rb => some (differenceRunRun ra rb)
    | .run _ ra, .bitmap _ bb => some (differenceRunBitmap ra bb)
    | .bitmap na ba, .array xb => some (differenceBitmapArray na ba xb)
    | .bitmap na ba, .run _ rb => some (differenceBitmapRun na ba rb)
    | .bitmap _ ba, .bitmap _ bb => some (differenceBitmapBitmap ba bb)

/-! ### xor -/

def xorArrayArray : Nat → List Nat → List Nat → List Nat
  | 0, _, _ => []
  | _+1, [], [] => []
  | f+1, va :: as, [] => va :: xorArrayArray f as []
  | f+1, [], vb :: bs => vb :: xorArrayArray f [] bs
  | f+1, va :: as, vb :: bs =>
    if va < vb then va :: xorArrayArray f as (vb :: bs)
    else if va > vb then vb :: xorArrayArray f (va :: as) bs
    else xorArrayArray f as bs

/-- intervals appended by `xorArrayRun`.  `vb` is the current run, possibly already trimmed at
its front (`vb.start` moves); it is reloaded from `rb` only when `j` advances. -/
def xorArrayRunEmit : Nat → List Nat → Option Iv → List Iv → List Iv
  | 0, _, _, _ => []
  | f+1, aa, none, vb :: rb => xorArrayRunEmit f aa (some vb) rb      -- load rb[j]
  | _+1, [], none, [] => []
  | f+1, va :: as, none, [] => ⟨va, va⟩ :: xorArrayRunEmit f as none []       -- before (j >= nb)
  | f+1, [], some vb, rb => vb :: xorArrayRunEmit f [] none rb               -- after (i >= na)
  | f+1, va :: as, some vb, rb =>
    if va < vb.start then ⟨va, va⟩ :: xorArrayRunEmit f as (some vb) rb       -- before
    else if va > vb.last then vb :: xorArrayRunEmit f (va :: as) none rb       -- after
    else if va > vb.start then
      if va < vb.last then
        ⟨vb.start, va - 1⟩ :: xorArrayRunEmit f as (some ⟨va + 1, vb.last⟩) rb
      else                                                                    -- va == vb.last
        ⟨vb.start, vb.last - 1⟩ :: xorArrayRunEmit f as none rb
    else                                                                      -- va == vb.start
      if vb.start = 65535 then xorArrayRunEmit f as none rb
      else if vb.start + 1 > vb.last then xorArrayRunEmit f as none rb
      else xorArrayRunEmit f as (some ⟨vb.start + 1, vb.last⟩) rb

def xorArrayRun (xa : List Nat) (rb : List Iv) : Container :=
  let r := appendAll (xorArrayRunEmit (2 * (xa.length + rb.length) + 2) xa none rb)
  if r.2 < arrayMaxSize then runToArray r.2 r.1
  else if r.1.length > runMaxSize then runToBitmap r.2 r.1
  else .run r.2 r.1

/-- `xorCompare` on two valid runs: the emitted interval (if any) and what is left of `va`, `vb`. -/
def xorCompare (va vb : Iv) : Option Iv × Option Iv × Option Iv :=
  if va.last < vb.start then (some va, none, some vb)                       -- va before
  else if vb.last < va.start then (some vb, some va, none)                  -- vb before
  else if va.start = vb.start ∧ va.last = vb.last then (none, none, none)   -- equal
  else if va.start ≤ vb.start ∧ va.last ≥ vb.last then                      -- vb inside
    let r1 := if va.start ≠ vb.start then some ⟨va.start, vb.start - 1⟩ else none
    if vb.last = 65535 then (r1, none, none)
    else if vb.last + 1 > va.last then (r1, none, none)
    else (r1, some ⟨vb.last + 1, va.last⟩, none)
  else if vb.start ≤ va.start ∧ vb.last ≥ va.last then                      -- va inside
    let r1 := if vb.start ≠ va.start then some ⟨vb.start, va.start - 1⟩ else none
    if va.last = 65535 then (r1, none, none)
    else if va.last + 1 > vb.last then (r1, none, none)
    else (r1, none, some ⟨va.last + 1, vb.last⟩)
  else if va.start < vb.start ∧ va.last ≤ vb.last then                      -- va first overlap
    let r1 := some ⟨va.start, vb.start - 1⟩
    if va.last = 65535 then (r1, none, none)
    else if va.last + 1 > vb.last then (r1, none, none)
    else (r1, none, some ⟨va.last + 1, vb.last⟩)
  else if vb.start < va.start ∧ vb.last ≤ va.last then                      -- vb first overlap
    let r1 := some ⟨vb.start, va.start - 1⟩
    if vb.last = 65535 then (r1, none, none)
    else if vb.last + 1 > va.last then (r1, none, none)
    else (r1, some ⟨vb.last + 1, va.last⟩, none)
  else (none, some va, some vb)                                             -- unreachable

/-- intervals appended by `xorRunRun`; `sa`/`sb` are `state.va`/`state.vb` when valid. -/
def xorRunRunEmit : Nat → Option Iv → List Iv → Option Iv → List Iv → List Iv
  | 0, _, _, _, _ => []
  | f+1, none, va :: ra, sb, rb => xorRunRunEmit f (some va) ra sb rb        -- load ra[i]
  | f+1, sa, ra, none, vb :: rb => xorRunRunEmit f sa ra (some vb) rb        -- load rb[j]
  | _+1, none, [], none, [] => []
  | f+1, some va, ra, none, [] => va :: xorRunRunEmit f none ra none []      -- only va valid
  | f+1, none, [], some vb, rb => vb :: xorRunRunEmit f none [] none rb      -- only vb valid
  | f+1, some va, ra, some vb, rb =>
    let r := xorCompare va vb
    match r.1 with
    | some iv => iv :: xorRunRunEmit f r.2.1 ra r.2.2 rb
    | none => xorRunRunEmit f r.2.1 ra r.2.2 rb

def xorRunRun (ra rb : List Iv) : Container :=
  let r := appendAll (xorRunRunEmit (4 * (ra.length + rb.length) + 4) none ra none rb)
  let l := r.1.length
  if r.2 < arrayMaxSize ∧ l > r.2 / 2 then runToArray r.2 r.1
  else if l > runMaxSize then runToBitmap r.2 r.1
  else .run r.2 r.1

/-- `xorArrayBitmap` (per-value add/remove abstracted to the set; nil when everything cancels). -/
def xorArrayBitmap (xs bits : List Nat) : Option Container :=
  let vs := Spec.xor xs bits
  if vs.length = 0 then none
  else if vs.length < arrayMaxSize then some (.array vs) else some (.bitmap vs.length vs)

def xorBitmapBitmap (a b : List Nat) : Container :=
  let vs := Spec.xor a b
  if vs.length < arrayMaxSize then bitmapToArray vs.length vs else .bitmap vs.length vs

def xorBitmapRun (an : Nat) (abits : List Nat) (rb : List Iv) : Container :=
  let vs := Spec.xor abits (runValues rb)
  .bitmap (an + vs.length - abits.length) vs

def xor (a b : Container) : Option Container :=
  if a.n = 0 then some b
  else if b.n = 0 then some a
  else match a, b with
    | .array xa, .array xb => some (.array (xorArrayArray (xa.length + xb.length + 1) xa xb))
    | .array xa, .run _ rb => some (xorArrayRun xa rb)
    | .array xa, .bitmap _ bb => xorArrayBitmap xa bb
    | .run _ ra, .array xb => some (xorArrayRun xb ra)
    | .run _ ra, .run _ rb => some (xorRunRun ra rb)
    | .run _ ra, .bitmap nb bb => some (xorBitmapRun nb bb ra)
    | .bitmap _ ba, .array xb => xorArrayBitmap xb ba
    | .bitmap na ba, .run _ rb => some (xorBitmapRun na ba rb)
    | .bitmap _ ba, .bitmap _ bb => some (xorBitmapBitmap ba bb)

/-! ### shift, flip, max -/

def shiftArray : List Nat → List Nat × Bool
  | [] => ([], false)
  | v :: rest =>
    let r := shiftArray rest
    if v + 1 = 65536 then (r.1, true) else ((v + 1) :: r.1, r.2)   -- `v+1 == 0`: overflow, carry

/-- `shiftRun`; `carry` is the value the variable holds before this iteration. -/
def shiftRunLoop : List Iv → Bool → List Iv × Bool
  | [], carry => ([], carry)
  | v :: rest, _ =>
    if v.start + 1 = 65536 then ([], true)                        -- break
    else if v.last + 1 = 65536 then
      let r := shiftRunLoop rest true
      (⟨v.start + 1, v.last⟩ :: r.1, r.2)
    else
      let r := shiftRunLoop rest false
      (⟨v.start + 1, v.last + 1⟩ :: r.1, r.2)

def shiftBitmap (n : Nat) (bits : List Nat) : Container × Bool :=
  let carry := bits.contains 65535
  (.bitmap (n - (if carry then 1 else 0)) (Spec.shift 65536 bits), carry)

def shift (c : Container) : Option Container × Bool :=
  if c.n = 0 then (none, false)
  else match c with
    | .array xs => let r := shiftArray xs; (some (.array r.1), r.2)
    | .run _ ivs => let r := shiftRunLoop ivs false; (some (.run (runsCard r.1) r.1), r.2)
    | .bitmap n bits => let r := shiftBitmap n bits; (some r.1, r.2)

/-- `flip`: arrays and runs are converted to a bitmap first, the result is always a bitmap. -/
def flip (c : Container) : Container := flipBitmap c.values

def Container.max : Container → Nat
  | .array xs => xs.getLast?.getD 0
  | .run _ ivs => match ivs.getLast? with | some iv => iv.last | none => 0
  | .bitmap _ bits => bits.getLast?.getD 0

def maxO (c : Option Container) : Nat :=
  match c with
  | none => 0
  | some c => if c.n = 0 then 0 else c.max

/-! ### in-place union (Bitmap.unionInPlace); `n` of a bitmap goes stale until `Repair` -/

/-- state of the (thawed) target container after `tContainer.unionInPlace(other)`; the caller
drops the returned pointer, so only in-place effects count. -/
def unionInPlaceEffect (c other : Container) : Container :=
  if c.n = 65536 ∨ other.n = 65536 then c
  else match c, other with
    | .bitmap n bits, o => .bitmap n (Spec.union bits o.values)
    | .array xs, .array ys =>
      if ys.length ≠ 0 then
        match (Container.array (unionArrayArray (xs.length + ys.length + 1) xs ys)).optimize with
        | some r => r
        | none => .array []
      else .array xs
    | .array xs, o => .bitmap xs.length (Spec.union xs o.values)
    | .run n ivs, o => .bitmap n (Spec.union (runValues ivs) o.values)

def Container.repair : Container → Container
  | .bitmap _ bits => .bitmap bits.length bits
  | c => c

end PV.C01
