/-
C01 helper lemmas, part 8: per-encoding-pair kernel results assembled into statements about the
dispatchers `intersect`, `union`, `difference`, `xor`, `intersectionCount`.  Core Lean only.
-/
import PV.C01.LemmasAA
import PV.C01.LemmasAR
import PV.C01.LemmasL2Ops
namespace PV.C01
open Spec

/-! ### small tools -/

/-- a kernel result described through its value set satisfies `KernelOK`. -/
theorem kernelOK_of_values {both : Container → Container → Option Container} {f : Bool → Bool → Bool}
    (h : ∀ x y, x.WF → y.WF → WFO (both x y) ∧
      ∀ v, v ∈ valuesO (both x y) ↔ f (decide (v ∈ x.values)) (decide (v ∈ y.values)) = true) :
    KernelOK both f := by
  intro x y hx hy
  have := h x y hx hy
  refine ⟨this.1, fun v => ?_⟩
  rw [mem_eq hx, mem_eq hy, Bool.eq_iff_iff, memO_iff this.1, this.2 v]

theorem runsCard_pos_of_ne {ivs : List Iv} (h : ivs ≠ []) : runsCard ivs > 0 := by
  cases ivs with
  | nil => exact absurd rfl h
  | cons a t => simp only [runsCard]; omega

/-- the three possible encodings of a run-kernel result all denote the run list's values. -/
theorem runToArray_spec {n : Nat} {ivs : List Iv} (h : RunsWF ivs) (hn : n = runsCard ivs) :
    (runToArray n ivs).WF ∧ (runToArray n ivs).values = runValues ivs := by
  unfold runToArray
  by_cases h0 : n = 0
  · rw [if_pos h0]
    have : ivs = [] := by
      cases ivs with
      | nil => rfl
      | cons a t => have := runsCard_pos_of_ne (ivs := a :: t) (by simp); omega
    subst this
    exact ⟨⟨trivial, by simp⟩, rfl⟩
  · rw [if_neg h0]
    exact ⟨⟨runValues_sorted h, runValues_lt h⟩, rfl⟩

theorem runToBitmap_spec {n : Nat} {ivs : List Iv} (h : RunsWF ivs) (hn : n = runsCard ivs) :
    (runToBitmap n ivs).WF ∧ (runToBitmap n ivs).values = runValues ivs := by
  unfold runToBitmap
  by_cases h0 : n = 0
  · rw [if_pos h0]
    have : ivs = [] := by
      cases ivs with
      | nil => rfl
      | cons a t => have := runsCard_pos_of_ne (ivs := a :: t) (by simp); omega
    subst this
    exact ⟨⟨trivial, by simp, rfl⟩, rfl⟩
  · rw [if_neg h0]
    refine ⟨⟨runValues_sorted h, runValues_lt h, ?_⟩, rfl⟩
    rw [hn, runValues_length (fun iv hiv => (RunsWF.valid h iv hiv).1)]

theorem run_spec {n : Nat} {ivs : List Iv} (h : RunsWF ivs) (hn : n = runsCard ivs) :
    (Container.run n ivs).WF ∧ (Container.run n ivs).values = runValues ivs := ⟨⟨h, hn⟩, rfl⟩

/-- result of appending an emitted sequence, in whichever encoding the kernel picks. -/
theorem appendAll_values {emit : List Iv} (h : EmitOK emit) (w : Nat) :
    w ∈ runValues (appendAll emit).1 ↔ inRuns emit w = true := by
  rw [mem_runValues, (appendAll_spec h).2.2 w]

theorem bitmapToArray_spec {n : Nat} {bits : List Nat} (h : (Container.bitmap n bits).WF) :
    (bitmapToArray n bits).WF ∧ (bitmapToArray n bits).values = bits := by
  unfold bitmapToArray
  by_cases h0 : n = 0
  · rw [if_pos h0]
    have : bits = [] := by
      have := h.2.2; rw [h0] at this
      exact List.length_eq_zero_iff.mp this.symm
    subst this
    exact ⟨⟨trivial, by simp⟩, rfl⟩
  · rw [if_neg h0]
    exact ⟨⟨h.1, h.2.1⟩, rfl⟩

theorem bitmap_wf_of {vs : List Nat} (hs : Sorted vs) (hlt : ∀ v ∈ vs, v < 65536) :
    (Container.bitmap vs.length vs).WF := ⟨hs, hlt, rfl⟩

theorem arrayOrBitmap_spec {vs : List Nat} (hs : Sorted vs) (hlt : ∀ v ∈ vs, v < 65536) :
    (arrayOrBitmap vs).WF ∧ (arrayOrBitmap vs).values = vs := by
  unfold arrayOrBitmap
  split
  · exact ⟨⟨hs, hlt⟩, rfl⟩
  · exact ⟨⟨hs, hlt, rfl⟩, rfl⟩

theorem inter_lt {a b : List Nat} (ha : ∀ v ∈ a, v < 65536) (hb : ∀ v ∈ b, v < 65536) :
    ∀ v ∈ Spec.inter a b, v < 65536 := op_lt _ ha hb
theorem union_lt {a b : List Nat} (ha : ∀ v ∈ a, v < 65536) (hb : ∀ v ∈ b, v < 65536) :
    ∀ v ∈ Spec.union a b, v < 65536 := op_lt _ ha hb
theorem diff_lt {a b : List Nat} (ha : ∀ v ∈ a, v < 65536) (hb : ∀ v ∈ b, v < 65536) :
    ∀ v ∈ Spec.diff a b, v < 65536 := op_lt _ ha hb
theorem xor_lt {a b : List Nat} (ha : ∀ v ∈ a, v < 65536) (hb : ∀ v ∈ b, v < 65536) :
    ∀ v ∈ Spec.xor a b, v < 65536 := op_lt _ ha hb

/-- two ascending lists with the same members have the same length. -/
theorem length_eq_of_mem {l₁ l₂ : List Nat} (h1 : Sorted l₁) (h2 : Sorted l₂) (h : ∀ v, v ∈ l₁ ↔ v ∈ l₂) :
    l₁.length = l₂.length := by rw [sorted_ext h1 h2 h]


/-- an ascending list below 65536 has as many elements as `cnt` of its membership over `[0, 65536)`. -/
theorem length_eq_cnt {l : List Nat} (hs : Sorted l) (hlt : ∀ v ∈ l, v < 65536) :
    l.length = cnt (fun v => decide (v ∈ l)) 0 65536 := by
  rw [← cntList_eq_cnt hs]
  unfold cntList
  have : l.filter (fun v => decide (0 ≤ v) && decide (v < 65536)) = l := by
    rw [List.filter_eq_self]
    intro v hv
    have := hlt v hv
    simp only [Nat.zero_le, decide_true, Bool.true_and, decide_eq_true_eq]
    exact this
  rw [this]

theorem cnt_mono {p q : Nat → Bool} (h : ∀ v, p v = true → q v = true) (s e : Nat) : cnt p s e ≤ cnt q s e := by
  unfold cnt
  exact List.countP_mono_left (fun v _ => h v)

theorem sorted_subset_length_le {l₁ l₂ : List Nat} (h1 : Sorted l₁) (h2 : Sorted l₂)
    (hlt : ∀ v ∈ l₂, v < 65536) (hsub : ∀ v ∈ l₁, v ∈ l₂) : l₁.length ≤ l₂.length := by
  rw [length_eq_cnt h1 (fun v hv => hlt v (hsub v hv)), length_eq_cnt h2 hlt]
  apply cnt_mono
  intro v hv
  simp only [decide_eq_true_eq] at hv ⊢
  exact hsub v hv

/-! ### encodings of a run-kernel result -/

theorem appendAll_enc {emit : List Iv} (h : EmitOK emit) :
    ((runToArray (appendAll emit).2 (appendAll emit).1).WF ∧
      ∀ w, w ∈ (runToArray (appendAll emit).2 (appendAll emit).1).values ↔ inRuns emit w = true) ∧
    ((runToBitmap (appendAll emit).2 (appendAll emit).1).WF ∧
      ∀ w, w ∈ (runToBitmap (appendAll emit).2 (appendAll emit).1).values ↔ inRuns emit w = true) ∧
    ((Container.run (appendAll emit).2 (appendAll emit).1).WF ∧
      ∀ w, w ∈ (Container.run (appendAll emit).2 (appendAll emit).1).values ↔ inRuns emit w = true) := by
  have S := appendAll_spec h
  have A := runToArray_spec S.1 S.2.1
  have B := runToBitmap_spec S.1 S.2.1
  have C := run_spec S.1 S.2.1
  refine ⟨⟨A.1, fun w => ?_⟩, ⟨B.1, fun w => ?_⟩, ⟨C.1, fun w => ?_⟩⟩
  · rw [A.2]; exact appendAll_values h w
  · rw [B.2]; exact appendAll_values h w
  · rw [C.2]; exact appendAll_values h w

/-- the same for an arbitrary well-formed run list. -/
theorem runs_enc {n : Nat} {ivs : List Iv} (h : RunsWF ivs) (hn : n = runsCard ivs) :
    ((runToArray n ivs).WF ∧ ∀ w, w ∈ (runToArray n ivs).values ↔ inRuns ivs w = true) ∧
    ((runToBitmap n ivs).WF ∧ ∀ w, w ∈ (runToBitmap n ivs).values ↔ inRuns ivs w = true) ∧
    ((Container.run n ivs).WF ∧ ∀ w, w ∈ (Container.run n ivs).values ↔ inRuns ivs w = true) := by
  have A := runToArray_spec h hn
  have B := runToBitmap_spec h hn
  have C := run_spec h hn
  refine ⟨⟨A.1, fun w => ?_⟩, ⟨B.1, fun w => ?_⟩, ⟨C.1, fun w => ?_⟩⟩
  · rw [A.2]; exact mem_runValues ivs w
  · rw [B.2]; exact mem_runValues ivs w
  · rw [C.2]; exact mem_runValues ivs w

theorem inRuns_iff_values {n : Nat} {ivs : List Iv} (w : Nat) :
    inRuns ivs w = true ↔ w ∈ (Container.run n ivs).values := (mem_runValues ivs w).symm

/-- `optimize` of a run container built by a kernel. -/
theorem run_optimize_spec {n : Nat} {ivs : List Iv} (h : RunsWF ivs) (hn : n = runsCard ivs) :
    WFO (Container.run n ivs).optimize ∧
    ∀ w, w ∈ valuesO (Container.run n ivs).optimize ↔ inRuns ivs w = true := by
  have E := runs_enc h hn
  unfold Container.optimize
  by_cases h0 : (Container.run n ivs).n = 0
  · rw [if_pos h0]
    have hv : runValues ivs = [] := empty_values (c := .run n ivs) ⟨h, hn⟩ h0
    refine ⟨trivial, fun w => ?_⟩
    rw [← mem_runValues, hv]; simp [valuesO]
  · rw [if_neg h0]
    have key : ∀ t : Nat,
        WFO (some (if t = 2 then runToBitmap n ivs else if t = 1 then runToArray n ivs else Container.run n ivs)) ∧
        ∀ w, w ∈ valuesO (some (if t = 2 then runToBitmap n ivs else if t = 1 then runToArray n ivs
          else Container.run n ivs)) ↔ inRuns ivs w = true := by
      intro t
      by_cases h2 : t = 2
      · rw [if_pos h2]; exact ⟨E.2.1.1, E.2.1.2⟩
      · rw [if_neg h2]
        by_cases h1 : t = 1
        · rw [if_pos h1]; exact ⟨E.1.1, E.1.2⟩
        · rw [if_neg h1]; exact ⟨E.2.2.1, E.2.2.2⟩
    exact key _

end PV.C01
