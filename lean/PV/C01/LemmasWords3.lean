/-
C01 helper lemmas, part 16: the bitmap branch of `intersectBitmapRun` and `shiftBitmap` on words.
Core Lean only.
-/
import PV.C01.LemmasWords2
namespace PV.C01
open Spec

/-! ### the four cases of the loop body compute `aBitmap[i] & mask of the run` -/

theorem testBit_ibrBits {aw : Nat} (haw : aw < 2 ^ 64) (i s l : Nat) (hsl : s ≤ l)
    (h1 : s / 64 ≤ i) (h2 : i ≤ l / 64) (b : Nat) :
    (ibrBits aw i s l).testBit b = (aw.testBit b && decide (b < 64 ∧ s ≤ 64 * i + b ∧ 64 * i + b ≤ l)) := by
  by_cases hb : b < 64
  · unfold ibrBits
    simp only []
    by_cases c1 : 64 * i ≥ s ∧ 64 * i + 63 ≤ l
    · rw [if_pos c1]
      have : decide (b < 64 ∧ s ≤ 64 * i + b ∧ 64 * i + b ≤ l) = true := by simp; omega
      rw [this, Bool.and_true]
    · rw [if_neg c1]
      by_cases c2 : s ≥ 64 * i ∧ l ≤ 64 * i + 63
      · rw [if_pos c2, Nat.testBit_and, testBit_shl, Nat.one_shiftLeft, Nat.testBit_two_pow_sub_one]
        congr 1
        rw [Bool.eq_iff_iff]
        simp only [Bool.and_eq_true, decide_eq_true_eq]
        omega
      · rw [if_neg c2]
        by_cases c3 : 64 * i < s
        · rw [if_pos c3, testBit_shl, Nat.testBit_shiftRight]
          have e : 64 - (1 + (64 * i + 63) - s) = s - 64 * i := by omega
          rw [e]
          by_cases hge : s - 64 * i ≤ b
          · have e2 : s - 64 * i + (b - (s - 64 * i)) = b := by omega
            rw [e2]
            have d1 : decide (b < 64) = true := by simp [hb]
            have d2 : decide (s - 64 * i ≤ b) = true := by simp [hge]
            have d3 : decide (b < 64 ∧ s ≤ 64 * i + b ∧ 64 * i + b ≤ l) = true := by simp; omega
            rw [d1, d2, d3]; simp
          · have d2 : decide (s - 64 * i ≤ b) = false := by simp; omega
            have d3 : decide (b < 64 ∧ s ≤ 64 * i + b ∧ 64 * i + b ≤ l) = false := by simp; omega
            rw [d2, d3]; simp
        · rw [if_neg c3, Nat.testBit_shiftRight, testBit_shl]
          have hoff : 64 - (1 + l - 64 * i) + b - (64 - (1 + l - 64 * i)) = b := by omega
          rw [hoff]
          by_cases hin : 64 * i + b ≤ l
          · have d1 : decide (64 - (1 + l - 64 * i) + b < 64) = true := by simp; omega
            have d2 : decide (64 - (1 + l - 64 * i) ≤ 64 - (1 + l - 64 * i) + b) = true := by simp
            have d3 : decide (b < 64 ∧ s ≤ 64 * i + b ∧ 64 * i + b ≤ l) = true := by simp; omega
            rw [d1, d2, d3]; simp
          · have d1 : decide (64 - (1 + l - 64 * i) + b < 64) = false := by simp; omega
            have d3 : decide (b < 64 ∧ s ≤ 64 * i + b ∧ 64 * i + b ≤ l) = false := by simp; omega
            rw [d1, d3]; simp
  · -- above bit 63 every operand is zero
    have hz : aw.testBit b = false := testBit_high haw (by omega)
    have hlt : ibrBits aw i s l < 2 ^ 64 := by
      unfold ibrBits
      simp only []
      split
      · exact haw
      · split
        · exact Nat.and_lt_two_pow _ (shl_lt _ _)
        · split
          · exact shl_lt _ _
          · exact shr_lt (shl_lt _ _) _
    rw [testBit_high hlt (by omega), hz]; rfl

theorem ibrBits_lt {aw : Nat} (haw : aw < 2 ^ 64) (i s l : Nat) : ibrBits aw i s l < 2 ^ 64 := by
  unfold ibrBits
  simp only []
  split
  · exact haw
  · split
    · exact Nat.and_lt_two_pow _ (shl_lt _ _)
    · split
      · exact shl_lt _ _
      · exact shr_lt (shl_lt _ _) _

/-- membership of position `p` in the part of the run `[s, l]` that lies in words `≥ i`. -/
def inTail (i s l p : Nat) : Bool := decide (64 * i ≤ p ∧ s ≤ p ∧ p ≤ l)

/-- one run of the loop: the bits of the output. -/
theorem ibrRun_bits {aws : List Nat} (ha : WordsWF aws) (s l : Nat) (hsl : s ≤ l) (hl : l ≤ 65535) :
    ∀ (c i : Nat) (acc : Nat × List Nat), WordsWF acc.2 → s / 64 ≤ i → i + c = l / 64 + 1 →
      (∀ p, 64 * i ≤ p → s ≤ p → p ≤ l → bitp acc.2 p = false) →
      WordsWF (ibrRun aws s l i c acc).2 ∧
      ∀ p, p < 65536 → bitp (ibrRun aws s l i c acc).2 p = (bitp acc.2 p || (bitp aws p && inTail i s l p)) := by
  intro c
  induction c with
  | zero =>
    intro i acc hw _ hic _
    refine ⟨hw, fun p _ => ?_⟩
    simp only [ibrRun]
    have : inTail i s l p = false := by unfold inTail; simp; omega
    rw [this]; simp
  | succ c ih =>
    intro i acc hw h1 hic hold
    have hi : i ≤ l / 64 := by omega
    have hguard : 64 * i + 63 ≥ s ∧ 64 * i ≤ l ∧ i < 1024 := by omega
    simp only [ibrRun]
    rw [if_pos hguard]
    have hawi := getD_lt ha.2 i
    have hbl := ibrBits_lt hawi i s l
    -- the updated output words
    have hw' : WordsWF (ibrStore acc.2 i (ibrBits (aws.getD i 0) i s l) (ibrAssign i s l)) :=
      mapIdx_wf hw _ (fun k w hwk => by
        split
        · split
          · exact hbl
          · exact Nat.or_lt_two_pow hwk hbl
        · exact hwk)
    have hbits' : ∀ p, p < 65536 →
        bitp (ibrStore acc.2 i (ibrBits (aws.getD i 0) i s l) (ibrAssign i s l)) p
        = (bitp acc.2 p || (bitp aws p && decide (p / 64 = i ∧ s ≤ p ∧ p ≤ l))) := by
      intro p hp
      unfold bitp ibrStore
      rw [getD_mapIdx _ acc.2 (p / 64) (by rw [hw.1]; omega)]
      by_cases hk : p / 64 = i
      · rw [if_pos hk]
        have hbit := testBit_ibrBits hawi i s l hsl h1 hi (p % 64)
        have hrange : decide (p % 64 < 64 ∧ s ≤ 64 * i + p % 64 ∧ 64 * i + p % 64 ≤ l)
            = decide (p / 64 = i ∧ s ≤ p ∧ p ≤ l) := by rw [decide_eq_decide]; omega
        rw [hrange] at hbit
        by_cases hass : ibrAssign i s l = true
        · rw [if_pos hass, hbit, hk]
          -- the whole word lies inside the run: no old bits there
          have : (acc.2.getD i 0).testBit (p % 64) = false := by
            have := hold p (by omega) (by unfold ibrAssign at hass; simp at hass; omega)
              (by unfold ibrAssign at hass; simp at hass; omega)
            unfold bitp at this; rw [hk] at this; exact this
          rw [this]; simp
        · rw [if_neg hass, Nat.testBit_or, hbit, hk]
      · rw [if_neg hk]
        have : decide (p / 64 = i ∧ s ≤ p ∧ p ≤ l) = false := by simp; intro h; exact absurd h hk
        rw [this]; simp
    have IH := ih (i + 1) (acc.1 + popcount (ibrBits (aws.getD i 0) i s l),
      ibrStore acc.2 i (ibrBits (aws.getD i 0) i s l) (ibrAssign i s l)) hw' (by omega) (by omega) (by
      intro p h1' h2' h3'
      show bitp (ibrStore acc.2 i (ibrBits (aws.getD i 0) i s l) (ibrAssign i s l)) p = false
      rw [hbits' p (by omega), hold p (by omega) h2' h3']
      have : decide (p / 64 = i ∧ s ≤ p ∧ p ≤ l) = false := by simp; omega
      rw [this]; simp)
    refine ⟨IH.1, fun p hp => ?_⟩
    rw [IH.2 p hp, hbits' p hp]
    unfold inTail
    by_cases hk : p / 64 = i
    · have e1 : decide (64 * (i + 1) ≤ p ∧ s ≤ p ∧ p ≤ l) = false := by simp; omega
      have e2 : decide (p / 64 = i ∧ s ≤ p ∧ p ≤ l) = decide (64 * i ≤ p ∧ s ≤ p ∧ p ≤ l) := by
        rw [decide_eq_decide]; omega
      rw [e1, e2]; simp
    · have e2 : decide (p / 64 = i ∧ s ≤ p ∧ p ≤ l) = false := by simp; intro h; exact absurd h hk
      have e1 : decide (64 * (i + 1) ≤ p ∧ s ≤ p ∧ p ≤ l) = decide (64 * i ≤ p ∧ s ≤ p ∧ p ≤ l) := by
        rw [decide_eq_decide]; omega
      rw [e1, e2]; simp

/-- one run of the loop: the cardinality added is the number of common positions in the words
still to visit. -/
theorem ibrRun_n {aws : List Nat} (ha : WordsWF aws) (s l : Nat) (hsl : s ≤ l) (hl : l ≤ 65535) :
    ∀ (c i : Nat) (acc : Nat × List Nat), s / 64 ≤ i → i + c = l / 64 + 1 →
      (ibrRun aws s l i c acc).1
        = acc.1 + cnt (fun p => bitp aws p && decide (s ≤ p ∧ p ≤ l)) (64 * i) (64 * (i + c)) := by
  intro c
  induction c with
  | zero =>
    intro i acc _ _
    simp only [ibrRun, Nat.add_zero]
    rw [cnt_eq_zero_of_le (Nat.le_refl _)]; rfl
  | succ c ih =>
    intro i acc h1 hic
    have hi : i ≤ l / 64 := by omega
    have hguard : 64 * i + 63 ≥ s ∧ 64 * i ≤ l ∧ i < 1024 := by omega
    simp only [ibrRun]
    rw [if_pos hguard]
    rw [ih (i + 1) _ (by omega) (by omega)]
    rw [cnt_split (fun p => bitp aws p && decide (s ≤ p ∧ p ≤ l)) (s := 64 * i) (m := 64 * (i + 1))
      (e := 64 * (i + (c + 1))) (by omega) (by omega)]
    have e3 : i + 1 + c = i + (c + 1) := by omega
    rw [e3]
    have hpop : popcount (ibrBits (aws.getD i 0) i s l)
        = cnt (fun p => bitp aws p && decide (s ≤ p ∧ p ≤ l)) (64 * i) (64 * (i + 1)) := by
      unfold popcount
      have e1 : 64 * i = 64 * i + 0 := by omega
      have e2 : 64 * (i + 1) = 64 * i + 64 := by omega
      conv => rhs; rw [e2]; arg 2; rw [e1]
      rw [cnt_translate]
      apply cnt_congr
      intro t _ ht
      rw [testBit_ibrBits (getD_lt ha.2 i) i s l hsl h1 hi t]
      unfold bitp
      have a1 : (64 * i + t) / 64 = i := by omega
      have a2 : (64 * i + t) % 64 = t := by omega
      rw [a1, a2]
      congr 1
      rw [decide_eq_decide]; omega
    rw [hpop]; omega

/-- the whole run, from its first word. -/
theorem ibrRun_spec {aws : List Nat} (ha : WordsWF aws) (r : Iv) (hr : r.start ≤ r.last ∧ r.last ≤ 65535)
    (acc : Nat × List Nat) (hw : WordsWF acc.2) (hold : ∀ p, r.start ≤ p → bitp acc.2 p = false) :
    let res := ibrRun aws r.start r.last (r.start / 64) (r.last / 64 + 1 - r.start / 64) acc
    WordsWF res.2 ∧
    (∀ p, p < 65536 → bitp res.2 p = (bitp acc.2 p || (bitp aws p && inIv r p))) ∧
    res.1 = acc.1 + cnt (fun p => bitp aws p && inIv r p) 0 65536 := by
  have hc : r.start / 64 + (r.last / 64 + 1 - r.start / 64) = r.last / 64 + 1 := by omega
  have B := ibrRun_bits ha r.start r.last hr.1 hr.2 _ (r.start / 64) acc hw (Nat.le_refl _) hc
    (fun p _ h2 _ => hold p h2)
  have Nn := ibrRun_n ha r.start r.last hr.1 hr.2 _ (r.start / 64) acc (Nat.le_refl _) hc
  refine ⟨B.1, fun p hp => ?_, ?_⟩
  · rw [B.2 p hp]
    unfold inTail inIv
    have : decide (64 * (r.start / 64) ≤ p ∧ r.start ≤ p ∧ p ≤ r.last) = decide (r.start ≤ p ∧ p ≤ r.last) := by
      rw [decide_eq_decide]; omega
    rw [this]
  · have Nn' : (ibrRun aws r.start r.last (r.start / 64) (r.last / 64 + 1 - r.start / 64) acc).1
        = acc.1 + cnt (fun p => bitp aws p && inIv r p) (64 * (r.start / 64)) (64 * (r.last / 64 + 1)) := by
      rw [Nn, hc]; rfl
    rw [Nn']
    congr 1
    rw [cnt_split (fun p => bitp aws p && inIv r p) (s := 0) (m := 64 * (r.start / 64)) (e := 65536) (by omega) (by omega),
      cnt_split (fun p => bitp aws p && inIv r p) (s := 64 * (r.start / 64)) (m := 64 * (r.last / 64 + 1)) (e := 65536)
        (by omega) (by omega)]
    have z1 : cnt (fun p => bitp aws p && inIv r p) 0 (64 * (r.start / 64)) = 0 := by
      apply cnt_false; intro p _ hp
      have : inIv r p = false := by unfold inIv; simp; omega
      rw [this]; simp
    have z2 : cnt (fun p => bitp aws p && inIv r p) (64 * (r.last / 64 + 1)) 65536 = 0 := by
      apply cnt_false; intro p hp _
      have : inIv r p = false := by unfold inIv; simp; omega
      rw [this]; simp
    rw [z1, z2]; omega

/-! ### all runs -/

theorem wIntersectRuns_fold {aws : List Nat} (ha : WordsWF aws) (rb : List Iv) :
    ∀ (acc : Nat × List Nat) (B : Nat), WordsWF acc.2 → RunsWF rb → (∀ p, B ≤ p → bitp acc.2 p = false) →
      (∀ r ∈ rb, B ≤ r.start) →
      let res := rb.foldl (fun acc r => ibrRun aws r.start r.last (r.start / 64) (r.last / 64 + 1 - r.start / 64) acc) acc
      WordsWF res.2 ∧
      (∀ p, p < 65536 → bitp res.2 p = (bitp acc.2 p || (bitp aws p && inRuns rb p))) ∧
      res.1 = acc.1 + cnt (fun p => bitp aws p && inRuns rb p) 0 65536 := by
  induction rb with
  | nil =>
    intro acc B hw _ _ _
    refine ⟨hw, fun p _ => by simp, ?_⟩
    simp only [List.foldl_nil, inRuns_nil, Bool.and_false]
    rw [cnt_false (fun _ _ _ => rfl)]; rfl
  | cons r rest ih =>
    intro acc B hw hr hold hB
    have hv := RunsWF.head hr
    have hgt := RunsWF.gt hr
    have S := ibrRun_spec ha r hv acc hw (fun p hp => hold p (by have := hB r (by simp); omega))
    simp only [] at S
    rw [List.foldl_cons]
    have IH := ih _ (r.last + 1) S.1 (RunsWF.tail hr) (by
      intro p hp
      by_cases hp' : p < 65536
      · rw [S.2.1 p hp', hold p (by have := hB r (by simp); omega)]
        have : inIv r p = false := by unfold inIv; simp; omega
        rw [this]; simp
      · -- beyond the container no word exists
        unfold bitp
        rw [List.getD_eq_getElem?_getD, List.getElem?_eq_none (by rw [S.1.1]; omega)]
        simp) (fun x hx => by have := hgt x hx; omega)
    simp only [] at IH
    refine ⟨IH.1, fun p hp => ?_, ?_⟩
    · rw [IH.2.1 p hp, S.2.1 p hp, inRuns_cons]
      cases bitp acc.2 p <;> cases bitp aws p <;> cases inIv r p <;> cases inRuns rest p <;> rfl
    · rw [IH.2.2, S.2.2, Nat.add_assoc]
      congr 1
      rw [← cnt_or_disjoint]
      · apply cnt_congr
        intro p _ _
        rw [inRuns_cons]
        cases bitp aws p <;> cases inIv r p <;> cases inRuns rest p <;> rfl
      · intro p _ _ ⟨h1, h2⟩
        rw [Bool.and_eq_true] at h1 h2
        have hi := (inIv_iff r p).mp h1.2
        have : inRuns rest p = false := by
          apply inRuns_false_of_lt
          intro iv hiv; have := hgt iv hiv; omega
        rw [this] at h2; exact absurd h2.2 (by simp)

theorem replicate_wf : WordsWF (List.replicate 1024 0) :=
  ⟨List.length_replicate, fun w hw => by rw [List.eq_of_mem_replicate hw]; exact Nat.two_pow_pos 64⟩

theorem getD_replicate_zero (n k : Nat) : (List.replicate n 0).getD k 0 = 0 := by
  rw [List.getD_eq_getElem?_getD]
  cases h : (List.replicate n 0)[k]? with
  | none => rfl
  | some w =>
    have := List.mem_of_getElem? h
    rw [List.eq_of_mem_replicate this]; rfl

theorem bitp_replicate (p : Nat) : bitp (List.replicate 1024 0) p = false := by
  unfold bitp
  rw [getD_replicate_zero]; exact Nat.zero_testBit _

/-- the bitmap branch of `intersectBitmapRun` (word by word, four mask cases, `=` for a fully
covered word and `|=` otherwise, `n += popcount(bits)`) refines the set-level intersection. -/
theorem wIntersectRuns_refines {aws : List Nat} {rb : List Iv} (ha : WordsWF aws) (hr : RunsWF rb) :
    WordsWF (wIntersectRuns aws rb).2 ∧
    absW (wIntersectRuns aws rb).2 = Spec.inter (absW aws) (runValues rb) ∧
    (wIntersectRuns aws rb).1 = (absW (wIntersectRuns aws rb).2).length := by
  have F : WordsWF (wIntersectRuns aws rb).2 ∧
      (∀ p, p < 65536 → bitp (wIntersectRuns aws rb).2 p
        = (bitp (List.replicate 1024 0) p || (bitp aws p && inRuns rb p))) ∧
      (wIntersectRuns aws rb).1 = 0 + cnt (fun p => bitp aws p && inRuns rb p) 0 65536 :=
    wIntersectRuns_fold ha rb (0, List.replicate 1024 0) 0 replicate_wf hr
      (fun p _ => bitp_replicate p) (fun _ _ => Nat.zero_le _)
  have hrs := runValues_sorted hr
  have hbits : ∀ p, p < 65536 → bitp (wIntersectRuns aws rb).2 p = (bitp aws p && inRuns rb p) := by
    intro p hp
    have := F.2.1 p hp
    rw [bitp_replicate] at this
    simpa using this
  refine ⟨F.1, absW_ext F.1 (sorted_inter (sorted_absW aws) hrs) (inter_lt (absW_lt ha) (runValues_lt hr)) ?_, ?_⟩
  · intro p hp
    rw [hbits p hp, mem_inter (sorted_absW aws) hrs, Bool.and_eq_true, bitp_iff_absW ha p hp, mem_runValues]
  · have hn : (wIntersectRuns aws rb).1 = 0 + cnt (fun p => bitp aws p && inRuns rb p) 0 65536 := F.2.2
    rw [hn, Nat.zero_add, card_eq_cnt F.1]
    apply cnt_congr
    intro p _ hp
    exact (hbits p hp).symm

end PV.C01
