/-
C01 helper lemmas, part 2: run lists — membership, values, cardinality, `runAppendInterval` /
`appendAll`, `runCountRange`, `arrayCountRange`.  Core Lean only.
-/
import PV.C01.Model
import PV.C01.Lemmas
namespace PV.C01
open Spec

/-! ### membership in a run list -/

def inIv (iv : Iv) (v : Nat) : Bool := decide (iv.start ≤ v ∧ v ≤ iv.last)

def inRuns (ivs : List Iv) (v : Nat) : Bool := ivs.any (fun iv => inIv iv v)

@[simp] theorem inRuns_nil (v : Nat) : inRuns [] v = false := rfl
@[simp] theorem inRuns_cons (iv : Iv) (ivs : List Iv) (v : Nat) :
    inRuns (iv :: ivs) v = (inIv iv v || inRuns ivs v) := by simp [inRuns]

theorem inRuns_append (a b : List Iv) (v : Nat) : inRuns (a ++ b) v = (inRuns a v || inRuns b v) := by
  simp [inRuns, List.any_append]

theorem inRuns_reverse (a : List Iv) (v : Nat) : inRuns a.reverse v = inRuns a v := by
  simp [inRuns, List.any_reverse]

theorem inIv_iff (iv : Iv) (v : Nat) : inIv iv v = true ↔ iv.start ≤ v ∧ v ≤ iv.last := by
  simp [inIv]

theorem mem_rangeIncl (s l v : Nat) : v ∈ rangeIncl s l ↔ s ≤ v ∧ v ≤ l := by
  unfold rangeIncl
  rw [List.mem_range']
  constructor
  · rintro ⟨i, hi, rfl⟩; omega
  · intro h; exact ⟨v - s, by omega, by omega⟩

theorem mem_runValues (ivs : List Iv) (v : Nat) : v ∈ runValues ivs ↔ inRuns ivs v = true := by
  induction ivs with
  | nil => simp [runValues]
  | cons iv rest ih =>
    simp only [runValues, List.mem_append, mem_rangeIncl, inRuns_cons, Bool.or_eq_true, inIv_iff, ih]

/-- the first run of a well-formed list is valid. -/
theorem RunsWF.head {a : Iv} {rest : List Iv} (h : RunsWF (a :: rest)) : a.start ≤ a.last ∧ a.last ≤ 65535 := by
  induction rest generalizing a with
  | nil => exact h
  | cons b t ih =>
    have hb := ih h.2.2
    exact ⟨h.1, by have := h.2.1; omega⟩

theorem RunsWF.tail {a : Iv} {rest : List Iv} (h : RunsWF (a :: rest)) : RunsWF rest := by
  cases rest with
  | nil => trivial
  | cons b t => exact h.2.2

/-- every later run starts after the first run's last. -/
theorem RunsWF.gt {a : Iv} {rest : List Iv} (h : RunsWF (a :: rest)) : ∀ iv ∈ rest, a.last < iv.start := by
  induction rest generalizing a with
  | nil => intro iv hiv; cases hiv
  | cons b t ih =>
    intro iv hiv
    rcases List.mem_cons.mp hiv with e | hiv
    · subst e; exact h.2.1
    · have := ih h.2.2 iv hiv
      have hb := RunsWF.head h.2.2
      have := h.2.1
      omega

theorem RunsWF.valid {ivs : List Iv} (h : RunsWF ivs) : ∀ iv ∈ ivs, iv.start ≤ iv.last ∧ iv.last ≤ 65535 := by
  induction ivs with
  | nil => intro iv hiv; cases hiv
  | cons a t ih =>
    intro iv hiv
    rcases List.mem_cons.mp hiv with e | hiv
    · subst e; exact RunsWF.head h
    · exact ih (RunsWF.tail h) iv hiv

theorem RunsWF.cons {a : Iv} {rest : List Iv} (ha : a.start ≤ a.last ∧ a.last ≤ 65535)
    (hr : RunsWF rest) (hgt : ∀ iv ∈ rest, a.last < iv.start) : RunsWF (a :: rest) := by
  cases rest with
  | nil => exact ha
  | cons b t => exact ⟨ha.1, hgt b (by simp), hr⟩

theorem inRuns_false_of_lt {ivs : List Iv} {v : Nat} (h : ∀ iv ∈ ivs, v < iv.start) : inRuns ivs v = false := by
  induction ivs with
  | nil => rfl
  | cons a t ih =>
    rw [inRuns_cons, ih (fun iv hiv => h iv (by simp [hiv]))]
    have := h a (by simp)
    simp [inIv]; omega

/-- `runContains` (binary search for the first run with `last ≥ v`) is membership. -/
theorem runContains_eq {ivs : List Iv} (h : RunsWF ivs) (v : Nat) : runContains ivs v = inRuns ivs v := by
  induction ivs with
  | nil => rfl
  | cons a t ih =>
    unfold runContains
    rw [List.find?_cons]
    by_cases hl : a.last ≥ v
    · simp only [hl, decide_true]
      rw [inRuns_cons]
      have : inRuns t v = false := by
        apply inRuns_false_of_lt
        intro iv hiv; have := RunsWF.gt h iv hiv; omega
      rw [this]; simp [inIv]; intro _; exact hl
    · have hl' : decide (a.last ≥ v) = false := by simp; omega
      simp only [hl']
      have := ih (RunsWF.tail h)
      unfold runContains at this
      rw [this, inRuns_cons]
      have : inIv a v = false := by simp [inIv]; omega
      rw [this]; simp

theorem runValues_sorted {ivs : List Iv} (h : RunsWF ivs) : Sorted (runValues ivs) := by
  induction ivs with
  | nil => trivial
  | cons a t ih =>
    unfold runValues
    apply sorted_append (sorted_range' _ _) (ih (RunsWF.tail h))
    intro x hx y hy
    have hx := (mem_rangeIncl a.start a.last x).mp hx
    rw [mem_runValues] at hy
    simp only [inRuns, List.any_eq_true] at hy
    rcases hy with ⟨iv, hiv, hy⟩
    rw [inIv_iff] at hy
    have := RunsWF.gt h iv hiv
    omega

theorem runValues_lt {ivs : List Iv} (h : RunsWF ivs) : ∀ v ∈ runValues ivs, v < 65536 := by
  intro v hv
  rw [mem_runValues] at hv
  simp only [inRuns, List.any_eq_true] at hv
  rcases hv with ⟨iv, hiv, hv⟩
  rw [inIv_iff] at hv
  have := RunsWF.valid h iv hiv
  omega

theorem runValues_length {ivs : List Iv} (h : ∀ iv ∈ ivs, iv.start ≤ iv.last) :
    (runValues ivs).length = runsCard ivs := by
  induction ivs with
  | nil => rfl
  | cons a t ih =>
    have := h a (by simp)
    simp only [runValues, runsCard, List.length_append, rangeIncl, List.length_range']
    rw [ih (fun iv hiv => h iv (by simp [hiv]))]
    omega

theorem runsCard_append (a b : List Iv) : runsCard (a ++ b) = runsCard a + runsCard b := by
  induction a with
  | nil => simp [runsCard]
  | cons x t ih => simp only [List.cons_append, runsCard, ih]; omega

theorem runsCard_reverse (a : List Iv) : runsCard a.reverse = runsCard a := by
  induction a with
  | nil => rfl
  | cons x t ih => simp only [List.reverse_cons, runsCard_append, ih, runsCard]; omega

/-! ### runAppendInterval on the reversed run list -/

/-- well-formedness of the reversed list (head = last run). -/
def RevWF : List Iv → Prop
  | [] => True
  | [a] => a.start ≤ a.last ∧ a.last ≤ 65535
  | a :: b :: rest => a.start ≤ a.last ∧ a.last ≤ 65535 ∧ b.last < a.start ∧ RevWF (b :: rest)

theorem RevWF.tail {a : Iv} {rest : List Iv} (h : RevWF (a :: rest)) : RevWF rest := by
  cases rest with
  | nil => trivial
  | cons b t => exact h.2.2.2

theorem RevWF.head {a : Iv} {rest : List Iv} (h : RevWF (a :: rest)) : a.start ≤ a.last ∧ a.last ≤ 65535 := by
  cases rest with
  | nil => exact h
  | cons b t => exact ⟨h.1, h.2.1⟩

theorem runsWF_append_single {l : List Iv} {a : Iv} (hl : RunsWF l) (ha : a.start ≤ a.last ∧ a.last ≤ 65535)
    (h : ∀ iv ∈ l, iv.last < a.start) : RunsWF (l ++ [a]) := by
  induction l with
  | nil => exact ha
  | cons x t ih =>
    rw [List.cons_append]
    apply RunsWF.cons (RunsWF.head hl) (ih (RunsWF.tail hl) (fun iv hiv => h iv (by simp [hiv])))
    intro iv hiv
    rcases List.mem_append.mp hiv with hiv | hiv
    · exact RunsWF.gt hl iv hiv
    · simp at hiv; subst hiv; exact h x (by simp)

theorem RevWF.lt {a : Iv} {rest : List Iv} (h : RevWF (a :: rest)) : ∀ iv ∈ rest, iv.last < a.start := by
  induction rest generalizing a with
  | nil => intro iv hiv; cases hiv
  | cons b t ih =>
    intro iv hiv
    rcases List.mem_cons.mp hiv with e | hiv
    · subst e; exact h.2.2.1
    · have := ih h.2.2.2 iv hiv
      have := RevWF.head h.2.2.2
      have := h.2.2.1
      omega

theorem runsWF_reverse {r : List Iv} (h : RevWF r) : RunsWF r.reverse := by
  induction r with
  | nil => trivial
  | cons a t ih =>
    rw [List.reverse_cons]
    apply runsWF_append_single (ih (RevWF.tail h)) (RevWF.head h)
    intro iv hiv
    exact RevWF.lt h iv (List.mem_reverse.mp hiv)

theorem rai_full {last v : Iv} {rest : List Iv} (h : last.last = 65535) :
    runAppendInterval (last :: rest) v = (last :: rest, 0) := by
  simp [runAppendInterval, h]

theorem rai_extend {last v : Iv} {rest : List Iv} (h1 : last.last ≠ 65535)
    (h2 : last.last + 1 ≥ v.start ∧ v.last > last.last) :
    runAppendInterval (last :: rest) v = (⟨last.start, v.last⟩ :: rest, v.last - last.last) := by
  simp only [runAppendInterval]
  rw [if_neg h1, if_pos h2]

theorem rai_append {last v : Iv} {rest : List Iv} (h1 : last.last ≠ 65535)
    (h2 : ¬ (last.last + 1 ≥ v.start ∧ v.last > last.last)) (h3 : last.last + 1 < v.start) :
    runAppendInterval (last :: rest) v = (v :: last :: rest, v.last - v.start + 1) := by
  simp only [runAppendInterval]
  rw [if_neg h1, if_neg h2, if_pos h3]

theorem rai_inside {last v : Iv} {rest : List Iv} (h1 : last.last ≠ 65535)
    (h2 : ¬ (last.last + 1 ≥ v.start ∧ v.last > last.last)) (h3 : ¬ last.last + 1 < v.start) :
    runAppendInterval (last :: rest) v = (last :: rest, 0) := by
  simp only [runAppendInterval]
  rw [if_neg h1, if_neg h2, if_neg h3]

/-- one `runAppendInterval` step. `hs`: the new interval does not start before the last run. -/
theorem runAppendInterval_spec {racc : List Iv} {v : Iv} (hw : RevWF racc)
    (hv : v.start ≤ v.last ∧ v.last ≤ 65535) (hs : ∀ l ∈ racc.head?, l.start ≤ v.start) :
    RevWF (runAppendInterval racc v).1 ∧
    runsCard (runAppendInterval racc v).1 = runsCard racc + (runAppendInterval racc v).2 ∧
    (∀ x, inRuns (runAppendInterval racc v).1 x = (inRuns racc x || inIv v x)) ∧
    (∀ l ∈ (runAppendInterval racc v).1.head?, l.start ≤ v.start) := by
  cases racc with
  | nil =>
    simp only [runAppendInterval]
    refine ⟨hv, by simp [runsCard], by intro x; simp, by simp⟩
  | cons last rest =>
    have hl := RevWF.head hw
    have hsl : last.start ≤ v.start := hs last (by simp)
    by_cases h1 : last.last = 65535
    · rw [rai_full h1]
      refine ⟨hw, by simp, ?_, by simpa using hsl⟩
      intro x
      rw [inRuns_cons]
      have : inIv v x = true → inIv last x = true := by
        simp only [inIv_iff]; omega
      cases hx : inIv v x <;> cases hy : inIv last x <;> simp_all
    · by_cases h2 : last.last + 1 ≥ v.start ∧ v.last > last.last
      · rw [rai_extend h1 h2]
        refine ⟨?_, ?_, ?_, by simpa using hsl⟩
        · cases rest with
          | nil => exact ⟨by simp; omega, by simp; omega⟩
          | cons b t => exact ⟨by simp; omega, by simp; omega, hw.2.2.1, hw.2.2.2⟩
        · simp only [runsCard]; omega
        · intro x
          simp only [inRuns_cons]
          have : inIv ⟨last.start, v.last⟩ x = (inIv last x || inIv v x) := by
            simp only [inIv]
            rw [← Bool.decide_or, decide_eq_decide]
            omega
          rw [this]
          cases inIv last x <;> cases inIv v x <;> cases inRuns rest x <;> rfl
      · by_cases h3 : last.last + 1 < v.start
        · rw [rai_append h1 h2 h3]
          refine ⟨⟨hv.1, hv.2, by omega, hw⟩, by simp only [runsCard]; omega, ?_, by simp⟩
          intro x
          simp only [inRuns_cons]
          cases inIv last x <;> cases inIv v x <;> cases inRuns rest x <;> rfl
        · rw [rai_inside h1 h2 h3]
          refine ⟨hw, by simp, ?_, by simpa using hsl⟩
          intro x
          rw [inRuns_cons]
          have : inIv v x = true → inIv last x = true := by
            simp only [inIv_iff]; omega
          cases hx : inIv v x <;> cases hy : inIv last x <;> simp_all

/-- what may be handed to `runAppendInterval` in sequence: valid intervals, starts non-decreasing. -/
def EmitOK : List Iv → Prop
  | [] => True
  | [a] => a.start ≤ a.last ∧ a.last ≤ 65535
  | a :: b :: rest => a.start ≤ a.last ∧ a.last ≤ 65535 ∧ a.start ≤ b.start ∧ EmitOK (b :: rest)

theorem EmitOK.head {a : Iv} {rest : List Iv} (h : EmitOK (a :: rest)) : a.start ≤ a.last ∧ a.last ≤ 65535 := by
  cases rest with
  | nil => exact h
  | cons b t => exact ⟨h.1, h.2.1⟩

theorem EmitOK.tail {a : Iv} {rest : List Iv} (h : EmitOK (a :: rest)) : EmitOK rest := by
  cases rest with
  | nil => trivial
  | cons b t => exact h.2.2.2

theorem EmitOK.cons {a : Iv} {rest : List Iv} (ha : a.start ≤ a.last ∧ a.last ≤ 65535)
    (hr : EmitOK rest) (hs : ∀ b ∈ rest.head?, a.start ≤ b.start) : EmitOK (a :: rest) := by
  cases rest with
  | nil => exact ha
  | cons b t => exact ⟨ha.1, ha.2, hs b (by simp), hr⟩

theorem foldl_appendStep_spec (ivs : List Iv) :
    ∀ (racc : List Iv) (n : Nat), RevWF racc → EmitOK ivs → n = runsCard racc →
      (∀ l ∈ racc.head?, ∀ v ∈ ivs.head?, l.start ≤ v.start) →
      RevWF (ivs.foldl appendStep (racc, n)).1 ∧
      (ivs.foldl appendStep (racc, n)).2 = runsCard (ivs.foldl appendStep (racc, n)).1 ∧
      ∀ x, inRuns (ivs.foldl appendStep (racc, n)).1 x = (inRuns racc x || inRuns ivs x) := by
  induction ivs with
  | nil => intro racc n hw _ hn _; simp [hw, hn]
  | cons v rest ih =>
    intro racc n hw he hn hs
    rw [List.foldl_cons]
    have hv := EmitOK.head he
    have hstep := runAppendInterval_spec hw hv (fun l hl => hs l hl v (by simp))
    have := ih (appendStep (racc, n) v).1 (appendStep (racc, n) v).2 hstep.1 (EmitOK.tail he)
      (by simp only [appendStep]; rw [hstep.2.1]; omega)
      (by
        intro l hl w hw'
        have h1 := hstep.2.2.2 l hl
        cases rest with
        | nil => simp at hw'
        | cons b t =>
          simp at hw'; subst hw'
          have := he.2.2.1
          omega)
    refine ⟨this.1, this.2.1, ?_⟩
    intro x
    rw [this.2.2 x]
    simp only [appendStep]
    rw [hstep.2.2.1 x, inRuns_cons]
    cases inRuns racc x <;> cases inIv v x <;> cases inRuns rest x <;> rfl

/-- `appendAll`: the run list built from an emitted sequence is well-formed, its `n` is its
cardinality and it contains exactly the emitted values. -/
theorem appendAll_spec {ivs : List Iv} (h : EmitOK ivs) :
    RunsWF (appendAll ivs).1 ∧ (appendAll ivs).2 = runsCard (appendAll ivs).1 ∧
    ∀ x, inRuns (appendAll ivs).1 x = inRuns ivs x := by
  have := foldl_appendStep_spec ivs [] 0 trivial h rfl (by simp)
  simp only [appendAll]
  refine ⟨runsWF_reverse this.1, by rw [runsCard_reverse]; exact this.2.1, ?_⟩
  intro x
  rw [inRuns_reverse, this.2.2 x]; simp

/-! ### countRange -/

theorem cnt_inRuns_cons {a : Iv} {rest : List Iv} (h : RunsWF (a :: rest)) (s e : Nat) :
    cnt (inRuns (a :: rest)) s e = cnt (inIv a) s e + cnt (inRuns rest) s e := by
  rw [← cnt_or_disjoint]
  · apply cnt_congr; intro v _ _; rw [inRuns_cons]
  · intro v _ _ ⟨h1, h2⟩
    rw [inIv_iff] at h1
    simp only [inRuns, List.any_eq_true] at h2
    rcases h2 with ⟨iv, hiv, h2⟩
    rw [inIv_iff] at h2
    have := RunsWF.gt h iv hiv
    omega

theorem cnt_inIv (a : Iv) (s e : Nat) (h : a.start ≤ a.last) :
    cnt (inIv a) s e = min (a.last + 1) e - max a.start s := by
  have := cnt_interval a.start a.last s e h
  unfold inIv
  exact this

/-- `runCountRange` with running count `n`: either nothing has been counted yet, or no remaining
run starts before the range start. -/
theorem runCountRange_spec (ivs : List Iv) :
    ∀ (n s e : Nat), RunsWF ivs → s ≤ e → (n = 0 ∨ ∀ iv ∈ ivs, s ≤ iv.start) →
      runCountRange ivs n s e = n + cnt (inRuns ivs) s e := by
  induction ivs with
  | nil =>
    intro n s e _ _ _
    simp only [runCountRange]
    rw [cnt_false (by intros; rfl)]; rfl
  | cons a rest ih =>
    intro n s e hw hse hn
    have ha := RunsWF.head hw
    have hgt := RunsWF.gt hw
    have hrest : ∀ iv ∈ rest, s ≤ iv.start ∨ a.last < s := by
      intro iv hiv
      have := hgt iv hiv
      omega
    rw [cnt_inRuns_cons hw, cnt_inIv a s e ha.1]
    simp only [runCountRange]
    by_cases h1 : a.last < s
    · rw [if_pos h1]
      rw [ih n s e (RunsWF.tail hw) hse (by
        rcases hn with h | h
        · exact Or.inl h
        · exact Or.inr (fun iv hiv => h iv (by simp [hiv])))]
      omega
    · rw [if_neg h1]
      have hrest0 : cnt (inRuns rest) s e = 0 ∨ True := Or.inr trivial
      by_cases h2 : e < a.start
      · rw [if_pos h2]
        have : cnt (inRuns rest) s e = 0 := by
          apply cnt_false
          intro v _ hv
          apply inRuns_false_of_lt
          intro iv hiv; have := hgt iv hiv; omega
        rw [this]; omega
      · rw [if_neg h2]
        by_cases h3 : a.start < s ∧ a.last ≥ e
        · rw [if_pos h3]
          have hn0 : n = 0 := by
            rcases hn with h | h
            · exact h
            · have := h a (by simp); omega
          have : cnt (inRuns rest) s e = 0 := by
            apply cnt_false
            intro v _ hv
            apply inRuns_false_of_lt
            intro iv hiv; have := hgt iv hiv; omega
          rw [this, hn0]; omega
        · rw [if_neg h3]
          have hnext : (∀ iv ∈ rest, s ≤ iv.start) := by
            intro iv hiv; have := hgt iv hiv; omega
          rw [ih _ s e (RunsWF.tail hw) hse (Or.inr hnext)]
          by_cases c1 : a.start ≥ s ∧ a.last < e
          · have c2 : ¬ (a.start < s ∧ a.last < e) := by omega
            have c3 : ¬ (a.start ≥ s ∧ a.last ≥ e) := by omega
            simp only [if_pos c1, if_neg c2, if_neg c3]; omega
          · by_cases c2 : a.start < s ∧ a.last < e
            · have c3 : ¬ (a.start ≥ s ∧ a.last ≥ e) := by omega
              simp only [if_neg c1, if_pos c2, if_neg c3]; omega
            · have c3 : a.start ≥ s ∧ a.last ≥ e := by omega
              simp only [if_neg c1, if_neg c2, if_pos c3]; omega

theorem arrayCountRange_eq (xs : List Nat) (h : Sorted xs) (s e : Nat) :
    arrayCountRange xs s e = cntList xs s e := by
  unfold arrayCountRange cntList
  induction xs with
  | nil => rfl
  | cons a t ih =>
    have hlt := sorted_lt h
    rw [List.dropWhile_cons, List.filter_cons]
    by_cases h1 : a < s
    · have : decide (a < s) = true := by simp [h1]
      rw [if_pos this, ih (sorted_tail h)]
      have : ¬ ((decide (s ≤ a) && decide (a < e)) = true) := by simp; omega
      rw [if_neg this]
    · have : ¬ (decide (a < s) = true) := by simp [h1]
      rw [if_neg this, List.takeWhile_cons]
      by_cases h2 : a < e
      · have : decide (a < e) = true := by simp [h2]
        rw [if_pos this]
        have : (decide (s ≤ a) && decide (a < e)) = true := by simp; omega
        rw [if_pos this, List.length_cons, List.length_cons]
        congr 1
        -- the tail: nothing is dropped any more
        have hd : t.dropWhile (fun x => decide (x < s)) = t := by
          cases t with
          | nil => rfl
          | cons b u =>
            rw [List.dropWhile_cons]
            have := hlt b (by simp)
            have : ¬ (decide (b < s) = true) := by simp; omega
            rw [if_neg this]
        have := ih (sorted_tail h)
        rw [hd] at this
        exact this
      · have : ¬ (decide (a < e) = true) := by simp [h2]
        rw [if_neg this]
        have : ¬ ((decide (s ≤ a) && decide (a < e)) = true) := by simp; omega
        rw [if_neg this]
        -- every later element is ≥ e
        have : List.filter (fun v => decide (s ≤ v) && decide (v < e)) t = [] := by
          rw [List.filter_eq_nil_iff]
          intro x hx
          have := hlt x hx
          simp; omega
        rw [this]

end PV.C01
