/-
C01 model, word level of the bitmap encoding (roaring.go: bitmapCountRange, bitmapSetRange,
bitmapZeroRange, bitmapXorRange, flipBitmap and the kernels built from them).

A bitmap container is its `[]uint64` of 1024 words; a word is a `Nat < 2^64`.  Go's uint64
operators: `>>` is `>>>`, `<<` is `shl` (shift, then truncate to 64 bits; a shift count ≥ 64 gives 0
as in Go), `|`, `&`, `^` are `|||`, `&&&`, `^^^`, `&^ m` is `andNot`, `^w` is `wnot`.
`popcount` (math/bits.OnesCount64) is modelled by its specification: the number of set bit
positions below 64.  `absW` maps the words to the set of bit positions, i.e. to the `bits` of the
set-level model `Container.bitmap n bits` of Model.lean; LemmasWords.lean proves that every kernel
here commutes with `absW`.
-/
import PV.C01.Model
namespace PV.C01

def shl (x k : Nat) : Nat := (x <<< k) % 2 ^ 64
def maxBitmap : Nat := 2 ^ 64 - 1
def wnot (w : Nat) : Nat := 2 ^ 64 - (w + 1)
def andNot (w m : Nat) : Nat := w &&& wnot m

/-- bits.OnesCount64. -/
def popcount (w : Nat) : Nat := Spec.cnt (fun i => w.testBit i) 0 64

/-- words have 64 bits, a container has 1024 of them. -/
def WordsWF (ws : List Nat) : Prop := ws.length = 1024 ∧ ∀ w ∈ ws, w < 2 ^ 64

/-- the bit positions of word number `k`. -/
def wordBits (k w : Nat) : List Nat :=
  ((List.range' 0 64).filter (fun b => w.testBit b)).map (fun b => 64 * k + b)

def absFrom : Nat → List Nat → List Nat
  | _, [] => []
  | k, w :: rest => wordBits k w ++ absFrom (k + 1) rest

/-- abstraction: the set of bit positions held by the words (ascending). -/
def absW (ws : List Nat) : List Nat := absFrom 0 ws

/-- concretisation used by the driver: the words holding a set of positions `< 65536`. -/
def wordsOf (bits : List Nat) : List Nat :=
  (bits.foldl (fun (a : Array Nat) b => a.modify (b / 64) (fun w => w ||| (1 <<< (b % 64))))
    (List.replicate 1024 0).toArray).toList

/-- sum of `popcount(bitmap[i])` for `c` words starting at `i`. -/
def sumPop (ws : List Nat) : Nat → Nat → Nat
  | _, 0 => 0
  | i, c + 1 => popcount (ws.getD i 0) + sumPop ws (i + 1) c

/-- `bitmapCountRange(start, end)`, branch for branch. -/
def wCountRange (ws : List Nat) (s e : Nat) : Nat :=
  let i := s / 64
  let j := e / 64
  if i = j then
    -- start and end fall in the same word
    popcount (shl (ws.getD i 0 >>> (s % 64)) ((64 - e % 64) + s % 64))
  else
    -- partial starting word
    let n0 := if s % 64 ≠ 0 then popcount (ws.getD i 0 >>> (s % 64)) else 0
    let i' := if s % 64 ≠ 0 then i + 1 else i
    -- words in between
    let mid := sumPop ws i' (j - i')
    -- partial ending word
    let last := if j < ws.length then popcount (shl (ws.getD j 0) (64 - e % 64)) else 0
    n0 + mid + last

/-- `X := maxBitmap << (i % 64)` and `Y := maxBitmap >> (63 - ((j - 1) % 64))`. -/
def maskX (i : Nat) : Nat := shl maxBitmap (i % 64)
def maskY (j : Nat) : Nat := maxBitmap >>> (63 - (j - 1) % 64)

/-- what `bitmapSetRange / ZeroRange / XorRange (i, j)` apply to word `k`:
`X & Y` when the range lies in one word, else `X` for the first word, all ones for the words in
between, `Y` for the last word; other words are not touched. -/
def rangeMask (i j k : Nat) : Nat :=
  let x := i / 64
  let y := (j - 1) / 64
  if x = y then (if k = x then maskX i &&& maskY j else 0)
  else if k = x then maskX i
  else if x < k ∧ k < y then maxBitmap
  else if k = y then maskY j
  else 0

def wSetRange (ws : List Nat) (i j : Nat) : List Nat := ws.mapIdx (fun k w => w ||| rangeMask i j k)
def wZeroRange (ws : List Nat) (i j : Nat) : List Nat := ws.mapIdx (fun k w => andNot w (rangeMask i j k))
def wXorRange (ws : List Nat) (i j : Nat) : List Nat := ws.mapIdx (fun k w => w ^^^ rangeMask i j k)

/-- the cardinality bookkeeping of `bitmapSetRange`: per touched word `popcount(mask) -
popcount(word & mask)` is added (`j - i`, `xcnt`, `64`, `ycnt` in the Go code). -/
def sumGain (ws : List Nat) (i j : Nat) : Nat → Nat → Nat
  | _, 0 => 0
  | k, c + 1 => (popcount (rangeMask i j k) - popcount (ws.getD k 0 &&& rangeMask i j k)) + sumGain ws i j (k + 1) c

def wSetRangeN (n : Nat) (ws : List Nat) (i j : Nat) : Nat :=
  n + sumGain ws i j (i / 64) ((j - 1) / 64 + 1 - i / 64)

/-- `bitmapZeroRange`: `n -= popcount(word & mask)` per touched word. -/
def sumLoss (ws : List Nat) (i j : Nat) : Nat → Nat → Nat
  | _, 0 => 0
  | k, c + 1 => popcount (ws.getD k 0 &&& rangeMask i j k) + sumLoss ws i j (k + 1) c

def wZeroRangeN (n : Nat) (ws : List Nat) (i j : Nat) : Nat :=
  n - sumLoss ws i j (i / 64) ((j - 1) / 64 + 1 - i / 64)

/-- `bitmapXorRange`: `n += popcount(word ^ mask) - popcount(word)` per touched word (signed in Go;
here the gains and the losses are summed separately). -/
def sumAfterXor (ws : List Nat) (i j : Nat) : Nat → Nat → Nat
  | _, 0 => 0
  | k, c + 1 => popcount (ws.getD k 0 ^^^ rangeMask i j k) + sumAfterXor ws i j (k + 1) c

def wXorRangeN (n : Nat) (ws : List Nat) (i j : Nat) : Nat :=
  n + sumAfterXor ws i j (i / 64) ((j - 1) / 64 + 1 - i / 64) - sumPop ws (i / 64) ((j - 1) / 64 + 1 - i / 64)

/-- `flipBitmap`: every word complemented. -/
def wFlip (ws : List Nat) : List Nat := ws.map wnot

/-- `unionBitmapRun` / `differenceBitmapRun` / `xorBitmapRun`: one range operation per run
`[start, last + 1)`. -/
def wUnionRuns (ws : List Nat) (rb : List Iv) : List Nat := rb.foldl (fun w r => wSetRange w r.start (r.last + 1)) ws
def wDiffRuns (ws : List Nat) (rb : List Iv) : List Nat := rb.foldl (fun w r => wZeroRange w r.start (r.last + 1)) ws
def wXorRuns (ws : List Nat) (rb : List Iv) : List Nat := rb.foldl (fun w r => wXorRange w r.start (r.last + 1)) ws

/-- the same with the cardinality bookkeeping of the Go code: `(n, words)`. -/
def wUnionRunsN (n : Nat) (ws : List Nat) (rb : List Iv) : Nat × List Nat :=
  rb.foldl (fun acc r => (wSetRangeN acc.1 acc.2 r.start (r.last + 1), wSetRange acc.2 r.start (r.last + 1))) (n, ws)
def wDiffRunsN (n : Nat) (ws : List Nat) (rb : List Iv) : Nat × List Nat :=
  rb.foldl (fun acc r => (wZeroRangeN acc.1 acc.2 r.start (r.last + 1), wZeroRange acc.2 r.start (r.last + 1))) (n, ws)
def wXorRunsN (n : Nat) (ws : List Nat) (rb : List Iv) : Nat × List Nat :=
  rb.foldl (fun acc r => (wXorRangeN acc.1 acc.2 r.start (r.last + 1), wXorRange acc.2 r.start (r.last + 1))) (n, ws)

/-- `flipBitmap` with `other.setN(other.count())`. -/
def wFlipN (ws : List Nat) : Nat × List Nat := (wCountRange (wFlip ws) 0 65536, wFlip ws)

/-- `intersectionCountBitmapRun`: `bitmapCountRange` per run. -/
def wIntersectionCountRuns (ws : List Nat) : List Iv → Nat
  | [] => 0
  | iv :: rest => wCountRange ws iv.start (iv.last + 1) + wIntersectionCountRuns ws rest

/-- the word-wise bitmap × bitmap kernels (`intersectBitmapBitmap`, `unionBitmapBitmap`,
`differenceBitmapBitmap`, `xorBitmapBitmap`): `ob[i] = ab[i] op bb[i]`, `n += popcount(ob[i])`. -/
def wZipN (op : Nat → Nat → Nat) (a b : List Nat) : Nat × List Nat :=
  let ob := List.zipWith op a b
  (sumPop ob 0 1024, ob)

def wAndN (a b : List Nat) : Nat × List Nat := wZipN (fun x y => x &&& y) a b
def wOrN (a b : List Nat) : Nat × List Nat := wZipN (fun x y => x ||| y) a b
def wAndNotN (a b : List Nat) : Nat × List Nat := wZipN andNot a b
def wXorN (a b : List Nat) : Nat × List Nat := wZipN (fun x y => x ^^^ y) a b

end PV.C01
