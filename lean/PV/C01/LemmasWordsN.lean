/-
C01 helper lemmas, part 13: the cardinality bookkeeping (`n`) of the word-level range kernels.
Core Lean only.
-/
import PV.C01.LemmasWords
namespace PV.C01
open Spec

/-! ### counting with Boolean combinations -/

theorem cnt_or_and (p q : Nat → Bool) (s e : Nat) :
    cnt (fun v => p v || q v) s e + cnt (fun v => p v && q v) s e = cnt p s e + cnt q s e := by
  unfold cnt
  generalize e - s = n
  induction n generalizing s with
  | zero => simp
  | succ n ih =>
    simp only [List.range'_succ, List.countP_cons]
    have := ih (s + 1)
    cases p s <;> cases q s <;> simp <;> omega

theorem cnt_and_not (p q : Nat → Bool) (s e : Nat) :
    cnt (fun v => p v && !q v) s e + cnt (fun v => p v && q v) s e = cnt p s e := by
  unfold cnt
  generalize e - s = n
  induction n generalizing s with
  | zero => simp
  | succ n ih =>
    simp only [List.range'_succ, List.countP_cons]
    have := ih (s + 1)
    cases p s <;> cases q s <;> simp <;> omega

theorem popcount_or_and (w m : Nat) : popcount (w ||| m) + popcount (w &&& m) = popcount w + popcount m := by
  unfold popcount
  have h := cnt_or_and (fun i => w.testBit i) (fun i => m.testBit i) 0 64
  have e1 : cnt (fun i => (w ||| m).testBit i) 0 64 = cnt (fun v => w.testBit v || m.testBit v) 0 64 :=
    cnt_congr (fun v _ _ => Nat.testBit_or w m v)
  have e2 : cnt (fun i => (w &&& m).testBit i) 0 64 = cnt (fun v => w.testBit v && m.testBit v) 0 64 :=
    cnt_congr (fun v _ _ => Nat.testBit_and w m v)
  rw [e1, e2]; exact h

theorem popcount_andNot (w m : Nat) (hm : m < 2 ^ 64) : popcount (andNot w m) + popcount (w &&& m) = popcount w := by
  unfold popcount andNot
  have h := cnt_and_not (fun i => w.testBit i) (fun i => m.testBit i) 0 64
  have e1 : cnt (fun i => (w &&& wnot m).testBit i) 0 64 = cnt (fun v => w.testBit v && !m.testBit v) 0 64 := by
    apply cnt_congr
    intro v _ hv
    rw [Nat.testBit_and, testBit_wnot hm]
    have : decide (v < 64) = true := by simp; omega
    rw [this]; rfl
  have e2 : cnt (fun i => (w &&& m).testBit i) 0 64 = cnt (fun v => w.testBit v && m.testBit v) 0 64 :=
    cnt_congr (fun v _ _ => Nat.testBit_and w m v)
  rw [e1, e2]; exact h

/-! ### sums of popcounts -/

theorem sumPop_add (ws : List Nat) : ∀ (a i b : Nat), sumPop ws i (a + b) = sumPop ws i a + sumPop ws (i + a) b := by
  intro a
  induction a with
  | zero => intro i b; simp [sumPop]
  | succ a ih =>
    intro i b
    have : a + 1 + b = (a + b) + 1 := by omega
    rw [this]
    simp only [sumPop]
    rw [ih (i + 1) b]
    have : i + 1 + a = i + (a + 1) := by omega
    rw [this]; omega

theorem sumPop_congr (ws ws' : List Nat) : ∀ (c i : Nat), (∀ k, i ≤ k → k < i + c → ws.getD k 0 = ws'.getD k 0) →
    sumPop ws i c = sumPop ws' i c := by
  intro c
  induction c with
  | zero => intro i _; rfl
  | succ c ih =>
    intro i h
    simp only [sumPop]
    rw [h i (Nat.le_refl _) (by omega), ih (i + 1) (fun k h1 h2 => h k (by omega) (by omega))]

/-- the total popcount is the cardinality of the abstraction. -/
theorem sumPop_total (ws : List Nat) : sumPop ws 0 ws.length = (absW ws).length := by
  rw [sumPop_spec, Nat.mul_zero, Nat.zero_add, ← cnt_absW ws 0 (64 * ws.length) (Nat.le_refl _),
    ← cntList_eq_cnt (sorted_absW ws)]
  unfold cntList
  have : (absW ws).filter (fun v => decide (0 ≤ v) && decide (v < 64 * ws.length)) = absW ws := by
    rw [List.filter_eq_self]
    intro v hv
    have := ((mem_absW ws v).mp hv).1
    simp only [Nat.zero_le, decide_true, Bool.true_and, decide_eq_true_eq]
    exact this
  rw [this]

theorem rangeMask_outside (i j k : Nat) (hij : i < j) (hk : k < i / 64 ∨ (j - 1) / 64 < k) : rangeMask i j k = 0 := by
  unfold rangeMask
  simp only []
  have hxy : i / 64 ≤ (j - 1) / 64 := by omega
  split
  · rw [if_neg (by omega)]
  · rw [if_neg (by omega), if_neg (by omega), if_neg (by omega)]

/-- a word-wise operation that leaves words with a zero mask alone only changes the words
`x .. y` of the range; the total popcount changes by the difference over those words. -/
theorem total_mapIdx (ws : List Nat) (op : Nat → Nat → Nat) (hop : ∀ w, op w 0 = w) (i j : Nat) (hij : i < j)
    (hj : j ≤ 64 * ws.length) :
    sumPop (ws.mapIdx (fun k w => op w (rangeMask i j k))) 0 ws.length + sumPop ws (i / 64) ((j - 1) / 64 + 1 - i / 64)
      = sumPop ws 0 ws.length
        + sumPop (ws.mapIdx (fun k w => op w (rangeMask i j k))) (i / 64) ((j - 1) / 64 + 1 - i / 64) := by
  have hx : i / 64 ≤ (j - 1) / 64 := by omega
  have hy : (j - 1) / 64 + 1 ≤ ws.length := by omega
  have hlen : ws.length = i / 64 + (((j - 1) / 64 + 1 - i / 64) + (ws.length - ((j - 1) / 64 + 1))) := by omega
  have same : ∀ k, (k < i / 64 ∨ (j - 1) / 64 < k) →
      (ws.mapIdx (fun k w => op w (rangeMask i j k))).getD k 0 = ws.getD k 0 := by
    intro k hk
    by_cases hkl : k < ws.length
    · rw [getD_mapIdx (fun k w => op w (rangeMask i j k)) ws k hkl, rangeMask_outside i j k hij hk, hop]
    · rw [List.getD_eq_getElem?_getD, List.getD_eq_getElem?_getD, List.getElem?_eq_none (by rw [List.length_mapIdx]; omega),
        List.getElem?_eq_none (by omega)]
  generalize hws' : ws.mapIdx (fun k w => op w (rangeMask i j k)) = ws' at same ⊢
  conv => lhs; arg 1; rw [hlen]
  conv => rhs; arg 1; rw [hlen]
  rw [sumPop_add, sumPop_add, sumPop_add, sumPop_add, Nat.zero_add]
  have e1 : sumPop ws' 0 (i / 64) = sumPop ws 0 (i / 64) :=
    sumPop_congr ws' ws _ 0 (fun k _ h2 => same k (Or.inl (by omega)))
  have e2 : sumPop ws' (i / 64 + ((j - 1) / 64 + 1 - i / 64)) (ws.length - ((j - 1) / 64 + 1))
      = sumPop ws (i / 64 + ((j - 1) / 64 + 1 - i / 64)) (ws.length - ((j - 1) / 64 + 1)) :=
    sumPop_congr ws' ws _ _ (fun k h1 _ => same k (Or.inr (by omega)))
  rw [e1, e2]; omega

/-! ### bitmapSetRange / bitmapZeroRange / bitmapXorRange: the stored cardinality -/

theorem sumGain_spec (ws : List Nat) (i j : Nat) : ∀ (c k : Nat), k + c ≤ ws.length →
    sumPop (wSetRange ws i j) k c = sumPop ws k c + sumGain ws i j k c := by
  intro c
  induction c with
  | zero => intro k _; rfl
  | succ c ih =>
    intro k hk
    simp only [sumPop, sumGain]
    rw [ih (k + 1) (by omega)]
    unfold wSetRange
    rw [getD_mapIdx (fun k w => w ||| rangeMask i j k) ws k (by omega)]
    have := popcount_or_and (ws.getD k 0) (rangeMask i j k)
    have hle : popcount (ws.getD k 0 &&& rangeMask i j k) ≤ popcount (rangeMask i j k) := by
      unfold popcount
      apply cnt_mono
      intro v hv
      rw [Nat.testBit_and, Bool.and_eq_true] at hv
      exact hv.2
    omega

theorem wSetRangeN_spec {ws : List Nat} (h : WordsWF ws) (n i j : Nat) (hn : n = (absW ws).length)
    (hij : i < j) (hj : j ≤ 65536) : wSetRangeN n ws i j = (absW (wSetRange ws i j)).length := by
  have hj' : j ≤ 64 * ws.length := by rw [h.1]; omega
  have T := total_mapIdx ws (fun w m => w ||| m) (fun w => Nat.or_zero w) i j hij hj'
  have hl : (wSetRange ws i j).length = ws.length := by unfold wSetRange; rw [List.length_mapIdx]
  have G := sumGain_spec ws i j ((j - 1) / 64 + 1 - i / 64) (i / 64) (by omega)
  rw [← sumPop_total, hl]
  unfold wSetRangeN
  rw [hn, ← sumPop_total]
  unfold wSetRange at G ⊢
  omega

theorem sumLoss_spec (ws : List Nat) (i j : Nat) : ∀ (c k : Nat), k + c ≤ ws.length →
    sumPop (wZeroRange ws i j) k c + sumLoss ws i j k c = sumPop ws k c := by
  intro c
  induction c with
  | zero => intro k _; rfl
  | succ c ih =>
    intro k hk
    simp only [sumPop, sumLoss]
    have := ih (k + 1) (by omega)
    unfold wZeroRange at this ⊢
    rw [getD_mapIdx (fun k w => andNot w (rangeMask i j k)) ws k (by omega)]
    have hp := popcount_andNot (ws.getD k 0) (rangeMask i j k) (rangeMask_lt i j k)
    omega

theorem andNot_zero (w : Nat) (hw : w < 2 ^ 64) : andNot w 0 = w := by
  apply Nat.eq_of_testBit_eq
  intro b
  unfold andNot
  rw [Nat.testBit_and, testBit_wnot (Nat.two_pow_pos 64)]
  by_cases hb : b < 64
  · simp [hb]
  · rw [testBit_high hw (by omega)]; simp

theorem wZeroRangeN_spec {ws : List Nat} (h : WordsWF ws) (n i j : Nat) (hn : n = (absW ws).length)
    (hij : i < j) (hj : j ≤ 65536) : wZeroRangeN n ws i j = (absW (wZeroRange ws i j)).length := by
  have hj' : j ≤ 64 * ws.length := by rw [h.1]; omega
  have hl : (wZeroRange ws i j).length = ws.length := by unfold wZeroRange; rw [List.length_mapIdx]
  have L := sumLoss_spec ws i j ((j - 1) / 64 + 1 - i / 64) (i / 64) (by omega)
  -- `andNot w 0 = w` needs `w < 2^64`; go through an operation that is the identity on every word
  have T := total_mapIdx ws (fun w m => if m = 0 then w else andNot w m) (fun w => by simp) i j hij hj'
  have heq : ws.mapIdx (fun k w => (fun w m => if m = 0 then w else andNot w m) w (rangeMask i j k))
      = wZeroRange ws i j := by
    unfold wZeroRange
    apply List.ext_getElem?
    intro k
    rw [List.getElem?_mapIdx, List.getElem?_mapIdx]
    cases hk : ws[k]? with
    | none => rfl
    | some w =>
      simp only [Option.map_some]
      by_cases hm : rangeMask i j k = 0
      · rw [if_pos hm, hm, andNot_zero w (h.2 w (List.mem_of_getElem? hk))]
      · rw [if_neg hm]
  rw [heq] at T
  rw [← sumPop_total, hl]
  unfold wZeroRangeN
  rw [hn, ← sumPop_total]
  omega

theorem sumAfterXor_spec (ws : List Nat) (i j : Nat) : ∀ (c k : Nat), k + c ≤ ws.length →
    sumPop (wXorRange ws i j) k c = sumAfterXor ws i j k c := by
  intro c
  induction c with
  | zero => intro k _; rfl
  | succ c ih =>
    intro k hk
    simp only [sumPop, sumAfterXor]
    rw [ih (k + 1) (by omega)]
    unfold wXorRange
    rw [getD_mapIdx (fun k w => w ^^^ rangeMask i j k) ws k (by omega)]

theorem wXorRangeN_spec {ws : List Nat} (h : WordsWF ws) (n i j : Nat) (hn : n = (absW ws).length)
    (hij : i < j) (hj : j ≤ 65536) : wXorRangeN n ws i j = (absW (wXorRange ws i j)).length := by
  have hj' : j ≤ 64 * ws.length := by rw [h.1]; omega
  have T := total_mapIdx ws (fun w m => w ^^^ m) (fun w => Nat.xor_zero w) i j hij hj'
  have hl : (wXorRange ws i j).length = ws.length := by unfold wXorRange; rw [List.length_mapIdx]
  have A := sumAfterXor_spec ws i j ((j - 1) / 64 + 1 - i / 64) (i / 64) (by omega)
  rw [← sumPop_total, hl]
  unfold wXorRangeN
  rw [hn, ← sumPop_total]
  unfold wXorRange at A ⊢
  omega

/-! ### the run folds with bookkeeping -/

theorem wUnionRunsN_spec (rb : List Iv) : ∀ (n : Nat) (ws : List Nat), WordsWF ws → RunsWF rb → n = (absW ws).length →
    (wUnionRunsN n ws rb).2 = wUnionRuns ws rb ∧ (wUnionRunsN n ws rb).1 = (absW (wUnionRuns ws rb)).length := by
  induction rb with
  | nil => intro n ws _ _ hn; exact ⟨rfl, hn⟩
  | cons r rest ih =>
    intro n ws h hr hn
    have hv := RunsWF.head hr
    exact ih _ _ (wSetRange_wf h _ _) (RunsWF.tail hr) (wSetRangeN_spec h n _ _ hn (by omega) (by omega))

theorem wDiffRunsN_spec (rb : List Iv) : ∀ (n : Nat) (ws : List Nat), WordsWF ws → RunsWF rb → n = (absW ws).length →
    (wDiffRunsN n ws rb).2 = wDiffRuns ws rb ∧ (wDiffRunsN n ws rb).1 = (absW (wDiffRuns ws rb)).length := by
  induction rb with
  | nil => intro n ws _ _ hn; exact ⟨rfl, hn⟩
  | cons r rest ih =>
    intro n ws h hr hn
    have hv := RunsWF.head hr
    exact ih _ _ (wZeroRange_wf h _ _) (RunsWF.tail hr) (wZeroRangeN_spec h n _ _ hn (by omega) (by omega))

theorem wXorRunsN_spec (rb : List Iv) : ∀ (n : Nat) (ws : List Nat), WordsWF ws → RunsWF rb → n = (absW ws).length →
    (wXorRunsN n ws rb).2 = wXorRuns ws rb ∧ (wXorRunsN n ws rb).1 = (absW (wXorRuns ws rb)).length := by
  induction rb with
  | nil => intro n ws _ _ hn; exact ⟨rfl, hn⟩
  | cons r rest ih =>
    intro n ws h hr hn
    have hv := RunsWF.head hr
    exact ih _ _ (wXorRange_wf h _ _) (RunsWF.tail hr) (wXorRangeN_spec h n _ _ hn (by omega) (by omega))

/-- `flipBitmap`'s recount. -/
theorem wFlipN_spec {ws : List Nat} (h : WordsWF ws) : (wFlipN ws).1 = (absW (wFlipN ws).2).length := by
  have hf := wFlip_wf h
  show wCountRange (wFlip ws) 0 65536 = (absW (wFlip ws)).length
  rw [wCountRange_spec _ hf.2 0 65536 (by omega) (by rw [hf.1]; omega), ← sumPop_total, sumPop_spec, hf.1]


end PV.C01
