/-
C01 helper lemmas, part 5: the set denoted by a bitmap (`Bitmap.values`) and the container
collection.  Core Lean only.
-/
import PV.C01.Bitmap
import PV.C01.LemmasSem
namespace PV.C01
open Spec

/-- values of a list of (key, container) pairs, in list order. -/
def valuesL (l : List (Nat × Container)) : List Nat := l.flatMap (fun e => valuesOf e.1 e.2)

theorem Bitmap.values_eq (b : Bitmap) : b.values = valuesL b.live := rfl

@[simp] theorem valuesL_nil : valuesL [] = [] := rfl
@[simp] theorem valuesL_cons (e : Nat × Container) (l : List (Nat × Container)) :
    valuesL (e :: l) = valuesOf e.1 e.2 ++ valuesL l := by simp [valuesL]

theorem mem_valuesOf {k : Nat} {c : Container} (h : c.WF) (v : Nat) :
    v ∈ valuesOf k c ↔ (highbits v = k ∧ lowbits v ∈ c.values) := by
  unfold valuesOf highbits lowbits
  rw [List.mem_map]
  constructor
  · rintro ⟨w, hw, rfl⟩
    have := Container.values_lt h w hw
    have h1 : (k * 65536 + w) / 65536 = k := by omega
    have h2 : (k * 65536 + w) % 65536 = w := by omega
    rw [h1, h2]; exact ⟨rfl, hw⟩
  · rintro ⟨h1, h2⟩
    exact ⟨v % 65536, h2, by omega⟩

/-- keys strictly ascending. -/
def KeysSorted (l : List (Nat × Container)) : Prop := Sorted (l.map (·.1))

theorem KeysSorted.tail {e : Nat × Container} {l : List (Nat × Container)} (h : KeysSorted (e :: l)) :
    KeysSorted l := sorted_tail h

theorem KeysSorted.lt {e : Nat × Container} {l : List (Nat × Container)} (h : KeysSorted (e :: l)) :
    ∀ x ∈ l, e.1 < x.1 := by
  intro x hx
  exact sorted_lt h x.1 (List.mem_map.mpr ⟨x, hx, rfl⟩)

theorem mem_valuesL {l : List (Nat × Container)} (hw : ∀ e ∈ l, e.2.WF) (v : Nat) :
    v ∈ valuesL l ↔ ∃ e ∈ l, e.1 = highbits v ∧ lowbits v ∈ e.2.values := by
  induction l with
  | nil => simp
  | cons e t ih =>
    rw [valuesL_cons, List.mem_append, mem_valuesOf (hw e (by simp)), ih (fun x hx => hw x (by simp [hx]))]
    constructor
    · rintro (⟨h1, h2⟩ | ⟨x, hx, h1, h2⟩)
      · exact ⟨e, by simp, h1.symm, h2⟩
      · exact ⟨x, by simp [hx], h1, h2⟩
    · rintro ⟨x, hx, h1, h2⟩
      rcases List.mem_cons.mp hx with rfl | hx
      · exact Or.inl ⟨h1.symm, h2⟩
      · exact Or.inr ⟨x, hx, h1, h2⟩

theorem valuesOf_sorted {k : Nat} {c : Container} (h : c.WF) : Sorted (valuesOf k c) := by
  unfold valuesOf
  have := sorted_map_add (k * 65536) (Container.values_sorted h)
  exact this

theorem valuesL_sorted {l : List (Nat × Container)} (hk : KeysSorted l) (hw : ∀ e ∈ l, e.2.WF) :
    Sorted (valuesL l) := by
  induction l with
  | nil => trivial
  | cons e t ih =>
    rw [valuesL_cons]
    have hwt : ∀ x ∈ t, x.2.WF := fun x hx => hw x (by simp [hx])
    apply sorted_append (valuesOf_sorted (hw e (by simp))) (ih (KeysSorted.tail hk) hwt)
    intro x hx y hy
    rw [mem_valuesOf (hw e (by simp))] at hx
    rw [mem_valuesL hwt] at hy
    rcases hy with ⟨f, hf, h1, _⟩
    have := KeysSorted.lt hk f hf
    unfold highbits at hx h1
    omega

/-- the keys of `liveL cs` are keys of `cs`, in the same order. -/
theorem mem_liveL {cs : List Entry} {k : Nat} {c : Container} : (k, c) ∈ liveL cs ↔ (k, some c) ∈ cs := by
  induction cs with
  | nil => simp [liveL]
  | cons e t ih =>
    rcases e with ⟨k', oc⟩
    cases oc with
    | none => simp [liveL, ih]
    | some c' =>
      simp only [liveL, List.mem_cons, ih, Prod.mk.injEq, Option.some.injEq]

theorem KeysAsc.tail {e : Entry} {cs : List Entry} (h : KeysAsc (e :: cs)) : KeysAsc cs := by
  cases cs with
  | nil => trivial
  | cons b t => exact h.2

theorem KeysAsc.lt {e : Entry} {cs : List Entry} (h : KeysAsc (e :: cs)) : ∀ x ∈ cs, e.1 < x.1 := by
  induction cs generalizing e with
  | nil => intro x hx; cases hx
  | cons b t ih =>
    intro x hx
    rcases List.mem_cons.mp hx with rfl | hx
    · exact h.1
    · exact Nat.lt_trans h.1 (ih h.2 x hx)

theorem KeysAsc.le_max {cs : List Entry} (h : KeysAsc cs) : ∀ x ∈ cs, x.1 ≤ maxContainerKey := by
  induction cs with
  | nil => intro x hx; cases hx
  | cons a t ih =>
    intro x hx
    cases t with
    | nil => simp at hx; subst hx; exact h
    | cons b u =>
      rcases List.mem_cons.mp hx with rfl | hx
      · have := ih h.2 b (by simp); have := h.1; omega
      · exact ih h.2 x hx

theorem liveL_keysSorted {cs : List Entry} (h : KeysAsc cs) : KeysSorted (liveL cs) := by
  induction cs with
  | nil => trivial
  | cons e t ih =>
    rcases e with ⟨k, oc⟩
    cases oc with
    | none => exact ih (KeysAsc.tail h)
    | some c =>
      simp only [liveL]
      unfold KeysSorted
      rw [List.map_cons]
      apply sorted_cons (ih (KeysAsc.tail h))
      intro x hx
      rcases List.mem_map.mp hx with ⟨⟨k', c'⟩, hm, rfl⟩
      exact KeysAsc.lt h (k', some c') (mem_liveL.mp hm)

theorem Bitmap.live_keysSorted {b : Bitmap} (h : b.WF) : KeysSorted b.live := liveL_keysSorted h.1

theorem Bitmap.live_wf {b : Bitmap} (h : b.WF) : ∀ e ∈ b.live, e.2.WF := by
  intro e he
  rcases e with ⟨k, c⟩
  exact h.2.1 (k, some c) (mem_liveL.mp he)

theorem Bitmap.values_sorted {b : Bitmap} (h : b.WF) : Sorted b.values :=
  valuesL_sorted (Bitmap.live_keysSorted h) (Bitmap.live_wf h)

theorem Bitmap.mem_values {b : Bitmap} (h : b.WF) (v : Nat) :
    v ∈ b.values ↔ ∃ e ∈ b.live, e.1 = highbits v ∧ lowbits v ∈ e.2.values :=
  mem_valuesL (Bitmap.live_wf h) v

/-- in a key-sorted list a key determines its container. -/
theorem keysSorted_unique {l : List (Nat × Container)} (h : KeysSorted l) {k : Nat} {c d : Container}
    (hc : (k, c) ∈ l) (hd : (k, d) ∈ l) : c = d := by
  induction l with
  | nil => cases hc
  | cons e t ih =>
    rcases List.mem_cons.mp hc with rfl | hc' <;> rcases List.mem_cons.mp hd with hd' | hd'
    · exact (Prod.mk.inj hd').2.symm
    · have := KeysSorted.lt h _ hd'; simp at this
    · subst hd'; have := KeysSorted.lt h _ hc'; simp at this
    · exact ih (KeysSorted.tail h) hc' hd'

/-- `Containers.Get` finds the container stored under a key. -/
theorem Bitmap.get_eq {b : Bitmap} (h : b.WF) (k : Nat) (c : Container) :
    b.get k = some c ↔ (k, c) ∈ b.live := by
  unfold Bitmap.get Bitmap.live
  have hk := h.1
  generalize b.cs = cs at hk
  induction cs with
  | nil => simp [liveL]
  | cons e t ih =>
    rcases e with ⟨k', oc⟩
    rw [List.find?_cons]
    by_cases hkk : k' = k
    · subst hkk
      simp only [decide_true]
      have hnot : ∀ d, (k', d) ∉ liveL t := by
        intro d hd
        have := KeysAsc.lt hk (k', some d) (mem_liveL.mp hd)
        simp at this
      cases oc with
      | none => simp [liveL, hnot]
      | some c' => simp [liveL, hnot]; exact eq_comm
    · have : decide (k' = k) = false := by simp [hkk]
      simp only [this]
      refine Iff.trans (ih (KeysAsc.tail hk)) ?_
      cases oc with
      | none => simp [liveL]
      | some c' =>
        simp only [liveL, List.mem_cons, Prod.mk.injEq]
        constructor
        · intro hm; exact Or.inr hm
        · rintro (⟨e1, _⟩ | hm)
          · exact absurd e1.symm hkk
          · exact hm

end PV.C01
