/-
C01 property theorems: roaring bitmap reads and set operations match set semantics.

Full-strength statement (properties.jsonl C01): for every set of 64-bit integers in every
encoding, every read returns what the same read on the mathematical set returns and every set
operation returns the mathematical result.

Objects.  `Container` / `Bitmap` are the models of the Go data structures (Model.lean,
Bitmap.lean); `c.values` / `b.values` is the mathematical set a container / bitmap denotes (an
ascending duplicate-free list); `c.WF` / `b.WF` are the representation invariants (ascending
arrays, ascending non-overlapping runs, stored cardinality equal to the number of values, keys
ascending; empty and nil containers are allowed).  All theorems are unbounded (induction); the
helper lemmas live in Lemmas*.lean.

The bitmap encoding has two model levels: the set level (`Container.bitmap n bits`, used by the
dispatchers and the Bitmap layer) and the word level of Words.lean (1024 words of 64 bits with the
Go shift / mask / popcount arithmetic).  `C01_countRange_bitmap`, `C01_kernel_bitmap_words` and
`C01_kernel_flip` prove that the word-level kernels `bitmapCountRange`, `bitmapSetRange`,
`bitmapZeroRange`, `bitmapXorRange` (hence `unionBitmapRun`, `differenceBitmapRun`, `xorBitmapRun`,
`intersectionCountBitmapRun`) and `flipBitmap` commute with the abstraction `absW`, including the
stored cardinality.  What is still only modelled at set level is named in
`C01_kernel_bitmap_rest_partial` (see design/C01.md).
-/
import PV.C01.LemmasDispatch
import PV.C01.LemmasL2Iter
import PV.C01.LemmasL2Reads
import PV.C01.LemmasL2Shift
import PV.C01.LemmasDec
import PV.C01.LemmasFlip
import PV.C01.LemmasNary
import PV.C01.LemmasWords4
namespace PV.C01
open Spec

/-! ## Containers: membership and range count -/

/-- `Container.Contains` is membership in the denoted set (all three encodings; the run case is
the binary search `binSearchRuns`). -/
theorem C01_container_contains {c : Container} (h : c.WF) (v : Nat) :
    mem c v = decide (v ∈ c.values) := mem_eq h v

example : (Container.run 5 [⟨1, 3⟩, ⟨9, 10⟩]).WF ∧ (Container.array [1, 70]).WF ∧ (Container.bitmap 2 [0, 65535]).WF := by decide

/-- `runCountRange` (as coded after the fix) counts exactly the members of `[s, e)`:
`countRange (run c) s e = |{v | s ≤ v < e ∧ v ∈ c}|`.  This is the kernel whose boundary cases
(`run.start == start`, `run.last == end`) returned 0 before the fix. -/
theorem C01_countRange_run {n : Nat} {ivs : List Iv} (h : (Container.run n ivs).WF) (s e : Nat) (hse : s ≤ e) :
    (Container.run n ivs).countRange s e = cnt (fun v => mem (.run n ivs) v) s e := by
  rw [Container.countRange_spec h s e hse]
  exact cnt_congr (fun v _ _ => (mem_eq h v).symm)

example : (Container.run 3 [⟨1, 3⟩]).WF ∧ (1 : Nat) ≤ 3 := by decide

/-- the witness of the repaired defect, now with the right answer. -/
theorem C01_countRange_run_fixed_witness : (Container.run 3 [⟨1, 3⟩]).countRange 1 3 = 2 := by decide

theorem C01_countRange_array {xs : List Nat} (h : (Container.array xs).WF) (s e : Nat) (hse : s ≤ e) :
    (Container.array xs).countRange s e = cnt (fun v => mem (.array xs) v) s e := by
  rw [Container.countRange_spec h s e hse]
  exact cnt_congr (fun v _ _ => (mem_eq h v).symm)

example : (Container.array [1, 2, 3, 9]).WF := by decide

/-- bitmap encoding, WORD level: `bitmapCountRange` with its same-word case
`popcount((w >> offi) << (offj + offi))`, the partial first word `popcount(w >> off)`, the whole
words in between and the partial last word `popcount(w << off)` counts exactly the set positions
of `[s, e)`; and it is the set-level kernel on the abstraction.  (`e ≤ 65536`; the Go function
indexes word 1024 for `s = e = 65536`, which its callers never pass.) -/
theorem C01_countRange_bitmap {ws : List Nat} (h : WordsWF ws) (s e : Nat) (hse : s ≤ e) (he : e ≤ 65536) :
    wCountRange ws s e = cnt (fun v => decide (v ∈ absW ws)) s e ∧
    wCountRange ws s e = (Container.bitmap (absW ws).length (absW ws)).countRange s e := by
  have he' : e ≤ 64 * ws.length := by rw [h.1]; omega
  exact ⟨by rw [wCountRange_spec ws h.2 s e hse he', cnt_absW ws s e he'], wCountRange_refines h s e hse he⟩

/-- the abstraction of well-formed words is a well-formed set-level bitmap container. -/
theorem C01_words_abs {ws : List Nat} (h : WordsWF ws) : (Container.bitmap (absW ws).length (absW ws)).WF :=
  ⟨sorted_absW ws, absW_lt h, rfl⟩

example : WordsWF (List.replicate 1023 0 ++ [2 ^ 63 + 5]) := by
  refine ⟨by rw [List.length_append, List.length_replicate]; rfl, fun w hw => ?_⟩
  rcases List.mem_append.mp hw with h | h
  · rw [List.eq_of_mem_replicate h]; exact Nat.two_pow_pos 64
  · rw [List.mem_singleton.mp h]; decide

/-! ## Container kernels, per encoding pair (array and run kernels follow the Go loops) -/

section kernels
variable {xa xb : List Nat} {ra rb : List Iv} {na nb : Nat}

/-- intersectArrayArray. -/
theorem C01_kernel_intersect_array_array (ha : (Container.array xa).WF) (hb : (Container.array xb).WF) :
    (Container.array (intersectArrayArray (xa.length + xb.length + 1) xa xb)).WF ∧
    ∀ v, v ∈ intersectArrayArray (xa.length + xb.length + 1) xa xb ↔ (v ∈ xa ∧ v ∈ xb) := by
  have S := intersectArrayArray_spec (xa.length + xb.length + 1) xa xb ha.1 hb.1 (by omega)
  exact ⟨⟨S.1, fun v hv => ha.2 v ((S.2 v).mp hv).1⟩, S.2⟩

/-- intersectArrayRun. -/
theorem C01_kernel_intersect_array_run (ha : (Container.array xa).WF) (hb : (Container.run nb rb).WF) :
    (Container.array (intersectArrayRun (xa.length + rb.length + 1) xa rb)).WF ∧
    ∀ v, v ∈ intersectArrayRun (xa.length + rb.length + 1) xa rb ↔ (v ∈ xa ∧ v ∈ runValues rb) := by
  have S := intersectArrayRun_spec (xa.length + rb.length + 1) xa rb ha.1 hb.1 (by omega)
  refine ⟨⟨S.1, fun v hv => ha.2 v ((S.2 v).mp hv).1⟩, fun v => ?_⟩
  rw [S.2 v, mem_runValues]

/-- unionArrayArray. -/
theorem C01_kernel_union_array_array (ha : (Container.array xa).WF) (hb : (Container.array xb).WF) :
    (Container.array (unionArrayArray (xa.length + xb.length + 1) xa xb)).WF ∧
    ∀ v, v ∈ unionArrayArray (xa.length + xb.length + 1) xa xb ↔ (v ∈ xa ∨ v ∈ xb) := by
  have S := unionArrayArray_spec (xa.length + xb.length + 1) xa xb ha.1 hb.1 (by omega)
  refine ⟨⟨S.1, fun v hv => ?_⟩, S.2⟩
  rcases (S.2 v).mp hv with h | h
  · exact ha.2 v h
  · exact hb.2 v h

/-- differenceArrayArray (the output switches to a bitmap above 4096 values). -/
theorem C01_kernel_difference_array_array (ha : (Container.array xa).WF) (hb : (Container.array xb).WF) :
    (differenceArrayArray xa xb).WF ∧ ∀ v, v ∈ (differenceArrayArray xa xb).values ↔ (v ∈ xa ∧ v ∉ xb) := by
  have S := differenceArrayArrayL_spec (xa.length + xb.length + 1) xa xb ha.1 hb.1 (by omega)
  have A := arrayOrBitmap_spec S.1 (fun v hv => ha.2 v ((S.2 v).mp hv).1)
  refine ⟨A.1, fun v => ?_⟩
  unfold differenceArrayArray
  rw [A.2]; exact S.2 v

/-- differenceArrayRun. -/
theorem C01_kernel_difference_array_run (ha : (Container.array xa).WF) (hb : (Container.run nb rb).WF) :
    (Container.array (differenceArrayRun (xa.length + rb.length + 1) xa rb)).WF ∧
    ∀ v, v ∈ differenceArrayRun (xa.length + rb.length + 1) xa rb ↔ (v ∈ xa ∧ v ∉ runValues rb) := by
  have S := differenceArrayRun_spec (xa.length + rb.length + 1) xa rb ha.1 hb.1 (by omega)
  refine ⟨⟨S.1, fun v hv => ha.2 v ((S.2 v).mp hv).1⟩, fun v => ?_⟩
  rw [S.2 v, mem_runValues]; simp

/-- xorArrayArray. -/
theorem C01_kernel_xor_array_array (ha : (Container.array xa).WF) (hb : (Container.array xb).WF) :
    (Container.array (xorArrayArray (xa.length + xb.length + 1) xa xb)).WF ∧
    ∀ v, v ∈ xorArrayArray (xa.length + xb.length + 1) xa xb ↔ ((v ∈ xa ∧ v ∉ xb) ∨ (v ∉ xa ∧ v ∈ xb)) := by
  have S := xorArrayArray_spec (xa.length + xb.length + 1) xa xb ha.1 hb.1 (by omega)
  refine ⟨⟨S.1, fun v hv => ?_⟩, S.2⟩
  rcases (S.2 v).mp hv with h | h
  · exact ha.2 v h.1
  · exact hb.2 v h.2

example : (Container.array [0, 5, 4096]).WF ∧ (Container.array [5, 65535]).WF ∧ (Container.run 4 [⟨4, 6⟩, ⟨65535, 65535⟩]).WF := by decide

/-- intersectRunRun: the interval sequence it hands to `runAppendInterval` is admissible and covers
exactly the common values; the result container (array, bitmap or run) is well-formed. -/
theorem C01_kernel_intersect_run_run (ha : (Container.run na ra).WF) (hb : (Container.run nb rb).WF) :
    (intersectRunRun ra rb).WF ∧ ∀ v, v ∈ (intersectRunRun ra rb).values ↔ (v ∈ runValues ra ∧ v ∈ runValues rb) := by
  have h1 : (Container.run na ra).n ≠ 65536 ∨ True := Or.inr trivial
  have S := intersectRunRunEmit_spec (ra.length + rb.length + 1) ra rb ha.1 hb.1 (by omega)
  have E := appendAll_enc S.1
  have key : ∀ w, inRuns (intersectRunRunEmit (ra.length + rb.length + 1) ra rb) w = true ↔
      (w ∈ runValues ra ∧ w ∈ runValues rb) := by
    intro w; rw [S.2 w, mem_runValues, mem_runValues]; simp
  unfold intersectRunRun
  simp only []
  split
  · exact ⟨E.1.1, fun v => (E.1.2 v).trans (key v)⟩
  · split
    · exact ⟨E.2.1.1, fun v => (E.2.1.2 v).trans (key v)⟩
    · exact ⟨E.2.2.1, fun v => (E.2.2.2 v).trans (key v)⟩

/-- unionRunRun. -/
theorem C01_kernel_union_run_run (ha : (Container.run na ra).WF) (hb : (Container.run nb rb).WF) :
    (unionRunRun ra rb).WF ∧ ∀ v, v ∈ (unionRunRun ra rb).values ↔ (v ∈ runValues ra ∨ v ∈ runValues rb) := by
  have S := unionRunRunEmit_spec (ra.length + rb.length + 1) ra rb ha.1 hb.1 (by omega)
  have E := appendAll_enc S.1
  have key : ∀ w, inRuns (unionRunRunEmit (ra.length + rb.length + 1) ra rb) w = true ↔
      (w ∈ runValues ra ∨ w ∈ runValues rb) := by
    intro w; rw [S.2 w, mem_runValues, mem_runValues]; simp
  unfold unionRunRun
  simp only []
  split
  · exact ⟨E.2.1.1, fun v => (E.2.1.2 v).trans (key v)⟩
  · exact ⟨E.2.2.1, fun v => (E.2.2.2 v).trans (key v)⟩

/-- unionArrayRun. -/
theorem C01_kernel_union_array_run (ha : (Container.array xa).WF) (hb : (Container.run nb rb).WF) :
    (unionArrayRun xa rb).WF ∧ ∀ v, v ∈ (unionArrayRun xa rb).values ↔ (v ∈ xa ∨ v ∈ runValues rb) := by
  have S := unionArrayRunEmit_spec (xa.length + rb.length + 1) xa rb ha.1 ha.2 hb.1 (by omega)
  have E := appendAll_enc S.1
  have key : ∀ w, inRuns (unionArrayRunEmit (xa.length + rb.length + 1) xa rb) w = true ↔
      (w ∈ xa ∨ w ∈ runValues rb) := by
    intro w; rw [S.2 w, mem_runValues]; simp
  unfold unionArrayRun
  simp only []
  split
  · exact ⟨E.1.1, fun v => (E.1.2 v).trans (key v)⟩
  · split
    · exact ⟨E.2.1.1, fun v => (E.2.1.2 v).trans (key v)⟩
    · exact ⟨E.2.2.1, fun v => (E.2.2.2 v).trans (key v)⟩

/-- xorRunRun (the `xorCompare` state machine). -/
theorem C01_kernel_xor_run_run (ha : (Container.run na ra).WF) (hb : (Container.run nb rb).WF) :
    (xorRunRun ra rb).WF ∧ ∀ v, v ∈ (xorRunRun ra rb).values ↔
      ((v ∈ runValues ra ∧ v ∉ runValues rb) ∨ (v ∉ runValues ra ∧ v ∈ runValues rb)) := by
  have S := xorRunRunEmit_spec ra rb ha.1 hb.1 (4 * (ra.length + rb.length) + 4) (Nat.le_refl _)
  have E := appendAll_enc S.1
  have key : ∀ w, inRuns (xorRunRunEmit (4 * (ra.length + rb.length) + 4) none ra none rb) w = true ↔
      ((w ∈ runValues ra ∧ w ∉ runValues rb) ∨ (w ∉ runValues ra ∧ w ∈ runValues rb)) := by
    intro w; rw [S.2 w, mem_runValues, mem_runValues]
    cases h3 : inRuns ra w <;> cases h4 : inRuns rb w <;> simp
  unfold xorRunRun
  simp only []
  split
  · exact ⟨E.1.1, fun v => (E.1.2 v).trans (key v)⟩
  · split
    · exact ⟨E.2.1.1, fun v => (E.2.1.2 v).trans (key v)⟩
    · exact ⟨E.2.2.1, fun v => (E.2.2.2 v).trans (key v)⟩

/-- xorArrayRun. -/
theorem C01_kernel_xor_array_run (ha : (Container.array xa).WF) (hb : (Container.run nb rb).WF) :
    (xorArrayRun xa rb).WF ∧ ∀ v, v ∈ (xorArrayRun xa rb).values ↔
      ((v ∈ xa ∧ v ∉ runValues rb) ∨ (v ∉ xa ∧ v ∈ runValues rb)) := by
  have S := xorArrayRunEmit_spec xa rb ha.1 ha.2 hb.1 (2 * (xa.length + rb.length) + 2) (Nat.le_refl _)
  have E := appendAll_enc S.1
  have key : ∀ w, inRuns (xorArrayRunEmit (2 * (xa.length + rb.length) + 2) xa none rb) w = true ↔
      ((w ∈ xa ∧ w ∉ runValues rb) ∨ (w ∉ xa ∧ w ∈ runValues rb)) := by
    intro w; rw [S.2 w, mem_runValues]
    by_cases h3 : w ∈ xa <;> cases h4 : inRuns rb w <;> simp [h3, h4]
  unfold xorArrayRun
  simp only []
  split
  · exact ⟨E.1.1, fun v => (E.1.2 v).trans (key v)⟩
  · split
    · exact ⟨E.2.1.1, fun v => (E.2.1.2 v).trans (key v)⟩
    · exact ⟨E.2.2.1, fun v => (E.2.2.2 v).trans (key v)⟩

/-- differenceRunRun. -/
theorem C01_kernel_difference_run_run (ha : (Container.run na ra).WF) (hb : (Container.run nb rb).WF) :
    (differenceRunRun ra rb).WF ∧ ∀ v, v ∈ (differenceRunRun ra rb).values ↔ (v ∈ runValues ra ∧ v ∉ runValues rb) := by
  cases ra with
  | nil => exact ⟨⟨trivial, rfl⟩, fun v => by simp [differenceRunRun, Container.values, runValues]⟩
  | cons x ra' =>
    have S := differenceRunRunLoop_spec x ra' rb ha.1 hb.1 (2 * ((x :: ra').length + rb.length) + 2)
      (by simp only [List.length_cons]; omega)
    refine ⟨⟨S.1, rfl⟩, fun v => ?_⟩
    show v ∈ runValues (differenceRunRunLoop _ x.start x.last ra' rb) ↔ _
    rw [mem_runValues, S.2 v, mem_runValues, mem_runValues]; simp

/-- differenceRunArray (including the uint16-overflow exits of the Go loop); the result goes
through `optimize`, so it may be nil when nothing is left. -/
theorem C01_kernel_difference_run_array (ha : (Container.run na ra).WF) (hb : (Container.array xb).WF)
    (hne : xb ≠ []) :
    WFO (differenceRunArray ra xb) ∧ ∀ v, v ∈ valuesO (differenceRunArray ra xb) ↔ (v ∈ runValues ra ∧ v ∉ xb) := by
  cases xb with
  | nil => exact absurd rfl hne
  | cons vb ab =>
    have S := differenceRunArrayLoop_spec ra vb ab ha.1 hb.1 hb.2
    have O := run_optimize_spec S.1 rfl
    refine ⟨O.1, fun v => ?_⟩
    unfold differenceRunArray
    simp only []
    rw [O.2 v, S.2 v, mem_runValues]; simp

example : (Container.run 7 [⟨0, 2⟩, ⟨10, 12⟩, ⟨65535, 65535⟩]).WF ∧ (Container.run 3 [⟨2, 3⟩, ⟨12, 12⟩]).WF ∧
    (Container.array [0, 11, 65535]).WF ∧ ([0, 11, 65535] : List Nat) ≠ [] := by decide

/-- intersectionCount for array × array, array × run and run × run. -/
theorem C01_kernel_intersectionCount_array_array (ha : (Container.array xa).WF) (hb : (Container.array xb).WF) :
    intersectionCountArrayArray xa xb = (xa.filter (fun v => decide (v ∈ xb))).length :=
  intersectionCountArrayArray_spec xa xb ha.1 hb.1

theorem C01_kernel_intersectionCount_array_run (ha : (Container.array xa).WF) (hb : (Container.run nb rb).WF) :
    intersectionCountArrayRun (xa.length + rb.length + 1) xa rb = (xa.filter (fun v => decide (v ∈ runValues rb))).length := by
  rw [intersectionCountArrayRun_spec _ xa rb ha.1 hb.1 (by omega)]
  apply congrArg
  apply List.filter_congr
  intro v _
  rw [Bool.eq_iff_iff, decide_eq_true_eq, mem_runValues]

theorem C01_kernel_intersectionCount_run_run (ha : (Container.run na ra).WF) (hb : (Container.run nb rb).WF) :
    intersectionCountRunRun (ra.length + rb.length + 1) ra rb
      = cnt (fun v => mem (.run na ra) v && mem (.run nb rb) v) 0 65536 := by
  rw [intersectionCountRunRun_spec _ ra rb ha.1 hb.1 (by omega)]
  apply cnt_congr
  intro v _ _
  show _ = (runContains ra v && runContains rb v)
  rw [runContains_eq ha.1, runContains_eq hb.1]

end kernels

/-! ## Container kernels through their dispatchers, every pairing of encodings -/

/-- `intersect(a, b)`: well-formed result (nil allowed), exactly the common values, stored
cardinality correct. All nine pairings and the full / empty shortcuts. -/
theorem C01_kernel_intersect {a b : Container} (ha : a.WF) (hb : b.WF) :
    WFO (intersect a b) ∧ (∀ v, memO (intersect a b) v = (mem a v && mem b v)) ∧
    N (intersect a b) = (valuesO (intersect a b)).length := by
  have S := intersect_spec ha hb
  refine ⟨S.1, fun v => ?_, ?_⟩
  · rw [mem_eq ha, mem_eq hb, Bool.eq_iff_iff, memO_iff S.1, S.2 v]; simp
  · cases h : intersect a b with
    | none => rfl
    | some r => rw [h] at S; exact (Container.values_length S.1).symm

theorem C01_kernel_union {a b : Container} (ha : a.WF) (hb : b.WF) :
    (union a b).WF ∧ (∀ v, mem (union a b) v = (mem a v || mem b v)) ∧
    (union a b).n = (union a b).values.length := by
  have S := union_spec ha hb
  refine ⟨S.1, fun v => ?_, (Container.values_length S.1).symm⟩
  rw [mem_eq ha, mem_eq hb, mem_eq S.1, Bool.eq_iff_iff, decide_eq_true_eq, S.2 v]; simp

theorem C01_kernel_difference {a b : Container} (ha : a.WF) (hb : b.WF) :
    WFO (difference a b) ∧ (∀ v, memO (difference a b) v = (mem a v && !mem b v)) ∧
    N (difference a b) = (valuesO (difference a b)).length := by
  have S := difference_spec ha hb
  refine ⟨S.1, fun v => ?_, ?_⟩
  · rw [mem_eq ha, mem_eq hb, Bool.eq_iff_iff, memO_iff S.1, S.2 v]; simp
  · cases h : difference a b with
    | none => rfl
    | some r => rw [h] at S; exact (Container.values_length S.1).symm

theorem C01_kernel_xor {a b : Container} (ha : a.WF) (hb : b.WF) :
    WFO (xor a b) ∧ (∀ v, memO (xor a b) v = (mem a v != mem b v)) ∧
    N (xor a b) = (valuesO (xor a b)).length := by
  have S := xor_spec ha hb
  refine ⟨S.1, fun v => ?_, ?_⟩
  · rw [mem_eq ha, mem_eq hb, Bool.eq_iff_iff, memO_iff S.1, S.2 v]
    by_cases h1 : v ∈ a.values <;> by_cases h2 : v ∈ b.values <;> simp [h1, h2]
  · cases h : xor a b with
    | none => rfl
    | some r => rw [h] at S; exact (Container.values_length S.1).symm

/-- `intersectionCount(a, b) = |a ∩ b|`. -/
theorem C01_kernel_intersectionCount {a b : Container} (ha : a.WF) (hb : b.WF) :
    intersectionCount a b = (a.values.filter (fun v => decide (v ∈ b.values))).length :=
  intersectionCount_spec ha hb

example : (Container.bitmap 2 [3, 9]).WF ∧ (Container.run 65536 [⟨0, 65535⟩]).WF ∧ (Container.array []).WF := by decide

/-- WORD level of the range kernels: `unionBitmapRun` (one `bitmapSetRange` per run),
`differenceBitmapRun` (`bitmapZeroRange`), `xorBitmapRun` (`bitmapXorRange`) and
`intersectionCountBitmapRun` (`bitmapCountRange` per run) with the masks
`X = maxBitmap << (i % 64)`, `Y = maxBitmap >> (63 - (j-1) % 64)`, the one-word / first / middle /
last word cases and the popcount bookkeeping of `n`: the resulting words are well-formed, their
abstraction is the set operation of the set-level model, and the stored `n` is its cardinality. -/
theorem C01_kernel_bitmap_words {ws : List Nat} {rb : List Iv} {n : Nat} (h : WordsWF ws) (hr : RunsWF rb)
    (hn : n = (absW ws).length) :
    (WordsWF (wUnionRunsN n ws rb).2 ∧ absW (wUnionRunsN n ws rb).2 = Spec.union (absW ws) (runValues rb) ∧
      (wUnionRunsN n ws rb).1 = (absW (wUnionRunsN n ws rb).2).length ∧
      ∀ v, v ∈ absW (wUnionRunsN n ws rb).2 ↔ (v ∈ absW ws ∨ v ∈ runValues rb)) ∧
    (WordsWF (wDiffRunsN n ws rb).2 ∧ absW (wDiffRunsN n ws rb).2 = Spec.diff (absW ws) (runValues rb) ∧
      (wDiffRunsN n ws rb).1 = (absW (wDiffRunsN n ws rb).2).length ∧
      ∀ v, v ∈ absW (wDiffRunsN n ws rb).2 ↔ (v ∈ absW ws ∧ v ∉ runValues rb)) ∧
    (WordsWF (wXorRunsN n ws rb).2 ∧ absW (wXorRunsN n ws rb).2 = Spec.xor (absW ws) (runValues rb) ∧
      (wXorRunsN n ws rb).1 = (absW (wXorRunsN n ws rb).2).length ∧
      ∀ v, v ∈ absW (wXorRunsN n ws rb).2 ↔ ((v ∈ absW ws ∧ v ∉ runValues rb) ∨ (v ∉ absW ws ∧ v ∈ runValues rb))) ∧
    wIntersectionCountRuns ws rb = intersectionCountBitmapRun (absW ws) rb := by
  have hs := sorted_absW ws
  have hrs := runValues_sorted hr
  have U := wUnionRunsN_spec rb n ws h hr hn
  have D := wDiffRunsN_spec rb n ws h hr hn
  have X := wXorRunsN_spec rb n ws h hr hn
  have U' := wUnionRuns_refines h hr
  have D' := wDiffRuns_refines h hr
  have X' := wXorRuns_refines h hr
  refine ⟨⟨?_, ?_, ?_, fun v => ?_⟩, ⟨?_, ?_, ?_, fun v => ?_⟩, ⟨?_, ?_, ?_, fun v => ?_⟩,
    wIntersectionCountRuns_refines h rb hr⟩
  · rw [U.1]; exact U'.1
  · rw [U.1]; exact U'.2
  · rw [U.2, U.1]
  · rw [U.1, U'.2]; exact mem_union hs hrs v
  · rw [D.1]; exact D'.1
  · rw [D.1]; exact D'.2
  · rw [D.2, D.1]
  · rw [D.1, D'.2]; exact mem_diff hs hrs v
  · rw [X.1]; exact X'.1
  · rw [X.1]; exact X'.2
  · rw [X.2, X.1]
  · rw [X.1, X'.2]; exact mem_xor hs hrs v

example : RunsWF [⟨5, 64⟩, ⟨128, 128⟩, ⟨4090, 65535⟩] := by decide

/-- WORD level of the bitmap × bitmap kernels (`intersectBitmapBitmap`, `unionBitmapBitmap`,
`differenceBitmapBitmap`, `xorBitmapBitmap`): `ob[i] = ab[i] op bb[i]` with `n += popcount(ob[i])`
is the set operation on the abstractions with the right cardinality. -/
theorem C01_kernel_bitmap_bitmap_words {a b : List Nat} (ha : WordsWF a) (hb : WordsWF b) :
    (WordsWF (wAndN a b).2 ∧ absW (wAndN a b).2 = Spec.inter (absW a) (absW b) ∧ (wAndN a b).1 = (absW (wAndN a b).2).length) ∧
    (WordsWF (wOrN a b).2 ∧ absW (wOrN a b).2 = Spec.union (absW a) (absW b) ∧ (wOrN a b).1 = (absW (wOrN a b).2).length) ∧
    (WordsWF (wAndNotN a b).2 ∧ absW (wAndNotN a b).2 = Spec.diff (absW a) (absW b) ∧
      (wAndNotN a b).1 = (absW (wAndNotN a b).2).length) ∧
    (WordsWF (wXorN a b).2 ∧ absW (wXorN a b).2 = Spec.xor (absW a) (absW b) ∧ (wXorN a b).1 = (absW (wXorN a b).2).length) :=
  ⟨wAndN_refines ha hb, wOrN_refines ha hb, wAndNotN_refines ha hb, wXorN_refines ha hb⟩

/-- WORD level of the single-bit operations (`wBitUpdate_refines`): `bitmapContains`
(`bitmap[v/64] & (1 << v%64) != 0`), `bitmapAdd` (`|= 1 << v%64`, `n+1` when new), `bitmapRemove`
(`&^=`, `n-1` when present) — the operations behind every Add / Remove on a bitmap container. -/
theorem C01_kernel_bitmap_bit_updates {ws : List Nat} {n : Nat} (h : WordsWF ws) (hn : n = (absW ws).length)
    (v : Nat) (hv : v < 65536) :
    wContains ws v = decide (v ∈ absW ws) ∧
    (WordsWF (wBitmapAdd n ws v).2.1 ∧ (∀ p, p ∈ absW (wBitmapAdd n ws v).2.1 ↔ (p ∈ absW ws ∨ p = v)) ∧
      (wBitmapAdd n ws v).1 = (absW (wBitmapAdd n ws v).2.1).length ∧ (wBitmapAdd n ws v).2.2 = !decide (v ∈ absW ws)) ∧
    (WordsWF (wBitmapRemove n ws v).2.1 ∧ (∀ p, p ∈ absW (wBitmapRemove n ws v).2.1 ↔ (p ∈ absW ws ∧ p ≠ v)) ∧
      (wBitmapRemove n ws v).1 = (absW (wBitmapRemove n ws v).2.1).length ∧
      (wBitmapRemove n ws v).2.2 = decide (v ∈ absW ws)) := by
  have A := wBitmapAdd_refines h hn v hv
  have R := wBitmapRemove_refines h hn v hv
  refine ⟨?_, ⟨A.1, fun p => ?_, A.2.2.1, A.2.2.2⟩, ⟨R.1, fun p => ?_, R.2.2.1, R.2.2.2⟩⟩
  · rw [wContains_eq, Bool.eq_iff_iff, decide_eq_true_eq]; exact bitp_iff_absW h v hv
  · by_cases hp : p < 65536
    · rw [← bitp_iff_absW A.1 p hp, A.2.1 p hp, Bool.or_eq_true, bitp_iff_absW h p hp, decide_eq_true_eq]
    · constructor
      · intro hm; exact absurd (absW_lt A.1 p hm) hp
      · rintro (hm | rfl)
        · exact absurd (absW_lt h p hm) hp
        · exact absurd hv hp
  · by_cases hp : p < 65536
    · rw [← bitp_iff_absW R.1 p hp, R.2.1 p hp, Bool.and_eq_true, bitp_iff_absW h p hp]
      simp
    · constructor
      · intro hm; exact absurd (absW_lt R.1 p hm) hp
      · rintro ⟨hm, _⟩; exact absurd (absW_lt h p hm) hp

/-- WORD level of the array × bitmap kernels: `unionArrayBitmap`, `differenceBitmapArray` (bit by
bit with `n++` / `n--`), `intersectArrayBitmap`, `differenceArrayBitmap` (mask tests) and
`intersectionCountArrayBitmap` (`(bitmap[i] >> off) & 1`). -/
theorem C01_kernel_array_bitmap_words {ws xs : List Nat} {n : Nat} (h : WordsWF ws) (hn : n = (absW ws).length)
    (hxs : (Container.array xs).WF) :
    (WordsWF (wUnionArray n ws xs).2 ∧ absW (wUnionArray n ws xs).2 = Spec.union xs (absW ws) ∧
      (wUnionArray n ws xs).1 = (absW (wUnionArray n ws xs).2).length) ∧
    (WordsWF (wDiffArray n ws xs).2 ∧ absW (wDiffArray n ws xs).2 = Spec.diff (absW ws) xs ∧
      (wDiffArray n ws xs).1 = (absW (wDiffArray n ws xs).2).length) ∧
    wIntersectArray ws xs = Spec.inter xs (absW ws) ∧
    wDifferenceArray ws xs = Spec.diff xs (absW ws) ∧
    wIntersectionCountArray ws xs = (xs.filter (fun v => decide (v ∈ absW ws))).length :=
  ⟨wUnionArray_refines h hn hxs.1 hxs.2, wDiffArray_refines h hn hxs.1 hxs.2,
   wIntersectArray_refines h hxs.1 hxs.2, wDifferenceArray_refines h hxs.1 hxs.2,
   wIntersectionCountArray_refines h xs hxs.2⟩

/-- WORD level of the bitmap branch of `intersectBitmapRun` (`wIntersectBitmapRun_refines`): for
every run, every word it touches, the four cases (word inside the run: `bitmap[i] = aBitmap[i]`;
run inside the word: mask `((1 << len) - 1) << (start - vastart)`; run starts / ends inside the
word: `(a >> off) << off`, `(a << off) >> off`, all with `bitmap[i] |= bits`) and
`n += popcount(bits)`: the result is the intersection with the right cardinality. In particular a
second run starting inside a word that already holds bits must OR into it. -/
theorem C01_kernel_intersect_bitmap_run_words {aws : List Nat} {rb : List Iv} (ha : WordsWF aws) (hr : RunsWF rb) :
    WordsWF (wIntersectRuns aws rb).2 ∧
    absW (wIntersectRuns aws rb).2 = Spec.inter (absW aws) (runValues rb) ∧
    (wIntersectRuns aws rb).1 = (absW (wIntersectRuns aws rb).2).length ∧
    ∀ v, v ∈ absW (wIntersectRuns aws rb).2 ↔ (v ∈ absW aws ∧ v ∈ runValues rb) := by
  have R := wIntersectRuns_refines ha hr
  refine ⟨R.1, R.2.1, R.2.2, fun v => ?_⟩
  rw [R.2.1]; exact mem_inter (sorted_absW aws) (runValues_sorted hr) v

example : RunsWF [⟨10, 20⟩, ⟨30, 100⟩, ⟨128, 65535⟩] := by decide

/-- WORD level of `shiftBitmap` (`wShift_refines`): `carry = v >> 63; v = v<<1 | lastCarry` over the
1024 words, `n - carry`: every position moves up by one, position 65535 leaves as the carry. -/
theorem C01_kernel_shift_bitmap_words {ws : List Nat} {n : Nat} (h : WordsWF ws) (hn : n = (absW ws).length) :
    WordsWF (wShift n ws).2.1 ∧ absW (wShift n ws).2.1 = Spec.shift 65536 (absW ws) ∧
    (wShift n ws).2.2 = decide (65535 ∈ absW ws) ∧ (wShift n ws).1 = (absW (wShift n ws).2.1).length :=
  wShift_refines h hn

/-- What is still modelled at set level only (tied to the code by correspondence + spec oracle):
the lowest-set-bit extraction loop of `bitmapToArray`, `bitmapCountRuns` / `bitmapToRun`,
`bitmapMax`, and the add/remove sequencing with its conversions inside
`xorArrayBitmap` (its single steps are `C01_kernel_bitmap_bit_updates`).  Missing lemmas, by name:
`wBitmapToArray_refines` (`t = w & -w`, `popcount(t-1)` is the index of the lowest set bit),
`wCountRuns_refines` (`popcount((v << 1) &^ v) + ((v >> 63) &^ v1)` counts run ends),
`wBitmapToRun_refines`, `wMax_refines`.
The statement proved here is the set-level one for the conversions. -/
theorem C01_kernel_bitmap_rest_partial {n : Nat} {bits : List Nat} (h : (Container.bitmap n bits).WF) :
    ((bitmapToArray n bits).WF ∧ (bitmapToArray n bits).values = bits) ∧
    ((bitmapToRun n bits).WF ∧ ∀ v, v ∈ (bitmapToRun n bits).values ↔ v ∈ bits) ∧
    (Container.bitmap n bits).countRuns = (arrayToRunIvs bits).length := by
  refine ⟨bitmapToArray_spec h, ?_, arrayCountRuns_eq bits h.1⟩
  have S := arrayToRunIvs_spec bits h.1 h.2.1
  unfold bitmapToRun
  by_cases h0 : n = 0
  · rw [if_pos h0]
    have : bits = [] := by
      have := h.2.2; rw [h0] at this
      exact List.length_eq_zero_iff.mp this.symm
    subst this
    exact ⟨⟨trivial, rfl⟩, fun v => by simp [Container.values, runValues]⟩
  · rw [if_neg h0]
    refine ⟨⟨S.1, by rw [S.2.2]; exact h.2.2⟩, fun v => ?_⟩
    show v ∈ runValues (arrayToRunIvs bits) ↔ _
    rw [mem_runValues, S.2.1 v]; simp

/-! ## shift, flip, max, conversions -/

/-- container-level `shift`: every value moves up by one, the value 65535 leaves as the carry. -/
theorem C01_kernel_shift {c : Container} (h : c.WF) :
    WFO (shift c).1 ∧ (∀ w, w ∈ valuesO (shift c).1 ↔ (1 ≤ w ∧ w < 65536 ∧ w - 1 ∈ c.values)) ∧
    ((shift c).2 = true ↔ 65535 ∈ c.values) := shift_spec h

/-- `flip` / `flipBitmap`, WORD level: every word is complemented and the cardinality is recounted
with `bitmapCountRange(0, 65536)`; the result denotes the complement inside the container, and it
is the set-level `flip` on the abstraction. -/
theorem C01_kernel_flip {ws : List Nat} (h : WordsWF ws) :
    WordsWF (wFlipN ws).2 ∧ (wFlipN ws).1 = (absW (wFlipN ws).2).length ∧
    (∀ v, v ∈ absW (wFlipN ws).2 ↔ (v < 65536 ∧ v ∉ absW ws)) ∧
    absW (wFlipN ws).2 = (flip (Container.bitmap (absW ws).length (absW ws))).values := by
  have R := wFlip_refines h
  have C := compl16_spec (sorted_absW ws)
  refine ⟨wFlip_wf h, wFlipN_spec h, fun v => ?_, ?_⟩
  · show v ∈ absW (wFlip ws) ↔ _
    rw [R]; exact C.2.2 v
  · show absW (wFlip ws) = _
    rw [R]; rfl

/-- the set-level `flip` of any container (arrays and runs are converted to a bitmap first). -/
theorem C01_container_flip {c : Container} (h : c.WF) :
    (flip c).WF ∧ ∀ v, v ∈ (flip c).values ↔ (v < 65536 ∧ v ∉ c.values) :=
  flipBitmap_spec (Container.values_sorted h)

/-- `Container.max` of a non-empty container is its greatest value. -/
theorem C01_container_max {c : Container} (h : c.WF) (hn : c.n > 0) :
    maxO (some c) ∈ c.values ∧ ∀ v ∈ c.values, v ≤ maxO (some c) := by
  have : maxO (some c) = c.max := by unfold maxO; simp only []; rw [if_neg (by omega)]
  rw [this]; exact Container.max_spec h hn

/-- `arrayToRun` and `arrayCountRuns`: same values, well-formed, and the run count the optimizer
uses is the number of runs produced. -/
theorem C01_conv_arrayToRun {xs : List Nat} (h : (Container.array xs).WF) :
    (arrayToRun xs).WF ∧ (∀ v, v ∈ (arrayToRun xs).values ↔ v ∈ xs) ∧
    arrayCountRuns xs = (arrayToRunIvs xs).length := by
  have S := arrayToRunIvs_spec xs h.1 h.2
  refine ⟨⟨S.1, S.2.2.symm⟩, fun v => ?_, arrayCountRuns_eq xs h.1⟩
  show v ∈ runValues (arrayToRunIvs xs) ↔ _
  rw [mem_runValues, S.2.1 v]; simp

/-- `runToArray` / `runToBitmap`: same values, well-formed. -/
theorem C01_conv_run {n : Nat} {ivs : List Iv} (h : (Container.run n ivs).WF) :
    ((runToArray n ivs).WF ∧ (runToArray n ivs).values = runValues ivs) ∧
    ((runToBitmap n ivs).WF ∧ (runToBitmap n ivs).values = runValues ivs) :=
  ⟨runToArray_spec h.1 h.2, runToBitmap_spec h.1 h.2⟩

example : (Container.array [1, 2, 3, 9, 65535]).WF ∧ (Container.run 4 [⟨7, 9⟩, ⟨65535, 65535⟩]).WF := by decide

/-! ## Bitmap reads -/

/-- `Bitmap.Contains`. -/
theorem C01_bitmap_contains {b : Bitmap} (h : b.WF) (v : Nat) : b.contains v = decide (v ∈ b.values) :=
  Bitmap.contains_spec h v

/-- `Bitmap.Count` (sum of the stored cardinalities). -/
theorem C01_bitmap_count {b : Bitmap} (h : b.WF) : b.count = b.values.length := Bitmap.count_spec h

/-- `Bitmap.CountRange(start, end)` as coded after the fix (nil container at the range key). -/
theorem C01_bitmap_countRange {b : Bitmap} (h : b.WF) (s e : Nat) (hse : s ≤ e) :
    b.countRange s e = cnt (fun v => decide (v ∈ b.values)) s e := Bitmap.countRange_spec h s e hse

/-- `Bitmap.Max` as coded after the fix (empty trailing containers): 0 on the empty set, otherwise
the greatest element. -/
theorem C01_bitmap_max {b : Bitmap} (h : b.WF) :
    (b.values = [] → b.max = 0) ∧ (b.values ≠ [] → b.max ∈ b.values ∧ ∀ v ∈ b.values, v ≤ b.max) :=
  Bitmap.max_spec h

/-- `Bitmap.Min`: `(0, false)` on the empty set, otherwise `(least element, true)`. -/
theorem C01_bitmap_min {b : Bitmap} (h : b.WF) :
    b.min = (match b.values with | [] => (0, false) | v :: _ => (v, true)) := Bitmap.min_spec h

/-- `Iterator.Seek(k)` followed by `n` calls of `Next`: the first `n` values `≥ k` in ascending
order, and eof exactly when fewer than `n` exist. -/
theorem C01_bitmap_seek_next {b : Bitmap} (h : b.WF) (k n : Nat) :
    Iter.take n (b.seek k) = ((Spec.seek b.values k).take n, decide ((Spec.seek b.values k).length < n)) :=
  Bitmap.seek_take_spec h k n

/-- `Bitmap.Slice`. -/
theorem C01_bitmap_slice {b : Bitmap} (h : b.WF) : b.slice = b.values := Bitmap.slice_spec h

/-- `Bitmap.SliceRange` / `ForEachRange`. -/
theorem C01_bitmap_sliceRange {b : Bitmap} (h : b.WF) (s e : Nat) :
    b.sliceRange s e = Spec.sliceRange b.values s e := Bitmap.sliceRange_spec h s e

/-- a bitmap with a nil container, an empty run container and all three encodings. -/
example : (Bitmap.mk false [(0, some (.run 3 [⟨1, 3⟩])), (1, none), (2, some (.run 0 [])),
    (65536, some (.bitmap 2 [0, 65535])), (281474976710655, some (.array [65535]))]).WF := by decide

/-! ## Bitmap operations -/

theorem kernelOK_intersect : KernelOK intersect (fun p q => p && q) :=
  fun _ _ hx hy => ⟨(C01_kernel_intersect hx hy).1, (C01_kernel_intersect hx hy).2.1⟩

theorem kernelOK_union : KernelOK (fun x y => some (union x y)) (fun p q => p || q) :=
  fun _ _ hx hy => ⟨(C01_kernel_union hx hy).1, (C01_kernel_union hx hy).2.1⟩

theorem kernelOK_difference : KernelOK difference (fun p q => p && !q) :=
  fun _ _ hx hy => ⟨(C01_kernel_difference hx hy).1, (C01_kernel_difference hx hy).2.1⟩

theorem kernelOK_xor : KernelOK xor (fun p q => p != q) :=
  fun _ _ hx hy => ⟨(C01_kernel_xor hx hy).1, (C01_kernel_xor hx hy).2.1⟩

/-- `Bitmap.Intersect`. -/
theorem C01_bitmap_intersect {a b : Bitmap} (ha : a.WF) (hb : b.WF) :
    (a.intersect b).WF ∧ ∀ v, v ∈ (a.intersect b).values ↔ (v ∈ a.values ∧ v ∈ b.values) :=
  Bitmap.intersect_spec kernelOK_intersect ha hb

/-- `Bitmap.Union(other)` (one argument: `unionIntoTargetSingle`). -/
theorem C01_bitmap_union {a b : Bitmap} (ha : a.WF) (hb : b.WF) :
    (a.union [b]).WF ∧ ∀ v, v ∈ (a.union [b]).values ↔ (v ∈ a.values ∨ v ∈ b.values) :=
  Bitmap.union1_spec kernelOK_union ha hb

/-- `Bitmap.Difference`. -/
theorem C01_bitmap_difference {a b : Bitmap} (ha : a.WF) (hb : b.WF) :
    (a.difference b).WF ∧ ∀ v, v ∈ (a.difference b).values ↔ (v ∈ a.values ∧ v ∉ b.values) :=
  Bitmap.difference_spec kernelOK_difference ha hb

/-- `Bitmap.Xor`. -/
theorem C01_bitmap_xor {a b : Bitmap} (ha : a.WF) (hb : b.WF) :
    (a.xor b).WF ∧ ∀ v, v ∈ (a.xor b).values ↔ ((v ∈ a.values ∧ v ∉ b.values) ∨ (v ∉ a.values ∧ v ∈ b.values)) :=
  Bitmap.xor_spec kernelOK_xor ha hb

example : (Bitmap.mk false [(0, some (.array [1, 65535])), (1, some (.run 2 [⟨0, 1⟩]))]).WF ∧
    (Bitmap.mk true [(0, some (.bitmap 1 [65535])), (7, some (.array []))]).WF := by decide

/-- `Bitmap.IntersectionCount`. -/
theorem C01_bitmap_intersectionCount {a b : Bitmap} (ha : a.WF) (hb : b.WF) :
    a.intersectionCount b = (a.values.filter (fun v => decide (v ∈ b.values))).length :=
  Bitmap.intersectionCount_spec (fun _ _ hx hy => C01_kernel_intersectionCount hx hy) ha hb

/-- `Bitmap.Shift(1)` as coded after the fix: every value moves up by one; the carry crosses into
the next container (existing, empty or absent) and is dropped only beyond `2^64 - 1`. -/
theorem C01_bitmap_shift {b : Bitmap} (h : b.WF) :
    b.shift.WF ∧ ∀ v, v ∈ b.shift.values ↔ (1 ≤ v ∧ v < 2 ^ 64 ∧ v - 1 ∈ b.values) := Bitmap.shift_spec h

/-- `Bitmap.Flip(start, end)` (closed range, `end < 2^64 - 1` in the Go code for termination):
membership is toggled exactly inside the range. -/
theorem C01_bitmap_flip {b : Bitmap} (h : b.WF) (s e : Nat) (hse : s ≤ e) (he : e < 2 ^ 64) :
    (b.flip s e).WF ∧
    ∀ v, v ∈ (b.flip s e).values ↔ ((v ∈ b.values ∧ ¬ (s ≤ v ∧ v ≤ e)) ∨ (v ∉ b.values ∧ s ≤ v ∧ v ≤ e)) :=
  Bitmap.flip_spec h s e hse he

/-- `Bitmap.OffsetRange(offset, start, end)` (all three multiples of 65536, result inside the key
space): the values of `[start, end)` moved to start at `offset`. -/
theorem C01_bitmap_offsetRange {b : Bitmap} (h : b.WF) (offset s e : Nat)
    (ho : lowbits offset = 0) (hs : lowbits s = 0) (he : lowbits e = 0)
    (hfit : highbits offset + (highbits e - highbits s) ≤ maxContainerKey + 1) :
    ∃ r, b.offsetRange offset s e = some r ∧ r.WF ∧
      ∀ v, v ∈ r.values ↔ ∃ x ∈ b.values, s ≤ x ∧ x < e ∧ v = x - s + offset :=
  Bitmap.offsetRange_spec h offset s e ho hs he hfit

/-- `Container.optimize` / `Bitmap.Optimize`: the encoding changes, the set does not (this is
also what a decoded bitmap holds: `WriteTo` optimizes, `UnmarshalBinary` restores the encodings). -/
theorem C01_optimize {c : Container} (h : c.WF) :
    WFO c.optimize ∧ ∀ w, w ∈ valuesO c.optimize ↔ w ∈ c.values := Container.optimize_spec h

theorem C01_bitmap_optimize {b : Bitmap} (h : b.WF) :
    b.optimize.WF ∧ ∀ v, v ∈ b.optimize.values ↔ v ∈ b.values := Bitmap.optimize_spec h

/-- a freshly built bitmap (`NewBitmap(values...)`, slice or B-tree) denotes its values. -/
theorem C01_bitmap_fresh (bt : Bool) (vs : List Nat) (hs : Sorted vs) (hlt : ∀ v ∈ vs, v < 2 ^ 64) :
    (Bitmap.ofValues bt vs).WF ∧ ∀ v, v ∈ (Bitmap.ofValues bt vs).values ↔ v ∈ vs :=
  Bitmap.ofValues_spec bt vs hs hlt

example : Sorted [1, 65535, 65536, 4294967296, 18446744073709551615] ∧
    ∀ v ∈ [1, 65535, 65536, 4294967296, 18446744073709551615], v < 2 ^ 64 := by decide

/-- `Bitmap.UnionInPlace(others...)`: the n-ary lock-step union with its shortcuts (target
container full, a full container among the others, reuse of a single container, pre-emptive
conversion to a bitmap container), bitmap cardinalities left stale during the loop and repaired
once at the end. -/
theorem C01_bitmap_unionInPlace {t : Bitmap} (others : List Bitmap) (ht : t.WF) (ho : ∀ o ∈ others, o.WF) :
    (t.unionInPlace others).WF ∧
    ∀ v, v ∈ (t.unionInPlace others).values ↔ (v ∈ t.values ∨ ∃ o ∈ others, v ∈ o.values) :=
  Bitmap.unionInPlace_spec others ht ho

/-- `Bitmap.Union(others...)` for any number of arguments. -/
theorem C01_bitmap_union_nary {b : Bitmap} (others : List Bitmap) (hb : b.WF) (ho : ∀ o ∈ others, o.WF) :
    (b.union others).WF ∧
    ∀ v, v ∈ (b.union others).values ↔ (v ∈ b.values ∨ ∃ o ∈ others, v ∈ o.values) :=
  Bitmap.union_spec others hb ho

example : (Bitmap.mk true [(0, some (.array [2, 145])), (65535, some (.run 65536 [⟨0, 65535⟩]))]).WF ∧
    ∀ o ∈ [Bitmap.mk false [(0, some (.bitmap 1 [145]))], Bitmap.mk false [(0, none), (3, some (.run 0 []))]], o.WF := by
  decide

/-! ## The property -/

/-- C01 for the reads and the binary operations: for well-formed bitmaps in any mix of encodings
(including nil and empty containers), every read equals the read on the denoted set and every
operation denotes the set operation (n-ary union: `C01_bitmap_union_nary`, `C01_bitmap_unionInPlace`). -/
theorem C01_full {a b : Bitmap} (ha : a.WF) (hb : b.WF) :
    (∀ v, a.contains v = decide (v ∈ a.values)) ∧
    a.count = a.values.length ∧
    (∀ s e, s ≤ e → a.countRange s e = cnt (fun v => decide (v ∈ a.values)) s e) ∧
    a.min = (match a.values with | [] => (0, false) | v :: _ => (v, true)) ∧
    ((a.values = [] → a.max = 0) ∧ (a.values ≠ [] → a.max ∈ a.values ∧ ∀ v ∈ a.values, v ≤ a.max)) ∧
    a.slice = a.values ∧
    (∀ s e, a.sliceRange s e = Spec.sliceRange a.values s e) ∧
    (∀ k n, Iter.take n (a.seek k) = ((Spec.seek a.values k).take n, decide ((Spec.seek a.values k).length < n))) ∧
    (∀ v, v ∈ (a.intersect b).values ↔ (v ∈ a.values ∧ v ∈ b.values)) ∧
    (∀ v, v ∈ (a.union [b]).values ↔ (v ∈ a.values ∨ v ∈ b.values)) ∧
    (∀ v, v ∈ (a.difference b).values ↔ (v ∈ a.values ∧ v ∉ b.values)) ∧
    (∀ v, v ∈ (a.xor b).values ↔ ((v ∈ a.values ∧ v ∉ b.values) ∨ (v ∉ a.values ∧ v ∈ b.values))) ∧
    a.intersectionCount b = (a.values.filter (fun v => decide (v ∈ b.values))).length ∧
    (∀ v, v ∈ a.shift.values ↔ (1 ≤ v ∧ v < 2 ^ 64 ∧ v - 1 ∈ a.values)) ∧
    (∀ s e, s ≤ e → e < 2 ^ 64 → ∀ v, v ∈ (a.flip s e).values ↔
      ((v ∈ a.values ∧ ¬ (s ≤ v ∧ v ≤ e)) ∨ (v ∉ a.values ∧ s ≤ v ∧ v ≤ e))) ∧
    (∀ v, v ∈ a.optimize.values ↔ v ∈ a.values) :=
  ⟨C01_bitmap_contains ha, C01_bitmap_count ha, C01_bitmap_countRange ha, C01_bitmap_min ha, C01_bitmap_max ha,
   C01_bitmap_slice ha, C01_bitmap_sliceRange ha, C01_bitmap_seek_next ha,
   (C01_bitmap_intersect ha hb).2, (C01_bitmap_union ha hb).2, (C01_bitmap_difference ha hb).2,
   (C01_bitmap_xor ha hb).2, C01_bitmap_intersectionCount ha hb, (C01_bitmap_shift ha).2,
   fun s e hse he => (C01_bitmap_flip ha s e hse he).2, (C01_bitmap_optimize ha).2⟩

end PV.C01
