/-
C10 property theorems: block checksums always reflect current block contents.

Model: PV/C07/Model.lean (shared fragment model; `sums` = f.checksums, `blocks` = Blocks() with
readContiguousChecksums, every write path with its `delete(f.checksums, ..)` sites).  The block
hash is a parameter `H` (xxhash over the big-endian positions); "up to hash collisions" of the
property text is the explicit hypothesis `Function.Injective H` of `C10_replicas`.

`ChecksumInv H s` (PV/C07/LemmasInv.lean):
    lookup b s.sums = some h → h = H (bitsOfBlock s.bits b) ∧ bitsOfBlock s.bits b ≠ []
`Inv H s` = storage ascending ∧ cached rows coherent ∧ ChecksumInv (the three are proved together
by one frame lemma; storage ascending is needed to talk about "the bits of a block" as a list).
-/
import PV.C07.LemmasStep
namespace PV.C10
open PV.C07
open List hiding lookup

variable {η : Type}

/-- Every operation — in particular EVERY write path: setBit, clearBit, setRow, clearRow,
bulkImport (standard / mutex / clear), importValue (small and large path), importRoaring
(set / clear), setValue, clearValue — and snapshots, reads, `Blocks()` itself and
`InvalidateChecksums` keep the cached checksums valid. -/
theorem C10_inv_step (H : List Nat → η) (s : Frag η) (op : Op) (hI : Inv H s) :
    Inv H (step H s op).1 ∧ ChecksumInv H (step H s op).1 :=
  ⟨inv_step hI op, (inv_step hI op).sums⟩

/-- The invariant holds in every reachable state (any history from a fresh fragment). -/
theorem C10_inv_reachable (H : List Nat → η) (kind : Kind) (maxOpN : Nat) (ops : List Op) :
    ChecksumInv H (run H (Frag.empty kind maxOpN) ops) :=
  (inv_run (inv_empty H kind maxOpN) ops).sums

/-- `Blocks()` reports exactly the non-empty blocks, ascending, each with the hash of the bits
currently stored in it — whatever is cached and whatever writes happened before. -/
theorem C10_blocks (H : List Nat → η) (s : Frag η) (hI : Inv H s) :
    (blocks H s).2 = Spec.blocks H s.bits :=
  (blocks_spec hI).1

/-- the checksum reported for block `b`: none when the block is empty. -/
theorem C10_block_lookup (H : List Nat → η) (s : Frag η) (hI : Inv H s) (b : Nat) :
    lookup b (blocks H s).2 =
      if bitsOfBlock s.bits b = [] then none else some (H (bitsOfBlock s.bits b)) := by
  rw [C10_blocks H s hI, Spec.blocks, lookup_map_key]
  by_cases h : bitsOfBlock s.bits b = []
  · have : b ∉ Spec.blockIds s.bits := fun hb => (mem_blockIds_iff _ _).mp hb h
    simp [h, this]
  · have : b ∈ Spec.blockIds s.bits := (mem_blockIds_iff _ _).mpr h
    simp [h, this]

/-- Two replicas report equal checksums for a block exactly when they hold the same bits there
(up to hash collisions: `H` injective), in any two reachable states. -/
theorem C10_replicas (H : List Nat → η) (hinj : Function.Injective H) (s₁ s₂ : Frag η)
    (h₁ : Inv H s₁) (h₂ : Inv H s₂) (b : Nat) :
    lookup b (blocks H s₁).2 = lookup b (blocks H s₂).2 ↔
      bitsOfBlock s₁.bits b = bitsOfBlock s₂.bits b := by
  rw [C10_block_lookup H s₁ h₁, C10_block_lookup H s₂ h₂]
  by_cases e₁ : bitsOfBlock s₁.bits b = [] <;> by_cases e₂ : bitsOfBlock s₂.bits b = []
  · simp [e₁, e₂]
  · have : ¬ ([] = bitsOfBlock s₂.bits b) := fun h => e₂ h.symm
    simp [e₁, e₂, this]
  · simp [e₁, e₂]
  · simp only [e₁, e₂, ↓reduceIte, Option.some.injEq]
    exact ⟨fun h => hinj h, fun h => by rw [h]⟩

/-- Histories: after any two histories on two replicas, checksum equality is content equality. -/
theorem C10_replicas_history (H : List Nat → η) (hinj : Function.Injective H)
    (k₁ k₂ : Kind) (m₁ m₂ : Nat) (ops₁ ops₂ : List Op) (b : Nat) :
    lookup b (blocks H (run H (Frag.empty k₁ m₁) ops₁)).2 =
        lookup b (blocks H (run H (Frag.empty k₂ m₂) ops₂)).2 ↔
      bitsOfBlock (run H (Frag.empty k₁ m₁) ops₁).bits b =
        bitsOfBlock (run H (Frag.empty k₂ m₂) ops₂).bits b :=
  C10_replicas H hinj _ _ (inv_run (inv_empty H k₁ m₁) ops₁) (inv_run (inv_empty H k₂ m₂) ops₂) b

/-! Non-vacuity: a non-trivial state (cached checksum for block 0, bits in blocks 0 and 1)
satisfies the hypotheses, and the stale-checksum scenario of the original defect
(checksum cached, then `clearRow`) ends with the right answer in the model. -/

def exH : List Nat → List Nat := id

def exState : Frag (List Nat) :=
  run exH (Frag.empty .set 10000) [.setBit 0 1, .setBit 150 2, .blocks, .clearRow 150]

example : Inv exH exState := inv_run (inv_empty exH .set 10000) _

example : (blocks exH exState).2 = [(0, [1])] := by decide

example : Function.Injective exH := fun _ _ h => h

end PV.C10
