/-
C02 helper lemmas, part 13: the documented change counts, on the Spec side.
-/
import PV.C02.LemmasFlat
namespace PV.C02.Spec
open List PV.C02

theorem newly_spec (s : S) (hs : Asc s) (vs : List Nat) :
    (newly s vs).Nodup ∧ (∀ v, v ∈ newly s vs ↔ v ∈ vs ∧ v ∉ s) ∧
    (addAll s vs).length = s.length + (newly s vs).length := by
  induction vs generalizing s with
  | nil => simp [newly, addAll]
  | cons x t ih =>
    rw [newly_cons, addAll_cons]
    by_cases hx : x ∈ s
    · have hc : s.contains x = true := by simpa using hx
      simp only [hc, ↓reduceIte]
      rw [insertAsc_of_mem hs hx]
      obtain ⟨i1, i2, i3⟩ := ih s hs
      refine ⟨i1, ?_, i3⟩
      intro v; rw [i2 v, mem_cons]
      constructor
      · rintro ⟨h1, h2⟩; exact ⟨Or.inr h1, h2⟩
      · rintro ⟨h1 | h1, h2⟩
        · subst h1; exact absurd hx h2
        · exact ⟨h1, h2⟩
    · have hc : s.contains x = false := by simpa using hx
      simp only [hc, Bool.false_eq_true, ↓reduceIte]
      obtain ⟨i1, i2, i3⟩ := ih (insertAsc x s) (asc_insertAsc hs)
      refine ⟨?_, ?_, ?_⟩
      · rw [nodup_cons]; refine ⟨?_, i1⟩
        intro hm; have := ((i2 x).mp hm).2; exact this (mem_insertAsc.mpr (Or.inl rfl))
      · intro v; rw [mem_cons, i2 v, mem_cons, mem_insertAsc]
        constructor
        · rintro (h1 | ⟨h1, h2⟩)
          · subst h1; exact ⟨Or.inl rfl, hx⟩
          · exact ⟨Or.inr h1, fun h => h2 (Or.inr h)⟩
        · rintro ⟨h1 | h1, h2⟩
          · exact Or.inl h1
          · by_cases e : v = x
            · exact Or.inl e
            · exact Or.inr ⟨h1, fun h => h.elim e h2⟩
      · rw [i3, length_insertAsc hs]; simp [hx]; omega

theorem length_eraseAsc {s : S} {x : Nat} (hs : Asc s) (hx : x ∈ s) :
    (eraseAsc x s).length + 1 = s.length := by
  induction s with
  | nil => cases hx
  | cons a r ih =>
    have ha := asc_cons.mp hs
    unfold eraseAsc
    rw [filter_cons]
    by_cases e : a = x
    · subst e
      have hnr : a ∉ r := fun hm => by have := ha.1 a hm; omega
      have : eraseAsc a r = r := eraseAsc_of_not_mem hnr
      unfold eraseAsc at this
      simp only [bne_self_eq_false, Bool.false_eq_true, ↓reduceIte, this, length_cons]
    · have hxr : x ∈ r := by
        rcases mem_cons.mp hx with h | h
        · exact absurd h.symm e
        · exact h
      have hne : (a != x) = true := by simpa using e
      simp only [hne, ↓reduceIte, length_cons]
      have := ih ha.2 hxr
      unfold eraseAsc at this
      omega

theorem gone_spec (s : S) (hs : Asc s) (vs : List Nat) :
    (gone s vs).Nodup ∧ (∀ v, v ∈ gone s vs ↔ v ∈ vs ∧ v ∈ s) ∧
    (removeAll s vs).length + (gone s vs).length = s.length := by
  induction vs generalizing s with
  | nil => simp [gone, removeAll_nil]
  | cons x t ih =>
    rw [gone_cons, removeAll_cons]
    by_cases hx : x ∈ s
    · have hc : s.contains x = true := by simpa using hx
      simp only [hc, ↓reduceIte]
      obtain ⟨i1, i2, i3⟩ := ih (eraseAsc x s) (asc_eraseAsc hs)
      refine ⟨?_, ?_, ?_⟩
      · rw [nodup_cons]; refine ⟨?_, i1⟩
        intro hm; have := ((i2 x).mp hm).2; exact (mem_eraseAsc.mp this).2 rfl
      · intro v; rw [mem_cons, i2 v, mem_cons, mem_eraseAsc]
        constructor
        · rintro (h1 | ⟨h1, h2, _⟩)
          · subst h1; exact ⟨Or.inl rfl, hx⟩
          · exact ⟨Or.inr h1, h2⟩
        · rintro ⟨h1 | h1, h2⟩
          · exact Or.inl h1
          · by_cases e : v = x
            · exact Or.inl e
            · exact Or.inr ⟨h1, h2, e⟩
      · have hlen := length_eraseAsc hs hx
        simp only [length_cons]; omega
    · have hc : s.contains x = false := by simpa using hx
      simp only [hc, Bool.false_eq_true, ↓reduceIte]
      rw [eraseAsc_of_not_mem hx]
      obtain ⟨i1, i2, i3⟩ := ih s hs
      refine ⟨i1, ?_, i3⟩
      intro v; rw [i2 v, mem_cons]
      constructor
      · rintro ⟨h1, h2⟩; exact ⟨Or.inr h1, h2⟩
      · rintro ⟨h1 | h1, h2⟩
        · subst h1; exact absurd h2 hx
        · exact ⟨h1, h2⟩

/-- For a duplicate-free batch the changed values are simply the ones not yet in the set. -/
theorem newly_nodup (s : S) (hs : Asc s) (vs : List Nat) (hv : vs.Nodup) :
    newly s vs = vs.filter (fun v => !s.contains v) := by
  induction vs generalizing s with
  | nil => rfl
  | cons x t ih =>
    rw [nodup_cons] at hv
    rw [newly_cons, filter_cons]
    by_cases hx : x ∈ s
    · have hc : s.contains x = true := by simpa using hx
      simp only [hc, ↓reduceIte, Bool.not_true, Bool.false_eq_true]
      exact ih s hs hv.2
    · have hc : s.contains x = false := by simpa using hx
      simp only [hc, Bool.false_eq_true, ↓reduceIte, Bool.not_false]
      rw [ih _ (asc_insertAsc hs) hv.2]
      congr 1
      apply filter_congr
      intro y hy
      have : y ≠ x := by rintro rfl; exact hv.1 hy
      simp [mem_insertAsc, this]

theorem gone_nodup (s : S) (vs : List Nat) (hv : vs.Nodup) :
    gone s vs = vs.filter (fun v => s.contains v) := by
  induction vs generalizing s with
  | nil => rfl
  | cons x t ih =>
    rw [nodup_cons] at hv
    rw [gone_cons, filter_cons]
    by_cases hx : x ∈ s
    · have hc : s.contains x = true := by simpa using hx
      simp only [hc, ↓reduceIte]
      rw [ih _ hv.2]
      congr 1
      apply filter_congr
      intro y hy
      have : y ≠ x := by rintro rfl; exact hv.1 hy
      simp [mem_eraseAsc, this]
    · have hc : s.contains x = false := by simpa using hx
      simp only [hc, Bool.false_eq_true, ↓reduceIte]
      exact ih s hv.2

end PV.C02.Spec
