/-
C02 helper lemmas, part 2: ascending association lists, the laws every container collection must
satisfy (`CollOK`), and their proofs for the B-tree and the slice collection.  Core Lean only.
-/
import PV.C02.LemmasBasic
namespace PV.C02
open List

/-! ### Association lists in ascending key order -/

def KeysAsc {β : Type} (es : List (Nat × β)) : Prop := Asc (es.map Prod.fst)

theorem keysAsc_cons {β : Type} {k : Nat} {v : β} {es : List (Nat × β)} :
    KeysAsc ((k, v) :: es) ↔ (∀ e ∈ es, k < e.1) ∧ KeysAsc es := by
  unfold KeysAsc; rw [map_cons, asc_cons]; simp

theorem lookup_aSet {β : Type} (es : List (Nat × β)) (k k' : Nat) (v : β) :
    List.lookup k' (aSet es k v) = if k' = k then some v else List.lookup k' es := by
  induction es with
  | nil => simp [aSet, lookup_cons]; grind
  | cons e r ih =>
    obtain ⟨a, b⟩ := e
    unfold aSet
    split
    · simp only [lookup_cons]; grind
    · split
      · simp only [lookup_cons]; grind
      · simp only [lookup_cons, ih]; grind

theorem mem_keys_aSet {β : Type} (es : List (Nat × β)) (k : Nat) (v : β) (e : Nat × β) :
    e ∈ aSet es k v → e = (k, v) ∨ e ∈ es := by
  induction es with
  | nil => simp [aSet]
  | cons a r ih =>
    obtain ⟨a, b⟩ := a
    unfold aSet
    split
    · simp
    · split
      · simp; grind
      · simp; grind

theorem keysAsc_aSet {β : Type} {es : List (Nat × β)} (k : Nat) (v : β) (h : KeysAsc es) :
    KeysAsc (aSet es k v) := by
  induction es with
  | nil => simp [aSet, KeysAsc, Asc]
  | cons a r ih =>
    obtain ⟨a, b⟩ := a
    rw [keysAsc_cons] at h
    unfold aSet
    split
    · rw [keysAsc_cons]; refine ⟨?_, keysAsc_cons.mpr h⟩
      intro e he; rcases mem_cons.mp he with rfl | he
      · assumption
      · have := h.1 e he; omega
    · split
      · subst_vars; exact keysAsc_cons.mpr h
      · rw [keysAsc_cons]; refine ⟨?_, ih h.2⟩
        intro e he
        rcases mem_keys_aSet _ _ _ _ he with rfl | he
        · simp; omega
        · exact h.1 e he

theorem lookup_filter_ne {β : Type} (es : List (Nat × β)) (k k' : Nat) :
    List.lookup k' (es.filter (fun e => e.1 != k)) = if k' = k then none else List.lookup k' es := by
  induction es with
  | nil => simp
  | cons e r ih =>
    obtain ⟨a, b⟩ := e
    simp only [filter_cons]
    split
    · simp only [lookup_cons, ih]; grind
    · simp only [lookup_cons, ih]; grind

theorem keysAsc_filter {β : Type} {es : List (Nat × β)} (p : Nat × β → Bool) (h : KeysAsc es) :
    KeysAsc (es.filter p) := by
  unfold KeysAsc Asc at *
  rw [pairwise_map] at *
  exact Pairwise.filter _ h

theorem lookup_eq_some_of_mem {β : Type} {es : List (Nat × β)} {k : Nat} {v : β} (h : KeysAsc es)
    (hm : (k, v) ∈ es) : List.lookup k es = some v := by
  induction es with
  | nil => cases hm
  | cons e r ih =>
    obtain ⟨a, b⟩ := e
    rw [keysAsc_cons] at h
    rcases mem_cons.mp hm with e | hm
    · cases e; simp
    · have := h.1 _ hm
      simp only [lookup_cons]
      have : (k == a) = false := by simp; simp at this; omega
      rw [this]; exact ih h.2 hm

theorem mem_of_lookup_eq_some {β : Type} {es : List (Nat × β)} {k : Nat} {v : β}
    (h : List.lookup k es = some v) : (k, v) ∈ es := by
  induction es with
  | nil => simp at h
  | cons e r ih =>
    obtain ⟨a, b⟩ := e
    simp only [lookup_cons] at h
    split at h
    · rename_i heq; simp at heq h; subst heq; subst h; simp
    · exact mem_cons_of_mem _ (ih h)

theorem lookup_eq_none_of_lt {β : Type} {es : List (Nat × β)} {k : Nat}
    (h : ∀ e ∈ es, k < e.1) : List.lookup k es = none := by
  induction es with
  | nil => rfl
  | cons e r ih =>
    obtain ⟨a, b⟩ := e
    have := h (a, b) (by simp)
    simp only [lookup_cons]
    have : (k == a) = false := by simp; simp at this; omega
    rw [this]; exact ih (fun e he => h e (by simp [he]))

theorem lookup_map_some (t : List (Nat × Nat)) (k : Nat) :
    List.lookup k (t.map (fun e => (e.1, some e.2))) = (List.lookup k t).map some := by
  induction t with
  | nil => rfl
  | cons e r ih => obtain ⟨a, b⟩ := e; simp only [map_cons, lookup_cons, ih]; split <;> simp

/-! ### Abstract view of a collection: key ↦ stored pointer -/

/-- The pointer stored for key `k` (none: no entry, or an entry holding nil). -/
def lk {σ : Type} (C : Coll σ) (s : σ) (k : Nat) : Ptr := (List.lookup k (C.ents s)).join

/-- Contents stored for key `k`. -/
def contentsOf {σ : Type} (C : Coll σ) (s : σ) (h : Heap) (k : Nat) : Cell :=
  match lk C s k with
  | none => []
  | some i => hget h i

structure HeapOK {σ : Type} (C : Coll σ) (s : σ) (h : Heap) : Prop where
  ptr : ∀ k i, lk C s k = some i → i < h.length
  cell : ∀ k i, lk C s k = some i → CellOK (hget h i)
  inj : ∀ k k' i, lk C s k = some i → lk C s k' = some i → k = k'

/-- The laws the Bitmap code relies on. `Inv` is the collection's own invariant (key order and
lookaside coherence). -/
structure CollOK {σ : Type} (C : Coll σ) where
  Inv : σ → Prop
  init : Inv C.init
  init_ents : C.ents C.init = []
  keys : ∀ s, Inv s → KeysAsc (C.ents s)
  keyok : ∀ s k i, Inv s → lk C s k = some i → k < INVALID
  get : ∀ s k, Inv s →
    Inv (C.get s k).1 ∧ (C.get s k).2 = lk C s k ∧ C.ents (C.get s k).1 = C.ents s
  put : ∀ s k c, Inv s → k < INVALID →
    Inv (C.put s k c) ∧ ∀ k', lk C (C.put s k c) k' = if k' = k then c else lk C s k'
  remove : ∀ s k, Inv s →
    Inv (C.remove s k) ∧ ∀ k', lk C (C.remove s k) k' = if k' = k then none else lk C s k'
  goc : ∀ s h k, Inv s → k < INVALID →
    Inv (C.getOrCreate s h k).1 ∧ (C.getOrCreate s h k).2.2 = lk C (C.getOrCreate s h k).1 k ∧
    (∀ k', k' ≠ k → lk C (C.getOrCreate s h k).1 k' = lk C s k') ∧
    (((C.getOrCreate s h k).2.2 = lk C s k ∧ (C.getOrCreate s h k).2.1 = h) ∨
     (lk C s k = none ∧ (C.getOrCreate s h k).2.2 = some h.length ∧ (C.getOrCreate s h k).2.1 = h ++ [[]]))
  update : ∀ {α : Type} s k (fn : Ptr → Bool → α × Ptr × Bool), Inv s → k < INVALID →
    ∃ e, (∀ i, lk C s k = some i → e = true) ∧
      (C.update s k fn).2 = (fn (lk C s k) e).1 ∧ Inv (C.update s k fn).1 ∧
      ∀ k', lk C (C.update s k fn).1 k' =
        if k' = k ∧ (fn (lk C s k) e).2.2 = true then (fn (lk C s k) e).2.1 else lk C s k'
  everyOpt : ∀ p s h, Inv s → HeapOK C s h →
    Inv (C.updateEvery s h (optFn p)).1 ∧
    HeapOK C (C.updateEvery s h (optFn p)).1 (C.updateEvery s h (optFn p)).2 ∧
    ∀ k, contentsOf C (C.updateEvery s h (optFn p)).1 (C.updateEvery s h (optFn p)).2 k = contentsOf C s h k
  reset : ∀ s, Inv (C.reset s) ∧ C.ents (C.reset s) = []

end PV.C02
