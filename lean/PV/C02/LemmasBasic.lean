/-
C02 helper lemmas, part 1: ascending lists (insert / erase / union / difference), the heap.
Core Lean only.
-/
import PV.C02.Model
namespace PV.C02
open List

/-- Strictly ascending. -/
def Asc (l : List Nat) : Prop := l.Pairwise (· < ·)

/-- A well-formed container: strictly ascending `uint16` values. -/
def CellOK (c : Cell) : Prop := Asc c ∧ ∀ x ∈ c, x < W

/-- Contents behind a pointer (nil: nothing). -/
def pcell (h : Heap) : Ptr → Cell
  | none => []
  | some i => hget h i

theorem asc_nil : Asc [] := Pairwise.nil

theorem asc_cons {a : Nat} {l : List Nat} : Asc (a :: l) ↔ (∀ x ∈ l, a < x) ∧ Asc l := by
  unfold Asc; exact pairwise_cons

/-! ### insertAsc -/

theorem mem_insertAsc {x y : Nat} {l : List Nat} : y ∈ insertAsc x l ↔ y = x ∨ y ∈ l := by
  induction l with
  | nil => simp [insertAsc]
  | cons a t ih =>
    unfold insertAsc
    split
    · simp
    · split
      · subst_vars; simp
      · simp [ih]; grind

theorem asc_insertAsc {x : Nat} {l : List Nat} (h : Asc l) : Asc (insertAsc x l) := by
  induction l with
  | nil => simp [insertAsc, Asc]
  | cons a t ih =>
    rw [asc_cons] at h
    unfold insertAsc
    split
    · rw [asc_cons]; refine ⟨?_, asc_cons.mpr h⟩
      intro y hy; rcases mem_cons.mp hy with rfl | hy
      · assumption
      · have := h.1 y hy; omega
    · split
      · exact asc_cons.mpr h
      · rw [asc_cons]; refine ⟨?_, ih h.2⟩
        intro y hy; rcases mem_insertAsc.mp hy with rfl | hy
        · omega
        · exact h.1 y hy

theorem insertAsc_of_mem {x : Nat} {l : List Nat} (h : Asc l) (hx : x ∈ l) : insertAsc x l = l := by
  induction l with
  | nil => cases hx
  | cons a t ih =>
    rw [asc_cons] at h
    unfold insertAsc
    rcases mem_cons.mp hx with rfl | hx
    · simp
    · have := h.1 x hx
      have h1 : ¬ x < a := by omega
      have h2 : ¬ x = a := by omega
      simp [h1, h2, ih h.2 hx]

theorem length_insertAsc {x : Nat} {l : List Nat} (h : Asc l) :
    (insertAsc x l).length = if x ∈ l then l.length else l.length + 1 := by
  induction l with
  | nil => simp [insertAsc]
  | cons a t ih =>
    rw [asc_cons] at h
    unfold insertAsc
    split
    · rename_i hlt
      have : x ∉ a :: t := by
        intro hm; rcases mem_cons.mp hm with rfl | hm
        · omega
        · have := h.1 x hm; omega
      simp [this]
    · split
      · subst_vars; simp
      · rename_i h1 h2
        have hne : ¬ x = a := h2
        simp only [length_cons, ih h.2, mem_cons, hne, false_or]
        split <;> rfl

theorem contains_insertAsc {x y : Nat} {l : List Nat} :
    (insertAsc x l).contains y = (y == x || l.contains y) := by
  rw [Bool.eq_iff_iff]; simp [mem_insertAsc]

/-! ### eraseAsc / diffAsc -/

theorem mem_eraseAsc {x y : Nat} {l : List Nat} : y ∈ eraseAsc x l ↔ y ∈ l ∧ y ≠ x := by
  simp [eraseAsc]

theorem asc_eraseAsc {x : Nat} {l : List Nat} (h : Asc l) : Asc (eraseAsc x l) :=
  Pairwise.filter _ h

theorem eraseAsc_of_not_mem {x : Nat} {l : List Nat} (hx : x ∉ l) : eraseAsc x l = l := by
  unfold eraseAsc; rw [filter_eq_self]; intro a ha; simp; rintro rfl; exact hx ha

/-! ### The fold / filter formulations (what `Spec.addAll` / `Spec.removeAll` are) -/

def unionFold (a b : Cell) : Cell := b.foldl (fun acc x => insertAsc x acc) a
def diffFilter (a b : Cell) : Cell := a.filter (fun x => !b.contains x)

theorem mem_diffFilter {y : Nat} {a b : List Nat} : y ∈ diffFilter a b ↔ y ∈ a ∧ y ∉ b := by
  simp [diffFilter]

theorem asc_diffFilter {a b : List Nat} (h : Asc a) : Asc (diffFilter a b) := Pairwise.filter _ h

theorem mem_unionFold {y : Nat} {a b : List Nat} : y ∈ unionFold a b ↔ y ∈ a ∨ y ∈ b := by
  unfold unionFold
  induction b generalizing a with
  | nil => simp
  | cons x t ih => simp only [foldl_cons, ih, mem_insertAsc, mem_cons]; grind

theorem asc_unionFold {a b : List Nat} (h : Asc a) : Asc (unionFold a b) := by
  unfold unionFold
  induction b generalizing a with
  | nil => simpa
  | cons x t ih => simp only [foldl_cons]; exact ih (asc_insertAsc h)

theorem length_le_unionFold {a b : List Nat} (h : Asc a) : a.length ≤ (unionFold a b).length := by
  unfold unionFold
  induction b generalizing a with
  | nil => simp
  | cons x t ih =>
    simp only [foldl_cons]
    have := ih (asc_insertAsc (x := x) h)
    have h2 := length_insertAsc (x := x) h
    split at h2 <;> omega

theorem unionFold_eq_of_length {a b : List Nat} (h : Asc a) (hl : (unionFold a b).length = a.length) :
    unionFold a b = a := by
  unfold unionFold at *
  induction b generalizing a with
  | nil => simp
  | cons x t ih =>
    simp only [foldl_cons] at *
    have hge := length_le_unionFold (b := t) (asc_insertAsc (x := x) h)
    unfold unionFold at hge
    have h2 := length_insertAsc (x := x) h
    by_cases hx : x ∈ a
    · rw [insertAsc_of_mem h hx] at hl ⊢; exact ih h hl
    · simp [hx] at h2; omega

theorem length_unionFold {a b : List Nat} (h : Asc a) (hb : b.Nodup) :
    (unionFold a b).length = a.length + (b.filter (fun x => !a.contains x)).length := by
  unfold unionFold
  induction b generalizing a with
  | nil => simp
  | cons x t ih =>
    simp only [foldl_cons]
    rw [nodup_cons] at hb
    rw [ih (asc_insertAsc h) hb.2, length_insertAsc h]
    have hf : t.filter (fun y => !(insertAsc x a).contains y) = t.filter (fun y => !a.contains y) := by
      apply filter_congr; intro y hy
      have : y ≠ x := by rintro rfl; exact hb.1 hy
      simp [mem_insertAsc, this]
    rw [hf, filter_cons]
    by_cases hx : x ∈ a <;> simp [hx]
    omega

/-! ### Pigeonhole for ascending lists of bounded values -/

theorem asc_length_le {l : List Nat} {lo n : Nat} (h : Asc l) (hb : ∀ x ∈ l, lo ≤ x ∧ x < n)
    (hlo : lo ≤ n) : l.length + lo ≤ n := by
  induction l generalizing lo with
  | nil => simpa
  | cons a t ih =>
    rw [asc_cons] at h
    have ha := hb a (by simp)
    have := ih (lo := a + 1) h.2 (fun x hx => ⟨h.1 x hx, (hb x (by simp [hx])).2⟩) (by omega)
    simp only [length_cons]; omega

/-- A full container (N = 65536) contains every `uint16`. -/
theorem mem_of_full {l : List Nat} {n x : Nat} (h : Asc l) (hb : ∀ y ∈ l, y < n) (hl : l.length = n)
    (hx : x < n) : x ∈ l := by
  by_cases hm : x ∈ l
  · exact hm
  · exfalso
    have h1 := asc_insertAsc (x := x) h
    have h2 := length_insertAsc (x := x) h
    simp [hm] at h2
    have := asc_length_le (l := insertAsc x l) (lo := 0) (n := n) h1
      (by intro y hy; rcases mem_insertAsc.mp hy with rfl | hy
          · exact ⟨Nat.zero_le _, hx⟩
          · exact ⟨Nat.zero_le _, hb y hy⟩) (Nat.zero_le _)
    omega

/-! ### Two ascending lists with the same members are equal -/

theorem asc_ext {l₁ l₂ : List Nat} (h₁ : Asc l₁) (h₂ : Asc l₂) (h : ∀ v, v ∈ l₁ ↔ v ∈ l₂) : l₁ = l₂ := by
  induction l₁ generalizing l₂ with
  | nil =>
    cases l₂ with
    | nil => rfl
    | cons b t => exact absurd ((h b).mpr (by simp)) (by simp)
  | cons a t ih =>
    cases l₂ with
    | nil => exact absurd ((h a).mp (by simp)) (by simp)
    | cons b u =>
      rw [asc_cons] at h₁ h₂
      have hab : a = b := by
        have ha := (h a).mp (by simp)
        have hb := (h b).mpr (by simp)
        rcases mem_cons.mp ha with e | ha'
        · exact e
        · rcases mem_cons.mp hb with e | hb'
          · exact e.symm
          · have := h₂.1 a ha'; have := h₁.1 b hb'; omega
      subst hab
      congr 1
      apply ih h₁.2 h₂.2
      intro v
      constructor
      · intro hv
        have := (h v).mp (by simp [hv])
        rcases mem_cons.mp this with e | hv'
        · have := h₁.1 v hv; omega
        · exact hv'
      · intro hv
        have := (h v).mpr (by simp [hv])
        rcases mem_cons.mp this with e | hv'
        · have := h₂.1 v hv; omega
        · exact hv'

/-! ### The merge formulations used by the model (`unionAsc`, `diffAsc`) -/

theorem mem_unionAux {y : Nat} : ∀ (n : Nat) (a b : List Nat), a.length + b.length ≤ n →
    (y ∈ unionAux n a b ↔ y ∈ a ∨ y ∈ b) := by
  intro n
  induction n with
  | zero =>
    intro a b h
    have ha : a = [] := length_eq_zero_iff.mp (by omega)
    have hb : b = [] := length_eq_zero_iff.mp (by omega)
    subst ha; subst hb; simp [unionAux]
  | succ n ih =>
    intro a b h
    cases a with
    | nil => simp [unionAux]
    | cons x xs =>
      cases b with
      | nil => simp [unionAux]
      | cons z zs =>
        simp only [length_cons] at h
        simp only [unionAux]
        split
        · rw [mem_cons, ih xs (z :: zs) (by simp only [length_cons]; omega)]; simp only [mem_cons]; grind
        · split
          · rw [mem_cons, ih (x :: xs) zs (by simp only [length_cons]; omega)]; simp only [mem_cons]; grind
          · have : x = z := by omega
            subst this
            rw [mem_cons, ih xs zs (by omega)]; simp only [mem_cons]; grind

theorem mem_unionAsc {y : Nat} {a b : List Nat} : y ∈ unionAsc a b ↔ y ∈ a ∨ y ∈ b :=
  mem_unionAux _ a b (Nat.le_refl _)

theorem asc_unionAux : ∀ (n : Nat) (a b : List Nat), a.length + b.length ≤ n → Asc a → Asc b →
    Asc (unionAux n a b) := by
  intro n
  induction n with
  | zero => intro a b _ ha _; simpa [unionAux] using ha
  | succ n ih =>
    intro a b h ha hb
    cases a with
    | nil => simpa [unionAux] using hb
    | cons x xs =>
      cases b with
      | nil => simpa [unionAux] using ha
      | cons z zs =>
        simp only [length_cons] at h
        have ha' := asc_cons.mp ha
        have hb' := asc_cons.mp hb
        simp only [unionAux]
        split
        · rename_i hlt
          have hl : xs.length + (z :: zs).length ≤ n := by simp only [length_cons]; omega
          rw [asc_cons]; refine ⟨?_, ih xs (z :: zs) hl ha'.2 hb⟩
          intro w hw
          rcases (mem_unionAux n xs (z :: zs) hl).mp hw with h1 | h1
          · exact ha'.1 w h1
          · rcases mem_cons.mp h1 with rfl | h2
            · exact hlt
            · have := hb'.1 w h2; omega
        · split
          · rename_i hnlt hlt
            have hl : (x :: xs).length + zs.length ≤ n := by simp only [length_cons]; omega
            rw [asc_cons]; refine ⟨?_, ih (x :: xs) zs hl ha hb'.2⟩
            intro w hw
            rcases (mem_unionAux n (x :: xs) zs hl).mp hw with h1 | h1
            · rcases mem_cons.mp h1 with rfl | h2
              · exact hlt
              · have := ha'.1 w h2; omega
            · exact hb'.1 w h1
          · have hxz : x = z := by omega
            subst hxz
            have hl : xs.length + zs.length ≤ n := by omega
            rw [asc_cons]; refine ⟨?_, ih xs zs hl ha'.2 hb'.2⟩
            intro w hw
            rcases (mem_unionAux n xs zs hl).mp hw with h1 | h1
            · exact ha'.1 w h1
            · exact hb'.1 w h1

theorem asc_unionAsc {a b : List Nat} (ha : Asc a) (hb : Asc b) : Asc (unionAsc a b) :=
  asc_unionAux _ a b (Nat.le_refl _) ha hb

/-- On ascending lists the merge is the fold of inserts (i.e. `Spec.addAll`). -/
theorem unionAsc_eq_fold {a b : List Nat} (ha : Asc a) (hb : Asc b) : unionAsc a b = unionFold a b :=
  asc_ext (asc_unionAsc ha hb) (asc_unionFold ha) (fun v => by rw [mem_unionAsc, mem_unionFold])

theorem length_le_unionAsc {a b : List Nat} (ha : Asc a) (hb : Asc b) : a.length ≤ (unionAsc a b).length := by
  rw [unionAsc_eq_fold ha hb]; exact length_le_unionFold ha

theorem unionAsc_eq_of_length {a b : List Nat} (ha : Asc a) (hb : Asc b)
    (hl : (unionAsc a b).length = a.length) : unionAsc a b = a := by
  rw [unionAsc_eq_fold ha hb] at hl ⊢; exact unionFold_eq_of_length ha hl

theorem asc_nodup' {l : List Nat} (h : Asc l) : l.Nodup := by
  unfold Asc at h
  exact Pairwise.imp (fun {a b} hab => by omega) h

theorem length_unionAsc {a b : List Nat} (ha : Asc a) (hb : Asc b) :
    (unionAsc a b).length = a.length + (b.filter (fun x => !a.contains x)).length := by
  rw [unionAsc_eq_fold ha hb]; exact length_unionFold ha (asc_nodup' hb)

theorem diffAux_sublist : ∀ (n : Nat) (a b : List Nat), diffAux n a b <+ a := by
  intro n
  induction n with
  | zero => intro a b; simp [diffAux]
  | succ n ih =>
    intro a b
    cases a with
    | nil => simp [diffAux]
    | cons x xs =>
      cases b with
      | nil => simp [diffAux]
      | cons z zs =>
        simp only [diffAux]
        split
        · exact (ih xs (z :: zs)).cons_cons x
        · split
          · exact ih (x :: xs) zs
          · exact (ih xs zs).cons x

theorem diffAsc_sublist (a b : List Nat) : diffAsc a b <+ a := diffAux_sublist _ a b

theorem asc_diffAsc {a b : List Nat} (h : Asc a) : Asc (diffAsc a b) :=
  Pairwise.sublist (diffAsc_sublist a b) h

theorem mem_diffAux {y : Nat} : ∀ (n : Nat) (a b : List Nat), a.length + b.length ≤ n → Asc a → Asc b →
    (y ∈ diffAux n a b ↔ y ∈ a ∧ y ∉ b) := by
  intro n
  induction n with
  | zero =>
    intro a b h _ _
    have hb : b = [] := length_eq_zero_iff.mp (by omega)
    subst hb; simp [diffAux]
  | succ n ih =>
    intro a b h ha hb
    cases a with
    | nil => simp [diffAux]
    | cons x xs =>
      cases b with
      | nil => simp [diffAux]
      | cons z zs =>
        simp only [length_cons] at h
        have ha' := asc_cons.mp ha
        have hb' := asc_cons.mp hb
        simp only [diffAux]
        split
        · rename_i hlt
          rw [mem_cons, ih xs (z :: zs) (by simp only [length_cons]; omega) ha'.2 hb]
          simp only [mem_cons]
          constructor
          · rintro (rfl | ⟨h1, h2⟩)
            · refine ⟨Or.inl rfl, ?_⟩
              rintro (e | e)
              · omega
              · have := hb'.1 y e; omega
            · exact ⟨Or.inr h1, h2⟩
          · rintro ⟨h1 | h1, h2⟩
            · exact Or.inl h1
            · exact Or.inr ⟨h1, h2⟩
        · split
          · rename_i hnlt hlt
            rw [ih (x :: xs) zs (by simp only [length_cons]; omega) ha hb'.2]
            simp only [mem_cons]
            constructor
            · rintro ⟨h1, h2⟩
              refine ⟨h1, ?_⟩
              rintro (e | e)
              · rcases h1 with e1 | e1
                · omega
                · have := ha'.1 y e1; omega
              · exact h2 e
            · rintro ⟨h1, h2⟩
              exact ⟨h1, fun e => h2 (Or.inr e)⟩
          · have hxz : x = z := by omega
            subst hxz
            rw [ih xs zs (by omega) ha'.2 hb'.2]
            simp only [mem_cons]
            constructor
            · rintro ⟨h1, h2⟩
              refine ⟨Or.inr h1, ?_⟩
              rintro (e | e)
              · have := ha'.1 y h1; omega
              · exact h2 e
            · rintro ⟨h1 | h1, h2⟩
              · exact absurd (Or.inl h1) h2
              · exact ⟨h1, fun e => h2 (Or.inr e)⟩

theorem mem_diffAsc {y : Nat} {a b : List Nat} (ha : Asc a) (hb : Asc b) :
    y ∈ diffAsc a b ↔ y ∈ a ∧ y ∉ b :=
  mem_diffAux _ a b (Nat.le_refl _) ha hb

/-- On ascending lists the merge difference is the filter (i.e. `Spec.removeAll`). -/
theorem diffAsc_eq_filter {a b : List Nat} (ha : Asc a) (hb : Asc b) : diffAsc a b = diffFilter a b :=
  asc_ext (asc_diffAsc ha) (asc_diffFilter ha) (fun v => by rw [mem_diffAsc ha hb, mem_diffFilter])

theorem diffAsc_nil (b : List Nat) : diffAsc [] b = [] := by
  have := diffAsc_sublist [] b
  exact eq_nil_of_sublist_nil this

/-! ### Heap -/

theorem hget_append_lt {h : Heap} {c : Cell} {i : Nat} (hi : i < h.length) : hget (h ++ [c]) i = hget h i := by
  simp [hget, getD_eq_getElem?_getD, getElem?_append_left hi]

theorem hget_append_eq {h : Heap} {c : Cell} : hget (h ++ [c]) h.length = c := by
  simp [hget, getD_eq_getElem?_getD]

theorem hget_hset_eq {h : Heap} {c : Cell} {i : Nat} (hi : i < h.length) : hget (hset h i c) i = c := by
  simp [hget, hset, getD_eq_getElem?_getD, hi]

theorem hget_hset_ne {h : Heap} {c : Cell} {i j : Nat} (hij : i ≠ j) : hget (hset h i c) j = hget h j := by
  simp [hget, hset, getD_eq_getElem?_getD, hij]

theorem length_hset {h : Heap} {c : Cell} {i : Nat} : (hset h i c).length = h.length := by
  simp [hset]

end PV.C02
