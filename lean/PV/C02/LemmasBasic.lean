/-
C02 helper lemmas, part 1: ascending lists (insert / erase / union / difference), the heap.
Core Lean only.
-/
import PV.C02.Model
namespace PV.C02
open List

/-- Strictly ascending. -/
def Asc (l : List Nat) : Prop := l.Pairwise (· < ·)

/-- A well-formed container: strictly ascending `uint16` values. -/
def CellOK (c : Cell) : Prop := Asc c ∧ ∀ x ∈ c, x < W

/-- Contents behind a pointer (nil: nothing). -/
def pcell (h : Heap) : Ptr → Cell
  | none => []
  | some i => hget h i

theorem asc_nil : Asc [] := Pairwise.nil

theorem asc_cons {a : Nat} {l : List Nat} : Asc (a :: l) ↔ (∀ x ∈ l, a < x) ∧ Asc l := by
  unfold Asc; exact pairwise_cons

/-! ### insertAsc -/

theorem mem_insertAsc {x y : Nat} {l : List Nat} : y ∈ insertAsc x l ↔ y = x ∨ y ∈ l := by
  induction l with
  | nil => simp [insertAsc]
  | cons a t ih =>
    unfold insertAsc
    split
    · simp
    · split
      · subst_vars; simp
      · simp [ih]; grind

theorem asc_insertAsc {x : Nat} {l : List Nat} (h : Asc l) : Asc (insertAsc x l) := by
  induction l with
  | nil => simp [insertAsc, Asc]
  | cons a t ih =>
    rw [asc_cons] at h
    unfold insertAsc
    split
    · rw [asc_cons]; refine ⟨?_, asc_cons.mpr h⟩
      intro y hy; rcases mem_cons.mp hy with rfl | hy
      · assumption
      · have := h.1 y hy; omega
    · split
      · exact asc_cons.mpr h
      · rw [asc_cons]; refine ⟨?_, ih h.2⟩
        intro y hy; rcases mem_insertAsc.mp hy with rfl | hy
        · omega
        · exact h.1 y hy

theorem insertAsc_of_mem {x : Nat} {l : List Nat} (h : Asc l) (hx : x ∈ l) : insertAsc x l = l := by
  induction l with
  | nil => cases hx
  | cons a t ih =>
    rw [asc_cons] at h
    unfold insertAsc
    rcases mem_cons.mp hx with rfl | hx
    · simp
    · have := h.1 x hx
      have h1 : ¬ x < a := by omega
      have h2 : ¬ x = a := by omega
      simp [h1, h2, ih h.2 hx]

theorem length_insertAsc {x : Nat} {l : List Nat} (h : Asc l) :
    (insertAsc x l).length = if x ∈ l then l.length else l.length + 1 := by
  induction l with
  | nil => simp [insertAsc]
  | cons a t ih =>
    rw [asc_cons] at h
    unfold insertAsc
    split
    · rename_i hlt
      have : x ∉ a :: t := by
        intro hm; rcases mem_cons.mp hm with rfl | hm
        · omega
        · have := h.1 x hm; omega
      simp [this]
    · split
      · subst_vars; simp
      · rename_i h1 h2
        have hne : ¬ x = a := h2
        simp only [length_cons, ih h.2, mem_cons, hne, false_or]
        split <;> rfl

theorem contains_insertAsc {x y : Nat} {l : List Nat} :
    (insertAsc x l).contains y = (y == x || l.contains y) := by
  rw [Bool.eq_iff_iff]; simp [mem_insertAsc]

/-! ### eraseAsc / diffAsc -/

theorem mem_eraseAsc {x y : Nat} {l : List Nat} : y ∈ eraseAsc x l ↔ y ∈ l ∧ y ≠ x := by
  simp [eraseAsc]

theorem asc_eraseAsc {x : Nat} {l : List Nat} (h : Asc l) : Asc (eraseAsc x l) :=
  Pairwise.filter _ h

theorem eraseAsc_of_not_mem {x : Nat} {l : List Nat} (hx : x ∉ l) : eraseAsc x l = l := by
  unfold eraseAsc; rw [filter_eq_self]; intro a ha; simp; rintro rfl; exact hx ha

theorem mem_diffAsc {y : Nat} {a b : List Nat} : y ∈ diffAsc a b ↔ y ∈ a ∧ y ∉ b := by
  simp [diffAsc]

theorem asc_diffAsc {a b : List Nat} (h : Asc a) : Asc (diffAsc a b) := Pairwise.filter _ h

/-! ### unionAsc -/

theorem mem_unionAsc {y : Nat} {a b : List Nat} : y ∈ unionAsc a b ↔ y ∈ a ∨ y ∈ b := by
  unfold unionAsc
  induction b generalizing a with
  | nil => simp
  | cons x t ih => simp only [foldl_cons, ih, mem_insertAsc, mem_cons]; grind

theorem asc_unionAsc {a b : List Nat} (h : Asc a) : Asc (unionAsc a b) := by
  unfold unionAsc
  induction b generalizing a with
  | nil => simpa
  | cons x t ih => simp only [foldl_cons]; exact ih (asc_insertAsc h)

theorem length_le_unionAsc {a b : List Nat} (h : Asc a) : a.length ≤ (unionAsc a b).length := by
  unfold unionAsc
  induction b generalizing a with
  | nil => simp
  | cons x t ih =>
    simp only [foldl_cons]
    have := ih (asc_insertAsc (x := x) h)
    have h2 := length_insertAsc (x := x) h
    split at h2 <;> omega

/-- Union that does not grow adds nothing. -/
theorem unionAsc_eq_of_length {a b : List Nat} (h : Asc a) (hl : (unionAsc a b).length = a.length) :
    unionAsc a b = a := by
  unfold unionAsc at *
  induction b generalizing a with
  | nil => simp
  | cons x t ih =>
    simp only [foldl_cons] at *
    have hge := length_le_unionAsc (b := t) (asc_insertAsc (x := x) h)
    unfold unionAsc at hge
    have h2 := length_insertAsc (x := x) h
    by_cases hx : x ∈ a
    · rw [insertAsc_of_mem h hx] at hl ⊢; exact ih h hl
    · simp [hx] at h2; omega

/-- The growth of a union is the number of new values. -/
theorem length_unionAsc {a b : List Nat} (h : Asc a) (hb : b.Nodup) :
    (unionAsc a b).length = a.length + (b.filter (fun x => !a.contains x)).length := by
  unfold unionAsc
  induction b generalizing a with
  | nil => simp
  | cons x t ih =>
    simp only [foldl_cons]
    rw [nodup_cons] at hb
    rw [ih (asc_insertAsc h) hb.2, length_insertAsc h]
    have hf : t.filter (fun y => !(insertAsc x a).contains y) = t.filter (fun y => !a.contains y) := by
      apply filter_congr; intro y hy
      have : y ≠ x := by rintro rfl; exact hb.1 hy
      simp [mem_insertAsc, this]
    rw [hf, filter_cons]
    by_cases hx : x ∈ a <;> simp [hx]
    omega

/-! ### Pigeonhole for ascending lists of bounded values -/

theorem asc_length_le {l : List Nat} {lo n : Nat} (h : Asc l) (hb : ∀ x ∈ l, lo ≤ x ∧ x < n)
    (hlo : lo ≤ n) : l.length + lo ≤ n := by
  induction l generalizing lo with
  | nil => simpa
  | cons a t ih =>
    rw [asc_cons] at h
    have ha := hb a (by simp)
    have := ih (lo := a + 1) h.2 (fun x hx => ⟨h.1 x hx, (hb x (by simp [hx])).2⟩) (by omega)
    simp only [length_cons]; omega

/-- A full container (N = 65536) contains every `uint16`. -/
theorem mem_of_full {l : List Nat} {n x : Nat} (h : Asc l) (hb : ∀ y ∈ l, y < n) (hl : l.length = n)
    (hx : x < n) : x ∈ l := by
  by_cases hm : x ∈ l
  · exact hm
  · exfalso
    have h1 := asc_insertAsc (x := x) h
    have h2 := length_insertAsc (x := x) h
    simp [hm] at h2
    have := asc_length_le (l := insertAsc x l) (lo := 0) (n := n) h1
      (by intro y hy; rcases mem_insertAsc.mp hy with rfl | hy
          · exact ⟨Nat.zero_le _, hx⟩
          · exact ⟨Nat.zero_le _, hb y hy⟩) (Nat.zero_le _)
    omega

/-! ### Two ascending lists with the same members are equal -/

theorem asc_ext {l₁ l₂ : List Nat} (h₁ : Asc l₁) (h₂ : Asc l₂) (h : ∀ v, v ∈ l₁ ↔ v ∈ l₂) : l₁ = l₂ := by
  induction l₁ generalizing l₂ with
  | nil =>
    cases l₂ with
    | nil => rfl
    | cons b t => exact absurd ((h b).mpr (by simp)) (by simp)
  | cons a t ih =>
    cases l₂ with
    | nil => exact absurd ((h a).mp (by simp)) (by simp)
    | cons b u =>
      rw [asc_cons] at h₁ h₂
      have hab : a = b := by
        have ha := (h a).mp (by simp)
        have hb := (h b).mpr (by simp)
        rcases mem_cons.mp ha with e | ha'
        · exact e
        · rcases mem_cons.mp hb with e | hb'
          · exact e.symm
          · have := h₂.1 a ha'; have := h₁.1 b hb'; omega
      subst hab
      congr 1
      apply ih h₁.2 h₂.2
      intro v
      constructor
      · intro hv
        have := (h v).mp (by simp [hv])
        rcases mem_cons.mp this with e | hv'
        · have := h₁.1 v hv; omega
        · exact hv'
      · intro hv
        have := (h v).mpr (by simp [hv])
        rcases mem_cons.mp this with e | hv'
        · have := h₂.1 v hv; omega
        · exact hv'

/-! ### Heap -/

theorem hget_append_lt {h : Heap} {c : Cell} {i : Nat} (hi : i < h.length) : hget (h ++ [c]) i = hget h i := by
  simp [hget, getD_eq_getElem?_getD, getElem?_append_left hi]

theorem hget_append_eq {h : Heap} {c : Cell} : hget (h ++ [c]) h.length = c := by
  simp [hget, getD_eq_getElem?_getD]

theorem hget_hset_eq {h : Heap} {c : Cell} {i : Nat} (hi : i < h.length) : hget (hset h i c) i = c := by
  simp [hget, hset, getD_eq_getElem?_getD, hi]

theorem hget_hset_ne {h : Heap} {c : Cell} {i j : Nat} (hij : i ≠ j) : hget (hset h i c) j = hget h j := by
  simp [hget, hset, getD_eq_getElem?_getD, hij]

theorem length_hset {h : Heap} {c : Cell} {i : Nat} : (hset h i c).length = h.length := by
  simp [hset]

end PV.C02
