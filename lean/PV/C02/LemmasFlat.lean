/-
C02 helper lemmas, part 5: a key-ordered list of containers flattened to the ascending list of
its values (`flat`), and the set-level facts the Spec needs.  Core Lean only.
-/
import PV.C02.LemmasBasic
import PV.C02.Spec
namespace PV.C02
open List

/-- Values of a key-ordered list of (key, container contents). -/
def flat (L : List (Nat × Cell)) : List Nat :=
  L.flatMap (fun e => e.2.map (fun x => e.1 * W + x))

structure LOK (L : List (Nat × Cell)) : Prop where
  keys : L.Pairwise (fun a b => a.1 < b.1)
  cells : ∀ e ∈ L, CellOK e.2

theorem W_pos : 0 < W := by unfold W; omega

theorem div_W {k x : Nat} (hx : x < W) : (k * W + x) / W = k := by
  rw [Nat.mul_comm, Nat.mul_add_div W_pos, Nat.div_eq_of_lt hx]; simp

theorem mod_W {k x : Nat} (hx : x < W) : (k * W + x) % W = x := by
  rw [Nat.mul_comm, Nat.mul_add_mod, Nat.mod_eq_of_lt hx]

theorem split_W (v : Nat) : v / W * W + v % W = v := by
  rw [Nat.mul_comm]; exact Nat.div_add_mod v W

theorem mem_flat {L : List (Nat × Cell)} (hL : LOK L) {v : Nat} :
    v ∈ flat L ↔ ∃ c, (v / W, c) ∈ L ∧ v % W ∈ c := by
  unfold flat
  simp only [mem_flatMap, mem_map]
  constructor
  · rintro ⟨⟨k, c⟩, he, x, hx, rfl⟩
    have hxW := (hL.cells _ he).2 x hx
    simp only at hxW ⊢
    rw [div_W hxW, mod_W hxW]
    exact ⟨c, he, hx⟩
  · rintro ⟨c, he, hx⟩
    exact ⟨(v / W, c), he, v % W, hx, split_W v⟩

theorem asc_flat {L : List (Nat × Cell)} (hL : LOK L) : Asc (flat L) := by
  unfold flat Asc
  rw [pairwise_flatMap]
  constructor
  · intro e he
    rw [pairwise_map]
    exact Pairwise.imp (fun {a b} h => by omega) (hL.cells e he).1
  · refine Pairwise.imp_of_mem ?_ hL.keys
    intro a b ha hb hab x hx y hy
    obtain ⟨x', hx', rfl⟩ := mem_map.mp hx
    obtain ⟨y', hy', rfl⟩ := mem_map.mp hy
    have := (hL.cells a ha).2 x' hx'
    have : a.1 * W + W ≤ b.1 * W := by
      have : (a.1 + 1) * W ≤ b.1 * W := Nat.mul_le_mul_right W hab
      rw [Nat.add_mul] at this; omega
    omega

theorem length_flat (L : List (Nat × Cell)) : (flat L).length = (L.map (fun e => e.2.length)).sum := by
  unfold flat; rw [length_flatMap]; simp

/-- A key holds at most one container. -/
theorem LOK.unique {L : List (Nat × Cell)} (hL : LOK L) {k : Nat} {c c' : Cell}
    (h1 : (k, c) ∈ L) (h2 : (k, c') ∈ L) : c = c' := by
  have hk := hL.keys
  clear hL
  induction L with
  | nil => cases h1
  | cons e r ih =>
    rw [pairwise_cons] at hk
    rcases mem_cons.mp h1 with e1 | m1 <;> rcases mem_cons.mp h2 with e2 | m2
    · rw [← e1] at e2; cases e2; rfl
    · have := hk.1 _ m2; rw [← e1] at this; simp at this
    · have := hk.1 _ m1; rw [← e2] at this; simp at this
    · exact ih m1 m2 hk.2

/-! ### Spec-level list facts -/

namespace Spec

theorem mem_addAll {s : S} {vs : List Nat} {v : Nat} : v ∈ addAll s vs ↔ v ∈ s ∨ v ∈ vs := by
  unfold addAll
  induction vs generalizing s with
  | nil => simp
  | cons x t ih => simp only [foldl_cons, ih, mem_insertAsc, mem_cons]; grind

theorem asc_addAll {s : S} {vs : List Nat} (h : Asc s) : Asc (addAll s vs) := by
  unfold addAll
  induction vs generalizing s with
  | nil => simpa
  | cons x t ih => simp only [foldl_cons]; exact ih (asc_insertAsc h)

theorem mem_removeAll {s : S} {vs : List Nat} {v : Nat} : v ∈ removeAll s vs ↔ v ∈ s ∧ v ∉ vs := by
  simp [removeAll]

theorem asc_removeAll {s : S} {vs : List Nat} (h : Asc s) : Asc (removeAll s vs) :=
  Pairwise.filter _ h

theorem addAll_nil (s : S) : addAll s [] = s := rfl

theorem removeAll_nil (s : S) : removeAll s [] = s := by
  unfold removeAll; rw [filter_eq_self]; intro a _; rfl

theorem newly_cons (s : S) (v : Nat) (vs : List Nat) :
    newly s (v :: vs) = if s.contains v then newly s vs else v :: newly (insertAsc v s) vs := rfl

theorem gone_cons (s : S) (v : Nat) (vs : List Nat) :
    gone s (v :: vs) = if s.contains v then v :: gone (eraseAsc v s) vs else gone s vs := rfl

/-- On ascending arguments the Spec's union / difference are the model's merge kernels; the
driver uses the right-hand sides for payloads with tens of thousands of values. -/
theorem addAll_eq_unionAsc (s : S) (vs : List Nat) (hs : Asc s) (hv : Asc vs) : addAll s vs = unionAsc s vs :=
  (unionAsc_eq_fold hs hv).symm

theorem removeAll_eq_diffAsc (s : S) (vs : List Nat) (hs : Asc s) (hv : Asc vs) :
    removeAll s vs = diffAsc s vs :=
  (diffAsc_eq_filter hs hv).symm

theorem addAll_cons (s : S) (v : Nat) (vs : List Nat) : addAll s (v :: vs) = addAll (insertAsc v s) vs := rfl

theorem addAll_append (s : S) (a b : List Nat) : addAll s (a ++ b) = addAll (addAll s a) b := by
  unfold addAll; rw [foldl_append]

theorem removeAll_cons (s : S) (v : Nat) (vs : List Nat) :
    removeAll s (v :: vs) = removeAll (eraseAsc v s) vs := by
  unfold removeAll eraseAsc
  rw [filter_filter]
  apply filter_congr
  intro x _
  by_cases h1 : x = v <;> simp [h1, Bool.and_comm]

theorem removeAll_append (s : S) (a b : List Nat) : removeAll s (a ++ b) = removeAll (removeAll s a) b := by
  unfold removeAll
  rw [filter_filter]
  apply filter_congr
  intro x _
  rw [Bool.and_comm]
  simp [Bool.not_or]

/-- `Add(vs...)` applied value by value reports a change iff some value was not in the set. -/
theorem any_add_seq (s : S) (hs : Asc s) (vs : List Nat) (c0 : Bool) :
    (vs.foldl (fun (acc : S × Bool) v => (insertAsc v acc.1, acc.2 || !acc.1.contains v)) (s, c0)).2
      = (c0 || vs.any (fun v => !s.contains v)) := by
  induction vs generalizing s c0 with
  | nil => simp
  | cons v t ih =>
    simp only [foldl_cons, any_cons]
    rw [ih _ (asc_insertAsc hs)]
    by_cases hv : v ∈ s
    · rw [insertAsc_of_mem hs hv]; simp [hv]
    · simp [hv]

/-- `Remove(vs...)` applied value by value reports a change iff some value was in the set. -/
theorem any_remove_seq (s : S) (vs : List Nat) (c0 : Bool) :
    (vs.foldl (fun (acc : S × Bool) v => (eraseAsc v acc.1, acc.2 || acc.1.contains v)) (s, c0)).2
      = (c0 || vs.any (fun v => s.contains v)) := by
  induction vs generalizing s c0 with
  | nil => simp
  | cons v t ih =>
    simp only [foldl_cons, any_cons]
    rw [ih]
    by_cases hv : v ∈ s
    · simp [hv]
    · rw [eraseAsc_of_not_mem hv]; simp [hv]

end Spec

end PV.C02
