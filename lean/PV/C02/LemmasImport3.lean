/-
C02 helper lemmas, part 10: clear-import of one container; whole imports (fold over the payload's
containers); Optimize; Containers.Remove.
-/
import PV.C02.LemmasImport2
namespace PV.C02
open List

variable {σ : Type}

theorem diffAsc_eq_of_length {a b : Cell} (h : (diffAsc a b).length = a.length) : diffAsc a b = a :=
  Sublist.eq_of_length (diffAsc_sublist a b) h

/-- One container of a clear-import. -/
theorem importClear_group {C : Coll σ} (ok : CollOK C) (p : Policy) (s : σ) (h : Heap) (n k : Nat)
    (syn : Cell) (hg : Good C ok ⟨s, h⟩) (hk : k < INVALID) (hsyn : CellOK syn) :
    Good C ok ⟨(C.update s k (importClearFn p syn (h, n))).1, (C.update s k (importClearFn p syn (h, n))).2.1⟩ ∧
    cont C ⟨(C.update s k (importClearFn p syn (h, n))).1, (C.update s k (importClearFn p syn (h, n))).2.1⟩ k
      = diffAsc (cont C ⟨s, h⟩ k) syn ∧
    (∀ k', k' ≠ k →
      cont C ⟨(C.update s k (importClearFn p syn (h, n))).1, (C.update s k (importClearFn p syn (h, n))).2.1⟩ k'
        = cont C ⟨s, h⟩ k') ∧
    (C.update s k (importClearFn p syn (h, n))).2.2
      = n + ((cont C ⟨s, h⟩ k).filter (fun x => syn.contains x)).length := by
  obtain ⟨e, he, h2, hinv, hlk⟩ := ok.update s k (importClearFn p syn (h, n)) hg.inv hk
  have hlk' := lk_after_update hlk
  have hold := cont_cellOK hg k
  rw [h2]
  have fin : ∀ (h' : Heap) (cnt : Nat) (newC : Ptr) (w : Bool) (cell' : Cell),
      importClearFn p syn (h, n) (lk C s k) e = ((h', cnt), newC, w) →
      CellOK cell' →
      ((∃ junk, h' = h ++ junk ∧ (if w then newC else lk C s k) = lk C s k ∧ cell' = cont C ⟨s, h⟩ k) ∨
       (∃ i, lk C s k = some i ∧ h' = hset h i cell' ∧ (if w then newC else lk C s k) = some i) ∨
       (h' = h ++ [cell'] ∧ (if w then newC else lk C s k) = some h.length) ∨
       (h' = h ∧ (if w then newC else lk C s k) = none ∧ cell' = [])) →
      cell' = diffAsc (cont C ⟨s, h⟩ k) syn →
      cnt = n + ((cont C ⟨s, h⟩ k).filter (fun x => syn.contains x)).length →
      Good C ok ⟨(C.update s k (importClearFn p syn (h, n))).1, (importClearFn p syn (h, n) (lk C s k) e).1.1⟩ ∧
      cont C ⟨(C.update s k (importClearFn p syn (h, n))).1, (importClearFn p syn (h, n) (lk C s k) e).1.1⟩ k
        = diffAsc (cont C ⟨s, h⟩ k) syn ∧
      (∀ k', k' ≠ k →
        cont C ⟨(C.update s k (importClearFn p syn (h, n))).1, (importClearFn p syn (h, n) (lk C s k) e).1.1⟩ k'
          = cont C ⟨s, h⟩ k') ∧
      (importClearFn p syn (h, n) (lk C s k) e).1.2
        = n + ((cont C ⟨s, h⟩ k).filter (fun x => syn.contains x)).length := by
    intro h' cnt newC w cell' hF hc hs hu hn
    rw [hF] at hlk' ⊢
    obtain ⟨g1, g2, g3⟩ := apply_gen ok ⟨s, h⟩ k _ h' (if w then newC else lk C s k) cell' hg hinv hlk' hc hs
    exact ⟨g1, by rw [g2, hu], g3, hn⟩
  cases hl : lk C s k with
  | none =>
    have hc0 : cont C ⟨s, h⟩ k = [] := cont_of_lk_none hl
    rw [hl] at fin
    apply fin h n none false []
    · simp [importClearFn, cN]
    · exact ⟨asc_nil, by simp⟩
    · exact Or.inl ⟨[], by simp, rfl, hc0.symm⟩
    · rw [hc0, diffAsc_nil]
    · rw [hc0]; rfl
  | some i =>
    have hci : cont C ⟨s, h⟩ k = hget h i := cont_of_lk_some hl
    have het : e = true := he i hl
    subst het
    rw [hl] at fin
    rw [hci] at fin hold ⊢
    by_cases hemp : (hget h i).length = 0
    · have he0 : hget h i = [] := length_eq_zero_iff.mp hemp
      apply fin h n none false (hget h i)
      · simp [importClearFn, cN, hemp]
      · exact hold
      · exact Or.inl ⟨[], by simp, rfl, rfl⟩
      · rw [he0, diffAsc_nil]
      · rw [he0]; rfl
    · have hlen := length_diffAsc (b := syn) hold.1 hsyn.1
      by_cases hfull : syn.length = W
      · apply fin h (n + (hget h i).length) none true []
        · simp [importClearFn, cN, hemp, hfull]
        · exact ⟨asc_nil, by simp⟩
        · exact Or.inr (Or.inr (Or.inr ⟨rfl, rfl, rfl⟩))
        · rw [diffAsc_full hold hsyn hfull]
        · rw [diffAsc_full hold hsyn hfull] at hlen
          simp only [length_nil, Nat.zero_add] at hlen; omega
      · by_cases hch : (diffAsc (hget h i) syn).length = (hget h i).length
        · apply fin (h ++ [diffAsc (hget h i) syn]) n (some i) false (hget h i)
          · simp [importClearFn, cN, hemp, hfull, hch]
          · exact hold
          · exact Or.inl ⟨[diffAsc (hget h i) syn], rfl, rfl, rfl⟩
          · exact (diffAsc_eq_of_length hch).symm
          · omega
        · by_cases hnil : (diffAsc (hget h i) syn).length = 0 ∧ p.diffNil (hget h i) syn = true
          · apply fin h (n + (hget h i).length) none true []
            · have hne : ¬ 0 = (hget h i).length := fun e => hemp e.symm
              simp [importClearFn, cN, hemp, hfull, hnil, hne]
            · exact ⟨asc_nil, by simp⟩
            · exact Or.inr (Or.inr (Or.inr ⟨rfl, rfl, rfl⟩))
            · exact (length_eq_zero_iff.mp hnil.1).symm
            · have := hnil.1; omega
          · apply fin (h ++ [diffAsc (hget h i) syn])
              (n + ((hget h i).length - (diffAsc (hget h i) syn).length)) (some h.length) true
              (diffAsc (hget h i) syn)
            · simp only [importClearFn, cN, hemp, hfull, hnil]; simp [hch]
            · exact cellOK_diffAsc hold
            · exact Or.inr (Or.inr (Or.inl ⟨rfl, rfl⟩))
            · rfl
            · omega

/-! ### Whole imports -/

/-- A well-formed roaring payload: container keys strictly ascending and valid, containers
well-formed. -/
def GroupsOK (gs : List (Nat × Cell)) : Prop :=
  KeysAsc gs ∧ ∀ g ∈ gs, g.1 < INVALID ∧ CellOK g.2

/-- Values of one payload container. -/
def gvals (g : Nat × Cell) : List Nat := g.2.map (fun x => g.1 * W + x)

theorem mem_gvals {g : Nat × Cell} (hc : CellOK g.2) {v : Nat} :
    v ∈ gvals g ↔ v / W = g.1 ∧ v % W ∈ g.2 := by
  unfold gvals; rw [mem_map]
  constructor
  · rintro ⟨x, hx, rfl⟩
    have := hc.2 x hx
    rw [div_W this, mod_W this]; exact ⟨rfl, hx⟩
  · rintro ⟨h1, h2⟩
    exact ⟨v % W, h2, by rw [← h1]; exact split_W v⟩

theorem groupValues_cons (g : Nat × Cell) (gs : List (Nat × Cell)) :
    Spec.groupValues (g :: gs) = gvals g ++ Spec.groupValues gs := by
  unfold Spec.groupValues gvals; rw [flatMap_cons]

theorem key_of_mem_groupValues {gs : List (Nat × Cell)} (hc : ∀ g ∈ gs, CellOK g.2) {v : Nat}
    (hv : v ∈ Spec.groupValues gs) : ∃ g ∈ gs, v / W = g.1 := by
  unfold Spec.groupValues at hv
  obtain ⟨g, hg, hm⟩ := mem_flatMap.mp hv
  exact ⟨g, hg, ((mem_gvals (hc g hg)).mp hm).1⟩

/-- After the set-import of one container the value list is the old one plus that container. -/
theorem slice_union {C : Coll σ} {ok : CollOK C} {b b' : BM σ} (hg : Good C ok b) (hg' : Good C ok b')
    {g : Nat × Cell} (hc : CellOK g.2) (hk : cont C b' g.1 = unionAsc (cont C b g.1) g.2)
    (ho : ∀ k', k' ≠ g.1 → cont C b' k' = cont C b k') :
    slice C b' = Spec.addAll (slice C b) (gvals g) := by
  apply slice_unique hg' (Spec.asc_addAll (asc_slice hg))
  intro v
  rw [Spec.mem_addAll, mem_slice hg, mem_gvals hc]
  by_cases e : v / W = g.1
  · rw [e, hk, mem_unionAsc]; simp
  · rw [ho _ e]; simp [e]

theorem slice_diff {C : Coll σ} {ok : CollOK C} {b b' : BM σ} (hg : Good C ok b) (hg' : Good C ok b')
    {g : Nat × Cell} (hc : CellOK g.2) (hk : cont C b' g.1 = diffAsc (cont C b g.1) g.2)
    (ho : ∀ k', k' ≠ g.1 → cont C b' k' = cont C b k') :
    slice C b' = Spec.removeAll (slice C b) (gvals g) := by
  apply slice_unique hg' (Spec.asc_removeAll (asc_slice hg))
  intro v
  rw [Spec.mem_removeAll, mem_slice hg, mem_gvals hc]
  by_cases e : v / W = g.1
  · rw [e, hk, mem_diffAsc (cont_cellOK hg g.1).1 hc.1]; simp
  · rw [ho _ e]; simp [e]

/-- Number of values of a payload container not yet present, counted on the value list. -/
theorem count_new {C : Coll σ} {ok : CollOK C} {b : BM σ} (hg : Good C ok b) {g : Nat × Cell}
    (hc : CellOK g.2) :
    (g.2.filter (fun x => !(cont C b g.1).contains x)).length
      = ((gvals g).filter (fun v => !(slice C b).contains v)).length := by
  unfold gvals
  rw [filter_map, length_map]
  congr 1
  apply filter_congr
  intro x hx
  have := hc.2 x hx
  simp only [Function.comp_apply]
  rw [contains_slice hg, div_W this, mod_W this]

theorem count_old {C : Coll σ} {ok : CollOK C} {b : BM σ} (hg : Good C ok b) {g : Nat × Cell}
    (hc : CellOK g.2) :
    ((cont C b g.1).filter (fun x => g.2.contains x)).length
      = ((gvals g).filter (fun v => (slice C b).contains v)).length := by
  rw [inter_count_comm (asc_nodup (cont_cellOK hg g.1).1) (asc_nodup hc.1)]
  unfold gvals
  rw [filter_map, length_map]
  congr 1
  apply filter_congr
  intro x hx
  have := hc.2 x hx
  simp only [Function.comp_apply]
  rw [contains_slice hg, div_W this, mod_W this]

theorem importSet_fold {C : Coll σ} (ok : CollOK C) (p : Policy) (gs : List (Nat × Cell)) :
    ∀ (s : σ) (h : Heap) (n : Nat), Good C ok ⟨s, h⟩ → GroupsOK gs →
    Good C ok ⟨(gs.foldl (fun (acc : σ × Heap × Nat) g =>
        ((C.update acc.1 g.1 (importSetFn p g.2 (acc.2.1, acc.2.2))).1,
         (C.update acc.1 g.1 (importSetFn p g.2 (acc.2.1, acc.2.2))).2.1,
         (C.update acc.1 g.1 (importSetFn p g.2 (acc.2.1, acc.2.2))).2.2)) (s, h, n)).1,
      (gs.foldl (fun (acc : σ × Heap × Nat) g =>
        ((C.update acc.1 g.1 (importSetFn p g.2 (acc.2.1, acc.2.2))).1,
         (C.update acc.1 g.1 (importSetFn p g.2 (acc.2.1, acc.2.2))).2.1,
         (C.update acc.1 g.1 (importSetFn p g.2 (acc.2.1, acc.2.2))).2.2)) (s, h, n)).2.1⟩ ∧
    slice C ⟨(gs.foldl (fun (acc : σ × Heap × Nat) g =>
        ((C.update acc.1 g.1 (importSetFn p g.2 (acc.2.1, acc.2.2))).1,
         (C.update acc.1 g.1 (importSetFn p g.2 (acc.2.1, acc.2.2))).2.1,
         (C.update acc.1 g.1 (importSetFn p g.2 (acc.2.1, acc.2.2))).2.2)) (s, h, n)).1,
      (gs.foldl (fun (acc : σ × Heap × Nat) g =>
        ((C.update acc.1 g.1 (importSetFn p g.2 (acc.2.1, acc.2.2))).1,
         (C.update acc.1 g.1 (importSetFn p g.2 (acc.2.1, acc.2.2))).2.1,
         (C.update acc.1 g.1 (importSetFn p g.2 (acc.2.1, acc.2.2))).2.2)) (s, h, n)).2.1⟩
      = Spec.addAll (slice C ⟨s, h⟩) (Spec.groupValues gs) ∧
    (gs.foldl (fun (acc : σ × Heap × Nat) g =>
        ((C.update acc.1 g.1 (importSetFn p g.2 (acc.2.1, acc.2.2))).1,
         (C.update acc.1 g.1 (importSetFn p g.2 (acc.2.1, acc.2.2))).2.1,
         (C.update acc.1 g.1 (importSetFn p g.2 (acc.2.1, acc.2.2))).2.2)) (s, h, n)).2.2
      = n + ((Spec.groupValues gs).filter (fun v => !(slice C ⟨s, h⟩).contains v)).length := by
  induction gs with
  | nil => intro s h n hg _; simp [Spec.groupValues, Spec.addAll, hg]
  | cons g t ih =>
    intro s h n hg hgs
    have hkt := keysAsc_cons.mp hgs.1
    have hgc := (hgs.2 g (by simp)).2
    have htc : ∀ g' ∈ t, CellOK g'.2 := fun g' hg' => (hgs.2 g' (by simp [hg'])).2
    obtain ⟨g1, g2, g3, g4⟩ := importSet_group ok p s h n g.1 g.2 hg (hgs.2 g (by simp)).1 hgc
    have hsl := slice_union hg g1 hgc g2 g3
    obtain ⟨i1, i2, i3⟩ := ih _ _ _ g1 ⟨hkt.2, fun g' hg' => hgs.2 g' (by simp [hg'])⟩
    simp only [foldl_cons]
    refine ⟨i1, ?_, ?_⟩
    · rw [i2, hsl, groupValues_cons, Spec.addAll_append]
    · rw [i3, g4, count_new hg hgc, groupValues_cons, filter_append, length_append, hsl]
      have : (Spec.groupValues t).filter (fun v => !(Spec.addAll (slice C ⟨s, h⟩) (gvals g)).contains v)
          = (Spec.groupValues t).filter (fun v => !(slice C ⟨s, h⟩).contains v) := by
        apply filter_congr
        intro v hv
        obtain ⟨g', hg', hkey⟩ := key_of_mem_groupValues htc hv
        have hne : v ∉ gvals g := by
          intro hm
          have := ((mem_gvals hgc).mp hm).1
          have := hkt.1 g' hg'
          omega
        congr 1
        rw [Bool.eq_iff_iff, contains_iff_mem, contains_iff_mem, Spec.mem_addAll]
        simp [hne]
      rw [this]; omega

theorem importClear_fold {C : Coll σ} (ok : CollOK C) (p : Policy) (gs : List (Nat × Cell)) :
    ∀ (s : σ) (h : Heap) (n : Nat), Good C ok ⟨s, h⟩ → GroupsOK gs →
    Good C ok ⟨(gs.foldl (fun (acc : σ × Heap × Nat) g =>
        ((C.update acc.1 g.1 (importClearFn p g.2 (acc.2.1, acc.2.2))).1,
         (C.update acc.1 g.1 (importClearFn p g.2 (acc.2.1, acc.2.2))).2.1,
         (C.update acc.1 g.1 (importClearFn p g.2 (acc.2.1, acc.2.2))).2.2)) (s, h, n)).1,
      (gs.foldl (fun (acc : σ × Heap × Nat) g =>
        ((C.update acc.1 g.1 (importClearFn p g.2 (acc.2.1, acc.2.2))).1,
         (C.update acc.1 g.1 (importClearFn p g.2 (acc.2.1, acc.2.2))).2.1,
         (C.update acc.1 g.1 (importClearFn p g.2 (acc.2.1, acc.2.2))).2.2)) (s, h, n)).2.1⟩ ∧
    slice C ⟨(gs.foldl (fun (acc : σ × Heap × Nat) g =>
        ((C.update acc.1 g.1 (importClearFn p g.2 (acc.2.1, acc.2.2))).1,
         (C.update acc.1 g.1 (importClearFn p g.2 (acc.2.1, acc.2.2))).2.1,
         (C.update acc.1 g.1 (importClearFn p g.2 (acc.2.1, acc.2.2))).2.2)) (s, h, n)).1,
      (gs.foldl (fun (acc : σ × Heap × Nat) g =>
        ((C.update acc.1 g.1 (importClearFn p g.2 (acc.2.1, acc.2.2))).1,
         (C.update acc.1 g.1 (importClearFn p g.2 (acc.2.1, acc.2.2))).2.1,
         (C.update acc.1 g.1 (importClearFn p g.2 (acc.2.1, acc.2.2))).2.2)) (s, h, n)).2.1⟩
      = Spec.removeAll (slice C ⟨s, h⟩) (Spec.groupValues gs) ∧
    (gs.foldl (fun (acc : σ × Heap × Nat) g =>
        ((C.update acc.1 g.1 (importClearFn p g.2 (acc.2.1, acc.2.2))).1,
         (C.update acc.1 g.1 (importClearFn p g.2 (acc.2.1, acc.2.2))).2.1,
         (C.update acc.1 g.1 (importClearFn p g.2 (acc.2.1, acc.2.2))).2.2)) (s, h, n)).2.2
      = n + ((Spec.groupValues gs).filter (fun v => (slice C ⟨s, h⟩).contains v)).length := by
  induction gs with
  | nil => intro s h n hg _; simp [Spec.groupValues, Spec.removeAll_nil, hg]
  | cons g t ih =>
    intro s h n hg hgs
    have hkt := keysAsc_cons.mp hgs.1
    have hgc := (hgs.2 g (by simp)).2
    have htc : ∀ g' ∈ t, CellOK g'.2 := fun g' hg' => (hgs.2 g' (by simp [hg'])).2
    obtain ⟨g1, g2, g3, g4⟩ := importClear_group ok p s h n g.1 g.2 hg (hgs.2 g (by simp)).1 hgc
    have hsl := slice_diff hg g1 hgc g2 g3
    obtain ⟨i1, i2, i3⟩ := ih _ _ _ g1 ⟨hkt.2, fun g' hg' => hgs.2 g' (by simp [hg'])⟩
    simp only [foldl_cons]
    refine ⟨i1, ?_, ?_⟩
    · rw [i2, hsl, groupValues_cons, Spec.removeAll_append]
    · rw [i3, g4, count_old hg hgc, groupValues_cons, filter_append, length_append, hsl]
      have : (Spec.groupValues t).filter (fun v => (Spec.removeAll (slice C ⟨s, h⟩) (gvals g)).contains v)
          = (Spec.groupValues t).filter (fun v => (slice C ⟨s, h⟩).contains v) := by
        apply filter_congr
        intro v hv
        obtain ⟨g', hg', hkey⟩ := key_of_mem_groupValues htc hv
        have hne : v ∉ gvals g := by
          intro hm
          have := ((mem_gvals hgc).mp hm).1
          have := hkt.1 g' hg'
          omega
        rw [Bool.eq_iff_iff, contains_iff_mem, contains_iff_mem, Spec.mem_removeAll]
        simp [hne]
      rw [this]; omega

end PV.C02
