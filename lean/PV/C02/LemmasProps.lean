/-
C02 helper lemmas, part 14: definitions and small facts used by the statements in Props.lean.
-/
import PV.C02.LemmasReload
import PV.C02.LemmasSpecCount
namespace PV.C02
open List

variable {σ : Type}

/-- Well-formed operations: values are `uint64`, import payloads are well-formed roaring data. -/
def OpOK : Op → Prop
  | .add vs => ∀ v ∈ vs, v < 2 ^ 64
  | .remove vs => ∀ v ∈ vs, v < 2 ^ 64
  | .addN vs => ∀ v ∈ vs, v < 2 ^ 64
  | .removeN vs => ∀ v ∈ vs, v < 2 ^ 64
  | .importSet gs => GroupsOK gs
  | .importClear gs => GroupsOK gs
  | _ => True

theorem good_init (C : Coll σ) (ok : CollOK C) : Good C ok (BM.init C) := by
  have hl : ∀ k, lk C C.init k = none := by intro k; unfold lk; rw [ok.init_ents]; rfl
  refine ⟨ok.init, ⟨?_, ?_, ?_⟩⟩
  · intro k i h; rw [show (BM.init C).c = C.init from rfl, hl] at h; cases h
  · intro k i h; rw [show (BM.init C).c = C.init from rfl, hl] at h; cases h
  · intro k k' i h; rw [show (BM.init C).c = C.init from rfl, hl] at h; cases h

theorem slice_init (C : Coll σ) (ok : CollOK C) : slice C (BM.init C) = [] := by
  unfold slice iterEnts
  rw [show (BM.init C).c = C.init from rfl, ok.init_ents]; rfl

theorem groupValues_nodup {gs : List (Nat × Cell)} (h : GroupsOK gs) : (Spec.groupValues gs).Nodup := by
  have : Asc (flat gs) := asc_flat ⟨by
    have := h.1; unfold KeysAsc Asc at this; rw [pairwise_map] at this; exact this,
    fun e he => (h.2 e he).2⟩
  exact asc_nodup this

end PV.C02
