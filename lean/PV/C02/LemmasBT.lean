/-
C02 helper lemmas, part 3: the B-tree collection satisfies the collection laws.
`BT.Inv` contains the Coherent invariant of the lookaside: the cached pointer is exactly what
the tree stores under the cached key (for the invalid key: nothing).
-/
import PV.C02.LemmasColl
namespace PV.C02
open List

/-- Coherent (B-tree): the lookaside agrees with the tree. -/
def BT.Coherent (s : BT) : Prop := tGet s.tree s.lastKey = s.last

def BT.Inv (s : BT) : Prop :=
  KeysAsc s.tree ∧ (∀ e ∈ s.tree, e.1 < INVALID) ∧ BT.Coherent s

theorem lk_bt (s : BT) (k : Nat) : lk btColl s k = tGet s.tree k := by
  simp only [lk, btColl, lookup_map_some, tGet]; cases List.lookup k s.tree <;> rfl

theorem tGet_tSet (t : Tree) (k k' : Nat) (i : Nat) :
    tGet (tSet t k i) k' = if k' = k then some i else tGet t k' := lookup_aSet t k k' i

theorem tGet_tDel (t : Tree) (k k' : Nat) :
    tGet (tDel t k) k' = if k' = k then none else tGet t k' := lookup_filter_ne t k k'

theorem tGet_tSetP (t : Tree) (k k' : Nat) (c : Ptr) :
    tGet (tSetP t k c) k' = if k' = k then c else tGet t k' := by
  cases c with
  | none => simp only [tSetP, tGet_tDel]
  | some i => simp only [tSetP, tGet_tSet]

theorem keysAsc_tSetP {t : Tree} (k : Nat) (c : Ptr) (h : KeysAsc t) : KeysAsc (tSetP t k c) := by
  cases c with
  | none => exact keysAsc_filter _ h
  | some i => exact keysAsc_aSet k i h

theorem keysLt_tSetP {t : Tree} {k : Nat} (c : Ptr) (hk : k < INVALID) (h : ∀ e ∈ t, e.1 < INVALID) :
    ∀ e ∈ tSetP t k c, e.1 < INVALID := by
  cases c with
  | none => intro e he; exact h e (mem_filter.mp he).1
  | some i =>
    intro e he
    rcases mem_keys_aSet _ _ _ _ he with rfl | he
    · exact hk
    · exact h e he

theorem tGet_invalid {t : Tree} (h : ∀ e ∈ t, e.1 < INVALID) : tGet t INVALID = none := by
  unfold tGet
  cases hl : List.lookup INVALID t with
  | none => rfl
  | some i => have := h _ (mem_of_lookup_eq_some hl); simp at this

/-- Dropping the lookaside entry keeps it coherent whatever happened to the tree at `k`. -/
theorem bt_inv_invalidate {t t' : Tree} {lastKey k : Nat} {last : Ptr}
    (hk : KeysAsc t') (hlt : ∀ e ∈ t', e.1 < INVALID)
    (hc : tGet t lastKey = last) (hsame : ∀ k', k' ≠ k → tGet t' k' = tGet t k') :
    BT.Inv (BT.invalidateLast ⟨t', lastKey, last⟩ k) := by
  unfold BT.invalidateLast
  split
  · exact ⟨hk, hlt, tGet_invalid hlt⟩
  · rename_i hne
    refine ⟨hk, hlt, ?_⟩
    show tGet t' lastKey = last
    rw [hsame lastKey (fun e => hne e.symm)]; exact hc

theorem lk_invalidate (s : BT) (k k' : Nat) : lk btColl (BT.invalidateLast s k) k' = tGet s.tree k' := by
  rw [lk_bt]; unfold BT.invalidateLast; split <;> rfl

/-! ### Optimize through `enumerator.Every` -/

/-- Contents by tree and heap. -/
def tCont (t : Tree) (h : Heap) (k : Nat) : Cell :=
  match tGet t k with
  | none => []
  | some i => hget h i

theorem hget_append_of_lt {h ex : Heap} {i : Nat} (hi : i < h.length) : hget (h ++ ex) i = hget h i := by
  simp [hget, getD_eq_getElem?_getD, getElem?_append_left hi]

theorem tCont_append {t : Tree} {h ex : Heap} (hp : ∀ e ∈ t, e.2 < h.length) (k : Nat) :
    tCont t (h ++ ex) k = tCont t h k := by
  unfold tCont
  cases hl : tGet t k with
  | none => rfl
  | some i => exact hget_append_of_lt (hp _ (mem_of_lookup_eq_some hl))

theorem btEvery_opt (p : Policy) : ∀ (t : Tree) (h : Heap) (skip : Bool),
    KeysAsc t → (∀ e ∈ t, e.2 < h.length) → (t.map Prod.snd).Nodup →
    (∃ ex, (btEvery (optFn p) h t skip).2 = h ++ ex) ∧
    ((btEvery (optFn p) h t skip).1.map Prod.fst).Sublist (t.map Prod.fst) ∧
    (∀ e ∈ (btEvery (optFn p) h t skip).1,
        e ∈ t ∨ (h.length ≤ e.2 ∧ e.2 < (btEvery (optFn p) h t skip).2.length)) ∧
    ((btEvery (optFn p) h t skip).1.map Prod.snd).Nodup ∧
    (∀ k, tCont (btEvery (optFn p) h t skip).1 (btEvery (optFn p) h t skip).2 k = tCont t h k) := by
  intro t
  induction t with
  | nil => intro h skip _ _ _; simp [btEvery, tCont, tGet]
  | cons e r ih =>
    obtain ⟨k0, i0⟩ := e
    intro h skip hka hp hnd
    rw [keysAsc_cons] at hka
    have hpr : ∀ e ∈ r, e.2 < h.length := fun e he => hp e (by simp [he])
    have hi0 : i0 < h.length := hp (k0, i0) (by simp)
    simp only [map_cons, nodup_cons] at hnd
    -- the three ways the tail can be continued
    have keep : ∀ (h' : Heap) (sk : Bool) (j : Nat), (∃ ex, h' = h ++ ex) →
        (j = i0 ∨ (h.length ≤ j ∧ j < h'.length)) → hget h' j = hget h i0 →
        (∃ ex, (btEvery (optFn p) h' r sk).2 = h ++ ex) ∧
        (((k0, j) :: (btEvery (optFn p) h' r sk).1).map Prod.fst).Sublist (k0 :: r.map Prod.fst) ∧
        (∀ e ∈ (k0, j) :: (btEvery (optFn p) h' r sk).1,
            e ∈ (k0, i0) :: r ∨ (h.length ≤ e.2 ∧ e.2 < (btEvery (optFn p) h' r sk).2.length)) ∧
        (((k0, j) :: (btEvery (optFn p) h' r sk).1).map Prod.snd).Nodup ∧
        (∀ k, tCont ((k0, j) :: (btEvery (optFn p) h' r sk).1) (btEvery (optFn p) h' r sk).2 k
            = tCont ((k0, i0) :: r) h k) := by
      intro h' sk j ⟨ex, hex⟩ hj hcell
      have hlen : h.length ≤ h'.length := by rw [hex]; simp
      have hpr' : ∀ e ∈ r, e.2 < h'.length := fun e he => Nat.lt_of_lt_of_le (hpr e he) hlen
      obtain ⟨⟨ex2, hex2⟩, hsub, hids, hnd2, hcont⟩ := ih h' sk hka.2 hpr' hnd.2
      have hjlt : j < h'.length := by rcases hj with rfl | hj; exact Nat.lt_of_lt_of_le hi0 hlen; exact hj.2
      refine ⟨⟨ex ++ ex2, by rw [hex2, hex, append_assoc]⟩, ?_, ?_, ?_, ?_⟩
      · simp only [map_cons]; exact hsub.cons_cons _
      · intro e he
        rcases mem_cons.mp he with rfl | he
        · rcases hj with rfl | hj
          · left; simp
          · right; refine ⟨hj.1, ?_⟩; show j < _; rw [hex2]; simp; have := hj.2; omega
        · rcases hids e he with hm | hm
          · left; simp [hm]
          · right; refine ⟨by omega, hm.2⟩
      · simp only [map_cons, nodup_cons]; refine ⟨?_, hnd2⟩
        intro hm
        obtain ⟨e, he, hej⟩ := mem_map.mp hm
        rcases hids e he with hm | hm
        · rcases hj with rfl | hj
          · exact hnd.1 (mem_map.mpr ⟨e, hm, hej⟩)
          · have h1 := hpr e hm; have h2 := hj.1; rw [hej] at h1; omega
        · have h1 := hm.1; rw [hej] at h1; omega
      · intro k
        unfold tCont tGet
        simp only [lookup_cons]
        by_cases hk : k = k0
        · subst hk; simp only [beq_self_eq_true]
          rw [hex2, hget_append_of_lt hjlt]; exact hcell
        · have : (k == k0) = false := by simp [hk]
          simp only [this]
          have h1 := hcont k
          unfold tCont tGet at h1
          rw [h1]
          have h2 := tCont_append (t := r) (h := h) (ex := ex) hpr k
          unfold tCont tGet at h2
          rw [← hex] at h2; exact h2
    cases skip with
    | true =>
      simp only [btEvery]
      exact keep h false i0 ⟨[], by simp⟩ (Or.inl rfl) rfl
    | false =>
      simp only [btEvery, optFn, cOptimize]
      by_cases hemp : (hget h i0).length = 0
      · -- empty container: optimize returns nil, the entry is deleted, the next one is skipped
        simp only [hemp, ↓reduceIte]
        obtain ⟨hex2, hsub, hids, hnd2, hcont⟩ := ih h true hka.2 hpr hnd.2
        refine ⟨hex2, ?_, ?_, hnd2, ?_⟩
        · simp only [map_cons]; exact hsub.cons _
        · intro e he; rcases hids e he with hm | hm
          · left; simp [hm]
          · right; exact hm
        · intro k
          rw [hcont k]
          unfold tCont tGet
          simp only [lookup_cons]
          by_cases hk : k = k0
          · subst hk; simp only [beq_self_eq_true]
            rw [lookup_eq_none_of_lt hka.1]
            exact (length_eq_zero_iff.mp hemp).symm
          · have : (k == k0) = false := by simp [hk]
            simp only [this]
      · simp only [hemp, ↓reduceIte]
        by_cases hf : p.optFresh (hget h i0) = true
        · simp only [hf, ↓reduceIte]
          exact keep (h ++ [hget h i0]) false h.length ⟨[hget h i0], rfl⟩
            (Or.inr ⟨Nat.le_refl _, by simp⟩) hget_append_eq
        · simp only [hf]
          exact keep h false i0 ⟨[], by simp⟩ (Or.inl rfl) rfl

end PV.C02

namespace PV.C02
open List

theorem ids_nodup {t : Tree} (hk : KeysAsc t)
    (hinj : ∀ k k' i, tGet t k = some i → tGet t k' = some i → k = k') : (t.map Prod.snd).Nodup := by
  induction t with
  | nil => simp
  | cons e r ih =>
    obtain ⟨k0, i0⟩ := e
    have hk' := keysAsc_cons.mp hk
    simp only [map_cons, nodup_cons]
    constructor
    · intro hm
      obtain ⟨e, he, hei⟩ := mem_map.mp hm
      obtain ⟨k1, i1⟩ := e
      simp at hei; subst hei
      have h1 : tGet ((k0, i1) :: r) k1 = some i1 := lookup_eq_some_of_mem hk (by simp [he])
      have h0 : tGet ((k0, i1) :: r) k0 = some i1 := lookup_eq_some_of_mem hk (by simp)
      have := hinj _ _ _ h1 h0
      have := hk'.1 _ he
      simp at this; omega
    · apply ih hk'.2
      intro k k' i h1 h2
      have m1 := mem_of_lookup_eq_some h1
      have m2 := mem_of_lookup_eq_some h2
      exact hinj k k' i (lookup_eq_some_of_mem hk (by simp [m1])) (lookup_eq_some_of_mem hk (by simp [m2]))

theorem key_eq_of_ids_nodup {t : Tree} (hnd : (t.map Prod.snd).Nodup) {k k' i : Nat}
    (h1 : (k, i) ∈ t) (h2 : (k', i) ∈ t) : k = k' := by
  induction t with
  | nil => cases h1
  | cons e r ih =>
    simp only [map_cons, nodup_cons] at hnd
    rcases mem_cons.mp h1 with e1 | m1 <;> rcases mem_cons.mp h2 with e2 | m2
    · rw [← e1] at e2; cases e2; rfl
    · exfalso; apply hnd.1; rw [← e1]; exact mem_map.mpr ⟨_, m2, rfl⟩
    · exfalso; apply hnd.1; rw [← e2]; exact mem_map.mpr ⟨_, m1, rfl⟩
    · exact ih hnd.2 m1 m2

theorem bt_contentsOf (s : BT) (h : Heap) (k : Nat) : contentsOf btColl s h k = tCont s.tree h k := by
  unfold contentsOf tCont; rw [lk_bt]
  cases tGet s.tree k <;> rfl

theorem invalidate_tree (s : BT) (k : Nat) : (BT.invalidateLast s k).tree = s.tree := by
  unfold BT.invalidateLast; split <;> rfl

theorem treePut_spec {α : Type} (t : Tree) (k : Nat) (fn : Ptr → Bool → α × Ptr × Bool)
    (hk : KeysAsc t) (hlt : ∀ e ∈ t, e.1 < INVALID) (hkv : k < INVALID) :
    ∃ e, (∀ i, tGet t k = some i → e = true) ∧
      (treePut t k fn).2 = (fn (tGet t k) e).1 ∧ KeysAsc (treePut t k fn).1 ∧
      (∀ x ∈ (treePut t k fn).1, x.1 < INVALID) ∧
      ∀ k', tGet (treePut t k fn).1 k' =
        if k' = k ∧ (fn (tGet t k) e).2.2 = true then (fn (tGet t k) e).2.1 else tGet t k' := by
  unfold treePut
  cases hg : tGet t k with
  | some i =>
    refine ⟨true, fun _ _ => rfl, ?_⟩
    simp only
    by_cases hw : (fn (some i) true).2.2 = true
    · simp only [hw, ↓reduceIte, and_true]
      exact ⟨trivial, keysAsc_tSetP k _ hk, keysLt_tSetP _ hkv hlt, fun k' => tGet_tSetP t k k' _⟩
    · have hw' : (fn (some i) true).2.2 = false := by simpa using hw
      simp only [hw']
      exact ⟨rfl, hk, hlt, fun k' => by simp⟩
  | none =>
    refine ⟨false, by simp, ?_⟩
    simp only
    by_cases hw : (fn none false).2.2 = true
    · simp only [hw, ↓reduceIte, and_true]
      cases hn : (fn none false).2.1 with
      | none =>
        simp only
        refine ⟨trivial, hk, hlt, ?_⟩
        intro k'; split
        · rename_i he; rw [he]; exact hg
        · rfl
      | some j =>
        simp only
        exact ⟨trivial, keysAsc_aSet k j hk, keysLt_tSetP (some j) hkv hlt, fun k' => tGet_tSet t k k' j⟩
    · have hw' : (fn none false).2.2 = false := by simpa using hw
      simp only [hw']
      exact ⟨rfl, hk, hlt, fun k' => by simp⟩

/-- The B-tree collection satisfies the collection laws. -/
def btOK : CollOK btColl where
  Inv := BT.Inv
  init := by
    refine ⟨?_, ?_, ?_⟩
    · simp [btColl, BT.init, KeysAsc, Asc]
    · intro e he; simp [btColl, BT.init] at he
    · simp [btColl, BT.init, BT.Coherent, tGet]
  init_ents := by simp [btColl, BT.init]
  keys := by
    intro s hs
    have := hs.1
    unfold KeysAsc at *
    simpa [btColl, map_map, Function.comp_def] using this
  keyok := by
    intro s k i hs hl
    rw [lk_bt] at hl
    exact hs.2.1 _ (mem_of_lookup_eq_some hl)
  get := by
    intro s k hs
    obtain ⟨hk, hlt, hc⟩ := hs
    show BT.Inv (BT.get s k).1 ∧ (BT.get s k).2 = lk btColl s k ∧
      btColl.ents (BT.get s k).1 = btColl.ents s
    rw [lk_bt]
    unfold BT.get
    split
    · rename_i heq; subst heq; exact ⟨⟨hk, hlt, hc⟩, hc.symm, rfl⟩
    · split
      · rename_i i hi; exact ⟨⟨hk, hlt, hi⟩, hi.symm, rfl⟩
      · rename_i hi; exact ⟨⟨hk, hlt, hc⟩, hi.symm, rfl⟩
  put := by
    intro s k c hs hkv
    obtain ⟨hk, hlt, hc⟩ := hs
    show BT.Inv (BT.put s k c) ∧ ∀ k', lk btColl (BT.put s k c) k' = if k' = k then c else lk btColl s k'
    refine ⟨⟨keysAsc_tSetP k c hk, keysLt_tSetP c hkv hlt, ?_⟩, ?_⟩
    · show tGet (tSetP s.tree k c) k = c
      rw [tGet_tSetP]; simp
    · intro k'; rw [lk_bt, lk_bt]; exact tGet_tSetP s.tree k k' c
  remove := by
    intro s k hs
    obtain ⟨hk, hlt, hc⟩ := hs
    show BT.Inv (BT.remove s k) ∧ ∀ k', lk btColl (BT.remove s k) k' = if k' = k then none else lk btColl s k'
    unfold BT.remove
    refine ⟨bt_inv_invalidate (t := s.tree) (keysAsc_filter _ hk)
      (fun e he => hlt e (mem_filter.mp he).1) hc ?_, ?_⟩
    · intro k' hne; rw [tGet_tDel]; simp [hne]
    · intro k'; rw [lk_invalidate, lk_bt]; exact tGet_tDel s.tree k k'
  goc := by
    intro s h k hs hkv
    obtain ⟨hk, hlt, hc⟩ := hs
    show BT.Inv (BT.getOrCreate s h k).1 ∧ (BT.getOrCreate s h k).2.2 = lk btColl (BT.getOrCreate s h k).1 k ∧
      (∀ k', k' ≠ k → lk btColl (BT.getOrCreate s h k).1 k' = lk btColl s k') ∧
      (((BT.getOrCreate s h k).2.2 = lk btColl s k ∧ (BT.getOrCreate s h k).2.1 = h) ∨
       (lk btColl s k = none ∧ (BT.getOrCreate s h k).2.2 = some h.length ∧ (BT.getOrCreate s h k).2.1 = h ++ [[]]))
    simp only [lk_bt]
    unfold BT.getOrCreate
    split
    · rename_i heq; subst heq
      exact ⟨⟨hk, hlt, hc⟩, hc.symm, fun _ _ => rfl, Or.inl ⟨hc.symm, rfl⟩⟩
    · split
      · rename_i hi
        refine ⟨⟨keysAsc_aSet k _ hk, ?_, ?_⟩, ?_, ?_, Or.inr ⟨hi, rfl, rfl⟩⟩
        · exact keysLt_tSetP (some h.length) hkv hlt
        · show tGet (tSet s.tree k h.length) k = some h.length
          rw [tGet_tSet]; simp
        · show some h.length = tGet (tSet s.tree k h.length) k
          rw [tGet_tSet]; simp
        · intro k' hne
          show tGet (tSet s.tree k h.length) k' = _
          rw [tGet_tSet]; simp [hne]
      · rename_i i hi
        exact ⟨⟨hk, hlt, hi⟩, hi.symm, fun _ _ => rfl, Or.inl ⟨hi.symm, rfl⟩⟩
  update := by
    intro α s k fn hs hkv
    obtain ⟨hk, hlt, hc⟩ := hs
    obtain ⟨e, he, h2, hk', hlt', hget⟩ := treePut_spec s.tree k fn hk hlt hkv
    refine ⟨e, ?_, ?_, ?_, ?_⟩
    · intro i hi; rw [lk_bt] at hi; exact he i hi
    · rw [lk_bt]; exact h2
    · show BT.Inv (BT.invalidateLast ⟨(treePut s.tree k fn).1, s.lastKey, s.last⟩ k)
      apply bt_inv_invalidate (t := s.tree) hk' hlt' hc
      intro k' hne; rw [hget k']; simp [hne]
    · intro k'
      rw [lk_bt, lk_bt, lk_bt]
      show tGet (BT.invalidateLast ⟨(treePut s.tree k fn).1, s.lastKey, s.last⟩ k).tree k' = _
      rw [invalidate_tree]; exact hget k'
  everyOpt := by
    intro p s h hs hh
    obtain ⟨hk, hlt, hc⟩ := hs
    have hptr : ∀ e ∈ s.tree, e.2 < h.length := by
      intro e he
      exact hh.ptr e.1 e.2 (by rw [lk_bt]; exact lookup_eq_some_of_mem hk he)
    have hnd : (s.tree.map Prod.snd).Nodup := by
      apply ids_nodup hk
      intro k k' i h1 h2
      exact hh.inj k k' i (by rw [lk_bt]; exact h1) (by rw [lk_bt]; exact h2)
    obtain ⟨⟨ex, hex⟩, hsub, hids, hnd2, hcont⟩ := btEvery_opt p s.tree h false hk hptr hnd
    show BT.Inv (BT.updateEvery s h (optFn p)).1 ∧
      HeapOK btColl (BT.updateEvery s h (optFn p)).1 (BT.updateEvery s h (optFn p)).2 ∧
      ∀ k, contentsOf btColl (BT.updateEvery s h (optFn p)).1 (BT.updateEvery s h (optFn p)).2 k
        = contentsOf btColl s h k
    unfold BT.updateEvery
    simp only
    have hk2 : KeysAsc (btEvery (optFn p) h s.tree false).1 := Pairwise.sublist hsub hk
    have hlt2 : ∀ e ∈ (btEvery (optFn p) h s.tree false).1, e.1 < INVALID := by
      intro e he
      have : e.1 ∈ s.tree.map Prod.fst := hsub.subset (mem_map.mpr ⟨e, he, rfl⟩)
      obtain ⟨e', he', hee⟩ := mem_map.mp this
      rw [← hee]; exact hlt e' he'
    refine ⟨⟨hk2, hlt2, tGet_invalid hlt2⟩, ⟨?_, ?_, ?_⟩, ?_⟩
    · intro k i hl
      rw [lk_bt] at hl
      rcases hids _ (mem_of_lookup_eq_some hl) with hm | hm
      · have := hptr _ hm; rw [hex]; simp at this ⊢; omega
      · exact hm.2
    · intro k i hl
      rw [lk_bt] at hl
      have hc1 := hcont k
      unfold tCont at hc1
      simp only [hl] at hc1
      rw [hc1]
      cases hg : tGet s.tree k with
      | none => exact ⟨asc_nil, by simp⟩
      | some i' => exact hh.cell k i' (by rw [lk_bt]; exact hg)
    · intro k k' i h1 h2
      rw [lk_bt] at h1 h2
      exact key_eq_of_ids_nodup hnd2 (mem_of_lookup_eq_some h1) (mem_of_lookup_eq_some h2)
    · intro k
      rw [bt_contentsOf, bt_contentsOf]; exact hcont k
  reset := by
    intro s
    refine ⟨⟨?_, ?_, ?_⟩, ?_⟩
    · simp [btColl, BT.reset, KeysAsc, Asc]
    · intro e he; simp [btColl, BT.reset] at he
    · simp [btColl, BT.reset, BT.Coherent, tGet]
    · simp [btColl, BT.reset]

end PV.C02
