/-
C02 helper lemmas, part 6: the Bitmap code over any collection that satisfies `CollOK`.
`Good` = the collection invariant (including lookaside coherence) + heap well-formedness
(stored pointers valid, containers well-formed, no container shared between two keys).
-/
import PV.C02.LemmasColl
import PV.C02.LemmasFlat
namespace PV.C02
open List

variable {σ : Type}

structure Good (C : Coll σ) (ok : CollOK C) (b : BM σ) : Prop where
  inv : ok.Inv b.c
  heap : HeapOK C b.c b.h

/-- Contents stored under key `k`. -/
def cont (C : Coll σ) (b : BM σ) (k : Nat) : Cell := contentsOf C b.c b.h k

/-- The containers the container iterator walks, with their contents. -/
def cells (C : Coll σ) (b : BM σ) : List (Nat × Cell) :=
  (iterEnts C b).map (fun e => (e.1, hget b.h e.2))

theorem cont_of_lk_none {C : Coll σ} {b : BM σ} {k : Nat} (h : lk C b.c k = none) : cont C b k = [] := by
  unfold cont contentsOf; rw [h]

theorem cont_of_lk_some {C : Coll σ} {b : BM σ} {k i : Nat} (h : lk C b.c k = some i) :
    cont C b k = hget b.h i := by
  unfold cont contentsOf; rw [h]

theorem cont_cellOK {C : Coll σ} {ok : CollOK C} {b : BM σ} (hg : Good C ok b) (k : Nat) :
    CellOK (cont C b k) := by
  cases h : lk C b.c k with
  | none => rw [cont_of_lk_none h]; exact ⟨asc_nil, by simp⟩
  | some i => rw [cont_of_lk_some h]; exact hg.heap.cell k i h

/-! ### Reads -/

theorem mem_iterEnts {C : Coll σ} {ok : CollOK C} {b : BM σ} (hg : Good C ok b) {k i : Nat} :
    (k, i) ∈ iterEnts C b ↔ lk C b.c k = some i := by
  have hk := ok.keys b.c hg.inv
  unfold iterEnts lk
  rw [mem_filterMap]
  constructor
  · rintro ⟨⟨k', c⟩, he, hf⟩
    cases c with
    | none => simp at hf
    | some j =>
      simp at hf; obtain ⟨rfl, rfl⟩ := hf
      rw [lookup_eq_some_of_mem hk he]; rfl
  · intro h
    cases hl : List.lookup k (C.ents b.c) with
    | none => rw [hl] at h; cases h
    | some c =>
      rw [hl] at h
      cases c with
      | none => cases h
      | some j =>
        have : j = i := by simpa using h
        subst this
        exact ⟨(k, some j), mem_of_lookup_eq_some hl, rfl⟩

theorem iterEnts_sorted {C : Coll σ} {ok : CollOK C} {b : BM σ} (hg : Good C ok b) :
    (iterEnts C b).Pairwise (fun a b => a.1 < b.1) := by
  have hk := ok.keys b.c hg.inv
  unfold KeysAsc Asc at hk
  rw [pairwise_map] at hk
  unfold iterEnts
  rw [pairwise_filterMap]
  refine Pairwise.imp ?_ hk
  intro a a' hlt x hx y hy
  cases ha : a.2 with
  | none => rw [ha] at hx; cases hx
  | some i =>
    cases ha' : a'.2 with
    | none => rw [ha'] at hy; cases hy
    | some j =>
      rw [ha] at hx; rw [ha'] at hy
      simp at hx hy; subst hx; subst hy; exact hlt

theorem cells_LOK {C : Coll σ} {ok : CollOK C} {b : BM σ} (hg : Good C ok b) : LOK (cells C b) where
  keys := by
    unfold cells; rw [pairwise_map]; exact iterEnts_sorted hg
  cells := by
    intro e he
    obtain ⟨⟨k, i⟩, hm, rfl⟩ := mem_map.mp he
    exact hg.heap.cell k i ((mem_iterEnts hg).mp hm)

theorem mem_cells {C : Coll σ} {ok : CollOK C} {b : BM σ} (hg : Good C ok b) {k : Nat} {c : Cell} :
    (k, c) ∈ cells C b ↔ ∃ i, lk C b.c k = some i ∧ c = hget b.h i := by
  unfold cells
  rw [mem_map]
  constructor
  · rintro ⟨⟨k', i⟩, hm, he⟩
    simp at he; obtain ⟨rfl, rfl⟩ := he
    exact ⟨i, (mem_iterEnts hg).mp hm, rfl⟩
  · rintro ⟨i, hl, rfl⟩
    exact ⟨(k, i), (mem_iterEnts hg).mpr hl, rfl⟩

theorem slice_eq_flat (C : Coll σ) (b : BM σ) : slice C b = flat (cells C b) := by
  unfold slice flat cells; rw [flatMap_map]

theorem mem_slice {C : Coll σ} {ok : CollOK C} {b : BM σ} (hg : Good C ok b) {v : Nat} :
    v ∈ slice C b ↔ v % W ∈ cont C b (v / W) := by
  rw [slice_eq_flat, mem_flat (cells_LOK hg)]
  constructor
  · rintro ⟨c, hc, hx⟩
    obtain ⟨i, hl, rfl⟩ := (mem_cells hg).mp hc
    rw [cont_of_lk_some hl]; exact hx
  · intro hx
    cases hl : lk C b.c (v / W) with
    | none => rw [cont_of_lk_none hl] at hx; cases hx
    | some i =>
      rw [cont_of_lk_some hl] at hx
      exact ⟨hget b.h i, (mem_cells hg).mpr ⟨i, hl, rfl⟩, hx⟩

theorem asc_slice {C : Coll σ} {ok : CollOK C} {b : BM σ} (hg : Good C ok b) : Asc (slice C b) := by
  rw [slice_eq_flat]; exact asc_flat (cells_LOK hg)

/-- The ascending list with the right members is the slice. -/
theorem slice_unique {C : Coll σ} {ok : CollOK C} {b : BM σ} (hg : Good C ok b) {L : List Nat}
    (hL : Asc L) (hm : ∀ v, v ∈ L ↔ v % W ∈ cont C b (v / W)) : slice C b = L :=
  asc_ext (asc_slice hg) hL (fun v => by rw [mem_slice hg, hm])

theorem contains_spec {C : Coll σ} {ok : CollOK C} {b : BM σ} (hg : Good C ok b) (v : Nat) :
    Good C ok (contains C b v).1 ∧ (∀ k, cont C (contains C b v).1 k = cont C b k) ∧
    (contains C b v).2 = (slice C b).contains v := by
  obtain ⟨hi, hp, he⟩ := ok.get b.c (v / W) hg.inv
  have hlk : ∀ k, lk C (C.get b.c (v / W)).1 k = lk C b.c k := by intro k; unfold lk; rw [he]
  refine ⟨⟨hi, ⟨?_, ?_, ?_⟩⟩, ?_, ?_⟩
  · intro k i h; exact hg.heap.ptr k i (by rw [← hlk]; exact h)
  · intro k i h; exact hg.heap.cell k i (by rw [← hlk]; exact h)
  · intro k k' i h1 h2; exact hg.heap.inj k k' i (by rw [← hlk]; exact h1) (by rw [← hlk]; exact h2)
  · intro k; unfold cont contentsOf; simp only [contains]; rw [hlk]
  · simp only [contains]
    rw [hp, Bool.eq_iff_iff, contains_iff_mem, mem_slice hg]
    cases hl : lk C b.c (v / W) with
    | none => rw [cont_of_lk_none hl]; simp
    | some i => rw [cont_of_lk_some hl]; simp

theorem count_spec {C : Coll σ} {ok : CollOK C} {b : BM σ} (_hg : Good C ok b) :
    count C b = (slice C b).length := by
  rw [slice_eq_flat, length_flat]
  unfold count cells iterEnts
  generalize C.ents b.c = es
  induction es with
  | nil => rfl
  | cons e r ih =>
    obtain ⟨k, c⟩ := e
    cases c with
    | none => simpa [cN] using ih
    | some i =>
      simp only [map_cons, sum_cons, filterMap_cons, Option.map_some, ih]
      rfl

/-! ### One kernel application at the pointer stored for a key -/

/-- How a kernel may hand back the contents `cell'` for the container behind `c` (heap `h`). -/
def Shape (h : Heap) (c : Ptr) (old : Cell) (cell' : Cell) (r : Heap × Ptr × Bool) : Prop :=
  (r.1 = h ∧ r.2.1 = c ∧ cell' = old) ∨
  (∃ i, c = some i ∧ r.1 = hset h i cell' ∧ r.2.1 = some i) ∨
  (r.1 = h ++ [cell'] ∧ r.2.1 = some h.length) ∨
  (r.1 = h ∧ r.2.1 = none ∧ cell' = [])

theorem apply_shape {C : Coll σ} (ok : CollOK C) (b1 : BM σ) (k : Nat) (c : Ptr) (cell' : Cell)
    (r : Heap × Ptr × Bool) (hg : Good C ok b1) (hk : k < INVALID) (hc : c = lk C b1.c k)
    (hcell : CellOK cell') (hr : Shape b1.h c (cont C b1 k) cell' r) :
    Good C ok ⟨if r.2.1 != c then C.put b1.c k r.2.1 else b1.c, r.1⟩ ∧
    lk C (if r.2.1 != c then C.put b1.c k r.2.1 else b1.c) k = r.2.1 ∧
    cont C ⟨if r.2.1 != c then C.put b1.c k r.2.1 else b1.c, r.1⟩ k = cell' ∧
    ∀ k', k' ≠ k → cont C ⟨if r.2.1 != c then C.put b1.c k r.2.1 else b1.c, r.1⟩ k' = cont C b1 k' := by
  obtain ⟨rh, rc, rb⟩ := r
  obtain ⟨hpi, hpl⟩ := ok.put b1.c k rc hg.inv hk
  simp only [Shape] at hr
  simp only
  rcases hr with ⟨h1, h2, h3⟩ | ⟨i, hci, h1, h2⟩ | ⟨h1, h2⟩ | ⟨h1, h2, h3⟩
  · -- unchanged
    subst h1; subst h2
    have hne : (rc != rc) = false := by simp
    simp only [hne, Bool.false_eq_true, ↓reduceIte]
    exact ⟨hg, hc.symm, h3.symm, fun _ _ => trivial⟩
  · -- in place
    subst h1; subst h2; subst hci
    have hne : (some i != some i) = false := by simp
    simp only [hne, Bool.false_eq_true, ↓reduceIte]
    have hli : lk C b1.c k = some i := hc.symm
    have hil : i < b1.h.length := hg.heap.ptr k i hli
    refine ⟨⟨hg.inv, ⟨?_, ?_, ?_⟩⟩, hli, ?_, ?_⟩
    · intro k' j hl; show j < (hset b1.h i cell').length; rw [length_hset]; exact hg.heap.ptr k' j hl
    · intro k' j hl
      by_cases hj : i = j
      · subst hj; show CellOK (hget (hset b1.h i cell') i); rw [hget_hset_eq hil]; exact hcell
      · show CellOK (hget (hset b1.h i cell') j); rw [hget_hset_ne hj]; exact hg.heap.cell k' j hl
    · exact hg.heap.inj
    · show contentsOf C b1.c (hset b1.h i cell') k = cell'
      unfold contentsOf; rw [hli]; exact hget_hset_eq hil
    · intro k' hne'
      show contentsOf C b1.c (hset b1.h i cell') k' = contentsOf C b1.c b1.h k'
      unfold contentsOf
      cases hl : lk C b1.c k' with
      | none => rfl
      | some j =>
        have : i ≠ j := by
          intro e; subst e; exact hne' (hg.heap.inj k' k i hl hli)
        exact hget_hset_ne this
  · -- new object
    subst h1; subst h2
    have hne : (some b1.h.length != c) = true := by
      rw [hc]
      cases hl : lk C b1.c k with
      | none => simp
      | some i => have := hg.heap.ptr k i hl; simp; omega
    simp only [hne, ↓reduceIte]
    refine ⟨⟨hpi, ⟨?_, ?_, ?_⟩⟩, by rw [hpl]; simp, ?_, ?_⟩
    · intro k' j hl
      have hl' : lk C (C.put b1.c k (some b1.h.length)) k' = some j := hl
      rw [hpl] at hl'
      show j < (b1.h ++ [cell']).length
      simp only [length_append, length_cons, length_nil]
      split at hl'
      · cases hl'; omega
      · have := hg.heap.ptr k' j hl'; omega
    · intro k' j hl
      have hl' : lk C (C.put b1.c k (some b1.h.length)) k' = some j := hl
      rw [hpl] at hl'
      split at hl'
      · cases hl'; show CellOK (hget (b1.h ++ [cell']) b1.h.length); rw [hget_append_eq]; exact hcell
      · show CellOK (hget (b1.h ++ [cell']) j)
        rw [hget_append_lt (hg.heap.ptr k' j hl')]; exact hg.heap.cell k' j hl'
    · intro k1 k2 j hl1 hl2
      have hl1' : lk C (C.put b1.c k (some b1.h.length)) k1 = some j := hl1
      have hl2' : lk C (C.put b1.c k (some b1.h.length)) k2 = some j := hl2
      rw [hpl] at hl1' hl2'
      split at hl1' <;> split at hl2'
      · rename_i e1 e2; rw [e1, e2]
      · cases hl1'; have := hg.heap.ptr k2 _ hl2'; omega
      · cases hl2'; have := hg.heap.ptr k1 _ hl1'; omega
      · exact hg.heap.inj k1 k2 j hl1' hl2'
    · show contentsOf C (C.put b1.c k (some b1.h.length)) (b1.h ++ [cell']) k = cell'
      unfold contentsOf; rw [hpl]; simp only [↓reduceIte]; exact hget_append_eq
    · intro k' hne'
      show contentsOf C (C.put b1.c k (some b1.h.length)) (b1.h ++ [cell']) k' = contentsOf C b1.c b1.h k'
      unfold contentsOf; rw [hpl]; simp only [hne', ↓reduceIte]
      cases hl : lk C b1.c k' with
      | none => rfl
      | some j => exact hget_append_lt (hg.heap.ptr k' j hl)
  · -- nil
    subst h1; subst h2; subst h3
    by_cases hcn : c = none
    · have hne : ((none : Ptr) != c) = false := by rw [hcn]; rfl
      simp only [hne, Bool.false_eq_true, ↓reduceIte]
      have hl : lk C b1.c k = none := by rw [← hc, hcn]
      exact ⟨hg, hl, cont_of_lk_none hl, fun _ _ => trivial⟩
    · have hne : ((none : Ptr) != c) = true := by
        cases c with
        | none => exact absurd rfl hcn
        | some i => rfl
      simp only [hne, ↓reduceIte]
      refine ⟨⟨hpi, ⟨?_, ?_, ?_⟩⟩, by rw [hpl]; simp, ?_, ?_⟩
      · intro k' j hl
        have hl' : lk C (C.put b1.c k none) k' = some j := hl
        rw [hpl] at hl'; split at hl'
        · cases hl'
        · exact hg.heap.ptr k' j hl'
      · intro k' j hl
        have hl' : lk C (C.put b1.c k none) k' = some j := hl
        rw [hpl] at hl'; split at hl'
        · cases hl'
        · exact hg.heap.cell k' j hl'
      · intro k1 k2 j hl1 hl2
        have hl1' : lk C (C.put b1.c k none) k1 = some j := hl1
        have hl2' : lk C (C.put b1.c k none) k2 = some j := hl2
        rw [hpl] at hl1' hl2'
        split at hl1'
        · cases hl1'
        · split at hl2'
          · cases hl2'
          · exact hg.heap.inj k1 k2 j hl1' hl2'
      · show contentsOf C (C.put b1.c k none) b1.h k = []
        unfold contentsOf; rw [hpl]; simp
      · intro k' hne'
        show contentsOf C (C.put b1.c k none) b1.h k' = contentsOf C b1.c b1.h k'
        unfold contentsOf; rw [hpl]; simp [hne']

/-- What a container kernel (`add` / `remove`) does to the contents, and what it reports. -/
structure KSpec (op : Policy → Heap → Ptr → Nat → Heap × Ptr × Bool) (g : Nat → Cell → Cell)
    (chg : Nat → Cell → Bool) : Prop where
  ok : ∀ x cell, x < W → CellOK cell → CellOK (g x cell)
  shape : ∀ (p : Policy) (h : Heap) (c : Ptr) (x : Nat) (old : Cell),
    old = pcell h c → Asc old →
    Shape h c old (g x old) (op p h c x) ∧ (op p h c x).2.2 = chg x old

theorem kAdd : KSpec cAdd insertAsc (fun x c => !c.contains x) where
  ok := by
    intro x cell hx hc
    refine ⟨asc_insertAsc hc.1, ?_⟩
    intro y hy; rcases mem_insertAsc.mp hy with rfl | hy
    · exact hx
    · exact hc.2 y hy
  shape := by
    intro p h c x old hold hasc
    cases c with
    | none =>
      simp only [pcell] at hold; subst hold
      exact ⟨Or.inr (Or.inr (Or.inl ⟨rfl, rfl⟩)), rfl⟩
    | some i =>
      simp only [pcell] at hold; subst hold
      unfold cAdd
      by_cases hm : (hget h i).contains x = true
      · simp only [hm, ↓reduceIte]
        refine ⟨Or.inl ⟨rfl, rfl, ?_⟩, by simp⟩
        exact insertAsc_of_mem hasc (by simpa using hm)
      · have hm' : (hget h i).contains x = false := by simpa using hm
        simp only [hm', Bool.false_eq_true, ↓reduceIte]
        by_cases hf : p.addFresh (hget h i) x = true
        · simp only [hf, ↓reduceIte]
          exact ⟨Or.inr (Or.inr (Or.inl ⟨rfl, rfl⟩)), by simp⟩
        · simp only [hf]
          exact ⟨Or.inr (Or.inl ⟨i, rfl, rfl, rfl⟩), by simp⟩

theorem kRemove : KSpec cRemove eraseAsc (fun x c => c.contains x) where
  ok := by
    intro x cell _ hc
    exact ⟨asc_eraseAsc hc.1, fun y hy => hc.2 y (mem_eraseAsc.mp hy).1⟩
  shape := by
    intro p h c x old hold hasc
    cases c with
    | none =>
      simp only [pcell] at hold; subst hold
      exact ⟨Or.inl ⟨rfl, rfl, rfl⟩, rfl⟩
    | some i =>
      simp only [pcell] at hold; subst hold
      unfold cRemove
      by_cases hm : (hget h i).contains x = true
      · simp only [hm, Bool.not_true, Bool.false_eq_true, ↓reduceIte]
        by_cases h1 : (hget h i).length = 1
        · simp only [h1, ↓reduceIte]
          refine ⟨Or.inr (Or.inr (Or.inr ⟨rfl, rfl, ?_⟩)), by first | rfl | trivial⟩
          have hx : x ∈ hget h i := by simpa using hm
          match hh : hget h i, h1, hx with
          | [y], _, hx =>
            have : x = y := by simpa using hx
            subst this; simp [eraseAsc]
        · simp only [h1, ↓reduceIte]
          by_cases hf : p.removeFresh (hget h i) x = true
          · simp only [hf, ↓reduceIte]
            exact ⟨Or.inr (Or.inr (Or.inl ⟨rfl, rfl⟩)), by first | rfl | trivial⟩
          · simp only [hf]
            exact ⟨Or.inr (Or.inl ⟨i, rfl, rfl, rfl⟩), by first | rfl | trivial⟩
      · have hm' : (hget h i).contains x = false := by simpa using hm
        simp only [hm', Bool.not_false, ↓reduceIte]
        refine ⟨Or.inl ⟨rfl, rfl, ?_⟩, by first | rfl | trivial⟩
        exact eraseAsc_of_not_mem (by simpa using hm')

/-- One kernel call on the container of key `k`, followed by the conditional `Put`. -/
theorem apply_op {C : Coll σ} (ok : CollOK C) {op g chg} (ks : KSpec op g chg) (p : Policy)
    (b1 : BM σ) (k x : Nat) (c : Ptr) (hg : Good C ok b1) (hk : k < INVALID) (hx : x < W)
    (hc : c = lk C b1.c k) :
    Good C ok ⟨if (op p b1.h c x).2.1 != c then C.put b1.c k (op p b1.h c x).2.1 else b1.c, (op p b1.h c x).1⟩ ∧
    lk C (if (op p b1.h c x).2.1 != c then C.put b1.c k (op p b1.h c x).2.1 else b1.c) k = (op p b1.h c x).2.1 ∧
    cont C ⟨if (op p b1.h c x).2.1 != c then C.put b1.c k (op p b1.h c x).2.1 else b1.c, (op p b1.h c x).1⟩ k
      = g x (cont C b1 k) ∧
    (∀ k', k' ≠ k →
      cont C ⟨if (op p b1.h c x).2.1 != c then C.put b1.c k (op p b1.h c x).2.1 else b1.c, (op p b1.h c x).1⟩ k'
        = cont C b1 k') ∧
    (op p b1.h c x).2.2 = chg x (cont C b1 k) := by
  have hold : cont C b1 k = pcell b1.h c := by
    rw [hc]; unfold cont contentsOf pcell; cases lk C b1.c k <;> rfl
  have hcok := cont_cellOK hg k
  obtain ⟨hs, hch⟩ := ks.shape p b1.h c x (cont C b1 k) hold hcok.1
  obtain ⟨h1, h2, h3, h4⟩ := apply_shape ok b1 k c (g x (cont C b1 k)) (op p b1.h c x) hg hk hc
    (ks.ok x _ hx hcok) hs
  exact ⟨h1, h2, h3, h4, hch⟩

theorem goc_spec {C : Coll σ} (ok : CollOK C) (b : BM σ) (k : Nat) (hg : Good C ok b) (hk : k < INVALID) :
    Good C ok ⟨(C.getOrCreate b.c b.h k).1, (C.getOrCreate b.c b.h k).2.1⟩ ∧
    (C.getOrCreate b.c b.h k).2.2 = lk C (C.getOrCreate b.c b.h k).1 k ∧
    ∀ k', cont C ⟨(C.getOrCreate b.c b.h k).1, (C.getOrCreate b.c b.h k).2.1⟩ k' = cont C b k' := by
  obtain ⟨hi, hp, hother, hcase⟩ := ok.goc b.c b.h k hg.inv hk
  rcases hcase with ⟨h1, h2⟩ | ⟨h1, h2, h3⟩
  · have hlk : ∀ k', lk C (C.getOrCreate b.c b.h k).1 k' = lk C b.c k' := by
      intro k'
      by_cases e : k' = k
      · subst e; rw [← hp, h1]
      · exact hother k' e
    rw [h2]
    refine ⟨⟨hi, ⟨?_, ?_, ?_⟩⟩, hp, ?_⟩
    · intro k' j hl; rw [hlk] at hl; exact hg.heap.ptr k' j hl
    · intro k' j hl; rw [hlk] at hl; exact hg.heap.cell k' j hl
    · intro k1 k2 j h1' h2'; rw [hlk] at h1' h2'; exact hg.heap.inj k1 k2 j h1' h2'
    · intro k'; unfold cont contentsOf; rw [hlk]
  · rw [h3]
    have hlkk : lk C (C.getOrCreate b.c b.h k).1 k = some b.h.length := by rw [← hp, h2]
    refine ⟨⟨hi, ⟨?_, ?_, ?_⟩⟩, hp, ?_⟩
    · intro k' j hl
      simp only [length_append, length_cons, length_nil]
      by_cases e : k' = k
      · subst e; rw [hlkk] at hl; cases hl; omega
      · rw [hother k' e] at hl; have := hg.heap.ptr k' j hl; omega
    · intro k' j hl
      by_cases e : k' = k
      · subst e; rw [hlkk] at hl; cases hl
        show CellOK (hget (b.h ++ [[]]) b.h.length)
        rw [hget_append_eq]; exact ⟨asc_nil, by simp⟩
      · rw [hother k' e] at hl
        show CellOK (hget (b.h ++ [[]]) j)
        rw [hget_append_lt (hg.heap.ptr k' j hl)]; exact hg.heap.cell k' j hl
    · intro k1 k2 j hl1 hl2
      by_cases e1 : k1 = k <;> by_cases e2 : k2 = k
      · rw [e1, e2]
      · subst e1; rw [hlkk] at hl1; cases hl1
        rw [hother k2 e2] at hl2; have := hg.heap.ptr k2 _ hl2; omega
      · subst e2; rw [hlkk] at hl2; cases hl2
        rw [hother k1 e1] at hl1; have := hg.heap.ptr k1 _ hl1; omega
      · rw [hother k1 e1] at hl1; rw [hother k2 e2] at hl2; exact hg.heap.inj k1 k2 j hl1 hl2
    · intro k'
      unfold cont contentsOf
      by_cases e : k' = k
      · subst e; simp only [hlkk, h1]; exact hget_append_eq
      · simp only [hother k' e]
        cases hl : lk C b.c k' with
        | none => rfl
        | some j => exact hget_append_lt (hg.heap.ptr k' j hl)

end PV.C02
